// Conformance harness, family "bspline" (property C13): executes smooth::BSpline<K, G> of the real
// library and records every operand and result exactly (ndjson).  TLC validates the trace with
// spec/TraceBSpline.tla.  One group type per translation unit (-DVH_GROUP=<n>), all degrees 1..6
// (or one, -DVH_ONLY_K=<k>); the degree of a run is chosen with --K.
//
// The harness never judges a result.  It works on a list of operations ("program"):
//   spline <slot> <kind> <idx> <N> <t0> <dt> | c(1,1) ... c(N,Rep) [| h(1) ... h(Rep)]
//        construct BSpline<K,G>(t0, dt, ctrl) in slot A or B; kind in gen|const|local|equiv is an
//        annotation (what the generator intended: idx = moved control point, h = left factor) that the
//        specification re-derives from the logged control points
//   eval <slot> <t>              value, velocity, acceleration at t
//   smooth <slot> <ta> <tb>      the same at two times (both sides of a knot)
//   rel <t>                      slot A and slot B at the same time (locality / equivariance)
//   const <t>                    slot A at t (constant control points)
// Programs come from the seeded generator below (--gen) or from a file (--prog; replays, witnesses).
#include <smooth/bundle.hpp>
#include <smooth/lie_groups/native.hpp>
#include <smooth/se2.hpp>
#include <smooth/se3.hpp>
#include <smooth/so2.hpp>
#include <smooth/so3.hpp>
#include <smooth/spline/bspline.hpp>

#include <algorithm>
#include <memory>

#include "common.hpp"
#include "lie_desc.hpp"

using namespace vh;

// clang-format off
#if VH_GROUP == 1
using G0 = smooth::SO3<double>;
#elif VH_GROUP == 2
using G0 = smooth::SE2<double>;
#elif VH_GROUP == 3
using G0 = smooth::SE3<double>;
#elif VH_GROUP == 8
using G0 = Eigen::Matrix<double, 3, 1>;
#elif VH_GROUP == 9
using G0 = smooth::Bundle<smooth::SO3<double>, Eigen::Matrix<double, 3, 1>>;
#elif VH_GROUP == 20
using G0 = smooth::Bundle<smooth::SE2<double>, Eigen::Matrix<double, 1, 1>, smooth::SO3<double>>;
#elif VH_GROUP == 21
using G0 = Eigen::Matrix<double, 1, 1>;
#else
#error "unknown VH_GROUP"
#endif
// clang-format on

struct Op
{
  std::string op;      // spline | eval | smooth | rel | const
  std::string slot;    // A | B
  std::string kind;    // spline: gen | const | local | equiv
  long idx = -1;       // spline: moved control point
  long N   = 0;
  double t0 = 0, dt = 1;
  std::vector<double> ctrl;  // N * Rep
  std::vector<double> h;     // Rep (equiv)
  double t = 0, tb = 0;
};

template<typename G>
struct Run
{
static constexpr int DOF = smooth::Dof<G>;
using Tan  = Eigen::Matrix<double, DOF, 1>;
using Dsc  = Desc<G>;
static constexpr int REP = Dsc::Rep;
using Coef = Eigen::Matrix<double, REP, 1>;

static G from_coeffs(const double * c)
{
  G g = smooth::Identity<G>();
  Dsc::set(g, c);
  return g;
}
static Coef coeffs_of(const G & g)
{
  Coef c;
  Dsc::get(g, c.data());
  return c;
}

struct Out
{
  Coef val;
  Tan vel, acc;
};

// type-erased spline of run-time degree
struct SplBase
{
  virtual ~SplBase()                = default;
  virtual Out eval(double t) const  = 0;
  virtual double t_min() const      = 0;
  virtual double t_max() const      = 0;
  virtual double dt() const         = 0;
  virtual std::size_t npts() const  = 0;
};
template<int K>
struct Spl : SplBase
{
  smooth::BSpline<K, G> s;
  Spl(double t0, double dt, const std::vector<G> & pts) : s(t0, dt, pts) {}
  Out eval(double t) const override
  {
    Out o;
    o.vel.setConstant(std::numeric_limits<double>::quiet_NaN());
    o.acc.setConstant(std::numeric_limits<double>::quiet_NaN());
    const G g = s(t, o.vel, o.acc);   // BSpline::operator()(t, vel, acc)
    o.val     = coeffs_of(g);
    return o;
  }
  double t_min() const override { return s.t_min(); }
  double t_max() const override { return s.t_max(); }
  double dt() const override { return s.dt(); }
  std::size_t npts() const override { return s.ctrl_pts().size(); }
};

static std::unique_ptr<SplBase> make(int K, double t0, double dt, const std::vector<G> & pts)
{
  switch (K) {
#if !defined(VH_ONLY_K) || VH_ONLY_K == 1
  case 1: return std::make_unique<Spl<1>>(t0, dt, pts);
#endif
#if !defined(VH_ONLY_K) || VH_ONLY_K == 2
  case 2: return std::make_unique<Spl<2>>(t0, dt, pts);
#endif
#if !defined(VH_ONLY_K) || VH_ONLY_K == 3
  case 3: return std::make_unique<Spl<3>>(t0, dt, pts);
#endif
#if !defined(VH_ONLY_K) || VH_ONLY_K == 4
  case 4: return std::make_unique<Spl<4>>(t0, dt, pts);
#endif
#if !defined(VH_ONLY_K) || VH_ONLY_K == 5
  case 5: return std::make_unique<Spl<5>>(t0, dt, pts);
#endif
#if !defined(VH_ONLY_K) || VH_ONLY_K == 6
  case 6: return std::make_unique<Spl<6>>(t0, dt, pts);
#endif
  default: return nullptr;
  }
}

struct Ctx
{
  Sink sink;
  std::string gj;
  int K = 3;
  std::unique_ptr<SplBase> A, B;
  Ev ev(const char * op)
  {
    Ev e;
    e.str("op", op);
    return e;
  }
};

static void put_out(Ev & e, const char * kv, const char * kw, const char * ka, const Out & o)
{
  e.vec(kv, o.val).vec(kw, o.vel).vec(ka, o.acc);
}

// ------------------------------------------------------------------ execution of one operation
static bool exec(Ctx & c, const Op & o)
{
  if (o.op == "spline") {
    std::vector<G> pts;
    for (long j = 0; j < o.N; ++j) pts.push_back(from_coeffs(&o.ctrl[static_cast<std::size_t>(j * REP)]));
    auto s = make(c.K, o.t0, o.dt, pts);
    if (!s) return false;
    auto e = c.ev("spline");
    e.str("slot", o.slot).str("kind", o.kind).num("idx", o.idx).num("K", c.K).num("N", o.N).raw("g", c.gj);
    e.dbl("t0", o.t0).dbl("dt", o.dt);
    {
      std::string m = "[";
      for (long j = 0; j < o.N; ++j) {
        if (j) m += ',';
        qvec(m, coeffs_of(pts[static_cast<std::size_t>(j)]));
      }
      m += "]";
      e.raw("ctrl", m);
    }
    {
      // witnesses for the specification: the library's own differences log(g_{j-1}^-1 g_j)
      // (the same call cspline_eval_gs makes); the specification verifies them with its own exponential
      std::string m = "[";
      for (long j = 1; j < o.N; ++j) {
        if (j > 1) m += ',';
        const Tan v = smooth::rminus(pts[static_cast<std::size_t>(j)], pts[static_cast<std::size_t>(j - 1)]);
        qvec(m, v);
      }
      m += "]";
      e.raw("lg", m);
    }
    e.dbl("tmin", s->t_min()).dbl("tmax", s->t_max()).dbl("dtq", s->dt()).num("npts", static_cast<long>(s->npts()));
    if (!o.h.empty()) e.vec("h", o.h);
    c.sink.emit(e);
    if (o.slot == "A") c.A = std::move(s);
    else c.B = std::move(s);
    return true;
  }
  if (o.op == "eval") {
    SplBase * s = o.slot == "A" ? c.A.get() : c.B.get();
    if (!s) return false;
    const Out r = s->eval(o.t);
    auto e      = c.ev("eval");
    e.str("slot", o.slot).dbl("t", o.t);
    put_out(e, "val", "vel", "acc", r);
    c.sink.emit(e);
    return true;
  }
  if (o.op == "smooth") {
    SplBase * s = o.slot == "A" ? c.A.get() : c.B.get();
    if (!s) return false;
    const Out ra = s->eval(o.t);
    const Out rb = s->eval(o.tb);
    auto e       = c.ev("smooth");
    e.str("slot", o.slot).dbl("t", o.t).dbl("tb", o.tb);
    put_out(e, "val", "vel", "acc", ra);
    put_out(e, "valb", "velb", "accb", rb);
    c.sink.emit(e);
    return true;
  }
  if (o.op == "rel") {
    if (!c.A || !c.B) return false;
    const Out ra = c.A->eval(o.t);
    const Out rb = c.B->eval(o.t);
    auto e       = c.ev("rel");
    e.dbl("t", o.t);
    put_out(e, "val", "vel", "acc", ra);
    put_out(e, "valb", "velb", "accb", rb);
    c.sink.emit(e);
    return true;
  }
  if (o.op == "const") {
    if (!c.A) return false;
    const Out r = c.A->eval(o.t);
    auto e      = c.ev("const");
    e.dbl("t", o.t);
    put_out(e, "val", "vel", "acc", r);
    c.sink.emit(e);
    return true;
  }
  return false;
}

// ------------------------------------------------------------------ generator (proposes inputs only)
struct GenCtx
{
  Rng rng{1};
  std::vector<Field> fields;
};

// tangent with prescribed norm of every rotating part
static Tan tangent(GenCtx & g, double theta_lo, double theta_hi, bool logu, double tscale)
{
  Tan a = Tan::Zero();
  for (const auto & f : g.fields) {
    if (f.kind == TRANS) {
      for (int i = 0; i < f.n; ++i) a(f.toff + i) = tscale * g.rng.uni(-1, 1);
      continue;
    }
    double th = theta_hi <= 0 ? 0.0 : (logu ? g.rng.loguni(theta_lo, theta_hi) : g.rng.uni(theta_lo, theta_hi));
    if (f.kind == QUAT) {
      double d[3];
      sample_dir3(g.rng, 2, d);
      for (int i = 0; i < 3; ++i) a(f.toff + i) = d[i] * th;
    } else if (f.kind == CPLX) {
      a(f.toff) = g.rng.sign() * th;
    }
  }
  return a;
}

static std::vector<double> flat(const std::vector<G> & pts)
{
  std::vector<double> c;
  for (const auto & p : pts) {
    const Coef q = coeffs_of(p);
    for (int i = 0; i < REP; ++i) c.push_back(q(i));
  }
  return c;
}

// profile of the control-point differences
//  0 generic (rotation 0.1..2.5)   1 small (1e-7..1e-2)   2 mixed: zeros, tiny, generic, large (.. pi-0.05)
//  3 near the injectivity radius (pi-1e-2 .. pi-1e-3) mixed with generic
static std::vector<G> control_points(GenCtx & g, long N, int profile)
{
  std::vector<G> pts;
  pts.push_back(smooth::exp<G>(tangent(g, 0.0, 3.0, false, 3.0)));
  for (long j = 1; j < N; ++j) {
    Tan v;
    int cls = profile;
    if (profile == 2) cls = 10 + g.rng.idx(5);
    if (profile == 3) cls = g.rng.idx(2) ? 20 : 0;
    switch (cls) {
    case 0: v = tangent(g, 0.1, 2.5, false, 1.0); break;
    case 1: v = tangent(g, 1e-7, 1e-2, true, 1e-2); break;
    case 10: v = Tan::Zero(); break;
    case 11: v = tangent(g, 1e-12, 1e-6, true, 1e-6); break;
    case 12: v = tangent(g, 0.1, 2.5, false, 1.0); break;
    case 13: v = tangent(g, 2.5, M_PI - 0.05, false, 2.0); break;
    case 14: v = tangent(g, 0, 0, false, 1.0); break;   // pure translation
    case 20: v = tangent(g, M_PI - 1e-2, M_PI - 1e-3, false, 1.0); break;
    default: v = tangent(g, 0.1, 2.5, false, 1.0); break;
    }
    pts.push_back(smooth::composition(pts.back(), smooth::exp<G>(v)));
  }
  return pts;
}

static void add_spline(std::vector<Op> & prog, const char * slot, const char * kind, long idx, double t0, double dt, const std::vector<G> & pts, const std::vector<double> & h = {})
{
  Op o;
  o.op   = "spline";
  o.slot = slot;
  o.kind = kind;
  o.idx  = idx;
  o.N    = static_cast<long>(pts.size());
  o.t0   = t0;
  o.dt   = dt;
  o.ctrl = flat(pts);
  o.h    = h;
  prog.push_back(o);
}
static void add_t(std::vector<Op> & prog, const char * op, const char * slot, double t, double tb = 0)
{
  Op o;
  o.op   = op;
  o.slot = slot;
  o.t    = t;
  o.tb   = tb;
  prog.push_back(o);
}

static double ulps(double t, int n)
{
  double x = t;
  for (int i = 0; i < (n < 0 ? -n : n); ++i) x = std::nextafter(x, n < 0 ? -INFINITY : INFINITY);
  return x;
}

// times of interest of a spline with N points: every knot and its neighbours, ends, outside, interior
static std::vector<double> times(GenCtx & g, int K, long N, double t0, double dt, int nrand, int level)
{
  // level 2: every knot with all neighbours; 1: every knot (few knots) or every fourth, neighbours at some;
  // 0: the first two, the last and one inner knot only
  std::vector<double> ts;
  const long nk     = N - K;   // knots 0..nk
  const double tmax = t0 + static_cast<double>(nk) * dt;
  const long inner  = nk / 2;
  for (long k = 0; k <= nk; ++k) {
    const bool special = k <= 1 || k >= nk - 1 || k == inner;
    if (level == 0 && !special) continue;
    if (level == 1 && nk > 6 && !special && (k % 4) != 0) continue;
    const double tk = t0 + static_cast<double>(k) * dt;
    ts.push_back(tk);
    ts.push_back(ulps(tk, -1));
    ts.push_back(ulps(tk, 1));
    // w = one unit in the last place of the largest operand of t0 + k*dt (the scale on which the
    // floating-point index (t - t0)/dt can differ from the exact one)
    const double w = std::max({std::fabs(tk), std::fabs(t0), std::fabs(static_cast<double>(k) * dt)}) * 0x1p-52;
    if (level == 2 || (level == 1 && (k == 0 || k == nk || k == inner || k % 4 == 1))) {
      ts.push_back(tk - dt * 0x1p-20);
      ts.push_back(tk + dt * 0x1p-20);
      ts.push_back(tk - 3 * w);
      ts.push_back(tk + 3 * w);
      ts.push_back(tk - 6 * w);
      ts.push_back(tk + 6 * w);
    }
  }
  ts.push_back(t0);
  ts.push_back(tmax);
  ts.push_back(t0 - dt / 2);
  ts.push_back(tmax + dt / 2);
  ts.push_back(t0 - 1e3 * dt);
  ts.push_back(tmax + 1e3 * dt);
  // far outside: the floating-point interval index (t - t0)/dt exceeds 2^31 and 2^40 (a narrow index type wraps here)
  ts.push_back(tmax + 3e9 * dt);
  ts.push_back(t0 - 3e9 * dt);
  ts.push_back(tmax + 1e13 * dt);
  ts.push_back(t0 - 1e13 * dt);
  for (int i = 0; i < nrand; ++i) ts.push_back(g.rng.uni(t0, tmax));
  // the middle of the first and of the last interval
  ts.push_back(t0 + 0.5 * dt);
  ts.push_back(t0 + (static_cast<double>(nk) - 0.5) * dt);
  return ts;
}

// (t0, dt) strata: small, moderate and large start times (a UNIX time stamp with a non-dyadic fraction, 1e12),
// knot distances from a millisecond to ten seconds; a combination is admitted when the time resolution at
// t0 is at least a thousand steps per knot interval: ulp(t0) <= 1e-3 dt
struct Combo
{
  double t0, dt;
};
static double ulp_of(double x)
{
  const double a = std::fabs(x);
  return a == 0 ? 0.0 : std::nextafter(a, INFINITY) - a;
}
static std::vector<Combo> combos()
{
  const double stamp = 1.7e9 + 0.123456789;
  const double t0s[] = {0.0, 1.0, -1.0, -3.7, 1e3, stamp, -stamp, 1e12};
  const double dts[] = {0.001, 0.01, 0.1, 1.0 / 3.0, 1.0, 7.0, 10.0};
  std::vector<Combo> cs;
  for (double dt : dts)
    for (double t0 : t0s)
      if (ulp_of(t0) <= 1e-3 * dt) cs.push_back({t0, dt});
  return cs;
}

// one "case": base spline with its evaluations, smoothness pairs, moved control points, left factor, constants
static void gen_case(GenCtx & g, std::vector<Op> & prog, int K, long N, double t0, double dt, int profile, int nrand, int nlocal, int dense, int rot, bool with_const)
{
  const std::vector<G> pts = control_points(g, N, profile);
  add_spline(prog, "A", "gen", -1, t0, dt, pts);
  const long nk = N - K;
  for (double t : times(g, K, N, t0, dt, nrand, dense ? 2 : 1)) add_t(prog, "eval", "A", t);
  // both sides of every knot (ends included)
  // (when neighbouring doubles are a sizeable fraction of a knot interval apart - large |t0| - the specification
  // has to evaluate its own curve at both times, which is expensive: fewer pairs then, unless dense)
  const bool coarse = ulp_of(t0) > dt * 0x1p-40;
  for (long k = 0; k <= nk; ++k) {
    const double tk = t0 + static_cast<double>(k) * dt;
    const double w  = std::max({std::fabs(tk), std::fabs(t0), std::fabs(static_cast<double>(k) * dt)}) * 0x1p-52;
    const bool special = k <= 1 || k >= nk - 1 || k == nk / 2 || k % 4 == 0;
    if (coarse && !dense && !special) continue;
    add_t(prog, "smooth", "A", ulps(tk, -1), ulps(tk, 1));
    if (w > 0) {
      add_t(prog, "smooth", "A", tk - 2 * w, tk + 2 * w);
      if (!coarse || dense) add_t(prog, "smooth", "A", tk - 6 * w, tk + 6 * w);
    }
    if (coarse && !dense) continue;
    if (k % 2 == 0) add_t(prog, "smooth", "A", ulps(tk, -1), tk);
    else add_t(prog, "smooth", "A", tk, ulps(tk, 1));
  }
  // locality: move control point i
  std::vector<long> moved = {0, N - 1, static_cast<long>(K), static_cast<long>(g.rng.idx(static_cast<int>(N)))};
  if (N > K + 2) moved.push_back(N - 1 - K);
  for (int m = 0; m < nlocal && m < static_cast<int>(moved.size()); ++m) {
    const long i       = moved[static_cast<std::size_t>(m + rot) % moved.size()];
    std::vector<G> q   = pts;
    const double big   = profile == 0 ? 0.3 : (profile == 1 ? 1e-2 : (profile == 2 ? 0.04 : 5e-4));
    q[static_cast<std::size_t>(i)] = smooth::composition(q[static_cast<std::size_t>(i)], smooth::exp<G>(tangent(g, 0.2 * big, big, false, 1.0)));
    add_spline(prog, "B", "local", i, t0, dt, q);
    for (long k = 0; k <= nk; ++k) {
      const double tk = t0 + static_cast<double>(k) * dt;
      add_t(prog, "rel", "", tk);
      if (k < nk) add_t(prog, "rel", "", tk + g.rng.uni(0.05, 0.95) * dt);
      if (k == i + 1 || k == i - K) {   // boundary knots of the support
        add_t(prog, "rel", "", ulps(tk, -1));
        add_t(prog, "rel", "", ulps(tk, 1));
        add_t(prog, "rel", "", tk - dt * 0x1p-20);
        add_t(prog, "rel", "", tk + dt * 0x1p-20);
      }
    }
    add_t(prog, "rel", "", t0 - dt / 2);
    add_t(prog, "rel", "", t0 + static_cast<double>(nk) * dt + dt / 2);
    add_t(prog, "rel", "", t0 - 1e3 * dt);
    add_t(prog, "rel", "", t0 + static_cast<double>(nk) * dt + 1e3 * dt);
  }
  // left-equivariance
  {
    const G h = smooth::exp<G>(tangent(g, 0.3, 3.0, false, 3.0));
    std::vector<G> q;
    for (const auto & p : pts) q.push_back(smooth::composition(h, p));
    const Coef hc = coeffs_of(h);
    add_spline(prog, "B", "equiv", -1, t0, dt, q, std::vector<double>(hc.data(), hc.data() + REP));
    std::vector<double> ts = times(g, K, N, t0, dt, nrand / 2 + 2, dense ? 1 : 0);
    for (double t : ts) add_t(prog, "rel", "", t);
  }
  // constants
  if (with_const) {
    std::vector<G> q(static_cast<std::size_t>(N), pts[static_cast<std::size_t>(g.rng.idx(static_cast<int>(N)))]);
    add_spline(prog, "A", "const", -1, t0, dt, q);
    std::vector<double> ts = times(g, K, N, t0, dt, 4, dense ? 1 : 0);
    for (double t : ts) add_t(prog, "const", "", t);
    add_t(prog, "eval", "A", t0 + 0.3 * dt);
    add_t(prog, "eval", "A", t0 + static_cast<double>(nk) * dt);
  }
}

// ------------------------------------------------------------------ program files
static std::string hexd(double x)
{
  char b[64];
  std::snprintf(b, sizeof b, "%a", x);
  return b;
}
static void write_prog(const std::vector<Op> & prog, FILE * f)
{
  for (const auto & o : prog) {
    if (o.op == "spline") {
      std::fprintf(f, "spline %s %s %ld %ld %s %s |", o.slot.c_str(), o.kind.c_str(), o.idx, o.N, hexd(o.t0).c_str(), hexd(o.dt).c_str());
      for (double x : o.ctrl) std::fprintf(f, " %s", hexd(x).c_str());
      if (!o.h.empty()) {
        std::fprintf(f, " |");
        for (double x : o.h) std::fprintf(f, " %s", hexd(x).c_str());
      }
      std::fprintf(f, "\n");
    } else if (o.op == "smooth") {
      std::fprintf(f, "smooth %s %s %s\n", o.slot.c_str(), hexd(o.t).c_str(), hexd(o.tb).c_str());
    } else if (o.op == "eval") {
      std::fprintf(f, "eval %s %s\n", o.slot.c_str(), hexd(o.t).c_str());
    } else {
      std::fprintf(f, "%s %s\n", o.op.c_str(), hexd(o.t).c_str());
    }
  }
}
static bool read_prog(const std::string & path, std::vector<Op> & prog)
{
  FILE * pf = std::fopen(path.c_str(), "r");
  if (!pf) return false;
  static char buf[1 << 20];
  while (std::fgets(buf, sizeof buf, pf)) {
    std::istringstream is(buf);
    Op o;
    is >> o.op;
    if (o.op.empty() || o.op[0] == '#') continue;
    auto num = [&](double & x) {
      std::string s;
      if (!(is >> s)) return false;
      char * endp;
      x = std::strtod(s.c_str(), &endp);
      return endp != s.c_str();
    };
    if (o.op == "spline") {
      std::string s0, s1;
      is >> o.slot >> o.kind >> o.idx >> o.N;
      if (!num(o.t0) || !num(o.dt)) return false;
      std::string bar;
      is >> bar;
      std::string tok;
      int section = 0;
      while (is >> tok) {
        if (tok == "|") {
          ++section;
          continue;
        }
        char * endp;
        const double x = std::strtod(tok.c_str(), &endp);
        if (endp == tok.c_str()) return false;
        (section == 0 ? o.ctrl : o.h).push_back(x);
      }
      if (static_cast<long>(o.ctrl.size()) != o.N * REP) return false;
    } else if (o.op == "eval") {
      is >> o.slot;
      if (!num(o.t)) return false;
    } else if (o.op == "smooth") {
      is >> o.slot;
      if (!num(o.t) || !num(o.tb)) return false;
    } else if (o.op == "rel" || o.op == "const") {
      if (!num(o.t)) return false;
    } else {
      return false;
    }
    prog.push_back(o);
  }
  std::fclose(pf);
  return true;
}

// ------------------------------------------------------------------ driver
static int main_(int argc, char ** argv)
{
  install_handlers();
  Ctx c;
  const std::string out   = arg(argc, argv, "--out", "/dev/stdout");
  const std::string progf = arg(argc, argv, "--prog", "");
  const std::string dump  = arg(argc, argv, "--dump", "");
  const uint64_t seed     = std::strtoull(arg(argc, argv, "--seed", "1").c_str(), nullptr, 10);
  c.K                     = std::atoi(arg(argc, argv, "--K", "3").c_str());
  const int ncases        = std::atoi(arg(argc, argv, "--cases", "2").c_str());
  const int nrand         = std::atoi(arg(argc, argv, "--nrand", "8").c_str());
  const int nlocal        = std::atoi(arg(argc, argv, "--nlocal", "2").c_str());
  const int maxn          = std::atoi(arg(argc, argv, "--maxn", "12").c_str());
  const int first         = std::atoi(arg(argc, argv, "--first", "0").c_str());
  const int dense         = std::atoi(arg(argc, argv, "--dense", "0").c_str());
  const int combo0        = std::atoi(arg(argc, argv, "--combo0", "0").c_str());
  c.gj                    = Dsc::json();
  if (!c.sink.open(out)) return 2;
  current_sink() = &c.sink;

  std::vector<Op> prog;
  if (!progf.empty()) {
    if (!read_prog(progf, prog)) {
      std::fprintf(stderr, "cannot read program %s\n", progf.c_str());
      return 2;
    }
  } else {
    GenCtx g;
    Dsc::fields(g.fields, 0, 0);
    for (int cs = first; cs < first + ncases; ++cs) {
      // every case has its own stream so that a case can be regenerated alone (--first i --cases 1)
      g.rng = Rng(seed * 1000003ull + static_cast<uint64_t>(VH_GROUP) * 7919ull + static_cast<uint64_t>(c.K) * 104729ull + static_cast<uint64_t>(cs) * 15485863ull);
      const int K = c.K;
      long N;
      // sizes: the minimum K+1, the maximum 30, K+2, and random ones in between
      switch (cs % 4) {
      case 0: N = K + 1 + g.rng.idx(std::max(1, maxn - K)); break;
      case 1: N = K + 1; break;
      case 2: N = 30; break;
      default: N = K + 2; break;
      }
      // (t0, dt): the admissible combinations in turn; the driver gives every (group, degree) its own offset
      // so that a tier runs through all of them
      static const std::vector<Combo> cmb = combos();
      const Combo & co = cmb[static_cast<std::size_t>(combo0 + (cs - first)) % cmb.size()];
      const double t0  = co.t0;
      const double dt  = co.dt;
      const int profile = (cs + K) % 4;
      gen_case(g, prog, K, N, t0, dt, profile, nrand, nlocal, dense, /*rot=*/cs, /*with_const=*/true);
    }
  }
  if (!dump.empty()) {
    FILE * f = std::fopen(dump.c_str(), "w");
    if (!f) return 2;
    write_prog(prog, f);
    std::fclose(f);
  }
  for (const auto & o : prog) {
    if (!exec(c, o)) {
      std::fprintf(stderr, "cannot execute op %s\n", o.op.c_str());
      return 2;
    }
  }
  c.sink.close();
  return 0;
}
};  // struct Run

int main(int argc, char ** argv) { return Run<G0>::main_(argc, argv); }
