// Common recording code for the conformance harnesses.
// The harness never judges a result: it executes the real library and records operands and
// results exactly.  Every floating-point value is written as [s, hi, lo, e] meaning
// s*(hi*2^27+lo)*2^e (DESIGN.md App. A); e=100001 marks an infinity, e=100002 a NaN.
#pragma once

#include <Eigen/Core>
#include <cmath>
#include <cstdint>
#include <cstdio>
#include <cstdlib>
#include <cstring>
#include <exception>
#include <random>
#include <sstream>
#include <string>
#include <unistd.h>
#include <vector>

namespace vh {

inline void quad(std::string & o, double x)
{
  char buf[96];
  if (std::isnan(x)) {
    o += "[1,0,0,100002]";
    return;
  }
  const int s = std::signbit(x) ? -1 : 1;
  if (std::isinf(x)) {
    std::snprintf(buf, sizeof buf, "[%d,0,0,100001]", s);
    o += buf;
    return;
  }
  const double ax = std::fabs(x);
  if (ax == 0) {
    std::snprintf(buf, sizeof buf, "[%d,0,0,0]", s);
    o += buf;
    return;
  }
  int ex;
  const double fr = std::frexp(ax, &ex);  // ax = fr * 2^ex, fr in [0.5, 1)
  uint64_t m      = static_cast<uint64_t>(std::ldexp(fr, 53));
  int e           = ex - 53;
  while ((m & 1u) == 0) {
    m >>= 1;
    ++e;
  }
  const unsigned long hi = static_cast<unsigned long>(m >> 27);
  const unsigned long lo = static_cast<unsigned long>(m & ((1ull << 27) - 1));
  std::snprintf(buf, sizeof buf, "[%d,%lu,%lu,%d]", s, hi, lo, e);
  o += buf;
}

template<typename Derived>
inline void qvec(std::string & o, const Eigen::MatrixBase<Derived> & v)
{
  o += '[';
  for (Eigen::Index i = 0; i < v.size(); ++i) {
    if (i) o += ',';
    quad(o, static_cast<double>(v.derived().coeff(i)));
  }
  o += ']';
}

inline void qvec(std::string & o, const std::vector<double> & v)
{
  o += '[';
  for (std::size_t i = 0; i < v.size(); ++i) {
    if (i) o += ',';
    quad(o, v[i]);
  }
  o += ']';
}

// row-major list of rows
template<typename Derived>
inline void qmat(std::string & o, const Eigen::MatrixBase<Derived> & M)
{
  o += '[';
  for (Eigen::Index i = 0; i < M.rows(); ++i) {
    if (i) o += ',';
    o += '[';
    for (Eigen::Index j = 0; j < M.cols(); ++j) {
      if (j) o += ',';
      quad(o, static_cast<double>(M(i, j)));
    }
    o += ']';
  }
  o += ']';
}

// One ndjson event under construction
struct Ev
{
  std::string s;
  bool first = true;
  Ev() { s.reserve(4096); s += '{'; }
  void key(const char * k)
  {
    if (!first) s += ',';
    first = false;
    s += '"';
    s += k;
    s += "\":";
  }
  Ev & str(const char * k, const std::string & v)
  {
    key(k);
    s += '"';
    s += v;
    s += '"';
    return *this;
  }
  Ev & raw(const char * k, const std::string & v)
  {
    key(k);
    s += v;
    return *this;
  }
  Ev & num(const char * k, long v)
  {
    key(k);
    s += std::to_string(v);
    return *this;
  }
  Ev & dbl(const char * k, double v)
  {
    key(k);
    quad(s, v);
    return *this;
  }
  template<typename D>
  Ev & vec(const char * k, const Eigen::MatrixBase<D> & v)
  {
    key(k);
    qvec(s, v);
    return *this;
  }
  Ev & vec(const char * k, const std::vector<double> & v)
  {
    key(k);
    qvec(s, v);
    return *this;
  }
  template<typename D>
  Ev & mat(const char * k, const Eigen::MatrixBase<D> & v)
  {
    key(k);
    qmat(s, v);
    return *this;
  }
};

// Trace sink: one file, flushed on every event so that a crash leaves a valid prefix.
struct Sink
{
  FILE * f   = nullptr;
  long count = 0;
  std::string path;
  bool open(const std::string & p)
  {
    path = p;
    f    = std::fopen(p.c_str(), "w");
    return f != nullptr;
  }
  void emit(Ev & e)
  {
    e.s += "}\n";
    std::fwrite(e.s.data(), 1, e.s.size(), f);
    ++count;
  }
  void close()
  {
    if (f) std::fclose(f);
    f = nullptr;
  }
};

inline Sink *& current_sink()
{
  static Sink * s = nullptr;
  return s;
}

inline void on_terminate()
{
  Sink * s = current_sink();
  if (s && s->f) {
    std::fputs("{\"op\":\"TRUNCATED\"}\n", s->f);
    std::fflush(s->f);
  }
  _exit(3);
}

inline void install_handlers() { std::set_terminate(on_terminate); }

// deterministic RNG helpers
struct Rng
{
  std::mt19937_64 g;
  explicit Rng(uint64_t seed) : g(seed) {}
  double uni(double a, double b) { return std::uniform_real_distribution<double>(a, b)(g); }
  int idx(int n) { return static_cast<int>(g() % static_cast<uint64_t>(n)); }
  double loguni(double a, double b) { return std::exp(uni(std::log(a), std::log(b))); }
  double sign() { return (g() & 1u) ? 1.0 : -1.0; }
};

inline std::string arg(int argc, char ** argv, const char * name, const char * def)
{
  for (int i = 1; i + 1 < argc; ++i)
    if (std::strcmp(argv[i], name) == 0) return argv[i + 1];
  return def;
}

}  // namespace vh
