// Conformance harness, family "cspline" (property C11): executes cspline_eval_vs / cspline_eval_gs /
// cspline_eval_dg_dvs / cspline_eval_dg_dgs of the real library for degrees K = 1..6 on stratified
// inputs, with every combination of optional outputs the API offers, and records every operand and
// result exactly (ndjson).  TLC validates the trace with spec/TraceCSpline.tla.
// One group type per translation unit (-DVH_GROUP=<n>); the harness never judges a result.
#include <smooth/bundle.hpp>
#include <smooth/se2.hpp>
#include <smooth/se3.hpp>
#include <smooth/so2.hpp>
#include <smooth/so3.hpp>
#include <smooth/spline/cumulative_spline.hpp>

#include <algorithm>
#include <array>
#include <optional>
#include <ranges>

#include "common.hpp"
#include "lie_desc.hpp"

using namespace vh;
using S = double;

// clang-format off
#if VH_GROUP == 0
using G0 = smooth::SO2<S>;
#elif VH_GROUP == 1
using G0 = smooth::SO3<S>;
#elif VH_GROUP == 2
using G0 = smooth::SE2<S>;
#elif VH_GROUP == 3
using G0 = smooth::SE3<S>;
#elif VH_GROUP == 8
using G0 = Eigen::Matrix<S, 3, 1>;
#elif VH_GROUP == 20
using G0 = smooth::Bundle<smooth::SO3<S>, Eigen::Matrix<S, 2, 1>>;
#elif VH_GROUP == 21
using G0 = smooth::Bundle<smooth::SE2<S>, smooth::SO3<S>>;
#elif VH_GROUP == 22
using G0 = Eigen::Matrix<S, 2, 1>;
#else
#error "unknown VH_GROUP"
#endif
// clang-format on

#ifndef VH_KMIN
#define VH_KMIN 1
#endif
#ifndef VH_KMAX
#define VH_KMAX 6
#endif

template<typename G>
struct Run
{
static constexpr int DOF = smooth::Dof<G>;
using Tan                = Eigen::Matrix<S, DOF, 1>;
using Dsc                = Desc<G>;
static constexpr int REP = Dsc::Rep;
using Coef               = Eigen::Matrix<S, REP, 1>;

struct Case
{
  int K     = 1;
  int style = 0;               // 0: column-major matrix + std::vector ; 1: row-major Map + colwise() / sub-range view
  std::string basis;           // label only ("bern", "bspl", "rand"); the matrix itself is what counts
  std::vector<double> B;       // (K+1)^2 row-major: B[k][i] = coefficient of u^k in b_i
  double u = 0;
  std::vector<std::vector<double>> vs;  // K tangents
  std::vector<std::vector<double>> gs;  // K+1 coefficient vectors
};

struct Ctx
{
  Sink sink;
  std::string gj;
  std::vector<Field> fields;
  Rng rng{1};
};

static G from_coeffs(const std::vector<double> & c)
{
  G g = smooth::Identity<G>();
  Dsc::set(g, c.data());
  return g;
}
static std::vector<double> coeffs_of(const G & g)
{
  std::vector<double> c(static_cast<std::size_t>(REP));
  Dsc::get(g, c.data());
  return c;
}
static Tan to_tan(const std::vector<double> & a)
{
  Tan t;
  for (int i = 0; i < DOF; ++i) t(i) = a[static_cast<std::size_t>(i)];
  return t;
}

// unit parts renormalised, canonical quaternion sign (the sampler proposes elements of the property's domain)
static void renorm(const std::vector<Field> & fields, std::vector<double> & c)
{
  for (const auto & f : fields) {
    if (f.kind == QUAT) {
      double n = 0;
      for (int i = 0; i < 4; ++i) n += c[static_cast<std::size_t>(f.coff + i)] * c[static_cast<std::size_t>(f.coff + i)];
      n = std::sqrt(n);
      const double sg = c[static_cast<std::size_t>(f.coff + 3)] < 0 ? -1.0 : 1.0;
      for (int i = 0; i < 4; ++i) c[static_cast<std::size_t>(f.coff + i)] = sg * c[static_cast<std::size_t>(f.coff + i)] / n;
    } else if (f.kind == CPLX) {
      double n = std::hypot(c[static_cast<std::size_t>(f.coff)], c[static_cast<std::size_t>(f.coff + 1)]);
      c[static_cast<std::size_t>(f.coff)] /= n;
      c[static_cast<std::size_t>(f.coff + 1)] /= n;
    }
  }
}

// ------------------------------------------------------------------ JSON pieces
static std::string jvecs(const std::vector<std::vector<double>> & vv)
{
  std::string s = "[";
  for (std::size_t i = 0; i < vv.size(); ++i) {
    if (i) s += ',';
    qvec(s, vv[i]);
  }
  return s + "]";
}
template<typename D>
static void jfield_vec(std::string & s, const char * k, const Eigen::MatrixBase<D> & v)
{
  s += ",\"";
  s += k;
  s += "\":";
  qvec(s, v);
}
template<typename D>
static void jfield_mat(std::string & s, const char * k, const Eigen::MatrixBase<D> & m)
{
  s += ",\"";
  s += k;
  s += "\":";
  qmat(s, m);
}
static void jfield_coef(std::string & s, const char * k, const G & g)
{
  s += ",\"";
  s += k;
  s += "\":";
  qvec(s, coeffs_of(g));
}

static Ev header(Ctx & c, const char * op, const Case & cs)
{
  Ev e;
  e.str("op", op).raw("g", c.gj).str("sc", "d").num("K", cs.K).num("style", cs.style).str("basis", cs.basis);
  std::string b = "[";
  for (int k = 0; k <= cs.K; ++k) {
    if (k) b += ',';
    std::vector<double> row(cs.B.begin() + k * (cs.K + 1), cs.B.begin() + (k + 1) * (cs.K + 1));
    qvec(b, row);
  }
  b += "]";
  e.raw("B", b).dbl("u", cs.u);
  return e;
}

static constexpr double kJunk = 7.25;

// ------------------------------------------------------------------ the four entry points
// evaluation with every admissible combination of the optional outputs:
//   none (defaulted), none (explicit empty optionals), vel, vel+acc, vel+acc+jer
// Output objects are pre-filled (NaN or a finite junk value) and passed either as plain vectors or as
// columns of a larger matrix (Eigen::Ref to a block).
template<typename F>
static std::string eval_calls(F && f)
{
  const double nan = std::numeric_limits<double>::quiet_NaN();
  std::string s    = "[";
  {
    const G g = f(0);
    s += "{\"nd\":0,\"how\":\"default\"";
    jfield_coef(s, "g", g);
    s += "}";
  }
  {
    const G g = f(1);
    s += ",{\"nd\":0,\"how\":\"nullopt\"";
    jfield_coef(s, "g", g);
    s += "}";
  }
  {
    Tan vel = Tan::Constant(nan);
    const G g = f(2, smooth::OptTangent<G>(vel));
    s += ",{\"nd\":1,\"how\":\"plain\"";
    jfield_coef(s, "g", g);
    jfield_vec(s, "vel", vel);
    s += "}";
  }
  {
    Eigen::Matrix<S, DOF, 4> box = Eigen::Matrix<S, DOF, 4>::Constant(kJunk);
    const G g = f(3, smooth::OptTangent<G>(Eigen::Ref<Tan>(box.col(2))), smooth::OptTangent<G>(Eigen::Ref<Tan>(box.col(0))));
    s += ",{\"nd\":2,\"how\":\"block\"";
    jfield_coef(s, "g", g);
    jfield_vec(s, "vel", box.col(2));
    jfield_vec(s, "acc", box.col(0));
    s += "}";
  }
  {
    Tan vel = Tan::Constant(kJunk), acc = Tan::Constant(nan), jer = Tan::Constant(-kJunk);
    const G g = f(3, smooth::OptTangent<G>(vel), smooth::OptTangent<G>(acc), smooth::OptTangent<G>(jer));
    s += ",{\"nd\":3,\"how\":\"plain\"";
    jfield_coef(s, "g", g);
    jfield_vec(s, "vel", vel);
    jfield_vec(s, "acc", acc);
    jfield_vec(s, "jer", jer);
    s += "}";
  }
  return s + "]";
}

template<int K, typename VR, typename BM>
static std::string eval_vs_calls(const VR & vs, const BM & B, double u)
{
  return eval_calls([&](int how, smooth::OptTangent<G> a = {}, smooth::OptTangent<G> b = {}, smooth::OptTangent<G> d = {}) -> G {
    if (how == 0) return smooth::cspline_eval_vs<K, G>(vs, B, u);
    if (how == 1) return smooth::cspline_eval_vs<K, G>(vs, B, u, std::nullopt, {}, std::nullopt);
    if (how == 2) return smooth::cspline_eval_vs<K, G>(vs, B, u, a);
    if (d.has_value()) return smooth::cspline_eval_vs<K, G>(vs, B, u, a, b, d);
    return smooth::cspline_eval_vs<K, G>(vs, B, u, a, b);
  });
}

template<int K, typename GR, typename BM>
static std::string eval_gs_calls(const GR & gs, const BM & B, double u)
{
  return eval_calls([&](int how, smooth::OptTangent<G> a = {}, smooth::OptTangent<G> b = {}, smooth::OptTangent<G> d = {}) -> G {
    if (how == 0) return smooth::cspline_eval_gs<K>(gs, B, u);
    if (how == 1) return smooth::cspline_eval_gs<K>(gs, B, u, {}, std::nullopt, {});
    if (how == 2) return smooth::cspline_eval_gs<K>(gs, B, u, a);
    if (d.has_value()) return smooth::cspline_eval_gs<K>(gs, B, u, a, b, d);
    return smooth::cspline_eval_gs<K>(gs, B, u, a, b);
  });
}

// Jacobians; NB = number of blocks (K for differences, K+1 for control points).
// modes: 0 value only (defaulted), 1 +dvel, 2 +dvel+dacc, 3 dacc only (control points only: the API of
// cspline_eval_dg_dvs requires dvel whenever dacc is requested).
template<int NB, typename F>
static std::string jac_calls(F && f, bool acc_only_ok)
{
  using Jac        = Eigen::Matrix<S, DOF, DOF * NB>;
  using OJ         = std::optional<Eigen::Ref<Jac>>;
  const double nan = std::numeric_limits<double>::quiet_NaN();
  std::string s    = "[";
  {
    const Jac J = f(0, OJ{}, OJ{});
    s += "{\"m\":0";
    jfield_mat(s, "dg", J);
    s += "}";
  }
  {
    Jac dv      = Jac::Constant(nan);
    const Jac J = f(1, OJ(dv), OJ{});
    s += ",{\"m\":1";
    jfield_mat(s, "dg", J);
    jfield_mat(s, "dvel", dv);
    s += "}";
  }
  {
    // both outputs live inside one larger pre-filled matrix (outer stride != rows)
    // (a one-row Jacobian, Dof = 1, is a row vector: its block must come from a row-major matrix to have inner stride 1)
    using Box = Eigen::Matrix<S, 2 * DOF + 1, DOF * NB + 1, DOF == 1 ? Eigen::RowMajor : Eigen::ColMajor>;
    Box box   = Box::Constant(kJunk);
    auto bv                                         = box.template block<DOF, DOF * NB>(0, 1);
    auto ba                                         = box.template block<DOF, DOF * NB>(DOF + 1, 0);
    const Jac J                                     = f(2, OJ(Eigen::Ref<Jac>(bv)), OJ(Eigen::Ref<Jac>(ba)));
    s += ",{\"m\":2";
    jfield_mat(s, "dg", J);
    jfield_mat(s, "dvel", bv);
    jfield_mat(s, "dacc", ba);
    s += "}";
  }
  if (acc_only_ok) {
    Jac da      = Jac::Constant(nan);
    const Jac J = f(3, OJ{}, OJ(da));
    s += ",{\"m\":3";
    jfield_mat(s, "dg", J);
    jfield_mat(s, "dacc", da);
    s += "}";
  }
  return s + "]";
}

template<int K, typename VR, typename BM>
static std::string jac_vs_calls(const VR & vs, const BM & B, double u)
{
  using OJ = smooth::OptSplineJacobian<G, K - 1>;
  return jac_calls<K>(
    [&](int m, OJ a, OJ b) -> smooth::SplineJacobian<G, K - 1> {
      if (m == 0) return smooth::cspline_eval_dg_dvs<K, G>(vs, B, u);
      if (m == 1) return smooth::cspline_eval_dg_dvs<K, G>(vs, B, u, a);
      return smooth::cspline_eval_dg_dvs<K, G>(vs, B, u, a, b);
    },
    false);
}

template<int K, typename GR, typename BM>
static std::string jac_gs_calls(const GR & gs, const BM & B, double u)
{
  using OJ = smooth::OptSplineJacobian<G, K>;
  return jac_calls<K + 1>(
    [&](int m, OJ a, OJ b) -> smooth::SplineJacobian<G, K> {
      if (m == 0) return smooth::cspline_eval_dg_dgs<K>(gs, B, u);
      if (m == 1) return smooth::cspline_eval_dg_dgs<K>(gs, B, u, a);
      if (m == 3) return smooth::cspline_eval_dg_dgs<K>(gs, B, u, {}, b);
      return smooth::cspline_eval_dg_dgs<K>(gs, B, u, a, b);
    },
    true);
}

// ------------------------------------------------------------------ one case, one entry point
template<int K>
static void run_k(Ctx & c, const std::string & op, const Case & cs)
{
  Eigen::Matrix<S, K + 1, K + 1> Bc;
  for (int k = 0; k <= K; ++k)
    for (int i = 0; i <= K; ++i) Bc(k, i) = cs.B[static_cast<std::size_t>(k * (K + 1) + i)];
  const Eigen::Map<const Eigen::Matrix<S, K + 1, K + 1, Eigen::RowMajor>> Br(cs.B.data());

  const bool by_vs = (op == "eval_vs" || op == "dg_dvs");
  Ev e             = header(c, op.c_str(), cs);
  if (by_vs) {
    std::vector<Tan> vsv;
    Eigen::Matrix<S, DOF, K> vsm;
    for (int i = 0; i < K; ++i) {
      vsv.push_back(to_tan(cs.vs[static_cast<std::size_t>(i)]));
      vsm.col(i) = vsv.back();
    }
    e.raw("vs", jvecs(cs.vs));
    if (op == "eval_vs") {
      e.raw("calls", cs.style == 0 ? eval_vs_calls<K>(vsv, Bc, cs.u) : eval_vs_calls<K>(vsm.colwise(), Br, cs.u));
    } else {
      e.raw("calls", cs.style == 0 ? jac_vs_calls<K>(vsv, Bc, cs.u) : jac_vs_calls<K>(vsm.colwise(), Br, cs.u));
    }
  } else {
    std::vector<G> gsv;
    for (int i = 0; i <= K; ++i) gsv.push_back(from_coeffs(cs.gs[static_cast<std::size_t>(i)]));
    // the control points as the library sees them, and the library's own differences (witnesses for the oracle)
    std::vector<std::vector<double>> gl, wl;
    for (int i = 0; i <= K; ++i) gl.push_back(coeffs_of(gsv[static_cast<std::size_t>(i)]));
    for (int i = 1; i <= K; ++i) {
      const Tan w = smooth::rminus(gsv[static_cast<std::size_t>(i)], gsv[static_cast<std::size_t>(i - 1)]);
      wl.emplace_back(w.data(), w.data() + DOF);
    }
    e.raw("gs", jvecs(gl)).raw("vsw", jvecs(wl));
    // style 1: a window into a longer container (as fit_spline / BSpline pass their control points)
    std::vector<G> padded;
    padded.push_back(smooth::Identity<G>());
    for (const auto & g : gsv) padded.push_back(g);
    padded.push_back(gsv.front());
    const auto window = padded | std::views::drop(1) | std::views::take(static_cast<std::ptrdiff_t>(K + 1));
    if (op == "eval_gs") {
      e.raw("calls", cs.style == 0 ? eval_gs_calls<K>(gsv, Bc, cs.u) : eval_gs_calls<K>(window, Br, cs.u));
    } else {
      e.raw("calls", cs.style == 0 ? jac_gs_calls<K>(gsv, Bc, cs.u) : jac_gs_calls<K>(window, Br, cs.u));
    }
  }
  c.sink.emit(e);
}

static bool run_case(Ctx & c, const std::string & op, const Case & cs)
{
  bool done = false;
  smooth::utils::static_for<6>([&](auto kk) {
    constexpr int K = static_cast<int>(kk.value) + 1;
    if constexpr (K >= VH_KMIN && K <= VH_KMAX) {
      if (K == cs.K) {
        run_k<K>(c, op, cs);
        done = true;
      }
    }
  });
  return done;
}

// ------------------------------------------------------------------ sampler (proposes inputs only)
template<int K>
static void lib_basis(int kind, std::vector<double> & B)
{
  const auto M = kind == 0 ? smooth::polynomial_cumulative_basis<smooth::PolynomialBasis::Bernstein, K>()
                           : smooth::polynomial_cumulative_basis<smooth::PolynomialBasis::Bspline, K>();
  B.clear();
  for (int k = 0; k <= K; ++k)
    for (int i = 0; i <= K; ++i) B.push_back(M[static_cast<std::size_t>(k)][static_cast<std::size_t>(i)]);
}

static void make_basis(Rng & r, int kind, int K, Case & cs)
{
  if (kind == 2) {
    cs.basis = "rand";
    cs.B.clear();
    const double sc = 2.0 / (K + 1);
    for (int k = 0; k <= K; ++k)
      for (int i = 0; i <= K; ++i) cs.B.push_back(sc * r.uni(-1, 1));
    return;
  }
  cs.basis = kind == 0 ? "bern" : "bspl";
  smooth::utils::static_for<6>([&](auto kk) {
    constexpr int KK = static_cast<int>(kk.value) + 1;
    if (KK == K) lib_basis<KK>(kind, cs.B);
  });
}

static double make_u(Rng & r, int ucls)
{
  static const double dy[] = {0.5, 0.25, 0.75, 0.375, 0.125, 0.8125, 0x1p-20, 1 - 0x1p-20};
  switch (ucls) {
  case 0: return 0.0;
  case 1: return 1.0;
  case 2: return dy[r.idx(8)];
  default: return r.uni(0.0, 1.0);
  }
}

// rotation norm of one difference by profile
//  0 generic  1 tiny  2 near pi (one or all)  3 exact zeros mixed in  4 around the small-angle switch  5 mixed strata
static double profile_theta(Rng & r, int prof, int i, int K, int pick, bool deep)
{
  const double pi = M_PI;
  switch (prof) {
  case 0: return r.idx(2) ? r.loguni(1e-2, 1.0) : r.uni(1.0, pi - 1e-2);
  case 1: return r.idx(4) == 0 ? r.loguni(1e-5, 0.9e-4) : r.loguni(1e-12, 1e-5);
  case 2:
    if (i == pick || pick >= K) return pi - (deep && r.idx(2) ? r.loguni(1e-6, 1e-3) : r.loguni(1e-3, 1e-2));
    return r.uni(0.2, 2.5);
  case 3: return (i % 2 == pick % 2 || pick >= K) ? 0.0 : r.uni(0.1, 2.5);
  case 4: return sample_theta(r, 4 + r.idx(2));
  default: return sample_theta(r, r.idx(9));
  }
}

static Case make_case(Ctx & c, const Gen & gen, int K, long i, long off, bool deep)
{
  Rng & r = c.rng;
  Case cs;
  cs.K           = K;
  const long j   = i + 2 * K + off;
  cs.style       = static_cast<int>((j / 2) % 2);
  make_basis(r, static_cast<int>((j + j / 6) % 3), K, cs);
  cs.u           = make_u(r, static_cast<int>((j + j / 12) % 4));
  const int prof = static_cast<int>(j % 6);
  int pick       = r.idx(K + 1);  // == K means "all"
  if (prof == 3 && (j / 6) % 2 == 0) pick = K;
  for (int k = 0; k < K; ++k) {
    const double th = profile_theta(r, prof, k, K, pick, deep);
    int tcls        = 1;
    if (prof == 1) tcls = r.idx(2);
    if (prof == 3 && th == 0.0) tcls = 0;
    auto v = gen.tangent_theta(r, th, tcls, r.idx(4), 9);
    if (prof == 1 && tcls == 1 && r.idx(2))
      for (double & x : v) x *= 1e-6;  // everything tiny
    if (DOF == REP && th == 0.0 && prof == 3) std::fill(v.begin(), v.end(), 0.0);  // vector groups: exact zero difference
    cs.vs.push_back(v);
  }
  // control points: g_0 generic, g_i = g_(i-1) * exp(v_i) renormalised (the library recomputes the differences)
  auto g0c = gen.element(r, 7, 1);
  G g      = from_coeffs(g0c);
  cs.gs.push_back(coeffs_of(g));
  for (int k = 0; k < K; ++k) {
    const auto & vk = cs.vs[static_cast<std::size_t>(k)];
    if (std::all_of(vk.begin(), vk.end(), [](double x) { return x == 0.0; })) {
      cs.gs.push_back(coeffs_of(g));  // exactly repeated control point
      continue;
    }
    G nx   = smooth::composition(g, smooth::exp<G>(to_tan(vk)));
    auto cc = coeffs_of(nx);
    renorm(c.fields, cc);
    g = from_coeffs(cc);
    cs.gs.push_back(coeffs_of(g));
  }
  return cs;
}

// ------------------------------------------------------------------ driver
static int main_(int argc, char ** argv)
{
  install_handlers();
  Ctx c;
  const std::string out  = arg(argc, argv, "--out", "/dev/stdout");
  const long n           = std::atol(arg(argc, argv, "--n", "6").c_str());     // cases per degree (evaluation events)
  const long jn          = std::atol(arg(argc, argv, "--jn", "2").c_str());    // of which this many also get Jacobian events
  const long joff        = std::atol(arg(argc, argv, "--joff", "0").c_str());  // rotation of the Jacobian cases
  const long off         = std::atol(arg(argc, argv, "--off", "0").c_str());   // rotation of the (basis, u, profile) schedule
  const int deep         = std::atoi(arg(argc, argv, "--deep", "0").c_str());
  const uint64_t seed    = std::strtoull(arg(argc, argv, "--seed", "1").c_str(), nullptr, 10);
  const std::string prog = arg(argc, argv, "--prog", "");
  c.rng                  = Rng(seed * 1000003ull + static_cast<uint64_t>(VH_GROUP) * 7919ull + 104729ull);
  c.gj                   = Dsc::json();
  Dsc::fields(c.fields, 0, 0);
  if (!c.sink.open(out)) return 2;
  current_sink() = &c.sink;
  Gen gen{c.fields, REP, DOF, false};

  if (!prog.empty()) {
    // explicit cases, one per line:   <op> <K> <style> <basis label> ; u ; B (row-major) ; operand 1 ; operand 2 ; ...
    // (operands: K tangents for eval_vs / dg_dvs, K+1 coefficient vectors for eval_gs / dg_dgs; any strtod format)
    FILE * pf = std::fopen(prog.c_str(), "r");
    if (!pf) return 2;
    static char buf[1 << 18];
    while (std::fgets(buf, sizeof buf, pf)) {
      std::istringstream is{std::string(buf)};
      std::string op;
      Case cs;
      is >> op;
      if (op.empty() || op[0] == '#') continue;
      is >> cs.K >> cs.style >> cs.basis;
      std::string rest;
      std::getline(is, rest);
      std::vector<std::vector<double>> vsx;
      const char * p = rest.c_str();
      while (*p) {
        while (*p == ' ' || *p == ',' || *p == '\n' || *p == '\t') ++p;
        if (!*p) break;
        if (*p == ';') {
          vsx.emplace_back();
          ++p;
          continue;
        }
        char * endp;
        const double x = std::strtod(p, &endp);
        if (endp == p || vsx.empty()) break;
        vsx.back().push_back(x);
        p = endp;
      }
      const bool by_vs = (op == "eval_vs" || op == "dg_dvs");
      const std::size_t nops = static_cast<std::size_t>(by_vs ? cs.K : cs.K + 1);
      if (cs.K < 1 || cs.K > 6 || vsx.size() != 2 + nops || vsx[0].size() != 1 ||
          vsx[1].size() != static_cast<std::size_t>((cs.K + 1) * (cs.K + 1))) {
        std::fprintf(stderr, "malformed prog line: %s\n", buf);
        return 2;
      }
      cs.u = vsx[0][0];
      cs.B = vsx[1];
      for (std::size_t i = 0; i < nops; ++i) {
        if (vsx[2 + i].size() != static_cast<std::size_t>(by_vs ? DOF : REP)) {
          std::fprintf(stderr, "operand %zu has wrong length in: %s\n", i, buf);
          return 2;
        }
        (by_vs ? cs.vs : cs.gs).push_back(vsx[2 + i]);
      }
      if (!run_case(c, op, cs)) {
        std::fprintf(stderr, "degree %d not compiled into this harness\n", cs.K);
        return 2;
      }
    }
    std::fclose(pf);
  } else {
    for (int K = VH_KMIN; K <= VH_KMAX; ++K) {
      for (long i = 0; i < n; ++i) {
        const Case cs = make_case(c, gen, K, i, off, deep != 0);
        run_case(c, "eval_vs", cs);
        run_case(c, "eval_gs", cs);
        if (jn > 0 && ((i + joff + K) % n) < jn) {
          run_case(c, "dg_dvs", cs);
          run_case(c, "dg_dgs", cs);
        }
      }
    }
  }
  c.sink.close();
  return 0;
}
};  // struct Run

int main(int argc, char ** argv) { return Run<G0>::main_(argc, argv); }
