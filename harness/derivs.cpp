// Conformance harness for the generic helpers of property C05: d_matrix_product (square factors of equal
// size n = 1..6 with nvar = 1..6 variables, static sizes) and d2_fog (static and dynamic sizes, dense and
// sparse outer Jacobian).  Operands are small integers so that every product is exact in double; TLC
// (spec/TraceLie.tla, actions "dprod" / "fog") recomputes the product rule / chain rule entry by entry.
#include <Eigen/Sparse>

#include <smooth/derivatives.hpp>

#include "common.hpp"

using namespace vh;

static Sink sink;
static Rng rng(1);

template<int R, int C>
static Eigen::Matrix<double, R, C> rnd_mat(int r, int c, int zero_pct = 20)
{
  Eigen::Matrix<double, R, C> M(r, c);
  for (int i = 0; i < r; ++i)
    for (int j = 0; j < c; ++j) M(i, j) = rng.idx(100) < zero_pct ? 0.0 : static_cast<double>(rng.idx(9) - 4);
  return M;
}

template<int N, int NV>
static void dprod_case()
{
  const Eigen::Matrix<double, N, N> A = rnd_mat<N, N>(N, N), B = rnd_mat<N, N>(N, N);
  const Eigen::Matrix<double, N, N * NV> dA = rnd_mat<N, N * NV>(N, N * NV), dB = rnd_mat<N, N * NV>(N, N * NV);
  const auto out = smooth::d_matrix_product(A, dA, B, dB);
  Ev e;
  e.str("op", "dprod").str("sc", "d").str("storage", "static").num("n", N).num("nvar", NV).mat("A", A).mat("dA", dA).mat("B", B).mat("dB", dB).mat("out", out);
  sink.emit(e);
}

// dynamic-size arguments (the variable count is then only known at run time)
static void dprod_dynamic(int n, int nv)
{
  const Eigen::MatrixXd A = rnd_mat<-1, -1>(n, n), B = rnd_mat<-1, -1>(n, n);
  const Eigen::MatrixXd dA = rnd_mat<-1, -1>(n, n * nv), dB = rnd_mat<-1, -1>(n, n * nv);
  const Eigen::MatrixXd out = smooth::d_matrix_product(A, dA, B, dB);
  Ev e;
  e.str("op", "dprod").str("sc", "d").str("storage", "dynamic").num("n", n).num("nvar", nv).mat("A", A).mat("dA", dA).mat("B", B).mat("dB", dB).mat("out", out);
  sink.emit(e);
}

template<int N, int... NVs>
static void dprod_row(std::integer_sequence<int, NVs...>)
{
  (dprod_case<N, NVs + 1>(), ...);
}
template<int... Ns>
static void dprod_all(std::integer_sequence<int, Ns...>)
{
  (dprod_row<Ns + 1>(std::make_integer_sequence<int, 6>{}), ...);
}

static void emit_fog(const char * storage, const char * jfkind, int no, int ny, int nx, const Eigen::MatrixXd & Jf, const Eigen::MatrixXd & Hf,
                     const Eigen::MatrixXd & Jg, const Eigen::MatrixXd & Hg, const Eigen::MatrixXd & out)
{
  Ev e;
  e.str("op", "fog").str("sc", "d").str("storage", storage).str("jf", jfkind).num("no", no).num("ny", ny).num("nx", nx);
  e.mat("Jf", Jf).mat("Hf", Hf).mat("Jg", Jg).mat("Hg", Hg).mat("out", out);
  sink.emit(e);
}

template<int NO, int NY, int NX>
static void fog_static()
{
  const Eigen::Matrix<double, NO, NY> Jf           = rnd_mat<NO, NY>(NO, NY);
  const Eigen::Matrix<double, NY, NO * NY> Hf      = rnd_mat<NY, NO * NY>(NY, NO * NY);
  const Eigen::Matrix<double, NY, NX> Jg           = rnd_mat<NY, NX>(NY, NX);
  const Eigen::Matrix<double, NX, NY * NX> Hg      = rnd_mat<NX, NY * NX>(NX, NY * NX);
  const auto out                                   = smooth::d2_fog(Jf, Hf, Jg, Hg);
  emit_fog("static", "dense", NO, NY, NX, Jf, Hf, Jg, Hg, out);
  const Eigen::SparseMatrix<double> Jfs = Jf.sparseView();
  const auto outs                       = smooth::d2_fog(Jfs, Hf, Jg, Hg);
  emit_fog("static", "sparse", NO, NY, NX, Jf, Hf, Jg, Hg, outs);
}

// every size dynamic
static void fog_all_dynamic(int no, int ny, int nx)
{
  const Eigen::MatrixXd Jf = rnd_mat<-1, -1>(no, ny), Hf = rnd_mat<-1, -1>(ny, no * ny);
  const Eigen::MatrixXd Jg = rnd_mat<-1, -1>(ny, nx), Hg = rnd_mat<-1, -1>(nx, ny * nx);
  const Eigen::MatrixXd out = smooth::d2_fog(Jf, Hf, Jg, Hg);
  emit_fog("alldynamic", "dense", no, ny, nx, Jf, Hf, Jg, Hg, out);
  const Eigen::SparseMatrix<double> Jfs = Jf.sparseView();
  const Eigen::MatrixXd outs            = smooth::d2_fog(Jfs, Hf, Jg, Hg);
  emit_fog("alldynamic", "sparse", no, ny, nx, Jf, Hf, Jg, Hg, outs);
}

// dynamic No / Ny, static Nx
template<int NX>
static void fog_dynamic(int no, int ny)
{
  const int nx = NX;
  const Eigen::MatrixXd Jf = rnd_mat<-1, -1>(no, ny), Hf = rnd_mat<-1, -1>(ny, no * ny);
  const Eigen::Matrix<double, -1, NX> Jg = rnd_mat<-1, NX>(ny, nx);
  const Eigen::Matrix<double, NX, -1> Hg = rnd_mat<NX, -1>(nx, ny * nx);
  const Eigen::MatrixXd out = smooth::d2_fog(Jf, Hf, Jg, Hg);
  emit_fog("dynamic", "dense", no, ny, nx, Jf, Hf, Jg, Hg, out);
  const Eigen::SparseMatrix<double> Jfs = Jf.sparseView();
  const Eigen::MatrixXd outs            = smooth::d2_fog(Jfs, Hf, Jg, Hg);
  emit_fog("dynamic", "sparse", no, ny, nx, Jf, Hf, Jg, Hg, outs);
  const Eigen::SparseMatrix<double, Eigen::RowMajor> Jfr = Jf.sparseView();
  const Eigen::MatrixXd outr                             = smooth::d2_fog(Jfr, Hf, Jg, Hg);
  emit_fog("dynamic", "sparse_rowmajor", no, ny, nx, Jf, Hf, Jg, Hg, outr);
}

int main(int argc, char ** argv)
{
  install_handlers();
  const std::string out = arg(argc, argv, "--out", "/dev/stdout");
  const long n          = std::atol(arg(argc, argv, "--n", "2").c_str());
  const uint64_t seed   = std::strtoull(arg(argc, argv, "--seed", "1").c_str(), nullptr, 10);
  rng                   = Rng(seed * 31337 + 11);
  if (!sink.open(out)) return 2;
  current_sink() = &sink;
  for (long it = 0; it < n; ++it) {
    dprod_all(std::make_integer_sequence<int, 6>{});
    for (int n = 1; n <= 6; ++n)
      for (int nv = 1; nv <= 6; ++nv)
        if (it > 0 || ((n + nv) % 2 == 1)) dprod_dynamic(n, nv);
    for (int no = 1; no <= 3; ++no)
      for (int ny = 1; ny <= 3; ++ny)
        for (int nx = 1; nx <= 4; ++nx)
          if (it > 0 || ((no + ny + nx) % 3 == 0)) fog_all_dynamic(no, ny, nx);
    fog_static<1, 3, 3>();
    fog_static<2, 3, 2>();
    fog_static<3, 2, 4>();
    fog_static<2, 4, 3>();
    fog_static<1, 1, 1>();
    fog_static<3, 3, 3>();
    for (int no = 1; no <= 3; ++no)
      for (int ny = 1; ny <= 4; ++ny)
        if (it > 0 || ((no + ny) % 2 == 0)) {
          fog_dynamic<1>(no, ny);
          fog_dynamic<2>(no, ny);
          fog_dynamic<3>(no, ny);
          fog_dynamic<4>(no, ny);
        }
  }
  sink.close();
  return 0;
}
