// Conformance harness, family "diff" (property C08): executes smooth::diff::dr<K, Type>(f, wrt(x...)[, idx])
// of the real library for a closed family of callables and records, for every call, the arguments
// before and after the call, the returned value, Jacobian and Hessian exactly (ndjson).
// The harness never judges a result; spec/TraceDiff.tla does.  One callable per translation unit
// (-DVH_FN=<n>).  One trace event = one (callable, evaluation point) with the list of all calls
// made at that point: every const / non-const reference pattern x every index subset x K x mode
// that the callable's plan enumerates at compile time.
//
// A callable is described to the specification by an expression tree ("ast") over the nodes
//   arg i | compose a b | inv a | log a (witness w) | act a b | Adv a b | poly p a | cat a b | part a i
// built from the same data the C++ callable is built from (polynomials) or written next to it.
#include <smooth/bundle.hpp>
#include <smooth/diff.hpp>
#include <smooth/se2.hpp>
#include <smooth/se3.hpp>
#include <smooth/so3.hpp>

#include <functional>
#include <tuple>
#include <type_traits>
#include <utility>

#include "common.hpp"
#include "lie_desc.hpp"

using namespace vh;
namespace sd = smooth::diff;
using smooth::SE2d;
using smooth::SE3d;
using smooth::SO3d;
using Bun  = smooth::Bundle<SO3d, Eigen::Vector3d>;
using V1d  = Eigen::Matrix<double, 1, 1>;
using V2d  = Eigen::Vector2d;
using V3d  = Eigen::Vector3d;
using VXd  = Eigen::VectorXd;
using VSO3 = std::vector<SO3d>;
using VVX  = std::vector<Eigen::VectorXd>;               // elements may have different lengths ("ragged")
using VVVX = std::vector<std::vector<Eigen::VectorXd>>;  // nested

// ------------------------------------------------------------------ argument / result types

template<class A>
struct AT
{
  static std::string json(const A &) { return Desc<A>::json(); }
  static void coeffs(const A & a, std::vector<double> & c)
  {
    c.assign(static_cast<std::size_t>(Desc<A>::Rep), 0.0);
    Desc<A>::get(a, c.data());
  }
};
template<>
struct AT<VXd>
{
  static std::string json(const VXd & a) { return "{\"k\":\"R\",\"n\":" + std::to_string(a.size()) + "}"; }
  static void coeffs(const VXd & a, std::vector<double> & c)
  {
    c.assign(static_cast<std::size_t>(a.size()), 0.0);
    for (Eigen::Index i = 0; i < a.size(); ++i) c[static_cast<std::size_t>(i)] = a(i);
  }
};
template<>
struct AT<VSO3>
{
  // a std::vector of manifolds has the tangent layout of the Bundle of its elements
  static std::string json(const VSO3 & a)
  {
    std::string s = "{\"k\":\"B\",\"parts\":[";
    for (std::size_t i = 0; i < a.size(); ++i) s += (i ? "," : "") + Desc<SO3d>::json();
    return s + "]}";
  }
  static void coeffs(const VSO3 & a, std::vector<double> & c)
  {
    c.clear();
    for (const auto & g : a)
      for (int i = 0; i < 4; ++i) c.push_back(g.coeffs()(i));
  }
};

template<>
struct AT<VVX>
{
  // tangent layout of a std::vector of manifolds = concatenation of the elements' tangents in order
  static std::string json(const VVX & a)
  {
    std::string s = "{\"k\":\"B\",\"parts\":[";
    for (std::size_t i = 0; i < a.size(); ++i) s += (i ? "," : "") + AT<VXd>::json(a[i]);
    return s + "]}";
  }
  static void coeffs(const VVX & a, std::vector<double> & c)
  {
    c.clear();
    for (const auto & v : a)
      for (Eigen::Index i = 0; i < v.size(); ++i) c.push_back(v(i));
  }
};
template<>
struct AT<VVVX>
{
  static std::string json(const VVVX & a)
  {
    std::string s = "{\"k\":\"B\",\"parts\":[";
    for (std::size_t i = 0; i < a.size(); ++i) s += (i ? "," : "") + AT<VVX>::json(a[i]);
    return s + "]}";
  }
  static void coeffs(const VVVX & a, std::vector<double> & c)
  {
    c.clear();
    for (const auto & vv : a)
      for (const auto & v : vv)
        for (Eigen::Index i = 0; i < v.size(); ++i) c.push_back(v(i));
  }
};

template<class A> struct TN;
#define VH_TN(T, S) template<> struct TN<T> { static const char * name() { return S; } }
VH_TN(SO3d, "SO3d");
VH_TN(SE2d, "SE2d");
VH_TN(SE3d, "SE3d");
VH_TN(Bun, "Bundle<SO3d,Vector3d>");
VH_TN(V2d, "Vector2d");
VH_TN(V3d, "Vector3d");
VH_TN(VXd, "VectorXd");
VH_TN(double, "double");
VH_TN(VSO3, "std::vector<SO3d>");
VH_TN(VVX, "std::vector<VectorXd>");
VH_TN(VVVX, "std::vector<std::vector<VectorXd>>");
#undef VH_TN

template<class A>
static void coeffs_json(std::string & o, const A & a)
{
  std::vector<double> c;
  AT<A>::coeffs(a, c);
  qvec(o, c);
}

// ------------------------------------------------------------------ expression trees (strings)

static std::string A(int i) { return "{\"f\":\"arg\",\"i\":" + std::to_string(i) + "}"; }
static std::string n2(const char * f, const std::string & a, const std::string & b)
{
  return std::string("{\"f\":\"") + f + "\",\"a\":" + a + ",\"b\":" + b + "}";
}
static std::string Cmp(const std::string & a, const std::string & b) { return n2("compose", a, b); }
static std::string Act(const std::string & a, const std::string & b) { return n2("act", a, b); }
static std::string Adv(const std::string & a, const std::string & b) { return n2("Adv", a, b); }
static std::string Cat(const std::string & a, const std::string & b) { return n2("cat", a, b); }
static std::string Inv(const std::string & a) { return "{\"f\":\"inv\",\"a\":" + a + "}"; }
static std::string Log(const std::string & a, int w) { return "{\"f\":\"log\",\"w\":" + std::to_string(w) + ",\"a\":" + a + "}"; }
static std::string Rminus(const std::string & a, const std::string & b, int w) { return Log(Cmp(Inv(b), a), w); }
static std::string Part(const std::string & a, int i) { return "{\"f\":\"part\",\"i\":" + std::to_string(i) + ",\"a\":" + a + "}"; }

// polynomial maps R^n -> R^m: one description drives both the C++ callable and the expression tree
struct Term
{
  double c;
  std::vector<int> e;
};
using Poly = std::vector<std::vector<Term>>;  // components -> terms

static std::string PolyNode(const Poly & p, const std::string & a)
{
  std::string s = "{\"f\":\"poly\",\"a\":" + a + ",\"p\":[";
  for (std::size_t i = 0; i < p.size(); ++i) {
    s += i ? ",[" : "[";
    for (std::size_t t = 0; t < p[i].size(); ++t) {
      s += t ? ",[" : "[";
      quad(s, p[i][t].c);
      s += ",[";
      for (std::size_t j = 0; j < p[i][t].e.size(); ++j) s += (j ? "," : "") + std::to_string(p[i][t].e[j]);
      s += "]]";
    }
    s += "]";
  }
  return s + "]}";
}
template<class X>
static double poly_eval(const std::vector<Term> & comp, const X & x)
{
  double s = 0;
  for (const auto & t : comp) {
    double m = t.c;
    for (std::size_t j = 0; j < t.e.size(); ++j)
      for (int k = 0; k < t.e[j]; ++k) m *= x(static_cast<Eigen::Index>(j));
    s += m;
  }
  return s;
}

// ------------------------------------------------------------------ samplers (propose inputs only)

// a coordinate that is zero or of magnitude 0.1..10
static double coord(Rng & r, int cls)
{
  if (cls == 1) return r.sign() * (r.idx(2) ? 10.0 : 0.1);  // the ends of the magnitude range
  if (cls == 2 && r.idx(2)) return 0.0;
  if (r.idx(8) == 0) return 0.0;
  return r.sign() * r.loguni(0.1, 10.0);
}
template<int N>
static Eigen::Matrix<double, N, 1> rvec(Rng & r, int cls)
{
  Eigen::Matrix<double, N, 1> v;
  for (int i = 0; i < N; ++i) v(i) = coord(r, cls);
  return v;
}
// the same, re-drawn until the Euclidean norm is at most maxnorm (keeps values of x . v of order one)
template<int N>
static Eigen::Matrix<double, N, 1> rvecb(Rng & r, int cls, double maxnorm)
{
  for (int k = 0; k < 200; ++k) {
    const Eigen::Matrix<double, N, 1> v = rvec<N>(r, cls);
    if (v.norm() <= maxnorm) return v;
  }
  return Eigen::Matrix<double, N, 1>::Constant(0.1);
}
static VXd rvecx(Rng & r, int n, int cls)
{
  VXd v(n);
  for (int i = 0; i < n; ++i) v(i) = coord(r, cls);
  return v;
}
// group element exp(a), every tangent coordinate uniform in [-amp, amp] (cls 3: the identity)
template<class G>
static G relem(Rng & r, int cls, double amp = 1.1)
{
  if (cls == 3) return G::Identity();
  Eigen::Matrix<double, G::Dof, 1> a;
  for (int i = 0; i < G::Dof; ++i) a(i) = r.uni(-amp, amp);
  return G::exp(a);
}
template<class G>
static Eigen::Matrix<double, G::Dof, 1> rtan(Rng & r, double amp)
{
  Eigen::Matrix<double, G::Dof, 1> a;
  for (int i = 0; i < G::Dof; ++i) a(i) = r.uni(-amp, amp);
  return a;
}
template<class V>
static std::vector<double> stdv(const V & v)
{
  std::vector<double> o(static_cast<std::size_t>(v.size()));
  for (Eigen::Index i = 0; i < v.size(); ++i) o[static_cast<std::size_t>(i)] = v(i);
  return o;
}
using Wits = std::vector<std::vector<double>>;

// ------------------------------------------------------------------ plans (what is instantiated)
// cm: bit i set = argument i is passed as const reference; im: 0 = overload without index sequence,
// otherwise the set bits are the index subset.  mode: 0 Numerical, 1 Default, 2 Analytic.
enum { FULL = 0, LIGHT = 1, ANA = 2 };
static constexpr bool pow2(unsigned x) { return x != 0 && (x & (x - 1)) == 0; }
template<int Plan, unsigned N, std::size_t K, int Mode, bool HasJ, bool HasH>
static constexpr bool want(unsigned cm, unsigned im)
{
  constexpr unsigned ALL = (1u << N) - 1;
  const unsigned alt     = 0x5u & ALL;  // const, non-const, const
  if (Mode == 2) {                      // Analytic: callable must provide the members; no index overload
    if (!(HasJ && (K < 2 || HasH)) || im != 0) return false;
    return cm == 0 || cm == ALL || cm == alt;
  }
  if (K == 0) return (cm == 0 || cm == ALL) && (im == 0 || im == ALL || im == 1u) && (Mode == 0 || cm == 0);
  if (Mode == 1) return (cm == 0 || cm == alt) && (im == 0 || im == 1u || (Plan == ANA && im == ALL));
  if (Plan == FULL) return true;
  // LIGHT / ANA, Numerical
  return (cm == 0 || cm == ALL || cm == alt || cm == (ALL & ~alt)) && (im == 0 || im == ALL || pow2(im));
}

struct NoIdx
{};
template<unsigned M, std::size_t I, std::size_t... Acc>
struct MaskSeq
{
  using type = typename std::conditional_t<(M & 1u) != 0, MaskSeq<(M >> 1), I + 1, Acc..., I>, MaskSeq<(M >> 1), I + 1, Acc...>>::type;
};
template<std::size_t I, std::size_t... Acc>
struct MaskSeq<0u, I, Acc...>
{
  using type = std::index_sequence<Acc...>;
};
template<unsigned IM>
using IdxOf = std::conditional_t<IM == 0, NoIdx, typename MaskSeq<IM, 0>::type>;

template<std::size_t N, class F>
static void sfor(F && f)
{
  [&]<std::size_t... I>(std::index_sequence<I...>) { (f(std::integral_constant<unsigned, static_cast<unsigned>(I)>{}), ...); }(std::make_index_sequence<N>{});
}

template<bool C, class T>
static constexpr decltype(auto) mc(T & t)
{
  if constexpr (C) return static_cast<const T &>(t);
  else return static_cast<T &>(t);
}

template<class Tup>
static std::string args_coeffs_json(const Tup & a)
{
  std::string s = "[";
  std::apply([&](const auto &... x) {
    bool first = true;
    ((s += (first ? "" : ","), coeffs_json(s, x), first = false), ...);
  }, a);
  return s + "]";
}

template<class Fn, unsigned CM, unsigned IM, std::size_t K, int Mode>
static void do_call(const Fn & fn, const typename Fn::Args & a0, std::string & out)
{
  using Args                  = typename Fn::Args;
  constexpr std::size_t N     = std::tuple_size_v<Args>;
  constexpr sd::Type Ty       = Mode == 0 ? sd::Type::Numerical : Mode == 1 ? sd::Type::Default : sd::Type::Analytic;
  using IdxT                  = IdxOf<IM>;
  Args a                      = a0;  // the objects the call refers to
  const std::string pre       = args_coeffs_json(a);
  auto ret = [&]<std::size_t... I>(std::index_sequence<I...>) {
    if constexpr (std::is_same_v<IdxT, NoIdx>) return sd::dr<K, Ty>(fn, smooth::wrt(mc<((CM >> I) & 1u) != 0>(std::get<I>(a))...));
    else return sd::dr<K, Ty>(fn, smooth::wrt(mc<((CM >> I) & 1u) != 0>(std::get<I>(a))...), IdxT{});
  }(std::make_index_sequence<N>{});
  const std::string post      = args_coeffs_json(a);
  constexpr std::size_t RS    = std::tuple_size_v<std::decay_t<decltype(ret)>>;

  std::string cm, idx;
  for (std::size_t i = 0; i < N; ++i) cm += ((CM >> i) & 1u) ? 'c' : 'm';
  for (std::size_t i = 0; i < N; ++i)
    if (IM == 0 || ((IM >> i) & 1u)) idx += (idx.empty() ? "" : ",") + std::to_string(i + 1);
  Ev e;
  e.str("cm", cm).raw("idx", "[" + idx + "]").num("sub", IM == 0 ? 0 : 1).num("K", static_cast<long>(K));
  e.str("mode", Mode == 0 ? "num" : Mode == 1 ? "def" : "ana").num("rs", static_cast<long>(RS));
  e.raw("pre", pre).raw("post", post);
  {
    std::string v;
    coeffs_json(v, std::get<0>(ret));
    e.raw("val", v);
  }
  if constexpr (RS > 1) {
    using JT = std::decay_t<decltype(std::get<1>(ret))>;
    e.mat("J", std::get<1>(ret));
    e.raw("Jct", "[" + std::to_string(JT::RowsAtCompileTime) + "," + std::to_string(JT::ColsAtCompileTime) + "]");
  }
  if constexpr (RS > 2) e.mat("H", std::get<2>(ret));
  e.s += "}";
  if (!out.empty()) out += ",";
  out += e.s;
}

template<class Fn, std::size_t K, int Mode>
static void sweep(const Fn & fn, const typename Fn::Args & a, std::string & calls)
{
  constexpr unsigned N = static_cast<unsigned>(std::tuple_size_v<typename Fn::Args>);
  sfor<(1u << N)>([&](auto cm) {
    sfor<(1u << N)>([&](auto im) {
      if constexpr (want<Fn::plan, N, K, Mode, Fn::hasJ, Fn::hasH>(cm(), im())) do_call<Fn, cm(), im(), K, Mode>(fn, a, calls);
    });
  });
}

template<class Fn>
static void point(Sink & sink, const Fn & fn, const typename Fn::Args & a)
{
  Ev e;
  e.str("op", "dr").str("fn", fn.name());
  {
    std::string s = "[", t = "[";
    std::apply([&](const auto &... x) {
      bool first = true;
      ((s += (first ? "" : ","), s += "{\"t\":" + AT<std::decay_t<decltype(x)>>::json(x) + ",\"c\":", coeffs_json(s, x), s += "}",
        t += (first ? "\"" : ",\""), t += TN<std::decay_t<decltype(x)>>::name(), t += "\"", first = false), ...);
    }, a);
    e.raw("args", s + "]").raw("cpp", t + "]");
  }
  e.raw("ast", fn.ast(a));
  {
    std::string w = "[";
    const Wits ws = fn.wits(a);
    for (std::size_t i = 0; i < ws.size(); ++i) {
      if (i) w += ",";
      qvec(w, ws[i]);
    }
    e.raw("wit", w + "]");
  }
  {
    // the callable evaluated directly on the caller's arguments
    const auto fx = std::apply(fn, a);
    std::string v;
    coeffs_json(v, fx);
    e.raw("fx", v);
  }
  e.num("scalar", Fn::scalar ? 1 : 0).num("hasJ", Fn::hasJ ? 1 : 0).num("hasH", Fn::hasH ? 1 : 0);
  if constexpr (Fn::hasJ) {
    const auto & oj = std::apply([&](const auto &... x) -> decltype(auto) { return fn.jacobian(x...); }, a);
    e.mat("ownJ", oj);
  }
  if constexpr (Fn::hasH) {
    const auto & oh = std::apply([&](const auto &... x) -> decltype(auto) { return fn.hessian(x...); }, a);
    const Eigen::MatrixXd ohm = static_cast<const Eigen::MatrixXd &>(Eigen::MatrixXd(std::unwrap_reference_t<std::decay_t<decltype(oh)>>(oh)));
    e.mat("ownH", ohm);
  }
  std::string calls;
  sweep<Fn, 0, 0>(fn, a, calls);
  sweep<Fn, 0, 1>(fn, a, calls);
  sweep<Fn, 1, 0>(fn, a, calls);
  sweep<Fn, 1, 1>(fn, a, calls);
  sweep<Fn, 1, 2>(fn, a, calls);
  if constexpr (Fn::k2) {
    sweep<Fn, 2, 0>(fn, a, calls);
    sweep<Fn, 2, 1>(fn, a, calls);
    sweep<Fn, 2, 2>(fn, a, calls);
  }
  e.raw("calls", "[" + calls + "]");
  sink.emit(e);
}

// ------------------------------------------------------------------ the callables

template<class G> static const char * gname() { return TN<G>::name(); }

struct Base
{
  static constexpr bool scalar = false, hasJ = false, hasH = false;
  static constexpr bool k2 = false;  // also differentiate to second order (K = 2)
  static constexpr int plan    = LIGHT;
};

// x o y
template<class G, int Plan>
struct FCompose : Base
{
  using Args                = std::tuple<G, G>;
  static constexpr int plan = Plan;
  std::string name() const { return std::string("compose.") + gname<G>(); }
  G operator()(const G & x, const G & y) const { return x * y; }
  std::string ast(const Args &) const { return Cmp(A(1), A(2)); }
  Wits wits(const Args &) const { return {}; }
  static Args sample(Rng & r, int cls) { return {relem<G>(r, cls), relem<G>(r, 0)}; }
};

// log x
template<class G>
struct FLog : Base
{
  using Args = std::tuple<G>;
  using Tan  = Eigen::Matrix<double, G::Dof, 1>;
  std::string name() const { return std::string("log.") + gname<G>(); }
  Tan operator()(const G & x) const { return x.log(); }
  std::string ast(const Args &) const { return Log(A(1), 1); }
  Wits wits(const Args & a) const { return {stdv(std::get<0>(a).log())}; }
  static Args sample(Rng & r, int cls) { return {relem<G>(r, cls)}; }
};

// x . v
template<class G, int N, int Plan>
struct FAct : Base
{
  using Vn                  = Eigen::Matrix<double, N, 1>;
  using Args                = std::tuple<G, Vn>;
  static constexpr int plan = Plan;
  std::string name() const { return std::string("act.") + gname<G>(); }
  Vn operator()(const G & x, const Vn & v) const { return x * v; }
  std::string ast(const Args &) const { return Act(A(1), A(2)); }
  Wits wits(const Args &) const { return {}; }
  static Args sample(Rng & r, int cls) { return {relem<G>(r, cls), rvecb<N>(r, cls, 8.0)}; }
};

// x (-) y
template<class G, int Plan>
struct FRminus : Base
{
  using Args                = std::tuple<G, G>;
  using Tan                 = Eigen::Matrix<double, G::Dof, 1>;
  static constexpr int plan = Plan;
  std::string name() const { return std::string("rminus.") + gname<G>(); }
  Tan operator()(const G & x, const G & y) const { return smooth::rminus(x, y); }
  std::string ast(const Args &) const { return Rminus(A(1), A(2), 1); }
  Wits wits(const Args & a) const { return {stdv(smooth::rminus(std::get<0>(a), std::get<1>(a)))}; }
  static Args sample(Rng & r, int cls)
  {
    const G y = relem<G>(r, cls);
    return {y * G::exp(rtan<G>(r, cls == 3 ? 0.3 : 1.0)), y};
  }
};

// Ad_x a
template<class G>
struct FAdv : Base
{
  using Tan  = Eigen::Matrix<double, G::Dof, 1>;
  using Args = std::tuple<G, Tan>;
  std::string name() const { return std::string("Adv.") + gname<G>(); }
  Tan operator()(const G & x, const Tan & a) const { return x.Ad() * a; }
  std::string ast(const Args &) const { return Adv(A(1), A(2)); }
  Wits wits(const Args &) const { return {}; }
  static Args sample(Rng & r, int cls) { return {relem<G>(r, cls, 0.8), rvecb<G::Dof>(r, cls, 6.0)}; }
};

// polynomial map of (double, Vector3d, VectorXd[2]) -> VectorXd[3]   (static and dynamic sizes mixed)
struct FPolyMap : Base
{
  using Args                = std::tuple<double, V3d, VXd>;
  static constexpr int plan = FULL;
  Poly p;
  FPolyMap()
  {
    // variables: s, v1, v2, v3, w1, w2
    p = {{{0.03125, {1, 1, 0, 0, 0, 0}}, {0.03125, {0, 0, 2, 0, 0, 0}}, {-0.125, {0, 0, 0, 0, 1, 0}}, {0.5, {0, 0, 0, 0, 0, 0}}},
         {{0.25, {0, 0, 0, 1, 0, 0}}, {0.015625, {0, 0, 0, 1, 0, 1}}, {-0.03125, {2, 0, 0, 0, 0, 0}}, {0.125, {0, 1, 0, 0, 0, 0}}},
         {{0.001953125, {0, 1, 1, 0, 1, 0}}, {0.375, {0, 0, 0, 0, 0, 1}}, {-0.125, {1, 0, 0, 0, 0, 0}}, {0.015625, {0, 0, 0, 2, 0, 0}}}};
  }
  std::string name() const { return "polymap.s_v3_wX"; }
  VXd operator()(const double & s, const V3d & v, const VXd & w) const
  {
    Eigen::Matrix<double, 6, 1> x;
    x << s, v, w;
    VXd out(3);
    for (int i = 0; i < 3; ++i) out(i) = poly_eval(p[static_cast<std::size_t>(i)], x);
    return out;
  }
  std::string ast(const Args &) const { return PolyNode(p, Cat(A(1), Cat(A(2), A(3)))); }
  Wits wits(const Args &) const { return {}; }
  static Args sample(Rng & r, int cls) { return {coord(r, cls == 3 ? 2 : cls), rvec<3>(r, cls), rvecx(r, 2, cls)}; }
};

// polynomial map of (VectorXd[3], Vector2d) -> Vector2d   (dynamic argument, static result)
struct FPolyMap2 : Base
{
  using Args = std::tuple<VXd, V2d>;
  Poly p;
  FPolyMap2()
  {
    // variables: w1, w2, w3, v1, v2
    p = {{{0.25, {1, 0, 0, 0, 0}}, {0.015625, {0, 1, 0, 1, 0}}, {0.03125, {0, 0, 2, 0, 0}}, {-0.25, {0, 0, 0, 0, 1}}},
         {{0.001953125, {1, 1, 0, 0, 1}}, {0.25, {0, 0, 0, 1, 0}}, {-0.125, {0, 0, 1, 0, 0}}, {0.03125, {0, 0, 0, 0, 2}}}};
  }
  std::string name() const { return "polymap.wX_v2"; }
  V2d operator()(const VXd & w, const V2d & v) const
  {
    Eigen::Matrix<double, 5, 1> x;
    x << w, v;
    return V2d(poly_eval(p[0], x), poly_eval(p[1], x));
  }
  std::string ast(const Args &) const { return PolyNode(p, Cat(A(1), A(2))); }
  Wits wits(const Args &) const { return {}; }
  static Args sample(Rng & r, int cls) { return {rvecx(r, 3, cls), rvec<2>(r, cls)}; }
};

// (x o y) . v
template<class G, int Plan>
struct FCompAct : Base
{
  using Args                = std::tuple<G, G, V3d>;
  static constexpr int plan = Plan;
  std::string name() const { return std::string("compact.") + gname<G>(); }
  V3d operator()(const G & x, const G & y, const V3d & v) const { return (x * y) * v; }
  std::string ast(const Args &) const { return Act(Cmp(A(1), A(2)), A(3)); }
  Wits wits(const Args &) const { return {}; }
  static Args sample(Rng & r, int cls) { return {relem<G>(r, cls, 0.7), relem<G>(r, 0, 0.7), rvecb<3>(r, cls, 6.0)}; }
};

// log(x o y)
template<class G>
struct FLogComp : Base
{
  using Args = std::tuple<G, G>;
  using Tan  = Eigen::Matrix<double, G::Dof, 1>;
  std::string name() const { return std::string("logcomp.") + gname<G>(); }
  Tan operator()(const G & x, const G & y) const { return (x * y).log(); }
  std::string ast(const Args &) const { return Log(Cmp(A(1), A(2)), 1); }
  Wits wits(const Args & a) const { return {stdv((std::get<0>(a) * std::get<1>(a)).log())}; }
  static Args sample(Rng & r, int cls)
  {
    const G x = relem<G>(r, cls);
    return {x, x.inverse() * G::exp(rtan<G>(r, 1.0))};
  }
};

// (x o y) (-) z
template<class G>
struct FCompRminus : Base
{
  using Args = std::tuple<G, G, G>;
  using Tan  = Eigen::Matrix<double, G::Dof, 1>;
  std::string name() const { return std::string("comprminus.") + gname<G>(); }
  Tan operator()(const G & x, const G & y, const G & z) const { return smooth::rminus(x * y, z); }
  std::string ast(const Args &) const { return Rminus(Cmp(A(1), A(2)), A(3), 1); }
  Wits wits(const Args & a) const { return {stdv(smooth::rminus(std::get<0>(a) * std::get<1>(a), std::get<2>(a)))}; }
  static Args sample(Rng & r, int cls)
  {
    const G x = relem<G>(r, cls), y = relem<G>(r, 0);
    return {x, y, (x * y) * G::exp(rtan<G>(r, 1.0))};
  }
};

// vs[0] o vs[1] o vs[2] o y      (std::vector<SO3d> argument)
struct FVProd : Base
{
  using Args = std::tuple<VSO3, SO3d>;
  std::string name() const { return "vprod.vecSO3_SO3"; }
  SO3d operator()(const VSO3 & vs, const SO3d & y) const { return vs[0] * vs[1] * vs[2] * y; }
  std::string ast(const Args &) const { return Cmp(Cmp(Cmp(Part(A(1), 1), Part(A(1), 2)), Part(A(1), 3)), A(2)); }
  Wits wits(const Args &) const { return {}; }
  static Args sample(Rng & r, int cls) { return {VSO3{relem<SO3d>(r, cls), relem<SO3d>(r, 0), relem<SO3d>(r, 0)}, relem<SO3d>(r, 0)}; }
};

// s (vs[0] . v) + vs[1] . v     (std::vector<SO3d>, Vector3d, double)
struct FVAct : Base
{
  using Args = std::tuple<VSO3, V3d, double>;
  Poly p;
  FVAct()
  {
    // variables: s, a1, a2, a3, b1, b2, b3
    p.resize(3);
    for (int i = 0; i < 3; ++i) {
      std::vector<int> e1(7, 0), e2(7, 0);
      e1[0] = 1;
      e1[static_cast<std::size_t>(1 + i)] = 1;
      e2[static_cast<std::size_t>(4 + i)] = 1;
      p[static_cast<std::size_t>(i)] = {{0.03125, e1}, {0.25, e2}};
    }
  }
  std::string name() const { return "vact.vecSO3_v3_s"; }
  V3d operator()(const VSO3 & vs, const V3d & v, const double & s) const
  {
    Eigen::Matrix<double, 7, 1> x;
    x << s, vs[0] * v, vs[1] * v;
    return V3d(poly_eval(p[0], x), poly_eval(p[1], x), poly_eval(p[2], x));
  }
  std::string ast(const Args &) const { return PolyNode(p, Cat(A(3), Cat(Act(Part(A(1), 1), A(2)), Act(Part(A(1), 2), A(2))))); }
  Wits wits(const Args &) const { return {}; }
  static Args sample(Rng & r, int cls) { return {VSO3{relem<SO3d>(r, cls), relem<SO3d>(r, 0)}, rvecb<3>(r, cls, 11.0), coord(r, cls == 3 ? 0 : cls)}; }
};

// b.part<0>() . ((b.part<1>() + w) / 4)     (Bundle, VectorXd[3])
struct FBMix : Base
{
  using Args = std::tuple<Bun, VXd>;
  Poly p;
  FBMix()
  {
    p.resize(3);
    for (int i = 0; i < 3; ++i) {
      std::vector<int> e1(6, 0), e2(6, 0);
      e1[static_cast<std::size_t>(i)]     = 1;
      e2[static_cast<std::size_t>(3 + i)] = 1;
      p[static_cast<std::size_t>(i)] = {{0.25, e1}, {0.25, e2}};
    }
  }
  std::string name() const { return "bmix.Bundle_wX"; }
  V3d operator()(const Bun & b, const VXd & w) const
  {
    Eigen::Matrix<double, 6, 1> x;
    x << b.template part<1>(), w;
    const V3d u(poly_eval(p[0], x), poly_eval(p[1], x), poly_eval(p[2], x));  // (part1 + w) / 4
    return b.template part<0>() * u;
  }
  std::string ast(const Args &) const { return Act(Part(A(1), 1), PolyNode(p, Cat(Part(A(1), 2), A(2)))); }
  Wits wits(const Args &) const { return {}; }
  static Args sample(Rng & r, int cls)
  {
    Bun b;
    b.template part<0>() = relem<SO3d>(r, cls);
    b.template part<1>() = rvec<3>(r, cls == 3 ? 0 : cls);
    return {b, rvecx(r, 3, cls)};
  }
};

// ---- scalar-valued callables (K = 0, 1, 2)

struct SBase : Base
{
  static constexpr bool scalar = true;
  static constexpr bool k2     = true;
};
static Poly half_sqnorm(int n)
{
  Poly p(1);
  for (int i = 0; i < n; ++i) {
    std::vector<int> e(static_cast<std::size_t>(n), 0);
    e[static_cast<std::size_t>(i)] = 2;
    p[0].push_back({0.5, e});
  }
  return p;
}

// 1/2 |x (-) y|^2
template<class G, int Plan>
struct SSqn : SBase
{
  using Args                = std::tuple<G, G>;
  static constexpr int plan = Plan;
  std::string name() const { return std::string("sqn.") + gname<G>(); }
  double operator()(const G & x, const G & y) const { return 0.5 * smooth::rminus(x, y).squaredNorm(); }
  std::string ast(const Args &) const { return PolyNode(half_sqnorm(G::Dof), Rminus(A(1), A(2), 1)); }
  Wits wits(const Args & a) const { return {stdv(smooth::rminus(std::get<0>(a), std::get<1>(a)))}; }
  static Args sample(Rng & r, int cls)
  {
    const G y = relem<G>(r, cls);
    return {y * G::exp(rtan<G>(r, 1.0)), y};
  }
};

// c . (x . v)
template<class G, int Plan>
struct SLinAct : SBase
{
  using Args                = std::tuple<G, V3d>;
  static constexpr int plan = Plan;
  Poly p;
  SLinAct() { p = {{{0.5, {1, 0, 0}}, {-0.25, {0, 1, 0}}, {0.75, {0, 0, 1}}}}; }
  std::string name() const { return std::string("linact.") + gname<G>(); }
  double operator()(const G & x, const V3d & v) const { return poly_eval(p[0], (x * v).eval()); }
  std::string ast(const Args &) const { return PolyNode(p, Act(A(1), A(2))); }
  Wits wits(const Args &) const { return {}; }
  static Args sample(Rng & r, int cls) { return {relem<G>(r, cls, 0.8), rvecb<3>(r, cls == 3 ? 0 : cls, 8.0)}; }
};

// cubic polynomial of (double, Vector2d, VectorXd[2])
struct SPoly : SBase
{
  using Args                = std::tuple<double, V2d, VXd>;
  static constexpr int plan = FULL;
  Poly p;
  SPoly()
  {
    // variables: s, v1, v2, w1, w2
    p = {{{0.015625, {1, 1, 0, 0, 0}}, {0.0009765625, {0, 0, 2, 1, 0}}, {0.0625, {0, 0, 0, 0, 2}}, {0.015625, {2, 0, 0, 0, 0}},
          {0.015625, {0, 1, 0, 0, 1}}, {-0.125, {0, 0, 1, 0, 0}}, {0.0078125, {0, 2, 0, 0, 0}}, {0.0078125, {0, 0, 0, 2, 0}}, {0.25, {0, 0, 0, 0, 0}}}};
  }
  std::string name() const { return "spoly.s_v2_wX"; }
  double operator()(const double & s, const V2d & v, const VXd & w) const
  {
    Eigen::Matrix<double, 5, 1> x;
    x << s, v, w;
    return poly_eval(p[0], x);
  }
  std::string ast(const Args &) const { return PolyNode(p, Cat(A(1), Cat(A(2), A(3)))); }
  Wits wits(const Args &) const { return {}; }
  static Args sample(Rng & r, int cls) { return {coord(r, cls == 3 ? 2 : cls), rvec<2>(r, cls), rvecx(r, 2, cls)}; }
};

// 1/2 |vs[0] (-) y|^2 + 1/2 |vs[1] (-) y|^2      (std::vector<SO3d>, SO3d)
struct SVSqn : SBase
{
  using Args = std::tuple<VSO3, SO3d>;
  std::string name() const { return "vsqn.vecSO3_SO3"; }
  double operator()(const VSO3 & vs, const SO3d & y) const
  {
    return 0.5 * smooth::rminus(vs[0], y).squaredNorm() + 0.5 * smooth::rminus(vs[1], y).squaredNorm();
  }
  std::string ast(const Args &) const { return PolyNode(half_sqnorm(6), Cat(Rminus(Part(A(1), 1), A(2), 1), Rminus(Part(A(1), 2), A(2), 2))); }
  Wits wits(const Args & a) const
  {
    return {stdv(smooth::rminus(std::get<0>(a)[0], std::get<1>(a))), stdv(smooth::rminus(std::get<0>(a)[1], std::get<1>(a)))};
  }
  static Args sample(Rng & r, int cls)
  {
    const SO3d y = relem<SO3d>(r, cls);
    return {VSO3{y * SO3d::exp(rtan<SO3d>(r, 1.0)), y * SO3d::exp(rtan<SO3d>(r, 0.8))}, y};
  }
};

// c . (b.part<0>() . v) + 1/16 |b.part<1>()|^2 + 1/32 b.part<1>() . v     (Bundle, Vector3d)
struct SBun : SBase
{
  using Args = std::tuple<Bun, V3d>;
  Poly p;
  SBun()
  {
    // variables: a1 a2 a3 (= part0 . v), t1 t2 t3 (= part1), v1 v2 v3
    p.resize(1);
    const double c[3] = {0.5, -0.25, 0.75};
    for (int i = 0; i < 3; ++i) {
      std::vector<int> ea(9, 0), et(9, 0), etv(9, 0);
      ea[static_cast<std::size_t>(i)]      = 1;
      et[static_cast<std::size_t>(3 + i)]  = 2;
      etv[static_cast<std::size_t>(3 + i)] = 1;
      etv[static_cast<std::size_t>(6 + i)] = 1;
      p[0].push_back({c[i], ea});
      p[0].push_back({0.0625, et});
      p[0].push_back({0.03125, etv});
    }
  }
  std::string name() const { return "sbun.Bundle_v3"; }
  double operator()(const Bun & b, const V3d & v) const
  {
    Eigen::Matrix<double, 9, 1> x;
    x << b.template part<0>() * v, b.template part<1>(), v;
    return poly_eval(p[0], x);
  }
  std::string ast(const Args &) const { return PolyNode(p, Cat(Act(Part(A(1), 1), A(2)), Cat(Part(A(1), 2), A(2)))); }
  Wits wits(const Args &) const { return {}; }
  static Args sample(Rng & r, int cls)
  {
    Bun b;
    b.template part<0>() = relem<SO3d>(r, cls);
    b.template part<1>() = rvecb<3>(r, cls == 3 ? 0 : cls, 7.0);
    return {b, rvecb<3>(r, cls == 3 ? 0 : cls, 7.0)};
  }
};

// ---- std::vector of dynamic-size vectors (equal-length and ragged) and nested std::vector arguments.
// The tangent of such an argument is the concatenation of the elements' tangents in order; the callables are
// polynomial maps of the concatenated coordinates with a different coefficient on every coordinate, so that a
// perturbation applied to the wrong coordinate shows in the Jacobian / Hessian.

static VXd flat(const VVX & a)
{
  Eigen::Index n = 0;
  for (const auto & v : a) n += v.size();
  VXd x(n);
  Eigen::Index k = 0;
  for (const auto & v : a)
    for (Eigen::Index i = 0; i < v.size(); ++i) x(k++) = v(i);
  return x;
}
static VVX rvv(Rng & r, const std::vector<int> & sizes, int cls)
{
  VVX a;
  for (int n : sizes) a.push_back(rvecx(r, n, cls == 3 ? 0 : cls));
  return a;
}
// concatenation of the parts 1..m of argument (tree) a
static std::string CatParts(const std::string & a, int m)
{
  std::string s = Part(a, m);
  for (int i = m - 1; i >= 1; --i) s = Cat(Part(a, i), s);
  return s;
}
// sum_i +-(i+3+shift)/64 x_i + sum_i x_i x_(i+1)/128 + x_(n-1)^2/16 + x_0^2/32 + 1/4  on variables off .. off+n-1 of nv
static std::vector<Term> generic_terms(int nv, int off, int n, int shift)
{
  std::vector<Term> t;
  auto E = [&](int i, int pi, int j = -1, int pj = 0) {
    std::vector<int> e(static_cast<std::size_t>(nv), 0);
    e[static_cast<std::size_t>(off + i)] += pi;
    if (j >= 0) e[static_cast<std::size_t>(off + j)] += pj;
    return e;
  };
  for (int i = 0; i < n; ++i) t.push_back({((i % 2) ? -1.0 : 1.0) * (i + 3 + shift) / 64.0, E(i, 1)});
  for (int i = 0; i + 1 < n; ++i) t.push_back({1.0 / 128.0, E(i, 1, i + 1, 1)});
  t.push_back({1.0 / 16.0, E(n - 1, 2)});
  t.push_back({1.0 / 32.0, E(0, 2)});
  t.push_back({0.25, std::vector<int>(static_cast<std::size_t>(nv), 0)});
  return t;
}

// polynomial map of one ragged std::vector<VectorXd> {3,4,2} -> VectorXd[3]
struct FVVMap : Base
{
  using Args = std::tuple<VVX>;
  Poly p;
  FVVMap()
  {
    for (int k = 0; k < 3; ++k) p.push_back(generic_terms(9, 0, 9, 2 * k));
  }
  std::string name() const { return "vvmap.ragged342"; }
  VXd operator()(const VVX & a) const
  {
    const VXd x = flat(a);
    VXd out(3);
    for (int i = 0; i < 3; ++i) out(i) = poly_eval(p[static_cast<std::size_t>(i)], x);
    return out;
  }
  std::string ast(const Args &) const { return PolyNode(p, CatParts(A(1), 3)); }
  Wits wits(const Args &) const { return {}; }
  static Args sample(Rng & r, int cls) { return {rvv(r, {3, 4, 2}, cls)}; }
};

// scalar of (ragged std::vector<VectorXd> {1,5}, SO3d):  p(x) + c . (g . u(x)),  u_k = x_(k+1)/2 + x_0/8
struct SVVRag : SBase
{
  using Args                = std::tuple<VVX, SO3d>;
  static constexpr int plan = FULL;
  Poly lin, pout;
  SVVRag()
  {
    lin.resize(3);
    for (int k = 0; k < 3; ++k) {
      std::vector<int> e1(6, 0), e0(6, 0);
      e1[static_cast<std::size_t>(k + 1)] = 1;
      e0[0]                               = 1;
      lin[static_cast<std::size_t>(k)]    = {{0.5, e1}, {0.125, e0}};
    }
    // variables of the outer polynomial: a1 a2 a3 (= g . u), x0 .. x5
    pout.resize(1);
    const double c[3] = {0.5, -0.25, 0.75};
    for (int k = 0; k < 3; ++k) {
      std::vector<int> e(9, 0);
      e[static_cast<std::size_t>(k)] = 1;
      pout[0].push_back({c[k], e});
    }
    for (const auto & t : generic_terms(9, 3, 6, 0)) pout[0].push_back(t);
  }
  std::string name() const { return "svv.ragged15_SO3"; }
  double operator()(const VVX & a, const SO3d & g) const
  {
    const VXd x = flat(a);
    const V3d u(poly_eval(lin[0], x), poly_eval(lin[1], x), poly_eval(lin[2], x));
    Eigen::Matrix<double, 9, 1> y;
    y << g * u, x;
    return poly_eval(pout[0], y);
  }
  std::string ast(const Args &) const
  {
    const std::string X = CatParts(A(1), 2);
    return PolyNode(pout, Cat(Act(A(2), PolyNode(lin, X)), X));
  }
  Wits wits(const Args &) const { return {}; }
  static Args sample(Rng & r, int cls) { return {rvv(r, {1, 5}, cls), relem<SO3d>(r, cls, 0.8)}; }
};

// scalar polynomial of (Vector2d, ragged std::vector<VectorXd> {2,2,3}, double)
struct SVV223 : SBase
{
  using Args = std::tuple<V2d, VVX, double>;
  Poly p;
  SVV223() { p = {generic_terms(10, 0, 10, 0)}; }
  std::string name() const { return "svv.v2_ragged223_s"; }
  double operator()(const V2d & v, const VVX & a, const double & s) const
  {
    Eigen::Matrix<double, 10, 1> x;
    x << v, flat(a), s;
    return poly_eval(p[0], x);
  }
  std::string ast(const Args &) const { return PolyNode(p, Cat(A(1), Cat(CatParts(A(2), 3), A(3)))); }
  Wits wits(const Args &) const { return {}; }
  static Args sample(Rng & r, int cls) { return {rvec<2>(r, cls), rvv(r, {2, 2, 3}, cls), coord(r, cls == 3 ? 2 : cls)}; }
};

// scalar polynomial of one equal-length std::vector<VectorXd> {3,3}
struct SVVEq : SBase
{
  using Args = std::tuple<VVX>;
  Poly p;
  SVVEq() { p = {generic_terms(6, 0, 6, 1)}; }
  std::string name() const { return "svv.equal33"; }
  double operator()(const VVX & a) const { return poly_eval(p[0], flat(a)); }
  std::string ast(const Args &) const { return PolyNode(p, CatParts(A(1), 2)); }
  Wits wits(const Args &) const { return {}; }
  static Args sample(Rng & r, int cls) { return {rvv(r, {3, 3}, cls)}; }
};

// scalar polynomial of (nested ragged std::vector<std::vector<VectorXd>> {{2,3},{1}}, double)
struct SNest : SBase
{
  using Args                = std::tuple<VVVX, double>;
  static constexpr int plan = FULL;
  Poly p;
  SNest() { p = {generic_terms(7, 0, 7, 2)}; }
  std::string name() const { return "snest.ragged23_1_s"; }
  double operator()(const VVVX & a, const double & s) const
  {
    Eigen::Matrix<double, 7, 1> x;
    x << flat(a[0]), flat(a[1]), s;
    return poly_eval(p[0], x);
  }
  std::string ast(const Args &) const { return PolyNode(p, Cat(CatParts(Part(A(1), 1), 2), Cat(Part(Part(A(1), 2), 1), A(2)))); }
  Wits wits(const Args &) const { return {}; }
  static Args sample(Rng & r, int cls) { return {VVVX{rvv(r, {2, 3}, cls), rvv(r, {1}, cls)}, coord(r, cls == 3 ? 2 : cls)}; }
};

// ---- callables that provide their own derivatives.  The members return matrices that are NOT the
// true derivatives (distinctive values computed from the arguments), so that "verbatim" is observable.

// c . (x . v) with jacobian and hessian members
struct AJH : SBase
{
  using Args                 = std::tuple<SO3d, V3d>;
  static constexpr bool hasJ = true, hasH = true;
  static constexpr int plan  = ANA;
  Poly p;
  AJH() { p = {{{0.5, {1, 0, 0}}, {-0.25, {0, 1, 0}}, {0.75, {0, 0, 1}}}}; }
  std::string name() const { return "ana.JH.SO3_v3"; }
  double operator()(const SO3d & x, const V3d & v) const { return poly_eval(p[0], (x * v).eval()); }
  Eigen::Matrix<double, 1, 6> jacobian(const SO3d & x, const V3d & v) const
  {
    Eigen::Matrix<double, 1, 6> J;
    J << 7.0 + x.coeffs()(0), -3.0 * x.coeffs()(3), 0.1 * v(0), v(1) * v(2), -0.0, 1e-3 / 3.0;
    return J;
  }
  Eigen::Matrix<double, 6, 6> hessian(const SO3d & x, const V3d & v) const
  {
    Eigen::Matrix<double, 6, 6> H;
    for (int i = 0; i < 6; ++i)
      for (int j = 0; j < 6; ++j) H(i, j) = (i + 1) * 0.1 + (j + 1) / 7.0 + x.coeffs()(i % 4) * v(j % 3);
    return H;
  }
  std::string ast(const Args &) const { return PolyNode(p, Act(A(1), A(2))); }
  Wits wits(const Args &) const { return {}; }
  static Args sample(Rng & r, int cls) { return {relem<SO3d>(r, cls, 0.8), rvecb<3>(r, cls == 3 ? 0 : cls, 8.0)}; }
};

// quadratic polynomial of (Vector2d, double) with a jacobian member only: Default, K = 2 must differentiate numerically
struct AJ : SBase
{
  using Args                 = std::tuple<V2d, double>;
  static constexpr bool hasJ = true;
  static constexpr int plan  = ANA;
  Poly p;
  AJ() { p = {{{0.0625, {2, 0, 0}}, {0.015625, {0, 1, 1}}, {0.015625, {1, 0, 1}}, {-0.125, {0, 1, 0}}, {0.015625, {0, 0, 2}}}}; }
  std::string name() const { return "ana.J.v2_s"; }
  double operator()(const V2d & v, const double & s) const
  {
    return poly_eval(p[0], V3d(v(0), v(1), s));
  }
  Eigen::Matrix<double, 1, 3> jacobian(const V2d & v, const double & s) const { return Eigen::Matrix<double, 1, 3>(v(0) * s, 42.0, -v(1)); }
  std::string ast(const Args &) const { return PolyNode(p, Cat(A(1), A(2))); }
  Wits wits(const Args &) const { return {}; }
  static Args sample(Rng & r, int cls) { return {rvec<2>(r, cls), coord(r, cls == 3 ? 2 : cls)}; }
};

// members returning references (as in the repository's test_diff_analytic): shapes unrelated to the argument
struct ARef : SBase
{
  using Args                 = std::tuple<V2d>;
  static constexpr bool hasJ = true, hasH = true;
  static constexpr int plan  = ANA;
  Eigen::Matrix<double, 1, 5> jac;
  Eigen::Matrix<double, 5, 5> hess;
  ARef()
  {
    for (int i = 0; i < 5; ++i) {
      jac(i) = 1.0 / (i + 3);
      for (int j = 0; j < 5; ++j) hess(i, j) = i - 0.3 * j;
    }
  }
  std::string name() const { return "ana.ref.v2"; }
  double operator()(const V2d &) const { return 0.; }
  const Eigen::Matrix<double, 1, 5> & jacobian(const V2d &) const { return jac; }
  std::reference_wrapper<const Eigen::Matrix<double, 5, 5>> hessian(const V2d &) const { return hess; }
  std::string ast(const Args &) const { return PolyNode(Poly{{}}, A(1)); }
  Wits wits(const Args &) const { return {}; }
  static Args sample(Rng & r, int cls) { return {rvec<2>(r, cls)}; }
};

// group-valued callable with a jacobian member
struct AGrp : Base
{
  using Args                 = std::tuple<SE2d, SE2d>;
  static constexpr bool hasJ = true;
  static constexpr int plan  = ANA;
  std::string name() const { return "ana.J.SE2_SE2"; }
  SE2d operator()(const SE2d & x, const SE2d & y) const { return x * y; }
  Eigen::Matrix<double, 3, 6> jacobian(const SE2d & x, const SE2d & y) const
  {
    Eigen::Matrix<double, 3, 6> J;
    for (int i = 0; i < 3; ++i)
      for (int j = 0; j < 6; ++j) J(i, j) = x.coeffs()(i) * (j + 1) - y.coeffs()((i + j) % 4) / 3.0;
    return J;
  }
  std::string ast(const Args &) const { return Cmp(A(1), A(2)); }
  Wits wits(const Args &) const { return {}; }
  static Args sample(Rng & r, int cls) { return {relem<SE2d>(r, cls), relem<SE2d>(r, 0)}; }
};

// ---- vector-valued callables differentiated to second order (ny = 2, 3) with two and three arguments of
// different dofs: the stacked Hessian has one nx x nx block per output row, block j at columns j*nx .. j*nx+nx-1
// with nx the TOTAL dof of the differentiated arguments.

struct VBase : Base
{
  static constexpr bool k2 = true;
};

// quadratic map (Vector2d a, Vector3d b) -> Vector3d
struct VQuad : VBase
{
  using Args                = std::tuple<V2d, V3d>;
  static constexpr int plan = FULL;
  Poly p;
  VQuad()
  {
    // variables: a1 a2 b1 b2 b3
    p = {{{0.0625, {2, 0, 0, 0, 0}}, {0.03125, {1, 0, 0, 1, 0}}, {0.125, {0, 0, 1, 0, 0}}, {0.0625, {0, 0, 0, 0, 2}}, {-0.25, {0, 1, 0, 0, 0}}},
         {{0.03125, {0, 2, 0, 0, 0}}, {0.0625, {0, 1, 1, 0, 0}}, {0.0625, {0, 0, 0, 2, 0}}, {0.015625, {1, 0, 0, 0, 1}}, {0.125, {1, 0, 0, 0, 0}}},
         {{0.0625, {1, 1, 0, 0, 0}}, {0.03125, {0, 0, 1, 1, 0}}, {0.0625, {0, 0, 2, 0, 0}}, {0.03125, {0, 1, 0, 0, 1}}, {-0.125, {0, 0, 0, 0, 1}}}};
  }
  std::string name() const { return "vquad.v2_v3"; }
  V3d operator()(const V2d & a, const V3d & b) const
  {
    Eigen::Matrix<double, 5, 1> x;
    x << a, b;
    return V3d(poly_eval(p[0], x), poly_eval(p[1], x), poly_eval(p[2], x));
  }
  std::string ast(const Args &) const { return PolyNode(p, Cat(A(1), A(2))); }
  Wits wits(const Args &) const { return {}; }
  static Args sample(Rng & r, int cls) { return {rvec<2>(r, cls), rvec<3>(r, cls)}; }
};

// the SO3 action (R, v) -> R v, to second order
struct VAct2 : VBase
{
  using Args                = std::tuple<SO3d, V3d>;
  static constexpr int plan = FULL;
  std::string name() const { return "act2.SO3d"; }
  V3d operator()(const SO3d & x, const V3d & v) const { return x * v; }
  std::string ast(const Args &) const { return Act(A(1), A(2)); }
  Wits wits(const Args &) const { return {}; }
  static Args sample(Rng & r, int cls) { return {relem<SO3d>(r, cls), rvecb<3>(r, cls, 8.0)}; }
};

// (SE2d x, Vector2d v, double s) -> (s/4 + 1/2) (x . v) + s^2/16 (1, -1)
struct VSE2 : VBase
{
  using Args                = std::tuple<SE2d, V2d, double>;
  static constexpr int plan = FULL;
  Poly p;
  VSE2()
  {
    // variables: s, a1, a2  (a = x . v)
    p = {{{0.25, {1, 1, 0}}, {0.5, {0, 1, 0}}, {0.0625, {2, 0, 0}}}, {{0.25, {1, 0, 1}}, {0.5, {0, 0, 1}}, {-0.0625, {2, 0, 0}}}};
  }
  std::string name() const { return "vse2.SE2_v2_s"; }
  V2d operator()(const SE2d & x, const V2d & v, const double & s) const
  {
    const V2d a = x * v;
    const V3d y(s, a(0), a(1));
    return V2d(poly_eval(p[0], y), poly_eval(p[1], y));
  }
  std::string ast(const Args &) const { return PolyNode(p, Cat(A(3), Act(A(1), A(2)))); }
  Wits wits(const Args &) const { return {}; }
  static Args sample(Rng & r, int cls) { return {relem<SE2d>(r, cls, 0.8), rvecb<2>(r, cls, 4.0), coord(r, cls == 3 ? 2 : cls)}; }
};

// (VectorXd w[3], SO3d g, Vector2d u) -> Vector2d :  out_k = c_k . (g . w) + q_k(w, u)      (dynamic-size argument)
struct VDyn : VBase
{
  using Args = std::tuple<VXd, SO3d, V2d>;
  Poly p;
  VDyn()
  {
    // variables: a1 a2 a3 (= g . w), w1 w2 w3, u1 u2
    p = {{{0.5, {1, 0, 0, 0, 0, 0, 0, 0}}, {-0.25, {0, 1, 0, 0, 0, 0, 0, 0}}, {0.0625, {0, 0, 0, 2, 0, 0, 0, 0}}, {0.03125, {0, 0, 0, 0, 1, 0, 1, 0}},
          {0.0625, {0, 0, 0, 0, 0, 0, 0, 2}}, {0.125, {0, 0, 0, 0, 0, 1, 0, 0}}},
         {{0.25, {0, 1, 0, 0, 0, 0, 0, 0}}, {0.75, {0, 0, 1, 0, 0, 0, 0, 0}}, {0.03125, {0, 0, 0, 1, 0, 1, 0, 0}}, {0.0625, {0, 0, 0, 0, 0, 0, 2, 0}},
          {0.03125, {0, 0, 0, 0, 0, 1, 0, 1}}, {-0.125, {0, 0, 0, 0, 0, 0, 1, 0}}}};
  }
  std::string name() const { return "vdyn.wX_SO3_v2"; }
  V2d operator()(const VXd & w, const SO3d & g, const V2d & u) const
  {
    Eigen::Matrix<double, 8, 1> y;
    y << g * V3d(w), w, u;
    return V2d(poly_eval(p[0], y), poly_eval(p[1], y));
  }
  std::string ast(const Args &) const { return PolyNode(p, Cat(Act(A(2), A(1)), Cat(A(1), A(3)))); }
  Wits wits(const Args &) const { return {}; }
  static Args sample(Rng & r, int cls)
  {
    const V3d w = rvecb<3>(r, cls, 7.0);
    return {VXd(w), relem<SO3d>(r, cls, 0.8), rvec<2>(r, cls)};
  }
};

// vector-valued callable with jacobian and hessian members (values unrelated to the true derivatives)
struct AVec : VBase
{
  using Args                 = std::tuple<V2d, V3d>;
  static constexpr bool hasJ = true, hasH = true;
  static constexpr int plan  = ANA;
  Poly p;
  AVec()
  {
    p = {{{0.0625, {2, 0, 0, 0, 0}}, {0.0625, {0, 1, 0, 1, 0}}, {0.125, {0, 0, 1, 0, 0}}, {0.0625, {0, 0, 0, 0, 2}}},
         {{0.0625, {0, 2, 0, 0, 0}}, {0.0625, {1, 0, 1, 0, 0}}, {0.0625, {0, 0, 0, 2, 0}}, {0.125, {0, 0, 0, 0, 1}}}};
  }
  std::string name() const { return "ana.vec.v2_v3"; }
  V2d operator()(const V2d & a, const V3d & b) const
  {
    Eigen::Matrix<double, 5, 1> x;
    x << a, b;
    return V2d(poly_eval(p[0], x), poly_eval(p[1], x));
  }
  Eigen::Matrix<double, 2, 5> jacobian(const V2d & a, const V3d & b) const
  {
    Eigen::Matrix<double, 2, 5> J;
    for (int i = 0; i < 2; ++i)
      for (int j = 0; j < 5; ++j) J(i, j) = a(i) * (j + 1) - b(j % 3) / 3.0 + 11.0 * i;
    return J;
  }
  Eigen::Matrix<double, 5, 10> hessian(const V2d & a, const V3d & b) const
  {
    Eigen::Matrix<double, 5, 10> H;
    for (int i = 0; i < 5; ++i)
      for (int j = 0; j < 10; ++j) H(i, j) = (i + 1) * 0.1 - (j + 1) / 7.0 + a(j % 2) * b(i % 3);
    return H;
  }
  std::string ast(const Args &) const { return PolyNode(p, Cat(A(1), A(2))); }
  Wits wits(const Args &) const { return {}; }
  static Args sample(Rng & r, int cls) { return {rvec<2>(r, cls), rvec<3>(r, cls)}; }
};

// ------------------------------------------------------------------ selection

// clang-format off
#if   VH_FN == 1
using F0 = FCompose<SO3d, FULL>;
#elif VH_FN == 2
using F0 = FCompose<SE2d, LIGHT>;
#elif VH_FN == 3
using F0 = FCompose<SE3d, LIGHT>;
#elif VH_FN == 4
using F0 = FCompose<Bun, LIGHT>;
#elif VH_FN == 5
using F0 = FLog<SO3d>;
#elif VH_FN == 6
using F0 = FLog<SE3d>;
#elif VH_FN == 7
using F0 = FAct<SO3d, 3, FULL>;
#elif VH_FN == 8
using F0 = FAct<SE2d, 2, LIGHT>;
#elif VH_FN == 9
using F0 = FAct<SE3d, 3, LIGHT>;
#elif VH_FN == 10
using F0 = FRminus<SO3d, LIGHT>;
#elif VH_FN == 11
using F0 = FRminus<SE2d, FULL>;
#elif VH_FN == 12
using F0 = FRminus<Bun, LIGHT>;
#elif VH_FN == 13
using F0 = FAdv<SE2d>;
#elif VH_FN == 14
using F0 = FAdv<SO3d>;
#elif VH_FN == 15
using F0 = FPolyMap;
#elif VH_FN == 16
using F0 = FPolyMap2;
#elif VH_FN == 17
using F0 = FCompAct<SE3d, FULL>;
#elif VH_FN == 18
using F0 = FLogComp<SO3d>;
#elif VH_FN == 19
using F0 = FCompRminus<SE2d>;
#elif VH_FN == 20
using F0 = FVProd;
#elif VH_FN == 21
using F0 = FVAct;
#elif VH_FN == 22
using F0 = FBMix;
#elif VH_FN == 23
using F0 = SSqn<SO3d, FULL>;
#elif VH_FN == 24
using F0 = SSqn<SE2d, LIGHT>;
#elif VH_FN == 25
using F0 = SSqn<SE3d, LIGHT>;
#elif VH_FN == 26
using F0 = SLinAct<SO3d, FULL>;
#elif VH_FN == 27
using F0 = SLinAct<SE3d, LIGHT>;
#elif VH_FN == 28
using F0 = SPoly;
#elif VH_FN == 29
using F0 = SVSqn;
#elif VH_FN == 30
using F0 = SBun;
#elif VH_FN == 31
using F0 = AJH;
#elif VH_FN == 32
using F0 = AJ;
#elif VH_FN == 33
using F0 = ARef;
#elif VH_FN == 34
using F0 = AGrp;
#elif VH_FN == 35
using F0 = FVVMap;
#elif VH_FN == 36
using F0 = SVVRag;
#elif VH_FN == 37
using F0 = SVV223;
#elif VH_FN == 38
using F0 = SVVEq;
#elif VH_FN == 39
using F0 = SNest;
#elif VH_FN == 40
using F0 = VQuad;
#elif VH_FN == 41
using F0 = VAct2;
#elif VH_FN == 42
using F0 = VSE2;
#elif VH_FN == 43
using F0 = VDyn;
#elif VH_FN == 44
using F0 = AVec;
#else
#error "unknown VH_FN"
#endif
// clang-format on

int main(int argc, char ** argv)
{
  install_handlers();
  const std::string out = arg(argc, argv, "--out", "/dev/stdout");
  const long n          = std::atol(arg(argc, argv, "--n", "5").c_str());
  const uint64_t seed   = std::strtoull(arg(argc, argv, "--seed", "1").c_str(), nullptr, 10);
  Sink sink;
  if (!sink.open(out)) return 2;
  current_sink() = &sink;
  Rng rng(seed * 1000003ull + static_cast<uint64_t>(VH_FN) * 7919ull);
  const F0 fn{};
  for (long i = 0; i < n; ++i) {
    // point classes: 0 generic, 1 vector coordinates at the ends 0.1 / 10, 2 many zero coordinates, 3 first group argument = identity
    const int cls = static_cast<int>(i % 4);
    point(sink, fn, F0::sample(rng, cls));
  }
  sink.close();
  return 0;
}
