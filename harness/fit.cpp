// Conformance harness, family "fit" (property C14): executes fit_spline_1d, fit_spline, fit_bspline,
// dubins_curve and reparameterize_spline of the real library on generated inputs and records every
// operand and result exactly (ndjson).  TLC validates the trace with spec/TraceFit.tla.  Every library call runs in a
// forked child process; a call that does not return normally is recorded as such (field "status").
// The harness never judges a result.  It *proposes* inputs (time-stamp patterns, data, targets), sample
// times (knots read from the returned Spline are used only to decide where to evaluate the public
// operator()) and - for the Dubins minimality clause - candidate words computed by an independent textbook
// implementation that the specification verifies before it uses them.
// One part per translation unit (-DVH_PART=<n>):
//   0 fit_spline_1d   1 fit_spline SO3   2 fit_spline SE2   3 fit_spline SE3   4 fit_spline vectors
//   5 fit_bspline     6 dubins_curve     7 reparameterize_spline
#include <smooth/se2.hpp>
#include <smooth/se3.hpp>
#include <smooth/so3.hpp>
#include <smooth/spline/dubins.hpp>
#include <smooth/spline/fit.hpp>
#include <smooth/spline/reparameterize.hpp>

#include <algorithm>
#include <cmath>
#include <limits>
#include <string>
#include <vector>

#include <sys/wait.h>
#include <unistd.h>

#include "common.hpp"

using namespace vh;
namespace sp = smooth::spline_specs;

#ifndef VH_PART
#error "VH_PART not defined"
#endif

// ------------------------------------------------------------------------------------------------
// read-only access to Spline<K,G>::m_end_t (segment end times).  Explicit template instantiation may name
// private members; the values are used ONLY to choose evaluation times for the public operator().
template<typename Tag, typename Tag::type M>
struct Rob
{
  friend typename Tag::type rob_get(Tag) { return M; }
};
template<int K, typename G>
struct EndT
{
  using type = std::vector<double> smooth::Spline<K, G>::*;
  friend type rob_get(EndT);
};
template struct Rob<EndT<2, double>, &smooth::Spline<2, double>::m_end_t>;
template struct Rob<EndT<1, smooth::SE2d>, &smooth::Spline<1, smooth::SE2d>::m_end_t>;
template struct Rob<EndT<3, smooth::SE2d>, &smooth::Spline<3, smooth::SE2d>::m_end_t>;
template struct Rob<EndT<5, smooth::SE2d>, &smooth::Spline<5, smooth::SE2d>::m_end_t>;

template<int K, typename G>
std::vector<double> knots_of(const smooth::Spline<K, G> & s)
{
  std::vector<double> k{0.};
  for (double t : s.*rob_get(EndT<K, G>{})) k.push_back(t);
  return k;
}

// ------------------------------------------------------------------------------------------------
// descriptors

template<typename SS>
struct SpecDesc;
template<typename G>
struct SpecDesc<sp::NoConstraints<G, 1>>
{
  static std::string json() { return "{\"k\":\"PL\"}"; }
  static constexpr bool is_min = false;
};
template<typename G, int P1, int P2>
struct SpecDesc<sp::FixedDerCubic<G, P1, P2>>
{
  static std::string json() { return "{\"k\":\"FDC\",\"p1\":" + std::to_string(P1) + ",\"p2\":" + std::to_string(P2) + "}"; }
  static constexpr bool is_min = false;
};
template<typename G, int K, int O, int P>
struct SpecDesc<sp::MinDerivative<G, K, O, P>>
{
  static std::string json()
  {
    return "{\"k\":\"MD\",\"K\":" + std::to_string(K) + ",\"O\":" + std::to_string(O) + ",\"P\":" + std::to_string(P) + "}";
  }
  static constexpr bool is_min = true;
};

template<typename G>
struct GD;
template<>
struct GD<smooth::SO3d>
{
  static std::string json() { return "{\"k\":\"SO3\"}"; }
  static std::vector<double> coeffs(const smooth::SO3d & g) { return {g.coeffs()(0), g.coeffs()(1), g.coeffs()(2), g.coeffs()(3)}; }
  static Eigen::Vector3d tangent(Rng & r, double rot, double)
  {
    Eigen::Vector3d w(r.uni(-1, 1), r.uni(-1, 1), r.uni(-1, 1));
    if (w.norm() < 1e-3) w = Eigen::Vector3d(1, 0, 0);
    return w.normalized() * rot;
  }
};
template<>
struct GD<smooth::SE2d>
{
  static std::string json() { return "{\"k\":\"SE2\"}"; }
  static std::vector<double> coeffs(const smooth::SE2d & g) { return {g.coeffs()(0), g.coeffs()(1), g.coeffs()(2), g.coeffs()(3)}; }
  static Eigen::Vector3d tangent(Rng & r, double rot, double tr) { return {r.uni(-tr, tr), r.uni(-tr, tr), r.sign() * rot}; }
};
template<>
struct GD<smooth::SE3d>
{
  static std::string json() { return "{\"k\":\"SE3\"}"; }
  static std::vector<double> coeffs(const smooth::SE3d & g)
  {
    std::vector<double> c(7);
    for (int i = 0; i < 7; ++i) c[static_cast<std::size_t>(i)] = g.coeffs()(i);
    return c;
  }
  static Eigen::Matrix<double, 6, 1> tangent(Rng & r, double rot, double tr)
  {
    Eigen::Vector3d w(r.uni(-1, 1), r.uni(-1, 1), r.uni(-1, 1));
    if (w.norm() < 1e-3) w = Eigen::Vector3d(0, 0, 1);
    w = w.normalized() * rot;
    Eigen::Matrix<double, 6, 1> a;
    a << r.uni(-tr, tr), r.uni(-tr, tr), r.uni(-tr, tr), w;
    return a;
  }
};
template<>
struct GD<Eigen::Vector3d>
{
  static std::string json() { return "{\"k\":\"R\",\"n\":3}"; }
  static std::vector<double> coeffs(const Eigen::Vector3d & g) { return {g(0), g(1), g(2)}; }
  static Eigen::Vector3d tangent(Rng & r, double, double tr) { return {r.uni(-tr, tr), r.uni(-tr, tr), r.uni(-tr, tr)}; }
};
template<>
struct GD<double>
{
  static std::string json() { return "{\"k\":\"R\",\"n\":1}"; }
  static std::vector<double> coeffs(const double & g) { return {g}; }
  static Eigen::Matrix<double, 1, 1> tangent(Rng & r, double, double tr) { return Eigen::Matrix<double, 1, 1>(r.uni(-tr, tr)); }
};

// list of vectors -> json
inline std::string jlist(const std::vector<std::vector<double>> & vs)
{
  std::string o = "[";
  for (std::size_t i = 0; i < vs.size(); ++i) {
    if (i) o += ',';
    qvec(o, vs[i]);
  }
  o += ']';
  return o;
}
template<typename D>
std::vector<double> tovec(const Eigen::MatrixBase<D> & v)
{
  std::vector<double> r(static_cast<std::size_t>(v.size()));
  for (Eigen::Index i = 0; i < v.size(); ++i) r[static_cast<std::size_t>(i)] = v.derived().coeff(i);
  return r;
}

// Every library call runs in a forked child: the parent has already put all inputs into the event; the child runs
// the call, appends what it observed and writes the event.  If the child does not finish normally (signal, sanitizer
// abort, uncaught exception, 120 s alarm) the parent writes the inputs with the wait status instead - the harness
// still only records what happened, and the trace specification turns "did not return" into a verdict.
template<typename F>
void guarded(Sink & sink, Ev & e, F && body)
{
  std::fflush(sink.f);
  const pid_t pid = fork();
  if (pid == 0) {
    if (!std::freopen("/dev/null", "w", stderr)) {}
    std::set_terminate([]() { _exit(70); });
    alarm(120);
    e.num("status", 0);
    body(e);
    sink.emit(e);
    std::fflush(sink.f);
    _exit(0);
  }
  int st = 0;
  if (pid < 0 || waitpid(pid, &st, 0) != pid) {
    std::fprintf(stderr, "fork/waitpid failed\n");
    std::exit(2);
  }
  if (!(WIFEXITED(st) && WEXITSTATUS(st) == 0)) {
    const long code = WIFSIGNALED(st) ? 1000 + WTERMSIG(st) : WEXITSTATUS(st);
    e.num("status", code == 0 ? -1 : code);
    sink.emit(e);
    std::fflush(sink.f);
  }
  ++sink.count;
}

// 1-based positions of the knots inside the sorted list of evaluation times
inline std::string knot_indices(const std::vector<double> & knots, const std::vector<double> & times)
{
  std::string o = "[";
  for (std::size_t j = 0; j < knots.size(); ++j) {
    if (j) o += ',';
    const auto it = std::lower_bound(times.begin(), times.end(), knots[j]);
    o += std::to_string((it - times.begin()) + 1);
  }
  o += ']';
  return o;
}

// ------------------------------------------------------------------------------------------------
// time-stamp patterns: all sampling intervals lie on the grid 2^-30 (so that every partial sum is exact in
// double and the knots of the returned spline are exactly t_i - t_0), inside [1e-2, 1e2], neighbouring
// ratios <= rmax.  The specification re-derives all of this from the logged stamps.
static constexpr double GRID = 0x1p-30;
inline double qgrid(double x)
{
  double y = std::round(x / GRID) * GRID;
  while (y < 0.01) y += GRID;
  while (y > 100.) y -= GRID;
  return y;
}
inline bool dts_ok(const std::vector<double> & d, double rmax)
{
  for (std::size_t i = 0; i < d.size(); ++i) {
    if (!(d[i] >= 0.01 && d[i] <= 100.)) return false;
    if (i + 1 < d.size()) {
      const double a = d[i], b = d[i + 1];
      if (a > rmax * b || b > rmax * a) return false;
    }
  }
  return true;
}
inline std::vector<double> make_dts(Rng & r, int nseg, int pat, double rmax)
{
  static const double bases[8] = {0.01, 0.03, 0.1, 0.3, 0.6, 2., 10., 100.};
  const std::size_t n = static_cast<std::size_t>(nseg);
  std::vector<double> d(n);
  const int kind   = pat % 6;
  const double b0  = bases[(pat / 6) % 8];
  if (kind == 0) {
    for (auto & x : d) x = qgrid(b0);
  } else if (kind == 1 || kind == 2) {
    const double ratio = kind == 1 ? std::min(10., rmax) : rmax;
    double small       = qgrid(b0);
    while (small * ratio > 100.) small = qgrid(small / 3.);
    while (small * ratio > 100.) small -= GRID;
    const double big = small * ratio;  // exact: ratio is a small integer, small on the grid
    for (std::size_t i = 0; i < n; ++i) d[i] = ((i + static_cast<std::size_t>(pat / 48)) % 2 == 0) ? small : big;
  } else if (kind == 3) {
    const double lr = std::log(rmax) * 0.98;
    d[0]            = qgrid(r.loguni(0.01, 100.));
    for (std::size_t i = 1; i < n; ++i) {
      double x = qgrid(std::clamp(d[i - 1] * std::exp(r.uni(-lr, lr)), 0.01, 100.));
      if (x > rmax * d[i - 1] || d[i - 1] > rmax * x) x = d[i - 1];
      d[i] = x;
    }
  } else if (kind == 4) {
    const double f = std::min(3., rmax);
    double x       = qgrid(b0);
    bool up        = b0 < 2.5;
    for (std::size_t i = 0; i < n; ++i) {
      d[i] = x;
      double y = up ? x * f : x / f;
      if (y > 100.) { up = false; y = x / f; }
      if (y < 0.01) { up = true; y = x * f; }
      y = qgrid(y);
      if (y > f * x || x > f * y) y = x;
      x = y;
    }
  } else {
    for (auto & x : d) x = qgrid(std::clamp(b0 * (1. + 0.3 * r.uni(-1, 1)), 0.01, 100.));
  }
  if (!dts_ok(d, rmax)) {
    for (auto & x : d) x = qgrid(b0);
  }
  return d;
}
// case index -> (number of segments, time-stamp pattern): a stride walk over the 6 x 8 x 6 grid
// (pattern kind x base interval x number of points) that visits every cell once in 288 steps and spreads
// a short run over the whole grid
struct CaseShape
{
  int nseg, pat;
};
inline CaseShape case_shape(Rng & r, int i)
{
  static const int ns[6] = {1, 2, 4, 9, 39, 0};
  const int j = static_cast<int>((static_cast<long>(i) * 37) % 288);
  const int k = j / 48;
  return {k < 5 ? ns[k] : 1 + r.idx(39), (j % 48) + 48 * ((i / 288) % 2)};
}

// ------------------------------------------------------------------------------------------------
// part 0: fit_spline_1d
template<typename SS>
void fit1d_case(Sink & sink, Rng & r, int i)
{
  using D             = SpecDesc<SS>;
  const double rmax   = D::is_min ? 10. : 1000.;
  const CaseShape cs  = case_shape(r, i);
  int nseg            = cs.nseg;
  constexpr int K     = SS::Degree;
  // the system needs at least as many coefficients as equations
  const int neq_fixed = static_cast<int>(SS::LeftDeg.size() + SS::RghtDeg.size()) - SS::InnCnt;
  while ((K + 1) * nseg < neq_fixed + (2 + SS::InnCnt) * nseg) ++nseg;
  const auto dts = make_dts(r, nseg, cs.pat, rmax);
  std::vector<double> dxs(static_cast<std::size_t>(nseg));
  const int dpat     = i % 7;
  const double scale = (i % 5 == 3) ? 100. : (i % 5 == 4 ? 1e-3 : 1.);
  for (std::size_t k = 0; k < dxs.size(); ++k) {
    switch (dpat) {
    case 0: dxs[k] = scale * r.uni(-1, 1); break;
    case 1: dxs[k] = 0; break;
    case 2: dxs[k] = (k == dxs.size() / 2) ? scale : 0.; break;
    case 3: dxs[k] = scale * dts[k]; break;  // constant velocity data
    case 4: dxs[k] = (k % 2 ? -1. : 1.) * scale * r.uni(0.5, 1); break;
    case 5: dxs[k] = scale * r.uni(-1, 1) * (r.idx(3) == 0 ? 1e-4 : 1.); break;
    default: dxs[k] = scale * std::sin(0.7 * static_cast<double>(k)); break;
    }
  }
  SS ss{};
  std::vector<double> lv, rv;
  for (const auto & v : ss.left_values) lv.push_back(v.x());
  for (const auto & v : ss.rght_values) rv.push_back(v.x());
  Ev e;
  e.str("op", "fit1d").raw("spec", D::json()).vec("lv", lv).vec("rv", rv).vec("dt", dts).vec("dx", dxs);
  guarded(sink, e, [&](Ev & ev) {
    const Eigen::VectorXd x = smooth::fit_spline_1d(dts, dxs, ss);
    ev.vec("x", x);
  });
}

// ------------------------------------------------------------------------------------------------
// parts 1-4: fit_spline
template<typename G, typename SS>
void fit_case(Sink & sink, Rng & r, int i)
{
  using D           = SpecDesc<SS>;
  using GDsc        = GD<G>;
  using Tan         = smooth::Tangent<G>;
  const double rmax = D::is_min ? 10. : 1000.;
  const CaseShape cs = case_shape(r, i);
  const int nseg    = cs.nseg;
  const auto dts    = make_dts(r, nseg, cs.pat, rmax);
  const std::size_t N = static_cast<std::size_t>(nseg) + 1;
  std::vector<double> ts(N);
  ts[0] = (i % 4 == 3) ? std::round(r.uni(-5, 5) / GRID) * GRID : 0.;
  for (std::size_t k = 0; k + 1 < N; ++k) ts[k + 1] = ts[k] + dts[k];
  // data: g_{k+1} = g_k * exp(d_k), rotation part of d_k of norm <= 2.5
  const double tr = (i % 3 == 0) ? 0.1 : ((i % 3 == 1) ? 1. : 10.);
  std::vector<G> gs(N);
  std::vector<std::vector<double>> gcs, ds;
  gs[0] = smooth::rplus(smooth::Identity<G>(), Tan(GDsc::tangent(r, r.uni(0, 3.), tr)));
  for (std::size_t k = 0; k + 1 < N; ++k) {
    double rot = r.uni(0.05, 2.5);
    const int c = r.idx(12);
    if (c == 0) rot = 0;
    if (c == 1) rot = 1e-6;
    if (c == 2) rot = 2.5;
    Tan d = GDsc::tangent(r, rot, tr);
    if (c == 0 && r.idx(2) == 0) d.setZero();  // repeated data point
    gs[k + 1] = smooth::rplus(gs[k], d);
    ds.push_back(tovec(d));
  }
  for (const auto & g : gs) gcs.push_back(GDsc::coeffs(g));
  SS ss{};
  std::vector<double> lv, rv;
  for (const auto & v : ss.left_values)
    for (int q = 0; q < v.size(); ++q) lv.push_back(v(q));
  for (const auto & v : ss.rght_values)
    for (int q = 0; q < v.size(); ++q) rv.push_back(v(q));
  Ev e;
  e.str("op", "fit").raw("g", GDsc::json()).raw("spec", D::json()).vec("lv", lv).vec("rv", rv).vec("t", ts);
  e.raw("gs", jlist(gcs)).raw("d", jlist(ds));
  guarded(sink, e, [&](Ev & ev) {
    const auto c = smooth::fit_spline(ts, gs, ss);
    // evaluate at every time stamp (relative to the first one) and at its two floating-point neighbours
    std::vector<std::vector<double>> pv, cv, sv, pw, cw, sw;
    const double inf = std::numeric_limits<double>::infinity();
    for (std::size_t k = 0; k < N; ++k) {
      const double t = ts[k] - ts[0];
      Tan w;
      G v = c(std::nextafter(t, -inf), w);
      pv.push_back(GDsc::coeffs(v));
      pw.push_back(tovec(w));
      v = c(t, w);
      cv.push_back(GDsc::coeffs(v));
      cw.push_back(tovec(w));
      v = c(std::nextafter(t, inf), w);
      sv.push_back(GDsc::coeffs(v));
      sw.push_back(tovec(w));
    }
    ev.dbl("tmax", c.t_max());
    ev.raw("pv", jlist(pv)).raw("cv", jlist(cv)).raw("sv", jlist(sv));
    ev.raw("pw", jlist(pw)).raw("cw", jlist(cw)).raw("sw", jlist(sw));
  });
}

template<typename G>
void fit_family(Sink & sink, Rng & r, int n, bool vectors, int off)
{
  for (int i = 0; i < n; ++i) {
    fit_case<G, sp::PiecewiseLinear<G>>(sink, r, i + off);
    fit_case<G, sp::FixedDerCubic<G, 1, 1>>(sink, r, i + off + 3);
    fit_case<G, sp::FixedDerCubic<G, 2, 2>>(sink, r, i + off + 5);
    fit_case<G, sp::MinDerivative<G, 6, 3, 3>>(sink, r, i + off + 1);
    if (vectors) fit_case<G, sp::MinDerivative<G, 5, 3, 3>>(sink, r, i + off + 2);
  }
}

// ------------------------------------------------------------------------------------------------
// part 5: fit_bspline (this part is built with AddressSanitizer, so that an out-of-bounds access ends the child
// instead of silently corrupting the heap)
template<int K, typename G>
void bspline_case(Sink & sink, Rng & r, int i)
{
  using GDsc = GD<G>;
  using Tan  = smooth::Tangent<G>;
  const std::size_t N = static_cast<std::size_t>(2 + (i % 5 == 0 ? 0 : r.idx(39)));
  static const double dtc[6] = {1., 0.1, 0.25, 1. / 3, 2.5, 0.7};
  const double dt = dtc[i % 6];
  std::vector<double> ts(N);
  ts[0] = (i % 3 == 0) ? 0. : r.uni(-10, 10);
  const int mode = (i / 2) % 4;
  for (std::size_t k = 0; k + 1 < N; ++k) {
    double step;
    if (mode == 0) step = dt;                                     // span = a multiple of dt (up to rounding)
    else if (mode == 1) step = dt * (1 + r.idx(3));               // idem
    else if (mode == 2) step = dt * r.uni(0.2, 3.);               // generic
    else step = dt * (r.idx(2) ? 1. : 0.5) * (1 + 1e-15 * r.idx(3));
    ts[k + 1] = ts[k] + step;
  }
  std::vector<G> gs(N);
  gs[0] = smooth::rplus(smooth::Identity<G>(), Tan(GDsc::tangent(r, r.uni(0, 2.), 1.)));
  for (std::size_t k = 0; k + 1 < N; ++k) gs[k + 1] = smooth::rplus(gs[k], Tan(GDsc::tangent(r, r.uni(0, 0.5), 0.5)));
  Ev e;
  e.str("op", "bspline").raw("g", GDsc::json()).num("K", K).vec("t", ts).dbl("dt", dt);
  guarded(sink, e, [&](Ev & ev) {
    const auto b = smooth::fit_bspline<K>(ts, gs, dt);
    ev.dbl("tmin", b.t_min()).dbl("tmax", b.t_max()).num("npts", static_cast<long>(b.ctrl_pts().size()));
  });
}

// ------------------------------------------------------------------------------------------------
// part 6: dubins_curve

// Independent textbook formulas (Shkel & Lumelsky 2001, as in the widely used "dubins.c"): start (0,0,alpha),
// goal (d,0,beta) in units of the turning radius.  Used ONLY to propose candidates; the specification verifies
// each candidate (that the three constant-curvature pieces reach the target) before comparing lengths.
struct Cand
{
  const char * word;
  double a, b, c;  // segment parameters in units of R (angles for arcs, length/R for the straight piece)
  bool ok;
};
inline double mod2pi(double x)
{
  const double tp = 2 * M_PI;
  double y        = x - tp * std::floor(x / tp);
  if (y < 0) y += tp;
  if (y >= tp) y -= tp;
  return y;
}
inline std::vector<Cand> textbook_dubins(double x, double y, double th, double R)
{
  const double dx = x / R, dy = y / R;
  const double d  = std::sqrt(dx * dx + dy * dy);
  const double phi = (d > 0) ? std::atan2(dy, dx) : 0.;
  const double al = mod2pi(-phi), be = mod2pi(th - phi);
  const double sa = std::sin(al), sb = std::sin(be), ca = std::cos(al), cb = std::cos(be), cab = std::cos(al - be);
  std::vector<Cand> out;
  {  // LSL
    double p2 = 2 + d * d - 2 * cab + 2 * d * (sa - sb);
    if (p2 < 0 && p2 > -1e-9) p2 = 0;
    if (p2 >= 0) {
      const double tmp = std::atan2(cb - ca, d + sa - sb);
      out.push_back({"LSL", mod2pi(tmp - al), std::sqrt(p2), mod2pi(be - tmp), true});
    }
  }
  {  // RSR
    double p2 = 2 + d * d - 2 * cab + 2 * d * (sb - sa);
    if (p2 < 0 && p2 > -1e-9) p2 = 0;
    if (p2 >= 0) {
      const double tmp = std::atan2(ca - cb, d - sa + sb);
      out.push_back({"RSR", mod2pi(al - tmp), std::sqrt(p2), mod2pi(tmp - be), true});
    }
  }
  {  // LSR
    double p2 = -2 + d * d + 2 * cab + 2 * d * (sa + sb);
    if (p2 < 0 && p2 > -1e-9) p2 = 0;
    if (p2 >= 0) {
      const double p   = std::sqrt(p2);
      const double tmp = std::atan2(-ca - cb, d + sa + sb) - std::atan2(-2., p);
      out.push_back({"LSR", mod2pi(tmp - al), p, mod2pi(tmp - mod2pi(be)), true});
    }
  }
  {  // RSL
    double p2 = -2 + d * d + 2 * cab - 2 * d * (sa + sb);
    if (p2 < 0 && p2 > -1e-9) p2 = 0;
    if (p2 >= 0) {
      const double p   = std::sqrt(p2);
      const double tmp = std::atan2(ca + cb, d - sa - sb) - std::atan2(2., p);
      out.push_back({"RSL", mod2pi(al - tmp), p, mod2pi(be - tmp), true});
    }
  }
  {  // RLR
    const double tmp = (6. - d * d + 2 * cab + 2 * d * (sa - sb)) / 8.;
    if (std::fabs(tmp) <= 1) {
      const double p = mod2pi(2 * M_PI - std::acos(tmp));
      const double t = mod2pi(al - std::atan2(ca - cb, d - sa + sb) + mod2pi(p / 2.));
      out.push_back({"RLR", t, p, mod2pi(al - be - t + mod2pi(p)), true});
    }
  }
  {  // LRL
    const double tmp = (6. - d * d + 2 * cab + 2 * d * (sb - sa)) / 8.;
    if (std::fabs(tmp) <= 1) {
      const double p = mod2pi(2 * M_PI - std::acos(tmp));
      const double t = mod2pi(-al - std::atan2(ca - cb, d + sa - sb) + p / 2.);
      out.push_back({"LRL", t, p, mod2pi(mod2pi(be) - al - t + mod2pi(p)), true});
    }
  }
  // degenerate configurations (an arc of angle 0 comes out as 2 pi - rounding, a straight piece of length 0 as the
  // root of a tiny negative number): also propose the variants with such an arc removed.  Every proposal is
  // verified by the specification, so a wrong one is harmless.
  const std::size_t n0 = out.size();
  for (std::size_t i = 0; i < n0; ++i) {
    const Cand c = out[i];
    const bool arc1 = true, arc2 = c.word[1] != 'S', arc3 = true;
    const double near = 2 * M_PI - 1e-6;
    for (int m = 1; m < 8; ++m) {
      Cand v = c;
      bool changed = false;
      if ((m & 1) && arc1 && c.a > near) { v.a = 0; changed = true; }
      if ((m & 2) && arc2 && c.b > near) { v.b = 0; changed = true; }
      if ((m & 4) && arc3 && c.c > near) { v.c = 0; changed = true; }
      if (changed) out.push_back(v);
    }
  }
  return out;
}

template<int K>
void dubins_case(Sink & sink, double x, double y, double th, double R, const char * kind)
{
  const smooth::SE2d target(smooth::SO2d(th), Eigen::Vector2d(x, y));
  // candidates (lengths in the units of the problem)
  const auto cands = textbook_dubins(x, y, th, R);
  std::string cj   = "[";
  for (std::size_t i = 0; i < cands.size(); ++i) {
    if (i) cj += ',';
    cj += "{\"w\":[";
    for (int q = 0; q < 3; ++q) {
      const char ch = cands[i].word[q];
      if (q) cj += ',';
      cj += (ch == 'L') ? "1" : (ch == 'R' ? "-1" : "0");
    }
    cj += "],\"len\":";
    qvec(cj, std::vector<double>{R * cands[i].a, R * cands[i].b, R * cands[i].c});
    cj += "}";
  }
  cj += "]";
  Ev e;
  e.str("op", "dubins").str("kind", kind).num("K", K).vec("target", GD<smooth::SE2d>::coeffs(target)).dbl("R", R).raw("cands", cj);
  guarded(sink, e, [&](Ev & ev) {
    const auto c     = smooth::dubins_curve<K>(target, R);
    const auto knots = knots_of(c);
    const double inf = std::numeric_limits<double>::infinity();
    // evaluation times: every knot, the double just before every later knot, the middle of every piece
    std::vector<double> times;
    for (std::size_t j = 0; j + 1 < knots.size(); ++j) {
      const double a = knots[j], b = knots[j + 1];
      times.push_back(a);
      times.push_back(a + (b - a) / 2);
      times.push_back(std::nextafter(b, -inf));
    }
    times.push_back(knots.back());
    std::sort(times.begin(), times.end());
    times.erase(std::unique(times.begin(), times.end()), times.end());
    std::vector<std::vector<double>> vals, vels;
    for (double t : times) {
      Eigen::Vector3d w;
      const smooth::SE2d v = c(t, w);
      vals.push_back(GD<smooth::SE2d>::coeffs(v));
      vels.push_back(tovec(w));
    }
    ev.num("size", static_cast<long>(c.size())).dbl("tmax", c.t_max());
    ev.vec("start", GD<smooth::SE2d>::coeffs(c.start())).vec("end", GD<smooth::SE2d>::coeffs(c.end()));
    ev.vec("knots", knots).raw("ki", knot_indices(knots, times)).vec("ts", times);
    ev.raw("vals", jlist(vals)).raw("vels", jlist(vels));
  });
}

inline void dubins_family(Sink & sink, Rng & r, int n)
{
  // the ten hand-computed problems of the repository's test (radius 1 and 2)
  const double s4 = std::sin(M_PI_4);
  const double rp[11][3] = {{2.5, 0, 0}, {1, 1, M_PI_2}, {2, 5, 0}, {0, 5, M_PI}, {2, -5, 0}, {0, -5, M_PI},
                            {2 - s4, 1 - s4, 3 * M_PI / 4}, {2 - s4, -1 + s4, 5 * M_PI / 4}, {0, 0, M_PI}, {0, 0.1, M_PI}, {0, -0.1, M_PI}};
  for (const auto & p : rp) {
    dubins_case<3>(sink, p[0], p[1], p[2], 1., "repo");
    dubins_case<3>(sink, 2 * p[0], 2 * p[1], p[2], 2., "repo");
  }
  static const double Rs[3]   = {0.3, 1., 5.};
  static const double rho[12] = {0., 0.05, 0.5, 1., 1.9, 2., 2.1, 3.9, 4., 4.1, 8., 30.};
  int cnt = 0;
  // polar grid x headings x radii (the grid is walked with a stride so that a small n still visits every ring)
  const int total = 12 * 12 * 8 * 3;
  const int stride = 131;  // coprime with total
  for (int q = 0; q < total && cnt < n; ++q) {
    const int idx = static_cast<int>((static_cast<long>(q) * stride) % total);
    const int ir = idx % 12, ib = (idx / 12) % 12, ih = (idx / 144) % 8, iR = idx / 1152;
    const double R   = Rs[iR];
    const double phi = -M_PI + ib * (M_PI / 6);
    const double psi = (ih % 2 == 0) ? (-M_PI + ih * (M_PI / 4)) : r.uni(-M_PI, M_PI);
    dubins_case<3>(sink, R * rho[ir] * std::cos(phi), R * rho[ir] * std::sin(phi), psi, R, "grid");
    ++cnt;
  }
  // coincident circles: the target lies on the start's own left / right turning circle
  for (int q = 0; q < std::max(6, n / 10); ++q) {
    const double R  = Rs[q % 3];
    const double th = (q % 4 == 0) ? M_PI : r.uni(-M_PI, M_PI);
    const double sg = (q % 2) ? 1. : -1.;
    dubins_case<3>(sink, R * std::sin(th), sg * R * (1 - std::cos(th)), sg * th, R, "circle");
  }
  // random targets and radii
  for (int q = 0; q < n / 2; ++q) {
    const double R = r.loguni(0.1, 20.);
    const double m = R * r.loguni(0.01, 40.);
    const double a = r.uni(-M_PI, M_PI);
    dubins_case<3>(sink, m * std::cos(a), m * std::sin(a), r.uni(-M_PI, M_PI), R, "random");
  }
  // other spline degrees
  for (int q = 0; q < std::max(4, n / 20); ++q) {
    const double R = Rs[q % 3];
    const double m = R * r.loguni(0.1, 10.);
    const double a = r.uni(-M_PI, M_PI), h = r.uni(-M_PI, M_PI);
    dubins_case<1>(sink, m * std::cos(a), m * std::sin(a), h, R, "degree");
    dubins_case<5>(sink, m * std::cos(a), m * std::sin(a), h, R, "degree");
  }
  // targets exactly on a feasibility boundary: the start's right (left) circle touches the target's left (right) circle
  for (int q = 0; q < 6; ++q) {
    const double R = Rs[q % 3];
    dubins_case<3>(sink, 0., (q < 3 ? -4. : 4.) * R, 0., R, "boundary");
  }
}

// ------------------------------------------------------------------------------------------------
// part 7: reparameterize_spline
template<typename C, typename Vec>
void reparam_case(
  Sink & sink, const char * kind, const C & c, const Vec & vmin, const Vec & vmax, const Vec & amin, const Vec & amax, double sv, double ev, int N)
{
  // body velocity and acceleration of the input curve at its first instant (stratum: does it stand still there?)
  Vec w0, a0;
  c(c.t_min(), w0, a0);
  Ev e;
  e.str("op", "reparam").str("kind", kind).num("N", N).dbl("s0", c.t_min()).dbl("sf", c.t_max()).dbl("sv", sv).dbl("ev", ev);
  e.vec("vmin", vmin).vec("vmax", vmax).vec("amin", amin).vec("amax", amax).vec("w0", w0).vec("a0", a0);
  guarded(sink, e, [&](Ev & evt) {
    auto s           = smooth::reparameterize_spline(c, vmin, vmax, amin, amax, sv, ev, static_cast<std::size_t>(N));
    const auto knots = knots_of(s);
    const double T   = s.t_max();
    const double inf = std::numeric_limits<double>::infinity();
    std::vector<double> times;
    if (std::isfinite(T)) {
      for (std::size_t j = 0; j + 1 < knots.size(); ++j) {
        const double a = knots[j], b = knots[j + 1];
        times.push_back(a);
        times.push_back(a + (b - a) / 2);
        times.push_back(std::nextafter(b, -inf));
      }
      times.push_back(T);
      for (int k = 0; k <= 48; ++k) times.push_back(T * k / 48.);
      std::sort(times.begin(), times.end());
      times.erase(std::unique(times.begin(), times.end()), times.end());
      times.erase(std::remove_if(times.begin(), times.end(), [&](double t) { return !(t >= 0 && t <= T); }), times.end());
    } else {
      times = {0.};
    }
    std::vector<double> sval, sd, sdd;
    for (double t : times) {
      Eigen::Matrix<double, 1, 1> d1, d2;
      const double v = s(t, d1, d2);
      sval.push_back(v);
      sd.push_back(d1(0));
      sdd.push_back(d2(0));
    }
    const double past = s(std::isfinite(T) ? T + 1e-6 : 1e300);
    evt.num("size", static_cast<long>(s.size())).dbl("T", T).dbl("past", past);
    evt.vec("knots", knots).raw("ki", knot_indices(knots, times)).vec("ts", times).vec("s", sval).vec("ds", sd).vec("dds", sdd);
  });
}

inline void reparam_family(Sink & sink, Rng & r, int n)
{
  using C3 = smooth::Spline<3, smooth::SE2d>;
  using V3 = Eigen::Vector3d;
  static const double svs[4] = {0., 0.3, 1., 5.};
  const double inf = std::numeric_limits<double>::infinity();
  static const int Ns[3] = {10, 37, 100};
  auto bounds = [&](V3 & vmin, V3 & vmax, V3 & amin, V3 & amax, int i) {
    if (i % 4 == 0) {
      vmax = V3(1, 1, 1); vmin = -vmax; amax = V3(1, 1, 1); amin = -amax;
    } else {
      for (int k = 0; k < 3; ++k) {
        vmax(k) = r.loguni(0.1, 10.); vmin(k) = -r.loguni(0.1, 10.);
        amax(k) = r.loguni(0.05, 10.); amin(k) = -r.loguni(0.05, 10.);
      }
    }
  };
  for (int i = 0; i < n; ++i) {
    V3 vmin, vmax, amin, amax;
    bounds(vmin, vmax, amin, amax, i);
    const int kind  = i % 6;
    const int j     = i / 6;  // index within the kind: walks the 4 x 3 grid of (start speed, end speed) classes
    const double sv = svs[j % 4];
    const double ev = (j % 3 == 0) ? 0. : ((j % 3 == 1) ? r.uni(0.2, 2.) : inf);
    const int N     = Ns[(j / 2 + kind) % 3];
    if (kind == 0) {  // constant-velocity pieces (the shape of the repository's test), random velocities
      C3 c;
      const int np = 1 + r.idx(4);
      for (int p = 0; p < np; ++p) c += C3::ConstantVelocity(V3(r.uni(-2, 2), r.uni(-0.5, 0.5), r.uni(-2, 2)), r.uni(0.3, 3.));
      reparam_case(sink, "cv", c, vmin, vmax, amin, amax, sv, ev, N);
    } else if (kind == 1) {  // zero-velocity piece in the middle
      C3 c;
      c += C3::ConstantVelocity(V3(1, 0, r.uni(-1, 1)), r.uni(0.5, 2));
      c += C3::ConstantVelocity(V3(0, 0, 0), r.uni(0.5, 2));
      c += C3::ConstantVelocity(V3(1, 0, r.uni(-1, 1)), r.uni(0.5, 2));
      reparam_case(sink, "zeromid", c, vmin, vmax, amin, amax, sv, ev, N);
    } else if (kind == 2) {  // cubic pieces that start and end at rest
      C3 c;
      const int np = 1 + r.idx(3);
      for (int p = 0; p < np; ++p)
        c += C3::FixedCubic(smooth::SE2d(smooth::SO2d(r.uni(-3, 3)), Eigen::Vector2d(r.uni(-1, 1), r.uni(-1, 1))), V3::Zero(), V3::Zero(), r.uni(0.5, 2.));
      reparam_case(sink, "rest", c, vmin, vmax, amin, amax, sv, ev, N);
    } else if (kind == 3) {  // a fitted natural cubic spline through random poses
      const std::size_t np = static_cast<std::size_t>(3 + r.idx(6));
      std::vector<double> ts(np);
      std::vector<smooth::SE2d> gs(np);
      ts[0] = 0;
      gs[0] = smooth::SE2d::Identity();
      for (std::size_t k = 0; k + 1 < np; ++k) {
        ts[k + 1] = ts[k] + r.uni(0.5, 2.5);
        gs[k + 1] = gs[k] + V3(r.uni(-1, 1), r.uni(-1, 1), r.uni(-1, 1));
      }
      const auto c = smooth::fit_spline(ts, gs, sp::FixedDerCubic<smooth::SE2d, 2, 2>{});
      reparam_case(sink, "fitted", c, vmin, vmax, amin, amax, sv, ev, N);
    } else if (kind == 4) {  // scalar-valued cubic
      using C1 = smooth::Spline<3, double>;
      using V1 = Eigen::Matrix<double, 1, 1>;
      C1 c;
      const int np = 1 + r.idx(3);
      for (int p = 0; p < np; ++p) c += C1::FixedCubic(r.uni(-2, 2), V1(r.uni(-1, 1)), V1(r.uni(-1, 1)), r.uni(0.5, 3.));
      reparam_case(sink, "scalar", c, V1(vmin(0)), V1(vmax(0)), V1(amin(0)), V1(amax(0)), sv, ev, N);
    } else {  // a curve that stands still on an initial stretch (or throughout)
      C3 c;
      c += C3::ConstantVelocity(V3(0, 0, 0), r.uni(0.5, 2));
      if (j % 2 == 1) c += C3::ConstantVelocity(V3(1, 0, r.uni(-1, 1)), r.uni(0.5, 2));
      reparam_case(sink, "stationary", c, vmin, vmax, amin, amax, sv, ev, N);
    }
  }
}

// ------------------------------------------------------------------------------------------------
int main(int argc, char ** argv)
{
  install_handlers();
  const std::string out = arg(argc, argv, "--out", "");
  const int n           = std::atoi(arg(argc, argv, "--n", "10").c_str());
  const uint64_t seed   = std::strtoull(arg(argc, argv, "--seed", "1").c_str(), nullptr, 10);
  Sink sink;
  if (!sink.open(out)) {
    std::fprintf(stderr, "cannot open %s\n", out.c_str());
    return 2;
  }
  current_sink() = &sink;
  Rng r(seed * 1000003ull + VH_PART);
#if VH_PART == 0
  for (int i = 0; i < n; ++i) {
    fit1d_case<sp::PiecewiseLinear<double>>(sink, r, i);
    fit1d_case<sp::FixedDerCubic<double, 1, 1>>(sink, r, i + 3);
    fit1d_case<sp::FixedDerCubic<double, 2, 2>>(sink, r, i + 5);
    fit1d_case<sp::FixedDerCubic<double, 1, 2>>(sink, r, i + 11);
    fit1d_case<sp::MinDerivative<double, 5, 2, 2>>(sink, r, i + 17);
    fit1d_case<sp::MinDerivative<double, 5, 3, 3>>(sink, r, i + 2);
    fit1d_case<sp::MinDerivative<double, 6, 2, 2>>(sink, r, i + 23);
    fit1d_case<sp::MinDerivative<double, 6, 3, 3>>(sink, r, i + 1);
    fit1d_case<sp::MinDerivative<double, 6, 4, 4>>(sink, r, i + 29);
  }
#elif VH_PART == 1
  fit_family<smooth::SO3d>(sink, r, n, false, 0);
#elif VH_PART == 2
  fit_family<smooth::SE2d>(sink, r, n, false, 7);
#elif VH_PART == 3
  fit_family<smooth::SE3d>(sink, r, n, false, 13);
#elif VH_PART == 4
  fit_family<Eigen::Vector3d>(sink, r, n, true, 19);
  fit_family<double>(sink, r, n, true, 31);
#elif VH_PART == 5
  for (int i = 0; i < n; ++i) {
    bspline_case<3, smooth::SO3d>(sink, r, i);
    bspline_case<3, double>(sink, r, i);
    bspline_case<2, Eigen::Vector3d>(sink, r, i);
    bspline_case<5, smooth::SE2d>(sink, r, i);
  }
#elif VH_PART == 6
  dubins_family(sink, r, n);
#elif VH_PART == 7
  reparam_family(sink, r, n);
#else
#error "unknown VH_PART"
#endif
  sink.close();
  return 0;
}
