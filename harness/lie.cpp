// Conformance harness, family "lie": executes group/tangent operations of the real library on
// stratified operands and records every operand and result exactly (ndjson).  TLC validates the
// trace with spec/TraceLie.tla.  One group type per translation unit (-DVH_GROUP=<n>).
#define VH_NEAR_UNIT_C1 1
#include <smooth/bundle.hpp>
#include <smooth/c1.hpp>
#include <smooth/derivatives.hpp>
#include <smooth/galilei.hpp>
#include <smooth/lie_groups/native.hpp>
#include <smooth/se2.hpp>
#include <smooth/se3.hpp>
#include <smooth/se_k_3.hpp>
#include <smooth/so2.hpp>
#include <smooth/so3.hpp>

#include "common.hpp"
#include "lie_desc.hpp"

using namespace vh;

#include "lie_groups_sel.hpp"

template<typename G>
struct Run
{
static constexpr int DOF = smooth::Dof<G>;
using Tan  = Eigen::Matrix<S, DOF, 1>;
using TMap = Eigen::Matrix<S, DOF, DOF>;
using Hess = Eigen::Matrix<S, DOF, DOF * DOF>;
using Dsc  = Desc<G>;
static constexpr int REP = Dsc::Rep;
using Coef = Eigen::Matrix<S, REP, 1>;

static constexpr bool kIsBase = requires(const G & g) { g.Ad(); };

static G from_coeffs(const std::vector<double> & c)
{
  G g = smooth::Identity<G>();
  Dsc::set(g, c.data());
  return g;
}
static Coef coeffs_of(const G & g)
{
  Coef c;
  Dsc::get(g, c.data());
  return c;
}
static Tan to_tan(const std::vector<double> & a)
{
  Tan t;
  for (int i = 0; i < DOF; ++i) t(i) = static_cast<S>(a[static_cast<std::size_t>(i)]);
  return t;
}

struct Ctx
{
  Sink sink;
  std::string gj;   // group descriptor json
  std::string sc;   // "d" | "f"
  std::vector<Field> fields;
  Rng rng{1};
  bool exact = false;  // operands from the exactly representable lattice: results are compared without tolerance
  Ev ev(const char * op)
  {
    Ev e;
    e.str("op", op).raw("g", gj).str("sc", sc);
    if (exact) e.num("x", 1);
    return e;
  }
};

// ------------------------------------------------------------------ families

static void c01_case(Ctx & c, const std::vector<double> & c1, const std::vector<double> & c2, const std::vector<double> & c3)
{
  const G g1 = from_coeffs(c1), g2 = from_coeffs(c2), g3 = from_coeffs(c3);
  {
    const G r = smooth::composition(g1, g2);
    auto e    = c.ev("compose");
    e.vec("a", coeffs_of(g1)).vec("b", coeffs_of(g2)).vec("out", coeffs_of(r));
    c.sink.emit(e);
  }
  {
    const G r = smooth::inverse(g1);
    auto e    = c.ev("inverse");
    e.vec("a", coeffs_of(g1)).vec("out", coeffs_of(r));
    c.sink.emit(e);
  }
  {
    const G l = smooth::composition(smooth::composition(g1, g2), g3);
    const G r = smooth::composition(g1, smooth::composition(g2, g3));
    auto e    = c.ev("assoc");
    e.vec("a", coeffs_of(g1)).vec("b", coeffs_of(g2)).vec("c", coeffs_of(g3)).vec("out", coeffs_of(l)).vec("out2", coeffs_of(r));
    c.sink.emit(e);
  }
  {
    const G li = smooth::composition(smooth::inverse(g1), g1);
    const G ri = smooth::composition(g1, smooth::inverse(g1));
    const G le = smooth::composition(smooth::Identity<G>(), g1);
    const G re = smooth::composition(g1, smooth::Identity<G>());
    auto e     = c.ev("units");
    e.vec("a", coeffs_of(g1)).vec("li", coeffs_of(li)).vec("ri", coeffs_of(ri)).vec("le", coeffs_of(le)).vec("re", coeffs_of(re));
    c.sink.emit(e);
  }
  if constexpr (kIsBase) {
    // the class-member forms of composition / inverse, including the in-place form with itself as right operand
    {
      const G r = g1 * g2;
      auto e    = c.ev("compose");
      e.str("api", "operator*").vec("a", coeffs_of(g1)).vec("b", coeffs_of(g2)).vec("out", coeffs_of(r));
      c.sink.emit(e);
    }
    {
      G r = g1;
      r *= g2;
      auto e = c.ev("compose");
      e.str("api", "operator*=").vec("a", coeffs_of(g1)).vec("b", coeffs_of(g2)).vec("out", coeffs_of(r));
      c.sink.emit(e);
    }
    {
      G r = g1;
      r *= r;
      auto e = c.ev("compose");
      e.str("api", "x*=x").vec("a", coeffs_of(g1)).vec("b", coeffs_of(g1)).vec("out", coeffs_of(r));
      c.sink.emit(e);
    }
    {
      G r = g2;
      r   = r * r;
      auto e = c.ev("compose");
      e.str("api", "x=x*x").vec("a", coeffs_of(g2)).vec("b", coeffs_of(g2)).vec("out", coeffs_of(r));
      c.sink.emit(e);
    }
    {
      const G r = g2.inverse();
      auto e    = c.ev("inverse");
      e.str("api", "member").vec("a", coeffs_of(g2)).vec("out", coeffs_of(r));
      c.sink.emit(e);
    }
    {
      auto e = c.ev("matrix");
      e.vec("a", coeffs_of(g1)).mat("out", g1.matrix());
      c.sink.emit(e);
    }
    if constexpr (Dsc::ActDim > 0) {
      // points with coordinates 0, O(1), 1e3
      for (int cls = 0; cls < 3; ++cls) {
        Eigen::Matrix<S, Dsc::ActDim, 1> v;
        for (int i = 0; i < Dsc::ActDim; ++i) {
          double x = 0;
          if (cls == 1) x = c.rng.uni(-2, 2);
          if (cls == 2) x = c.rng.uni(-1e3, 1e3);
          if (cls == 0 && i == 0) x = c.rng.idx(2) ? 0.0 : 1.0;
          if (c.exact) x = static_cast<double>(c.rng.idx(5) - 2);   // lattice replay: integer points, exact results
          v(i) = static_cast<S>(x);
        }
        const Eigen::Matrix<S, Dsc::ActDim, 1> r = g1 * v;
        auto e                                   = c.ev("act");
        e.vec("a", coeffs_of(g1)).vec("v", v).vec("out", r);
        c.sink.emit(e);
      }
    }
  }
}

static void identity_case(Ctx & c)
{
  const G id = smooth::Identity<G>();
  auto e     = c.ev("identity");
  e.vec("out", coeffs_of(id));
  c.sink.emit(e);
  if constexpr (kIsBase) {
    G h;
    h.setIdentity();
    auto e2 = c.ev("identity");
    e2.vec("out", coeffs_of(h));
    c.sink.emit(e2);
  }
}

static void c02_exp_case(Ctx & c, const std::vector<double> & av)
{
  const Tan a = to_tan(av);
  const G g   = smooth::exp<G>(a);
  const Tan l = smooth::log(g);
  auto e      = c.ev("exp");
  e.vec("a", a).vec("out", coeffs_of(g)).vec("log", l);
  c.sink.emit(e);
}

static void c02_log_case(Ctx & c, const std::vector<double> & cv)
{
  const G g   = from_coeffs(cv);
  const Tan l = smooth::log(g);
  const G r   = smooth::exp<G>(l);
  auto e      = c.ev("log");
  e.vec("a", coeffs_of(g)).vec("out", l).vec("exp", coeffs_of(r));
  c.sink.emit(e);
}

static void c03_case(Ctx & c, const std::vector<double> & cv, const std::vector<double> & av, const std::vector<double> & bv, const std::vector<double> & dv)
{
  const G g   = from_coeffs(cv);
  const Tan a = to_tan(av), b = to_tan(bv), d = to_tan(dv);
  {
    const TMap A = smooth::Ad(g);
    auto e       = c.ev("Ad");
    e.vec("a", coeffs_of(g)).mat("out", A);
    c.sink.emit(e);
  }
  {
    const TMap A = smooth::ad<G>(a);
    auto e       = c.ev("ad");
    e.vec("a", a).mat("out", A);
    c.sink.emit(e);
  }
  if constexpr (kIsBase) {
    {
      const auto H = G::hat(a);
      const Tan v  = G::vee(H);
      auto e       = c.ev("hat");
      e.vec("a", a).mat("out", H).vec("vee", v);
      c.sink.emit(e);
    }
    {
      const Tan r  = G::lie_bracket(a, b);
      const Tan r2 = G::lie_bracket(b, a);
      const Tan adab = G::ad(a) * b;
      // Jacobi: [a,[b,d]] + [b,[d,a]] + [d,[a,b]]
      const Tan j = G::lie_bracket(a, G::lie_bracket(b, d)) + G::lie_bracket(b, G::lie_bracket(d, a)) + G::lie_bracket(d, G::lie_bracket(a, b));
      auto e      = c.ev("bracket");
      e.vec("a", a).vec("b", b).vec("c", d).vec("out", r).vec("rev", r2).vec("adab", adab).vec("jacobi", j);
      c.sink.emit(e);
    }
    {
      // linearity of hat/vee
      const Tan v = G::vee(G::hat(a) + G::hat(b));
      auto e      = c.ev("veelin");
      e.vec("a", a).vec("b", b).vec("out", v);
      c.sink.emit(e);
    }
  }
}

static void c03_hom_case(Ctx & c, const std::vector<double> & c1, const std::vector<double> & c2, const std::vector<double> & av)
{
  const G g1 = from_coeffs(c1), g2 = from_coeffs(c2);
  const Tan a = to_tan(av);
  {
    const TMap A12 = smooth::Ad(smooth::composition(g1, g2));
    const TMap A1 = smooth::Ad(g1), A2 = smooth::Ad(g2);
    auto e = c.ev("Adhom");
    e.vec("a", coeffs_of(g1)).vec("b", coeffs_of(g2)).mat("out", A12).mat("A1", A1).mat("A2", A2);
    c.sink.emit(e);
  }
  {
    const TMap A = smooth::Ad(smooth::exp<G>(a));
    const TMap ad = smooth::ad<G>(a);
    auto e = c.ev("Adexp");
    e.vec("a", a).mat("out", A).mat("ad", ad);
    c.sink.emit(e);
  }
}

static void c04_case(Ctx & c, const std::vector<double> & av, bool inv_ok)
{
  // one event per tangent vector: all first-order exp-Jacobians (the oracle shares its series)
  const Tan a = to_tan(av);
  auto e      = c.ev("c04");
  e.vec("a", a).num("inv", inv_ok ? 1 : 0);
  e.mat("dr_exp", smooth::dr_exp<G>(a));
  e.mat("dl_exp", smooth::dl_exp<G>(a));
  if (inv_ok) {
    e.mat("dr_expinv", smooth::dr_expinv<G>(a));
    e.mat("dl_expinv", smooth::dl_expinv<G>(a));
    e.mat("dr_rminus", smooth::dr_rminus<G>(a));
    const Eigen::Matrix<S, 1, DOF> J = smooth::dr_rminus_squarednorm<G>(a);
    e.mat("dr_rminus_sqn", J);
  }
  c.sink.emit(e);
  if constexpr (kIsBase) {
    // the class-member API has its own definitions of the left Jacobians (lie_group_base.hpp)
    auto m = c.ev("c04");
    m.str("api", "member").vec("a", a).num("inv", inv_ok ? 1 : 0);
    m.mat("dr_exp", G::dr_exp(a)).mat("dl_exp", G::dl_exp(a));
    if (inv_ok) {
      m.mat("dr_expinv", G::dr_expinv(a)).mat("dl_expinv", G::dl_expinv(a));
      m.mat("dr_rminus", G::dr_expinv(a));
      const Eigen::Matrix<S, 1, DOF> J2 = a.transpose() * G::dr_expinv(a);
      m.mat("dr_rminus_sqn", J2);
    }
    c.sink.emit(m);
  }
}

static void c04_action_case(Ctx & c, const std::vector<double> & cv)
{
  if constexpr (kIsBase && Dsc::HasDrAction) {
    const G g = from_coeffs(cv);
    for (int cls = 1; cls < 3; ++cls) {
      Eigen::Matrix<S, Dsc::ActDim, 1> v;
      for (int i = 0; i < Dsc::ActDim; ++i) v(i) = static_cast<S>(cls == 1 ? c.rng.uni(-2, 2) : c.rng.uni(-1e3, 1e3));
      const auto J = g.dr_action(v);
      auto e       = c.ev("dr_action");
      e.vec("a", coeffs_of(g)).vec("v", v).mat("out", J);
      c.sink.emit(e);
    }
  }
}

static void c05_case(Ctx & c, const std::vector<double> & av, bool inv_ok)
{
  if constexpr (Dsc::HasHess) {
    const Tan a = to_tan(av);
    auto e      = c.ev("c05");
    e.vec("a", a).num("inv", inv_ok ? 1 : 0);
    e.mat("d2r_exp", smooth::d2r_exp<G>(a));
    e.mat("d2l_exp", smooth::d2l_exp<G>(a));
    if (inv_ok) {
      e.mat("d2r_expinv", smooth::d2r_expinv<G>(a));
      e.mat("d2l_expinv", smooth::d2l_expinv<G>(a));
      e.mat("d2r_rminus", smooth::d2r_rminus<G>(a));
      const TMap H = smooth::d2r_rminus_squarednorm<G>(a);
      e.mat("d2r_rminus_sqn", H);
    }
    c.sink.emit(e);
    if constexpr (kIsBase) {
      // class-member API: d2l_exp / d2l_expinv are defined in lie_group_base.hpp, not by the free functions
      auto m = c.ev("c05");
      m.str("api", "member").vec("a", a).num("inv", 0);
      m.mat("d2r_exp", G::d2r_exp(a)).mat("d2l_exp", G::d2l_exp(a));
      c.sink.emit(m);
      if (inv_ok) {
        auto m2 = c.ev("c05m");
        m2.vec("a", a).mat("d2r_expinv", G::d2r_expinv(a)).mat("d2l_expinv", G::d2l_expinv(a));
        c.sink.emit(m2);
      }
    }
  } else {
    (void)c;
    (void)av;
    (void)inv_ok;
  }
}

// ------------------------------------------------------------------ C06
// Bundle: every operation on the bundle next to the same operation on each part<i>() (free-function interface,
// so that vector parts are handled too); the spec arranges the parts as tuple / block diagonal.
template<typename T>
static std::string part_vec_json(const T & v)
{
  std::string o;
  qvec(o, v);
  return o;
}
template<typename T>
static std::string part_mat_json(const T & m)
{
  std::string o;
  qmat(o, m);
  return o;
}
template<typename P>
static Eigen::Matrix<S, Desc<P>::Rep, 1> part_coeffs(const P & p)
{
  Eigen::Matrix<S, Desc<P>::Rep, 1> c;
  Desc<P>::get(p, c.data());
  return c;
}

static void c06_case(Ctx & c, const std::vector<double> & c1, const std::vector<double> & c2, const std::vector<double> & av, bool inv_ok)
{
  if constexpr (requires { G::BundleSize; }) {
    const G g1 = from_coeffs(c1), g2 = from_coeffs(c2);
    const Tan a = to_tan(av);
    auto emit = [&](const char * sub, const std::string & out, const std::string & parts) {
      auto e = c.ev("bparts");
      e.str("sub", sub).raw("out", out).raw("parts", parts);
      c.sink.emit(e);
    };
    auto for_parts = [&](auto && fn) {
      std::string s = "[";
      smooth::utils::static_for<G::BundleSize>([&](auto i) {
        if (i.value > 0) s += ',';
        s += fn(i);
      });
      return s + "]";
    };
    // element-valued operations: coefficient tuples
    emit("compose", part_vec_json(coeffs_of(smooth::composition(g1, g2))), for_parts([&](auto i) {
           using P = typename G::template PartType<i.value>;
           const P p1 = g1.template part<i.value>(), p2 = g2.template part<i.value>();
           return part_vec_json(part_coeffs<P>(smooth::composition(p1, p2)));
         }));
    emit("inverse", part_vec_json(coeffs_of(smooth::inverse(g1))), for_parts([&](auto i) {
           using P = typename G::template PartType<i.value>;
           const P p1 = g1.template part<i.value>();
           return part_vec_json(part_coeffs<P>(smooth::inverse(p1)));
         }));
    emit("exp", part_vec_json(coeffs_of(smooth::exp<G>(a))), for_parts([&](auto i) {
           using P = typename G::template PartType<i.value>;
           const Eigen::Matrix<S, G::template PartDof<i.value>, 1> ai = a.template segment<G::template PartDof<i.value>>(G::template PartStart<i.value>);
           return part_vec_json(part_coeffs<P>(smooth::exp<P>(ai)));
         }));
    emit("log", part_vec_json(smooth::log(g1)), for_parts([&](auto i) {
           using P = typename G::template PartType<i.value>;
           const P p1 = g1.template part<i.value>();
           return part_vec_json(smooth::log(p1));
         }));
    // matrix-valued operations: diagonal blocks
    emit("Ad", part_mat_json(smooth::Ad(g1)), for_parts([&](auto i) {
           using P = typename G::template PartType<i.value>;
           const P p1 = g1.template part<i.value>();
           return part_mat_json(smooth::Ad(p1));
         }));
#define VH_TAN_PART(NAME, EXPR_BUNDLE, EXPR_PART)                                                                              \
  emit(NAME, part_mat_json(EXPR_BUNDLE), for_parts([&](auto i) {                                                               \
         using P = typename G::template PartType<i.value>;                                                                     \
         const Eigen::Matrix<S, G::template PartDof<i.value>, 1> ai =                                                          \
           a.template segment<G::template PartDof<i.value>>(G::template PartStart<i.value>);                                   \
         return part_mat_json(EXPR_PART);                                                                                      \
       }));
    VH_TAN_PART("ad", smooth::ad<G>(a), smooth::ad<P>(ai))
    VH_TAN_PART("dr_exp", smooth::dr_exp<G>(a), smooth::dr_exp<P>(ai))
    VH_TAN_PART("dl_exp", smooth::dl_exp<G>(a), smooth::dl_exp<P>(ai))
    if (inv_ok) {
      VH_TAN_PART("dr_expinv", smooth::dr_expinv<G>(a), smooth::dr_expinv<P>(ai))
      VH_TAN_PART("dl_expinv", smooth::dl_expinv<G>(a), smooth::dl_expinv<P>(ai))
    }
    if constexpr (Dsc::HasHess) {
      VH_TAN_PART("d2r_exp", smooth::d2r_exp<G>(a), smooth::d2r_exp<P>(ai))
      if (inv_ok) { VH_TAN_PART("d2r_expinv", smooth::d2r_expinv<G>(a), smooth::d2r_expinv<P>(ai)) }
    }
#undef VH_TAN_PART
  } else {
    (void)c; (void)c1; (void)c2; (void)av; (void)inv_ok;
  }
}

// vectors / scalars through the LieGroup interface: the additive group, exactly
static void rn_case(Ctx & c, const std::vector<double> & c1, const std::vector<double> & c2)
{
  if constexpr (!kIsBase) {
    const G g1 = from_coeffs(c1), g2 = from_coeffs(c2);
    const Tan a = to_tan(c2);
    auto e      = c.ev("rn");
    e.vec("a", coeffs_of(g1)).vec("b", coeffs_of(g2));
    e.vec("compose", coeffs_of(smooth::composition(g1, g2))).vec("inverse", coeffs_of(smooth::inverse(g1)));
    e.vec("exp", coeffs_of(smooth::exp<G>(a))).vec("log", smooth::log(g1)).vec("identity", coeffs_of(smooth::Identity<G>()));
    e.mat("Ad", smooth::Ad(g1)).mat("ad", smooth::ad<G>(a)).mat("dr_exp", smooth::dr_exp<G>(a)).mat("dr_expinv", smooth::dr_expinv<G>(a));
    e.mat("dl_exp", smooth::dl_exp<G>(a)).mat("dl_expinv", smooth::dl_expinv<G>(a));
    e.mat("d2r_exp", smooth::d2r_exp<G>(a)).mat("d2r_expinv", smooth::d2r_expinv<G>(a));
    e.num("dof", static_cast<long>(smooth::dof(g1))).num("size", REP);
    e.vec("rplus", coeffs_of(smooth::rplus(g1, a))).vec("rminus", smooth::rminus(g1, g2));
    c.sink.emit(e);
  } else {
    (void)c; (void)c1; (void)c2;
  }
}

// ------------------------------------------------------------------ driver

static int main_(int argc, char ** argv)
{
  install_handlers();
  Ctx c;
  const std::string fam  = arg(argc, argv, "--fam", "c01");
  const std::string out  = arg(argc, argv, "--out", "/dev/stdout");
  const long n           = std::atol(arg(argc, argv, "--n", "20").c_str());
  const uint64_t seed    = std::strtoull(arg(argc, argv, "--seed", "1").c_str(), nullptr, 10);
  const std::string prog = arg(argc, argv, "--prog", "");
  c.rng                  = Rng(seed * 1000003ull + static_cast<uint64_t>(VH_GROUP) * 7919ull + (sizeof(S) == 4 ? 13 : 0));
  c.gj                   = Dsc::json();
  c.sc                   = sizeof(S) == 4 ? "f" : "d";
  Dsc::fields(c.fields, 0, 0);
  if (!c.sink.open(out)) return 2;
  current_sink() = &c.sink;
  const bool is_float = sizeof(S) == 4;

  Gen gen{c.fields, REP, DOF, is_float};

  if (!prog.empty()) {
    // explicit operands (witnesses of known findings, replays): one case per line,
    //   <case> v1,v2,... ; v1,v2,... ; ...      (numbers in any strtod format, hex floats included)
    FILE * pf = std::fopen(prog.c_str(), "r");
    if (!pf) return 2;
    char buf[1 << 16];
    while (std::fgets(buf, sizeof buf, pf)) {
      std::string line(buf);
      std::istringstream is(line);
      std::string cs;
      is >> cs;
      if (cs.empty() || cs[0] == '#') continue;
      std::vector<std::vector<double>> vs(1);
      std::string tok;
      std::string restl;
      std::getline(is, restl);
      const char * p = restl.c_str();
      while (*p) {
        while (*p == ' ' || *p == ',' || *p == '\n' || *p == '\t') ++p;
        if (!*p) break;
        if (*p == ';') {
          vs.emplace_back();
          ++p;
          continue;
        }
        char * endp;
        const double x = std::strtod(p, &endp);
        if (endp == p) break;
        vs.back().push_back(x);
        p = endp;
      }
      auto need = [&](std::size_t k) { while (vs.size() < k) vs.emplace_back(); };
      auto elem = [&](std::size_t i) { need(i + 1); if (vs[i].size() != static_cast<std::size_t>(REP)) { G id = smooth::Identity<G>(); Coef cc = coeffs_of(id); vs[i].assign(static_cast<std::size_t>(REP), 0.0); for (int k = 0; k < REP; ++k) vs[i][static_cast<std::size_t>(k)] = static_cast<double>(cc(k)); } return vs[i]; };
      auto tang = [&](std::size_t i) { need(i + 1); vs[i].resize(static_cast<std::size_t>(DOF), 0.0); return vs[i]; };
      c.exact = cs == "c01x" || cs == "c03x";
      if (cs == "c01" || cs == "c01x") c01_case(c, elem(0), elem(1), elem(2));
      else if (cs == "c03x") c03_case(c, elem(0), tang(1), tang(2), tang(3));
      else if (cs == "identity") identity_case(c);
      else if (cs == "exp") c02_exp_case(c, tang(0));
      else if (cs == "log") c02_log_case(c, elem(0));
      else if (cs == "c03") c03_case(c, elem(0), tang(1), tang(2), tang(3));
      else if (cs == "c03hom") c03_hom_case(c, elem(0), elem(1), tang(2));
      else if (cs == "c04") c04_case(c, tang(0), false);
      else if (cs == "c04inv") c04_case(c, tang(0), true);
      else if (cs == "c04act") c04_action_case(c, elem(0));
      else if (cs == "c05") c05_case(c, tang(0), false);
      else if (cs == "c05inv") c05_case(c, tang(0), true);
      else {
        std::fprintf(stderr, "unknown prog case %s\n", cs.c_str());
        return 2;
      }
    }
    std::fclose(pf);
  } else if (fam == "c01") {
    identity_case(c);
    for (long i = 0; i < n; ++i) {
      // element strata 0..10 (theta <= pi), cycle through them; partners random strata
      const int st = static_cast<int>(i % kNumElemStrata);
      auto c1 = gen.element(c.rng, st, static_cast<int>(i / kNumElemStrata) % 3);
      auto c2 = gen.element(c.rng, c.rng.idx(kNumElemStrata), c.rng.idx(3));
      auto c3 = gen.element(c.rng, c.rng.idx(kNumElemStrata), c.rng.idx(3));
      c01_case(c, c1, c2, c3);
    }
  } else if (fam == "c02") {
    for (long i = 0; i < n; ++i) {
      const int st = static_cast<int>(i % kNumThetaStrata);
      c02_exp_case(c, gen.tangent(c.rng, st, static_cast<int>(i / kNumThetaStrata) % 3, static_cast<int>(i / (3 * kNumThetaStrata)) % 4));
    }
    // log-uniform sweep 1e-12 .. 1e-2, ppd points per decade
    const int ppd = n >= 400 ? 40 : 5;
    for (int k = 0; k <= 10 * ppd; ++k) {
      const double th = std::pow(10.0, -12.0 + static_cast<double>(k) / ppd);
      c02_exp_case(c, gen.tangent_theta(c.rng, th, 1 + (k % 2), k % 4));
    }
    for (long i = 0; i < n; ++i) {
      const int st = static_cast<int>(i % kNumElemStrata);
      c02_log_case(c, gen.element(c.rng, st, static_cast<int>(i / kNumElemStrata) % 3));
    }
  } else if (fam == "c03") {
    for (long i = 0; i < n; ++i) {
      const int st = static_cast<int>(i % kNumElemStrata);
      auto cv = gen.element(c.rng, st, static_cast<int>(i / kNumElemStrata) % 3);
      auto av = gen.tangent_c03(c.rng, static_cast<int>(i % 7));
      auto bv = gen.tangent_c03(c.rng, static_cast<int>((i / 7) % 7));
      auto dv = gen.tangent_c03(c.rng, c.rng.idx(7));
      c03_case(c, cv, av, bv, dv);
      if (i % 3 == 0) {
        auto c2 = gen.element(c.rng, c.rng.idx(kNumElemStrata), c.rng.idx(2));
        c03_hom_case(c, cv, c2, gen.tangent(c.rng, c.rng.idx(9), c.rng.idx(2), c.rng.idx(4)));
      }
    }
    // unit tangent vectors (linearity on a basis)
    for (int k = 0; k < DOF; ++k) {
      std::vector<double> e(static_cast<std::size_t>(DOF), 0.0), z(static_cast<std::size_t>(DOF), 0.0);
      e[static_cast<std::size_t>(k)] = 1.0;
      c03_case(c, gen.element(c.rng, 7, 1), e, gen.tangent_c03(c.rng, 2), z);
    }
  } else if (fam == "c04" || fam == "c05") {
    const bool second = fam == "c05";
    for (long i = 0; i < n; ++i) {
      const int st   = static_cast<int>(i % kNumThetaStrata);
      const int tcls = static_cast<int>(i / kNumThetaStrata) % 3;
      const bool inv_ok = st <= 8;  // theta <= pi - 1e-3 (for every rotating part)
      auto av        = gen.tangent(c.rng, st, tcls, static_cast<int>(i / (3 * kNumThetaStrata)) % 4, inv_ok ? 9 : kNumThetaStrata - 1);
      if (second) {
        if (st <= 8) c05_case(c, av, inv_ok);
      } else {
        c04_case(c, av, inv_ok);
      }
    }
    const int ppd = second ? (n >= 200 ? 10 : 2) : (n >= 400 ? 40 : 5);
    for (int k = 0; k <= 10 * ppd; ++k) {
      const double th = std::pow(10.0, -12.0 + static_cast<double>(k) / ppd);
      auto av         = gen.tangent_theta(c.rng, th, 1 + (k % 2), k % 4, 9);
      if (second) c05_case(c, av, true);
      else c04_case(c, av, true);
    }
    // the decade right above the usual small-angle switch, O(1) and large translations (cancellation shows here)
    for (int k = 0; k < 16; ++k) {
      const double th = 1.0001e-4 * std::pow(10.0, static_cast<double>(k) / 16.0);
      auto av         = gen.tangent_theta(c.rng, th, 1 + (k % 2), 2, 9);
      if (second) c05_case(c, av, true);
      else c04_case(c, av, true);
    }
    // the WHOLE tangent small: translation-like coordinates of the same order as the rotation (a switch keyed on |a|
    // instead of the rotation norm only shows here; the strata above have translations 0, O(1) or 1e3)
    {
      const int cnt = n >= 200 ? 60 : 30;
      for (int k = 0; k < cnt; ++k) {
        const double th = std::pow(10.0, -8.0 + 6.0 * static_cast<double>(k) / (cnt - 1));
        auto av         = gen.tangent_theta(c.rng, th, 1, k % 3, 9);
        const double f  = th * (k % 3 == 0 ? 0.3 : (k % 3 == 1 ? 1.0 : 3.0));
        for (const auto & fl : gen.fields) {
          if (fl.kind != TRANS) continue;
          for (int j = 0; j < fl.n; ++j) av[static_cast<std::size_t>(fl.toff + j)] *= f;
        }
        if (second) c05_case(c, av, true);
        else c04_case(c, av, true);
      }
    }
    if (!second) {
      for (long i = 0; i < n / 4 + 2; ++i) c04_action_case(c, gen.element(c.rng, static_cast<int>(i % kNumElemStrata), static_cast<int>(i % 3)));
    }
  } else if (fam == "c06") {
    for (long i = 0; i < n; ++i) {
      const int st = static_cast<int>(i % 9);   // theta <= pi - 1e-3 for every part (inverses defined)
      auto c1 = gen.element(c.rng, static_cast<int>(i % kNumElemStrata), static_cast<int>(i / kNumElemStrata) % 3);
      auto c2 = gen.element(c.rng, c.rng.idx(kNumElemStrata), c.rng.idx(3));
      auto av = gen.tangent(c.rng, st, static_cast<int>(i / 9) % 3, static_cast<int>(i % 4), 9);
      c06_case(c, c1, c2, av, true);
      rn_case(c, c1, c2);
    }
  } else {
    std::fprintf(stderr, "unknown family %s\n", fam.c_str());
    return 2;
  }
  c.sink.close();
  return 0;
}
};  // struct Run

int main(int argc, char ** argv) { return Run<G0>::main_(argc, argv); }
