// Group descriptors (mirroring the JSON group descriptor the specification understands) and the
// stratified operand sampler of the "lie" harness family.  The sampler only proposes operands;
// the specification re-derives domain membership and stratum from what was logged.
#pragma once

#include <smooth/bundle.hpp>
#include <smooth/c1.hpp>
#include <smooth/galilei.hpp>
#include <smooth/se2.hpp>
#include <smooth/se3.hpp>
#include <smooth/se_k_3.hpp>
#include <smooth/so2.hpp>
#include <smooth/so3.hpp>

#include "common.hpp"

namespace vh {

enum FieldKind { QUAT = 0, CPLX = 1, TRANS = 2, CONF = 3 };
struct Field
{
  int kind;
  int coff;  // offset into coefficients
  int toff;  // offset into tangent
  int n;     // TRANS: dimension
};

template<typename G>
struct Desc;

template<typename G>
struct DescBase
{
  static void set(G & g, const double * c)
  {
    for (int i = 0; i < G::RepSize; ++i) g.coeffs()(i) = static_cast<typename G::Scalar>(c[i]);
  }
  template<typename Sc>
  static void get(const G & g, Sc * c)
  {
    for (int i = 0; i < G::RepSize; ++i) c[i] = g.coeffs()(i);
  }
};

template<typename S>
struct Desc<smooth::SO2<S>> : DescBase<smooth::SO2<S>>
{
  static constexpr int Rep = 2, Dofs = 1, ActDim = 2;
  static constexpr bool HasHess = true, HasDrAction = true;
  static std::string json() { return "{\"k\":\"SO2\"}"; }
  static void fields(std::vector<Field> & f, int c, int t) { f.push_back({CPLX, c, t, 1}); }
};
template<typename S>
struct Desc<smooth::SO3<S>> : DescBase<smooth::SO3<S>>
{
  static constexpr int Rep = 4, Dofs = 3, ActDim = 3;
  static constexpr bool HasHess = true, HasDrAction = true;
  static std::string json() { return "{\"k\":\"SO3\"}"; }
  static void fields(std::vector<Field> & f, int c, int t) { f.push_back({QUAT, c, t, 3}); }
};
template<typename S>
struct Desc<smooth::SE2<S>> : DescBase<smooth::SE2<S>>
{
  static constexpr int Rep = 4, Dofs = 3, ActDim = 2;
  static constexpr bool HasHess = true, HasDrAction = true;
  static std::string json() { return "{\"k\":\"SE2\"}"; }
  static void fields(std::vector<Field> & f, int c, int t)
  {
    f.push_back({CPLX, c + 2, t + 2, 1});
    f.push_back({TRANS, c, t, 2});
  }
};
template<typename S>
struct Desc<smooth::SE3<S>> : DescBase<smooth::SE3<S>>
{
  static constexpr int Rep = 7, Dofs = 6, ActDim = 3;
  static constexpr bool HasHess = true, HasDrAction = true;
  static std::string json() { return "{\"k\":\"SE3\"}"; }
  static void fields(std::vector<Field> & f, int c, int t)
  {
    f.push_back({QUAT, c + 3, t + 3, 3});
    f.push_back({TRANS, c, t, 3});
  }
};
template<typename S>
struct Desc<smooth::C1<S>> : DescBase<smooth::C1<S>>
{
  static constexpr int Rep = 2, Dofs = 2, ActDim = 2;
  static constexpr bool HasHess = true, HasDrAction = false;
  static std::string json() { return "{\"k\":\"C1\"}"; }
  static void fields(std::vector<Field> & f, int c, int t) { f.push_back({CONF, c, t, 2}); }
};
template<typename S>
struct Desc<smooth::Galilei<S>> : DescBase<smooth::Galilei<S>>
{
  static constexpr int Rep = 11, Dofs = 10, ActDim = 4;
  static constexpr bool HasHess = false, HasDrAction = true;
  static std::string json() { return "{\"k\":\"Gal\"}"; }
  static void fields(std::vector<Field> & f, int c, int t)
  {
    f.push_back({QUAT, c + 7, t + 7, 3});
    f.push_back({TRANS, c, t, 3});
    f.push_back({TRANS, c + 3, t + 3, 3});
    f.push_back({TRANS, c + 6, t + 6, 1});
  }
};
template<typename S, int K>
struct Desc<smooth::SE_K_3<S, K>> : DescBase<smooth::SE_K_3<S, K>>
{
  static constexpr int Rep = 3 * K + 4, Dofs = 3 * K + 3, ActDim = 0;
  static constexpr bool HasHess = false, HasDrAction = false;
  static std::string json() { return "{\"k\":\"SEK3\",\"n\":" + std::to_string(K) + "}"; }
  static void fields(std::vector<Field> & f, int c, int t)
  {
    f.push_back({QUAT, c + 3 * K, t + 3 * K, 3});
    for (int k = 0; k < K; ++k) f.push_back({TRANS, c + 3 * k, t + 3 * k, 3});
  }
};
template<typename S, int N>
struct Desc<Eigen::Matrix<S, N, 1>>
{
  using G                  = Eigen::Matrix<S, N, 1>;
  static constexpr int Rep = N, Dofs = N, ActDim = 0;
  static constexpr bool HasHess = true, HasDrAction = false;
  static std::string json() { return "{\"k\":\"R\",\"n\":" + std::to_string(N) + "}"; }
  static void fields(std::vector<Field> & f, int c, int t) { f.push_back({TRANS, c, t, N}); }
  static void set(G & g, const double * c)
  {
    for (int i = 0; i < N; ++i) g(i) = static_cast<S>(c[i]);
  }
  template<typename Sc>
  static void get(const G & g, Sc * c)
  {
    for (int i = 0; i < N; ++i) c[i] = g(i);
  }
};
template<>
struct Desc<double>
{
  static constexpr int Rep = 1, Dofs = 1, ActDim = 0;
  static constexpr bool HasHess = true, HasDrAction = false;
  static std::string json() { return "{\"k\":\"R\",\"n\":1}"; }
  static void fields(std::vector<Field> & f, int c, int t) { f.push_back({TRANS, c, t, 1}); }
  static void set(double & g, const double * c) { g = c[0]; }
  template<typename Sc>
  static void get(const double & g, Sc * c) { c[0] = g; }
};
template<>
struct Desc<float>
{
  static constexpr int Rep = 1, Dofs = 1, ActDim = 0;
  static constexpr bool HasHess = true, HasDrAction = false;
  static std::string json() { return "{\"k\":\"R\",\"n\":1}"; }
  static void fields(std::vector<Field> & f, int c, int t) { f.push_back({TRANS, c, t, 1}); }
  static void set(float & g, const double * c) { g = static_cast<float>(c[0]); }
  template<typename Sc>
  static void get(const float & g, Sc * c) { c[0] = g; }
};
template<typename... Gs>
struct Desc<smooth::Bundle<Gs...>> : DescBase<smooth::Bundle<Gs...>>
{
  static constexpr int Rep = (Desc<Gs>::Rep + ...), Dofs = (Desc<Gs>::Dofs + ...), ActDim = 0;
  static constexpr bool HasHess = (Desc<Gs>::HasHess && ...), HasDrAction = false;
  static std::string json()
  {
    std::string s = "{\"k\":\"B\",\"parts\":[";
    bool first    = true;
    ((s += (first ? "" : ","), s += Desc<Gs>::json(), first = false), ...);
    return s + "]}";
  }
  static void fields(std::vector<Field> & f, int c, int t)
  {
    ((Desc<Gs>::fields(f, c, t), c += Desc<Gs>::Rep, t += Desc<Gs>::Dofs), ...);
  }
};

// ---------------------------------------------------------------- sampler

static constexpr int kNumThetaStrata = 13;
static constexpr int kNumElemStrata  = 11;

inline double sample_theta(Rng & r, int st)
{
  const double pi = M_PI;
  switch (st) {
  case 0: return 0.0;
  case 1: return r.loguni(1e-12, 1e-8);
  case 2: return r.loguni(1e-8, 1e-5);
  case 3: return r.loguni(1e-5, 0.9e-4);
  case 4: {
    const int k = r.idx(5);
    if (k == 0) return 1e-4 * (1 - 1e-9);
    if (k == 1) return 1e-4 * (1 + 1e-9);
    if (k == 2) return 1e-4;
    return r.uni(0.9e-4, 1.1e-4);
  }
  case 5: return r.loguni(1.1e-4, 1e-3);
  case 6: return r.loguni(1e-3, 1e-2);
  case 7: return r.loguni(1e-2, 1.0);
  case 8: return r.uni(1.0, pi - 1e-3);
  case 9: return r.uni(pi - 1e-3, pi - 1e-5);
  case 10: {
    const int k = r.idx(7);
    if (k == 0) return pi;
    if (k == 1) return std::nextafter(pi, 0.0);
    if (k == 2) return std::nextafter(pi, 4.0);
    if (k == 3) return pi - 1e-9;
    if (k == 4) return pi + 1e-9;
    return r.uni(pi - 0.99e-5, pi + 0.99e-5);
  }
  case 11: return r.uni(pi + 1e-5, 2 * pi);
  default: return r.uni(2 * pi, 50.0);
  }
}

// element rotation angle in [0, pi] by element stratum (9 = exact half turn, 10 = |q_w| < 1e-9)
inline double sample_elem_theta(Rng & r, int st)
{
  const double pi = M_PI;
  switch (st) {
  case 0: return 0.0;
  case 1: return r.loguni(1e-12, 1e-8);
  case 2: return r.loguni(1e-8, 1e-4);
  case 3: return r.loguni(1e-4, 1e-2);
  case 4: return r.loguni(1e-2, 1.0);
  case 5: return r.uni(1.0, pi - 1e-3);
  case 6: return r.uni(pi - 1e-3, pi - 1e-5);
  case 7: return r.uni(0.1, 3.0);
  case 8: return r.uni(pi - 1e-5, pi);
  case 9: return pi;
  default: return pi - 2e-9 * r.uni(0.01, 1.0);
  }
}

inline void sample_dir3(Rng & r, int dircls, double * d)
{
  if (dircls == 0) {
    const int k = r.idx(3);
    d[0] = d[1] = d[2] = 0;
    d[k]               = r.sign();
    return;
  }
  for (int i = 0; i < 3; ++i) d[i] = r.uni(-1, 1);
  if (dircls == 1) d[r.idx(3)] = 0;
  double n = std::sqrt(d[0] * d[0] + d[1] * d[1] + d[2] * d[2]);
  if (n < 1e-3) {
    d[0] = 1;
    d[1] = d[2] = 0;
    n           = 1;
  }
  for (int i = 0; i < 3; ++i) d[i] /= n;
}

struct Gen
{
  const std::vector<Field> & fields;
  int rep, dof;
  bool is_float;

  void trans(Rng & r, int tcls, int n, double * out, const double * axis) const
  {
    for (int i = 0; i < n; ++i) {
      double x = 0;
      if (tcls == 1) x = r.uni(-1, 1);
      if (tcls == 2) x = r.uni(-1e3, 1e3);
      out[i] = x;
    }
    if (tcls != 0 && n > 1 && r.idx(4) == 0) out[r.idx(n)] = 0;  // one component exactly zero
    if (tcls != 0 && n == 3 && axis != nullptr) {
      const double mag = (tcls == 1 ? r.uni(0.1, 1) : r.uni(1, 1e3));
      for (int i = 0; i < 3; ++i) out[i] = axis[i] * mag;  // parallel to the rotation axis
    }
  }

  std::vector<double> tangent_theta(Rng & r, double theta, int tcls, int dircls, int max_other = kNumThetaStrata - 1) const
  {
    std::vector<double> a(static_cast<std::size_t>(dof), 0.0);
    bool first_rot = true;
    double axis[3] = {0, 0, 0};
    bool have_axis = false;
    for (const auto & f : fields) {
      if (f.kind == TRANS) continue;
      const double th = first_rot ? theta : sample_theta(r, r.idx(max_other));
      if (f.kind == QUAT) {
        double d[3];
        sample_dir3(r, dircls == 3 ? 2 : dircls, d);
        for (int i = 0; i < 3; ++i) a[static_cast<std::size_t>(f.toff + i)] = d[i] * th;
        if (first_rot) {
          for (int i = 0; i < 3; ++i) axis[i] = d[i];
          have_axis = true;
        }
      } else if (f.kind == CPLX) {
        a[static_cast<std::size_t>(f.toff)] = r.sign() * th;
      } else {
        a[static_cast<std::size_t>(f.toff)]     = tcls == 0 ? 0.0 : r.uni(-1, 1);
        a[static_cast<std::size_t>(f.toff + 1)] = r.sign() * th;
      }
      first_rot = false;
    }
    bool first_trans = true;
    for (const auto & f : fields) {
      if (f.kind != TRANS) continue;
      trans(r, tcls, f.n, &a[static_cast<std::size_t>(f.toff)], (dircls == 3 && have_axis && first_trans) ? axis : nullptr);
      first_trans = false;
    }
    round_to_scalar(a);
    return a;
  }

  std::vector<double> tangent(Rng & r, int st, int tcls, int dircls, int max_other = kNumThetaStrata - 1) const
  {
    return tangent_theta(r, sample_theta(r, st), tcls, dircls, max_other);
  }

  // tangent coordinates for the algebra laws: 0: {0,+-1}; 1: O(1); 2: translations 1e3; 3: zero; 4: integers;
  // 6: large (all coordinates up to 12: rotation parts beyond pi);
  // 5: tiny (O(1) coordinates scaled by 2^-44 / 2^-19 for float: far below any "is it zero?" threshold of the
  //    library, far above underflow of the products) - hat, vee, ad and the bracket are (bi)linear, so their
  //    results on tiny arguments are tiny but exactly as accurate, relatively, as on large ones
  std::vector<double> tangent_c03(Rng & r, int cls) const
  {
    std::vector<double> a(static_cast<std::size_t>(dof), 0.0);
    if (cls == 3) return a;
    if (cls == 5) {
      a = tangent_c03(r, 1);
      for (auto & x : a) x = std::ldexp(x, is_float ? -19 : -44);
      round_to_scalar(a);
      return a;
    }
    for (const auto & f : fields) {
      const int n = f.kind == QUAT ? 3 : f.kind == CPLX ? 1 : f.kind == CONF ? 2 : f.n;
      for (int i = 0; i < n; ++i) {
        double x;
        if (cls == 0) x = r.idx(3) - 1;
        else if (cls == 4) x = r.idx(7) - 3;
        else if (cls == 6) x = r.uni(-12, 12);   // rotation coordinates of several turns: hat/vee/ad are linear, no wrapping
        else if (cls == 2 && f.kind == TRANS) x = r.uni(-1e3, 1e3);
        else x = r.uni(-2, 2);
        a[static_cast<std::size_t>(f.toff + i)] = x;
      }
    }
    round_to_scalar(a);
    return a;
  }

  std::vector<double> element(Rng & r, int st, int tcls) const
  {
    std::vector<double> c(static_cast<std::size_t>(rep), 0.0);
    bool first_rot = true;
    for (const auto & f : fields) {
      if (f.kind == TRANS) {
        trans(r, tcls, f.n, &c[static_cast<std::size_t>(f.coff)], nullptr);
        continue;
      }
      const int s     = first_rot ? st : r.idx(kNumElemStrata);
      first_rot       = false;
      const double th = sample_elem_theta(r, s);
      if (f.kind == QUAT) {
        double q[4];
        if (s == 0) {
          q[0] = q[1] = q[2] = 0;
          q[3]               = 1;
        } else if (s == 9) {
          static const double ax[6][3] = {{1, 0, 0}, {0, 1, 0}, {0, 0, 1}, {0.6, 0.8, 0}, {0, -0.6, 0.8}, {-0.8, 0, 0.6}};
          const int k                  = r.idx(6);
          for (int i = 0; i < 3; ++i) q[i] = ax[k][i];
          q[3] = r.idx(2) ? 0.0 : -0.0;
        } else {
          double d[3];
          sample_dir3(r, r.idx(3), d);
          for (int i = 0; i < 3; ++i) q[i] = d[i] * std::sin(th / 2);
          q[3] = std::cos(th / 2);
        }
        normalize(q, 4, s != 0 && s != 9);
        if (q[3] < 0)
          for (double & x : q) x = -x;
        for (int i = 0; i < 4; ++i) c[static_cast<std::size_t>(f.coff + i)] = q[i];
      } else if (f.kind == CPLX) {
        double z[2];
        const double sg = r.sign();
        if (s == 0) {
          z[0] = 0;
          z[1] = 1;
        } else if (s == 9) {
          z[0] = r.idx(2) ? 0.0 : -0.0;
          z[1] = -1;
        } else {
          z[0] = sg * std::sin(th);
          z[1] = std::cos(th);
        }
        normalize(z, 2, s != 0 && s != 9);
        c[static_cast<std::size_t>(f.coff)]     = z[0];
        c[static_cast<std::size_t>(f.coff + 1)] = z[1];
      } else {  // CONF: r * (sin, cos)
        const double sg  = r.sign();
        // modulus: 1 at the identity stratum, else e^[-1,1]; every fourth one within 1e-12..1e-6 of 1 but not 1 (a "unit
        // modulus" shortcut keyed on |z|^2 - 1 shows only there)
        double rad = s == 0 ? 1.0 : std::exp(r.uni(-1, 1));
#ifdef VH_NEAR_UNIT_C1   // only the Lie family (harness/lie.cpp) so far: the other families keep their sample streams
        if (s != 0 && r.idx(4) == 0) rad = 1.0 + r.sign() * r.loguni(1e-12, 1e-6);
#endif
        c[static_cast<std::size_t>(f.coff)]     = s == 0 ? 0.0 : rad * sg * std::sin(th);
        c[static_cast<std::size_t>(f.coff + 1)] = s == 0 ? 1.0 : rad * std::cos(th);
      }
    }
    round_to_scalar(c);
    return c;
  }

  // unit norm in the scalar type of the group (so that the constraint holds to an ulp of that type)
  void normalize(double * v, int n, bool doit) const
  {
    if (!doit) return;
    if (is_float) {
      float f[4];
      float nn = 0;
      for (int i = 0; i < n; ++i) {
        f[i] = static_cast<float>(v[i]);
        nn += f[i] * f[i];
      }
      nn = std::sqrt(nn);
      for (int i = 0; i < n; ++i) v[i] = static_cast<double>(f[i] / nn);
    } else {
      double nn = 0;
      for (int i = 0; i < n; ++i) nn += v[i] * v[i];
      nn = std::sqrt(nn);
      for (int i = 0; i < n; ++i) v[i] /= nn;
    }
  }
  void round_to_scalar(std::vector<double> & v) const
  {
    if (is_float)
      for (double & x : v) x = static_cast<double>(static_cast<float>(x));
  }
};

}  // namespace vh
