// Conformance harness: dynamically sized Eigen vectors through the LieGroup free-function interface
// (property C06, clause C06.vector).  Emits the same "rn" events as harness/lie.cpp.
#include <smooth/lie_groups/native.hpp>
#include <smooth/manifolds.hpp>

#include "common.hpp"

using namespace vh;
using G = Eigen::VectorXd;

int main(int argc, char ** argv)
{
  install_handlers();
  const std::string out = arg(argc, argv, "--out", "/dev/stdout");
  const long n          = std::atol(arg(argc, argv, "--n", "5").c_str());
  const uint64_t seed   = std::strtoull(arg(argc, argv, "--seed", "1").c_str(), nullptr, 10);
  Rng r(seed * 7919 + 5);
  Sink sink;
  if (!sink.open(out)) return 2;
  current_sink() = &sink;
  for (long it = 0; it < n; ++it) {
    for (int sz = 0; sz <= 6; ++sz) {
      G g1(sz), g2(sz);
      for (int i = 0; i < sz; ++i) {
        g1(i) = it == 0 ? 0.0 : (it % 3 == 0 ? r.uni(-1e3, 1e3) : r.uni(-2, 2));
        g2(i) = it % 4 == 1 ? 0.0 : r.uni(-2, 2);
      }
      const G a = g2;
      Ev e;
      e.str("op", "rn").raw("g", "{\"k\":\"R\",\"n\":" + std::to_string(sz) + "}").str("sc", "d").str("storage", "dynamic");
      e.vec("a", g1).vec("b", g2);
      e.vec("compose", smooth::composition(g1, g2)).vec("inverse", smooth::inverse(g1));
      e.vec("exp", smooth::exp<G>(a)).vec("log", smooth::log(g1)).vec("identity", smooth::Identity<G>(sz));
      e.mat("Ad", smooth::Ad(g1)).mat("ad", smooth::ad<G>(a)).mat("dr_exp", smooth::dr_exp<G>(a)).mat("dr_expinv", smooth::dr_expinv<G>(a));
      e.mat("dl_exp", smooth::dl_exp<G>(a)).mat("dl_expinv", smooth::dl_expinv<G>(a));
      e.mat("d2r_exp", smooth::d2r_exp<G>(a)).mat("d2r_expinv", smooth::d2r_expinv<G>(a));
      e.num("dof", static_cast<long>(smooth::dof(g1))).num("size", sz);
      e.vec("rplus", smooth::rplus(g1, a)).vec("rminus", smooth::rminus(g1, g2));
      sink.emit(e);
    }
  }
  sink.close();
  return 0;
}
