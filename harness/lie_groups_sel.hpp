// Selection of the group type under test by -DVH_GROUP=<n> -DVH_SCALAR=<float|double> (shared by the harnesses
// that are compiled once per group).  G0 is the selected type, S the scalar.
#pragma once
#include <smooth/bundle.hpp>
#include <smooth/c1.hpp>
#include <smooth/galilei.hpp>
#include <smooth/lie_groups/native.hpp>
#include <smooth/se2.hpp>
#include <smooth/se3.hpp>
#include <smooth/se_k_3.hpp>
#include <smooth/so2.hpp>
#include <smooth/so3.hpp>

#ifndef VH_SCALAR
#define VH_SCALAR double
#endif
using S = VH_SCALAR;

// clang-format off
#if VH_GROUP == 0
using G0 = smooth::SO2<S>;
#elif VH_GROUP == 1
using G0 = smooth::SO3<S>;
#elif VH_GROUP == 2
using G0 = smooth::SE2<S>;
#elif VH_GROUP == 3
using G0 = smooth::SE3<S>;
#elif VH_GROUP == 4
using G0 = smooth::C1<S>;
#elif VH_GROUP == 5
using G0 = smooth::Galilei<S>;
#elif VH_GROUP == 6
using G0 = smooth::SE_K_3<S, 2>;
#elif VH_GROUP == 7
using G0 = smooth::SE_K_3<S, 1>;
#elif VH_GROUP == 8
using G0 = Eigen::Matrix<S, 3, 1>;
#elif VH_GROUP == 9
using G0 = smooth::Bundle<smooth::SO3<S>, Eigen::Matrix<S, 3, 1>>;
#elif VH_GROUP == 10
using G0 = smooth::Bundle<smooth::SE2<S>, smooth::SO2<S>, Eigen::Matrix<S, 2, 1>, smooth::SE3<S>>;
#elif VH_GROUP == 11
using G0 = smooth::Bundle<smooth::Bundle<smooth::SO3<S>, Eigen::Matrix<S, 2, 1>>, smooth::C1<S>, smooth::SE2<S>>;
#elif VH_GROUP == 12
using G0 = smooth::Bundle<Eigen::Matrix<S, 1, 1>, smooth::SO2<S>, smooth::C1<S>>;
#elif VH_GROUP == 13
using G0 = smooth::Bundle<smooth::SO3<S>, smooth::SO3<S>>;
#elif VH_GROUP == 14
using G0 = smooth::Bundle<smooth::Galilei<S>, Eigen::Matrix<S, 2, 1>>;
#elif VH_GROUP == 15
using G0 = smooth::Bundle<smooth::SE_K_3<S, 2>, smooth::SO2<S>>;
#elif VH_GROUP == 16
using G0 = S;
#elif VH_GROUP == 17
using G0 = Eigen::Matrix<S, 5, 1>;
#elif VH_GROUP == 18
using G0 = smooth::SE_K_3<S, 3>;
#elif VH_GROUP == 19
using G0 = smooth::SE_K_3<S, 4>;
#else
#error "unknown VH_GROUP"
#endif
// clang-format on
