// Conformance harness for lp2d::solve (include/smooth/external/lp2d.hpp), the two-variable LP solver behind
// reparameterize_spline.  Records the program (small integers, exactly representable) and what the library
// returned; spec/TraceLP2D.tla decides against the definition in spec/LP2D.tla.  The harness never judges.
//   --n N     number of random programs (3..7 rows, coefficients -3..3) after the exhaustive part
//   --wide W  W generic random programs with coefficients -30..30
//   --box B   exhaustive part: every program with at most 2 rows over -B..B and every objective over -1..1
#include <smooth/external/lp2d.hpp>

#include <array>
#include <csignal>

#include "common.hpp"

namespace {
vh::Sink sink;

const char * status_name(lp2d::Status s)
{
  switch (s) {
    case lp2d::Status::Optimal: return "Optimal";
    case lp2d::Status::PrimaryInfeasible: return "PrimaryInfeasible";
    case lp2d::Status::DualInfeasible: return "DualInfeasible";
  }
  return "?";
}

void one(const char * gen, int cx, int cy, const std::vector<std::array<double, 3>> & rows)
{
  const auto [x, y, st] = lp2d::solve(static_cast<double>(cx), static_cast<double>(cy), rows);
  vh::Ev e;
  e.str("op", "lp").str("gen", gen).num("cx", cx).num("cy", cy);
  std::string r = "[";
  for (std::size_t i = 0; i < rows.size(); ++i) {
    if (i) r += ',';
    r += '[' + std::to_string(static_cast<long>(rows[i][0])) + ',' + std::to_string(static_cast<long>(rows[i][1])) + ','
       + std::to_string(static_cast<long>(rows[i][2])) + ']';
  }
  r += ']';
  e.raw("rows", r).str("st", status_name(st)).dbl("x", x).dbl("y", y);
  sink.emit(e);
}
}  // namespace

int main(int argc, char ** argv)
{
  vh::install_handlers();
  const long n        = std::stol(vh::arg(argc, argv, "--n", "100"));
  const int box       = std::stoi(vh::arg(argc, argv, "--box", "1"));
  const uint64_t seed = std::stoull(vh::arg(argc, argv, "--seed", "1"));
  if (!sink.open(vh::arg(argc, argv, "--out", "/dev/stdout"))) return 2;
  vh::current_sink() = &sink;
  alarm(600);  // a change that breaks termination of the prune-and-search loop must not hang the check

  std::vector<std::array<double, 3>> all;
  for (int a = -box; a <= box; ++a)
    for (int b = -box; b <= box; ++b)
      for (int c = -box; c <= box; ++c) all.push_back({double(a), double(b), double(c)});
  for (int cx = -1; cx <= 1; ++cx)
    for (int cy = -1; cy <= 1; ++cy) {
      if (cx == 0 && cy == 0) continue;
      one("ex0", cx, cy, {});
      for (const auto & r1 : all) one("ex1", cx, cy, {r1});
      for (const auto & r1 : all)
        for (const auto & r2 : all) one("ex2", cx, cy, {r1, r2});
    }

  vh::Rng rng(seed * 7919 + 17);
  for (long k = 0; k < n; ++k) {
    const int m = 3 + rng.idx(5);
    std::vector<std::array<double, 3>> rows;
    // half of the programs are built around a bounded polygon so that "Optimal" is common
    const bool boxed = rng.idx(2) == 0;
    for (int i = 0; i < m; ++i) rows.push_back({double(rng.idx(7) - 3), double(rng.idx(7) - 3), double(rng.idx(9) - 4)});
    if (boxed) {
      const int w = 1 + rng.idx(4);
      rows.push_back({1, 0, double(w)});
      rows.push_back({-1, 0, double(w)});
      rows.push_back({0, 1, double(w)});
      rows.push_back({0, -1, double(w)});
      for (std::size_t i = rows.size() - 1; i > 0; --i) std::swap(rows[i], rows[static_cast<std::size_t>(rng.idx(int(i) + 1))]);
    }
    int cx = rng.idx(7) - 3, cy = rng.idx(7) - 3;
    if (cx == 0 && cy == 0) cx = 1;
    one(boxed ? "rnd.boxed" : "rnd", cx, cy, rows);
  }
  // generic programs: coefficients -30..30 (ties and parallel rows are rare), half of them inside a box
  const long wide = std::stol(vh::arg(argc, argv, "--wide", "0"));
  for (long k = 0; k < wide; ++k) {
    const int m = 3 + rng.idx(6);
    std::vector<std::array<double, 3>> rows;
    const bool boxed = rng.idx(2) == 0;
    for (int i = 0; i < m; ++i) rows.push_back({double(rng.idx(61) - 30), double(rng.idx(61) - 30), double(rng.idx(61) - 30)});
    if (boxed) {
      const int w = 1 + rng.idx(30);
      rows.push_back({1, 0, double(w)});
      rows.push_back({-1, 0, double(w)});
      rows.push_back({0, 1, double(w)});
      rows.push_back({0, -1, double(w)});
      for (std::size_t i = rows.size() - 1; i > 0; --i) std::swap(rows[i], rows[static_cast<std::size_t>(rng.idx(int(i) + 1))]);
    }
    int cx = rng.idx(61) - 30, cy = rng.idx(61) - 30;
    if (cx == 0 && cy == 0) cx = 1;
    one(boxed ? "wide.boxed" : "wide", cx, cy, rows);
  }
  sink.close();
  return 0;
}
