// Conformance harness, family "machine" (property C15): executes operation programs over a register file
// of group elements (e0..e5) and tangent vectors (t0..t3) on the real library and records every produced
// element exactly.  TLC validates with spec/TraceMachine.tla, which carries the EXACT group-theoretic value
// of every register through the same sequence.  One group type per translation unit (-DVH_GROUP=<n>).
#include <boost/numeric/odeint.hpp>

#include <smooth/compat/odeint.hpp>

#include "common.hpp"
#include "lie_desc.hpp"
#include "lie_groups_sel.hpp"

using namespace vh;
using G = G0;

static constexpr int DOF = smooth::Dof<G>;
using Dsc                = Desc<G>;
static constexpr int REP = Dsc::Rep;
using Tan                = Eigen::Matrix<S, DOF, 1>;
using Coef               = Eigen::Matrix<S, REP, 1>;

static Coef coeffs_of(const G & g)
{
  Coef c;
  Dsc::get(g, c.data());
  return c;
}

template<typename GG>
static int run(int argc, char ** argv)
{
  install_handlers();
  const std::string out  = arg(argc, argv, "--out", "/dev/stdout");
  const std::string prog = arg(argc, argv, "--prog", "");
  const long every       = std::atol(arg(argc, argv, "--every", "1").c_str());   // log every k-th step of a repeat
  Sink sink;
  if (!sink.open(out)) return 2;
  current_sink()       = &sink;
  const std::string gj = Dsc::json();
  const char * sc      = sizeof(S) == 4 ? "f" : "d";
  GG e[6];
  for (auto & x : e) x = smooth::Identity<GG>();
  Tan t[4];
  for (auto & x : t) x.setZero();
  constexpr bool kIsBase = requires(const GG & g) { g.Ad(); };

  auto ev = [&](const char * op) {
    Ev v;
    v.str("op", op).raw("g", gj).str("sc", sc);
    return v;
  };
  // executes one elementary operation; returns false on a parse problem
  auto exec = [&](const std::string & op, int a, int b, int c2, bool log_it) -> bool {
    if (op == "compose") e[a] = smooth::composition(e[b], e[c2]);
    else if (op == "inverse") e[a] = smooth::inverse(e[b]);
    else if (op == "exp") e[a] = smooth::exp<GG>(t[b]);
    else if (op == "rplus") e[a] = smooth::rplus(e[b], t[c2]);
    else if (op == "copy") e[a] = e[b];
    else if (op == "cast") e[a] = smooth::cast<S>(e[b]);
    else if (op == "muleq") {
      if constexpr (kIsBase) e[a] *= e[b];
      else e[a] = smooth::composition(e[a], e[b]);
    } else if (op == "pluseq") {
      if constexpr (kIsBase) e[a] += t[b];
      else e[a] = smooth::rplus(e[a], t[b]);
    } else return false;
    if (log_it) {
      auto v = ev(op.c_str());
      v.num("dst", a).num("a", b).num("b", c2).vec("out", coeffs_of(e[a]));
      sink.emit(v);
    }
    return true;
  };

  FILE * pf = std::fopen(prog.c_str(), "r");
  if (!pf) return 2;
  static char buf[1 << 16];
  while (std::fgets(buf, sizeof buf, pf)) {
    std::istringstream is{std::string(buf)};
    std::string op;
    is >> op;
    if (op.empty() || op[0] == '#') continue;
    if (op == "reset") {
      for (auto & x : e) x = smooth::Identity<GG>();
      for (auto & x : t) x.setZero();
      auto v = ev("reset");
      sink.emit(v);
    } else if (op == "sete" || op == "sett") {
      int r;
      is >> r;
      std::vector<double> vals;
      std::string tok;
      while (is >> tok) vals.push_back(std::strtod(tok.c_str(), nullptr));
      if (op == "sete") {
        if (static_cast<int>(vals.size()) != REP) return 2;
        Dsc::set(e[r], vals.data());
        auto v = ev("sete");
        v.num("dst", r).vec("out", coeffs_of(e[r]));
        sink.emit(v);
      } else {
        if (static_cast<int>(vals.size()) != DOF) return 2;
        for (int i = 0; i < DOF; ++i) t[r](i) = static_cast<S>(vals[static_cast<std::size_t>(i)]);
        auto v = ev("sett");
        v.num("dst", r).vec("out", t[r]);
        sink.emit(v);
      }
    } else if (op == "repeat") {
      // repeat N op a b c : the same elementary operation N times; every `every`-th result (and the last) is logged,
      // the event says how many applications it stands for
      long N;
      std::string sub;
      int a, b, c2;
      is >> N >> sub >> a >> b >> c2;
      long since = 0;
      for (long i = 1; i <= N; ++i) {
        if (!exec(sub, a, b, c2, false)) return 2;
        ++since;
        if (i % every == 0 || i == N) {
          auto v = ev("repeat");
          v.str("sub", sub).num("count", since).num("dst", a).num("a", b).num("b", c2).vec("out", coeffs_of(e[a]));
          sink.emit(v);
          since = 0;
        }
      }
    } else if (op == "ode") {
      // ode <stepper> dst src tan T nsteps : integrate dx/dt = v (constant body velocity) with a fixed-step stepper
      std::string stp;
      int a, b, c2;
      double T;
      long ns;
      is >> stp >> a >> b >> c2 >> T >> ns;
      namespace ode = boost::numeric::odeint;
      using state_t = GG;
      using deriv_t = Tan;
      const Tan vel = t[c2];
      auto sys      = [&vel](const state_t &, deriv_t & d, double) { d = vel; };
      state_t x     = e[b];
      const double dt = T / static_cast<double>(ns);
      int stages      = 1;
      if (stp == "euler") {
        ode::euler<state_t, double, deriv_t, double, ode::vector_space_algebra> s;
        ode::integrate_n_steps(s, sys, x, 0.0, dt, static_cast<std::size_t>(ns));
        stages = 1;
      } else if (stp == "rk4") {
        ode::runge_kutta4<state_t, double, deriv_t, double, ode::vector_space_algebra> s;
        ode::integrate_n_steps(s, sys, x, 0.0, dt, static_cast<std::size_t>(ns));
        stages = 4;
      } else if (stp == "ck54") {
        ode::runge_kutta_cash_karp54<state_t, double, deriv_t, double, ode::vector_space_algebra> s;
        ode::integrate_n_steps(s, sys, x, 0.0, dt, static_cast<std::size_t>(ns));
        stages = 6;
      } else if (stp == "dopri5") {
        ode::runge_kutta_dopri5<state_t, double, deriv_t, double, ode::vector_space_algebra> s;
        ode::integrate_n_steps(s, sys, x, 0.0, dt, static_cast<std::size_t>(ns));
        stages = 7;
      } else if (stp == "fehlberg78") {
        ode::runge_kutta_fehlberg78<state_t, double, deriv_t, double, ode::vector_space_algebra> s;
        ode::integrate_n_steps(s, sys, x, 0.0, dt, static_cast<std::size_t>(ns));
        stages = 13;
      } else return 2;
      e[a]   = x;
      auto v = ev("ode");
      v.str("stepper", stp).num("dst", a).num("a", b).num("b", c2).dbl("T", T).num("nsteps", ns).num("stages", stages).vec("out", coeffs_of(e[a]));
      sink.emit(v);
    } else if (op == "lift") {
      // lift dst src : logs lift(e[src]) (SO2 -> SO3, SE2 -> SE3) and stores project(lift(e[src])) in e[dst]
      int a = 0, b = 0;
      is >> a >> b;
      if constexpr (std::is_same_v<GG, smooth::SO2<S>>) {
        const smooth::SO3<S> L = e[b].lift_so3();
        e[a]                   = L.project_so2();
        Eigen::Matrix<S, 4, 1> lc;
        Desc<smooth::SO3<S>>::get(L, lc.data());
        auto v = ev("lift");
        v.num("dst", a).num("a", b).vec("lifted", lc).vec("out", coeffs_of(e[a]));
        sink.emit(v);
      } else if constexpr (std::is_same_v<GG, smooth::SE2<S>>) {
        const smooth::SE3<S> L = e[b].lift_se3();
        e[a]                   = L.project_se2();
        Eigen::Matrix<S, 7, 1> lc;
        Desc<smooth::SE3<S>>::get(L, lc.data());
        auto v = ev("lift");
        v.num("dst", a).num("a", b).vec("lifted", lc).vec("out", coeffs_of(e[a]));
        sink.emit(v);
      } else {
        std::fprintf(stderr, "lift is only defined for SO2 / SE2\n");
        return 2;
      }
    } else {
      int a = 0, b = 0, c2 = 0;
      is >> a >> b >> c2;
      if (!exec(op, a, b, c2, true)) {
        std::fprintf(stderr, "unknown op %s\n", op.c_str());
        return 2;
      }
    }
  }
  std::fclose(pf);
  sink.close();
  return 0;
}

int main(int argc, char ** argv) { return run<G>(argc, argv); }
