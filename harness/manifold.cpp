// Conformance harness, family "manifold" (property C07): replays TLC-generated histories over
// {construct, copy, assign, cast, rplus, rminus, mutate, dof, rt1, rt2, rt2t, twin} on the real
// Manifold models of the library and records every operand, every result and - after every step -
// the observable state of EVERY live object exactly (ndjson).  TLC validates the trace with
// spec/TraceManifold.tla.  The harness never judges a result.  One Manifold model type per
// translation unit (-DVH_MODEL=<n>).
//
// Value trees (what the specification sees):
//   {"t":"L","g":<group descriptor>,"c":[coefficients]}      Lie group / vector / scalar
//   {"t":"V","e":[trees]}                                     std::vector<M>
//   {"t":"W","alt":k,"v":tree}                                std::variant<...>   (k = index())
//   {"t":"S","m0":tree,"m":tree,"fixed":[ints]}               SubManifold<M>      (m0(), m(), fixed_dims())
//   {"t":"A","v":tree}                                        AnyManifold         (get<Inner>())
#include <smooth/bundle.hpp>
#include <smooth/c1.hpp>
#include <smooth/galilei.hpp>
#include <smooth/lie_groups.hpp>
#include <smooth/manifolds.hpp>
#include <smooth/manifolds/any.hpp>
#include <smooth/manifolds/submanifold.hpp>
#include <smooth/se2.hpp>
#include <smooth/se3.hpp>
#include <smooth/se_k_3.hpp>
#include <smooth/so2.hpp>
#include <smooth/so3.hpp>

#include <map>
#include <memory>
#include <variant>

#include "common.hpp"
#include "lie_desc.hpp"

using namespace vh;
using S = double;

using V2 = Eigen::Matrix<double, 2, 1>;
using V3 = Eigen::Matrix<double, 3, 1>;
using V4 = Eigen::Matrix<double, 4, 1>;
using VX = Eigen::VectorXd;

// clang-format off
#if VH_MODEL == 0
using M0 = smooth::SO2<S>;
#elif VH_MODEL == 1
using M0 = smooth::SO3<S>;
#elif VH_MODEL == 2
using M0 = smooth::SE2<S>;
#elif VH_MODEL == 3
using M0 = smooth::SE3<S>;
#elif VH_MODEL == 4
using M0 = smooth::C1<S>;
#elif VH_MODEL == 5
using M0 = smooth::Galilei<S>;
#elif VH_MODEL == 6
using M0 = smooth::SE_K_3<S, 2>;
#elif VH_MODEL == 7
using M0 = smooth::Bundle<smooth::SO3<S>, V3, smooth::SE2<S>>;
#elif VH_MODEL == 8
using M0 = V3;
#elif VH_MODEL == 9
using M0 = VX;
#elif VH_MODEL == 10
using M0 = double;
#elif VH_MODEL == 11
using M0 = std::vector<smooth::SO3<S>>;
#elif VH_MODEL == 12
using M0 = std::vector<smooth::SE2<S>>;
#elif VH_MODEL == 13
using M0 = std::vector<VX>;
#elif VH_MODEL == 14
using M0 = std::vector<double>;
#elif VH_MODEL == 15
using M0 = std::vector<std::variant<smooth::SO3<S>, V2, double>>;
#elif VH_MODEL == 16
using M0 = std::vector<std::vector<smooth::SO2<S>>>;
#elif VH_MODEL == 17
using M0 = std::vector<smooth::SubManifold<smooth::SO3<S>>>;
#elif VH_MODEL == 18
using M0 = std::variant<smooth::SO3<S>, double, V2>;
#elif VH_MODEL == 19
using M0 = std::variant<smooth::SE2<S>, std::vector<smooth::SO3<S>>, VX, smooth::SE3<S>>;
#elif VH_MODEL == 20
using M0 = smooth::SubManifold<smooth::SO3<S>>;
#elif VH_MODEL == 21
using M0 = smooth::SubManifold<smooth::SE2<S>>;
#elif VH_MODEL == 22
using M0 = smooth::SubManifold<smooth::SE3<S>>;
#elif VH_MODEL == 23
using M0 = smooth::SubManifold<V4>;
#elif VH_MODEL == 24
using M0 = smooth::SubManifold<smooth::Bundle<smooth::SO2<S>, V2>>;
#elif VH_MODEL == 25
using M0 = smooth::AnyManifold;
using AnyInner = smooth::SO3<S>;
#elif VH_MODEL == 26
using M0 = smooth::AnyManifold;
using AnyInner = smooth::SE3<S>;
#elif VH_MODEL == 27
using M0 = smooth::AnyManifold;
using AnyInner = std::vector<smooth::SE2<S>>;
#elif VH_MODEL == 28
using M0 = smooth::AnyManifold;
using AnyInner = std::variant<smooth::SO3<S>, double, V2>;
#elif VH_MODEL == 29
using M0 = smooth::AnyManifold;
using AnyInner = smooth::SubManifold<smooth::SE2<S>>;
#elif VH_MODEL == 30
using M0 = smooth::SubManifold<std::vector<VX>>;   // run-time dof base, ragged elements
#elif VH_MODEL == 31
using M0 = smooth::AnyManifold;
using AnyInner = std::vector<VX>;
#elif VH_MODEL == 32
using M0 = std::variant<std::vector<VX>, smooth::SO3<S>>;
#else
#error "unknown VH_MODEL"
#endif
// clang-format on
#if VH_MODEL < 25 || VH_MODEL == 30 || VH_MODEL == 32
using AnyInner = double;  // unused
#endif

// ------------------------------------------------------------------------------------------
// Sampling context of one history.  `shape` fixes everything structural (container size, variant
// alternative, fixed dimensions, sizes of dynamic vectors) so that all values of one history are
// rminus-compatible; the numeric content comes from `r`.
struct Sctx
{
  Rng r;          // numeric content
  uint64_t shape; // structural code chosen by the driver
  uint64_t spos;  // position in the structural stream (reset before every value)
  int st, tcls;   // element stratum / translation class proposals
  // shape >= 1000: the first container of run-time-dof elements that is sampled gets >= 3 elements and an element with
  // ZERO degrees of freedom at position zforce (0 first, 1 middle, 2 last); shape % 1000 drives the top-level choice
  int zforce;
  bool make_zero = false;   // the element being sampled must have zero dof
  explicit Sctx(uint64_t seed, uint64_t sh) : r(seed), shape(sh), spos(0), st(7), tcls(1), zforce(sh >= 1000 ? static_cast<int>(sh / 1000 - 1) % 3 : -1) {}
  // deterministic structural choice number k of this shape, in [0, n)
  int schoice(int n)
  {
    if (spos == 0) {  // the first (top-level) choice is the driver's: shape mod n
      ++spos;
      return static_cast<int>((shape % 1000) % static_cast<uint64_t>(n));
    }
    uint64_t x = shape * 0x9E3779B97F4A7C15ull + (++spos) * 0xBF58476D1CE4E5B9ull;
    x ^= x >> 31;
    x *= 0x94D049BB133111EBull;
    x ^= x >> 29;
    return static_cast<int>(x % static_cast<uint64_t>(n));
  }
};

template<typename M>
struct Mod;

// ---------------------------------------------------------------- leaves with a static descriptor
template<typename G>
struct LeafStatic
{
  using D = Desc<G>;
  static Gen gen(std::vector<Field> & f)
  {
    f.clear();
    D::fields(f, 0, 0);
    return Gen{f, D::Rep, D::Dofs, false};
  }
  static void json(std::string & o, const G & g)
  {
    std::vector<double> c(static_cast<std::size_t>(D::Rep));
    D::get(g, c.data());
    o += "{\"t\":\"L\",\"g\":" + D::json() + ",\"c\":";
    qvec(o, c);
    o += '}';
  }
  static G sample(Sctx & s)
  {
    std::vector<Field> f;
    const Gen g = gen(f);
    const auto c = g.element(s.r, s.st, s.tcls);
    G out        = smooth::Default<G>(D::Dofs);
    D::set(out, c.data());
    return out;
  }
  static void propose(Sctx & s, const G &, int st, int tcls, int dircls, std::vector<double> & out)
  {
    std::vector<Field> f;
    const Gen g  = gen(f);
    const auto a = g.tangent(s.r, st, tcls, dircls, 9);
    out.insert(out.end(), a.begin(), a.end());
  }
  static void wit(std::string & o, const G &, const G &) { o += '0'; }
  static void mutate(G & obj, const G & nv)
  {
    if constexpr (requires { obj.coeffs(); }) {
      for (int i = 0; i < D::Rep; ++i) obj.coeffs()(i) = nv.coeffs()(i);
    } else {
      obj = nv;
    }
  }
};

template<typename Sc>
struct Mod<smooth::SO2<Sc>> : LeafStatic<smooth::SO2<Sc>> {};
template<typename Sc>
struct Mod<smooth::SO3<Sc>> : LeafStatic<smooth::SO3<Sc>> {};
template<typename Sc>
struct Mod<smooth::SE2<Sc>> : LeafStatic<smooth::SE2<Sc>> {};
template<typename Sc>
struct Mod<smooth::SE3<Sc>> : LeafStatic<smooth::SE3<Sc>> {};
template<typename Sc>
struct Mod<smooth::C1<Sc>> : LeafStatic<smooth::C1<Sc>> {};
template<typename Sc>
struct Mod<smooth::Galilei<Sc>> : LeafStatic<smooth::Galilei<Sc>> {};
template<typename Sc, int K>
struct Mod<smooth::SE_K_3<Sc, K>> : LeafStatic<smooth::SE_K_3<Sc, K>> {};
template<typename... Gs>
struct Mod<smooth::Bundle<Gs...>> : LeafStatic<smooth::Bundle<Gs...>> {};
template<int N>
struct Mod<Eigen::Matrix<double, N, 1>> : LeafStatic<Eigen::Matrix<double, N, 1>> {};
template<>
struct Mod<double> : LeafStatic<double> {};

// ---------------------------------------------------------------- dynamic vector (size 0..4 from the shape)
template<>
struct Mod<VX>
{
  static void json(std::string & o, const VX & g)
  {
    o += "{\"t\":\"L\",\"g\":{\"k\":\"R\",\"n\":" + std::to_string(g.size()) + "},\"c\":";
    qvec(o, g);
    o += '}';
  }
  static void fill(Sctx & s, int tcls, Eigen::Index n, std::vector<double> & out)
  {
    for (Eigen::Index i = 0; i < n; ++i) {
      double x = 0;
      if (tcls == 1) x = s.r.uni(-1, 1);
      if (tcls == 2) x = s.r.uni(-1e3, 1e3);
      out.push_back(x);
    }
  }
  static constexpr bool can_zero = true;
  static VX sample(Sctx & s)
  {
    int n = s.schoice(5);
    if (s.make_zero) {
      n           = 0;
      s.make_zero = false;
    }
    std::vector<double> c;
    fill(s, s.tcls == 0 ? 1 : s.tcls, n, c);
    VX out(n);
    for (int i = 0; i < n; ++i) out(i) = c[static_cast<std::size_t>(i)];
    return out;
  }
  static void propose(Sctx & s, const VX & m, int, int tcls, int, std::vector<double> & out) { fill(s, tcls, m.size(), out); }
  static void wit(std::string & o, const VX &, const VX &) { o += '0'; }
  static void mutate(VX & obj, const VX & nv)
  {
    for (Eigen::Index i = 0; i < obj.size() && i < nv.size(); ++i) obj(i) = nv(i);
  }
};

// ---------------------------------------------------------------- std::vector<M>
template<typename M>
struct Mod<std::vector<M>>
{
  using T = std::vector<M>;
  static void json(std::string & o, const T & m)
  {
    o += "{\"t\":\"V\",\"e\":[";
    for (std::size_t i = 0; i < m.size(); ++i) {
      if (i) o += ',';
      Mod<M>::json(o, m[i]);
    }
    o += "]}";
  }
  static constexpr bool can_zero = true;
  static T sample(Sctx & s)
  {
    int n = s.schoice(5);  // sizes 0..4
    if (s.make_zero) {     // this vector is the element that must have zero dof: empty
      s.make_zero = false;
      return T{};
    }
    int zidx = -1;
    if constexpr (requires { Mod<M>::can_zero; }) {
      if (s.zforce >= 0) {
        if (n < 3) n = 3;
        zidx     = s.zforce == 0 ? 0 : s.zforce == 2 ? n - 1 : n / 2;
        s.zforce = -1;
      }
    }
    T out;
    for (int i = 0; i < n; ++i) {
      s.make_zero = (i == zidx);
      out.push_back(Mod<M>::sample(s));
      s.make_zero = false;
    }
    return out;
  }
  static void propose(Sctx & s, const T & m, int st, int tcls, int dircls, std::vector<double> & out)
  {
    for (const auto & mi : m) Mod<M>::propose(s, mi, st, tcls, dircls, out);
  }
  static void wit(std::string & o, const T & x, const T & y)
  {
    o += '[';
    for (std::size_t i = 0; i < x.size() && i < y.size(); ++i) {
      if (i) o += ',';
      Mod<M>::wit(o, x[i], y[i]);
    }
    o += ']';
  }
  static void mutate(T & obj, const T & nv)
  {
    for (std::size_t i = 0; i < obj.size() && i < nv.size(); ++i) Mod<M>::mutate(obj[i], nv[i]);
  }
};

// ---------------------------------------------------------------- std::variant<Ms...>
template<typename... Ms>
struct Mod<std::variant<Ms...>>
{
  using T = std::variant<Ms...>;
  static void json(std::string & o, const T & m)
  {
    o += "{\"t\":\"W\",\"alt\":" + std::to_string(m.index()) + ",\"v\":";
    std::visit([&o]<typename Mi>(const Mi & x) { Mod<Mi>::json(o, x); }, m);
    o += '}';
  }
  template<std::size_t I = 0>
  static T sample_alt(Sctx & s, std::size_t k)
  {
    if constexpr (I < sizeof...(Ms)) {
      if (k == I) return T(std::in_place_index<I>, Mod<std::variant_alternative_t<I, T>>::sample(s));
      return sample_alt<I + 1>(s, k);
    } else {
      std::abort();
    }
  }
  static T sample(Sctx & s) { return sample_alt(s, static_cast<std::size_t>(s.schoice(sizeof...(Ms)))); }
  static void propose(Sctx & s, const T & m, int st, int tcls, int dircls, std::vector<double> & out)
  {
    std::visit([&]<typename Mi>(const Mi & x) { Mod<Mi>::propose(s, x, st, tcls, dircls, out); }, m);
  }
  static void wit(std::string & o, const T & x, const T & y)
  {
    if (x.index() != y.index()) {
      o += '0';
      return;
    }
    std::visit([&]<typename Mi>(const Mi & xi) { Mod<Mi>::wit(o, xi, std::get<Mi>(y)); }, x);
  }
  static void mutate(T & obj, const T & nv)
  {
    if (obj.index() != nv.index()) {
      obj = nv;
      return;
    }
    std::visit([&]<typename Mi>(Mi & xi) { Mod<Mi>::mutate(xi, std::get<Mi>(nv)); }, obj);
  }
};

// ---------------------------------------------------------------- SubManifold<M>
// shape: the low bits of the structural choice are the bit mask of the fixed dimensions; the origin
// m0 is a function of the shape only (all values of a history share it), the value m is free.
template<typename M>
struct Mod<smooth::SubManifold<M>>
{
  using T = smooth::SubManifold<M>;
  static void json(std::string & o, const T & m)
  {
    o += "{\"t\":\"S\",\"m0\":";
    Mod<M>::json(o, m.m0());
    o += ",\"m\":";
    Mod<M>::json(o, m.m());
    o += ",\"fixed\":[";
    for (Eigen::Index i = 0; i < m.fixed_dims().size(); ++i) {
      if (i) o += ',';
      o += std::to_string(m.fixed_dims()(i));
    }
    o += "]}";
  }
  static T sample(Sctx & s)
  {
    constexpr int D = smooth::Dof<M>;
    if constexpr (D > 0) {
      const int mask = s.schoice(1 << D);
      // origin: numeric content from the shape alone
      Sctx s0(s.shape * 2654435761ull + s.spos, s.shape);
      s0.spos = s.spos;
      s0.st   = static_cast<int>(s.shape % 8);
      s0.tcls = 1;
      const M m0 = Mod<M>::sample(s0);
      const M m  = Mod<M>::sample(s);
      std::vector<int> fx;
      for (int i = D - 1; i >= 0; --i)  // handed over in decreasing order: the constructor sorts
        if (mask & (1 << i)) fx.push_back(i);
      Eigen::VectorXi fixed(static_cast<Eigen::Index>(fx.size()));
      for (std::size_t i = 0; i < fx.size(); ++i) fixed(static_cast<Eigen::Index>(i)) = fx[i];
      return T(m0, m, fixed);
    } else {
      // run-time dof base: structure (and with it the dof) from the shape stream, then one hashed bit per dimension
      Sctx s0(s.shape * 2654435761ull + 77, s.shape);
      s0.spos = s.spos;
      s0.st   = static_cast<int>(s.shape % 8);
      s0.tcls = 1;
      const M m0 = Mod<M>::sample(s0);
      const M m  = Mod<M>::sample(s);   // same structural stream as m0
      // number of dimensions counted structurally by the harness (NOT through the library's dof(), which is under test)
      std::vector<double> cnt;
      {
        Sctx sc(1, s.shape);
        Mod<M>::propose(sc, m0, 0, 0, 0, cnt);
      }
      const int n = static_cast<int>(cnt.size());
      std::vector<int> fx;
      for (int i = 0; i < n; ++i)
        if (s.schoice(3) == 0) fx.push_back(i);
      Eigen::VectorXi fixed(static_cast<Eigen::Index>(fx.size()));
      for (std::size_t i = 0; i < fx.size(); ++i) fixed(static_cast<Eigen::Index>(fx.size() - 1 - i)) = fx[i];   // decreasing
      return T(m0, m, fixed);
    }
  }
  static void propose(Sctx & s, const T & m, int st, int tcls, int dircls, std::vector<double> & out)
  {
    std::vector<double> full;
    Mod<M>::propose(s, m.m0(), st, tcls, dircls, full);
    for (std::size_t i = 0; i < full.size(); ++i) {
      bool is_fixed = false;
      for (Eigen::Index k = 0; k < m.fixed_dims().size(); ++k) is_fixed = is_fixed || (m.fixed_dims()(k) == static_cast<int>(i));
      if (!is_fixed) out.push_back(full[i]);
    }
  }
  static void wit(std::string & o, const T & x, const T & y)
  {
    const Eigen::VectorXd full = smooth::rminus(x.m(), y.m());
    o += "{\"full\":";
    qvec(o, full);
    o += ",\"in\":";
    Mod<M>::wit(o, x.m(), y.m());
    o += '}';
  }
  static void mutate(T & obj, const T & nv) { obj = nv; }
};

// ---------------------------------------------------------------- AnyManifold over AnyInner
template<>
struct Mod<smooth::AnyManifold>
{
  using T = smooth::AnyManifold;
  using I = AnyInner;
  static void json(std::string & o, const T & m)
  {
    o += "{\"t\":\"A\",\"v\":";
    Mod<I>::json(o, m.template get<I>());
    o += '}';
  }
  static T sample(Sctx & s) { return T(Mod<I>::sample(s)); }
  static void propose(Sctx & s, const T & m, int st, int tcls, int dircls, std::vector<double> & out)
  {
    Mod<I>::propose(s, m.template get<I>(), st, tcls, dircls, out);
  }
  static void wit(std::string & o, const T & x, const T & y) { Mod<I>::wit(o, x.template get<I>(), y.template get<I>()); }
  // through the mutable reference handed out by get<M>(): this is what a shared pointer would leak
  static void mutate(T & obj, const T & nv) { Mod<I>::mutate(obj.template get<I>(), nv.template get<I>()); }
};

// ------------------------------------------------------------------------------------------
// A signal raised while a step executes (out-of-bounds access inside the library, ...) is RECORDED as the last
// event of the trace ({"op":"crash",...}: history, step text, signal) and the process exits with code 4; the
// driver resumes behind the crashed history.  Only async-signal-safe calls below.
#include <csignal>
static char g_pending[256] = "";   // "<hid> <step text>" of the step being executed
static int g_trace_fd      = -1;
static void crash_handler(int sig)
{
  if (g_trace_fd >= 0) {
    char buf[512];
    int n = 0;
    const char * a = "{\"op\":\"crash\",\"sig\":";
    for (const char * p = a; *p; ++p) buf[n++] = *p;
    if (sig >= 10) buf[n++] = static_cast<char>('0' + sig / 10);
    buf[n++] = static_cast<char>('0' + sig % 10);
    const char * b = ",\"step\":\"";
    for (const char * p = b; *p; ++p) buf[n++] = *p;
    for (const char * p = g_pending; *p && n < 500; ++p) buf[n++] = *p;
    buf[n++] = '"';
    buf[n++] = '}';
    buf[n++] = '\n';
    ssize_t w = ::write(g_trace_fd, buf, static_cast<size_t>(n));
    (void)w;
  }
  _exit(4);
}

template<typename M>
struct Run
{
  static constexpr bool kIsAny = std::is_same_v<M, smooth::AnyManifold>;
  using Tan                    = smooth::Tangent<M>;

  Sink sink;
  uint64_t seed = 1;
  long hid      = 0;
  uint64_t shape = 0;
  std::map<int, std::unique_ptr<M>> objs;
  std::map<std::string, std::unique_ptr<M>> vals;

  static uint64_t mix(uint64_t a, uint64_t b)
  {
    uint64_t x = a * 0x9E3779B97F4A7C15ull ^ (b + 0x7F4A7C15ull) * 0xD6E8FEB86659FD93ull;
    x ^= x >> 32;
    x *= 0xD6E8FEB86659FD93ull;
    x ^= x >> 29;
    return x;
  }
  static int symcode(const std::string & s)
  {
    int c = 0;
    for (char ch : s) c = c * 131 + ch;
    return c;
  }

  const M & value(const std::string & sym)
  {
    auto it = vals.find(sym);
    if (it != vals.end()) return *it->second;
    Sctx s(mix(mix(seed, static_cast<uint64_t>(hid)), static_cast<uint64_t>(symcode(sym))), shape);
    const long k = hid + symcode(sym);
    s.st         = static_cast<int>(k % kNumElemStrata);
    s.tcls       = static_cast<int>((k / kNumElemStrata) % 3);
    vals[sym]    = std::make_unique<M>(Mod<M>::sample(s));
    return *vals[sym];
  }

  // tangent for object m: length = the library's dof(m); content = structural proposal
  Tan tangent(const M & m, const std::string & sym, int salt)
  {
    const Eigen::Index n = smooth::dof(m);
    std::vector<double> prop;
    if (sym != "Z") {
      Sctx s(mix(mix(seed, static_cast<uint64_t>(hid) * 977 + static_cast<uint64_t>(salt)), static_cast<uint64_t>(symcode(sym)) + 17), shape);
      const long k     = hid * 3 + symcode(sym) + salt;
      // rotation strata S00..S09 (theta <= pi - 1e-5) for T/U; "W" is wild: any stratum incl. beyond pi
      const int st     = sym == "W" ? static_cast<int>(k % kNumThetaStrata) : static_cast<int>(k % 10);
      const int tcls   = static_cast<int>((k / 10) % 3);
      const int dircls = static_cast<int>((k / 30) % 4);
      Mod<M>::propose(s, m, st, tcls, dircls, prop);
    }
    Tan a(n);
    for (Eigen::Index i = 0; i < n; ++i) a(i) = static_cast<std::size_t>(i) < prop.size() ? prop[static_cast<std::size_t>(i)] : 0.0;
    return a;
  }

  Ev ev(const char * op)
  {
    Ev e;
    e.str("op", op).num("model", VH_MODEL).num("h", hid).num("shape", static_cast<long>(shape));
    return e;
  }
  static std::string tree(const M & m)
  {
    std::string o;
    Mod<M>::json(o, m);
    return o;
  }
  static std::string witness(const M & x, const M & y)
  {
    std::string o;
    Mod<M>::wit(o, x, y);
    return o;
  }
  void finish(Ev & e)
  {
    std::string o = "{";
    bool first    = true;
    for (const auto & [id, p] : objs) {
      if (!first) o += ',';
      first = false;
      o += "\"" + std::to_string(id) + "\":";
      Mod<M>::json(o, *p);
    }
    o += '}';
    e.raw("obs", o);
    sink.emit(e);
  }
  M & obj(int id)
  {
    auto it = objs.find(id);
    if (it == objs.end()) {
      std::fprintf(stderr, "program error: object %d not live (history %ld)\n", id, hid);
      std::exit(2);
    }
    return *it->second;
  }

  int step(const std::vector<std::string> & w)
  {
    const std::string & op = w[0];
    auto I                 = [&](std::size_t k) { return std::atoi(w.at(k).c_str()); };
    if (op == "begin") {
      hid   = std::atol(w.at(1).c_str());
      shape = std::strtoull(w.at(2).c_str(), nullptr, 10);
      objs.clear();
      vals.clear();
      auto e = ev("begin");
      sink.emit(e);
    } else if (op == "end") {
      objs.clear();
    } else if (op == "reshape") {
      // later values of this history are sampled with another structural code (container size, variant alternative,
      // fixed dimensions): objects of DIFFERENT dof then meet in one history (copy assignment across dofs); no event
      shape = std::strtoull(w.at(1).c_str(), nullptr, 10);
    } else if (op == "construct") {
      const M & v = value(w.at(2));
      objs[I(1)]  = std::make_unique<M>(v);
      auto e      = ev("construct");
      e.num("dst", I(1)).str("sym", w[2]).raw("val", tree(v));
      finish(e);
    } else if (op == "copy") {
      objs[I(1)] = std::make_unique<M>(obj(I(2)));  // copy constructor
      auto e     = ev("copy");
      e.num("dst", I(1)).num("src", I(2));
      finish(e);
    } else if (op == "assign") {
      obj(I(1)) = obj(I(2));  // copy assignment
      auto e    = ev("assign");
      e.num("dst", I(1)).num("src", I(2));
      finish(e);
    } else if (op == "cast") {
      if constexpr (!kIsAny) {
        objs[I(1)] = std::make_unique<M>(smooth::cast<double>(obj(I(2))));
        auto e     = ev("cast");
        e.num("dst", I(1)).num("src", I(2));
        finish(e);
      } else {
        std::fprintf(stderr, "program error: cast on AnyManifold\n");
        return 2;
      }
    } else if (op == "rplus") {
      const Tan a = tangent(obj(I(2)), w.at(3), 0);
      M out       = smooth::rplus(obj(I(2)), a);
      auto e      = ev("rplus");
      e.num("dst", I(1)).num("src", I(2)).str("sym", w[3]).vec("a", a).raw("out", tree(out));
      objs[I(1)] = std::make_unique<M>(std::move(out));
      finish(e);
    } else if (op == "rminus") {
      const Eigen::VectorXd d = smooth::rminus(obj(I(1)), obj(I(2)));
      auto e                  = ev("rminus");
      e.num("x", I(1)).num("y", I(2)).vec("d", d).raw("wit", witness(obj(I(1)), obj(I(2))));
      finish(e);
    } else if (op == "mutate") {
      const M & v = value(w.at(2));
      Mod<M>::mutate(obj(I(1)), v);
      auto e = ev("mutate");
      e.num("id", I(1)).str("sym", w[2]).raw("val", tree(v));
      finish(e);
    } else if (op == "dof") {
      auto e = ev("dof");
      e.num("id", I(1)).num("dof", static_cast<long>(smooth::dof(obj(I(1)))));
      finish(e);
    } else if (op == "rt1") {
      // rminus(rplus(m, a), m)
      const M & m             = obj(I(1));
      const Tan a             = tangent(m, w.at(2), 1);
      const M p               = smooth::rplus(m, a);
      const Eigen::VectorXd d = smooth::rminus(p, m);
      auto e                  = ev("rt1");
      e.num("x", I(1)).str("sym", w[2]).vec("a", a).raw("p", tree(p)).vec("d", d).raw("wit", witness(p, m));
      e.num("pdof", static_cast<long>(smooth::dof(p)));
      finish(e);
    } else if (op == "rt2" || op == "rt2t") {
      // rplus(m, rminus(m2, m)) with m2 another object (rt2) or m2 := rplus(m, b) (rt2t)
      const M & m = obj(I(1));
      std::unique_ptr<M> tmp;
      const M * m2 = nullptr;
      auto e       = ev(op.c_str());
      e.num("x", I(1));
      if (op == "rt2") {
        m2 = &obj(I(2));
        e.num("y", I(2));
      } else {
        const Tan b = tangent(m, w.at(2), 2);
        tmp         = std::make_unique<M>(smooth::rplus(m, b));
        m2          = tmp.get();
        e.str("sym", w[2]).vec("b", b);
      }
      const Eigen::VectorXd d = smooth::rminus(*m2, m);
      const Tan dd            = d;
      const M q               = smooth::rplus(m, dd);
      e.raw("m2", tree(*m2)).vec("d", d).raw("q", tree(q)).raw("wit", witness(*m2, m));
      finish(e);
    } else if (op == "twin") {
      // the same operations on two objects that the history made equal
      const M & x              = obj(I(1));
      const M & y              = obj(I(2));
      const Tan a              = tangent(x, w.at(3), 3);
      const M px               = smooth::rplus(x, a);
      const M py               = smooth::rplus(y, a);
      const Eigen::VectorXd dx = smooth::rminus(px, x);
      const Eigen::VectorXd dy = smooth::rminus(py, y);
      auto e                   = ev("twin");
      e.num("x", I(1)).num("y", I(2)).vec("a", a).raw("px", tree(px)).raw("py", tree(py)).vec("dx", dx).vec("dy", dy);
      e.num("dofx", static_cast<long>(smooth::dof(x))).num("dofy", static_cast<long>(smooth::dof(y)));
      finish(e);
    } else {
      std::fprintf(stderr, "unknown op %s\n", op.c_str());
      return 2;
    }
    return 0;
  }

  int main_(int argc, char ** argv)
  {
    install_handlers();
    const std::string out  = arg(argc, argv, "--out", "");
    const std::string prog = arg(argc, argv, "--prog", "");
    seed                   = std::strtoull(arg(argc, argv, "--seed", "1").c_str(), nullptr, 10);
    if (out.empty() || prog.empty() || !sink.open(out)) {
      std::fprintf(stderr, "usage: manifold --prog <file> --out <file> [--seed n]\n");
      return 2;
    }
    current_sink() = &sink;
    std::setvbuf(sink.f, nullptr, _IONBF, 0);   // unbuffered: the crash record must come after everything written
    g_trace_fd = ::fileno(sink.f);
    for (int sg : {SIGSEGV, SIGBUS, SIGFPE, SIGILL, SIGABRT}) std::signal(sg, crash_handler);
    FILE * pf      = std::fopen(prog.c_str(), "r");
    if (!pf) return 2;
    char line[512];
    while (std::fgets(line, sizeof line, pf)) {
      std::vector<std::string> w;
      std::istringstream is(line);
      std::string t;
      while (is >> t) w.push_back(t);
      if (w.empty() || w[0][0] == '#') continue;
      {
        std::string pend = std::to_string(w[0] == "begin" ? std::atol(w.at(1).c_str()) : hid);
        for (const auto & t2 : w) pend += " " + t2;
        std::snprintf(g_pending, sizeof g_pending, "%s", pend.c_str());
      }
      const int rc = step(w);
      if (rc != 0) return rc;
    }
    std::fclose(pf);
    sink.close();
    return 0;
  }
};

int main(int argc, char ** argv)
{
  Run<M0> r;
  return r.main_(argc, argv);
}
