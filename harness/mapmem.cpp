// Conformance harness, family "mapmem" (property C16): replays TLC-generated histories of
// operations on value objects, Map<G> and Map<const G> views that share ONE block of memory,
// and records - exactly - what every call did to that memory and what it returned.
//
// Memory = [ buffer of NB = 2*RepSize+8 scalars | guard | value object V0 | guard | value object V1 | guard ].
// The views P0..P3 live in the buffer at the offsets chosen by the design model (spec/MapMem.tla):
// guard, guard+1 scalar (unaligned), overlapping P0 by one part, and one disjoint position.
// The value objects are real G objects constructed in place so that their surroundings can be
// watched as well.
//
// For every step the harness
//   1. snapshots the whole memory (payload + guards),
//   2. executes the same call on fresh VALUE objects holding the operands' coefficients (reference),
//   3. executes the call through the views / objects named by the step,
//   4. snapshots again and records the cells whose bit pattern changed ("diff"), the reference and
//      every returned value as exact number quadruples.
// It never judges anything: spec/TraceMap.tla decides frame conditions, verbatim copies, casts and
// view/value agreement from the recorded data.
//
// With -fsanitize=address every byte of the memory block outside the operands of the current call
// is poisoned during the call, so that any access outside the viewed ranges is reported.
#include <smooth/bundle.hpp>
#include <smooth/c1.hpp>
#include <smooth/galilei.hpp>
#include <smooth/se2.hpp>
#include <smooth/se3.hpp>
#include <smooth/se_k_3.hpp>
#include <smooth/so2.hpp>
#include <smooth/so3.hpp>

#include <array>
#include <csignal>
#include <map>
#include <new>
#include <utility>

#include "common.hpp"
#include "lie_desc.hpp"

#if defined(__SANITIZE_ADDRESS__)
#define VH_ASAN 1
#elif defined(__has_feature)
#if __has_feature(address_sanitizer)
#define VH_ASAN 1
#endif
#endif
#ifdef VH_ASAN
#include <sanitizer/asan_interface.h>
#endif

using namespace vh;

#ifndef VH_SCALAR
#define VH_SCALAR double
#endif
using S = VH_SCALAR;
using Other = std::conditional_t<std::is_same_v<S, double>, float, double>;

// clang-format off
#if VH_TYPE == 0
using G0 = smooth::SO2<S>;
#elif VH_TYPE == 1
using G0 = smooth::SO3<S>;
#elif VH_TYPE == 2
using G0 = smooth::SE2<S>;
#elif VH_TYPE == 3
using G0 = smooth::SE3<S>;
#elif VH_TYPE == 4
using G0 = smooth::C1<S>;
#elif VH_TYPE == 5
using G0 = smooth::Galilei<S>;
#elif VH_TYPE == 6
using G0 = smooth::SE_K_3<S, 2>;
#elif VH_TYPE == 7
using G0 = smooth::SE_K_3<S, 3>;
#elif VH_TYPE == 8
using G0 = smooth::Bundle<smooth::SE2<S>, Eigen::Matrix<S, 2, 1>, smooth::SO3<S>>;
#elif VH_TYPE == 9
using G0 = smooth::Bundle<smooth::SO2<S>, smooth::SO3<S>, smooth::SE2<S>, Eigen::Matrix<S, 2, 1>, smooth::SE3<S>>;
#elif VH_TYPE == 10
using G0 = smooth::Bundle<smooth::Bundle<smooth::SO3<S>, Eigen::Matrix<S, 2, 1>>, smooth::C1<S>, smooth::Galilei<S>>;
#else
#error "unknown VH_TYPE"
#endif
// clang-format on

// ------------------------------------------------------------------ sub-part tables (names only;
// the offsets and lengths are the specification's business)

template<typename G>
struct PT
{
  static constexpr int N = 0;
  static std::string name(int) { return "?"; }
};

template<typename T>
struct PT<smooth::SE2<T>>
{
  static constexpr int N = 2;
  static std::string name(int i) { return i == 0 ? "r2" : "so2"; }
  template<int I, typename V>
  static auto get(V && v, bool)
  {
    if constexpr (I == 0) return v.r2();
    else return v.so2();
  }
};
template<typename T>
struct PT<smooth::SE3<T>>
{
  static constexpr int N = 2;
  static std::string name(int i) { return i == 0 ? "r3" : "so3"; }
  template<int I, typename V>
  static auto get(V && v, bool)
  {
    if constexpr (I == 0) return v.r3();
    else return v.so3();
  }
};
template<typename T>
struct PT<smooth::Galilei<T>>
{
  static constexpr int N = 4;
  static std::string name(int i)
  {
    static const char * n[] = {"r3_v", "r3_p", "r1_t", "so3"};
    return n[i];
  }
  template<int I, typename V>
  static auto get(V && v, bool)
  {
    if constexpr (I == 0) return v.r3_v();
    else if constexpr (I == 1) return v.r3_p();
    else if constexpr (I == 2) return v.r1_t();
    else return v.so3();
  }
};
template<typename T, int K>
struct PT<smooth::SE_K_3<T, K>>
{
  static constexpr int N = K + 1;
  static std::string name(int i) { return i < K ? "r3<" + std::to_string(i) + ">" : "so3"; }
  // alt: the run-time-index accessor r3(k) instead of r3<k>()
  template<int I, typename V>
  static auto get(V && v, bool alt)
  {
    if constexpr (I < K) {
      if (alt) return v.r3(I);
      return v.template r3<I>();
    } else {
      return v.so3();
    }
  }
};
template<typename... Gs>
struct PT<smooth::Bundle<Gs...>>
{
  static constexpr int NP = sizeof...(Gs);
  static constexpr std::array<int, NP> inner{PT<Gs>::N...};
  static constexpr int N = (NP + ... + PT<Gs>::N);
  struct Loc
  {
    int part, in;
  };
  static constexpr Loc locate(int I)
  {
    int k = 0;
    for (int p = 0; p < NP; ++p) {
      if (I == k) return {p, -1};
      ++k;
      if (I < k + inner[static_cast<std::size_t>(p)]) return {p, I - k};
      k += inner[static_cast<std::size_t>(p)];
    }
    return {-1, -1};
  }
  static std::string name(int I)
  {
    const Loc l   = locate(I);
    std::string s = "part<" + std::to_string(l.part) + ">";
    if (l.in >= 0) {
      int p = 0;
      ((p++ == l.part ? (s += "." + PT<Gs>::name(l.in), 0) : 0), ...);
    }
    return s;
  }
  template<int I, typename V>
  static auto get(V && v, bool alt)
  {
    constexpr Loc l = locate(I);
    auto part       = v.template part<l.part>();
    if constexpr (l.in < 0) {
      return part;
    } else {
      using PG = std::tuple_element_t<static_cast<std::size_t>(l.part), std::tuple<Gs...>>;
      return PT<PG>::template get<l.in>(part, alt);
    }
  }
};

// ------------------------------------------------------------------ from-parts constructors
// G(part_1, ..., part_m) constructed in place at p; the parts are the sub-part views of s ("view": Map / const-Map /
// views into a value object) or value objects of the part types holding the same coefficients ("plain").
// Only the constructors documented as plain copies of their parts (not: from quaternion / angle / complex / transform).
template<typename G>
struct Ctor;
template<typename T>
struct Ctor<smooth::SE2<T>>
{
  template<typename V>
  static void make(void * p, V & s, bool plain)
  {
    using G = smooth::SE2<T>;
    if (plain) {
      const smooth::SO2<T> a(s.so2());
      const Eigen::Matrix<T, 2, 1> b = s.r2();
      new (p) G(a, b);
    } else {
      new (p) G(s.so2(), s.r2());
    }
  }
};
template<typename T>
struct Ctor<smooth::SE3<T>>
{
  template<typename V>
  static void make(void * p, V & s, bool plain)
  {
    using G = smooth::SE3<T>;
    if (plain) {
      const smooth::SO3<T> a(s.so3());
      const Eigen::Matrix<T, 3, 1> b = s.r3();
      new (p) G(a, b);
    } else {
      new (p) G(s.so3(), s.r3());
    }
  }
};
template<typename T>
struct Ctor<smooth::Galilei<T>>
{
  template<typename V>
  static void make(void * p, V & s, bool plain)
  {
    using G = smooth::Galilei<T>;
    if (plain) {
      const smooth::SO3<T> a(s.so3());
      const Eigen::Matrix<T, 3, 1> v = s.r3_v(), x = s.r3_p();
      new (p) G(a, v, x, static_cast<double>(s.r1_t().x()));
    } else {
      new (p) G(s.so3(), s.r3_v(), s.r3_p(), static_cast<double>(s.r1_t().x()));
    }
  }
};
template<typename T, int K>
struct Ctor<smooth::SE_K_3<T, K>>
{
  template<typename V>
  static void make(void * p, V & s, bool plain)
  {
    using G = smooth::SE_K_3<T, K>;
    [&]<int... Is>(std::integer_sequence<int, Is...>) {
      if (plain) {
        const smooth::SO3<T> a(s.so3());
        new (p) G(a, Eigen::Matrix<T, 3, 1>(s.template r3<Is>())...);
      } else {
        new (p) G(s.so3(), s.template r3<Is>()...);
      }
    }(std::make_integer_sequence<int, K>{});
  }
};
template<typename... Gs>
struct Ctor<smooth::Bundle<Gs...>>
{
  template<typename V>
  static void make(void * p, V & s, bool plain)
  {
    using G = smooth::Bundle<Gs...>;
    [&]<std::size_t... Is>(std::index_sequence<Is...>) {
      if (plain) new (p) G(typename G::template PartType<Is>(s.template part<Is>())...);
      else new (p) G(s.template part<Is>()...);
    }(std::make_index_sequence<sizeof...(Gs)>{});
  }
};

template<typename SV>
concept LieView = requires(const SV & s) {
  s.coeffs();
  s.inverse();
};

template<typename SV>
struct PlainOf
{
  using type = Eigen::Matrix<typename SV::Scalar, SV::SizeAtCompileTime, 1>;
};
template<LieView SV>
struct PlainOf<SV>
{
  using type = typename SV::PlainObject;
};

template<typename X>
static std::vector<double> cells_of(const X & x)
{
  std::vector<double> r;
  if constexpr (LieView<X>) {
    for (Eigen::Index i = 0; i < x.coeffs().size(); ++i) r.push_back(static_cast<double>(x.coeffs()(i)));
  } else {
    for (Eigen::Index i = 0; i < x.size(); ++i) r.push_back(static_cast<double>(x(i)));
  }
  return r;
}
template<typename D>
static std::vector<double> flat(const Eigen::MatrixBase<D> & M)
{
  std::vector<double> r;
  for (Eigen::Index i = 0; i < M.rows(); ++i)
    for (Eigen::Index j = 0; j < M.cols(); ++j) r.push_back(static_cast<double>(M(i, j)));
  return r;
}

using Results = std::vector<std::pair<std::string, std::vector<double>>>;

// a call that crashes (e.g. an aligned load on an unaligned view) is recorded as such: the step in progress
// is named in a final CRASH event and the driver reports it (the reference call on value objects ran before)
static volatile long g_cur_h = -1;
static volatile int g_cur_k  = 0;
static void on_signal(int sig)
{
  Sink * s = current_sink();
  if (s && s->f) {
    std::fprintf(s->f, "{\"op\":\"CRASH\",\"sig\":%d,\"h\":%ld,\"k\":%d}\n", sig, g_cur_h, g_cur_k);
    std::fflush(s->f);
  }
  _exit(4);
}

static std::string results_json(const Results & r)
{
  std::string s = "{";
  bool first    = true;
  for (const auto & [k, v] : r) {
    if (!first) s += ',';
    first = false;
    s += '"';
    s += k;
    s += "\":";
    qvec(s, v);
  }
  return s + "}";
}

// ------------------------------------------------------------------ the machine

template<typename G>
struct Machine
{
  static constexpr int R   = G::RepSize;
  static constexpr int DOF = G::Dof;
  using Tan                = Eigen::Matrix<S, DOF, 1>;
  using Dsc                = Desc<G>;
  static_assert(sizeof(G) == sizeof(S) * R, "value object is exactly its coefficients");

  enum Kind { NONE = 0, VAL = 1, MAP = 2, CMAP = 3 };
  struct View
  {
    Kind k = NONE;
    std::string v = "-";
    int p         = -1;
  };
  struct Step
  {
    std::string op, part, x;
    View d, s, o;
  };

  // geometry
  int NB = 0, NC = 0;
  std::map<std::string, int> pos;
  S * mem = nullptr;
  std::vector<S> pre, post;
  Sink sink;
  std::string gj, sc;
  long hid = 0;
  int via  = 0;   // 0 direct, 1 copy-constructed Map, 2 move-constructed Map
  bool alt = false;
  uint64_t seed = 1;

  // ---------------------------------------------------------------- memory
  void setup(int nb, const std::map<std::string, int> & bufpos)
  {
    NB  = nb;
    pos = bufpos;
    // value objects behind the buffer, each aligned as the compiler wants a G, >= 2 guard cells around
    const int al = std::max<int>(1, static_cast<int>(alignof(G) / sizeof(S)));
    auto up      = [al](int x) { return (x + al - 1) / al * al; };
    pos["V0"]    = up(NB + 2);
    pos["V1"]    = up(pos["V0"] + R + 2);
    NC           = pos["V1"] + R + 2;
    mem          = static_cast<S *>(std::aligned_alloc(64, static_cast<std::size_t>((NC * static_cast<int>(sizeof(S)) + 63) / 64 * 64)));
    pre.resize(static_cast<std::size_t>(NC));
    post.resize(static_cast<std::size_t>(NC));
    for (int i = 0; i < NC; ++i) mem[i] = S(0);
    new (mem + pos["V0"]) G;
    new (mem + pos["V1"]) G;
  }

  void put(int p, const G & g)
  {
    for (int i = 0; i < R; ++i) mem[p + i] = g.coeffs()(i);
  }
  static G value_from(const S * cells)
  {
    G g;
    std::memcpy(static_cast<void *>(g.data()), cells, sizeof(S) * R);
    return g;
  }

  void fill(int mode)
  {
    // sentinels everywhere (distinct, exactly representable in float), then group elements where views start
    for (int i = 0; i < NC; ++i) mem[i] = static_cast<S>(1000 + i) + S(0.5);
    auto rnd = [&]() {
      G g;
      g.setRandom();
      return g;
    };
    if (mode == 3) {
      // arbitrary finite coefficients (the property quantifies over all coefficient contents)
      for (const char * v : {"P0", "P3", "V0", "V1"})
        for (int i = 0; i < R; ++i) mem[pos[v] + i] = static_cast<S>((std::rand() % 4001 - 2000) / 1024.0);
      if constexpr (std::is_same_v<S, double>) {
        // coefficients that make cast<float>() round: ties (to even, both directions), float-subnormal range,
        // underflow to zero, large magnitude, negative zero
        const double sp[8] = {1.0 + 0x1p-24, 1.0 + 0x3p-24, 0x1.8p-130, 1e-50, 3.0e38, -0.0, 1.0 - 0x1p-25, -(1.0 + 0x1p-23 + 0x1p-24)};
        const char * at[4] = {"P0", "P3", "V0", "V1"};
        for (int q = 0; q < 8; ++q)
          if ((q % 2) < R) mem[pos[at[q / 2]] + (q % 2)] = static_cast<S>(sp[q]);
      }
    } else {
      for (const char * v : {"P0", "P3", "V0", "V1"}) put(pos[v], rnd());
      if (mode == 1) {
        put(pos["P0"], G::Identity());
        for (int i = 0; i < R; ++i) mem[pos["P3"] + i] *= static_cast<S>(1.0 + 1e-9);   // drifted: no longer unit norm
        for (int i = 0; i < R; ++i) mem[pos["V1"] + i] *= S(-1);                        // q_w < 0 (non-canonical sign)
      }
      if (mode == 2 && pos.count("P2")) put(pos["P2"], rnd());   // valid element in the overlapping view
    }
  }

  void snapshot(std::vector<S> & to) { std::memcpy(to.data(), mem, sizeof(S) * static_cast<std::size_t>(NC)); }

  // ASan: only the ranges in `ok` may be touched during the call
  void guard_on(const std::vector<std::pair<int, int>> & ok)
  {
#ifdef VH_ASAN
    ASAN_POISON_MEMORY_REGION(mem, sizeof(S) * static_cast<std::size_t>(NC));
    for (auto [lo, len] : ok) ASAN_UNPOISON_MEMORY_REGION(mem + lo, sizeof(S) * static_cast<std::size_t>(len));
#else
    (void)ok;
#endif
  }
  void guard_off()
  {
#ifdef VH_ASAN
    ASAN_UNPOISON_MEMORY_REGION(mem, sizeof(S) * static_cast<std::size_t>(NC));
#endif
  }

  // ---------------------------------------------------------------- storage dispatch
  template<typename F>
  void with_dst(const View & v, F && f)
  {
    S * p = mem + v.p;
    if (v.k == VAL) {
      f(*std::launder(reinterpret_cast<G *>(p)));
    } else if (via == 1) {
      smooth::Map<G> m0(p);
      smooth::Map<G> m(m0);
      f(m);
    } else if (via == 2) {
      smooth::Map<G> m0(p);
      smooth::Map<G> m(std::move(m0));
      f(m);
    } else {
      smooth::Map<G> m(p);
      f(m);
    }
  }
  template<typename F>
  void with_src(const View & v, F && f)
  {
    S * p = mem + v.p;
    if (v.k == VAL) {
      f(*std::launder(reinterpret_cast<const G *>(p)));
    } else if (v.k == MAP) {
      smooth::Map<G> m(p);
      f(m);
    } else if (via == 1) {
      smooth::Map<const G> m0(p);
      smooth::Map<const G> m(m0);
      f(m);
    } else {
      smooth::Map<const G> m(p);
      f(m);
    }
  }
  template<typename F>
  static void with_part(int idx, F && f)
  {
    [&]<int... Is>(std::integer_sequence<int, Is...>) {
      ((idx == Is ? (f(std::integral_constant<int, Is>{}), 0) : 0), ...);
    }(std::make_integer_sequence<int, PT<G>::N>{});
  }
  static int part_index(const std::string & nm)
  {
    for (int i = 0; i < PT<G>::N; ++i)
      if (PT<G>::name(i) == nm) return i;
    return -1;
  }

  // ---------------------------------------------------------------- observers
  Tan tangent()
  {
    Tan a;
    for (int i = 0; i < DOF; ++i) a(i) = static_cast<S>((std::rand() % 2001 - 1000) / 1000.0);
    return a;
  }

  template<typename T>
  static void observe(const T & s, const Tan & a, Results & r)
  {
    r.emplace_back("coeffs", cells_of(G(s)));
    r.emplace_back("log", flat(s.log()));
    r.emplace_back("inverse", cells_of(s.inverse()));
    r.emplace_back("matrix", flat(s.matrix()));
    r.emplace_back("Ad", flat(s.Ad()));
    r.emplace_back("rplus", cells_of(s + a));
    r.emplace_back("dof", std::vector<double>{static_cast<double>(s.dof())});
    if constexpr (Dsc::ActDim > 0) {
      Eigen::Matrix<S, Dsc::ActDim, 1> v;
      for (int i = 0; i < Dsc::ActDim; ++i) v(i) = static_cast<S>(0.25 * (i + 1)) - a(0);
      r.emplace_back("action", flat(s * v));
      if constexpr (Dsc::HasDrAction) r.emplace_back("dr_action", flat(s.dr_action(v)));
    }
    if constexpr (requires { s.angle(); }) r.emplace_back("angle", std::vector<double>{static_cast<double>(s.angle())});
    if constexpr (requires { s.scaling(); }) r.emplace_back("scaling", std::vector<double>{static_cast<double>(s.scaling())});
    if constexpr (requires { s.eulerAngles(); }) r.emplace_back("eulerAngles", flat(s.eulerAngles()));
    if constexpr (requires { s.quat(); }) r.emplace_back("quat", flat(s.quat().coeffs()));
    if constexpr (requires { s.project_so2(); }) r.emplace_back("project_so2", cells_of(s.project_so2()));
    if constexpr (requires { s.lift_so3(); }) r.emplace_back("lift_so3", cells_of(s.lift_so3()));
    if constexpr (requires { s.lift_se3(); }) r.emplace_back("lift_se3", cells_of(s.lift_se3()));
    if constexpr (requires { s.project_se2(); }) r.emplace_back("project_se2", cells_of(s.project_se2()));
    if constexpr (requires { s.isometry(); }) r.emplace_back("isometry", flat(s.isometry().matrix()));
  }
  template<typename T, typename U>
  static void observe2(const T & s, const U & o, Results & r)
  {
    r.emplace_back("compose", cells_of(s * o));
    r.emplace_back("rminus", flat(s - o));
    r.emplace_back("isApprox", std::vector<double>{s.isApprox(o) ? 1.0 : 0.0});
  }
  template<typename SV>
  static void observe_sub(const SV & sv, Results & r)
  {
    using P = typename PlainOf<SV>::type;
    r.emplace_back("coeffs", cells_of(P(sv)));
    if constexpr (LieView<SV>) {
      r.emplace_back("log", flat(sv.log()));
      r.emplace_back("inverse", cells_of(sv.inverse()));
      r.emplace_back("matrix", flat(sv.matrix()));
      r.emplace_back("Ad", flat(sv.Ad()));
      r.emplace_back("compose", cells_of(sv * sv));
    } else {
      r.emplace_back("sum", flat(sv + sv));
      r.emplace_back("norm", std::vector<double>{static_cast<double>(sv.norm())});
    }
  }

  // ---------------------------------------------------------------- one step
  static std::string view_json(const View & v)
  {
    const char * ks[] = {"none", "val", "map", "cmap"};
    return std::string("{\"k\":\"") + ks[v.k] + "\",\"v\":\"" + v.v + "\",\"p\":" + std::to_string(v.p) + "}";
  }

  void run_step(const Step & st, int k)
  {
    const int pi = st.part == "-" ? -1 : part_index(st.part);
    if (st.part != "-" && pi < 0) {
      std::fprintf(stderr, "unknown part %s\n", st.part.c_str());
      std::exit(2);
    }
    g_cur_h = hid;
    g_cur_k = k;
#ifdef VH_ASAN
    std::fprintf(stderr, "@ %ld %d\n", hid, k);   // progress marker: a sanitizer report belongs to the step named last
#endif
    snapshot(pre);
    const S * P = pre.data();

    std::vector<double> ref, fresh, out;
    Results res, vres;
    std::vector<double> avec;
    const Tan a = tangent();
    bool is_lie_part = true;

    // operand ranges for the sanitizer build (whole objects; sub-part calls still dereference only the part,
    // but the accessor chain belongs to the object)
    std::vector<std::pair<int, int>> ok;
    for (const View * v : {&st.d, &st.s, &st.o})
      if (v->k != NONE) ok.emplace_back(v->p, R);

    const std::string & op = st.op;
    if (op == "assign" || op == "massign") {
      // reference: DISTINCT value objects holding the pre-call coefficients (value semantics knows no aliasing)
      G va = value_from(P + st.d.p), vb = value_from(P + st.s.p);
      if (op == "assign") va = vb;
      else va = std::move(vb);
      ref = cells_of(va);
      guard_on(ok);
      if (op == "assign") {
        with_dst(st.d, [&](auto & d) { with_src(st.s, [&](auto & s) { d = s; }); });
      } else {
        // move assignment between objects of the same storage kind
        if (st.d.k == VAL) {
          G & d = *std::launder(reinterpret_cast<G *>(mem + st.d.p));
          G & s = *std::launder(reinterpret_cast<G *>(mem + st.s.p));
          d     = std::move(s);
        } else {
          smooth::Map<G> d(mem + st.d.p);
          smooth::Map<G> s(mem + st.s.p);
          d = std::move(s);
        }
      }
      guard_off();
    } else if (op == "copyctor") {
      const G vb = value_from(P + st.s.p);
      const G va(vb);
      ref = cells_of(va);
      guard_on(ok);
      with_src(st.s, [&](auto & s) { new (mem + st.d.p) G(s); });
      guard_off();
    } else if (op == "partsctor") {
      if constexpr (PT<G>::N > 0) {
        const bool plain = st.x == "plain";
        {
          const G vb = value_from(P + st.s.p);
          alignas(G) unsigned char tmp[sizeof(G)];
          Ctor<G>::make(tmp, vb, plain);
          ref = cells_of(*std::launder(reinterpret_cast<G *>(tmp)));
        }
        guard_on(ok);
        with_src(st.s, [&](auto & s) { Ctor<G>::make(mem + st.d.p, s, plain); });
        guard_off();
      }
    } else if (op == "mul") {
      // a *= b ; when both name the same region (x *= x, or two views over one region) the reference still uses
      // two distinct value objects with the pre-call coefficients
      G va = value_from(P + st.d.p);
      const G vb = value_from(P + st.s.p);
      va *= vb;
      ref = cells_of(va);
      guard_on(ok);
      with_dst(st.d, [&](auto & d) { with_src(st.s, [&](auto & s) { d *= s; }); });
      guard_off();
    } else if (op == "amul" || op == "bmul") {
      // a = a * b  /  a = b * a
      G va = value_from(P + st.d.p);
      const G vb = value_from(P + st.s.p);
      if (op == "amul") va = va * vb;
      else va = vb * va;
      ref = cells_of(va);
      guard_on(ok);
      with_dst(st.d, [&](auto & d) {
        with_src(st.s, [&](auto & s) {
          if (op == "amul") d = d * s;
          else d = s * d;
        });
      });
      guard_off();
    } else if (op == "plus") {
      G va = value_from(P + st.d.p);
      va += a;
      ref  = cells_of(va);
      avec = flat(a);
      guard_on(ok);
      with_dst(st.d, [&](auto & d) { d += a; });
      guard_off();
    } else if (op == "setid") {
      G va = value_from(P + st.d.p);
      va.setIdentity();
      ref = cells_of(va);
      guard_on(ok);
      with_dst(st.d, [&](auto & d) { d.setIdentity(); });
      guard_off();
    } else if (op == "cast") {
      const G vb = value_from(P + st.s.p);
      ref        = cells_of(vb.template cast<Other>());
      guard_on(ok);
      with_src(st.s, [&](auto & s) { out = cells_of(s.template cast<Other>()); });
      guard_off();
    } else if (op == "const") {
      const G vb = value_from(P + st.s.p);
      observe(vb, a, vres);
      avec = flat(a);
      guard_on(ok);
      with_src(st.s, [&](auto & s) { observe(s, a, res); });
      guard_off();
    } else if (op == "const2") {
      const G vb = value_from(P + st.s.p), vo = value_from(P + st.o.p);
      observe2(vb, vo, vres);
      guard_on(ok);
      with_src(st.s, [&](auto & s) { with_src(st.o, [&](auto & o) { observe2(s, o, res); }); });
      guard_off();
    } else if (op == "subassign" || op == "subsetid" || op == "submul" || op == "subconst") {
      if constexpr (PT<G>::N > 0) {
        with_part(pi, [&](auto I) {
          constexpr int Ix = decltype(I)::value;
          if (op == "subconst") {
            const G vb = value_from(P + st.s.p);
            {
              auto sv     = PT<G>::template get<Ix>(vb, alt);
              is_lie_part = LieView<decltype(sv)>;
              observe_sub(sv, vres);
            }
            guard_on(ok);
            with_src(st.s, [&](auto & s) {
              auto sv = PT<G>::template get<Ix>(s, alt);
              observe_sub(sv, res);
            });
            guard_off();
            return;
          }
          G va = value_from(P + st.d.p);
          using DSV = decltype(PT<G>::template get<Ix>(va, alt));
          using PS  = typename PlainOf<DSV>::type;
          is_lie_part = LieView<DSV>;
          PS fr;
          if (op == "subassign" && st.x == "fresh") {
            if constexpr (LieView<DSV>) fr.setRandom();
            else fr = PS::Random();
            fresh = cells_of(fr);
          }
          // reference: the same statement on value objects
          {
            const G vb = st.s.k != NONE ? value_from(P + st.s.p) : value_from(P + st.d.p);
            auto dsv = PT<G>::template get<Ix>(va, alt);
            if (op == "subsetid") {
              if constexpr (LieView<DSV>) dsv.setIdentity();
              else dsv.setZero();
            } else if (op == "subassign" && st.x == "fresh") {
              dsv = fr;
            } else {
              // source part of a DISTINCT value object holding the pre-call coefficients (also when both name one region)
              auto ssv = PT<G>::template get<Ix>(vb, alt);
              if (op == "subassign") dsv = ssv;
              else if constexpr (LieView<DSV>) dsv *= ssv;
              else dsv += ssv;
            }
            ref = cells_of(va);
          }
          guard_on(ok);
          with_dst(st.d, [&](auto & d) {
            auto dsv = PT<G>::template get<Ix>(d, alt);
            if (op == "subsetid") {
              if constexpr (LieView<DSV>) dsv.setIdentity();
              else dsv.setZero();
            } else if (op == "subassign" && st.x == "fresh") {
              dsv = fr;
            } else {
              with_src(st.s, [&](auto & s) {
                auto ssv = PT<G>::template get<Ix>(s, alt);
                if (op == "subassign") dsv = ssv;
                else if constexpr (LieView<DSV>) dsv *= ssv;
                else dsv += ssv;
              });
            }
          });
          guard_off();
        });
      }
    } else {
      std::fprintf(stderr, "unknown op %s\n", op.c_str());
      std::exit(2);
    }

    snapshot(post);
    std::string diff = "[";
    bool first       = true;
    for (int i = 0; i < NC; ++i) {
      if (std::memcmp(&pre[static_cast<std::size_t>(i)], &post[static_cast<std::size_t>(i)], sizeof(S)) != 0) {
        if (!first) diff += ',';
        first = false;
        diff += '[' + std::to_string(i) + ',';
        quad(diff, static_cast<double>(post[static_cast<std::size_t>(i)]));
        diff += ']';
      }
    }
    diff += ']';

    Ev e;
    e.str("op", op).raw("g", gj).str("sc", sc).num("h", hid).num("k", k);
    e.raw("d", view_json(st.d)).raw("s", view_json(st.s)).raw("o", view_json(st.o));
    e.str("i", st.part).str("x", st.x).num("via", via).num("alt", alt ? 1 : 0).num("lie", is_lie_part ? 1 : 0);
    e.raw("diff", diff);
    e.vec("ref", ref).vec("fresh", fresh).vec("a", avec).vec("out", out);
    e.str("to", std::is_same_v<Other, float> ? "f" : "d");
    e.raw("res", results_json(res)).raw("vres", results_json(vres));
    sink.emit(e);
  }

  void emit_cells(const char * op, int mode)
  {
    snapshot(pre);
    Ev e;
    e.str("op", op).raw("g", gj).str("sc", sc).num("h", hid).num("R", R).num("nb", NB).num("n", NC).num("fill", mode);
    std::string ps = "{";
    bool first     = true;
    for (const auto & [k, v] : pos) {
      if (!first) ps += ',';
      first = false;
      ps += '"' + k + "\":" + std::to_string(v);
    }
    e.raw("pos", ps + "}");
    std::vector<double> c(pre.begin(), pre.end());
    e.vec("cells", c);
    sink.emit(e);
  }

  void run_history(long id, const std::vector<Step> & steps)
  {
    hid = id;
    std::srand(static_cast<unsigned>(seed * 7919u + static_cast<uint64_t>(id) * 104729u + 17u));
    const int mode = static_cast<int>(id % 4);
    via            = static_cast<int>((id / 4) % 3);
    alt            = ((id / 12) % 2) == 1;
    fill(mode);
    emit_cells("init", mode);
    int k = 1;
    for (const auto & st : steps) run_step(st, k++);
    emit_cells("fin", mode);
  }

  View parse_view(const std::string & k, const std::string & v)
  {
    View w;
    w.k = k == "val" ? VAL : k == "map" ? MAP : k == "cmap" ? CMAP : NONE;
    w.v = v;
    if (w.k != NONE) {
      auto it = pos.find(v);
      if (it == pos.end()) {
        std::fprintf(stderr, "unknown position %s\n", v.c_str());
        std::exit(2);
      }
      w.p = it->second;
    }
    return w;
  }

  int main_(int argc, char ** argv)
  {
    install_handlers();
#ifndef VH_ASAN
    for (int sg : {SIGSEGV, SIGBUS, SIGILL, SIGFPE}) std::signal(sg, on_signal);
#endif
    const std::string out  = arg(argc, argv, "--out", "/dev/stdout");
    const std::string prog = arg(argc, argv, "--prog", "");
    seed                   = std::strtoull(arg(argc, argv, "--seed", "1").c_str(), nullptr, 10);
    gj                     = Dsc::json();
    sc                     = sizeof(S) == 4 ? "f" : "d";
    if (prog.empty()) {
      // print what the driver needs to know about this instantiation
      std::printf("{\"g\":%s,\"sc\":\"%s\",\"R\":%d,\"parts\":[", gj.c_str(), sc.c_str(), R);
      for (int i = 0; i < PT<G>::N; ++i) std::printf("%s\"%s\"", i ? "," : "", PT<G>::name(i).c_str());
      std::printf("]}\n");
      return 0;
    }
    if (!sink.open(out)) return 2;
    current_sink() = &sink;
    FILE * pf      = std::fopen(prog.c_str(), "r");
    if (!pf) return 2;
    char buf[4096];
    std::vector<Step> steps;
    long cur = -1;
    auto flush_hist = [&]() {
      if (cur >= 0) run_history(cur, steps);
      steps.clear();
    };
    while (std::fgets(buf, sizeof buf, pf)) {
      std::istringstream is(buf);
      std::string t;
      is >> t;
      if (t == "G") {
        // G <R> <NB> <name>=<pos> ...
        int r = 0, nb = 0;
        is >> r >> nb;
        if (r != R) {
          std::fprintf(stderr, "program is for RepSize %d, this harness has %d\n", r, R);
          return 2;
        }
        std::map<std::string, int> bp;
        std::string kv;
        while (is >> kv) {
          const auto eq = kv.find('=');
          bp[kv.substr(0, eq)] = std::atoi(kv.substr(eq + 1).c_str());
        }
        setup(nb, bp);
      } else if (t == "H") {
        flush_hist();
        is >> cur;
      } else if (t == "S") {
        Step st;
        std::string dk, dv, sk, sv, ok, ov;
        is >> st.op >> dk >> dv >> sk >> sv >> ok >> ov >> st.part >> st.x;
        st.d = parse_view(dk, dv);
        st.s = parse_view(sk, sv);
        st.o = parse_view(ok, ov);
        steps.push_back(st);
      }
    }
    flush_hist();
    std::fclose(pf);
    sink.close();
    return 0;
  }
};

int main(int argc, char ** argv)
{
  static Machine<G0> m;
  return m.main_(argc, argv);
}
