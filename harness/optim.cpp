// Conformance harness for smooth::minimize (property C09).
//
// Executes the real solver on generated problems and records, as ndjson events,
//   group   start of a group of runs (the trace is split between groups; strategy ids are local to a group)
//   begin   one run: family, shape, differentiation mode, options, strategy object (id, kind, fresh/shared,
//           radius observed before the run), declared rounding scale of the residual, and - where the
//           minimiser is known by construction - the data that determines it (A, b / generating element)
//   cb      every callback invocation: the iterate (coefficients of all arguments) and |f(iterate)|
//   iter    the hook event of optim.hpp (one per loop iteration, after the acceptance decision)
//   exit    the hook event at return
//   end     returned status / iter, final arguments, radius observed after the run
// The harness never judges a result.  All numbers are logged exactly (common.hpp).
//
// usage: optim --tier quick|thorough --seed S [--groups N] [--group G] --out trace.ndjson
//   VH_PART (compile time, 0..3) selects the problem families compiled into this executable.

#include <Eigen/Core>
#include <Eigen/Sparse>

#include <array>
#include <memory>
#include <string>
#include <tuple>
#include <vector>

#include "smooth/bundle.hpp"
#include "smooth/optim.hpp"
#include "smooth/se2.hpp"
#include "smooth/se3.hpp"
#include "smooth/so3.hpp"

#include "common.hpp"

#ifndef VH_PART
#define VH_PART 0
#endif

#if !defined(SMOOTH_VERIF) || !__has_include("smooth/detail/verif_hooks.hpp")
#error "the optim harness needs the SMOOTH_VERIF hook (hooks/optim_hook.patch) in the library under test"
#endif

using smooth::diff::Type;

// ----------------------------------------------------------------------------- recording

static vh::Sink g_sink;
static long g_run = -1;

static void hook_sink(const char * name, const double * vals, int n)
{
  vh::Ev e;
  e.str("op", std::strcmp(name, "optim.iter") == 0 ? "iter" : std::strcmp(name, "optim.exit") == 0 ? "exit" : name);
  e.num("run", g_run);
  std::vector<double> v(vals, vals + n);
  e.vec("v", v);
  g_sink.emit(e);
}

template<typename T>
static void coeffs_of(std::vector<double> & o, const T & a)
{
  if constexpr (std::is_base_of_v<Eigen::MatrixBase<T>, T>) {
    for (Eigen::Index i = 0; i < a.size(); ++i) o.push_back(a(i));
  } else {
    const auto c = a.coeffs();
    for (Eigen::Index i = 0; i < c.size(); ++i) o.push_back(c(i));
  }
}

struct StratBox
{
  std::shared_ptr<smooth::TrustRegionStrategy> p;
  std::string kind;
  long sid;
};

static long g_next_sid = 0;

static StratBox make_strat(int kind)
{
  StratBox b;
  if (kind == 0) {
    b.p    = std::make_shared<smooth::CeresStrategy>();
    b.kind = "ceres";
  } else {
    b.p    = std::make_shared<smooth::DisneyStrategy>();
    b.kind = "disney";
  }
  b.sid = g_next_sid++;
  return b;
}

struct Opt
{
  long max_iter;
  double ftol, ptol;
};

// what determines the known minimiser (logged verbatim in the begin event)
struct Known
{
  std::string kind = "none";  // "lin": A, b ; "grp": group descriptor + generating element ; "none"
  Eigen::MatrixXd A;
  Eigen::VectorXd b;
  std::string g;               // json group descriptor
  std::vector<double> xt;      // coefficients of the generating element
  double slack = 0;            // distance generating element <-> minimiser allowed for by construction (noise)
};

struct Meta
{
  std::string fam, shape;
  double fscale = 1;  // magnitude of the terms summed in one residual evaluation (rounding scale of f)
  double w      = 1;  // weight the residual is multiplied with (units of f; the minimiser does not depend on it)
  std::string start = "generic";  // stratum of the starting point of the vector arguments: origin / onezero / generic / at-min
  Known known;
};

static const char * mode_name(Type D)
{
  return D == Type::Numerical ? "num" : D == Type::Analytic ? "ana" : "def";
}

template<Type D, class F, class... Args>
static void run_problem(const Meta & m, const F & f, StratBox & sb, bool fresh, const Opt & o, Args &... args)
{
  ++g_run;
  {
    vh::Ev e;
    e.str("op", "begin").num("run", g_run).str("fam", m.fam).str("shape", m.shape).str("mode", mode_name(D));
    e.str("strat", sb.kind).num("sid", sb.sid).num("fresh", fresh ? 1 : 0).dbl("delta0", sb.p->get_delta());
    e.num("max_iter", o.max_iter).dbl("ftol", o.ftol).dbl("ptol", o.ptol).dbl("fscale", m.fscale).dbl("w", m.w);
    // numdiff: the Jacobian comes from dr_numerical (explicitly, or Default without a jacobian member)
    constexpr bool has_jac = requires(const F & ff, const Args &... aa) { ff.jacobian(aa...); };
    e.str("start", m.start).num("numdiff", (D == Type::Numerical || (D == Type::Default && !has_jac)) ? 1 : 0);
    e.str("known", m.known.kind);
    if (m.known.kind == "lin") {
      e.mat("A", m.known.A).vec("b", m.known.b);
    } else if (m.known.kind == "grp") {
      e.raw("g", m.known.g).vec("xt", m.known.xt).dbl("slack", m.known.slack);
    }
    g_sink.emit(e);
  }
  long ncb      = 0;
  const auto cb = [&](const auto &... a) {
    std::vector<double> xs;
    (coeffs_of(xs, a), ...);
    const double cost = f(a...).stableNorm();
    vh::Ev e;
    e.str("op", "cb").num("run", g_run).vec("x", xs).dbl("cost", cost);
    g_sink.emit(e);
    ++ncb;
  };
  smooth::MinimizeOptions mo;
  mo.strat    = sb.p;
  mo.ptol     = o.ptol;
  mo.ftol     = o.ftol;
  mo.max_iter = static_cast<std::size_t>(o.max_iter);
  mo.verbose  = false;

  smooth::verif::event_sink() = &hook_sink;
  const auto res              = smooth::minimize<D>(f, smooth::wrt(args...), cb, mo);
  smooth::verif::event_sink() = nullptr;

  std::vector<double> xs;
  (coeffs_of(xs, args), ...);
  vh::Ev e;
  e.str("op", "end").num("run", g_run).num("status", static_cast<long>(res.status)).num("iter", static_cast<long>(res.iter));
  e.vec("x", xs).dbl("delta1", sb.p->get_delta()).num("ncb", ncb);
  g_sink.emit(e);
}

// mode: 0 Numerical, 1 Analytic, 2 Default, 3 Default with the jacobian member hidden (falls back to numerical
// differentiation).  Callables without a jacobian member run Analytic requests as Default.
template<class F, class... Args>
static void run_mode(int mode, const Meta & m, const F & f, StratBox & sb, bool fresh, const Opt & o, Args &... args)
{
  constexpr bool has_jac = requires(const F & ff, const Args &... aa) { ff.jacobian(aa...); };
  if (mode == 0) {
    run_problem<Type::Numerical>(m, f, sb, fresh, o, args...);
  } else if (mode == 3) {
    const auto g = [&f](const auto &... a) { return f(a...); };
    run_problem<Type::Default>(m, g, sb, fresh, o, args...);
  } else if (mode == 1) {
    if constexpr (has_jac) {
      run_problem<Type::Analytic>(m, f, sb, fresh, o, args...);
    } else {
      run_problem<Type::Default>(m, f, sb, fresh, o, args...);
    }
  } else {
    run_problem<Type::Default>(m, f, sb, fresh, o, args...);
  }
}

// ----------------------------------------------------------------------------- problem families

using Eigen::MatrixXd;
using Eigen::VectorXd;

template<int M, int N>
struct LinStatic
{
  Eigen::Matrix<double, M, N> A;
  Eigen::Matrix<double, M, 1> b;
  Eigen::Matrix<double, M, 1> operator()(const Eigen::Matrix<double, N, 1> & x) const { return A * x - b; }
  Eigen::Matrix<double, M, N> jacobian(const Eigen::Matrix<double, N, 1> &) const { return A; }
};

struct LinDynamic
{
  MatrixXd A;
  VectorXd b;
  VectorXd operator()(const VectorXd & x) const { return A * x - b; }
  MatrixXd jacobian(const VectorXd &) const { return A; }
};

struct LinSparse
{
  MatrixXd A;
  VectorXd b;
  Eigen::SparseMatrix<double> As;
  VectorXd operator()(const VectorXd & x) const { return A * x - b; }
  Eigen::SparseMatrix<double> jacobian(const VectorXd &) const { return As; }
};

// two arguments: a fixed-size head and a dynamic tail
struct LinMulti
{
  MatrixXd A;
  VectorXd b;
  VectorXd operator()(const Eigen::Vector2d & x1, const VectorXd & x2) const
  {
    VectorXd x(2 + x2.size());
    x << x1, x2;
    return A * x - b;
  }
  MatrixXd jacobian(const Eigen::Vector2d &, const VectorXd &) const { return A; }
};

enum LinKind { LIN_GENERIC = 0, LIN_CONSISTENT, LIN_INT_AT_MIN, LIN_DEPENDENT, LIN_ZEROCOL };

// A (m x n), b, start, and whether the minimiser is unique
static void make_linear(vh::Rng & rng, int m, int n, int kind, MatrixXd & A, VectorXd & b, VectorXd & x0, bool & unique, double & fscale, double & w)
{
  if (kind == LIN_INT_AT_MIN) w = 1;  // keeps b = A x* exact (zero residual at the start)
  A.resize(m, n);
  b.resize(m);
  x0.resize(n);
  unique = true;
  if (kind == LIN_INT_AT_MIN) {
    // small integers: b = A x* exactly, start exactly at the minimiser (zero residual, r_n = 0)
    VectorXd xs(n);
    for (int i = 0; i < m; ++i)
      for (int j = 0; j < n; ++j) A(i, j) = static_cast<double>(rng.idx(7) - 3) + (i == j ? 5. : 0.);
    for (int j = 0; j < n; ++j) xs(j) = static_cast<double>(rng.idx(9) - 4);
    b  = A * xs;
    x0 = xs;
  } else {
    for (int i = 0; i < m; ++i)
      for (int j = 0; j < n; ++j) A(i, j) = rng.uni(-1, 1) + (i == j ? 2. : 0.);
    VectorXd xs(n);
    for (int j = 0; j < n; ++j) xs(j) = rng.uni(-3, 3);
    b = A * xs;
    if (kind == LIN_GENERIC)
      for (int i = 0; i < m; ++i) b(i) += rng.uni(-1, 1);
    const double far = rng.idx(3) == 0 ? 100. : 5.;
    for (int j = 0; j < n; ++j) x0(j) = rng.uni(-far, far);
    if (kind == LIN_DEPENDENT && n >= 2) {
      A.col(n - 1) = A.col(0);
      unique       = false;
    }
    if (kind == LIN_ZEROCOL) {
      A.col(n - 1).setZero();
      unique = false;
    }
  }
  A *= w;  // residual w (A x - b): same minimiser
  b *= w;
  fscale = A.cwiseAbs().maxCoeff() * n * std::max(1., std::max(x0.cwiseAbs().maxCoeff(), 10.)) + b.cwiseAbs().maxCoeff();
}

static Known known_lin(const MatrixXd & A, const VectorXd & b, bool unique)
{
  Known k;
  if (unique) {
    k.kind = "lin";
    k.A    = A;
    k.b    = b;
  }
  return k;
}

// --- alignment: residual exactly zero at the generating element (the data is produced by the same expressions)

template<int NP>
struct AlignSO3
{
  double w = 1.;
  std::array<Eigen::Vector3d, NP> a, b;
  Eigen::Matrix<double, 3 * NP, 1> operator()(const smooth::SO3d & R) const
  {
    Eigen::Matrix<double, 3 * NP, 1> r;
    for (int i = 0; i < NP; ++i) r.template segment<3>(3 * i) = R * a[i] - b[i];
    return (w * r).eval();
  }
  Eigen::Matrix<double, 3 * NP, 3> jacobian(const smooth::SO3d & R) const
  {
    Eigen::Matrix<double, 3 * NP, 3> J;
    for (int i = 0; i < NP; ++i) J.template middleRows<3>(3 * i) = R.dr_action(a[i]);
    return (w * J).eval();
  }
};

template<int NP>
struct AlignSE2
{
  double w = 1.;
  std::array<Eigen::Vector2d, NP> a, b;
  Eigen::Matrix<double, 2 * NP, 1> operator()(const smooth::SE2d & g) const
  {
    Eigen::Matrix<double, 2 * NP, 1> r;
    for (int i = 0; i < NP; ++i) r.template segment<2>(2 * i) = g * a[i] - b[i];
    return (w * r).eval();
  }
  Eigen::Matrix<double, 2 * NP, 3> jacobian(const smooth::SE2d & g) const
  {
    Eigen::Matrix<double, 2 * NP, 3> J;
    for (int i = 0; i < NP; ++i) J.template middleRows<2>(2 * i) = g.dr_action(a[i]);
    return (w * J).eval();
  }
};

struct AlignSE3Dyn
{
  double w = 1.;
  std::vector<Eigen::Vector3d> a, b;
  VectorXd operator()(const smooth::SE3d & g) const
  {
    VectorXd r(3 * a.size());
    for (std::size_t i = 0; i < a.size(); ++i) r.segment<3>(3 * i) = g * a[i] - b[i];
    return (w * r).eval();
  }
  MatrixXd jacobian(const smooth::SE3d & g) const
  {
    MatrixXd J(3 * a.size(), 6);
    for (std::size_t i = 0; i < a.size(); ++i) J.middleRows<3>(3 * i) = g.dr_action(a[i]);
    return (w * J).eval();
  }
};

// pose alignment: (g * h_i) - k_i
struct PoseSE3
{
  double w = 1.;
  std::vector<smooth::SE3d> h, k;
  std::vector<Eigen::Matrix<double, 6, 1>> noise;
  VectorXd operator()(const smooth::SE3d & g) const
  {
    VectorXd r(6 * h.size());
    for (std::size_t i = 0; i < h.size(); ++i) r.segment<6>(6 * i) = ((g * h[i]) - k[i]) - noise[i];
    return (w * r).eval();
  }
  MatrixXd jacobian(const smooth::SE3d & g) const
  {
    MatrixXd J(6 * h.size(), 6);
    for (std::size_t i = 0; i < h.size(); ++i) {
      const Eigen::Matrix<double, 6, 1> e = (g * h[i]) - k[i];
      J.middleRows<6>(6 * i)              = smooth::SE3d::dr_expinv(e) * h[i].inverse().Ad();
    }
    return (w * J).eval();
  }
};

using BundleRt = smooth::Bundle<smooth::SO3d, Eigen::Vector3d>;

struct AlignBundle
{
  double w = 1.;
  std::array<Eigen::Vector3d, 4> a, b;
  Eigen::Matrix<double, 12, 1> operator()(const BundleRt & x) const
  {
    Eigen::Matrix<double, 12, 1> r;
    for (int i = 0; i < 4; ++i) r.segment<3>(3 * i) = x.part<0>() * a[i] + x.part<1>() - b[i];
    return (w * r).eval();
  }
  Eigen::Matrix<double, 12, 6> jacobian(const BundleRt & x) const
  {
    Eigen::Matrix<double, 12, 6> J;
    for (int i = 0; i < 4; ++i) {
      J.block<3, 3>(3 * i, 0) = x.part<0>().dr_action(a[i]);
      J.block<3, 3>(3 * i, 3).setIdentity();
    }
    return (w * J).eval();
  }
};

// two arguments of different manifold types
struct AlignRt
{
  double w = 1.;
  std::array<Eigen::Vector3d, 4> a, b;
  Eigen::Matrix<double, 12, 1> operator()(const smooth::SO3d & R, const Eigen::Vector3d & t) const
  {
    Eigen::Matrix<double, 12, 1> r;
    for (int i = 0; i < 4; ++i) r.segment<3>(3 * i) = R * a[i] + t - b[i];
    return (w * r).eval();
  }
  Eigen::Matrix<double, 12, 6> jacobian(const smooth::SO3d & R, const Eigen::Vector3d &) const
  {
    Eigen::Matrix<double, 12, 6> J;
    for (int i = 0; i < 4; ++i) {
      J.block<3, 3>(3 * i, 0) = R.dr_action(a[i]);
      J.block<3, 3>(3 * i, 3).setIdentity();
    }
    return (w * J).eval();
  }
};

// three rotations chained by relative measurements, sparse Jacobian (the shape of the repository's AnalyticSparse test)
struct ChainSO3
{
  double w = 1.;
  Eigen::Vector3d d23, d31;
  VectorXd operator()(const smooth::SO3d & g1, const smooth::SO3d & g2, const smooth::SO3d & g3) const
  {
    VectorXd f(9);
    f.segment<3>(0) = g1.log();
    f.segment<3>(3) = (g3 - g2) - d23;
    f.segment<3>(6) = (g1 - g3) - d31;
    return (w * f).eval();
  }
  Eigen::SparseMatrix<double> jacobian(const smooth::SO3d & g1, const smooth::SO3d & g2, const smooth::SO3d & g3) const
  {
    const Eigen::Matrix3d j11 = smooth::SO3d::dr_expinv(g1.log());
    const Eigen::Matrix3d j23 = smooth::SO3d::dr_expinv(g3 - g2);
    const Eigen::Matrix3d j22 = -smooth::SO3d::dl_expinv(g3 - g2);
    const Eigen::Matrix3d j31 = smooth::SO3d::dr_expinv(g1 - g3);
    const Eigen::Matrix3d j33 = -smooth::SO3d::dl_expinv(g1 - g3);
    Eigen::SparseMatrix<double> J(9, 9);
    for (int i = 0; i != 3; ++i)
      for (int j = 0; j != 3; ++j) {
        J.insert(i, j)         = j11(i, j);
        J.insert(3 + i, 3 + j) = j22(i, j);
        J.insert(3 + i, 6 + j) = j23(i, j);
        J.insert(6 + i, 6 + j) = j33(i, j);
        J.insert(6 + i, 0 + j) = j31(i, j);
      }
    J *= w;
    J.makeCompressed();
    return J;
  }
};

static Eigen::Vector3d rvec3(vh::Rng & rng, double s)
{
  return Eigen::Vector3d(rng.uni(-s, s), rng.uni(-s, s), rng.uni(-s, s));
}

template<int N>
static Eigen::Matrix<double, N, 1> rtan(vh::Rng & rng, double norm)
{
  Eigen::Matrix<double, N, 1> v;
  for (int i = 0; i < N; ++i) v(i) = rng.uni(-1, 1);
  if (v.norm() == 0) v(0) = 1;
  return v * (norm / v.norm());
}

// well-spread points (a tetrahedron-like configuration plus jitter)
static Eigen::Vector3d spread_point(vh::Rng & rng, int i)
{
  static const double base[6][3] = {{1, 0, 0}, {0, 1, 0}, {0, 0, 1}, {-1, -1, -1}, {1, 1, -1}, {-1, 1, 1}};
  return Eigen::Vector3d(base[i % 6][0], base[i % 6][1], base[i % 6][2]) + rvec3(rng, 0.3);
}

template<typename G>
static std::vector<double> coeff_vec(const G & g)
{
  std::vector<double> v;
  coeffs_of(v, g);
  return v;
}

// start: generating element moved by a tangent of the given norm (0: start at the minimiser)
static double start_radius(vh::Rng & rng, int k)
{
  switch (k % 4) {
  case 0: return 0.;
  case 1: return 0.05;
  case 2: return 0.5;
  default: return rng.uni(0.1, 1.0);
  }
}

// --- polynomial / curve fitting problems (no minimiser clause)

struct Rosenbrock
{
  Eigen::Vector2d operator()(const Eigen::Vector2d & x) const { return Eigen::Vector2d(10 * (x(1) - x(0) * x(0)), 1 - x(0)); }
  Eigen::Matrix2d jacobian(const Eigen::Vector2d & x) const
  {
    Eigen::Matrix2d J;
    J << -20 * x(0), 10, -1, 0;
    return J;
  }
};

// pred_red rounds to zero although the step is not null: a constant residual component c dominates the cost
struct ScaleCubic
{
  double c, s, k, t0;
  Eigen::Vector2d operator()(const Eigen::Matrix<double, 1, 1> & x) const
  {
    const double t = x(0);
    return Eigen::Vector2d(c, s * t * (1. + k * (t - t0) * (t - t0)));
  }
};

struct OffsetRosenbrock
{
  double c;
  Eigen::Vector3d operator()(const Eigen::Vector2d & x) const { return Eigen::Vector3d(c, 10 * (x(1) - x(0) * x(0)), 1 - x(0)); }
};

static const double misra_y[14] = {10.07, 14.73, 17.94, 23.93, 29.61, 35.18, 40.02, 44.82, 50.76, 55.05, 61.01, 66.40, 75.47, 81.78};
static const double misra_x[14] = {77.6, 114.9, 141.1, 190.8, 239.9, 289.0, 332.8, 378.4, 434.8, 477.3, 536.8, 593.1, 689.1, 760.0};

struct Misra1aStatic
{
  Eigen::Matrix<double, 14, 1> operator()(const Eigen::Vector2d & p) const
  {
    Eigen::Matrix<double, 14, 1> r;
    for (int i = 0; i < 14; ++i) r(i) = misra_y[i] - p(0) * (1 - std::exp(-p(1) * misra_x[i]));
    return r;
  }
  Eigen::Matrix<double, 14, 2> jacobian(const Eigen::Vector2d & p) const
  {
    Eigen::Matrix<double, 14, 2> J;
    for (int i = 0; i < 14; ++i) {
      const double e = std::exp(-p(1) * misra_x[i]);
      J(i, 0)        = -(1 - e);
      J(i, 1)        = -p(0) * misra_x[i] * e;
    }
    return J;
  }
};

// ----------------------------------------------------------------------------- plans

static const long MAXIT[5]  = {0, 1, 2, 5, 1000};
static const double WEIGHTS[4] = {1., 1e-2, 1e-3, 1e-4};

// residual weight of run k of a family: the four judged strata come round; `tiny` (a few runs of the point-alignment
// families) selects the stratum w <= 1e-6 in which the Ptol test |D dx| < ptol n is known not to be unit-invariant
static double weight_of(long k, int fam, bool tiny_family)
{
  if (tiny_family && k % 40 == 5) return (fam + k / 40) % 2 == 0 ? 1e-6 : 1e-8;
  return WEIGHTS[(k + k / 4 + fam) % 4];  // k / 4: decorrelated from the start-radius cycle (k % 4)
}

// Starting-point strata of the vector arguments (dr_numerical scales its step with |x_j| and needs a fallback at
// x_j == 0): which = 1 the origin (every coordinate exactly +0.0 / -0.0), 2 exactly one zero coordinate, 0 generic.
// Zero starts run with w = 1, max_iter = 1000 and numerical differentiation (mode 0 or 3).
struct ZeroStart
{
  int which = 0;
  int mode  = 0;
};
static ZeroStart zero_start(long k, int fam, bool every2)
{
  ZeroStart z;
  if (every2 ? k % 2 != 1 : k % 4 != 1) return z;
  z.which = 1 + static_cast<int>((every2 ? k / 2 : k / 4) % 2);
  z.mode  = ((every2 ? k / 4 : k / 8) + fam) % 2 == 0 ? 0 : 3;
  return z;
}
template<typename V>
static void apply_zero_start(const ZeroStart & z, vh::Rng & rng, V & x, std::string & label)
{
  if (z.which == 1) {
    for (Eigen::Index j = 0; j < x.size(); ++j) x(j) = j % 2 == 1 ? -0.0 : 0.0;
    label = "origin";
  } else if (z.which == 2) {
    x(rng.idx(static_cast<int>(x.size()))) = 0.0;
    label = x.size() == 1 ? "origin" : "onezero";
  }
}

// The Ptol test |D dx| < ptol n is not invariant to the units of f (D = column norms of J): what matters is ptol / w.
// Judged strata keep ptol / w <= 1e-2 (ptol = 1e-3 only with w = 1); the few tiny-weight runs use the default
// tolerances 1e-6, i.e. ptol / w >= 1 (the stratum in which a premature Ptol is a known finding).
static void adapt_tolerances(Opt & o, double w)
{
  if (w < 1e-5) {
    o.max_iter = 1000;
    o.ftol     = 1e-6;
    o.ptol     = 1e-6;
  } else if (w < 1. && o.ptol > 1e-5) {
    o.ptol = 1e-6;
  }
}
static const double TOLS[3] = {1e-3, 1e-6, 1e-12};

// options of run number k of a family: every max_iter value and every tolerance pair comes round;
// minimiser-clause families weight max_iter = 1000
static Opt options(vh::Rng & rng, long k, int fam, bool converge)
{
  Opt o;
  o.max_iter = converge && (k % 3 != 0) ? 1000 : MAXIT[(k + k / 3 + fam) % 5];
  o.ftol     = TOLS[(k + fam) % 3];
  o.ptol     = TOLS[(k / 3 + fam + rng.idx(3)) % 3];
  return o;
}

#if VH_PART == 0
static constexpr int NFAM = 6;
static const char * FAMS[NFAM] = {"lin_static", "lin_dynamic", "lin_sparse", "lin_multi", "lin_static_small", "lin_degenerate"};
#elif VH_PART == 1
static constexpr int NFAM = 4;
static const char * FAMS[NFAM] = {"align_so3", "align_se2", "align_rt_multi", "align_bundle"};
#elif VH_PART == 2
static constexpr int NFAM = 3;
static const char * FAMS[NFAM] = {"align_se3_dyn", "pose_se3", "chain_so3_sparse"};
#else
static constexpr int NFAM = 6;
static const char * FAMS[NFAM] = {"rosenbrock", "poly_misc", "misra1a", "scale", "zero_jacobian", "offset_rosenbrock"};
#endif

// run number k (0, 1, 2, ...) of family fam on strategy sb
static void run_family(int fam, long k, vh::Rng & rng, StratBox & sb, bool fresh)
{
  const int mode = static_cast<int>((k + k / 3) % 3);
  Meta m;
  m.fam = FAMS[fam];
#if VH_PART == 0
  Opt o = options(rng, k, fam, fam != 5);
  m.w   = weight_of(k, fam, false);
  const ZeroStart zs = fam == 5 ? ZeroStart{} : zero_start(k, fam, fam == 1 || fam == 2);
  const int lkind    = zs.which ? static_cast<int>((k / 2) % 2) : static_cast<int>(k % 3);  // zero starts: generic / consistent
  const int rmode    = zs.which ? zs.mode : mode;
  if (lkind == LIN_INT_AT_MIN && fam != 5) {
    m.w     = 1;
    m.start = "at-min";
  }
  if (zs.which) {
    m.w        = 1;
    o.max_iter = 1000;
  }
  adapt_tolerances(o, m.w);
  if (fam == 0) {
    MatrixXd A;
    VectorXd b, x0;
    bool uq;
    make_linear(rng, 6, 3, lkind, A, b, x0, uq, m.fscale, m.w);
    apply_zero_start(zs, rng, x0, m.start);
    LinStatic<6, 3> f{A, b};
    Eigen::Vector3d x = x0;
    m.shape           = "static";
    m.known           = known_lin(A, b, uq);
    run_mode(rmode, m, f, sb, fresh, o, x);
  } else if (fam == 1) {
    const int n = 2 + rng.idx(4), mm = n + 1 + rng.idx(4);
    MatrixXd A;
    VectorXd b, x0;
    bool uq;
    make_linear(rng, mm, n, lkind, A, b, x0, uq, m.fscale, m.w);
    apply_zero_start(zs, rng, x0, m.start);
    LinDynamic f{A, b};
    VectorXd x = x0;
    m.shape    = "dynamic";
    m.known    = known_lin(A, b, uq);
    run_mode(rmode, m, f, sb, fresh, o, x);
  } else if (fam == 2) {
    const int n = 3 + rng.idx(4), mm = n + 2 + rng.idx(3);
    MatrixXd A;
    VectorXd b, x0;
    bool uq;
    make_linear(rng, mm, n, lkind, A, b, x0, uq, m.fscale, m.w);
    apply_zero_start(zs, rng, x0, m.start);
    // banded sparsity (kept well conditioned by the diagonal boost)
    for (int i = 0; i < mm; ++i)
      for (int j = 0; j < n; ++j)
        if (std::abs(i - j) > 2 && lkind != LIN_INT_AT_MIN) A(i, j) = 0;
    if (lkind == LIN_CONSISTENT) {
      VectorXd xs(n);
      for (int j = 0; j < n; ++j) xs(j) = rng.uni(-3, 3);
      b = A * xs;
    }
    LinSparse f{A, b, A.sparseView()};
    f.As.makeCompressed();
    VectorXd x = x0;
    m.shape    = "sparse";
    m.known    = known_lin(A, b, uq);
    // a sparse Jacobian only exists through the jacobian member: Analytic or Default
    run_mode(zs.which ? zs.mode : 1 + static_cast<int>(k % 2), m, f, sb, fresh, o, x);
  } else if (fam == 3) {
    const int n2 = 1 + rng.idx(3), n = 2 + n2, mm = n + 2;
    MatrixXd A;
    VectorXd b, x0;
    bool uq;
    make_linear(rng, mm, n, lkind, A, b, x0, uq, m.fscale, m.w);
    apply_zero_start(zs, rng, x0, m.start);
    LinMulti f{A, b};
    Eigen::Vector2d x1 = x0.head<2>();
    VectorXd x2        = x0.tail(n2);
    m.shape            = "multi";
    m.known            = known_lin(A, b, uq);
    run_mode(rmode, m, f, sb, fresh, o, x1, x2);
  } else if (fam == 4) {
    MatrixXd A;
    VectorXd b, x0;
    bool uq;
    make_linear(rng, 2, 1, lkind, A, b, x0, uq, m.fscale, m.w);
    apply_zero_start(zs, rng, x0, m.start);
    LinStatic<2, 1> f{A, b};
    Eigen::Matrix<double, 1, 1> x = x0;
    m.shape                       = "static";
    m.known                       = known_lin(A, b, uq);
    run_mode(rmode, m, f, sb, fresh, o, x);
  } else {
    const int n = 2 + rng.idx(3), mm = n + 2;
    MatrixXd A;
    VectorXd b, x0;
    bool uq;
    make_linear(rng, mm, n, k % 2 == 0 ? LIN_DEPENDENT : LIN_ZEROCOL, A, b, x0, uq, m.fscale, m.w);
    LinDynamic f{A, b};
    VectorXd x = x0;
    m.shape    = "dynamic";
    m.known    = known_lin(A, b, uq);
    run_mode(rmode, m, f, sb, fresh, o, x);
  }
#elif VH_PART == 1
  Opt o = options(rng, k, fam, true);
  m.w   = weight_of(k, fam, fam <= 1);
  adapt_tolerances(o, m.w);
  const bool tiny    = m.w < 1e-5;
  const double rad   = tiny ? 0.3 : start_radius(rng, static_cast<int>(k));
  const double noise = (k / 4) % 2 == 0 || tiny ? 0. : 1e-7;
  m.known.kind       = "grp";
  m.known.slack      = noise == 0. ? 1e-9 : 1e-5;
  m.fscale           = 8. * m.w;
  if (fam == 0) {
    smooth::SO3d gt;
    gt.setRandom();
    AlignSO3<4> f;
    f.w = m.w;
    for (int i = 0; i < 4; ++i) {
      f.a[i] = spread_point(rng, i);
      f.b[i] = gt * f.a[i] + rvec3(rng, noise);
    }
    smooth::SO3d x = gt + rtan<3>(rng, rad);
    if (rad == 0.) x = gt;
    m.shape    = "static";
    m.known.g  = "{\"k\":\"SO3\"}";
    m.known.xt = coeff_vec(gt);
    run_mode(mode, m, f, sb, fresh, o, x);
  } else if (fam == 1) {
    smooth::SE2d gt;
    gt.setRandom();
    AlignSE2<4> f;
    f.w = m.w;
    for (int i = 0; i < 4; ++i) {
      f.a[i] = spread_point(rng, i).head<2>() + Eigen::Vector2d(0.2 * i, -0.1 * i);
      f.b[i] = gt * f.a[i] + rvec3(rng, noise).head<2>();
    }
    smooth::SE2d x = gt + rtan<3>(rng, rad);
    if (rad == 0.) x = gt;
    m.shape    = "static";
    m.known.g  = "{\"k\":\"SE2\"}";
    m.known.xt = coeff_vec(gt);
    run_mode(mode, m, f, sb, fresh, o, x);
  } else if (fam == 2) {
    smooth::SO3d Rt;
    Rt.setRandom();
    Eigen::Vector3d tt = rvec3(rng, 2.);
    for (int i = 0; i < 3; ++i)
      if (std::abs(tt(i)) < 0.2) tt(i) = tt(i) < 0 ? -0.2 - tt(i) * tt(i) : 0.2 + tt(i) * tt(i);  // minimiser away from zero coordinates
    const ZeroStart zs = m.w < 1e-5 ? ZeroStart{} : zero_start(k, fam, false);
    if (zs.which) {
      m.w        = 1;
      m.fscale   = 8.;
      o.max_iter = 1000;
    }
    AlignRt f;
    f.w = m.w;
    for (int i = 0; i < 4; ++i) {
      f.a[i] = spread_point(rng, i);
      f.b[i] = Rt * f.a[i] + tt + rvec3(rng, noise);
    }
    const Eigen::Matrix<double, 6, 1> d = rtan<6>(rng, rad);
    smooth::SO3d R                      = Rt + d.head<3>();
    Eigen::Vector3d t                   = tt + d.tail<3>();
    if (rad == 0.) {
      R = Rt;
      t = tt;
    }
    if (zs.which) {
      R = Rt + rtan<3>(rng, 0.3);
      apply_zero_start(zs, rng, t, m.start);
    }
    m.shape    = "multi";
    m.known.g  = "{\"k\":\"B\",\"parts\":[{\"k\":\"SO3\"},{\"k\":\"R\",\"n\":3}]}";
    m.known.xt = coeff_vec(Rt);
    coeffs_of(m.known.xt, tt);
    run_mode(zs.which ? zs.mode : mode, m, f, sb, fresh, o, R, t);
  } else {
    smooth::SO3d Rt;
    Rt.setRandom();
    const Eigen::Vector3d tt = rvec3(rng, 2.);
    const BundleRt gt(Rt, tt);
    AlignBundle f;
    f.w = m.w;
    for (int i = 0; i < 4; ++i) {
      f.a[i] = spread_point(rng, i);
      f.b[i] = gt.part<0>() * f.a[i] + gt.part<1>() + rvec3(rng, noise);
    }
    BundleRt x = gt + rtan<6>(rng, rad);
    if (rad == 0.) x = gt;
    m.shape    = "static";
    m.known.g  = "{\"k\":\"B\",\"parts\":[{\"k\":\"SO3\"},{\"k\":\"R\",\"n\":3}]}";
    m.known.xt = coeff_vec(gt);
    run_mode(mode, m, f, sb, fresh, o, x);
  }
#elif VH_PART == 2
  Opt o = options(rng, k, fam, true);
  m.w   = weight_of(k, fam, false);
  adapt_tolerances(o, m.w);
  const double rad   = start_radius(rng, static_cast<int>(k));
  const double noise = (k / 4) % 2 == 0 ? 0. : 1e-7;
  m.known.kind       = "grp";
  m.known.slack      = noise == 0. ? 1e-9 : 1e-5;
  m.fscale           = 8. * m.w;
  if (fam == 0) {
    smooth::SE3d gt;
    gt.setRandom();
    AlignSE3Dyn f;
    f.w = m.w;
    const int np = 4 + rng.idx(3);
    for (int i = 0; i < np; ++i) {
      f.a.push_back(spread_point(rng, i));
      f.b.push_back(gt * f.a.back() + rvec3(rng, noise));
    }
    smooth::SE3d x = gt + rtan<6>(rng, rad);
    if (rad == 0.) x = gt;
    m.shape    = "dynamic";
    m.known.g  = "{\"k\":\"SE3\"}";
    m.known.xt = coeff_vec(gt);
    run_mode(mode, m, f, sb, fresh, o, x);
  } else if (fam == 1) {
    smooth::SE3d gt;
    gt.setRandom();
    PoseSE3 f;
    f.w = m.w;
    for (int i = 0; i < 3; ++i) {
      smooth::SE3d h;
      h.setRandom();
      f.h.push_back(h);
      f.k.push_back(gt * h);
      Eigen::Matrix<double, 6, 1> nz;
      for (int j = 0; j < 6; ++j) nz(j) = rng.uni(-noise, noise);
      f.noise.push_back(nz);
    }
    smooth::SE3d x = gt + rtan<6>(rng, std::min(rad, 0.5));
    if (rad == 0.) x = gt;
    m.shape    = "dynamic";
    m.known.g  = "{\"k\":\"SE3\"}";
    m.known.xt = coeff_vec(gt);
    run_mode(mode, m, f, sb, fresh, o, x);
  } else {
    // generating elements g1 = identity, g2, g3 ; the measurements are their library differences
    smooth::SO3d g1t = smooth::SO3d::Identity(), g2t, g3t;
    g3t = g1t + rtan<3>(rng, rng.uni(0.2, 1.0));
    g2t = g3t + rtan<3>(rng, rng.uni(0.2, 1.0));
    ChainSO3 f;
    f.w = m.w;
    f.d23 = (g3t - g2t) + rvec3(rng, noise);
    f.d31 = (g1t - g3t) + rvec3(rng, noise);
    const double r3 = std::min(rad, 0.5);
    smooth::SO3d g1 = g1t + rtan<3>(rng, r3), g2 = g2t + rtan<3>(rng, r3), g3 = g3t + rtan<3>(rng, r3);
    if (rad == 0.) {
      g1 = g1t;
      g2 = g2t;
      g3 = g3t;
    }
    m.shape    = "sparse";
    m.known.g  = "{\"k\":\"B\",\"parts\":[{\"k\":\"SO3\"},{\"k\":\"SO3\"},{\"k\":\"SO3\"}]}";
    m.known.xt = coeff_vec(g1t);
    coeffs_of(m.known.xt, g2t);
    coeffs_of(m.known.xt, g3t);
    m.fscale = 4. * m.w;
    // modes: Analytic / Default use the sparse Jacobian, Numerical a dense one
    run_mode(mode, m, f, sb, fresh, o, g1, g2, g3);
  }
#else
  const Opt o = options(rng, k, fam, false);
  if (fam == 0) {
    Rosenbrock f;
    Eigen::Vector2d x = k % 2 == 0 ? Eigen::Vector2d(-1.2, 1.) : Eigen::Vector2d(rng.uni(-3, 3), rng.uni(-3, 3));
    m.shape           = "static";
    m.fscale          = std::max(1., f(x).cwiseAbs().maxCoeff());
    run_mode(mode, m, f, sb, fresh, o, x);
  } else if (fam == 1) {
    m.shape = "dynamic";
    if (k % 3 == 0) {
      // Powell's singular function
      const auto f = [](const VectorXd & x) -> VectorXd {
        VectorXd r(4);
        r << x(0) + 10 * x(1), std::sqrt(5.) * (x(2) - x(3)), (x(1) - 2 * x(2)) * (x(1) - 2 * x(2)),
          std::sqrt(10.) * (x(0) - x(3)) * (x(0) - x(3));
        return r;
      };
      VectorXd x(4);
      x << 3, -1, 0, 1;
      m.fscale = 100.;
      run_mode(mode, m, f, sb, fresh, o, x);
    } else if (k % 3 == 1) {
      // Freudenstein-Roth (a local minimum with non-zero residual attracts the standard start)
      const auto f = [](const VectorXd & x) -> VectorXd {
        VectorXd r(2);
        r << -13 + x(0) + ((5 - x(1)) * x(1) - 2) * x(1), -29 + x(0) + ((x(1) + 1) * x(1) - 14) * x(1);
        return r;
      };
      VectorXd x(2);
      x << 0.5, -2;
      m.fscale = 100.;
      run_mode(mode, m, f, sb, fresh, o, x);
    } else {
      // a cubic with an inflection: steps are rejected from far starts
      const auto f = [](const VectorXd & x) -> VectorXd {
        VectorXd r(2);
        r << x(0) * x(0) * x(0) - 2 * x(0) + 2, 0.1 * x(0);
        return r;
      };
      VectorXd x(1);
      x << rng.uni(-3, 3);
      m.fscale = 40.;
      run_mode(mode, m, f, sb, fresh, o, x);
    }
  } else if (fam == 2) {
    Misra1aStatic f;
    Eigen::Vector2d x = k % 2 == 0 ? Eigen::Vector2d(500, 1e-4) : Eigen::Vector2d(250, 5e-4);
    m.shape           = "static";
    m.fscale          = 600.;
    run_mode(mode, m, f, sb, fresh, o, x);
  } else if (fam == 3) {
    ScaleCubic f;
    f.c  = k % 2 == 0 ? 1. : 1000.;
    f.s  = (k / 2) % 2 == 0 ? 1e-8 : 1e-9;
    f.k  = (k / 4) % 2 == 0 ? 1e12 : 1e10;
    f.t0 = 0.05;
    Eigen::Matrix<double, 1, 1> x;
    x << f.t0;
    m.shape  = "static";
    m.fscale = f.c;
    run_mode(mode, m, f, sb, fresh, o, x);
  } else if (fam == 4) {
    // Jacobian exactly zero at the start (k even) / one zero Jacobian column (k odd)
    m.shape = "static";
    if (k % 2 == 0) {
      const auto f = [](const Eigen::Vector2d & x) -> Eigen::Vector2d { return Eigen::Vector2d(x(0) * x(0) + 1, x(1) * x(1) - 2); };
      Eigen::Vector2d x(0., 0.);
      m.fscale = 2.;
      run_mode(mode, m, f, sb, fresh, o, x);
    } else {
      const auto f = [](const Eigen::Vector3d & x) -> Eigen::Vector3d { return Eigen::Vector3d(x(0) - 1, 2 * x(0) + x(2) - 3, x(2) * x(2)); };
      Eigen::Vector3d x(rng.uni(-2, 2), rng.uni(-2, 2), rng.uni(-2, 2));
      m.fscale = 10.;
      run_mode(mode, m, f, sb, fresh, o, x);
    }
  } else {
    OffsetRosenbrock f;
    f.c               = k % 2 == 0 ? 1e9 : 1e7;
    Eigen::Vector2d x = Eigen::Vector2d(-1.2, 1.);
    m.shape           = "static";
    m.fscale          = f.c;
    run_mode(mode, m, f, sb, fresh, o, x);
  }
#endif
}

int main(int argc, char ** argv)
{
  vh::install_handlers();
  const std::string tier = vh::arg(argc, argv, "--tier", "quick");
  const uint64_t seed    = std::strtoull(vh::arg(argc, argv, "--seed", "1").c_str(), nullptr, 10);
  const long only        = std::strtol(vh::arg(argc, argv, "--group", "-1").c_str(), nullptr, 10);
  const long ngroups     = std::strtol(vh::arg(argc, argv, "--groups", tier == "quick" ? "16" : "450").c_str(), nullptr, 10);
  const std::string out  = vh::arg(argc, argv, "--out", "optim.ndjson");
  if (!g_sink.open(out)) return 2;
  vh::current_sink() = &g_sink;

  // a group: one strategy kind, three runs, either on one shared strategy object or on a fresh one each
  for (long g = 0; g < ngroups; ++g) {
    if (only >= 0 && g != only) continue;
    vh::Rng rng(seed * 1000003ull + static_cast<uint64_t>(VH_PART) * 7919ull + static_cast<uint64_t>(g) * 104729ull + 17ull);
    std::srand(static_cast<unsigned>(seed * 31 + g * 7 + VH_PART));  // setRandom() of the library uses std::rand
    // strategy kind and sharing are decorrelated from the family cycle (families advance by 3 per group)
    const int kind    = static_cast<int>((g + g / 2) % 2);
    const bool shared = (g / 4) % 2 == 1 || g % 7 == 3;
    {
      vh::Ev e;
      e.str("op", "group").num("part", VH_PART).num("group", g).num("shared", shared ? 1 : 0);
      g_sink.emit(e);
    }
    StratBox sb = make_strat(kind);
    for (int j = 0; j < 3; ++j) {
      const long idx = g * 3 + j;
      const int fam  = static_cast<int>(idx % NFAM);
      const long k   = idx / NFAM;
      const bool fresh = !shared || j == 0;
      if (!shared && j > 0) sb = make_strat(kind);
      run_family(fam, k, rng, sb, fresh);
    }
  }
  g_sink.close();
  return 0;
}
