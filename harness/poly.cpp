// Conformance harness, family "poly" (property C20): executes the polynomial / quadrature / search
// utilities of the real library and records every operand and result exactly (ndjson).  TLC validates
// the trace with spec/TracePoly.tla.  The harness never judges a result.
//
// Template parameters are compile-time: the instantiation lists (degree K = 0..10, derivative orders
// P = 0..K+1, LGR sizes 1..16, eight bases, the key/range types of the search) are generated below.
//
//   poly --part basis|monoint|lgr|monoderiv|lagrange|absint|search|searchlong|searchwide [--n N] [--seed S] --out F
//   poly --prog FILE --out F        explicit operands (replays, witnesses), one call per line:
//        absint t0 t1 A B C | monoderiv K u | lagrange K t0 .. tK | basis | monoint | lgr
//        search VARIANT DEN NQ q1..qNQ N r1..rN | searchwide NQ q1..qNQ N r1..rN
//        (numbers: anything strtod reads, e.g. hex floats)
#include <cmath>  // basis.hpp uses std::sqrt / std::abs without including <cmath> itself

#include <smooth/detail/utils.hpp>
#include <smooth/polynomial/basis.hpp>
#include <smooth/polynomial/quadrature.hpp>

#include <algorithm>
#include <csignal>
#include <array>
#include <deque>
#include <fstream>
#include <iostream>
#include <limits>
#include <span>
#include <sstream>

#include "common.hpp"

using namespace vh;
using PB = smooth::PolynomialBasis;

static Sink g_sink;

// A library call that does not return (crash / no termination) is itself an observation: the operands of
// the call in flight are kept here, and the signal handler completes the event with "crash": 1 (signal) or
// 2 (alarm: the call group did not return within 20 s) before the process ends (exit code 3).
static const std::string * g_pending = nullptr;
static volatile long g_done          = 0;  // queries of the pending search event that did return

static void on_signal(int sig)
{
  if (g_pending != nullptr && g_sink.f != nullptr) {
    std::string line = *g_pending;
    line += ",\"res\":[],\"crash\":";
    line += (sig == SIGALRM) ? "2" : "1";
    line += ",\"signal\":" + std::to_string(sig) + ",\"done\":" + std::to_string(g_done) + "}\n";
    std::fwrite(line.data(), 1, line.size(), g_sink.f);
    std::fflush(g_sink.f);
  } else if (g_sink.f != nullptr) {
    std::fputs("{\"op\":\"TRUNCATED\"}\n", g_sink.f);
    std::fflush(g_sink.f);
  }
  _exit(3);
}

static void install_signal_handlers()
{
  for (int sig : {SIGSEGV, SIGBUS, SIGFPE, SIGILL, SIGABRT, SIGALRM}) std::signal(sig, on_signal);
}

// ---------------------------------------------------------------------------------------- recording
template<std::size_t R, std::size_t C>
static std::string sm(const smooth::StaticMatrix<double, R, C> & M)
{
  std::string o = "[";
  for (std::size_t i = 0; i < R; ++i) {
    if (i) o += ',';
    o += '[';
    for (std::size_t j = 0; j < C; ++j) {
      if (j) o += ',';
      quad(o, M[i][j]);
    }
    o += ']';
  }
  o += ']';
  return o;
}

template<typename It>
static std::string qseq(It b, It e)
{
  std::string o = "[";
  for (It i = b; i != e; ++i) {
    if (i != b) o += ',';
    quad(o, static_cast<double>(*i));
  }
  o += ']';
  return o;
}

static std::string iseq(const std::vector<long> & v)
{
  std::string o = "[";
  for (std::size_t i = 0; i < v.size(); ++i) {
    if (i) o += ',';
    o += std::to_string(v[i]);
  }
  o += ']';
  return o;
}

// call f(std::integral_constant<size_t, k>) for the runtime k < N
template<std::size_t N, typename F>
static bool with_index(std::size_t k, F && f)
{
  bool hit = false;
  [&]<std::size_t... I>(std::index_sequence<I...>) {
    ((I == k ? (f(std::integral_constant<std::size_t, I>{}), hit = true) : false), ...);
  }(std::make_index_sequence<N>{});
  return hit;
}

template<std::size_t N, typename F>
static void for_index(F && f)
{
  [&]<std::size_t... I>(std::index_sequence<I...>) {
    (f(std::integral_constant<std::size_t, I>{}), ...);
  }(std::make_index_sequence<N>{});
}

constexpr std::size_t KMAX = 10;   // degrees 0..10
constexpr std::size_t LGRMAX = 16;  // 1..16 nodes

// ---------------------------------------------------------------------------------------- bases
template<PB B, std::size_t K>
static void emit_basis(const char * name, bool cumulative)
{
  {
    const auto M = smooth::polynomial_basis<B, K>();
    Ev e;
    e.str("op", "basis").str("basis", name).num("K", K).num("cum", 0).raw("M", sm(M));
    g_sink.emit(e);
  }
  if (cumulative) {
    const auto M = smooth::polynomial_cumulative_basis<B, K>();
    Ev e;
    e.str("op", "basis").str("basis", name).num("K", K).num("cum", 1).raw("M", sm(M));
    g_sink.emit(e);
  }
}

static void do_basis_all()
{
  for_index<KMAX + 1>([](auto Kc) {
    constexpr std::size_t K = decltype(Kc)::value;
    emit_basis<PB::Monomial, K>("monomial", false);
    emit_basis<PB::Bernstein, K>("bernstein", true);
    emit_basis<PB::Bspline, K>("bspline", true);
    emit_basis<PB::Legendre, K>("legendre", false);
    emit_basis<PB::Chebyshev1st, K>("cheb1", false);
    emit_basis<PB::Chebyshev2nd, K>("cheb2", false);
    emit_basis<PB::Hermite, K>("hermite", false);
    emit_basis<PB::Laguerre, K>("laguerre", false);
  });
}

// ---------------------------------------------------------------------------------------- monomials
static void do_monoint_all()
{
  for_index<KMAX + 1>([](auto Kc) {
    constexpr std::size_t K = decltype(Kc)::value;
    for_index<K + 2>([](auto Pc) {
      constexpr std::size_t P = decltype(Pc)::value;
      const auto M            = smooth::monomial_integral<K, P>();
      Ev e;
      e.str("op", "monoint").num("K", K).num("P", P).raw("M", sm(M));
      g_sink.emit(e);
    });
  });
}

// all derivative orders p = 0..K+1 through monomial_derivative (run-time p), and the stacked
// monomial_derivatives<K, P> for every P = 0..K+1
static void do_monoderiv(std::size_t Krt, double u)
{
  const bool ok = with_index<KMAX + 1>(Krt, [&](auto Kc) {
    constexpr std::size_t K = decltype(Kc)::value;
    {
      std::string rows = "[";
      for (std::size_t p = 0; p <= K + 1; ++p) {
        const auto U = smooth::monomial_derivative<K, double>(u, p);
        if (p) rows += ',';
        rows += qseq(U[0].begin(), U[0].end());
      }
      rows += ']';
      Ev e;
      e.str("op", "monoderiv").num("K", K).dbl("u", u).raw("rows", rows);
      g_sink.emit(e);
    }
    for_index<K + 2>([&](auto Pc) {
      constexpr std::size_t P = decltype(Pc)::value;
      const auto M            = smooth::monomial_derivatives<K, P, double>(u);
      Ev e;
      e.str("op", "monoderivs").num("K", K).num("P", P).dbl("u", u).raw("M", sm(M));
      g_sink.emit(e);
    });
  });
  if (!ok) { std::cerr << "monoderiv: K out of range\n"; std::exit(4); }
}

static void do_monoderiv_gen(int n, uint64_t seed)
{
  Rng rng(seed * 7919 + 11);
  std::vector<double> us = {0.0, -0.0, 1.0, -1.0, 0.5, -0.5, 2.0, -3.0, 10.0, -10.0, std::ldexp(1.0, -30), -1e-3, 0.1};
  while (static_cast<int>(us.size()) < n) {
    switch (us.size() % 3) {
    case 0: us.push_back(rng.uni(-1, 1)); break;
    case 1: us.push_back(rng.uni(-10, 10)); break;
    default: us.push_back(rng.sign() * rng.loguni(1e-8, 1.0)); break;
    }
  }
  us.resize(static_cast<std::size_t>(n));
  for (std::size_t i = 0; i < us.size(); ++i)
    for (std::size_t K = 0; K <= KMAX; ++K) do_monoderiv(K, us[i]);
}

// ---------------------------------------------------------------------------------------- Lagrange
static void do_lagrange(std::size_t Krt, const std::vector<double> & ts)
{
  const bool ok = with_index<KMAX + 1>(Krt, [&](auto Kc) {
    constexpr std::size_t K = decltype(Kc)::value;
    if (ts.size() != K + 1) { std::cerr << "lagrange: need K+1 nodes\n"; std::exit(4); }
    std::array<double, K + 1> a;
    std::copy(ts.begin(), ts.end(), a.begin());
    const auto M = smooth::lagrange_basis<K>(a);
    Ev e;
    e.str("op", "lagrange").num("K", K).vec("ts", ts).raw("M", sm(M));
    g_sink.emit(e);
    // the same nodes through another random-access range type
    if constexpr (K == 3) {
      const auto M2 = smooth::lagrange_basis<K>(ts);
      Ev e2;
      e2.str("op", "lagrange").num("K", K).vec("ts", ts).raw("M", sm(M2));
      g_sink.emit(e2);
    }
  });
  if (!ok) { std::cerr << "lagrange: K out of range\n"; std::exit(4); }
}

template<std::size_t N>
static std::vector<double> lgr_x()
{
  const auto [xs, ws] = smooth::lgr_nodes<N>();
  return std::vector<double>(xs.begin(), xs.end());
}

static std::vector<double> random_nodes(Rng & rng, std::size_t m, double lo, double hi, double sep)
{
  std::vector<double> t;
  int guard = 0;
  while (t.size() < m && guard < 100000) {
    ++guard;
    const double c = rng.uni(lo, hi);
    bool ok        = true;
    for (double x : t) ok = ok && std::fabs(x - c) >= sep;
    if (ok) t.push_back(c);
  }
  if (t.size() < m) { std::cerr << "random_nodes: could not place nodes\n"; std::exit(4); }
  return t;
}

static void do_lagrange_gen(int n, uint64_t seed)
{
  Rng rng(seed * 104729 + 5);
  for (std::size_t K = 0; K <= KMAX; ++K) {
    const std::size_t m = K + 1;
    // equispaced on [-1, 1]
    {
      std::vector<double> t(m);
      for (std::size_t i = 0; i < m; ++i) t[i] = (m == 1) ? 0.25 : -1.0 + 2.0 * static_cast<double>(i) / static_cast<double>(K);
      do_lagrange(K, t);
    }
    // the library's own LGR nodes (how the library uses lagrange_basis in collocation)
    {
      std::vector<double> t;
      with_index<KMAX + 1>(K, [&](auto Kc) { t = lgr_x<decltype(Kc)::value + 1>(); });
      do_lagrange(K, t);
    }
    // Chebyshev points (proposed with std::cos; the spec only sees the resulting doubles)
    {
      std::vector<double> t(m);
      for (std::size_t i = 0; i < m; ++i)
        t[i] = -std::cos(M_PI * (2.0 * static_cast<double>(i) + 1.0) / (2.0 * static_cast<double>(m)));
      do_lagrange(K, t);
    }
    // distinct integers in [-5, 5], unsorted (as in the repository's test {-3,-1,0,2,5})
    {
      std::vector<double> all;
      for (int v = -5; v <= 5; ++v) all.push_back(v);
      std::shuffle(all.begin(), all.end(), rng.g);
      all.resize(m);
      do_lagrange(K, all);
    }
    for (int r = 0; r < n; ++r) {
      switch (r % 3) {
      case 0: do_lagrange(K, random_nodes(rng, m, -1.0, 1.0, 1.0 / 32)); break;
      case 1: do_lagrange(K, random_nodes(rng, m, 0.0, 1.0, 1.0 / 48)); break;
      default: do_lagrange(K, random_nodes(rng, m, -4.0, 4.0, 1.0 / 8)); break;
      }
    }
  }
}

// ---------------------------------------------------------------------------------------- LGR
static void do_lgr_all()
{
  for_index<LGRMAX>([](auto Nc) {
    constexpr std::size_t N = decltype(Nc)::value + 1;
    const auto [xs, ws]     = smooth::lgr_nodes<N>();
    Ev e;
    e.str("op", "lgr").num("K", N).raw("xs", qseq(xs.begin(), xs.end())).raw("ws", qseq(ws.begin(), ws.end()));
    g_sink.emit(e);
  });
}

// ---------------------------------------------------------------------------------------- |quadratic|
static void do_absint(double t0, double t1, double A, double B, double C)
{
  const double out = smooth::integrate_absolute_polynomial(t0, t1, A, B, C);
  Ev e;
  e.str("op", "absint").dbl("t0", t0).dbl("t1", t1).dbl("A", A).dbl("B", B).dbl("C", C).dbl("out", out);
  g_sink.emit(e);
}

static void interval(Rng & rng, double & t0, double & t1)
{
  t0 = rng.uni(-10, 10);
  t1 = rng.uni(-10, 10);
  if (t1 < t0) std::swap(t0, t1);
}

static void do_absint_gen(int n, uint64_t seed)
{
  Rng rng(seed * 15485863 + 3);
  const double E9 = 1e-9;  // the magnitude at which the implementation switches its case analysis
  // fixed boundary cases first
  const double fixed[][5] = {
    {1, 10, 0, 0, 3},    {1, 10, 0, 2, 3},      {1, 10, 0, -2, 3},  {1, 10, 1, 2, 3},    {1, 10, -1, 2, 3},
    {-2, 2, 1, 0, -1},   {-1, 1, 1, 0, -1},     {-1, 1, 1, 0, 0},   {0, 0, 1, 2, 3},     {-3, 3, 0, 0, 0},
    {-10, 10, 1, 0, -4}, {-10, 10, -1, 0, 100}, {0, 2, 1, -2, 1},   {-1, 3, 2, -4, 2},   {-5, 5, 0, 1, 0},
    {-1, 1, E9, 1, 0},   {-1, 1, -E9, 1, 0},    {-2, 2, E9, -3, 1}, {-10, 10, E9, 0, 0}, {-10, 10, 0, E9, 0},
    {-10, 10, 0, -E9, 0},  {-10, 10, 5e-10, 0, -1e-8},
  };
  for (const auto & f : fixed) do_absint(f[0], f[1], f[2], f[3], f[4]);
  for (int i = 0; i < n; ++i) {
    double t0, t1, A, B, C;
    switch (i % 10) {
    case 0: {  // integers
      A  = rng.idx(21) - 10;
      B  = rng.idx(21) - 10;
      C  = rng.idx(21) - 10;
      t0 = rng.idx(21) - 10;
      t1 = rng.idx(21) - 10;
      if (t1 < t0) std::swap(t0, t1);
      break;
    }
    case 1: {  // generic reals
      A = rng.uni(-10, 10);
      B = rng.uni(-10, 10);
      C = rng.uni(-10, 10);
      interval(rng, t0, t1);
      break;
    }
    case 2: {  // prescribed roots, the interval ends on one or both of them
      const double r1 = rng.uni(-10, 10), r2 = rng.uni(-10, 10);
      A = rng.sign() * rng.uni(0.1, 10);
      B = -A * (r1 + r2);
      C = A * r1 * r2;
      t0 = std::min(r1, r2);
      t1 = (rng.idx(2) == 0) ? std::max(r1, r2) : std::min(10.0, std::max(r1, r2) + rng.uni(0, 3));
      break;
    }
    case 3: {  // double root (exact in integers), inside / at the end / outside of the interval
      const double r = rng.idx(13) - 6, a = (rng.idx(2) ? 1.0 : -1.0) * (1 + rng.idx(4));
      A = a;
      B = -2 * a * r;
      C = a * r * r;
      t0 = r - rng.idx(4);
      t1 = r + rng.idx(4);
      break;
    }
    case 4: {  // |A| at / next to 1e-9, the other coefficients generic
      const int k   = rng.idx(7) - 3;
      double a      = E9;
      for (int j = 0; j < std::abs(k); ++j) a = std::nextafter(a, k > 0 ? 1.0 : 0.0);
      if (rng.idx(4) == 0) a = E9 * (1 + rng.sign() * rng.loguni(1e-12, 1e-1));
      A = rng.sign() * a;
      B = rng.uni(-10, 10);
      C = rng.uni(-10, 10);
      interval(rng, t0, t1);
      break;
    }
    case 5: {  // |A| below 1e-9, B and C of any magnitude
      A = rng.sign() * rng.loguni(1e-13, 1e-9);
      B = rng.sign() * rng.loguni(1e-12, 10);
      C = rng.sign() * rng.loguni(1e-12, 10);
      interval(rng, t0, t1);
      break;
    }
    case 6: {  // all coefficients small
      A = rng.sign() * rng.loguni(1e-12, 1e-6);
      B = rng.sign() * rng.loguni(1e-12, 1e-6);
      C = rng.sign() * rng.loguni(1e-12, 1e-6);
      interval(rng, t0, t1);
      break;
    }
    case 7: {  // |B| at / next to 1e-9 with |A| below it
      const int k = rng.idx(5) - 2;
      double b    = E9;
      for (int j = 0; j < std::abs(k); ++j) b = std::nextafter(b, k > 0 ? 1.0 : 0.0);
      A = (rng.idx(3) == 0) ? 0.0 : rng.sign() * rng.loguni(1e-14, 1e-9);
      B = rng.sign() * b;
      C = rng.sign() * rng.loguni(1e-10, 1e-8);
      interval(rng, t0, t1);
      break;
    }
    case 8: {  // degenerate: linear, constant, zero, empty interval
      A = 0;
      B = (rng.idx(2) == 0) ? 0.0 : rng.uni(-10, 10);
      C = (rng.idx(4) == 0) ? 0.0 : rng.uni(-10, 10);
      interval(rng, t0, t1);
      if (rng.idx(5) == 0) t1 = t0;
      break;
    }
    default: {  // moderate |A| over many decades (straddles a switch moved elsewhere)
      A = rng.sign() * rng.loguni(1e-9, 10);
      B = rng.uni(-10, 10);
      C = rng.uni(-10, 10);
      interval(rng, t0, t1);
      break;
    }
    }
    do_absint(t0, t1, A, B, C);
  }
}

// ---------------------------------------------------------------------------------------- search
// keys are logged as integers k with the actual key k/den (den a power of two, so the doubles are exact)
struct Key  // a key type that is not convertible to double: the search bisects (alpha = 0.5)
{
  long v;
  auto operator<=>(const Key &) const = default;
};
struct Seg  // an element type searched through a user-supplied comparison (three-argument overload)
{
  double t;
  int payload;
};

static const char * const VARIANTS[] = {"dd", "dq", "ii", "id", "di", "ff", "key", "wo"};

// returns the 0-based position of the returned iterator (n = end)
static long search_one(const std::string & var, long den, const std::vector<long> & r, long q)
{
  const double dd = static_cast<double>(den);
  if (var == "dd") {
    std::vector<double> v;
    for (long k : r) v.push_back(static_cast<double>(k) / dd);
    const auto it = smooth::utils::binary_interval_search(v, static_cast<double>(q) / dd);
    return std::distance(std::ranges::cbegin(v), it);
  } else if (var == "dq") {
    std::deque<double> v;
    for (long k : r) v.push_back(static_cast<double>(k) / dd);
    const auto it = smooth::utils::binary_interval_search(v, static_cast<double>(q) / dd);
    return std::distance(std::ranges::cbegin(v), it);
  } else if (var == "ff") {
    std::vector<float> v;
    for (long k : r) v.push_back(static_cast<float>(k) / static_cast<float>(den));
    const auto it = smooth::utils::binary_interval_search(v, static_cast<float>(q) / static_cast<float>(den));
    return std::distance(std::ranges::cbegin(v), it);
  } else if (var == "ii") {
    if (den != 1) { std::cerr << "search ii: den must be 1\n"; std::exit(4); }
    std::vector<int> v;
    for (long k : r) v.push_back(static_cast<int>(k));
    const auto it = smooth::utils::binary_interval_search(v, static_cast<int>(q));
    return std::distance(std::ranges::cbegin(v), it);
  } else if (var == "id") {  // integer range, floating-point query
    std::vector<int> v;
    for (long k : r) {
      if (k % den != 0) { std::cerr << "search id: range keys must be integers\n"; std::exit(4); }
      v.push_back(static_cast<int>(k / den));
    }
    const auto it = smooth::utils::binary_interval_search(v, static_cast<double>(q) / dd);
    return std::distance(std::ranges::cbegin(v), it);
  } else if (var == "di") {  // floating-point range, integer query (as in the repository's tests)
    if (q % den != 0) { std::cerr << "search di: query must be an integer\n"; std::exit(4); }
    std::vector<double> v;
    for (long k : r) v.push_back(static_cast<double>(k) / dd);
    const auto it = smooth::utils::binary_interval_search(v, static_cast<int>(q / den));
    return std::distance(std::ranges::cbegin(v), it);
  } else if (var == "key") {
    std::vector<Key> v;
    for (long k : r) v.push_back(Key{k});
    const auto it = smooth::utils::binary_interval_search(v, Key{q});
    return std::distance(std::ranges::cbegin(v), it);
  } else if (var == "wo") {
    std::vector<Seg> v;
    for (long k : r) v.push_back(Seg{static_cast<double>(k) / dd, 7});
    const auto it = smooth::utils::binary_interval_search(
      v, static_cast<double>(q) / dd, [](const Seg & s, const double & t) { return s.t <=> t; });
    return std::distance(std::ranges::cbegin(v), it);
  }
  std::cerr << "search: unknown variant " << var << "\n";
  std::exit(4);
}

static void do_search(const std::string & var, long den, const std::vector<long> & qs, const std::vector<long> & r,
                      int exh, const std::vector<long> & alphabet)
{
  Ev e;
  e.str("op", "search").str("var", var).num("den", den).num("exh", exh).raw("alpha", iseq(alphabet));
  e.raw("r", iseq(r)).raw("q", iseq(qs));
  g_done    = 0;
  g_pending = &e.s;
  alarm(20);
  std::vector<long> res;
  for (long q : qs) {
    res.push_back(search_one(var, den, r, q));
    g_done = g_done + 1;
  }
  alarm(0);
  g_pending = nullptr;
  e.raw("res", iseq(res));
  g_sink.emit(e);
}

// the 13 queries below / on / between / above the six letters (letters are even multiples of 1/den apart)
static std::vector<long> queries13(const std::vector<long> & a)
{
  std::vector<long> q;
  q.push_back(a.front() - 1);
  for (std::size_t i = 0; i < a.size(); ++i) {
    q.push_back(a[i]);
    q.push_back(i + 1 < a.size() ? (a[i] + a[i + 1]) / 2 : a[i] + 1);
  }
  return q;
}

// every sorted range of length 0..8 over the alphabet, with repeats: length-major, then lexicographic
static void enum_ranges(const std::string & var, long den, const std::vector<long> & alphabet, std::size_t maxlen)
{
  const auto qs = queries13(alphabet);
  std::vector<long> r;
  for (std::size_t len = 0; len <= maxlen; ++len) {
    std::vector<std::size_t> idx(len, 0);
    while (true) {
      r.clear();
      for (std::size_t i : idx) r.push_back(alphabet[i]);
      do_search(var, den, qs, r, 1, alphabet);
      // next non-decreasing index vector in lexicographic order
      long p = static_cast<long>(len) - 1;
      while (p >= 0 && idx[static_cast<std::size_t>(p)] + 1 == alphabet.size()) --p;
      if (p < 0) break;
      const std::size_t v = idx[static_cast<std::size_t>(p)] + 1;
      for (std::size_t j = static_cast<std::size_t>(p); j < len; ++j) idx[j] = v;
    }
  }
}

// letters are logged scaled by den = 2 so that the "between" queries are integers too
static const std::vector<long> EVEN = {0, 2, 4, 6, 8, 10};      // {0,1,2,3,4,5}
static const std::vector<long> SKEW = {0, 2, 4, 6, 20, 200};    // {0,1,2,3,10,100}

static void do_search_exhaustive(const std::string & var, const std::string & alpha)
{
  const auto & a = (alpha == "even") ? EVEN : SKEW;
  // ii / key / di (integer queries) take the scaled integers themselves as keys (den = 1)
  const long den = (var == "ii" || var == "key" || var == "di") ? 1 : 2;
  enum_ranges(var, den, a, 8);
}

static void do_search_long(const std::string & var, int n, uint64_t seed)
{
  Rng rng(seed * 2654435761u + std::hash<std::string>{}(var) % 1000);
  const long den = (var == "ii" || var == "key") ? 1 : (var == "id" || var == "di") ? 2 : 1024;
  const long step = (var == "id") ? 2 : 1;  // integer range keys
  for (int c = 0; c < n; ++c) {
    std::size_t len;
    switch (c % 5) {
    case 0: len = static_cast<std::size_t>(rng.idx(12)); break;
    case 1: len = 9 + static_cast<std::size_t>(rng.idx(24)); break;
    default: len = static_cast<std::size_t>(rng.idx(201)); break;
    }
    std::vector<long> r;
    const int style = rng.idx(4);
    if (style == 0) {  // many repeats
      const long m = static_cast<long>(len) / 3 + 1;
      for (std::size_t i = 0; i < len; ++i) r.push_back(step * (rng.idx(static_cast<int>(m)) - m / 2));
    } else if (style == 1) {  // spread out
      for (std::size_t i = 0; i < len; ++i) r.push_back(step * (rng.idx(1 << 20) - (1 << 19)));
    } else if (style == 2) {  // skewed gaps: the interpolated pivot is far from the answer
      long x = step * (rng.idx(2001) - 1000);
      for (std::size_t i = 0; i < len; ++i) {
        r.push_back(x);
        x += step * static_cast<long>(rng.idx(3) == 0 ? 0 : std::floor(rng.loguni(1, 2e5)));
      }
    } else {  // a few clusters
      const long base[3] = {step * -5000, step * 17, step * 400000};
      for (std::size_t i = 0; i < len; ++i) r.push_back(base[rng.idx(3)] + step * rng.idx(3));
    }
    std::sort(r.begin(), r.end());
    std::vector<long> qs;
    const long qstep = (var == "di") ? 2 : 1;  // integer queries
    auto snap        = [&](long q) { return (q / qstep) * qstep; };
    if (len == 0) {
      for (int j = 0; j < 4; ++j) qs.push_back(snap(rng.idx(2001) - 1000));
    } else {
      qs.push_back(snap(r.front() - 2));
      qs.push_back(snap(r.front()));
      qs.push_back(snap(r.back()));
      qs.push_back(snap(r.back() + 2));
      for (int j = 0; j < 12; ++j) {
        const std::size_t i = static_cast<std::size_t>(rng.idx(static_cast<int>(len)));
        switch (j % 4) {
        case 0: qs.push_back(snap(r[i])); break;
        case 1: qs.push_back(snap(r[i] + (rng.idx(2) ? 1 : -1))); break;
        case 2: qs.push_back(snap((r[i] + r[std::min(i + 1, len - 1)]) / 2)); break;
        default: qs.push_back(snap(r.front() + static_cast<long>(rng.uni(0, 1) * static_cast<double>(r.back() - r.front())))); break;
        }
      }
    }
    do_search(var, den, qs, r, 0, {});
  }
}

// Keys of widely different magnitude: t - *left and *(rght-1) - *left may round to the same double, so that
// the interpolation factor alpha is exactly 1 and only the clamp of the pivot keeps the search inside the range.
// The range is a span inside a larger buffer with guard cells (-inf), so that a read past the end is defined
// behaviour of the harness and shows up as a wrong position instead of undefined behaviour.
static void do_search_wide(const std::vector<double> & r, const std::vector<double> & qs)
{
  constexpr std::size_t G = 4;
  std::vector<double> buf(r.size() + 2 * G, -std::numeric_limits<double>::infinity());
  std::copy(r.begin(), r.end(), buf.begin() + G);
  const std::span<const double> v(buf.data() + G, r.size());
  Ev e;
  e.str("op", "search").str("var", "dw").num("exh", 0).vec("rq", r).vec("qq", qs);
  g_done    = 0;
  g_pending = &e.s;
  alarm(20);
  std::vector<long> res;
  for (double q : qs) {
    const auto it = smooth::utils::binary_interval_search(v, q);
    res.push_back(std::distance(std::ranges::cbegin(v), it));
    g_done = g_done + 1;
  }
  alarm(0);
  g_pending = nullptr;
  e.raw("res", iseq(res));
  g_sink.emit(e);
}

static void do_search_wide_gen(int n, uint64_t seed)
{
  Rng rng(seed * 40503 + 77);
  for (int c = 0; c < n; ++c) {
    const std::size_t len = 2 + static_cast<std::size_t>(rng.idx(c % 4 == 0 ? 40 : 9));
    std::vector<double> r;
    const int style = c % 4;
    if (style == 0 || style == 1) {  // one or two huge negative keys in front of small ones
      const int nh = 1 + rng.idx(2);
      for (int i = 0; i < nh; ++i) r.push_back(-std::ldexp(1.0 + rng.uni(0, 1), 54 + rng.idx(900)));
      while (r.size() < len) r.push_back(style == 0 ? static_cast<double>(rng.idx(50)) : rng.uni(-100, 100));
    } else if (style == 2) {  // a huge positive key at the end
      while (r.size() + 1 < len) r.push_back(rng.uni(-100, 100));
      r.push_back(std::ldexp(1.0 + rng.uni(0, 1), 54 + rng.idx(900)));
    } else {  // all magnitudes
      while (r.size() < len) r.push_back(rng.sign() * std::ldexp(1.0 + rng.uni(0, 1), rng.idx(600) - 300));
    }
    std::sort(r.begin(), r.end());
    std::vector<double> qs = {r.front(), r.back(), std::nextafter(r.front(), -INFINITY), std::nextafter(r.back(), INFINITY)};
    for (int j = 0; j < 12; ++j) {
      const std::size_t i = static_cast<std::size_t>(rng.idx(static_cast<int>(len)));
      const double a = r[i], b = r[std::min(i + 1, len - 1)];
      switch (j % 4) {
      case 0: qs.push_back(a); break;
      case 1: qs.push_back(std::nextafter(a, rng.idx(2) ? INFINITY : -INFINITY)); break;
      case 2: qs.push_back(a / 2 + b / 2); break;
      default: qs.push_back(std::nextafter(b, -INFINITY)); break;
      }
    }
    do_search_wide(r, qs);
  }
}

// ---------------------------------------------------------------------------------------- programs
static void run_prog(const std::string & path)
{
  std::ifstream in(path);
  std::string line;
  while (std::getline(in, line)) {
    std::istringstream ss(line);
    std::string op;
    if (!(ss >> op)) continue;
    std::vector<std::string> tok;
    for (std::string t; ss >> t;) tok.push_back(t);
    auto num = [&](std::size_t i) {
      if (i >= tok.size()) { std::cerr << "prog: missing operand in: " << line << "\n"; std::exit(4); }
      return std::strtod(tok[i].c_str(), nullptr);
    };
    auto lng = [&](std::size_t i) {
      if (i >= tok.size()) { std::cerr << "prog: missing operand in: " << line << "\n"; std::exit(4); }
      return std::strtol(tok[i].c_str(), nullptr, 10);
    };
    if (op == "absint") {
      do_absint(num(0), num(1), num(2), num(3), num(4));
    } else if (op == "monoderiv") {
      do_monoderiv(static_cast<std::size_t>(lng(0)), num(1));
    } else if (op == "lagrange") {
      const std::size_t K = static_cast<std::size_t>(lng(0));
      std::vector<double> ts;
      for (std::size_t i = 0; i <= K; ++i) ts.push_back(num(1 + i));
      do_lagrange(K, ts);
    } else if (op == "basis") {
      do_basis_all();
    } else if (op == "monoint") {
      do_monoint_all();
    } else if (op == "lgr") {
      do_lgr_all();
    } else if (op == "searchwide") {
      const long nq = lng(0);
      std::vector<double> qs, r;
      for (long i = 0; i < nq; ++i) qs.push_back(num(1 + static_cast<std::size_t>(i)));
      const long n = lng(1 + static_cast<std::size_t>(nq));
      for (long i = 0; i < n; ++i) r.push_back(num(2 + static_cast<std::size_t>(nq + i)));
      do_search_wide(r, qs);
    } else if (op == "search") {
      const std::string var = tok.at(0);
      const long den        = lng(1);
      const long nq         = lng(2);
      std::vector<long> qs, r;
      for (long i = 0; i < nq; ++i) qs.push_back(lng(3 + static_cast<std::size_t>(i)));
      const long n = lng(3 + static_cast<std::size_t>(nq));
      for (long i = 0; i < n; ++i) r.push_back(lng(4 + static_cast<std::size_t>(nq + i)));
      do_search(var, den, qs, r, 0, {});
    } else {
      std::cerr << "prog: unknown op " << op << "\n";
      std::exit(4);
    }
  }
}

int main(int argc, char ** argv)
{
  install_handlers();
  install_signal_handlers();
  const std::string out  = arg(argc, argv, "--out", "");
  const std::string part = arg(argc, argv, "--part", "");
  const std::string prog = arg(argc, argv, "--prog", "");
  const int n            = std::atoi(arg(argc, argv, "--n", "10").c_str());
  const uint64_t seed    = std::strtoull(arg(argc, argv, "--seed", "1").c_str(), nullptr, 10);
  const std::string var  = arg(argc, argv, "--var", "dd");
  const std::string alph = arg(argc, argv, "--alpha", "even");
  if (out.empty() || !g_sink.open(out)) {
    std::cerr << "cannot open --out\n";
    return 4;
  }
  current_sink() = &g_sink;
  if (!prog.empty()) {
    run_prog(prog);
  } else if (part == "basis") {
    do_basis_all();
  } else if (part == "monoint") {
    do_monoint_all();
  } else if (part == "lgr") {
    do_lgr_all();
  } else if (part == "monoderiv") {
    do_monoderiv_gen(n, seed);
  } else if (part == "lagrange") {
    do_lagrange_gen(n, seed);
  } else if (part == "absint") {
    do_absint_gen(n, seed);
  } else if (part == "search") {
    do_search_exhaustive(var, alph);
  } else if (part == "searchlong") {
    do_search_long(var, n, seed);
  } else if (part == "searchwide") {
    do_search_wide_gen(n, seed);
  } else {
    std::cerr << "unknown --part\n";
    return 4;
  }
  g_sink.close();
  return 0;
}
