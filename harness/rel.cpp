// Conformance harness, family "rel" (property C17): relations and conversions between groups.
// Records operands and results of the real library; TLC validates with spec/TraceRel.tla.
#include <smooth/c1.hpp>
#include <smooth/galilei.hpp>
#include <smooth/se2.hpp>
#include <smooth/se3.hpp>
#include <smooth/se_k_3.hpp>
#include <smooth/so2.hpp>
#include <smooth/so3.hpp>

#include <complex>
#include <functional>

#include "common.hpp"
#include "lie_desc.hpp"

using namespace vh;

#ifndef VH_SCALAR
#define VH_SCALAR double
#endif
using S = VH_SCALAR;
static const char * SC = sizeof(S) == 4 ? "f" : "d";

using SO2 = smooth::SO2<S>;
using SO3 = smooth::SO3<S>;
using SE2 = smooth::SE2<S>;
using SE3 = smooth::SE3<S>;
using C1  = smooth::C1<S>;
using Gal = smooth::Galilei<S>;
using K1  = smooth::SE_K_3<S, 1>;
using K2  = smooth::SE_K_3<S, 2>;

template<typename G>
static G mk(const std::vector<double> & c)
{
  G g;
  Desc<G>::set(g, c.data());
  return g;
}
template<typename G>
static std::vector<Field> fields_of()
{
  std::vector<Field> f;
  Desc<G>::fields(f, 0, 0);
  return f;
}
template<typename G>
static std::vector<double> rand_elem(Rng & r, int st, int tcls)
{
  static const auto f = fields_of<G>();
  Gen gen{f, Desc<G>::Rep, Desc<G>::Dofs, sizeof(S) == 4};
  return gen.element(r, st, tcls);
}
template<typename G>
static std::vector<double> rand_tan(Rng & r, int st, int tcls)
{
  static const auto f = fields_of<G>();
  Gen gen{f, Desc<G>::Rep, Desc<G>::Dofs, sizeof(S) == 4};
  return gen.tangent(r, st, tcls, r.idx(4));
}
template<typename G>
static Eigen::Matrix<S, Desc<G>::Dofs, 1> tan_of(const std::vector<double> & a)
{
  Eigen::Matrix<S, Desc<G>::Dofs, 1> t;
  for (int i = 0; i < Desc<G>::Dofs; ++i) t(i) = static_cast<S>(a[static_cast<std::size_t>(i)]);
  return t;
}

static Sink sink;
static Ev ev(const char * op, const char * sub)
{
  Ev e;
  e.str("op", op).str("sub", sub).str("sc", SC);
  return e;
}

// ---- SE_K_3<1> vs SE3, SE_K_3<2> vs Galilei(tau = 0) ------------------------------------------------
template<typename GA, typename GB>
static void pair_ops(const char * op, const std::vector<double> & ca1, const std::vector<double> & ca2, const std::vector<double> & ta,
                     const std::function<std::vector<double>(const std::vector<double> &)> & elem_map,
                     const std::function<std::vector<double>(const std::vector<double> &)> & tan_map)
{
  const GA a1 = mk<GA>(ca1), a2 = mk<GA>(ca2);
  const GB b1 = mk<GB>(elem_map(ca1)), b2 = mk<GB>(elem_map(ca2));
  const auto va = tan_of<GA>(ta);
  const auto vb = tan_of<GB>(tan_map(ta));
  {
    auto e = ev(op, "compose");
    e.vec("a", a1.coeffs()).vec("b", a2.coeffs()).vec("x", (a1 * a2).coeffs()).vec("y", (b1 * b2).coeffs());
    sink.emit(e);
  }
  {
    auto e = ev(op, "inverse");
    e.vec("a", a1.coeffs()).vec("x", a1.inverse().coeffs()).vec("y", b1.inverse().coeffs());
    sink.emit(e);
  }
  {
    auto e = ev(op, "log");
    e.vec("a", a1.coeffs()).vec("x", a1.log()).vec("y", b1.log());
    sink.emit(e);
  }
  {
    auto e = ev(op, "exp");
    e.vec("a", va).vec("x", GA::exp(va).coeffs()).vec("y", GB::exp(vb).coeffs());
    sink.emit(e);
  }
  {
    auto e = ev(op, "Ad");
    e.vec("a", a1.coeffs()).mat("x", a1.Ad()).mat("y", b1.Ad());
    sink.emit(e);
  }
  {
    auto e = ev(op, "ad");
    e.vec("a", va).mat("x", GA::ad(va)).mat("y", GB::ad(vb));
    sink.emit(e);
  }
  {
    auto e = ev(op, "dr_exp");
    e.vec("a", va).mat("x", GA::dr_exp(va)).mat("y", GB::dr_exp(vb));
    sink.emit(e);
  }
  {
    auto e = ev(op, "dr_expinv");
    e.vec("a", va).mat("x", GA::dr_expinv(va)).mat("y", GB::dr_expinv(vb));
    sink.emit(e);
  }
}

int main(int argc, char ** argv)
{
  install_handlers();
  const std::string out = arg(argc, argv, "--out", "/dev/stdout");
  const long n          = std::atol(arg(argc, argv, "--n", "20").c_str());
  const uint64_t seed   = std::strtoull(arg(argc, argv, "--seed", "1").c_str(), nullptr, 10);
  Rng r(seed * 1000003ull + (sizeof(S) == 4 ? 13 : 0) + 991);
  if (!sink.open(out)) return 2;
  current_sink() = &sink;
  const bool isf = sizeof(S) == 4;
  auto rnd       = [&](double x) { return isf ? static_cast<double>(static_cast<float>(x)) : x; };

  for (long i = 0; i < n; ++i) {
    const int st   = static_cast<int>(i % kNumElemStrata);
    const int tcls = static_cast<int>(i / kNumElemStrata) % 3;
    // --- SE_K_3<1> = SE3 (identical coefficient layout)
    {
      auto id = [](const std::vector<double> & c) { return c; };
      pair_ops<SE3, K1>("sek1", rand_elem<SE3>(r, st, tcls), rand_elem<SE3>(r, r.idx(kNumElemStrata), r.idx(3)),
                        rand_tan<SE3>(r, r.idx(9), r.idx(3)), id, id);
    }
    // --- SE_K_3<2> = Galilei with tau = 0 / s = 0  (Galilei: v p tau q ; tangent b q s w)
    {
      auto c1 = rand_elem<Gal>(r, st, tcls), c2 = rand_elem<Gal>(r, r.idx(kNumElemStrata), r.idx(3));
      auto ta = rand_tan<Gal>(r, r.idx(9), r.idx(3));
      c1[6] = c2[6] = 0;
      ta[6]         = 0;
      auto emap     = [](const std::vector<double> & c) {
        std::vector<double> o(c.begin(), c.begin() + 6);
        o.insert(o.end(), c.begin() + 7, c.end());
        return o;
      };
      pair_ops<Gal, K2>("sek2", c1, c2, ta, emap, emap);
    }
    // --- lifts / projections
    {
      const SO2 a = mk<SO2>(rand_elem<SO2>(r, st, 0)), b = mk<SO2>(rand_elem<SO2>(r, r.idx(kNumElemStrata), 0));
      const Eigen::Matrix<S, 1, 1> w{static_cast<S>(rnd(r.uni(-3.1, 3.1)))};
      Eigen::Matrix<S, 3, 1> w3;
      w3 << S(0), S(0), w(0);
      auto e = ev("lift_so3", "-");
      e.vec("a", a.coeffs()).vec("b", b.coeffs()).vec("la", a.lift_so3().coeffs()).vec("lb", b.lift_so3().coeffs());
      e.vec("lab", (a * b).lift_so3().coeffs()).vec("la_lb", (a.lift_so3() * b.lift_so3()).coeffs());
      e.vec("proj", a.lift_so3().project_so2().coeffs());
      e.vec("w", w).vec("lexp", SO2::exp(w).lift_so3().coeffs()).vec("expl", SO3::exp(w3).coeffs());
      sink.emit(e);
    }
    {
      const SE2 a = mk<SE2>(rand_elem<SE2>(r, st, tcls)), b = mk<SE2>(rand_elem<SE2>(r, r.idx(kNumElemStrata), r.idx(3)));
      const auto wv = tan_of<SE2>(rand_tan<SE2>(r, r.idx(9), r.idx(3)));
      Eigen::Matrix<S, 6, 1> w6;
      w6 << wv(0), wv(1), S(0), S(0), S(0), wv(2);
      auto e = ev("lift_se3", "-");
      e.vec("a", a.coeffs()).vec("b", b.coeffs()).vec("la", a.lift_se3().coeffs()).vec("lb", b.lift_se3().coeffs());
      e.vec("lab", (a * b).lift_se3().coeffs()).vec("la_lb", (a.lift_se3() * b.lift_se3()).coeffs());
      e.vec("proj", a.lift_se3().project_se2().coeffs());
      e.vec("w", wv).vec("lexp", SE2::exp(wv).lift_se3().coeffs()).vec("expl", SE3::exp(w6).coeffs());
      sink.emit(e);
    }
    // --- C1 = scaling * so2
    {
      const C1 c = mk<C1>(rand_elem<C1>(r, st, 0));
      auto e     = ev("c1", "-");
      e.vec("a", c.coeffs()).dbl("scaling", static_cast<double>(c.scaling())).vec("so2", c.so2().coeffs()).dbl("angle", static_cast<double>(c.angle()));
      sink.emit(e);
    }
    // --- rot_x / rot_y / rot_z
    for (int ax = 0; ax < 3; ++ax) {
      static const double specials[] = {0.0, M_PI / 2, -M_PI / 2, M_PI, -M_PI, 1e-9, 3.0, -7.5};
      const S t = static_cast<S>(rnd(i < 8 ? specials[i] : r.uni(-7, 7)));
      const SO3 g = ax == 0 ? SO3::rot_x(t) : ax == 1 ? SO3::rot_y(t) : SO3::rot_z(t);
      auto e      = ev("rot", "-");
      e.num("axis", ax + 1).dbl("t", static_cast<double>(t)).vec("out", g.coeffs());
      sink.emit(e);
    }
    // --- quaternion constructor: unnormalised, either sign of w
    {
      Eigen::Quaternion<S> q(static_cast<S>(r.uni(-2, 2)), static_cast<S>(r.uni(-2, 2)), static_cast<S>(r.uni(-2, 2)), static_cast<S>(r.uni(-2, 2)));
      if (i % 5 == 0) q.w() = S(0);
      if (i % 7 == 0) q.coeffs() *= S(1e-3);
      const SO3 g(q);
      auto e = ev("quat", "-");
      e.vec("q", q.coeffs()).vec("out", g.coeffs()).vec("back", g.quat().coeffs());
      sink.emit(e);
    }
    // --- complex constructors
    {
      std::complex<S> z(static_cast<S>(r.uni(-3, 3)), static_cast<S>(r.uni(-3, 3)));
      if (i % 6 == 0) z = std::complex<S>(S(-1.5), S(0));
      const SO2 g(z);
      const C1 c(z);
      auto e = ev("complex", "-");
      e.dbl("re", static_cast<double>(z.real())).dbl("im", static_cast<double>(z.imag())).vec("so2", g.coeffs()).vec("c1", c.coeffs());
      e.dbl("u1re", static_cast<double>(g.u1().real())).dbl("u1im", static_cast<double>(g.u1().imag()));
      e.dbl("c1re", static_cast<double>(c.c1().real())).dbl("c1im", static_cast<double>(c.c1().imag()));
      sink.emit(e);
    }
    // --- Eigen isometries
    {
      const SE3 g = mk<SE3>(rand_elem<SE3>(r, st, tcls));
      const auto T = g.isometry();
      const SE3 back(T);
      auto e = ev("iso3", "-");
      e.vec("a", g.coeffs()).mat("M", T.matrix()).vec("back", back.coeffs());
      sink.emit(e);
      const SE2 h = mk<SE2>(rand_elem<SE2>(r, st, tcls));
      const auto T2 = h.isometry();
      const SE2 back2(T2);
      auto e2 = ev("iso2", "-");
      e2.vec("a", h.coeffs()).mat("M", T2.matrix()).vec("back", back2.coeffs());
      sink.emit(e2);
    }
    // --- Euler angles (ZYX), away from gimbal lock
    {
      const double yaw = r.uni(-3.1, 3.1), pitch = r.uni(-1.5, 1.5), roll = r.uni(-3.1, 3.1);
      const SO3 g = SO3::rot_z(static_cast<S>(yaw)) * SO3::rot_y(static_cast<S>(pitch)) * SO3::rot_x(static_cast<S>(roll));
      const Eigen::Matrix<S, 3, 1> ea = g.eulerAngles();
      const SO3 back = SO3::rot_z(ea(0)) * SO3::rot_y(ea(1)) * SO3::rot_x(ea(2));
      auto e         = ev("euler", "-");
      e.vec("a", g.coeffs()).vec("ea", ea).vec("back", back.coeffs());
      sink.emit(e);
    }
    // --- SO2 angles: full circle incl. the cuts and both signs of zero
    {
      static const double cs[][2] = {{0.0, 1.0},  {-0.0, 1.0}, {1.0, 0.0},   {-1.0, 0.0},  {0.0, -1.0}, {-0.0, -1.0},
                                     {1e-17, -1.0}, {-1e-17, -1.0}, {1e-300, 1.0}, {-1e-300, 1.0}};
      std::vector<double> c;
      if (i < 10) c = {rnd(cs[i][0]), rnd(cs[i][1])};
      else c = rand_elem<SO2>(r, st, 0);
      const SO2 g = mk<SO2>(c);
      auto e      = ev("angle", "-");
      e.vec("a", g.coeffs()).dbl("angle", static_cast<double>(g.angle())).dbl("cw", static_cast<double>(g.angle_cw())).dbl("ccw", static_cast<double>(g.angle_ccw()));
      // the inverse element too (the property's range claims must hold for every element)
      const SO2 gi = g.inverse();
      e.vec("ai", gi.coeffs()).dbl("iangle", static_cast<double>(gi.angle())).dbl("icw", static_cast<double>(gi.angle_cw())).dbl("iccw", static_cast<double>(gi.angle_ccw()));
      sink.emit(e);
    }
  }
  sink.close();
  return 0;
}
