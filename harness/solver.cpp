// Conformance harness, family "solver" (property C10): executes smooth::solve_linear_ldlt,
// smooth::solve_trust_region and smooth::colwise_norm of the real library on generated or explicit
// systems, for every storage of J (dense col-major / row-major / fixed-size, sparse row-major /
// col-major, compressed and uncompressed, with and without stored zeros), and records every
// operand and result exactly (ndjson).  TLC validates the trace with spec/TraceSolver.tla.
// The harness never judges a result; std:: math is used only to propose inputs.
#include <Eigen/Core>
#include <Eigen/QR>
#include <Eigen/Sparse>

#include <algorithm>
#include <functional>
#include <optional>

#include <smooth/detail/math.hpp>
#include <smooth/optim/tr_solver.hpp>

#include "common.hpp"

using namespace vh;
using Eigen::Index;
using MatD  = Eigen::MatrixXd;
using MatR  = Eigen::Matrix<double, Eigen::Dynamic, Eigen::Dynamic, Eigen::RowMajor>;
using VecD  = Eigen::VectorXd;
using SpCol = Eigen::SparseMatrix<double, Eigen::ColMajor>;
using SpRow = Eigen::SparseMatrix<double, Eigen::RowMajor>;

struct System
{
  long id = 0;
  int m = 0, n = 0;
  std::string kind = "exp";       // how the entries were proposed (informative only)
  int dep[5] = {0, 0, 0, 0, 0};   // claimed witness: column dep[0] = dep[3]*column dep[1] + dep[4]*column dep[2] (1-based; 0 = none)
  MatD J;
  VecD d, r;
  double lam = 1, Delta = 1;
};

// ------------------------------------------------------------------ sparse storages

// zeros dropped, compressed
template<typename Sp>
static Sp sp_plain(const MatD & J)
{
  std::vector<Eigen::Triplet<double>> t;
  for (Index i = 0; i < J.rows(); ++i)
    for (Index j = 0; j < J.cols(); ++j)
      if (J(i, j) != 0) t.emplace_back(i, j, J(i, j));
  Sp S(J.rows(), J.cols());
  S.setFromTriplets(t.begin(), t.end());
  S.makeCompressed();
  return S;
}

// compressed, about half of the zero entries stored explicitly
static SpCol sp_with_zeros(const MatD & J, Rng & g)
{
  std::vector<Eigen::Triplet<double>> t;
  for (Index i = 0; i < J.rows(); ++i)
    for (Index j = 0; j < J.cols(); ++j)
      if (J(i, j) != 0 || (g.g() & 1u)) t.emplace_back(i, j, J(i, j));
  SpCol S(J.rows(), J.cols());
  S.setFromTriplets(t.begin(), t.end());
  S.makeCompressed();
  return S;
}

// uncompressed row-major: slack reserved in every row, entries inserted in shuffled order
static SpRow sp_uncompressed(const MatD & J, Rng & g)
{
  SpRow S(J.rows(), J.cols());
  S.reserve(Eigen::VectorXi::Constant(J.rows(), static_cast<int>(J.cols()) + 2));
  std::vector<std::pair<Index, Index>> pos;
  for (Index i = 0; i < J.rows(); ++i)
    for (Index j = 0; j < J.cols(); ++j)
      if (J(i, j) != 0) pos.emplace_back(i, j);
  std::shuffle(pos.begin(), pos.end(), g.g);
  for (auto [i, j] : pos) S.insert(i, j) = J(i, j);
  return S;   // deliberately NOT compressed
}

// ------------------------------------------------------------------ recording

struct Res
{
  std::string s = "[";
  bool first    = true;
  void open(const char * st)
  {
    if (!first) s += ',';
    first = false;
    s += "{\"st\":\"";
    s += st;
    s += "\"";
  }
  template<typename V>
  void vec(const char * k, const V & v)
  {
    s += ",\"";
    s += k;
    s += "\":";
    VecD tmp = v;
    qvec(s, tmp);
  }
  void dbl(const char * k, double v)
  {
    s += ",\"";
    s += k;
    s += "\":";
    quad(s, v);
  }
  void close() { s += '}'; }
  std::string done() { return s + "]"; }
};

static Ev head(const char * op, const System & y)
{
  Ev e;
  e.str("op", op).num("id", y.id).num("m", y.m).num("n", y.n).str("kind", y.kind);
  e.raw("dep", "[" + std::to_string(y.dep[0]) + "," + std::to_string(y.dep[1]) + "," + std::to_string(y.dep[2]) + ","
                 + std::to_string(y.dep[3]) + "," + std::to_string(y.dep[4]) + "]");
  return e;
}

template<typename JT>
static void rec_ldlt(Res & R, const char * st, const JT & J, const System & y)
{
  double dphi     = std::numeric_limits<double>::quiet_NaN();
  const VecD x    = smooth::solve_linear_ldlt(J, y.d, y.r, y.lam, dphi);
  const VecD x0   = smooth::solve_linear_ldlt(J, y.d, y.r, y.lam);
  R.open(st);
  R.vec("x", x);
  R.dbl("dphi", dphi);
  R.vec("x0", x0);
  R.close();
}

template<typename JT>
static void rec_tr(Res & R, const char * st, const JT & J, const System & y)
{
  const auto [dx, lambda] = smooth::solve_trust_region(J, y.d, y.r, y.Delta);
  R.open(st);
  R.vec("x", VecD(dx));
  R.dbl("lam", lambda);
  R.close();
}

template<typename JT>
static void rec_cn(Res & R, const char * st, const JT & J)
{
  const VecD out = smooth::colwise_norm(J);
  R.open(st);
  R.vec("out", out);
  R.close();
}

// fixed-size dense instantiations (static N exercises Eigen::Vector<Scalar, N> and the static LDLT)
template<int MM, int NN, typename F>
static bool with_fixed(const MatD & J, F && f)
{
  if ((MM == Eigen::Dynamic || J.rows() == MM) && (NN == Eigen::Dynamic || J.cols() == NN)) {
    const Eigen::Matrix<double, MM, NN> Jf = J;
    f(Jf);
    return true;
  }
  return false;
}
template<typename F>
static void fixed_dispatch(const MatD & J, F && f)
{
  if (with_fixed<3, 2>(J, f)) return;
  if (with_fixed<6, 6>(J, f)) return;
  if (with_fixed<4, 6>(J, f)) return;
  if (with_fixed<1, 1>(J, f)) return;
  if (J.rows() > 6 || J.rows() == 5) with_fixed<Eigen::Dynamic, 3>(J, f);
}

static void run_system(Sink & sink, const System & y, unsigned what)
{
  Rng zr(static_cast<uint64_t>(y.id) * 7919u + 13u);   // layout of the stored zeros / insertion order (replayable)
  const MatR Jr     = y.J;
  const SpRow srow  = sp_plain<SpRow>(y.J);
  const SpCol scol  = sp_plain<SpCol>(y.J);
  const SpCol scolz = sp_with_zeros(y.J, zr);
  const SpRow srowu = sp_uncompressed(y.J, zr);

  if (what & 1u) {
    Res R;
    rec_ldlt(R, "dense", y.J, y);
    rec_ldlt(R, "drow", Jr, y);
    fixed_dispatch(y.J, [&](const auto & Jf) { rec_ldlt(R, "dfix", Jf, y); });
    rec_ldlt(R, "srow", srow, y);
    rec_ldlt(R, "scol", scol, y);
    rec_ldlt(R, "scolz", scolz, y);
    rec_ldlt(R, "srowu", srowu, y);
    Ev e = head("ldlt", y);
    e.mat("J", y.J).vec("d", y.d).vec("r", y.r).dbl("lam", y.lam).raw("res", R.done());
    sink.emit(e);
  }
  if (what & 2u) {
    Res R;
    rec_tr(R, "dense", y.J, y);
    rec_tr(R, "drow", Jr, y);
    fixed_dispatch(y.J, [&](const auto & Jf) { rec_tr(R, "dfix", Jf, y); });
    rec_tr(R, "srow", srow, y);
    rec_tr(R, "scol", scol, y);
    rec_tr(R, "scolz", scolz, y);
    rec_tr(R, "srowu", srowu, y);
    Ev e = head("tr", y);
    e.mat("J", y.J).vec("d", y.d).vec("r", y.r).dbl("Delta", y.Delta).raw("res", R.done());
    sink.emit(e);
  }
  if (what & 4u) {
    Res R;
    rec_cn(R, "dense", y.J);
    rec_cn(R, "drow", Jr);
    fixed_dispatch(y.J, [&](const auto & Jf) { rec_cn(R, "dfix", Jf); });
    rec_cn(R, "srow", srow);
    rec_cn(R, "scol", scol);
    rec_cn(R, "scolz", scolz);
    rec_cn(R, "srowu", srowu);
    Ev e = head("colnorm", y);
    e.mat("J", y.J).raw("res", R.done());
    sink.emit(e);
  }
}

// ------------------------------------------------------------------ generator (proposes inputs only)

static double pow10d(int k)
{
  char b[16];
  std::snprintf(b, sizeof b, "1e%d", k);
  return std::strtod(b, nullptr);
}

static double pick_reg(Rng & g, int slot)
{
  // decades 1e-6 .. 1e6 in turn, every third value with a random mantissa inside the range
  const int k = ((slot % 13) + 13) % 13 - 6;
  if (slot % 3 == 2) return std::min(1e6, std::max(1e-6, pow10d(k) * g.uni(0.3, 3.0)));
  return pow10d(k);
}

struct Plan
{
  int m, n;
  int pat;    // 0 gen, 1 dep, 2 zcol, 3 zero
  int kind;   // 0 int, 1 rnd, 2 svd
  bool friendly = false;   // propose d and lambda such that trace(H) / (lambda min d^2) is moderate
};

static System make_system(long id, const Plan & p, Rng & g)
{
  System y;
  y.id = id;
  y.m  = p.m;
  y.n  = p.n;
  const int m = p.m, n = p.n;
  y.J.setZero(m, n);
  y.r.setZero(m);
  int kind = p.kind;
  if (kind == 2 && (m < 2 || n < 2)) kind = 1;
  // SCALE stratum of J: 1, 1e-3, 1e-7, 1e3 (powers of two for the integer kind, so that integer relations,
  // dependencies and J'r stay exact); r of size 1 or of the size of J
  const int scl_tab[] = {0, 0, 1, 2, 2, 3};
  const int sclass    = p.friendly ? scl_tab[g.idx(5)] : scl_tab[g.idx(6)];
  const double sc10[] = {1.0, 1e-3, 1e-7, 1e3};
  const double sc2[]  = {1.0, 0x1p-10, 0x1p-23, 0x1p10};
  const double sc     = (kind == 0) ? sc2[sclass] : sc10[sclass];
  const double rs     = (g.idx(3) == 0) ? sc : 1.0;
  if (kind == 0) {
    y.kind = "int";
    for (int i = 0; i < m; ++i)
      for (int j = 0; j < n; ++j) y.J(i, j) = sc * static_cast<double>(g.idx(7) - 3);
    for (int i = 0; i < m; ++i) y.r(i) = rs * static_cast<double>(g.idx(11) - 5);
  } else if (kind == 1) {
    y.kind             = "rnd";
    const double dens[] = {1.0, 1.0, 0.6, 0.25};
    const double den    = dens[g.idx(4)];
    for (int i = 0; i < m; ++i)
      for (int j = 0; j < n; ++j) y.J(i, j) = (g.uni(0, 1) < den) ? sc * g.uni(-1, 1) : 0.0;
    for (int i = 0; i < m; ++i) y.r(i) = rs * g.uni(-1, 1);
  } else {
    y.kind = "svd";
    MatD A(m, m), B(n, n);
    for (int i = 0; i < m; ++i)
      for (int j = 0; j < m; ++j) A(i, j) = g.uni(-1, 1);
    for (int i = 0; i < n; ++i)
      for (int j = 0; j < n; ++j) B(i, j) = g.uni(-1, 1);
    const MatD U = Eigen::HouseholderQR<MatD>(A).householderQ();
    const MatD W = Eigen::HouseholderQR<MatD>(B).householderQ();
    const int k  = std::min(m, n);
    const int dec = g.idx(7);   // sigma from 1 down to 10^-dec
    MatD S        = MatD::Zero(m, n);
    for (int i = 0; i < k; ++i) S(i, i) = std::pow(10.0, -dec * (k > 1 ? static_cast<double>(i) / (k - 1) : 0.0));
    y.J = sc * (U * S * W.transpose());
    for (int i = 0; i < m; ++i) y.r(i) = rs * g.uni(-1, 1);
  }
  // rank pattern
  if (p.pat == 1 && n >= 2) {
    const int j = g.idx(n);
    int k       = g.idx(n - 1);
    if (k >= j) ++k;
    const int as[] = {1, -1, 2, -2};
    const int a    = as[g.idx(4)];
    int l = 0, b = 0;
    if (kind == 0 && n >= 3 && g.idx(2) == 0) {
      do { l = g.idx(n); } while (l == j || l == k);
      b = as[g.idx(4)];
      y.J.col(j) = a * y.J.col(k) + b * y.J.col(l);   // exact: small integers times a power of two
      ++l;
    } else {
      y.J.col(j) = a * y.J.col(k);   // exact in binary floating point
    }
    y.dep[0] = j + 1;
    y.dep[1] = k + 1;
    y.dep[2] = l;
    y.dep[3] = a;
    y.dep[4] = b;
  } else if (p.pat == 2 || (p.pat == 1 && n < 2)) {
    y.J.col(g.idx(n)).setZero();
    if (n >= 4 && g.idx(2) == 0) y.J.col(g.idx(n)).setZero();
  } else if (p.pat == 3) {
    y.J.setZero();
  }
  // right-hand side variants
  const int rv = g.idx(8);
  if (rv == 0) {
    y.r.setZero();
  } else if (rv == 1) {
    VecD z(n);
    for (int i = 0; i < n; ++i) z(i) = (kind == 0) ? static_cast<double>(g.idx(5) - 2) : g.uni(-1, 1);
    y.r = y.J * z;   // consistent system
  } else if (rv == 2 && m >= 2) {
    const int i = g.idx(m);   // r supported on a zero row of J: J' r = 0 exactly
    y.J.row(i).setZero();
    y.r.setZero();
    y.r(i) = rs * ((kind == 0) ? 3.0 : g.uni(-1, 1));   // (a dependency, if any, is preserved by zeroing a row)
  }
  // scaling vector
  y.d.resize(n);
  // variants: ones / log-uniform (both times a scale 1, 1e-4 or 1e3) / one entry 1e-6 / one entry 1e3 / both /
  // clamped column norms; for the smallest J scale the clamped column norms (what the caller passes) half of the time
  int dv = p.friendly ? g.idx(2) : g.idx(6);
  if (!p.friendly && sclass == 2 && g.idx(2) == 0) dv = 5;
  const double ds_tab[] = {1.0, 1.0, 1e-4, 1e3};
  const double ds       = (p.friendly || dv > 1) ? 1.0 : ds_tab[g.idx(4)];
  for (int i = 0; i < n; ++i) y.d(i) = ds * ((dv == 0) ? 1.0 : g.loguni(0.1, 10.0));
  if (dv == 2 || dv == 4) y.d(g.idx(n)) = 1e-6;
  if (dv == 3 || dv == 4) y.d(g.idx(n)) = 1e3;
  if (dv == 5) {
    // what minimize() passes: clamped column norms
    for (int i = 0; i < n; ++i) y.d(i) = std::clamp(y.J.col(i).norm(), 1e-6, 1e32);
  }
  y.lam   = pick_reg(g, static_cast<int>(id));
  y.Delta = pick_reg(g, static_cast<int>(id * 5 + 3));
  if (!p.friendly && sclass == 2 && g.idx(2) == 0) {
    // small J: weak regularisation half of the time, so that J'J is not negligible against lambda D^2
    y.lam   = pick_reg(g, g.idx(3));        // 1e-6 .. 1e-4
    y.Delta = pick_reg(g, 10 + g.idx(3));   // 1e4 .. 1e6
  }
  if (p.friendly) {
    // only a proposal: the specification recomputes the certified condition bound exactly
    for (int t = 0; t < 40; ++t) {
      const double tr = y.J.squaredNorm() + y.lam * y.d.squaredNorm();
      if (tr <= 3e7 * y.lam * y.d.cwiseAbs2().minCoeff()) break;
      y.lam = pick_reg(g, g.idx(13 * 3));
    }
  }
  return y;
}

static std::vector<Plan> make_plans(const std::string & tier, Rng & g, long nbig)
{
  std::vector<Plan> ps;
  const int reps = (tier == "thorough") ? 60 : 1;
  // every shape up to 6 x 6, every rank pattern, integer and floating entries
  for (int rep = 0; rep < reps; ++rep)
    for (int m = 1; m <= 6; ++m)
      for (int n = 1; n <= 6; ++n)
        for (int pat = 0; pat < 4; ++pat) {
          if (pat == 1 && n < 2) continue;
          for (int kind = 0; kind < 2; ++kind) ps.push_back({m, n, pat, kind});
          if (pat == 0 && m >= 2 && n >= 2) ps.push_back({m, n, 0, 2});
        }
  // sampled larger shapes up to 40 x 40
  const long nmid = (tier == "thorough") ? 10 * nbig : 6 * nbig;
  for (long i = 0; i < nmid; ++i) ps.push_back({7 + g.idx(14), 7 + g.idx(14), g.idx(4), g.idx(3), i % 2 == 0});
  for (long i = 0; i < nbig; ++i) {
    int m = 21 + g.idx(20), n = 21 + g.idx(20);
    int pat = g.idx(4);
    if (i % 4 == 0) { m = n = 40; pat = static_cast<int>((i / 4) % 4); }
    if (i % 4 == 1) { m = 40; n = 21 + g.idx(20); }
    if (i % 4 == 2) { n = 40; m = 21 + g.idx(19); if ((i / 4) % 2 == 0) pat = 0; }   // strictly wide
    ps.push_back({m, n, pat, g.idx(3), (i / 4) % 3 != 2});
  }
  return ps;
}

// ------------------------------------------------------------------ explicit programs (replay / witnesses)
// line:  sys <id> <m> <n> <what> <dj> <dk> <dl> <da> <db> <lam> <Delta> <J row-major ...> <d ...> <r ...>
// numbers are C99 hex floats (exact)
static bool run_prog(Sink & sink, const std::string & path)
{
  FILE * f = std::fopen(path.c_str(), "r");
  if (!f) return false;
  char tag[16];
  while (std::fscanf(f, "%15s", tag) == 1) {
    if (std::strcmp(tag, "sys") != 0) return false;
    System y;
    unsigned what = 7;
    if (std::fscanf(f, "%ld %d %d %u %d %d %d %d %d", &y.id, &y.m, &y.n, &what, &y.dep[0], &y.dep[1], &y.dep[2], &y.dep[3], &y.dep[4]) != 9) return false;
    auto rd = [&](double & x) {
      char b[64];
      if (std::fscanf(f, "%63s", b) != 1) return false;
      x = std::strtod(b, nullptr);
      return true;
    };
    if (!rd(y.lam) || !rd(y.Delta)) return false;
    y.J.resize(y.m, y.n);
    y.d.resize(y.n);
    y.r.resize(y.m);
    for (int i = 0; i < y.m; ++i)
      for (int j = 0; j < y.n; ++j)
        if (!rd(y.J(i, j))) return false;
    for (int j = 0; j < y.n; ++j)
      if (!rd(y.d(j))) return false;
    for (int i = 0; i < y.m; ++i)
      if (!rd(y.r(i))) return false;
    run_system(sink, y, what);
  }
  std::fclose(f);
  return true;
}

int main(int argc, char ** argv)
{
  install_handlers();
  const std::string out  = arg(argc, argv, "--out", "");
  const std::string prog = arg(argc, argv, "--prog", "");
  const std::string tier = arg(argc, argv, "--tier", "quick");
  const uint64_t seed    = std::strtoull(arg(argc, argv, "--seed", "1").c_str(), nullptr, 10);
  const long nbig        = std::strtol(arg(argc, argv, "--nbig", "4").c_str(), nullptr, 10);
  if (out.empty()) {
    std::fprintf(stderr, "usage: solver --out trace.ndjson [--tier quick|thorough --seed S --nbig K | --prog file]\n");
    return 2;
  }
  Sink sink;
  if (!sink.open(out)) return 2;
  current_sink() = &sink;
  if (!prog.empty()) {
    if (!run_prog(sink, prog)) {
      std::fprintf(stderr, "cannot read program %s\n", prog.c_str());
      return 2;
    }
  } else {
    Rng g(seed * 2654435761u + 77u);
    const auto plans = make_plans(tier, g, nbig);
    long id          = 0;
    for (const auto & p : plans) {
      const System y = make_system(id, p, g);
      run_system(sink, y, 7u);
      ++id;
    }
  }
  sink.close();
  return 0;
}
