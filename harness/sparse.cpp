// Conformance harness, family "sparse" (property C19): executes ad_sparse / dr_exp_sparse /
// dr_expinv_sparse / d2r_exp_sparse / d2r_expinv_sparse of the real library on pre-allocated host
// matrices and records, for every call, the tangent, the block index, the PUBLISHED pattern
// variable of the group, the host before and after the call (Eigen's three compressed arrays and
// isCompressed()) and the result of the corresponding dense routine - all numbers exactly.
// The harness never judges anything; TLC validates the trace with spec/TraceSparse.tla.
// One group type per translation unit (-DVH_GROUP=<n>, -DVH_SCALAR=double|float).
#include <smooth/bundle.hpp>
#include <smooth/c1.hpp>
#include <smooth/lie_sparse.hpp>
#include <smooth/se2.hpp>
#include <smooth/se3.hpp>
#include <smooth/so2.hpp>
#include <smooth/so3.hpp>

#include <algorithm>
#include <map>
#include <set>

#include "common.hpp"
#include "lie_desc.hpp"

using namespace vh;

#ifndef VH_SCALAR
#define VH_SCALAR double
#endif
using S = VH_SCALAR;

// clang-format off
template<int N> using Rn = Eigen::Matrix<S, N, 1>;
#if VH_GROUP == 0
using G0 = smooth::SO2<S>;
#elif VH_GROUP == 1
using G0 = smooth::SO3<S>;
#elif VH_GROUP == 2
using G0 = smooth::SE2<S>;
#elif VH_GROUP == 3
using G0 = smooth::SE3<S>;
#elif VH_GROUP == 4
using G0 = smooth::C1<S>;
#elif VH_GROUP == 5
using G0 = Rn<3>;
#elif VH_GROUP == 6
using G0 = smooth::Bundle<Rn<3>, smooth::SO2<S>>;
#elif VH_GROUP == 7
using G0 = smooth::Bundle<Rn<3>, smooth::SO3<S>>;
#elif VH_GROUP == 8
using G0 = smooth::Bundle<smooth::SE2<S>, smooth::SO2<S>, Rn<2>, smooth::SE3<S>>;
#elif VH_GROUP == 9
using G0 = smooth::Bundle<smooth::Bundle<smooth::SO3<S>, Rn<2>>, smooth::C1<S>, smooth::SE2<S>>;
#elif VH_GROUP == 10
using G0 = smooth::Bundle<Rn<1>, smooth::SO2<S>, smooth::C1<S>>;
#elif VH_GROUP == 11
using G0 = smooth::Bundle<smooth::SO3<S>, smooth::SO3<S>>;
#elif VH_GROUP == 12
using G0 = smooth::Bundle<smooth::SE3<S>, smooth::SE2<S>>;
#elif VH_GROUP == 13
using G0 = smooth::Bundle<smooth::Bundle<smooth::SE2<S>, smooth::SO2<S>>, smooth::Bundle<Rn<2>, smooth::SO3<S>>>;
#elif VH_GROUP == 14
using G0 = smooth::Bundle<smooth::SE2<S>, Rn<3>, smooth::SO3<S>, Rn<2>, smooth::C1<S>, smooth::Bundle<Rn<3>, smooth::SO3<S>>, smooth::SE3<S>>;
#elif VH_GROUP == 15
using G0 = smooth::Bundle<smooth::SE2<S>, smooth::Bundle<smooth::C1<S>, smooth::Bundle<smooth::SE3<S>, Rn<1>>>>;
#else
#error "unknown VH_GROUP"
#endif
// clang-format on

template<typename G>
struct Run
{
static constexpr int DOF = smooth::Dof<G>;
using Tan  = Eigen::Matrix<S, DOF, 1>;
using Sp   = Eigen::SparseMatrix<S>;
using Dsc  = Desc<G>;
using Idx  = Eigen::Index;

enum Kind { K_AD = 0, K_J = 1, K_H = 2 };

struct Ctx
{
  Sink sink;
  std::string gj, sc;
  std::vector<Field> fields;
  Rng rng{1};
};

// ------------------------------------------------------------------ recording

// the three arrays of a compressed matrix (read through the raw pointers); an uncompressed matrix
// (possible only after a call that inserted) is recorded through its iterators
static std::string dump(const Sp & m, bool with_values)
{
  std::string o = "{\"rows\":" + std::to_string(m.rows()) + ",\"cols\":" + std::to_string(m.cols()) +
                  ",\"comp\":" + (m.isCompressed() ? "1" : "0");
  std::vector<long> outer, inner;
  std::vector<double> vals;
  if (m.isCompressed()) {
    const auto * op = m.outerIndexPtr();
    const auto * ip = m.innerIndexPtr();
    const S * vp    = m.valuePtr();
    for (Idx c = 0; c <= m.outerSize(); ++c) outer.push_back(op[c]);
    const long nnz = op[m.outerSize()];
    for (long k = 0; k < nnz; ++k) {
      inner.push_back(ip[k]);
      vals.push_back(static_cast<double>(vp[k]));
    }
  } else {
    outer.push_back(0);
    for (Idx c = 0; c < m.outerSize(); ++c) {
      for (typename Sp::InnerIterator it(m, c); it; ++it) {
        inner.push_back(it.row());
        vals.push_back(static_cast<double>(it.value()));
      }
      outer.push_back(static_cast<long>(inner.size()));
    }
  }
  o += ",\"outer\":[";
  for (std::size_t i = 0; i < outer.size(); ++i) o += (i ? "," : "") + std::to_string(outer[i]);
  o += "],\"inner\":[";
  for (std::size_t i = 0; i < inner.size(); ++i) o += (i ? "," : "") + std::to_string(inner[i]);
  o += "]";
  if (with_values) {
    o += ",\"vals\":";
    qvec(o, vals);
  }
  o += "}";
  return o;
}

// ------------------------------------------------------------------ hosts

// documented designation of the block positions: i0 is the block index for rows and for columns;
// Hessians live in a host with R rows whose column index is R*(variable index) + (variable index)
static std::pair<Idx, Idx> host_pos(int kind, Idx R, Idx i0, Idx r, Idx c)
{
  if (kind == K_H) return {i0 + r, R * (i0 + c / DOF) + i0 + (c % DOF)};
  return {i0 + r, i0 + c};
}
static bool in_block(int kind, Idx R, Idx i0, Idx r, Idx c)
{
  if (r < i0 || r >= i0 + DOF) return false;
  if (kind == K_H) {
    const Idx b = c / R, cc = c % R;
    return b >= i0 && b < i0 + DOF && cc >= i0 && cc < i0 + DOF;
  }
  return c >= i0 && c < i0 + DOF;
}

// extras mode: 0 none, 1 around the block only, 2 inside the block only, 3 both, 4 every position stored
static Sp make_host(int kind, const Sp & pat, Idx i0, Idx tail, int xm, Rng & r, bool mincols)
{
  const Idx R = (kind == K_AD) ? DOF : i0 + DOF + tail;
  const Idx C = (kind == K_H) ? (mincols ? R * (i0 + DOF) : R * R) : R;
  std::map<std::pair<Idx, Idx>, S> ent;  // (col, row) -> junk value
  auto junk = [&]() { return static_cast<S>(r.sign() * r.uni(1.0, 2.0)); };
  for (Idx c = 0; c < pat.outerSize(); ++c)
    for (typename Sp::InnerIterator it(pat, c); it; ++it) {
      const auto p                = host_pos(kind, R, i0, it.row(), it.col());
      ent[{p.second, p.first}] = junk();
    }
  const std::size_t npat = ent.size();
  if (xm == 4 && R * C <= 1500) {
    for (Idx rr = 0; rr < R; ++rr)
      for (Idx cc = 0; cc < C; ++cc)
        if (!ent.count({cc, rr})) ent[{cc, rr}] = junk();
  } else if (xm != 0) {
    const bool want_out = (xm == 1 || xm == 3 || xm == 4), want_in = (xm == 2 || xm == 3 || xm == 4);
    const int target    = 2 + static_cast<int>(npat / 4) + r.idx(4);
    int tries           = 0, added_in = 0, added_out = 0;
    while (added_in + added_out < target && tries++ < 40 * target + 200) {
      Idx rr, cc;
      const bool try_in = want_in && (!want_out || (r.idx(2) == 0));
      if (try_in) {
        const Idx lr = r.idx(DOF), lc = r.idx(kind == K_H ? DOF * DOF : DOF);
        const auto p = host_pos(kind, R, i0, lr, lc);
        rr = p.first, cc = p.second;
      } else {
        rr = r.idx(static_cast<int>(R)), cc = r.idx(static_cast<int>(C));
      }
      const bool inb = in_block(kind, R, i0, rr, cc);
      if (inb && !want_in) continue;
      if (!inb && !want_out) continue;
      if (ent.count({cc, rr})) continue;
      ent[{cc, rr}] = junk();
      (inb ? added_in : added_out)++;
    }
  }
  std::vector<Eigen::Triplet<S>> trip;
  trip.reserve(ent.size());
  for (const auto & [k, v] : ent) trip.emplace_back(k.second, k.first, v);
  Sp h(R, C);
  h.setFromTriplets(trip.begin(), trip.end());
  h.makeCompressed();
  return h;
}

// ------------------------------------------------------------------ cases

static Tan to_tan(const std::vector<double> & a)
{
  Tan t;
  for (int i = 0; i < DOF; ++i) t(i) = static_cast<S>(a[static_cast<std::size_t>(i)]);
  return t;
}

static const char * op_name(int op)
{
  static const char * n[] = {"ad", "dr_exp", "dr_expinv", "d2r_exp", "d2r_expinv"};
  return n[op];
}
static int op_kind(int op) { return op == 0 ? K_AD : (op <= 2 ? K_J : K_H); }

static const Sp & pattern_of(int kind)
{
  if (kind == K_AD) return smooth::ad_sparse_pattern<G>;
  if (kind == K_J) return smooth::d_exp_sparse_pattern<G>;
  return smooth::d2_exp_sparse_pattern<G>;
}

// the published pattern variables of the group (clause C19.pattern)
static void patterns_case(Ctx & c)
{
  Ev e;
  e.str("op", "patterns").raw("g", c.gj).str("sc", c.sc).num("n", DOF);
  e.raw("ad", dump(smooth::ad_sparse_pattern<G>, false));
  e.raw("dexp", dump(smooth::d_exp_sparse_pattern<G>, false));
  e.raw("d2exp", dump(smooth::d2_exp_sparse_pattern<G>, false));
  c.sink.emit(e);
}

// one call: op in 0..4; host geometry (i0, tail, xm, mincols) and junk from `hseed`
static void call_case(Ctx & c, int op, Idx i0, Idx tail, int xm, bool mincols, uint64_t hseed, const std::vector<double> & av)
{
  const int kind = op_kind(op);
  if (kind == K_AD) { i0 = 0; tail = 0; }
  const Tan a = to_tan(av);
  Rng hr(hseed);
  const Sp pat_before = pattern_of(kind);  // copy: the published variable as it is before the call
  Sp host             = make_host(kind, pat_before, i0, tail, xm, hr, mincols);
  Ev e;
  e.str("op", op_name(op)).raw("g", c.gj).str("sc", c.sc).num("n", DOF).num("i0", static_cast<long>(i0));
  e.vec("a", a);
  e.raw("pat", dump(pat_before, false));
  e.raw("pre", dump(host, true));
  // the call under observation
  switch (op) {
  case 0: smooth::ad_sparse<G>(host, a); break;
  case 1: smooth::dr_exp_sparse<G>(host, a, i0); break;
  case 2: smooth::dr_expinv_sparse<G>(host, a, i0); break;
  case 3: smooth::d2r_exp_sparse<G>(host, a, i0); break;
  default: smooth::d2r_expinv_sparse<G>(host, a, i0); break;
  }
  e.raw("post", dump(host, true));
  // the dense routine
  if (kind == K_H) {
    const smooth::Hessian<G> D = (op == 3) ? smooth::d2r_exp<G>(a) : smooth::d2r_expinv<G>(a);
    e.mat("dense", D);
  } else {
    const smooth::TangentMap<G> D = (op == 0) ? smooth::ad<G>(a) : (op == 1) ? smooth::dr_exp<G>(a) : smooth::dr_expinv<G>(a);
    e.mat("dense", D);
  }
  e.num("xm", xm).num("tail", static_cast<long>(tail)).num("mincols", mincols ? 1 : 0);
  // everything needed to re-run exactly this call
  {
    char buf[128];
    std::snprintf(buf, sizeof buf, "%d %ld %ld %d %d %llu", op, static_cast<long>(i0), static_cast<long>(tail), xm, mincols ? 1 : 0,
                  static_cast<unsigned long long>(hseed));
    std::string pl = std::string(buf) + " ;";
    for (int i = 0; i < DOF; ++i) {
      std::snprintf(buf, sizeof buf, " %a", static_cast<double>(a(i)));
      pl += buf;
    }
    e.str("prog", pl);
  }
  c.sink.emit(e);
}

// ------------------------------------------------------------------ tangents

// class 0 zero; 1 single axis; 2 small-angle branch; 3 generic O(1); 4 around the series/closed-form switch;
// 5 large angle; 6 small integers; 7 tiny (denormal-free) values
static std::vector<double> tangent(Ctx & c, const Gen & gen, int cls, long i)
{
  std::vector<double> a(static_cast<std::size_t>(DOF), 0.0);
  switch (cls) {
  case 0: break;
  case 1: {
    const double mags[] = {1.0, -0.5, 2.5, 1e-6, -3e-3};
    a[static_cast<std::size_t>(i % DOF)] = mags[(i / DOF) % 5];
    break;
  }
  case 2: a = gen.tangent(c.rng, 1 + static_cast<int>(i % 3), 1 + static_cast<int>(i % 2), static_cast<int>(i % 4), 4); break;
  case 3: a = gen.tangent(c.rng, 7 + static_cast<int>(i % 2), 1, static_cast<int>(i % 4), 9); break;
  case 4: a = gen.tangent(c.rng, 4, 1, static_cast<int>(i % 4), 9); break;
  case 5: a = gen.tangent(c.rng, 8, 1 + static_cast<int>(i % 2), static_cast<int>(i % 4), 9); break;
  case 6: a = gen.tangent_c03(c.rng, 4); for (auto & x : a) x *= 0.25; break;
  default: a = gen.tangent(c.rng, 5 + static_cast<int>(i % 2), 1, static_cast<int>(i % 4), 9); break;
  }
  gen.round_to_scalar(a);
  return a;
}

static int main_(int argc, char ** argv)
{
  install_handlers();
  Ctx c;
  const std::string out  = arg(argc, argv, "--out", "/dev/stdout");
  const long nt          = std::atol(arg(argc, argv, "--n", "10").c_str());       // tangents per host geometry
  const long noff        = std::atol(arg(argc, argv, "--offsets", "6").c_str());  // number of block offsets
  const long hmax        = std::atol(arg(argc, argv, "--hmax", "1000000").c_str());  // cap on calls per Hessian op
  const uint64_t seed    = std::strtoull(arg(argc, argv, "--seed", "1").c_str(), nullptr, 10);
  const std::string prog = arg(argc, argv, "--prog", "");
  c.rng                  = Rng(seed * 1000003ull + static_cast<uint64_t>(VH_GROUP) * 7919ull + (sizeof(S) == 4 ? 13 : 0));
  c.gj                   = Dsc::json();
  c.sc                   = sizeof(S) == 4 ? "f" : "d";
  Dsc::fields(c.fields, 0, 0);
  if (!c.sink.open(out)) return 2;
  current_sink() = &c.sink;
  Gen gen{c.fields, Dsc::Rep, DOF, sizeof(S) == 4};

  if (!prog.empty()) {
    // explicit calls (replays, witnesses):  <op> <i0> <tail> <xm> <mincols> <hseed> ; a1 a2 ...   | patterns
    FILE * pf = std::fopen(prog.c_str(), "r");
    if (!pf) return 2;
    char buf[1 << 14];
    while (std::fgets(buf, sizeof buf, pf)) {
      std::string line(buf);
      if (line.rfind("patterns", 0) == 0) {
        patterns_case(c);
        continue;
      }
      if (line.empty() || line[0] == '#' || line[0] == '\n') continue;
      const auto semi = line.find(';');
      if (semi == std::string::npos) return 2;
      int op, xm, mc;
      long i0, tail;
      unsigned long long hs;
      if (std::sscanf(line.c_str(), "%d %ld %ld %d %d %llu", &op, &i0, &tail, &xm, &mc, &hs) != 6) return 2;
      std::vector<double> a;
      const char * p = line.c_str() + semi + 1;
      while (*p) {
        char * endp;
        const double x = std::strtod(p, &endp);
        if (endp == p) break;
        a.push_back(x);
        p = endp;
      }
      a.resize(static_cast<std::size_t>(DOF), 0.0);
      if (op < 0 || op > 4 || i0 < 0 || tail < 0) return 2;
      call_case(c, op, i0, tail, xm, mc != 0, hs, a);
    }
    std::fclose(pf);
    c.sink.close();
    return 0;
  }

  patterns_case(c);
  // block offsets: 0..3, then Dof, 2*Dof+1, ...
  std::vector<Idx> offs;
  for (long k = 0; k < noff; ++k) offs.push_back(k < 4 ? k : (k == 4 ? DOF : (k - 3) * DOF + (k - 4)));
  long ctr = 0;
  for (int op = 0; op < 5; ++op) {
    const int kind = op_kind(op);
    long hcalls    = 0;  // cap per Hessian operation
    const std::size_t no = (kind == K_AD) ? 1 : offs.size();
    for (std::size_t oi = 0; oi < no; ++oi) {
      // big Hessian hosts only at the small offsets
      if (kind == K_H && DOF >= 9 && oi >= 4) continue;
      for (long t = 0; t < nt; ++t, ++ctr) {
        if (kind == K_H && hcalls >= hmax) break;
        const Idx i0   = offs[oi];
        const Idx tail = static_cast<Idx>((ctr + static_cast<long>(oi)) % 3);
        const int xm   = static_cast<int>((ctr / 2 + static_cast<long>(oi)) % 5);
        const bool mc  = kind == K_H && tail == 0 ? false : (kind == K_H && (ctr % 7 == 3));
        const int cls  = static_cast<int>(t % 8);
        // commutative groups have no rotation strata worth repeating; the classes still differ in magnitudes
        const auto a = tangent(c, gen, cls, ctr);
        call_case(c, op, i0, tail, xm, mc, c.rng.g(), a);
        if (kind == K_H) ++hcalls;
      }
    }
  }
  c.sink.close();
  return 0;
}
};  // struct Run

int main(int argc, char ** argv) { return Run<G0>::main_(argc, argv); }
