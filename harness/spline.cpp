// Conformance harness, family "spline" (property C12): replays operation programs on real
// smooth::Spline<K, G> objects held in a small register file and records, after every mutator, the
// five per-segment vectors (through the SMOOTH_VERIF SplineProbe hook) and, for every evaluation,
// value / velocity / acceleration.  TLC validates the trace with spec/TraceSpline.tla.
// One (K, G) pair per translation unit: -DVH_K=<1..5> -DVH_GROUP=<n>.
#include <smooth/bundle.hpp>
#include <smooth/se2.hpp>
#include <smooth/se3.hpp>
#include <smooth/so3.hpp>
#include <smooth/spline/spline.hpp>

#include "common.hpp"
#include "lie_desc.hpp"

#ifndef SMOOTH_VERIF
#error "the spline harness needs the SMOOTH_VERIF hooks"
#endif

SMOOTH_BEGIN_NAMESPACE
namespace verif {
struct SplineProbe
{
  template<int K, typename G>
  static const G & g0(const Spline<K, G> & s) { return s.m_g0; }
  template<int K, typename G>
  static const std::vector<double> & end_t(const Spline<K, G> & s) { return s.m_end_t; }
  template<int K, typename G>
  static const std::vector<G> & end_g(const Spline<K, G> & s) { return s.m_end_g; }
  template<int K, typename G>
  static const auto & Vs(const Spline<K, G> & s) { return s.m_Vs; }
  template<int K, typename G>
  static const std::vector<double> & T0(const Spline<K, G> & s) { return s.m_seg_T0; }
  template<int K, typename G>
  static const std::vector<double> & Del(const Spline<K, G> & s) { return s.m_seg_Del; }
};
}  // namespace verif
SMOOTH_END_NAMESPACE

using namespace vh;
using Probe = smooth::verif::SplineProbe;

#ifndef VH_K
#define VH_K 3
#endif
static constexpr int K = VH_K;

// clang-format off
#if VH_GROUP == 0
using G = double;
#elif VH_GROUP == 1
using G = Eigen::Vector2d;
#elif VH_GROUP == 2
using G = smooth::SO3d;
#elif VH_GROUP == 3
using G = smooth::SE2d;
#elif VH_GROUP == 4
using G = smooth::SE3d;
#else
#error "unknown VH_GROUP"
#endif
// clang-format on

using Dsc                = Desc<G>;
static constexpr int DOF = Dsc::Dofs;
static constexpr int REP = Dsc::Rep;
using Tan                = Eigen::Matrix<double, DOF, 1>;
using Spl                = smooth::Spline<K, G>;

static std::string coeffs_q(const G & g)
{
  double c[REP];
  Dsc::get(g, c);
  std::string o = "[";
  for (int i = 0; i < REP; ++i) {
    if (i) o += ',';
    quad(o, c[i]);
  }
  return o + "]";
}
static G from_coeffs(const std::vector<double> & c)
{
  G g = smooth::Identity<G>();
  if (static_cast<int>(c.size()) == REP) Dsc::set(g, c.data());
  return g;
}

struct Ctx
{
  Sink sink;
  std::string gj;
  Spl regs[6];
  Ev ev(const char * op)
  {
    Ev e;
    e.str("op", op).raw("g", gj).num("K", K);
    return e;
  }
};

static void add_rep(Ev & e, const Spl & s)
{
  // five vectors + g0 + public observations
  e.raw("g0", coeffs_q(Probe::g0(s)));
  e.vec("end_t", Probe::end_t(s));
  std::string eg = "[";
  for (std::size_t i = 0; i < Probe::end_g(s).size(); ++i) {
    if (i) eg += ',';
    eg += coeffs_q(Probe::end_g(s)[i]);
  }
  e.raw("end_g", eg + "]");
  std::string vs = "[";
  for (std::size_t i = 0; i < Probe::Vs(s).size(); ++i) {
    if (i) vs += ',';
    // list of K columns, each a tangent vector
    vs += '[';
    for (int k = 0; k < K; ++k) {
      if (k) vs += ',';
      const Tan col = Probe::Vs(s)[i].col(k);
      qvec(vs, col);
    }
    vs += ']';
  }
  e.raw("Vs", vs + "]");
  e.vec("T0", Probe::T0(s));
  e.vec("Del", Probe::Del(s));
  e.dbl("tmax", s.t_max());
  e.raw("start", coeffs_q(s.start()));
  e.raw("end", coeffs_q(s.end()));
  e.num("size", static_cast<long>(s.size()));
}

// parse "a,b,c ; d,e ; ..." into vectors
static std::vector<std::vector<double>> parse_vecs(const std::string & rest)
{
  std::vector<std::vector<double>> vs(1);
  const char * p = rest.c_str();
  while (*p) {
    while (*p == ' ' || *p == ',' || *p == '\n' || *p == '\t') ++p;
    if (!*p) break;
    if (*p == ';') {
      vs.emplace_back();
      ++p;
      continue;
    }
    char * endp;
    const double x = std::strtod(p, &endp);
    if (endp == p) break;
    vs.back().push_back(x);
    p = endp;
  }
  return vs;
}

template<int KK>
static int run(int argc, char ** argv)
{
  install_handlers();
  Ctx c;
  const std::string out  = arg(argc, argv, "--out", "/dev/stdout");
  const std::string prog = arg(argc, argv, "--prog", "");
  c.gj                   = Dsc::json();
  if (!c.sink.open(out)) return 2;
  current_sink() = &c.sink;
  FILE * pf      = std::fopen(prog.c_str(), "r");
  if (!pf) return 2;
  static char buf[1 << 18];
  while (std::fgets(buf, sizeof buf, pf)) {
    std::istringstream is{std::string(buf)};
    std::string op;
    is >> op;
    if (op.empty() || op[0] == '#') continue;
    if (op == "reset") {
      for (auto & r : c.regs) r = Spl();
      auto e = c.ev("reset");
      c.sink.emit(e);
      continue;
    }
    int dst = 0, src = 0;
    is >> dst;
    if (op == "catl" || op == "catg" || op == "crop" || op == "copy") is >> src;
    std::string rest;
    std::getline(is, rest);
    const auto vs = parse_vecs(rest);
    auto need     = [&](std::size_t k) { return vs.size() > k ? vs[k] : std::vector<double>{}; };
    if (op == "seg") {
      // seg dst  T ; v1 ; ... ; vK ; ga
      const double T = need(0).at(0);
      Eigen::Matrix<double, DOF, K> V;
      for (int k = 0; k < K; ++k) {
        const auto col = need(static_cast<std::size_t>(1 + k));
        for (int i = 0; i < DOF; ++i) V(i, k) = col.at(static_cast<std::size_t>(i));
      }
      const G ga  = from_coeffs(need(static_cast<std::size_t>(1 + K)));
      c.regs[dst] = Spl(T, V, ga);
      auto e      = c.ev("seg");
      e.num("dst", dst).dbl("T", T).raw("ga", coeffs_q(ga));
      std::string vq = "[";
      for (int k = 0; k < K; ++k) {
        if (k) vq += ',';
        const Tan col = V.col(k);
        qvec(vq, col);
      }
      e.raw("V", vq + "]");
      add_rep(e, c.regs[dst]);
      c.sink.emit(e);
    } else if (op == "cv") {
      // cv dst  T ; v ; ga
      const double T = need(0).at(0);
      Tan v;
      for (int i = 0; i < DOF; ++i) v(i) = need(1).at(static_cast<std::size_t>(i));
      const G ga  = from_coeffs(need(2));
      c.regs[dst] = Spl::ConstantVelocity(v, T, ga);
      auto e      = c.ev("cv");
      e.num("dst", dst).dbl("T", T).vec("v", v).raw("ga", coeffs_q(ga));
      add_rep(e, c.regs[dst]);
      c.sink.emit(e);
    } else if (op == "cubic") {
      if constexpr (KK == 3) {
        // cubic dst  T ; gb ; va ; vb ; ga
        const double T = need(0).at(0);
        const G gb     = from_coeffs(need(1));
        Tan va, vb;
        for (int i = 0; i < DOF; ++i) {
          va(i) = need(2).at(static_cast<std::size_t>(i));
          vb(i) = need(3).at(static_cast<std::size_t>(i));
        }
        const G ga  = from_coeffs(need(4));
        c.regs[dst] = smooth::Spline<KK, G>::FixedCubic(gb, va, vb, T, ga);
        auto e      = c.ev("cubic");
        e.num("dst", dst).dbl("T", T).raw("gb", coeffs_q(gb)).vec("va", va).vec("vb", vb).raw("ga", coeffs_q(ga));
        add_rep(e, c.regs[dst]);
        c.sink.emit(e);
      }
    } else if (op == "copy") {
      c.regs[dst] = c.regs[src];
      auto e      = c.ev("copy");
      e.num("dst", dst).num("src", src);
      add_rep(e, c.regs[dst]);
      c.sink.emit(e);
    } else if (op == "catl") {
      c.regs[dst] += c.regs[src];
      auto e = c.ev("catl");
      e.num("dst", dst).num("src", src);
      add_rep(e, c.regs[dst]);
      c.sink.emit(e);
    } else if (op == "catg") {
      c.regs[dst].concat_global(c.regs[src]);
      auto e = c.ev("catg");
      e.num("dst", dst).num("src", src);
      add_rep(e, c.regs[dst]);
      c.sink.emit(e);
    } else if (op == "crop") {
      // crop dst src  ta ; tb ; loc
      const double ta = need(0).at(0), tb = need(1).at(0);
      const bool loc  = need(2).at(0) != 0;
      Spl r           = c.regs[src].crop(ta, tb, loc);
      c.regs[dst]     = r;
      auto e          = c.ev("crop");
      e.num("dst", dst).num("src", src).dbl("ta", ta).dbl("tb", tb).num("loc", loc ? 1 : 0);
      add_rep(e, c.regs[dst]);
      c.sink.emit(e);
    } else if (op == "mklocal") {
      c.regs[dst].make_local();
      auto e = c.ev("mklocal");
      e.num("dst", dst);
      add_rep(e, c.regs[dst]);
      c.sink.emit(e);
    } else if (op == "eval") {
      // eval src  t
      const double t = need(0).at(0);
      Tan vel, acc;
      const G val = c.regs[dst](t, vel, acc);
      auto e      = c.ev("eval");
      e.num("src", dst).dbl("t", t).raw("val", coeffs_q(val)).vec("vel", vel).vec("acc", acc);
      c.sink.emit(e);
    } else if (op == "arclen") {
      if constexpr (KK == 3) {
        const double t = need(0).at(0);
        const Tan al   = static_cast<const smooth::Spline<KK, G> &>(c.regs[dst]).arclength(t);
        auto e         = c.ev("arclen");
        e.num("src", dst).dbl("t", t).vec("out", al);
        c.sink.emit(e);
      }
    } else {
      std::fprintf(stderr, "unknown op %s\n", op.c_str());
      return 2;
    }
  }
  std::fclose(pf);
  c.sink.close();
  return 0;
}

int main(int argc, char ** argv) { return run<K>(argc, argv); }
