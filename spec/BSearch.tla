------------------------------- MODULE BSearch -------------------------------
(* Design-level model of smooth::utils::binary_interval_search as coded in   *)
(* include/smooth/detail/utils.hpp:39-73 (property C20, clause C20.search;    *)
(* the same routine locates segments in Spline (C12) and BSpline (C13)).      *)
(*                                                                            *)
(* The PlusCal algorithm below follows the C++ statement by statement:        *)
(*   - iterators are positions 1..Len(r), `rght` starts at end = Len(r)+1;    *)
(*   - the two early returns (empty range or t < front; t >= back);           *)
(*   - the loop `while (left + 1 < rght)` with the pivot                      *)
(*       ranges::next(left, (intptr_t)(alpha * dist), rght - 2)               *)
(*     where alpha = (t - r[left]) / (r[rght-1] - r[left]) for arithmetic keys    *)
(*     (Mode = "interp", evaluated in exact arithmetic), alpha = 0.5 for      *)
(*     other key types (Mode = "bisect"); Mode = "any" lets the pivot be ANY  *)
(*     position in [left, rght-2], which covers every rounding of alpha*dist  *)
(*     in floating point (alpha is in [0,1), the bound clamps the rest);      *)
(*   - the three-way comparison and `break`.                                  *)
(* Every dereference and the precondition of ranges::next are asserted.       *)
(*                                                                            *)
(* Checked by TLC for ALL sorted ranges of length <= MaxLen over Letters      *)
(* (with repeats) and ALL queries in Queries:                                 *)
(*   Correct      the returned position obeys the four documented cases       *)
(*   Termination  every run reaches Done (weak fairness)                      *)
(*   Variant      rght - left strictly decreases on every back edge           *)
(* Clamp is the `2` of `rght - 2`; Clamp = 1 is the seeded spec mutant that   *)
(* TLC must reject (BSearch_mut.cfg).                                         *)
EXTENDS Integers, Sequences, FiniteSets, TLC, BSearchCases

CONSTANTS Letters,    \* strictly increasing sequence of naturals: the alphabet
          MaxLen,     \* longest range
          Queries,    \* set of query values
          Mode,       \* "interp" | "bisect" | "any"
          Clamp       \* 2 as coded

\* the two alphabets of C20 (shifted by one and doubled so that the 13 queries below / on / between /
\* above the letters are naturals): {0,1,2,3,4,5} and {0,1,2,3,10,100}
LettersEven == <<1, 3, 5, 7, 9, 11>>
QueriesEven == 0..12
LettersSkew == <<1, 3, 5, 7, 21, 201>>
QueriesSkew == {0, 1, 2, 3, 4, 5, 6, 7, 14, 21, 111, 201, 202}

ASSUME /\ \A i \in 1..(Len(Letters) - 1) : Letters[i] < Letters[i + 1]
       /\ Mode \in {"interp", "bisect", "any"}

\* all non-decreasing sequences of length n whose letters have index >= m
RECURSIVE Sorted(_, _)
Sorted(n, m) ==
  IF n = 0 THEN {<<>>}
  ELSE UNION {{<<Letters[i]>> \o s : s \in Sorted(n - 1, i)} : i \in m..Len(Letters)}
SortedRanges == UNION {Sorted(n, 1) : n \in 0..MaxLen}

Min(a, b) == IF a <= b THEN a ELSE b

\* the positions the pivot may take: ranges::next(left, n, bound) = left + min(n, bound - left), n >= 0
Pivots(r, t, left, rght) ==
  LET dist == (rght - 1) - left
      bound == rght - Clamp
  IN CASE Mode = "interp" ->
            {Min(left + (((t - r[left]) * dist) \div (r[rght - 1] - r[left])), bound)}
       [] Mode = "bisect" -> {Min(left + (dist \div 2), bound)}
       [] Mode = "any" -> left..bound

(* --fair algorithm BSearch {
  variables r \in SortedRanges, t \in Queries,
            left = 1, rght = Len(r) + 1, pivot = 0, result = 0;
  {
   Entry:
    if (Len(r) = 0) { result := rght; goto Fin; }
    else if (r[left] > t) { result := rght; goto Fin; }
    else if (r[rght - 1] <= t) { result := rght - 1; goto Fin; };
   Setup:
    pivot := left;
   Loop:
    while (left + 1 < rght) {
      \* dereferences *left, *(rght-1); the interpolation divides by their difference
      assert left >= 1 /\ rght - 1 <= Len(r);
      assert Mode = "interp" => r[rght - 1] - r[left] > 0 /\ t - r[left] >= 0;
      \* precondition of ranges::next(it, n, bound) with n >= 0: bound reachable from it
      assert rght - Clamp >= left;
      with (p \in Pivots(r, t, left, rght)) { pivot := p; };
     Compare:
      \* dereferences *next(pivot) and *pivot
      assert pivot >= 1 /\ pivot + 1 <= Len(r);
      if (r[pivot + 1] <= t) { left := pivot + 1; }
      else if (r[pivot] > t) { rght := pivot + 1; }
      else { goto Ret; };
    };
   Ret:
    result := pivot;
   Fin:
    skip;
  }
} *)
\* BEGIN TRANSLATION
VARIABLES pc, r, t, left, rght, pivot, result

vars == << pc, r, t, left, rght, pivot, result >>

Init == (* Global variables *)
        /\ r \in SortedRanges
        /\ t \in Queries
        /\ left = 1
        /\ rght = Len(r) + 1
        /\ pivot = 0
        /\ result = 0
        /\ pc = "Entry"

Entry == /\ pc = "Entry"
         /\ IF Len(r) = 0
               THEN /\ result' = rght
                    /\ pc' = "Fin"
               ELSE /\ IF r[left] > t
                          THEN /\ result' = rght
                               /\ pc' = "Fin"
                          ELSE /\ IF r[rght - 1] <= t
                                     THEN /\ result' = rght - 1
                                          /\ pc' = "Fin"
                                     ELSE /\ pc' = "Setup"
                                          /\ UNCHANGED result
         /\ UNCHANGED << r, t, left, rght, pivot >>

Setup == /\ pc = "Setup"
         /\ pivot' = left
         /\ pc' = "Loop"
         /\ UNCHANGED << r, t, left, rght, result >>

Loop == /\ pc = "Loop"
        /\ IF left + 1 < rght
              THEN /\ Assert(left >= 1 /\ rght - 1 <= Len(r), 
                             "Failure of assertion at line 75, column 7.")
                   /\ Assert(Mode = "interp" => r[rght - 1] - r[left] > 0 /\ t - r[left] >= 0, 
                             "Failure of assertion at line 76, column 7.")
                   /\ Assert(rght - Clamp >= left, 
                             "Failure of assertion at line 78, column 7.")
                   /\ \E p \in Pivots(r, t, left, rght):
                        pivot' = p
                   /\ pc' = "Compare"
              ELSE /\ pc' = "Ret"
                   /\ pivot' = pivot
        /\ UNCHANGED << r, t, left, rght, result >>

Compare == /\ pc = "Compare"
           /\ Assert(pivot >= 1 /\ pivot + 1 <= Len(r), 
                     "Failure of assertion at line 82, column 7.")
           /\ IF r[pivot + 1] <= t
                 THEN /\ left' = pivot + 1
                      /\ pc' = "Loop"
                      /\ rght' = rght
                 ELSE /\ IF r[pivot] > t
                            THEN /\ rght' = pivot + 1
                                 /\ pc' = "Loop"
                            ELSE /\ pc' = "Ret"
                                 /\ rght' = rght
                      /\ left' = left
           /\ UNCHANGED << r, t, pivot, result >>

Ret == /\ pc = "Ret"
       /\ result' = pivot
       /\ pc' = "Fin"
       /\ UNCHANGED << r, t, left, rght, pivot >>

Fin == /\ pc = "Fin"
       /\ TRUE
       /\ pc' = "Done"
       /\ UNCHANGED << r, t, left, rght, pivot, result >>

(* Allow infinite stuttering to prevent deadlock on termination. *)
Terminating == pc = "Done" /\ UNCHANGED vars

Next == Entry \/ Setup \/ Loop \/ Compare \/ Ret \/ Fin
           \/ Terminating

Spec == /\ Init /\ [][Next]_vars
        /\ WF_vars(Next)

Termination == <>(pc = "Done")

\* END TRANSLATION

\* ---------------------------------------------------------------------------
IsSorted(s) == \A i \in 1..(Len(s) - 1) : s[i] <= s[i + 1]

\* the four documented cases (BSearchCases): position Len(r)+1 is r.end()
LeT(i) == r[i] <= t
Correct == pc = "Done" => DocOK(Len(r), LeT, result)

\* the loop invariant that makes the interpolation well defined and the search correct
LoopInv == pc \in {"Loop", "Compare"} => /\ 1 <= left /\ left < rght /\ rght <= Len(r) + 1
                                         /\ r[left] <= t /\ t < r[rght - 1]

\* the loop is always left through `break` (never by exhausting the interval)
ExitByBreak == pc = "Ret" => (r[pivot] <= t /\ t < r[pivot + 1])

\* rght - left strictly decreases on every back edge (hence at most Len(r) - 1 iterations)
Variant == [][(pc = "Compare" /\ pc' = "Loop") => (rght' - left' < rght - left)]_vars

Finishes == <>(pc = "Done")
=============================================================================
