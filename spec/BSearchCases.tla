---------------------------- MODULE BSearchCases ----------------------------
(* The documented contract of smooth::utils::binary_interval_search          *)
(* (include/smooth/detail/utils.hpp:24-38), shared by the design model        *)
(* BSearch and the trace specification TracePoly:                             *)
(*   1. If r is empty, returns r.end()                  (not found)           *)
(*   2. If t < r.front(), returns r.end()               (not found)           *)
(*   3. If t >= r.back(), returns r.end() - 1           (no upper bound)      *)
(*   4. Otherwise returns it s.t. *it <= t < *(it + 1)                        *)
(* n is the length of the sorted range, LeT(i) means r[i] <= t, positions are *)
(* 1..n and n+1 stands for r.end().                                           *)
EXTENDS Integers

DocCase(n, LeT(_)) ==
  IF n = 0 THEN 1 ELSE IF ~LeT(1) THEN 2 ELSE IF LeT(n) THEN 3 ELSE 4

DocOK(n, LeT(_), res) ==
  CASE DocCase(n, LeT) = 1 -> res = n + 1
    [] DocCase(n, LeT) = 2 -> res = n + 1
    [] DocCase(n, LeT) = 3 -> res = n
    [] OTHER -> res \in 1..(n - 1) /\ LeT(res) /\ ~LeT(res + 1)
=============================================================================
