\* binary_interval_search design model: all sorted ranges of length <= 8 over six letters, 13 queries each
SPECIFICATION Spec
CONSTANTS
  Letters <- LettersSkew
  Queries <- QueriesSkew
  MaxLen = 6
  Mode = "any"
  Clamp = 2
INVARIANTS Correct LoopInv ExitByBreak
PROPERTIES Variant Finishes
CHECK_DEADLOCK FALSE
