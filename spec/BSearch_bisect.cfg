\* binary_interval_search design model: all sorted ranges of length <= 8 over six letters, 13 queries each
SPECIFICATION Spec
CONSTANTS
  Letters <- LettersEven
  Queries <- QueriesEven
  MaxLen = 8
  Mode = "bisect"
  Clamp = 2
INVARIANTS Correct LoopInv ExitByBreak
PROPERTIES Variant Finishes
CHECK_DEADLOCK FALSE
