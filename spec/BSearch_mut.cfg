\* SEEDED SPEC MUTANT (pivot clamp rght-1 instead of rght-2): TLC must REJECT this configuration (assertion in Compare)
SPECIFICATION Spec
CONSTANTS
  Letters <- LettersSkew
  Queries <- QueriesSkew
  MaxLen = 4
  Mode = "any"
  Clamp = 1
INVARIANTS Correct LoopInv ExitByBreak
PROPERTIES Variant Finishes
CHECK_DEADLOCK FALSE
