CONSTANTS
  MaxK = 3
  MaxN = 8
  Combos = 12
  Variant = "code"
INIT Init
NEXT Next
INVARIANTS WindowValid Refines Domain Continuity JumpOrderK Locality Constants Ramp TableAgrees
CHECK_DEADLOCK FALSE
