---------------------------- MODULE BSplineIndex ----------------------------
(* Design-level model of smooth::BSpline<K,G>::operator() (property C13):     *)
(* the index arithmetic AS CODED in spline/detail/bspline_impl.hpp             *)
(*     istar = (int64)((t - t0)/dt)            -- truncation towards zero      *)
(*     istar < 0            -> istar = 0,       u = 0                          *)
(*     istar + K + 1 > N    -> istar = N-K-1,   u = 1                          *)
(*     otherwise               u = clamp((t - t0 - istar dt)/dt, 0, 1)         *)
(*     window = control points istar .. istar+K ; vel /= dt ; acc /= dt^2      *)
(* next to the ABSTRACT curve: the cardinal B-spline                           *)
(*     p(s) = sum_c p_c N_{c-K,K}(s),   s = (t - t0)/dt clamped to [0, N-K]    *)
(* with N_{i,k} defined on the whole real line by the Cox-de Boor recursion,   *)
(* over exact rationals (BigRat), for real-valued control points.             *)
(* TLC checks for every configuration K <= MaxK, N <= MaxN, (t0, dt) from the  *)
(* list below, control sequences = all unit sequences, the constant sequence   *)
(* and a ramp (the curve is linear in the control points), and every time on   *)
(* a quarter-knot grid incl. all knots, outside by up to 3/2 dt and by 1e3 dt: *)
(*   WindowValid  the selected window exists, u in [0,1]                       *)
(*   Domain       [t_min, t_max] = [t0, t0+(N-K)dt] is exactly the set where   *)
(*                the basis is a partition of unity; end values outside        *)
(*   Refines      value (and, inside the domain, first and second derivative)  *)
(*                of the selected window polynomial = abstract curve           *)
(*   Continuity   orders 0..K-1 agree across every switch of window            *)
(*   Locality     control point c influences only knot intervals c-K..c        *)
(*   Constants    equal control points give a constant curve                   *)
(* The operators CodeWindow / BasisCum / TMaxExact are reused by the trace     *)
(* specification TraceBSpline, which binds this model to the real code.        *)
(* Variant # "code" are seeded specification mutants that TLC must reject.     *)
EXTENDS BSplineOps, TLC

CONSTANTS MaxK, MaxN, Combos, Variant

---------------------------------------------------------------------------
\* the state machine
VARIABLES K, N, t0, dt, ctrl, kind, t, pc, istar, u, out
vars == <<K, N, t0, dt, ctrl, kind, t, pc, istar, u, out>>

T0List == <<R0, RFrac(-37, 10), RI(1000)>>
DtList == <<R1, RFrac(1, 10), RFrac(1, 3), RI(7)>>
ComboT0(c) == T0List[((c - 1) % 3) + 1]
ComboDt(c) == DtList[((c - 1) \div 3) + 1]

\* control sequences: kind c in 0..n-1 = unit sequence e_c, n = all ones, n+1 = ramp 0,1,2,..
CtrlSeq(n, kd) == RForce([j \in 1..n |-> IF kd = n THEN R1 ELSE IF kd = n + 1 THEN RI(j - 1) ELSE IF j = kd + 1 THEN R1 ELSE R0])

\* quarter-knot grid: q/4 for q in -6 .. 4(N-K)+6, and far outside
GridS(k, n) == {RFrac(q, 4) : q \in (-6)..(4 * (n - k) + 6)} \cup {RI(-1000), RI(n - k + 1000)}

Init ==
  /\ K \in 1..MaxK
  /\ N \in (K + 1)..MaxN
  /\ \E c \in 1..Combos : t0 = ComboT0(c) /\ dt = ComboDt(c)
  /\ kind \in 0..(N + 1)
  /\ ctrl = CtrlSeq(N, kind)
  /\ t = t0 /\ pc = "pick" /\ istar = 0 /\ u = R0 /\ out = <<R0, R0, R0>>

Pick ==
  /\ pc = "pick"
  /\ \E s \in GridS(K, N) : t' = RAdd(t0, RMul(s, dt))
  /\ pc' = "trunc"
  /\ UNCHANGED <<K, N, t0, dt, ctrl, kind, istar, u, out>>

Trunc ==
  /\ pc = "trunc"
  /\ istar' = IdxRaw(RDiv(RSub(t, t0), dt), N)
  /\ pc' = "clamp"
  /\ UNCHANGED <<K, N, t0, dt, ctrl, kind, t, u, out>>

ClampLow ==
  /\ pc = "clamp" /\ istar < 0 /\ Variant # "nolow"
  /\ istar' = 0 /\ u' = R0 /\ pc' = "eval"
  /\ UNCHANGED <<K, N, t0, dt, ctrl, kind, t, out>>

ClampHigh ==
  /\ pc = "clamp" /\ ~(istar < 0 /\ Variant # "nolow") /\ TooHigh(istar, K, N, Variant)
  /\ istar' = N - K - 1 /\ u' = R1 /\ pc' = "eval"
  /\ UNCHANGED <<K, N, t0, dt, ctrl, kind, t, out>>

Inside ==
  /\ pc = "clamp" /\ ~(istar < 0 /\ Variant # "nolow") /\ ~TooHigh(istar, K, N, Variant)
  /\ u' = UInside(istar, t0, dt, t, Variant) /\ pc' = "eval"
  /\ UNCHANGED <<K, N, t0, dt, ctrl, kind, t, istar, out>>

WindowOk == istar >= 0 /\ istar <= N - K - 1

Evaluate ==
  /\ pc = "eval"
  /\ out' = IF WindowOk THEN <<WindowEval(ctrl, K, istar, u, dt, 0), WindowEval(ctrl, K, istar, u, dt, 1),
                                WindowEval(ctrl, K, istar, u, dt, 2)>>
            ELSE out          \* reading outside the control-point vector: flagged by WindowValid
  /\ pc' = "done"
  /\ UNCHANGED <<K, N, t0, dt, ctrl, kind, t, istar, u>>

Return ==
  /\ pc = "done" /\ pc' = "pick"
  /\ t' = t0 /\ istar' = 0 /\ u' = R0 /\ out' = <<R0, R0, R0>>     \* locals go out of scope
  /\ UNCHANGED <<K, N, t0, dt, ctrl, kind>>

Next == Pick \/ Trunc \/ ClampLow \/ ClampHigh \/ Inside \/ Evaluate \/ Return
Spec == Init /\ [][Next]_vars

---------------------------------------------------------------------------
\* properties
Done == pc = "done"
TMaxC == TMaxCodeV(K, N, t0, dt, Variant)
SNorm == RDiv(RSub(t, t0), dt)
SClamped == IF RSign(SNorm) < 0 THEN R0 ELSE IF RLt(RI(N - K), SNorm) THEN RI(N - K) ELSE SNorm
AtRightEnd == REq(SClamped, RI(N - K))
InDomain == RLeq(t0, t) /\ RLeq(t, TMaxExact(K, N, t0, dt))

WindowValid == Done => WindowOk /\ RSign(u) >= 0 /\ RLeq(u, R1)

\* the window's control points are exactly those with non-zero weight at s, and u is the offset in the window
Refines ==
  Done /\ WindowOk =>
    /\ REq(out[1], AbsEval(ctrl, K, N, SClamped, 0, AtRightEnd))
    /\ InDomain => /\ REq(out[2], RDiv(AbsEval(ctrl, K, N, SClamped, 1, AtRightEnd), dt))
                   /\ REq(out[3], RDiv(AbsEval(ctrl, K, N, SClamped, 2, AtRightEnd), RSq(dt)))

\* [t_min, t_max] as coded = the set where the basis functions of the N control points sum to one
\* (= where the curve is an affine combination of control points), and the end values are returned outside
Domain ==
  Done =>
    /\ (RLeq(TMinCode(t0), t) /\ RLeq(t, TMaxC)) <=> REq(UnitySum(K, N, SNorm, REq(SNorm, RI(N - K))), R1)
    /\ REq(TMaxC, TMaxExact(K, N, t0, dt))
    /\ WindowOk /\ RLeq(t, TMinCode(t0)) => REq(out[1], AbsEval(ctrl, K, N, R0, 0, FALSE))
    /\ WindowOk /\ RLeq(TMaxC, t) => REq(out[1], AbsEval(ctrl, K, N, RI(N - K), 0, TRUE))

\* orders 0..K-1 agree across every switch of window (checked once per configuration)
Continuity ==
  pc = "pick" =>
    \A k \in 1..(N - K - 1) : \A p \in 0..(IF K - 1 < 2 THEN K - 1 ELSE 2) :
      REq(WindowEval(ctrl, K, k - 1, R1, dt, p), WindowEval(ctrl, K, k, R0, dt, p))
\* ... and order K does jump somewhere (so the statement C^(K-1) is sharp and the check is not vacuous)
JumpOrderK ==
  pc = "pick" /\ K <= 2 /\ kind < N /\ N - K - 1 >= 1 /\ kind >= 1 /\ kind <= N - 2 =>
    \E k \in 1..(N - K - 1) : ~REq(WindowEval(ctrl, K, k - 1, R1, dt, K), WindowEval(ctrl, K, k, R0, dt, K))

\* local support: the unit sequence e_c gives zero outside knot intervals c-K..c
Locality ==
  Done /\ WindowOk /\ kind < N /\ ~(istar >= kind - K /\ istar <= kind) =>
    RSign(out[1]) = 0 /\ RSign(out[2]) = 0 /\ RSign(out[3]) = 0
\* equal control points: constant curve, zero derivatives
Constants ==
  Done /\ WindowOk /\ kind = N => REq(out[1], R1) /\ RSign(out[2]) = 0 /\ RSign(out[3]) = 0
\* the ramp is reproduced as a straight line (sanity of the knot / control-point correspondence):
\* p(s) = s + (K-1)/2 on the domain
Ramp ==
  Done /\ WindowOk /\ kind = N + 1 => REq(out[1], RAdd(SClamped, RFrac(K - 1, 2)))

\* the triangular evaluation of the basis (used by TraceBSpline) is the Cox-de Boor recursion
TableAgrees ==
  pc = "eval" => \A p \in 0..2 : \A j \in 1..K : REq(BasisCumT(K, u, p)[j], BasisCum(K, u, p)[j])
ASSUME \A k \in 1..6 : \A x \in {R0, RFrac(1, 3), RFrac(7, 10), R1} : \A p \in 0..2 : \A j \in 1..k :
          REq(BasisCumT(k, x, p)[j], BasisCum(k, x, p)[j])
\* cumulative basis: Btilde_j(0) = 0 for all j, Btilde_j(1) = 1 for j < K... (ends of the window), and monotone weights in [0,1]
ASSUME \A k \in 1..6 : \A j \in 1..k : RSign(BasisCum(k, R0, 0)[j]) >= 0 /\ RLeq(BasisCum(k, R1, 0)[j], R1)

Inv == WindowValid /\ Refines /\ Domain /\ Continuity /\ JumpOrderK /\ Locality /\ Constants /\ Ramp
=============================================================================
