---- MODULE BSplineIndex_TTrace_1791061681 ----
EXTENDS Sequences, BSplineIndex, TLCExt, Toolbox, Naturals, TLC

_expression ==
    LET BSplineIndex_TEExpression == INSTANCE BSplineIndex_TEExpression
    IN BSplineIndex_TEExpression!expression
----

_trace ==
    LET BSplineIndex_TETrace == INSTANCE BSplineIndex_TETrace
    IN BSplineIndex_TETrace!trace
----

_inv ==
    ~(
        TLCGet("level") = Len(_TETrace)
        /\
        dt = (<<1, <<1>>, <<1>>>>)
        /\
        pc = ("done")
        /\
        t = (<<-1, <<1>>, <<2>>>>)
        /\
        u = (<<1, <<1>>, <<1>>>>)
        /\
        ctrl = (<<<<1, <<1>>, <<1>>>>, <<0, <<>>, <<1>>>>>>)
        /\
        kind = (0)
        /\
        istar = (0)
        /\
        K = (1)
        /\
        t0 = (<<0, <<>>, <<1>>>>)
        /\
        N = (2)
        /\
        out = (<<<<0, <<>>, <<1>>>>, <<-1, <<1>>, <<1>>>>, <<0, <<>>, <<1>>>>>>)
    )
----

_init ==
    /\ K = _TETrace[1].K
    /\ N = _TETrace[1].N
    /\ kind = _TETrace[1].kind
    /\ t = _TETrace[1].t
    /\ u = _TETrace[1].u
    /\ dt = _TETrace[1].dt
    /\ ctrl = _TETrace[1].ctrl
    /\ istar = _TETrace[1].istar
    /\ pc = _TETrace[1].pc
    /\ t0 = _TETrace[1].t0
    /\ out = _TETrace[1].out
----

_next ==
    /\ \E i,j \in DOMAIN _TETrace:
        /\ \/ /\ j = i + 1
              /\ i = TLCGet("level")
        /\ K  = _TETrace[i].K
        /\ K' = _TETrace[j].K
        /\ N  = _TETrace[i].N
        /\ N' = _TETrace[j].N
        /\ kind  = _TETrace[i].kind
        /\ kind' = _TETrace[j].kind
        /\ t  = _TETrace[i].t
        /\ t' = _TETrace[j].t
        /\ u  = _TETrace[i].u
        /\ u' = _TETrace[j].u
        /\ dt  = _TETrace[i].dt
        /\ dt' = _TETrace[j].dt
        /\ ctrl  = _TETrace[i].ctrl
        /\ ctrl' = _TETrace[j].ctrl
        /\ istar  = _TETrace[i].istar
        /\ istar' = _TETrace[j].istar
        /\ pc  = _TETrace[i].pc
        /\ pc' = _TETrace[j].pc
        /\ t0  = _TETrace[i].t0
        /\ t0' = _TETrace[j].t0
        /\ out  = _TETrace[i].out
        /\ out' = _TETrace[j].out

\* Uncomment the ASSUME below to write the states of the error trace
\* to the given file in Json format. Note that you can pass any tuple
\* to `JsonSerialize`. For example, a sub-sequence of _TETrace.
    \* ASSUME
    \*     LET J == INSTANCE Json
    \*         IN J!JsonSerialize("BSplineIndex_TTrace_1791061681.json", _TETrace)

=============================================================================

 Note that you can extract this module `BSplineIndex_TEExpression`
  to a dedicated file to reuse `expression` (the module in the 
  dedicated `BSplineIndex_TEExpression.tla` file takes precedence 
  over the module `BSplineIndex_TEExpression` below).

---- MODULE BSplineIndex_TEExpression ----
EXTENDS Sequences, BSplineIndex, TLCExt, Toolbox, Naturals, TLC

expression == 
    [
        \* To hide variables of the `BSplineIndex` spec from the error trace,
        \* remove the variables below.  The trace will be written in the order
        \* of the fields of this record.
        K |-> K
        ,N |-> N
        ,kind |-> kind
        ,t |-> t
        ,u |-> u
        ,dt |-> dt
        ,ctrl |-> ctrl
        ,istar |-> istar
        ,pc |-> pc
        ,t0 |-> t0
        ,out |-> out
        
        \* Put additional constant-, state-, and action-level expressions here:
        \* ,_stateNumber |-> _TEPosition
        \* ,_KUnchanged |-> K = K'
        
        \* Format the `K` variable as Json value.
        \* ,_KJson |->
        \*     LET J == INSTANCE Json
        \*     IN J!ToJson(K)
        
        \* Lastly, you may build expressions over arbitrary sets of states by
        \* leveraging the _TETrace operator.  For example, this is how to
        \* count the number of times a spec variable changed up to the current
        \* state in the trace.
        \* ,_KModCount |->
        \*     LET F[s \in DOMAIN _TETrace] ==
        \*         IF s = 1 THEN 0
        \*         ELSE IF _TETrace[s].K # _TETrace[s-1].K
        \*             THEN 1 + F[s-1] ELSE F[s-1]
        \*     IN F[_TEPosition - 1]
    ]

=============================================================================



Parsing and semantic processing can take forever if the trace below is long.
 In this case, it is advised to uncomment the module below to deserialize the
 trace from a generated binary file.

\*
\*---- MODULE BSplineIndex_TETrace ----
\*EXTENDS IOUtils, BSplineIndex, TLC
\*
\*trace == IODeserialize("BSplineIndex_TTrace_1791061681.bin", TRUE)
\*
\*=============================================================================
\*

---- MODULE BSplineIndex_TETrace ----
EXTENDS BSplineIndex, TLC

trace == 
    <<
    ([dt |-> <<1, <<1>>, <<1>>>>,pc |-> "pick",t |-> <<0, <<>>, <<1>>>>,u |-> <<0, <<>>, <<1>>>>,ctrl |-> <<<<1, <<1>>, <<1>>>>, <<0, <<>>, <<1>>>>>>,kind |-> 0,istar |-> 0,K |-> 1,t0 |-> <<0, <<>>, <<1>>>>,N |-> 2,out |-> <<<<0, <<>>, <<1>>>>, <<0, <<>>, <<1>>>>, <<0, <<>>, <<1>>>>>>]),
    ([dt |-> <<1, <<1>>, <<1>>>>,pc |-> "trunc",t |-> <<-1, <<1>>, <<2>>>>,u |-> <<0, <<>>, <<1>>>>,ctrl |-> <<<<1, <<1>>, <<1>>>>, <<0, <<>>, <<1>>>>>>,kind |-> 0,istar |-> 0,K |-> 1,t0 |-> <<0, <<>>, <<1>>>>,N |-> 2,out |-> <<<<0, <<>>, <<1>>>>, <<0, <<>>, <<1>>>>, <<0, <<>>, <<1>>>>>>]),
    ([dt |-> <<1, <<1>>, <<1>>>>,pc |-> "clamp",t |-> <<-1, <<1>>, <<2>>>>,u |-> <<0, <<>>, <<1>>>>,ctrl |-> <<<<1, <<1>>, <<1>>>>, <<0, <<>>, <<1>>>>>>,kind |-> 0,istar |-> 0,K |-> 1,t0 |-> <<0, <<>>, <<1>>>>,N |-> 2,out |-> <<<<0, <<>>, <<1>>>>, <<0, <<>>, <<1>>>>, <<0, <<>>, <<1>>>>>>]),
    ([dt |-> <<1, <<1>>, <<1>>>>,pc |-> "eval",t |-> <<-1, <<1>>, <<2>>>>,u |-> <<1, <<1>>, <<1>>>>,ctrl |-> <<<<1, <<1>>, <<1>>>>, <<0, <<>>, <<1>>>>>>,kind |-> 0,istar |-> 0,K |-> 1,t0 |-> <<0, <<>>, <<1>>>>,N |-> 2,out |-> <<<<0, <<>>, <<1>>>>, <<0, <<>>, <<1>>>>, <<0, <<>>, <<1>>>>>>]),
    ([dt |-> <<1, <<1>>, <<1>>>>,pc |-> "done",t |-> <<-1, <<1>>, <<2>>>>,u |-> <<1, <<1>>, <<1>>>>,ctrl |-> <<<<1, <<1>>, <<1>>>>, <<0, <<>>, <<1>>>>>>,kind |-> 0,istar |-> 0,K |-> 1,t0 |-> <<0, <<>>, <<1>>>>,N |-> 2,out |-> <<<<0, <<>>, <<1>>>>, <<-1, <<1>>, <<1>>>>, <<0, <<>>, <<1>>>>>>])
    >>
----


=============================================================================

---- CONFIG BSplineIndex_TTrace_1791061681 ----
CONSTANTS
    MaxK = 3
    MaxN = 5
    Combos = 2
    Variant = "ge"

INVARIANT
    _inv

CHECK_DEADLOCK
    \* CHECK_DEADLOCK off because of PROPERTY or INVARIANT above.
    FALSE

INIT
    _init

NEXT
    _next

CONSTANT
    _TETrace <- _trace

ALIAS
    _expression
=============================================================================
\* Generated on Sat Oct 03 21:10:12 UTC 2026