----------------------------- MODULE BSplineOps -----------------------------
(* Operators shared by the design model BSplineIndex and the trace             *)
(* specification TraceBSpline (property C13):                                  *)
(*  - the cardinal B-spline basis on the real line by the Cox-de Boor          *)
(*    recursion, its derivatives and the cumulative basis of one window,       *)
(*    over exact rationals;                                                    *)
(*  - the index arithmetic of BSpline::operator() as coded                     *)
(*    (spline/detail/bspline_impl.hpp), in exact arithmetic, with the seeded   *)
(*    variants used as specification mutants;                                  *)
(*  - the abstract real-valued curve and the window polynomial.                *)
EXTENDS RLin

---------------------------------------------------------------------------
\* cardinal B-spline basis over exact rationals: Cox-de Boor.
\* N_{i,0} is the indicator of [i, i+1) (right-continuous); with left = TRUE of (i, i+1]
\* (used for one-sided values at the right end of an interval / of the domain).
RECURSIVE CdB(_, _, _, _)
CdB(i, k, x, left) ==
  IF k = 0
  THEN (IF left THEN (IF RLt(RI(i), x) /\ RLeq(x, RI(i + 1)) THEN R1 ELSE R0)
                ELSE (IF RLeq(RI(i), x) /\ RLt(x, RI(i + 1)) THEN R1 ELSE R0))
  ELSE RAdd(RMul(RDiv(RSub(x, RI(i)), RI(k)), CdB(i, k - 1, x, left)),
            RMul(RDiv(RSub(RI(i + k + 1), x), RI(k)), CdB(i + 1, k - 1, x, left)))
\* p-th derivative of the cardinal B-spline: N'_{i,k} = N_{i,k-1} - N_{i+1,k-1}
RECURSIVE CdBD(_, _, _, _, _)
CdBD(i, k, x, p, left) ==
  IF p = 0 THEN CdB(i, k, x, left)
  ELSE IF k = 0 THEN R0
  ELSE RSub(CdBD(i, k - 1, x, p - 1, left), CdBD(i + 1, k - 1, x, p - 1, left))

RECURSIVE SumR(_, _, _)
SumR(F(_), lo, hi) == IF lo > hi THEN R0 ELSE RAdd(F(lo), SumR(F, lo + 1, hi))

\* cumulative basis of one window, u in [0,1]:  Btilde_j(u) = sum_{m >= j} N_{m-K,K}(u),  j = 1..K
\* (p-th derivative with respect to u; at u = 1 the polynomial piece of [0,1] is meant)
BasisCum(K, u, p) ==
  LET left == REq(u, R1)
      E(j) == LET F(m) == CdBD(m - K, K, u, p, left) IN SumR(F, j, K)
  IN RForce([j \in 1..K |-> E(j)])

\* The same basis functions by the triangular scheme of the same recursion (every N_{i,k}(x) is computed
\* once): level k holds N_{i,k}(x) for i = -K .. K-k, x in [0,1].  Used by the trace specification for
\* K up to 6; BSplineIndex checks that it agrees with the plain recursion above.
\* BasisLevels(K, x, left)[k+1][i+K+1] = N_{i,k}(x)
RECURSIVE BasisLevelsAcc(_, _, _, _)
BasisLevelsAcc(K, x, k, acc) ==
  IF k > K THEN acc
  ELSE LET prev == acc[k]     \* level k-1
           lvl == RForce([n \in 1..(2 * K + 1 - k) |->
                    LET i == n - K - 1
                    IN RAdd(RMul(RDiv(RSub(x, RI(i)), RI(k)), prev[n]),
                            RMul(RDiv(RSub(RI(i + k + 1), x), RI(k)), prev[n + 1]))])
       IN BasisLevelsAcc(K, x, k + 1, Append(acc, lvl))
BasisLevels(K, x, left) ==
  LET l0 == RForce([n \in 1..(2 * K + 1) |-> CdB(n - K - 1, 0, x, left)])
  IN BasisLevelsAcc(K, x, 1, <<l0>>)
\* p-th derivative (p = 0, 1, 2) of N_{m-K,K}, m = 0..K, as a sequence indexed m+1, from the table L
DerivsFrom(L, K, p) ==
  IF p = 0 THEN RForce([n \in 1..(K + 1) |-> L[K + 1][n]])
  ELSE IF p = 1 THEN RForce([n \in 1..(K + 1) |-> RSub(L[K][n], L[K][n + 1])])
  ELSE IF K < 2 THEN RForce([n \in 1..(K + 1) |-> R0])
  ELSE RForce([n \in 1..(K + 1) |-> RAdd(RSub(L[K - 1][n], RMul(R2, L[K - 1][n + 1])), L[K - 1][n + 2])])
RECURSIVE SuffixSum(_, _, _)
SuffixSum(v, j, hi) == IF j > hi THEN R0 ELSE RAdd(v[j], SuffixSum(v, j + 1, hi))
CumFrom(L, K, p) ==
  LET d == DerivsFrom(L, K, p) IN RForce([j \in 1..K |-> SuffixSum(d, j + 1, K + 1)])
BasisCumT(K, u, p) == CumFrom(BasisLevels(K, u, REq(u, R1)), K, p)
\* <<Btilde, Btilde', Btilde''>> from one table
BasisCum3T(K, u) ==
  LET L == BasisLevels(K, u, REq(u, R1)) IN <<CumFrom(L, K, 0), CumFrom(L, K, 1), CumFrom(L, K, 2)>>

---------------------------------------------------------------------------
\* the index arithmetic as coded
TruncInt(x) == IF RSign(x) >= 0 THEN RFloorInt(x) ELSE -RFloorInt(RNeg(x))
\* (int64)x ; values beyond [-1, N+1] are cut to that range first: they take the same branch below
\* and TLC's integers are 32 bit
IdxRaw(x, N) == IF RLeq(RI(N + 1), x) THEN N + 1 ELSE IF RLeq(x, RI(-1)) THEN -1 ELSE TruncInt(x)
Clamp01(x) == IF RSign(x) < 0 THEN R0 ELSE IF RLt(R1, x) THEN R1 ELSE x

TooHigh(i, K, N, variant) == IF variant = "ge" THEN i + K + 1 >= N ELSE i + K + 1 > N
UInside(i, t0, dt, t, variant) ==
  LET x == RDiv(RSub(RSub(t, t0), RMul(RI(i), dt)), dt)
  IN IF variant = "noclamp" THEN x ELSE Clamp01(x)

\* <<istar, u>> after truncation and clamping
CodeWindowV(K, N, t0, dt, t, variant) ==
  LET i0 == IdxRaw(RDiv(RSub(t, t0), dt), N)
  IN IF i0 < 0 /\ variant # "nolow" THEN <<0, R0>>
     ELSE IF TooHigh(i0, K, N, variant) THEN <<N - K - 1, R1>>
     ELSE <<i0, UInside(i0, t0, dt, t, variant)>>
CodeWindow(K, N, t0, dt, t) == CodeWindowV(K, N, t0, dt, t, "code")

TMinCode(t0) == t0
TMaxCodeV(K, N, t0, dt, variant) ==
  RAdd(t0, RMul(RI(IF variant = "tmax" THEN N - K - 1 ELSE N - K), dt))
TMaxExact(K, N, t0, dt) == RAdd(t0, RMul(RI(N - K), dt))

\* the window polynomial in cumulative form, real-valued control points ctrl[1..N] (ctrl[c+1] = p_c):
\* p-th derivative with respect to t
WindowEval(ctrl, K, i, u, dt, p) ==
  LET b == BasisCum(K, u, p)
      F(j) == RMul(b[j], RSub(ctrl[i + j + 1], ctrl[i + j]))
      s == SumR(F, 1, K)
  IN RDiv(IF p = 0 THEN RAdd(ctrl[i + 1], s) ELSE s, RPowInt(dt, p))

\* the abstract curve at normalised time s (p-th derivative with respect to s)
AbsEval(ctrl, K, N, s, p, left) ==
  LET F(c) == RMul(ctrl[c + 1], CdBD(c - K, K, s, p, left)) IN SumR(F, 0, N - 1)
UnitySum(K, N, s, left) == LET F(c) == CdB(c - K, K, s, left) IN SumR(F, 0, N - 1)

=============================================================================
