// TLC module override for BigRat.tla: exact rational arithmetic.
// A rational is the TLA+ tuple <<s, N, D>>: s in {-1,0,1}, N and D little-endian tuples of
// base-2^15 limbs (N = <<>> iff s = 0, D non-empty, no leading-zero top limb), gcd(N,D)=1.
// Every operator here also has a plain TLA+ definition in BigRat.tla; tools/selftest_bigrat
// compares the two on samples.  This file is an accelerator, not part of the meaning.
import java.math.BigInteger;
import tlc2.value.impl.BoolValue;
import tlc2.value.impl.IntValue;
import tlc2.value.impl.StringValue;
import tlc2.value.impl.TupleValue;
import tlc2.value.impl.Value;

public class BigRat {
  static final int LB = 15;
  static final BigInteger MASK = BigInteger.valueOf((1 << LB) - 1);

  static final class Q {
    final BigInteger n, d;  // d > 0, gcd = 1
    Q(BigInteger n, BigInteger d) {
      if (d.signum() == 0) throw new ArithmeticException("BigRat: division by zero");
      if (d.signum() < 0) { n = n.negate(); d = d.negate(); }
      if (n.signum() == 0) { d = BigInteger.ONE; }
      else if (d.bitLength() > 1) {
        // fast path for dyadic denominators
        int tz = d.getLowestSetBit();
        if (d.bitLength() == tz + 1) {
          int k = Math.min(tz, n.getLowestSetBit());
          if (k > 0) { n = n.shiftRight(k); d = d.shiftRight(k); }
        } else {
          BigInteger g = n.gcd(d);
          if (!g.equals(BigInteger.ONE)) { n = n.divide(g); d = d.divide(g); }
        }
      }
      this.n = n; this.d = d;
    }
    static Q of(long v) { return new Q(BigInteger.valueOf(v), BigInteger.ONE); }
    Q add(Q o) {
      if (d.equals(o.d)) return new Q(n.add(o.n), d);
      return new Q(n.multiply(o.d).add(o.n.multiply(d)), d.multiply(o.d));
    }
    Q sub(Q o) {
      if (d.equals(o.d)) return new Q(n.subtract(o.n), d);
      return new Q(n.multiply(o.d).subtract(o.n.multiply(d)), d.multiply(o.d));
    }
    Q mul(Q o) { return new Q(n.multiply(o.n), d.multiply(o.d)); }
    Q div(Q o) { return new Q(n.multiply(o.d), d.multiply(o.n)); }
    Q neg() { return new Q(n.negate(), d); }
    Q abs() { return new Q(n.abs(), d); }
    int cmp(Q o) {
      if (d.equals(o.d)) return n.compareTo(o.n);
      return n.multiply(o.d).compareTo(o.n.multiply(d));
    }
    BigInteger floor() {
      BigInteger[] qr = n.divideAndRemainder(d);
      return (qr[1].signum() < 0) ? qr[0].subtract(BigInteger.ONE) : qr[0];
    }
    // round(this * o, bits) without normalising the intermediate product
    Q mulRound(Q o, int bits) {
      BigInteger pn = n.multiply(o.n), pd = d.multiply(o.d);
      if (bits >= 0) {
        BigInteger sc = pn.shiftLeft(bits + 1).add(pd);
        BigInteger dd = pd.shiftLeft(1);
        BigInteger[] qr = sc.divideAndRemainder(dd);
        BigInteger f = (qr[1].signum() < 0) ? qr[0].subtract(BigInteger.ONE) : qr[0];
        return new Q(f, BigInteger.ONE.shiftLeft(bits));
      }
      return new Q(pn, pd).round(bits);
    }
    // nearest multiple of 2^-bits (ties towards +inf)
    Q round(int bits) {
      if (bits >= 0) {
        int tz = d.getLowestSetBit();
        if (d.bitLength() == tz + 1 && tz <= bits) return this;
        BigInteger sc = n.shiftLeft(bits + 1).add(d);
        BigInteger dd = d.shiftLeft(1);
        BigInteger[] qr = sc.divideAndRemainder(dd);
        BigInteger f = (qr[1].signum() < 0) ? qr[0].subtract(BigInteger.ONE) : qr[0];
        return new Q(f, BigInteger.ONE.shiftLeft(bits));
      } else {
        Q s = new Q(n, d.shiftLeft(-bits));
        Q h = s.add(new Q(BigInteger.ONE, BigInteger.TWO));
        return new Q(h.floor().shiftLeft(-bits), BigInteger.ONE);
      }
    }
  }

  // ---------- encoding ----------
  static Value limbs(BigInteger x) {  // x >= 0
    int nl = (x.bitLength() + LB - 1) / LB;
    Value[] v = new Value[nl];
    for (int i = 0; i < nl; i++) {
      v[i] = IntValue.gen(x.and(MASK).intValue());
      x = x.shiftRight(LB);
    }
    return new TupleValue(v);
  }
  static BigInteger unlimbs(Value v) {
    TupleValue t = (TupleValue) v.toTuple();
    BigInteger x = BigInteger.ZERO;
    for (int i = t.elems.length - 1; i >= 0; i--) {
      x = x.shiftLeft(LB).or(BigInteger.valueOf(((IntValue) t.elems[i]).val));
    }
    return x;
  }
  static Value enc(Q q) {
    int s = q.n.signum();
    return new TupleValue(new Value[] {IntValue.gen(s), limbs(q.n.abs()), limbs(q.d)});
  }
  static Q dec(Value v) {
    TupleValue t = (TupleValue) v.toTuple();
    if (t == null || t.elems.length != 3) throw new RuntimeException("BigRat: not a rational: " + v);
    int s = ((IntValue) t.elems[0]).val;
    BigInteger n = unlimbs(t.elems[1]);
    BigInteger d = unlimbs(t.elems[2]);
    if (s < 0) n = n.negate();
    if (s == 0) n = BigInteger.ZERO;
    return new Q(n, d);
  }
  static int iv(Value v) { return ((IntValue) v).val; }
  static Value[] tup(Value v) {
    Value t = v.toTuple();
    if (t == null) throw new RuntimeException("BigRat: not a sequence: " + v);
    return ((TupleValue) t).elems;
  }
  static Q[] decVec(Value v) {
    Value[] e = tup(v);
    Q[] r = new Q[e.length];
    for (int i = 0; i < e.length; i++) r[i] = dec(e[i]);
    return r;
  }
  static Q[][] decMat(Value v) {
    Value[] e = tup(v);
    Q[][] r = new Q[e.length][];
    for (int i = 0; i < e.length; i++) r[i] = decVec(e[i]);
    return r;
  }
  static Value encVec(Q[] q) {
    Value[] v = new Value[q.length];
    for (int i = 0; i < q.length; i++) v[i] = enc(q[i]);
    return new TupleValue(v);
  }
  static Value encMat(Q[][] q) {
    Value[] v = new Value[q.length];
    for (int i = 0; i < q.length; i++) v[i] = encVec(q[i]);
    return new TupleValue(v);
  }

  // ---------- scalar operators ----------
  public static Value RFromInt(Value i) { return enc(Q.of(iv(i))); }
  public static Value RPow2(Value k) {
    int e = iv(k);
    return enc(e >= 0 ? new Q(BigInteger.ONE.shiftLeft(e), BigInteger.ONE)
                      : new Q(BigInteger.ONE, BigInteger.ONE.shiftLeft(-e)));
  }
  // <<s, hi, lo, e>> = s*(hi*2^27+lo)*2^e
  static Q fromQuad(Value q) {
    Value[] t = tup(q);
    int s = iv(t[0]), hi = iv(t[1]), lo = iv(t[2]), e = iv(t[3]);
    if (e > 100000) throw new RuntimeException("BigRat: RFromDouble of a non-finite value");
    BigInteger m = BigInteger.valueOf(hi).shiftLeft(27).add(BigInteger.valueOf(lo));
    if (s < 0) m = m.negate();
    return e >= 0 ? new Q(m.shiftLeft(e), BigInteger.ONE) : new Q(m, BigInteger.ONE.shiftLeft(-e));
  }
  public static Value RFromDouble(Value q) { return enc(fromQuad(q)); }
  public static Value RVecFromDoubles(Value v) {
    Value[] e = tup(v);
    Q[] r = new Q[e.length];
    for (int i = 0; i < e.length; i++) r[i] = fromQuad(e[i]);
    return encVec(r);
  }
  public static Value RMatFromDoubles(Value v) {
    Value[] e = tup(v);
    Value[] r = new Value[e.length];
    for (int i = 0; i < e.length; i++) r[i] = RVecFromDoubles(e[i]);
    return new TupleValue(r);
  }
  public static Value RAdd(Value a, Value b) { return enc(dec(a).add(dec(b))); }
  public static Value RSub(Value a, Value b) { return enc(dec(a).sub(dec(b))); }
  public static Value RMul(Value a, Value b) { return enc(dec(a).mul(dec(b))); }
  public static Value RDiv(Value a, Value b) { return enc(dec(a).div(dec(b))); }
  public static Value RNeg(Value a) { return enc(dec(a).neg()); }
  public static Value RAbs(Value a) { return enc(dec(a).abs()); }
  public static Value RLeq(Value a, Value b) { return dec(a).cmp(dec(b)) <= 0 ? BoolValue.ValTrue : BoolValue.ValFalse; }
  public static Value RLt(Value a, Value b) { return dec(a).cmp(dec(b)) < 0 ? BoolValue.ValTrue : BoolValue.ValFalse; }
  public static Value REq(Value a, Value b) { return dec(a).cmp(dec(b)) == 0 ? BoolValue.ValTrue : BoolValue.ValFalse; }
  public static Value RSign(Value a) { return IntValue.gen(dec(a).n.signum()); }
  public static Value RFloor(Value a) { return enc(new Q(dec(a).floor(), BigInteger.ONE)); }
  public static Value RRound(Value a, Value bits) { return enc(dec(a).round(iv(bits))); }
  public static Value RMax(Value a, Value b) { Q x = dec(a), y = dec(b); return enc(x.cmp(y) >= 0 ? x : y); }
  public static Value RMin(Value a, Value b) { Q x = dec(a), y = dec(b); return enc(x.cmp(y) <= 0 ? x : y); }
  // floor(a) as a TLC integer (must fit)
  public static Value RFloorInt(Value a) { return IntValue.gen(dec(a).floor().intValueExact()); }
  // floor(log2(|a|)) for a # 0
  public static Value RLog2Floor(Value a) {
    Q q = dec(a).abs();
    int e = q.n.bitLength() - q.d.bitLength();
    // 2^e <= q < 2^(e+1) or 2^(e-1) <= q < 2^e
    Q p = e >= 0 ? new Q(BigInteger.ONE.shiftLeft(e), BigInteger.ONE) : new Q(BigInteger.ONE, BigInteger.ONE.shiftLeft(-e));
    if (q.cmp(p) < 0) e -= 1;
    return IntValue.gen(e);
  }
  // decimal rendering for reports only (about 6 significant digits)
  public static Value RToStr(Value a) {
    Q q = dec(a);
    if (q.n.signum() == 0) return new StringValue("0");
    java.math.BigDecimal bd = new java.math.BigDecimal(q.n).divide(new java.math.BigDecimal(q.d), new java.math.MathContext(8));
    return new StringValue(String.format("%.6e", bd.doubleValue() == 0.0 || Double.isInfinite(bd.doubleValue()) ? Double.NaN : bd.doubleValue()).replace("NaN", bd.toString()));
  }

  // identity on values; materialises lazily represented functions (FcnLambdaValue) as tuples so that
  // TLC does not re-evaluate their bodies on every access
  public static Value RForce(Value v) {
    if (v instanceof IntValue || v instanceof StringValue || v instanceof BoolValue) return v;
    Value t = (v instanceof TupleValue) ? v : v.toTuple();
    if (t == null) return v;
    Value[] e = ((TupleValue) t).elems;
    if (e.length == 3 && e[0] instanceof IntValue && e[1] instanceof TupleValue) return t;  // a rational
    Value[] r = new Value[e.length];
    for (int i = 0; i < e.length; i++) r[i] = RForce(e[i]);
    return new TupleValue(r);
  }

  // ---------- kernels ----------
  public static Value RDot(Value u, Value v) {
    Q[] a = decVec(u), b = decVec(v);
    if (a.length != b.length) throw new RuntimeException("RDot: length mismatch");
    Q s = Q.of(0);
    for (int i = 0; i < a.length; i++) s = s.add(a[i].mul(b[i]));
    return enc(s);
  }
  static Q[][] mm(Q[][] a, Q[][] b) {
    int n = a.length, k = b.length, m = k == 0 ? 0 : b[0].length;
    Q[][] c = new Q[n][m];
    for (int i = 0; i < n; i++) {
      if (a[i].length != k) throw new RuntimeException("RMatMul: shape mismatch");
      for (int j = 0; j < m; j++) {
        Q s = Q.of(0);
        for (int l = 0; l < k; l++) {
          if (a[i][l].n.signum() != 0 && b[l][j].n.signum() != 0) s = s.add(a[i][l].mul(b[l][j]));
        }
        c[i][j] = s;
      }
    }
    return c;
  }
  public static Value RMatMul(Value A, Value B) { return encMat(mm(decMat(A), decMat(B))); }
  public static Value RMatVec(Value A, Value v) {
    Q[][] a = decMat(A); Q[] x = decVec(v);
    Q[] r = new Q[a.length];
    for (int i = 0; i < a.length; i++) {
      Q s = Q.of(0);
      for (int l = 0; l < x.length; l++) s = s.add(a[i][l].mul(x[l]));
      r[i] = s;
    }
    return encVec(r);
  }
  public static Value RMatAdd(Value A, Value B) {
    Q[][] a = decMat(A), b = decMat(B);
    for (int i = 0; i < a.length; i++) for (int j = 0; j < a[i].length; j++) a[i][j] = a[i][j].add(b[i][j]);
    return encMat(a);
  }
  public static Value RMatSub(Value A, Value B) {
    Q[][] a = decMat(A), b = decMat(B);
    for (int i = 0; i < a.length; i++) for (int j = 0; j < a[i].length; j++) a[i][j] = a[i][j].sub(b[i][j]);
    return encMat(a);
  }
  public static Value RMatScale(Value s, Value A) {
    Q[][] a = decMat(A); Q k = dec(s);
    for (int i = 0; i < a.length; i++) for (int j = 0; j < a[i].length; j++) a[i][j] = a[i][j].mul(k);
    return encMat(a);
  }
  public static Value RMatRound(Value A, Value bits) {
    Q[][] a = decMat(A); int b = iv(bits);
    for (int i = 0; i < a.length; i++) for (int j = 0; j < a[i].length; j++) a[i][j] = a[i][j].round(b);
    return encMat(a);
  }
  public static Value RMatMaxAbs(Value A) {
    Q[][] a = decMat(A); Q m = Q.of(0);
    for (int i = 0; i < a.length; i++) for (int j = 0; j < a[i].length; j++) { Q x = a[i][j].abs(); if (x.cmp(m) > 0) m = x; }
    return enc(m);
  }
  public static Value RVecMaxAbs(Value v) {
    Q[] a = decVec(v); Q m = Q.of(0);
    for (int i = 0; i < a.length; i++) { Q x = a[i].abs(); if (x.cmp(m) > 0) m = x; }
    return enc(m);
  }
  // max row sum of absolute values
  public static Value RMatNormInf(Value A) {
    Q[][] a = decMat(A); Q m = Q.of(0);
    for (int i = 0; i < a.length; i++) { Q s = Q.of(0); for (int j = 0; j < a[i].length; j++) s = s.add(a[i][j].abs()); if (s.cmp(m) > 0) m = s; }
    return enc(m);
  }
  static boolean isPow2(BigInteger d) { return d.bitLength() == d.getLowestSetBit() + 1; }
  // exact inverse.  Dyadic matrices (the common case) go through fraction-free Gauss-Jordan
  // (Bareiss) on integers; anything else through plain Gauss-Jordan over the rationals.
  static Q[][] inv(Q[][] a) {
    int n = a.length;
    int maxsh = 0; boolean dyadic = true;
    for (int i = 0; i < n && dyadic; i++) for (int j = 0; j < n; j++) {
      if (!isPow2(a[i][j].d)) { dyadic = false; break; }
      maxsh = Math.max(maxsh, a[i][j].d.bitLength() - 1);
    }
    if (!dyadic) return invGJ(a);
    // W = [A 2^maxsh | I] as integers
    BigInteger[][] w = new BigInteger[n][2 * n];
    for (int i = 0; i < n; i++) for (int j = 0; j < n; j++) {
      w[i][j] = a[i][j].n.shiftLeft(maxsh - (a[i][j].d.bitLength() - 1));
      w[i][n + j] = (i == j) ? BigInteger.ONE : BigInteger.ZERO;
    }
    BigInteger prev = BigInteger.ONE;
    for (int k = 0; k < n; k++) {
      int p = -1;
      for (int r = k; r < n; r++) if (w[r][k].signum() != 0) { p = r; break; }
      if (p < 0) throw new RuntimeException("RMatInv: singular matrix");
      if (p != k) { BigInteger[] t = w[p]; w[p] = w[k]; w[k] = t; }
      BigInteger piv = w[k][k];
      for (int i = 0; i < n; i++) if (i != k) {
        BigInteger f = w[i][k];
        for (int j = 0; j < 2 * n; j++) w[i][j] = piv.multiply(w[i][j]).subtract(f.multiply(w[k][j])).divide(prev);
      }
      prev = piv;
    }
    // now W = [d I | d (A 2^maxsh)^-1]  with d = w[i][i] (row swaps are reflected in the right half)
    Q[][] r = new Q[n][n];
    Q sc = new Q(BigInteger.ONE.shiftLeft(maxsh), BigInteger.ONE);
    for (int i = 0; i < n; i++) for (int j = 0; j < n; j++) r[i][j] = new Q(w[i][n + j], w[i][i]).mul(sc);
    return r;
  }
  static Q[][] invGJ(Q[][] a) {
    int n = a.length;
    Q[][] w = new Q[n][2 * n];
    for (int i = 0; i < n; i++) for (int j = 0; j < n; j++) { w[i][j] = a[i][j]; w[i][n + j] = Q.of(i == j ? 1 : 0); }
    for (int c = 0; c < n; c++) {
      int p = -1;
      for (int r = c; r < n; r++) if (w[r][c].n.signum() != 0) { p = r; break; }
      if (p < 0) throw new RuntimeException("RMatInv: singular matrix");
      Q[] t = w[p]; w[p] = w[c]; w[c] = t;
      Q piv = w[c][c];
      for (int j = 0; j < 2 * n; j++) w[c][j] = w[c][j].div(piv);
      for (int r = 0; r < n; r++) if (r != c && w[r][c].n.signum() != 0) {
        Q f = w[r][c];
        for (int j = 0; j < 2 * n; j++) w[r][j] = w[r][j].sub(f.mul(w[c][j]));
      }
    }
    Q[][] inv = new Q[n][n];
    for (int i = 0; i < n; i++) for (int j = 0; j < n; j++) inv[i][j] = w[i][n + j];
    return inv;
  }
  public static Value RMatInv(Value A) { return encMat(inv(decMat(A))); }
  // inverse rounded to a multiple of 2^-bits (entries of the exact inverse are rounded directly)
  public static Value RMatInvRound(Value A, Value bits) {
    Q[][] r = inv(decMat(A)); int b = iv(bits);
    for (int i = 0; i < r.length; i++) for (int j = 0; j < r.length; j++) r[i][j] = r[i][j].round(b);
    return encMat(r);
  }
  // solve A x = b exactly (A square non-singular); b a matrix (columns = right-hand sides)
  public static Value RMatSolve(Value A, Value B) {
    return encMat(mm(inv(decMat(A)), decMat(B)));
  }
}
