------------------------------- MODULE BigRat -------------------------------
(***************************************************************************)
(* Exact rational arithmetic for TLC.                                      *)
(*                                                                         *)
(* A rational is the tuple <<s, N, D>>: s \in {-1,0,1}; N and D are        *)
(* little-endian tuples of base-2^15 limbs (integers 0..32767); N = <<>>   *)
(* iff s = 0; D is non-empty (value >= 1); the top limb is never 0.        *)
(* Every result produced here is in lowest terms (gcd(N,D) = 1, zero is    *)
(* <<0, <<>>, <<1>>>>), i.e. the same tuple the Java override BigRat.class *)
(* returns.  Arguments need not be in lowest terms.                        *)
(*                                                                         *)
(* These are the plain TLA+ definitions (the meaning).  When BigRat.class  *)
(* sits next to this file TLC replaces every R* operator by the Java       *)
(* method of the same name; the BR_* helpers have no override.             *)
(* All integer intermediates stay below 2^31 (TLC integers are 32-bit).    *)
(***************************************************************************)
EXTENDS Integers, Sequences, TLC

BR_B == 32768                        \* limb base 2^15
\* BR_P2[j+1] = 2^j for j \in 0..14
BR_P2 == <<1, 2, 4, 8, 16, 32, 64, 128, 256, 512, 1024, 2048, 4096, 8192, 16384>>

\* Turn a (lazily evaluated) function with domain 1..n into an evaluated tuple.
BR_Force(f) == f \o <<>>

BR_Zeros(k) == IF k <= 0 THEN <<>> ELSE BR_Force([i \in 1..k |-> 0])

(***************************************************************************)
(* Naturals: little-endian limb tuples, <<>> = 0, top limb # 0.            *)
(* Loops are written so that the evaluation depth stays logarithmic in the *)
(* number of limbs (TLC does not eliminate tail calls).                    *)
(***************************************************************************)
BR_Limb(x, i) == IF i <= Len(x) THEN x[i] ELSE 0

\* highest index i in lo..hi with x[i] # v, 0 if none
RECURSIVE BR_TopNe(_, _, _, _)
BR_TopNe(x, v, lo, hi) ==
  IF lo > hi THEN 0
  ELSE IF x[hi] # v THEN hi
  ELSE IF lo = hi THEN 0
  ELSE LET mid == (lo + hi) \div 2
           t   == BR_TopNe(x, v, mid + 1, hi - 1)
       IN  IF t # 0 THEN t ELSE BR_TopNe(x, v, lo, mid)
\* lowest index in lo..hi holding a non-zero limb, 0 if none
RECURSIVE BR_LowNZ(_, _, _)
BR_LowNZ(x, lo, hi) ==
  IF lo > hi THEN 0
  ELSE IF x[lo] # 0 THEN lo
  ELSE IF lo = hi THEN 0
  ELSE LET mid == (lo + hi) \div 2
           t   == BR_LowNZ(x, lo + 1, mid)
       IN  IF t # 0 THEN t ELSE BR_LowNZ(x, mid + 1, hi)

BR_NStrip(x) ==
  LET n == Len(x)
  IN  IF n = 0 THEN <<>>
      ELSE IF x[n] # 0 THEN x
      ELSE LET t == BR_TopNe(x, 0, 1, n - 1) IN IF t = 0 THEN <<>> ELSE SubSeq(x, 1, t)

RECURSIVE BR_NFromInt(_)             \* i >= 0
BR_NFromInt(i) == IF i = 0 THEN <<>> ELSE <<i % BR_B>> \o BR_NFromInt(i \div BR_B)

RECURSIVE BR_NToInt(_)               \* value must fit a TLC integer
BR_NToInt(x) == IF x = <<>> THEN 0 ELSE x[1] + BR_B * BR_NToInt(Tail(x))

\* carry out of limb position i, given the limb-wise sums s (each <= 2^16 - 2):
\* decided by the nearest position at or below i whose sum is not 2^15 - 1
BR_Carry(s, i) ==
  LET j == BR_TopNe(s, BR_B - 1, 1, i)
  IN  IF j = 0 THEN 0 ELSE IF s[j] >= BR_B THEN 1 ELSE 0
BR_NAdd(x, y) ==
  IF x = <<>> THEN y
  ELSE IF y = <<>> THEN x
  ELSE LET n == IF Len(x) >= Len(y) THEN Len(x) ELSE Len(y)
           s == BR_Force([i \in 1..n |-> BR_Limb(x, i) + BR_Limb(y, i)])
           r == BR_Force([i \in 1..n |-> (s[i] + BR_Carry(s, i - 1)) % BR_B])
       IN  IF BR_Carry(s, n) = 0 THEN r ELSE Append(r, 1)

\* borrow out of limb position i, given the limb-wise differences d:
\* decided by the nearest position at or below i whose difference is not 0
BR_Borrow(d, i) ==
  LET j == BR_TopNe(d, 0, 1, i)
  IN  IF j = 0 THEN 0 ELSE IF d[j] < 0 THEN 1 ELSE 0
BR_NSub(x, y) ==                      \* requires x >= y
  IF y = <<>> THEN x
  ELSE LET n == Len(x)
           d == BR_Force([i \in 1..n |-> x[i] - BR_Limb(y, i)])
       IN  BR_NStrip(BR_Force([i \in 1..n |-> (d[i] - BR_Borrow(d, i - 1) + BR_B) % BR_B]))

\* compare limbs lo..hi, most significant first
RECURSIVE BR_NCmpR(_, _, _, _)
BR_NCmpR(x, y, lo, hi) ==
  IF lo > hi THEN 0
  ELSE IF x[hi] < y[hi] THEN -1
  ELSE IF x[hi] > y[hi] THEN 1
  ELSE IF lo = hi THEN 0
  ELSE LET mid == (lo + hi) \div 2
           c   == BR_NCmpR(x, y, mid + 1, hi - 1)
       IN  IF c # 0 THEN c ELSE BR_NCmpR(x, y, lo, mid)
BR_NCmp(x, y) ==                      \* -1, 0, 1
  IF Len(x) < Len(y) THEN -1
  ELSE IF Len(x) > Len(y) THEN 1
  ELSE BR_NCmpR(x, y, 1, Len(x))

\* x * d for a single limb d: every product x[i]*d < 2^30 is split into two limbs
BR_NMulSmall(x, d) ==
  IF d = 0 \/ x = <<>> THEN <<>>
  ELSE IF d = 1 THEN x
  ELSE LET n  == Len(x)
           p  == BR_Force([i \in 1..n |-> x[i] * d])
           lo == BR_Force([i \in 1..n |-> p[i] % BR_B])
           hi == BR_Force([i \in 1..(n + 1) |-> IF i = 1 THEN 0 ELSE p[i - 1] \div BR_B])
       IN  BR_NStrip(BR_NAdd(lo, hi))

\* acc + row * B^off   (row # 0)
BR_NAddAt(acc, row, off) ==
  IF Len(acc) <= off THEN acc \o BR_Zeros(off - Len(acc)) \o row
  ELSE SubSeq(acc, 1, off) \o BR_NAdd(SubSeq(acc, off + 1, Len(acc)), row)

\* x * y[lo..hi] where x # 0 (schoolbook, by halving the multiplier)
RECURSIVE BR_NMulR(_, _, _, _)
BR_NMulR(x, y, lo, hi) ==
  IF lo = hi THEN BR_NMulSmall(x, y[lo])
  ELSE LET mid == (lo + hi) \div 2
           l   == BR_NMulR(x, y, lo, mid)
           h   == BR_NMulR(x, y, mid + 1, hi)
       IN  IF h = <<>> THEN l ELSE BR_NAddAt(l, h, mid + 1 - lo)
BR_NMul(x, y) ==
  IF x = <<>> \/ y = <<>> THEN <<>>
  ELSE IF y = <<1>> THEN x
  ELSE IF x = <<1>> THEN y
  ELSE IF Len(x) >= Len(y) THEN BR_NMulR(x, y, 1, Len(y))
  ELSE BR_NMulR(y, x, 1, Len(x))

BR_NPow2(k) == BR_Zeros(k \div 15) \o <<BR_P2[(k % 15) + 1]>>          \* k >= 0
BR_NShl(x, k) ==                                                       \* x * 2^k, k >= 0
  IF x = <<>> THEN <<>>
  ELSE BR_Zeros(k \div 15) \o BR_NMulSmall(x, BR_P2[(k % 15) + 1])
BR_NShr(x, k) ==                                                       \* x \div 2^k, k >= 0
  LET ls == k \div 15
      r  == k % 15
      n  == Len(x) - ls
  IN  IF n <= 0 THEN <<>>
      ELSE IF r = 0 THEN SubSeq(x, ls + 1, Len(x))
      ELSE LET p  == BR_P2[r + 1]
               pc == BR_P2[16 - r]
           IN  BR_NStrip(BR_Force([i \in 1..n |->
                   (x[ls + i] \div p) + (BR_Limb(x, ls + i + 1) % p) * pc]))

RECURSIVE BR_BitLen15(_)
BR_BitLen15(v) == IF v = 0 THEN 0 ELSE 1 + BR_BitLen15(v \div 2)
BR_NBitLen(x) == IF x = <<>> THEN 0 ELSE 15 * (Len(x) - 1) + BR_BitLen15(x[Len(x)])

RECURSIVE BR_Tz15(_)                  \* v > 0
BR_Tz15(v) == IF v % 2 = 1 THEN 0 ELSE 1 + BR_Tz15(v \div 2)
BR_NTz(x) ==                          \* number of trailing zero bits, x # 0
  LET i == BR_LowNZ(x, 1, Len(x)) IN 15 * (i - 1) + BR_Tz15(x[i])
BR_NIsPow2(x) == BR_NTz(x) = BR_NBitLen(x) - 1

\* Largest q in lo..hi with q*y <= rem (known to exist).
RECURSIVE BR_DigitSearch(_, _, _, _)
BR_DigitSearch(rem, y, lo, hi) ==
  IF lo >= hi THEN lo
  ELSE LET mid == (lo + hi + 1) \div 2
       IN  IF BR_NCmp(BR_NMulSmall(y, mid), rem) <= 0
           THEN BR_DigitSearch(rem, y, mid, hi)
           ELSE BR_DigitSearch(rem, y, lo, mid - 1)
\* Quotient digit of rem \div y where rem < y * 2^15: bracket it by the two leading
\* limbs of rem against the leading limb of y (>= 2^14, so the bracket is narrow), search.
BR_Digit(rem, y) ==
  LET n  == Len(y)
      rt == BR_Limb(rem, n + 1) * BR_B + BR_Limb(rem, n)
      yt == y[n]
      h0 == rt \div yt
      hi == IF h0 > BR_B - 1 THEN BR_B - 1 ELSE h0
      lo == rt \div (yt + 1)
  IN  IF n = 1 THEN h0 ELSE BR_DigitSearch(rem, y, lo, hi)

\* One step of long division; state st = <<limbs of x still to bring down, remainder, quotient>>.
BR_DivStep(x, y, st) ==
  LET i  == st[1]
      r1 == BR_NStrip(<<x[i]>> \o st[2])
      d  == BR_Digit(r1, y)
      r2 == IF d = 0 THEN r1 ELSE BR_NSub(r1, BR_NMulSmall(y, d))
  IN  <<i - 1, r2, <<d>> \o st[3]>>
\* up to 2^k steps
RECURSIVE BR_DivIter(_, _, _, _)
BR_DivIter(x, y, k, st) ==
  IF st[1] = 0 THEN st
  ELSE IF k = 0 THEN BR_DivStep(x, y, st)
  ELSE BR_DivIter(x, y, k - 1, BR_DivIter(x, y, k - 1, st))

\* <<x \div y, x % y>> for y # 0.  Long division by limbs; both operands are first
\* shifted left so that the top limb of the divisor is >= 2^14.
BR_NDivMod(x, y) ==
  IF BR_NCmp(x, y) < 0 THEN <<<<>>, x>>
  ELSE
    LET n  == Len(y)
        sh == 15 - BR_BitLen15(y[n])
        xs == BR_NShl(x, sh)
        ys == BR_NShl(y, sh)            \* still n limbs
        m  == Len(xs)
        st == BR_DivIter(xs, ys, BR_BitLen15(m), <<m - n + 1, SubSeq(xs, m - n + 2, m), <<>> >>)
    IN  <<BR_NStrip(st[3]), BR_NShr(st[2], sh)>>

\* Euclid; the driver doubles the step budget so that the nesting depth stays small.
BR_GcdStep(p) == <<p[2], BR_NDivMod(p[1], p[2])[2]>>
RECURSIVE BR_GcdIter(_, _)
BR_GcdIter(k, p) ==
  IF p[2] = <<>> THEN p
  ELSE IF k = 0 THEN BR_GcdStep(p)
  ELSE BR_GcdIter(k - 1, BR_GcdIter(k - 1, p))
RECURSIVE BR_GcdRun(_, _)
BR_GcdRun(k, p) == IF p[2] = <<>> THEN p[1] ELSE BR_GcdRun(k + 1, BR_GcdIter(k, p))
BR_NGcd(x, y) == BR_GcdRun(2, <<x, y>>)

(***************************************************************************)
(* Rationals.                                                              *)
(***************************************************************************)
BR_Zero == <<0, <<>>, <<1>> >>
BR_Half == <<1, <<1>>, <<2>> >>

\* Tolerant accessors (sign, numerator, denominator of an argument).
BR_N(a) == IF a[1] = 0 THEN <<>> ELSE BR_NStrip(a[2])
BR_S(a) == IF BR_N(a) = <<>> THEN 0 ELSE IF a[1] < 0 THEN -1 ELSE 1
BR_D(a) == BR_NStrip(a[3])

\* The rational s*n/d in lowest terms (n, d naturals; s \in {-1,1} unless n = 0).
BR_Mk(s, n, d) ==
  IF d = <<>> THEN Assert(FALSE, "BigRat: division by zero")
  ELSE IF n = <<>> THEN BR_Zero
  ELSE IF d = <<1>> \/ n = <<1>> THEN <<s, n, d>>
  ELSE
    LET tn == BR_NTz(n)
        td == BR_NTz(d)
        k  == IF tn < td THEN tn ELSE td
        n1 == IF k = 0 THEN n ELSE BR_NShr(n, k)
        d1 == IF k = 0 THEN d ELSE BR_NShr(d, k)
    IN  \* now one of n1, d1 is odd; a power of two is then coprime to the other
        IF d1 = <<1>> \/ n1 = <<1>> \/ BR_NIsPow2(d1) \/ BR_NIsPow2(n1) THEN <<s, n1, d1>>
        ELSE LET g == BR_NGcd(n1, d1)
             IN  IF g = <<1>> THEN <<s, n1, d1>>
                 ELSE <<s, BR_NDivMod(n1, g)[1], BR_NDivMod(d1, g)[1]>>

BR_Norm(a) == BR_Mk(BR_S(a), BR_N(a), BR_D(a))

\* signed sum of two signed naturals: <<sign, magnitude>>
BR_SAdd(sa, x, sb, y) ==
  IF sa = 0 THEN <<sb, y>>
  ELSE IF sb = 0 THEN <<sa, x>>
  ELSE IF sa = sb THEN <<sa, BR_NAdd(x, y)>>
  ELSE LET c == BR_NCmp(x, y)
       IN  IF c = 0 THEN <<0, <<>> >>
           ELSE IF c > 0 THEN <<sa, BR_NSub(x, y)>>
           ELSE <<sb, BR_NSub(y, x)>>

BR_AddG(sa, na, da, sb, nb, db) ==
  IF da = db THEN
    LET r == BR_SAdd(sa, na, sb, nb) IN BR_Mk(r[1], r[2], da)
  ELSE
    LET r == BR_SAdd(sa, BR_NMul(na, db), sb, BR_NMul(nb, da))
    IN  BR_Mk(r[1], r[2], BR_NMul(da, db))

BR_Cmp(a, b) ==                       \* -1, 0, 1
  LET sa == BR_S(a)
      sb == BR_S(b)
  IN  IF sa # sb THEN (IF sa < sb THEN -1 ELSE 1)
      ELSE IF sa = 0 THEN 0
      ELSE sa * (IF BR_D(a) = BR_D(b) THEN BR_NCmp(BR_N(a), BR_N(b))
                 ELSE BR_NCmp(BR_NMul(BR_N(a), BR_D(b)), BR_NMul(BR_N(b), BR_D(a))))

\* floor(a) as <<sign, magnitude>>
BR_FloorSN(a) ==
  LET s == BR_S(a)
  IN  IF s = 0 THEN <<0, <<>> >>
      ELSE IF BR_D(a) = <<1>> THEN <<s, BR_N(a)>>
      ELSE LET qr == BR_NDivMod(BR_N(a), BR_D(a))
           IN  IF s > 0 THEN (IF qr[1] = <<>> THEN <<0, <<>> >> ELSE <<1, qr[1]>>)
               ELSE <<-1, IF qr[2] = <<>> THEN qr[1] ELSE BR_NAdd(qr[1], <<1>>)>>

RFromInt(i) ==
  IF i = 0 THEN BR_Zero
  ELSE IF i > 0 THEN <<1, BR_NFromInt(i), <<1>> >>
  ELSE <<-1, BR_NFromInt(-i), <<1>> >>

RPow2(k) ==
  IF k >= 0 THEN <<1, BR_NPow2(k), <<1>> >> ELSE <<1, <<1>>, BR_NPow2(-k)>>

\* q = <<s, hi, lo, e>> denotes s*(hi*2^27 + lo)*2^e, 0 <= hi < 2^26, 0 <= lo < 2^27.
\* hi*2^27 + lo = lo%2^15 + 2^15*(lo\div 2^15 + (hi%8)*2^12) + 2^30*(hi\div 8)
RFromDouble(q) ==
  LET hi == q[2]
      lo == q[3]
      e  == q[4]
      h8 == hi \div 8
      m  == BR_NStrip(<<lo % BR_B, (lo \div BR_B) + (hi % 8) * 4096, h8 % BR_B, h8 \div BR_B>>)
      s  == IF q[1] < 0 THEN -1 ELSE 1
  IN  IF e > 100000 THEN Assert(FALSE, "BigRat: RFromDouble of a non-finite value")
      ELSE IF m = <<>> THEN BR_Zero
      ELSE IF e >= 0 THEN <<s, BR_NShl(m, e), <<1>> >>
      ELSE BR_Mk(s, m, BR_NPow2(-e))

RVecFromDoubles(v) ==
  IF Len(v) = 0 THEN <<>> ELSE BR_Force([i \in 1..Len(v) |-> RFromDouble(v[i])])
RMatFromDoubles(m) ==
  IF Len(m) = 0 THEN <<>> ELSE BR_Force([i \in 1..Len(m) |-> RVecFromDoubles(m[i])])

RAdd(a, b) == BR_AddG(BR_S(a), BR_N(a), BR_D(a), BR_S(b), BR_N(b), BR_D(b))
RSub(a, b) == BR_AddG(BR_S(a), BR_N(a), BR_D(a), -BR_S(b), BR_N(b), BR_D(b))
RMul(a, b) == BR_Mk(BR_S(a) * BR_S(b), BR_NMul(BR_N(a), BR_N(b)), BR_NMul(BR_D(a), BR_D(b)))
RDiv(a, b) == BR_Mk(BR_S(a) * BR_S(b), BR_NMul(BR_N(a), BR_D(b)), BR_NMul(BR_D(a), BR_N(b)))
RNeg(a) == BR_Mk(-BR_S(a), BR_N(a), BR_D(a))
RAbs(a) == BR_Mk(1, BR_N(a), BR_D(a))
RLeq(a, b) == BR_Cmp(a, b) <= 0
RLt(a, b) == BR_Cmp(a, b) < 0
REq(a, b) == BR_Cmp(a, b) = 0
RSign(a) == BR_S(a)
RFloor(a) == LET f == BR_FloorSN(a) IN IF f[1] = 0 THEN BR_Zero ELSE <<f[1], f[2], <<1>> >>

\* nearest multiple of 2^-bits, ties towards +infinity: floor(a*2^bits + 1/2) / 2^bits
RRound(a, bits) ==
  IF BR_S(a) = 0 THEN BR_Zero
  ELSE IF bits >= 0 /\ BR_NIsPow2(BR_D(a)) /\ BR_NTz(BR_D(a)) <= bits THEN BR_Norm(a)
  ELSE RMul(RFloor(RAdd(RMul(a, RPow2(bits)), BR_Half)), RPow2(-bits))

RMax(a, b) == IF BR_Cmp(a, b) >= 0 THEN BR_Norm(a) ELSE BR_Norm(b)
RMin(a, b) == IF BR_Cmp(a, b) <= 0 THEN BR_Norm(a) ELSE BR_Norm(b)

\* floor(a) as a TLC integer (must fit)
RFloorInt(a) == LET f == BR_FloorSN(a) IN f[1] * BR_NToInt(f[2])

\* floor(log2(|a|)) for a # 0
RLog2Floor(a) ==
  LET n == BR_N(a)
      d == BR_D(a)
      e == BR_NBitLen(n) - BR_NBitLen(d)
      c == IF e >= 0 THEN BR_NCmp(n, BR_NShl(d, e)) ELSE BR_NCmp(BR_NShl(n, -e), d)
  IN  IF n = <<>> THEN Assert(FALSE, "BigRat: RLog2Floor of zero")
      ELSE IF c < 0 THEN e - 1 ELSE e

\* rendering for reports only; the Java override prints about 6 significant digits
RToStr(a) == "?"

(***************************************************************************)
(* Kernels: folds over the scalar operators.  Vectors are sequences of     *)
(* rationals, matrices are sequences of rows.                              *)
(***************************************************************************)
RECURSIVE BR_SumR(_, _, _)             \* sum of v[lo..hi]
BR_SumR(v, lo, hi) ==
  IF lo > hi THEN BR_Zero
  ELSE IF lo = hi THEN BR_Norm(v[lo])
  ELSE LET mid == (lo + hi) \div 2 IN RAdd(BR_SumR(v, lo, mid), BR_SumR(v, mid + 1, hi))
RECURSIVE BR_MaxR(_, _, _)             \* max(0, max of v[lo..hi])
BR_MaxR(v, lo, hi) ==
  IF lo > hi THEN BR_Zero
  ELSE IF lo = hi THEN RMax(BR_Zero, v[lo])
  ELSE LET mid == (lo + hi) \div 2 IN RMax(BR_MaxR(v, lo, mid), BR_MaxR(v, mid + 1, hi))

BR_Vec(n, F(_)) == IF n <= 0 THEN <<>> ELSE BR_Force([i \in 1..n |-> F(i)])
BR_Cols(A) == IF Len(A) = 0 THEN 0 ELSE Len(A[1])

RDot(u, v) ==
  IF Len(u) # Len(v) THEN Assert(FALSE, "RDot: length mismatch")
  ELSE LET P(i) == RMul(u[i], v[i]) IN BR_SumR(BR_Vec(Len(u), P), 1, Len(u))

RMatMul(A, B) ==
  LET m == BR_Cols(B)
      Row(i) == LET a == A[i]
                    E(j) == LET C(l) == B[l][j] IN RDot(a, BR_Vec(Len(B), C))
                IN  IF Len(a) # Len(B) THEN Assert(FALSE, "RMatMul: shape mismatch")
                    ELSE BR_Vec(m, E)
  IN  BR_Vec(Len(A), Row)

RMatVec(A, v) == LET E(i) == RDot(A[i], v) IN BR_Vec(Len(A), E)

RMatAdd(A, B) ==
  LET Row(i) == LET E(j) == RAdd(A[i][j], B[i][j]) IN BR_Vec(Len(A[i]), E)
  IN  BR_Vec(Len(A), Row)
RMatSub(A, B) ==
  LET Row(i) == LET E(j) == RSub(A[i][j], B[i][j]) IN BR_Vec(Len(A[i]), E)
  IN  BR_Vec(Len(A), Row)
RMatScale(s, A) ==
  LET Row(i) == LET E(j) == RMul(A[i][j], s) IN BR_Vec(Len(A[i]), E)
  IN  BR_Vec(Len(A), Row)
RMatRound(A, bits) ==
  LET Row(i) == LET E(j) == RRound(A[i][j], bits) IN BR_Vec(Len(A[i]), E)
  IN  BR_Vec(Len(A), Row)

RVecMaxAbs(v) == LET E(i) == RAbs(v[i]) IN BR_MaxR(BR_Vec(Len(v), E), 1, Len(v))
RMatMaxAbs(A) == LET E(i) == RVecMaxAbs(A[i]) IN BR_MaxR(BR_Vec(Len(A), E), 1, Len(A))
\* max row sum of absolute values
RMatNormInf(A) ==
  LET RowSum(i) == LET E(j) == RAbs(A[i][j]) IN BR_SumR(BR_Vec(Len(A[i]), E), 1, Len(A[i]))
  IN  BR_MaxR(BR_Vec(Len(A), RowSum), 1, Len(A))

\* Gauss-Jordan on the augmented matrix w = [A | I]; first non-zero pivot in column c.
RECURSIVE BR_Pivot(_, _, _)
BR_Pivot(w, c, r) ==
  IF r > Len(w) THEN 0 ELSE IF BR_S(w[r][c]) # 0 THEN r ELSE BR_Pivot(w, c, r + 1)

RECURSIVE BR_GJ(_, _)
BR_GJ(w, c) ==
  LET n == Len(w) IN
  IF c > n THEN w
  ELSE
    LET p   == BR_Pivot(w, c, c)
        Sw(r) == IF r = c THEN w[p] ELSE IF r = p THEN w[c] ELSE w[r]
        ws  == BR_Vec(n, Sw)
        piv == ws[c][c]
        Pc(j) == RDiv(ws[c][j], piv)
        rc  == BR_Vec(2 * n, Pc)
        El(r) == IF r = c THEN rc
                 ELSE IF BR_S(ws[r][c]) = 0 THEN ws[r]
                 ELSE LET f == ws[r][c]
                          E(j) == RSub(ws[r][j], RMul(f, rc[j]))
                      IN  BR_Vec(2 * n, E)
    IN  IF p = 0 THEN Assert(FALSE, "RMatInv: singular matrix")
        ELSE BR_GJ(BR_Vec(n, El), c + 1)

RMatInv(A) ==
  LET n == Len(A)
      Aug(i) == LET E(j) == IF j <= n THEN BR_Norm(A[i][j])
                            ELSE IF j - n = i THEN <<1, <<1>>, <<1>> >> ELSE BR_Zero
                IN  BR_Vec(2 * n, E)
      w == BR_GJ(BR_Vec(n, Aug), 1)
      Out(i) == SubSeq(w[i], n + 1, 2 * n)
  IN  BR_Vec(n, Out)

\* solve A X = B exactly (A square, non-singular; the columns of B are right-hand sides)
\* identity (the Java override materialises lazily represented functions; no change of value)
RForce(x) == x
RMatInvRound(A, bits) == RMatRound(RMatInv(A), bits)
RMatSolve(A, B) == RMatMul(RMatInv(A), B)
=============================================================================
