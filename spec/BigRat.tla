------------------------------- MODULE BigRat -------------------------------
(* Exact rational arithmetic for TLC.  PLACEHOLDER bodies: the plain TLA+       *)
(* definitions are being written; TLC executes the Java override BigRat.class.  *)
EXTENDS Integers, Sequences
RFromInt(i) == <<i>>
RPow2(k) == <<k>>
RFromDouble(q) == q
RVecFromDoubles(v) == v
RMatFromDoubles(v) == v
RAdd(a, b) == a
RSub(a, b) == a
RMul(a, b) == a
RDiv(a, b) == a
RNeg(a) == a
RAbs(a) == a
RLeq(a, b) == TRUE
RLt(a, b) == TRUE
REq(a, b) == TRUE
RSign(a) == 0
RFloor(a) == a
RRound(a, bits) == a
RMax(a, b) == a
RMin(a, b) == a
RFloorInt(a) == 0
RLog2Floor(a) == 0
RToStr(a) == "?"
RDot(u, v) == u
RMatMul(A, B) == A
RMatVec(A, v) == v
RMatAdd(A, B) == A
RMatSub(A, B) == A
RMatScale(s, A) == A
RMatRound(A, bits) == A
RMatMaxAbs(A) == A
RVecMaxAbs(v) == v
RMatNormInf(A) == A
RMatInv(A) == A
RMatSolve(A, B) == A
=============================================================================
