CONSTANTS
  MaxLen = 3
  Variant = "code"
INIT Init
NEXT Next
INVARIANT LayoutOK
INVARIANT HessOK
CHECK_DEADLOCK FALSE
