---------------------------- MODULE BundleLayout ----------------------------
(* Design-level model of the index arithmetic of smooth::Bundle (detail/        *)
(* bundle.hpp): prefix sums of the members' RepSize / Dof / Dim, the segments   *)
(* and diagonal blocks addressed by part i, and the placement of a member's     *)
(* stacked Hessian inside the bundle's stacked Hessian                          *)
(*     H_out.block<Di, Di>(Bi, Dof * (Bi + j) + Bi) = Hi.middleCols<Di>(Di * j) *)
(* checked by TLC against the abstract direct-product layout for EVERY          *)
(* composition (sequence of member kinds, nesting included) up to MaxLen:       *)
(*   Tiles     - the parts' segments tile [0, N) exactly, in order, for the     *)
(*               coefficient, tangent and matrix index ranges;                  *)
(*   HessBlock - entry (row r, column c) of the bundle Hessian is written by    *)
(*               member p exactly when r, i(c), k(c) all lie in member p's      *)
(*               tangent segment, and then holds member entry                   *)
(*               (r - Bp, (i - Bp) Dp + (k - Bp)); every other entry is         *)
(*               structurally zero.  (block i, entry (j,k) = d J(i,j)/d a_k)    *)
(* Variant = "rep_for_dof" / "hess_col" are spec mutants (a prefix sum of the   *)
(* wrong quantity; the Hessian column offset without Bi) that TLC must reject.  *)
EXTENDS Naturals, Sequences, FiniteSets, TLC

CONSTANTS MaxLen, Variant

\* member kinds: <<RepSize, Dof, Dim>>
Kinds == [SO2 |-> <<2, 1, 2>>, SO3 |-> <<4, 3, 3>>, SE2 |-> <<4, 3, 3>>, SE3 |-> <<7, 6, 4>>, C1 |-> <<2, 2, 2>>,
          Gal |-> <<11, 10, 5>>, SEK2 |-> <<10, 9, 5>>, R1 |-> <<1, 1, 2>>, R2 |-> <<2, 2, 3>>, R3 |-> <<3, 3, 4>>,
          BSO3R2 |-> <<6, 5, 6>>]         \* a nested Bundle<SO3, R2> used as a member
KindNames == DOMAIN Kinds

VARIABLE comp          \* the composition under construction: a sequence of kind names
vars == <<comp>>

Size(k, q) == Kinds[k][q]          \* q = 1 RepSize, 2 Dof, 3 Dim

\* array_psum as coded: ret[0] = 0; partial_sum(x) into ret[1..]   (0-based index i -> Psum[i + 1] here)
RECURSIVE PsumAcc(_, _, _)
PsumAcc(c, q, i) == IF i = 0 THEN 0 ELSE PsumAcc(c, q, i - 1) + Size(c[i], q)
Psum(c, q) == [i \in 1..(Len(c) + 1) |-> PsumAcc(c, q, i - 1)]
Total(c, q) == Psum(c, q)[Len(c) + 1]

\* offset used by the implementation for part p in index range q (the mutant confuses Rep and Dof sums)
ImplOff(c, q, p) == IF Variant = "rep_for_dof" /\ q = 1 THEN Psum(c, 2)[p] ELSE Psum(c, q)[p]
ImplSeg(c, q, p) == {ImplOff(c, q, p) + d : d \in 0..(Size(c[p], q) - 1)}

\* abstract layout: consecutive segments in order
RECURSIVE AbsStart(_, _, _)
AbsStart(c, q, p) == IF p = 1 THEN 0 ELSE AbsStart(c, q, p - 1) + Size(c[p - 1], q)

Tiles(c) ==
  \A q \in 1..3 :
    /\ \A p \in 1..Len(c) : ImplOff(c, q, p) = AbsStart(c, q, p)
    /\ UNION {ImplSeg(c, q, p) : p \in 1..Len(c)} = 0..(Total(c, q) - 1)
    /\ \A p1, p2 \in 1..Len(c) : p1 # p2 => ImplSeg(c, q, p1) \cap ImplSeg(c, q, p2) = {}

\* Hessian placement: the set of (row, col, member, member row, member col) cells written by the code
HessWrites(c) ==
  LET n == Total(c, 2)
  IN UNION {
       LET Bi == Psum(c, 2)[p]  Di == Size(c[p], 2)
       IN { <<Bi + r, (IF Variant = "hess_col" THEN n * (Bi + j) ELSE n * (Bi + j) + Bi) + k, p, r, Di * j + k>>
              : r \in 0..(Di - 1), j \in 0..(Di - 1), k \in 0..(Di - 1) }
       : p \in 1..Len(c) }
\* abstract: bundle entry (row, block i, column-in-block k) belongs to member p iff all three indices are in p's segment
HessSpec(c) ==
  LET n == Total(c, 2)
  IN UNION {
       LET Bp == AbsStart(c, 2, p)  Dp == Size(c[p], 2)
       IN { <<row, n * i + k, p, row - Bp, Dp * (i - Bp) + (k - Bp)>>
              : row \in Bp..(Bp + Dp - 1), i \in Bp..(Bp + Dp - 1), k \in Bp..(Bp + Dp - 1) }
       : p \in 1..Len(c) }
HessBlock(c) == HessWrites(c) = HessSpec(c)

Init == comp = <<>>
Next == Len(comp) < MaxLen /\ \E k \in KindNames : comp' = Append(comp, k)
Spec == Init /\ [][Next]_vars

LayoutOK == Len(comp) > 0 => Tiles(comp)
HessOK == (Len(comp) > 0 /\ Total(comp, 2) <= 16) => HessBlock(comp)
=============================================================================
