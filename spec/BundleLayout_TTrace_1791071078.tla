---- MODULE BundleLayout_TTrace_1791071078 ----
EXTENDS Sequences, TLCExt, Toolbox, Naturals, TLC, BundleLayout

_expression ==
    LET BundleLayout_TEExpression == INSTANCE BundleLayout_TEExpression
    IN BundleLayout_TEExpression!expression
----

_trace ==
    LET BundleLayout_TETrace == INSTANCE BundleLayout_TETrace
    IN BundleLayout_TETrace!trace
----

_inv ==
    ~(
        TLCGet("level") = Len(_TETrace)
        /\
        comp = (<<"SO2", "SO2">>)
    )
----

_init ==
    /\ comp = _TETrace[1].comp
----

_next ==
    /\ \E i,j \in DOMAIN _TETrace:
        /\ \/ /\ j = i + 1
              /\ i = TLCGet("level")
        /\ comp  = _TETrace[i].comp
        /\ comp' = _TETrace[j].comp

\* Uncomment the ASSUME below to write the states of the error trace
\* to the given file in Json format. Note that you can pass any tuple
\* to `JsonSerialize`. For example, a sub-sequence of _TETrace.
    \* ASSUME
    \*     LET J == INSTANCE Json
    \*         IN J!JsonSerialize("BundleLayout_TTrace_1791071078.json", _TETrace)

=============================================================================

 Note that you can extract this module `BundleLayout_TEExpression`
  to a dedicated file to reuse `expression` (the module in the 
  dedicated `BundleLayout_TEExpression.tla` file takes precedence 
  over the module `BundleLayout_TEExpression` below).

---- MODULE BundleLayout_TEExpression ----
EXTENDS Sequences, TLCExt, Toolbox, Naturals, TLC, BundleLayout

expression == 
    [
        \* To hide variables of the `BundleLayout` spec from the error trace,
        \* remove the variables below.  The trace will be written in the order
        \* of the fields of this record.
        comp |-> comp
        
        \* Put additional constant-, state-, and action-level expressions here:
        \* ,_stateNumber |-> _TEPosition
        \* ,_compUnchanged |-> comp = comp'
        
        \* Format the `comp` variable as Json value.
        \* ,_compJson |->
        \*     LET J == INSTANCE Json
        \*     IN J!ToJson(comp)
        
        \* Lastly, you may build expressions over arbitrary sets of states by
        \* leveraging the _TETrace operator.  For example, this is how to
        \* count the number of times a spec variable changed up to the current
        \* state in the trace.
        \* ,_compModCount |->
        \*     LET F[s \in DOMAIN _TETrace] ==
        \*         IF s = 1 THEN 0
        \*         ELSE IF _TETrace[s].comp # _TETrace[s-1].comp
        \*             THEN 1 + F[s-1] ELSE F[s-1]
        \*     IN F[_TEPosition - 1]
    ]

=============================================================================



Parsing and semantic processing can take forever if the trace below is long.
 In this case, it is advised to uncomment the module below to deserialize the
 trace from a generated binary file.

\*
\*---- MODULE BundleLayout_TETrace ----
\*EXTENDS IOUtils, TLC, BundleLayout
\*
\*trace == IODeserialize("BundleLayout_TTrace_1791071078.bin", TRUE)
\*
\*=============================================================================
\*

---- MODULE BundleLayout_TETrace ----
EXTENDS TLC, BundleLayout

trace == 
    <<
    ([comp |-> <<>>]),
    ([comp |-> <<"SO2">>]),
    ([comp |-> <<"SO2", "SO2">>])
    >>
----


=============================================================================

---- CONFIG BundleLayout_TTrace_1791071078 ----
CONSTANTS
    MaxLen = 3
    Variant = "rep_for_dof"

INVARIANT
    _inv

CHECK_DEADLOCK
    \* CHECK_DEADLOCK off because of PROPERTY or INVARIANT above.
    FALSE

INIT
    _init

NEXT
    _next

CONSTANT
    _TETrace <- _trace

ALIAS
    _expression
=============================================================================
\* Generated on Sat Oct 03 23:44:40 UTC 2026