----------------------------- MODULE CSplineRef -----------------------------
(* Reference semantics of cumulative Lie-group splines (property C11), over    *)
(* exact rationals, from the mathematical definition only:                     *)
(*                                                                             *)
(*    g(u) = prod_{i=1..K} Exp( b_i(u) v_i ),   b_i(u) = sum_k u^k B[k][i]      *)
(*                                                                             *)
(* for an ARBITRARY (K+1)x(K+1) coefficient matrix B (rows = powers of u,      *)
(* columns = basis index, column 0 unused), with Exp the matrix exponential of *)
(* the documented Lie-algebra matrix (Groups!GHat, RFun!ExpM).                 *)
(* Derivatives with respect to u are obtained by the Leibniz rule on the exact *)
(* matrices ("jets" <<X, X', X'', X'''>>):                                     *)
(*    E_i = Exp(b_i V_i),  E_i' = b_i' V_i E_i,  E_i'' = (b_i'' V_i + b_i'^2 V_i^2) E_i,  *)
(*    E_i''' = (b_i''' V_i + 3 b_i' b_i'' V_i^2 + b_i'^3 V_i^3) E_i               *)
(* and the body-frame derivatives are read off  W = g^-1 g'  and its            *)
(* derivatives  W' = g^-1 g'' - W^2,  W'' = g^-1 g''' - W (g^-1 g'') - W' W - W W'. *)
(* There is no Ad-transport recursion, no closed-form exp, no dr_exp in the    *)
(* curve or its u-derivatives.                                                 *)
(* Jacobians with respect to the differences v_i / the control points g_i are  *)
(* exact central differences of this curve with step h = 2^-40:                *)
(*    value:   vee( Log( g(x-h)^-1 g(x+h) ) ) / 2h      (body-frame right derivative) *)
(*    vel/acc: ( f(x+h) - f(x-h) ) / 2h                                        *)
(* where a control point is perturbed on the right, g_i Exp(h e_k), and the    *)
(* logarithm of a perturbed relative element is obtained RELATIONALLY: a       *)
(* candidate x is accepted only if vee(Log(Exp(-x) M)) is below 2^-70 (Log is   *)
(* the power series near the identity); the spec's own Phi1M-based Jacobian     *)
(* merely proposes / corrects the candidate (Newton), it is not trusted.        *)
EXTENDS Tol

CS_H == RPow2(-40)
CS_Inv2H == RPow2(39)
R3 == RFromInt(3)

\* intermediate products are rounded to multiples of 2^-256 (keeps the rationals short; the error is far
\* below the 2^-128 of ExpM)
CS_R(X) == MRound(X, 256)
CS_RV(x) == MRound(<<x>>, 256)[1]

---------------------------------------------------------------------------
\* basis polynomials
RECURSIVE CS_Fall(_, _)
CS_Fall(k, d) == IF d = 0 THEN 1 ELSE k * CS_Fall(k - 1, d - 1)

RECURSIVE CS_PowSeq(_, _, _)
CS_PowSeq(u, n, acc) == IF Len(acc) > n THEN acc ELSE CS_PowSeq(u, n, Append(acc, RMul(acc[Len(acc)], u)))
CS_Pows(u, K) == CS_PowSeq(u, K, <<R1>>)           \* <<1, u, ..., u^K>>

\* d-th derivative at u of b_i(u) = sum_{k=0..K} u^k B[k+1][i+1]     (i = 1..K)
CS_BasisD(B, U, K, i, d) ==
  IF d > K THEN R0
  ELSE RDot(RForce([k \in 1..(K + 1 - d) |-> RMul(RFromInt(CS_Fall(k - 1 + d, d)), U[k])]),
            RForce([k \in 1..(K + 1 - d) |-> B[k + d][i + 1]]))
\* bs[i] = <<b_i, b_i', b_i'', b_i'''>> at u
CS_Basis(B, u, K) ==
  LET U == CS_Pows(u, K)
  IN RForce([i \in 1..K |-> [d \in 1..4 |-> CS_BasisD(B, U, K, i, d - 1)]])

---------------------------------------------------------------------------
\* jets: <<X, X', ..., X^(n)>>, n = order
CS_IdJet(dim, n) == RForce([d \in 1..(n + 1) |-> IF d = 1 THEN MId(dim) ELSE MZero(dim, dim)])

\* jet of Exp(b(u) hat(v)) given bd = <<b, b', b'', b'''>>
CS_Factor(g, bd, v, n) ==
  LET Vh == GHat(g, v)
      E == ExpM(MScale(bd[1], Vh))
      V2 == MMul(Vh, Vh)
      C1 == MScale(bd[2], Vh)
      C2 == MAdd(MScale(bd[3], Vh), MScale(RSq(bd[2]), V2))
      C3 == MAdd(MAdd(MScale(bd[4], Vh), MScale(RMul(R3, RMul(bd[2], bd[3])), V2)),
                 MScale(RMul(bd[2], RSq(bd[2])), MMul(V2, Vh)))
  IN IF n = 0 THEN <<E>>
     ELSE IF n = 1 THEN <<E, CS_R(MMul(C1, E))>>
     ELSE IF n = 2 THEN <<E, CS_R(MMul(C1, E)), CS_R(MMul(C2, E))>>
     ELSE <<E, CS_R(MMul(C1, E)), CS_R(MMul(C2, E)), CS_R(MMul(C3, E))>>

\* Leibniz: (PQ)^(m) = sum_a binom(m,a) P^(a) Q^(m-a)
CS_JMul(P, Q, n) ==
  LET X0 == CS_R(MMul(P[1], Q[1]))
  IN IF n = 0 THEN <<X0>>
     ELSE LET X1 == CS_R(MAdd(MMul(P[2], Q[1]), MMul(P[1], Q[2])))
          IN IF n = 1 THEN <<X0, X1>>
             ELSE LET X2 == CS_R(MAdd(MAdd(MMul(P[3], Q[1]), MScale(R2, MMul(P[2], Q[2]))), MMul(P[1], Q[3])))
                  IN IF n = 2 THEN <<X0, X1, X2>>
                     ELSE <<X0, X1, X2,
                            CS_R(MAdd(MAdd(MMul(P[4], Q[1]), MScale(R3, MMul(P[3], Q[2]))),
                                      MAdd(MScale(R3, MMul(P[2], Q[3])), MMul(P[1], Q[4]))))>>
\* constant matrix times a jet
CS_CMul(C, Q, n) == RForce([d \in 1..(n + 1) |-> CS_R(MMul(C, Q[d]))])

\* Pre[j+1] = F_1 ... F_j  (j = 0..K)
RECURSIVE CS_Prefix(_, _, _)
CS_Prefix(Fs, n, acc) ==
  IF Len(acc) > Len(Fs) THEN acc
  ELSE CS_Prefix(Fs, n, Append(acc, CS_JMul(acc[Len(acc)], Fs[Len(acc)], n)))
\* Suf[j] = F_j ... F_K  (j = 1..K+1)
RECURSIVE CS_Suffix(_, _, _)
CS_Suffix(Fs, n, acc) ==
  LET j == Len(Fs) + 1 - Len(acc)
  IN IF j < 1 THEN acc ELSE CS_Suffix(Fs, n, <<CS_JMul(Fs[j], acc[1], n)>> \o acc)

\* body-frame derivatives of a jet X (order n >= 1): vel = vee(X^-1 X'), acc = d vel/du, jer = d acc/du
CS_Body(g, X, n) ==
  LET Gi == MInvD(X[1])
      A1 == MMul(Gi, X[2])
      A2 == MMul(Gi, X[3])
      A3 == MMul(Gi, X[4])
      W1 == MSub(A2, MMul(A1, A1))
      W2 == MSub(MSub(A3, MMul(A1, A2)), MAdd(MMul(W1, A1), MMul(A1, W1)))
  IN [Gi |-> Gi,
      vel |-> GVee(g, A1),
      acc |-> IF n >= 2 THEN GVee(g, W1) ELSE <<>>,
      jer |-> IF n >= 3 THEN GVee(g, W2) ELSE <<>>]

---------------------------------------------------------------------------
\* logarithm near the identity (power series; |N - I| is below 1e-6 wherever this is used)
CS_LogNearI(N) ==
  LET D == MSub(N, MId(Rows(N)))
      D2 == MMul(D, D)
      D3 == MMul(D2, D)
      D4 == MMul(D2, D2)
  IN MAdd(MSub(D, MScale(RHalf, D2)), MSub(MScale(RFrac(1, 3), D3), MScale(RPow2(-2), D4)))

\* one Newton correction of a candidate logarithm x of M:  r = vee(Log(Exp(-x) M)),  x + Jinv r.
\* returns <<corrected x, |r|>>; |r| certifies the candidate (x solves Exp(x) = M up to r in right-trivialised
\* coordinates); Jinv only has to be a reasonable approximation of dr_exp(x)^-1.
CS_LogStep(g, Mx, x, Jinv) ==
  LET N == CS_R(MMul(ExpM(MNeg(GHat(g, x))), Mx))
      r == GVee(g, CS_R(CS_LogNearI(N)))
  IN <<CS_RV(VAdd(x, MVec(Jinv, r))), VMaxAbs(r), MaxAbs(MSub(N, MId(Rows(N))))>>
RECURSIVE CS_LogIter(_, _, _, _, _, _)
CS_LogIter(g, Mx, x, Jinv, k, first) ==
  LET s == CS_LogStep(g, Mx, x, Jinv)
      f == IF k = 6 THEN s[3] ELSE first       \* residual of the witness itself (first round)
  IN IF RLeq(s[2], RPow2(-100)) \/ k = 0 THEN <<s[1], s[2], f>>
     ELSE CS_LogIter(g, Mx, s[1], Jinv, k - 1, f)
\* refine a witness x0 of log(M): <<x, last correction size, |Exp(-x0) M - I|>>
CS_LogRefine(g, Mx, x0) == CS_LogIter(g, Mx, x0, XDrExpInv(g, x0), 6, R0)

---------------------------------------------------------------------------
\* magnitudes entering the rounding-error floors of the comparisons
RECURSIVE CS_SumAbs(_, _, _)
CS_SumAbs(bs, d, i) == IF i = 0 THEN R0 ELSE RAdd(RAbs(bs[i][d]), CS_SumAbs(bs, d, i - 1))
RECURSIVE CS_MaxV(_, _)
CS_MaxV(vs, i) == IF i = 0 THEN R0 ELSE RMax(VMaxAbs(vs[i]), CS_MaxV(vs, i - 1))
RECURSIVE CS_Amp(_, _)
CS_Amp(Fs, i) ==
  IF i = 0 THEN R1
  ELSE RMul(RMul(RMax(R1, NormInf(Fs[i][1])), RMax(R1, NormInf(MInvD(Fs[i][1])))), CS_Amp(Fs, i - 1))

\* everything the evaluation checks need for the curve with differences vs
\*   n: highest u-derivative (3 for the evaluation events, 2 for the Jacobian events)
CS_Curve(g, B, u, vs, K, n) ==
  LET bs == CS_Basis(B, u, K)
      Fs == RForce([i \in 1..K |-> CS_Factor(g, bs[i], vs[i], n)])
      Pre == CS_Prefix(Fs, n, <<CS_IdJet(Dim(g), n)>>)
      X == Pre[K + 1]
      body == CS_Body(g, X, n)
      vmax == CS_MaxV(vs, K)
      be0 == CS_SumAbs(bs, 1, K)  be1 == CS_SumAbs(bs, 2, K)  be2 == CS_SumAbs(bs, 3, K)  be3 == CS_SumAbs(bs, 4, K)
      S1 == RMul(be1, vmax)
      S2 == RAdd(RMul(be2, vmax), RSq(S1))
      S3 == RAdd(RMul(be3, vmax), RAdd(RMul(R3, RMul(S1, S2)), RMul(S1, RSq(S1))))
      b0 == RMax(R1, be0)
      JF1 == RAdd(be1, RMul(b0, S1))
      JF2 == RAdd(be2, RAdd(RMul(R2, RMul(be1, S1)), RMul(b0, RAdd(S2, RSq(S1)))))
      JF3 == RAdd(RAdd(be3, RMul(R3, RMul(be2, S1))),
                  RAdd(RMul(R3, RMul(be1, RAdd(S2, RSq(S1)))),
                       RMul(b0, RAdd(S3, RAdd(RMul(R3, RMul(S1, S2)), RMul(S1, RSq(S1)))))))
  IN [bs |-> bs, Fs |-> Fs, Pre |-> Pre, X |-> X, body |-> body, amp |-> CS_Amp(Fs, K),
      \* S[d]: magnitude of the terms that make up the d-th body derivative
      S |-> <<S1, S2, S3>>,
      \* JF[d+1]: magnitude of the terms of the Jacobian of (value, vel, acc, jerk)[d] w.r.t. a difference
      JF |-> <<b0, JF1, JF2, JF3>>,
      \* HF[d+1]: the same one order higher (sensitivity of those Jacobians to the differences)
      HF |-> <<RSq(b0),
               RAdd(RMul(b0, JF1), RMul(R2, RMul(be1, b0))),
               RAdd(RMul(b0, JF2), RAdd(RMul(R2, RMul(be1, JF1)), RMul(R2, RMul(be2, b0))))>>]

---------------------------------------------------------------------------
\* central differences.  A "sample" is the triple <<X0, vel, acc>> of one perturbed curve; nd = 0, 1, 2 tells how
\* many of vel, acc are needed.
CS_Sample(g, X, nd) ==
  IF nd = 0 THEN [X |-> X[1], Gi |-> MInvD(X[1]), vel |-> <<>>, acc |-> <<>>]
  ELSE LET b == CS_Body(g, X, nd) IN [X |-> X[1], Gi |-> b.Gi, vel |-> b.vel, acc |-> b.acc]
\* column of the three Jacobians from the samples at +h and -h
CS_DiffCol(g, sp, sm, nd) ==
  [dg |-> VScale(CS_Inv2H, GVee(g, CS_LogNearI(MMul(sm.Gi, sp.X)))),
   dvel |-> IF nd >= 1 THEN VScale(CS_Inv2H, VSub(sp.vel, sm.vel)) ELSE <<>>,
   dacc |-> IF nd >= 2 THEN VScale(CS_Inv2H, VSub(sp.acc, sm.acc)) ELSE <<>>]

CS_ColsToJac(cols, nd) ==
  [dg |-> MFromCols(RForce([c \in 1..Len(cols) |-> cols[c].dg])),
   dvel |-> IF nd >= 1 THEN MFromCols(RForce([c \in 1..Len(cols) |-> cols[c].dvel])) ELSE <<>>,
   dacc |-> IF nd >= 2 THEN MFromCols(RForce([c \in 1..Len(cols) |-> cols[c].dacc])) ELSE <<>>]

\* Jacobians with respect to the differences: column (j-1) Dof + k perturbs component k of v_j
CS_JacVs(g, cv, vs, K, nd) ==
  LET n == Dof(g)
      Suf == CS_Suffix(cv.Fs, nd, <<CS_IdJet(Dim(g), nd)>>)
      OneSide(j, k, hh) ==
        LET vp == [vs[j] EXCEPT ![k] = RAdd(@, hh)]
            X == CS_JMul(CS_JMul(cv.Pre[j], CS_Factor(g, cv.bs[j], vp, nd), nd), Suf[j + 1], nd)
        IN CS_Sample(g, X, nd)
      Col(c) ==
        LET j == ((c - 1) \div n) + 1  k == ((c - 1) % n) + 1
        IN CS_DiffCol(g, OneSide(j, k, CS_H), OneSide(j, k, RNeg(CS_H)), nd)
  IN CS_ColsToJac(RForce([c \in 1..(n * K) |-> Col(c)]), nd)

\* Jacobians with respect to the control points g_0..g_K (right perturbation g_c Exp(h e_k)).
\*   Ms[i] = g_(i-1)^-1 g_i (matrices), xs[i] = its refined logarithm,
\*   JR[i], JL[i]: proposals for dr_exp(x_i)^-1, dl_exp(x_i)^-1 (only used to propose / correct candidates)
\* returns the Jacobians and the largest candidate residual (to be checked against 2^-70 by the caller)
CS_JacGs(g, cv, Ms, xs, JR, JL, K, nd) ==
  LET n == Dof(g)
      Suf == CS_Suffix(cv.Fs, nd, <<CS_IdJet(Dim(g), nd)>>)
      Pp == RForce([k \in 1..n |-> ExpM(GHat(g, VScale(CS_H, VUnit(n, k))))])
      Pm == RForce([k \in 1..n |-> ExpM(GHat(g, VScale(RNeg(CS_H), VUnit(n, k))))])
      OneSide(c, k, sgn) ==     \* c = 0..K control point, sgn = 1 / -1
        LET hh == IF sgn = 1 THEN CS_H ELSE RNeg(CS_H)
            P == IF sgn = 1 THEN Pp[k] ELSE Pm[k]            \* Exp(+-h e_k)
            Pinv == IF sgn = 1 THEN Pm[k] ELSE Pp[k]
            \* factor c: M_c P, candidate x_c + hh JR_c e_k
            la == IF c >= 1
                  THEN CS_LogStep(g, CS_R(MMul(Ms[c], P)), VAdd(xs[c], VScale(hh, MCol(JR[c], k))), JR[c])
                  ELSE <<>>
            \* factor c+1: P^-1 M_(c+1), candidate x_(c+1) - hh JL_(c+1) e_k
            lb == IF c < K
                  THEN CS_LogStep(g, CS_R(MMul(Pinv, Ms[c + 1])), VSub(xs[c + 1], VScale(hh, MCol(JL[c + 1], k))), JR[c + 1])
                  ELSE <<>>
            Fa == IF c >= 1 THEN CS_Factor(g, cv.bs[c], la[1], nd) ELSE CS_IdJet(Dim(g), nd)
            Fb == IF c < K THEN CS_Factor(g, cv.bs[c + 1], lb[1], nd) ELSE CS_IdJet(Dim(g), nd)
            mid == IF c = 0 THEN Fb ELSE IF c = K THEN Fa ELSE CS_JMul(Fa, Fb, nd)
            right == IF c + 2 <= K + 1 THEN CS_JMul(mid, Suf[c + 2], nd) ELSE mid
            X == IF c = 0 THEN CS_CMul(P, right, nd) ELSE CS_JMul(cv.Pre[c], right, nd)
            res == RMax(IF c >= 1 THEN la[2] ELSE R0, IF c < K THEN lb[2] ELSE R0)
        IN [s |-> CS_Sample(g, X, nd), res |-> res]
      Col(cc) ==
        LET c == (cc - 1) \div n  k == ((cc - 1) % n) + 1
            sp == OneSide(c, k, 1)  sm == OneSide(c, k, -1)
            dc == CS_DiffCol(g, sp.s, sm.s, nd)
        IN [res |-> RMax(sp.res, sm.res), dg |-> dc.dg, dvel |-> dc.dvel, dacc |-> dc.dacc]
      cols == RForce([cc \in 1..(n * (K + 1)) |-> Col(cc)])
      RECURSIVE MaxRes(_)
      MaxRes(i) == IF i = 0 THEN R0 ELSE RMax(cols[i].res, MaxRes(i - 1))
      jj == CS_ColsToJac(cols, nd)
  IN [res |-> MaxRes(Len(cols)), dg |-> jj.dg, dvel |-> jj.dvel, dacc |-> jj.dacc]
=============================================================================
