\* C18 design model, design-level scenario "value semantics + guarded table + thread-private scratch":
\* 3 threads x 2 instances, every thread picks any of the footprints for every instance.  Must pass.
SPECIFICATION Spec
CONSTANTS
  NThreads = 3
  NInst = 2
  Footprints <- FpDesign
INVARIANTS TypeOK NoRace Deterministic
