------------------------------- MODULE ConstOps -------------------------------
(* Design-level model for property C18: non-mutating operations of the library  *)
(* executed concurrently on shared const inputs (DESIGN.md section 5, C18).      *)
(*                                                                               *)
(* Threads 1..NThreads each execute NInst operation instances.  An instance IS   *)
(* its FOOTPRINT: the program-ordered list of atomic accesses on shared state    *)
(*     [k |-> "R",    loc]   read of a shared location                           *)
(*     [k |-> "W",    loc]   write of a shared location                          *)
(*     [k |-> "Init", loc]   first-use initialisation of a GUARDED static        *)
(*                           (C++11 function-local static / guarded inline       *)
(*                           variable): atomic test of the once-flag; the thread *)
(*                           that finds it unset writes the static while every   *)
(*                           other thread arriving at the same guard blocks      *)
(*     [k |-> "Lazy", loc]   first-use initialisation WITHOUT a guard:           *)
(*                           read flag; if unset: write value, write flag        *)
(* Memory holds tokens.  A write stores a token that names the writing instance  *)
(* (its thread-private arguments); the result of an instance is the sequence of  *)
(* tokens it read.  There is NO synchronisation in this API other than the       *)
(* once-guards, so two accesses of different threads are ordered only through a  *)
(* guard; everything else is concurrent.                                         *)
(*                                                                               *)
(* Invariants                                                                    *)
(*   NoRace         no state in which two threads are both about to access the   *)
(*                  same location with a write among the two accesses            *)
(*   Deterministic  every finished instance read exactly the tokens it reads     *)
(*                  when run alone from the initial memory (Solo)                *)
(*   TypeOK                                                                      *)
(* and the temporal property Finishes (no thread is blocked for ever at a guard).*)
(*                                                                               *)
(* The footprints are NOT assumed: the driver (tools/fam_conc.py) records them   *)
(* from the real code (harness/conc.cpp --phase fp: byte snapshots of every      *)
(* shared const input and of the executable's static storage around single       *)
(* calls, guard symbols from the binary) and passes them as a generated module     *)
(* ConstOpsEnv_<n> (EXTENDS ConstOps, FpRecorded).  The fixed scenarios at the end of    *)
(* the module are the design-level cases and the seeded specification mutants    *)
(* (ConstOps.cfg, ConstOps_*.cfg): a shared scratch cell, an unguarded lazy      *)
(* table and a history-dependent cache MUST be rejected, thread-private scratch, *)
(* guarded tables and read-only access MUST pass.                                *)
(*                                                                               *)
(* A counterexample is a schedule: the driver reads the thread that moved in     *)
(* every step off the dumped trace (i, ph, pc per thread) and the harness        *)
(* replays it on the real object (harness/conc.cpp --phase sched).               *)
EXTENDS Integers, Sequences, FiniteSets, TLC

CONSTANTS NThreads,     \* number of threads (2..3)
          NInst,        \* instances per thread
          Footprints    \* sequence of [name |-> STRING, steps |-> sequence of [k, loc]]

Threads == 1..NThreads
FP(f) == Footprints[f].steps
AllSteps == UNION {{FP(f)[j] : j \in 1..Len(FP(f))} : f \in 1..Len(Footprints)}
Flag(l) == l \o "#flag"
Locs == {s.loc : s \in AllSteps} \cup {Flag(s.loc) : s \in {x \in AllSteps : x.k = "Lazy"}}
Guarded == {s.loc : s \in {x \in AllSteps : x.k = "Init"}}
Kinds == {"R", "W", "Init", "Lazy"}

ASSUME /\ NThreads \in 1..4 /\ NInst \in 1..3
       /\ \A s \in AllSteps : s.k \in Kinds

WTok(t, k, j) == <<"w", t, k, j>>      \* what instance k of thread t stores at its step j
InitT == <<"init">>                    \* initial content of every location (tokens are tuples: comparable)
SV == <<"sv">>                         \* the value of an initialised static (the same whoever initialises it)
SetT == <<"set">>

(* The run of one instance alone, from the initial memory: the tokens it reads. *)
RECURSIVE Solo(_, _, _, _, _, _)
Solo(fp, t, k, j, ov, rd) ==
  IF j > Len(fp) THEN rd
  ELSE LET s == fp[j]
           put(v) == [x \in (DOMAIN ov) \cup {s.loc} |-> IF x = s.loc THEN v ELSE ov[x]]
       IN CASE s.k = "R" -> Solo(fp, t, k, j + 1, ov, Append(rd, IF s.loc \in DOMAIN ov THEN ov[s.loc] ELSE InitT))
            [] s.k = "W" -> Solo(fp, t, k, j + 1, put(WTok(t, k, j)), rd)
            [] OTHER     -> Solo(fp, t, k, j + 1, put(SV), rd)

(* --algorithm ConstOps
variables mem = [l \in Locs |-> InitT],
          once = [s \in Guarded |-> "uninit"],
          nfin = [t \in Threads |-> 0];

fair process thr \in Threads
variables k = 1, f = 1, i = 1, ph = 0, reads = <<>>;
begin
inst: while k <= NInst do
        with ff \in 1..Len(Footprints) do f := ff end with;
        i := 1; ph := 0; reads := <<>>;
acc:    while i <= Len(FP(f)) do
          with s = FP(f)[i] do
            if s.k = "R" then
              reads := Append(reads, mem[s.loc]); i := i + 1;
            elsif s.k = "W" then
              mem[s.loc] := WTok(self, k, i); i := i + 1;
            elsif s.k = "Init" then
              if ph = 0 then
                await once[s.loc] # "busy";
                if once[s.loc] = "uninit" then once[s.loc] := "busy"; ph := 1;
                else i := i + 1;
                end if;
              else
                mem[s.loc] := SV; once[s.loc] := "done"; ph := 0; i := i + 1;
              end if;
            else
              if ph = 0 then
                if mem[Flag(s.loc)] = SetT then i := i + 1; else ph := 1; end if;
              elsif ph = 1 then
                mem[s.loc] := SV; ph := 2;
              else
                mem[Flag(s.loc)] := SetT; ph := 0; i := i + 1;
              end if;
            end if;
          end with;
        end while;
fin:    nfin[self] := nfin[self] + 1;      \* the instance returns: `reads` is its result (checked by Deterministic here)
        k := k + 1;
      end while;
end process;
end algorithm *)
\* BEGIN TRANSLATION
VARIABLES pc, mem, once, nfin, k, f, i, ph, reads

vars == << pc, mem, once, nfin, k, f, i, ph, reads >>

ProcSet == (Threads)

Init == (* Global variables *)
        /\ mem = [l \in Locs |-> InitT]
        /\ once = [s \in Guarded |-> "uninit"]
        /\ nfin = [t \in Threads |-> 0]
        (* Process thr *)
        /\ k = [self \in Threads |-> 1]
        /\ f = [self \in Threads |-> 1]
        /\ i = [self \in Threads |-> 1]
        /\ ph = [self \in Threads |-> 0]
        /\ reads = [self \in Threads |-> <<>>]
        /\ pc = [self \in ProcSet |-> "inst"]

inst(self) == /\ pc[self] = "inst"
              /\ IF k[self] <= NInst
                    THEN /\ \E ff \in 1..Len(Footprints):
                              f' = [f EXCEPT ![self] = ff]
                         /\ i' = [i EXCEPT ![self] = 1]
                         /\ ph' = [ph EXCEPT ![self] = 0]
                         /\ reads' = [reads EXCEPT ![self] = <<>>]
                         /\ pc' = [pc EXCEPT ![self] = "acc"]
                    ELSE /\ pc' = [pc EXCEPT ![self] = "Done"]
                         /\ UNCHANGED << f, i, ph, reads >>
              /\ UNCHANGED << mem, once, nfin, k >>

acc(self) == /\ pc[self] = "acc"
             /\ IF i[self] <= Len(FP(f[self]))
                   THEN /\ LET s == FP(f[self])[i[self]] IN
                             IF s.k = "R"
                                THEN /\ reads' = [reads EXCEPT ![self] = Append(reads[self], mem[s.loc])]
                                     /\ i' = [i EXCEPT ![self] = i[self] + 1]
                                     /\ UNCHANGED << mem, once, ph >>
                                ELSE /\ IF s.k = "W"
                                           THEN /\ mem' = [mem EXCEPT ![s.loc] = WTok(self, k[self], i[self])]
                                                /\ i' = [i EXCEPT ![self] = i[self] + 1]
                                                /\ UNCHANGED << once, ph >>
                                           ELSE /\ IF s.k = "Init"
                                                      THEN /\ IF ph[self] = 0
                                                                 THEN /\ once[s.loc] # "busy"
                                                                      /\ IF once[s.loc] = "uninit"
                                                                            THEN /\ once' = [once EXCEPT ![s.loc] = "busy"]
                                                                                 /\ ph' = [ph EXCEPT ![self] = 1]
                                                                                 /\ i' = i
                                                                            ELSE /\ i' = [i EXCEPT ![self] = i[self] + 1]
                                                                                 /\ UNCHANGED << once, 
                                                                                                 ph >>
                                                                      /\ mem' = mem
                                                                 ELSE /\ mem' = [mem EXCEPT ![s.loc] = SV]
                                                                      /\ once' = [once EXCEPT ![s.loc] = "done"]
                                                                      /\ ph' = [ph EXCEPT ![self] = 0]
                                                                      /\ i' = [i EXCEPT ![self] = i[self] + 1]
                                                      ELSE /\ IF ph[self] = 0
                                                                 THEN /\ IF mem[Flag(s.loc)] = SetT
                                                                            THEN /\ i' = [i EXCEPT ![self] = i[self] + 1]
                                                                                 /\ ph' = ph
                                                                            ELSE /\ ph' = [ph EXCEPT ![self] = 1]
                                                                                 /\ i' = i
                                                                      /\ mem' = mem
                                                                 ELSE /\ IF ph[self] = 1
                                                                            THEN /\ mem' = [mem EXCEPT ![s.loc] = SV]
                                                                                 /\ ph' = [ph EXCEPT ![self] = 2]
                                                                                 /\ i' = i
                                                                            ELSE /\ mem' = [mem EXCEPT ![Flag(s.loc)] = SetT]
                                                                                 /\ ph' = [ph EXCEPT ![self] = 0]
                                                                                 /\ i' = [i EXCEPT ![self] = i[self] + 1]
                                                           /\ once' = once
                                     /\ reads' = reads
                        /\ pc' = [pc EXCEPT ![self] = "acc"]
                   ELSE /\ pc' = [pc EXCEPT ![self] = "fin"]
                        /\ UNCHANGED << mem, once, i, ph, reads >>
             /\ UNCHANGED << nfin, k, f >>

fin(self) == /\ pc[self] = "fin"
             /\ nfin' = [nfin EXCEPT ![self] = nfin[self] + 1]
             /\ k' = [k EXCEPT ![self] = k[self] + 1]
             /\ pc' = [pc EXCEPT ![self] = "inst"]
             /\ UNCHANGED << mem, once, f, i, ph, reads >>

thr(self) == inst(self) \/ acc(self) \/ fin(self)

(* Allow infinite stuttering to prevent deadlock on termination. *)
Terminating == /\ \A self \in ProcSet: pc[self] = "Done"
               /\ UNCHANGED vars

Next == (\E self \in Threads: thr(self))
           \/ Terminating

Spec == /\ Init /\ [][Next]_vars
        /\ \A self \in Threads : WF_vars(thr(self))

Termination == <>(\A self \in ProcSet: pc[self] = "Done")

\* END TRANSLATION

(* The access a thread is about to perform: <<kind, location>>, or <<"-","-">> *)
NextAcc(t) ==
  IF pc[t] # "acc" \/ i[t] > Len(FP(f[t])) THEN <<"-", "-">>
  ELSE LET s == FP(f[t])[i[t]]
       IN CASE s.k = "R"    -> <<"R", s.loc>>
            [] s.k = "W"    -> <<"W", s.loc>>
            [] s.k = "Init" -> IF ph[t] = 1 THEN <<"W", s.loc>> ELSE <<"-", "-">>   \* the guard test itself is atomic
            [] OTHER        -> IF ph[t] = 0 THEN <<"R", Flag(s.loc)>>
                               ELSE IF ph[t] = 1 THEN <<"W", s.loc>> ELSE <<"W", Flag(s.loc)>>

Conflict(a, b) == a[2] # "-" /\ a[2] = b[2] /\ (a[1] = "W" \/ b[1] = "W")

NoRace == \A t1, t2 \in Threads : t1 < t2 => ~Conflict(NextAcc(t1), NextAcc(t2))

Deterministic ==
  \A t \in Threads : pc[t] = "fin" => reads[t] = Solo(FP(f[t]), t, k[t], 1, <<>>, <<>>)

TypeOK == /\ \A t \in Threads : k[t] \in 1..(NInst + 1) /\ f[t] \in 1..Len(Footprints) /\ ph[t] \in 0..2
          /\ \A s \in Guarded : once[s] \in {"uninit", "busy", "done"}
          /\ \A t \in Threads : nfin[t] \in 0..NInst /\ (pc[t] = "Done" => nfin[t] = NInst)

Finishes == <>(\A t \in Threads : pc[t] = "Done")

-----------------------------------------------------------------------------
(* Footprints recorded from the real code: tools/fam_conc.py writes a module ConstOpsEnv_<n> that EXTENDS this one  *)
(* and defines FpRecorded (substituted for Footprints), checked with 2 and 3 threads x 2 instances.                *)

(* Design-level scenarios / seeded specification mutants *)
St(kind, loc) == [k |-> kind, loc |-> loc]
\* const members computing into locals and return values (lie_group_base.hpp): read-only on the shared object
FpReadOnly == << [name |-> "value-semantics", steps |-> <<St("R", "obj")>>] >>
\* SubManifold as shipped: const rplus / rminus fill the mutable member m_calc and read it back; dof reads only
FpScratch == << [name |-> "rplus",  steps |-> <<St("R", "obj"), St("W", "obj.m_calc"), St("R", "obj.m_calc")>>],
                [name |-> "rminus", steps |-> <<St("R", "obj"), St("W", "obj.m_calc"), St("R", "obj.m_calc")>>],
                [name |-> "dof",    steps |-> <<St("R", "obj")>>] >>
\* the repaired SubManifold: the scratch is a local variable, i.e. not part of any footprint
FpLocalScratch == << [name |-> "rplus",  steps |-> <<St("R", "obj")>>],
                     [name |-> "rminus", steps |-> <<St("R", "obj")>>],
                     [name |-> "dof",    steps |-> <<St("R", "obj")>>] >>
\* BSpline::operator(): function-local static basis table behind a guard, then reads
FpOnce == << [name |-> "bspline-eval", steps |-> <<St("Init", "Bum"), St("R", "Bum"), St("R", "ctrl_pts")>>],
             [name |-> "other-eval",   steps |-> <<St("R", "ctrl_pts")>>] >>
\* the same table filled lazily without a guard
FpLazy == << [name |-> "bspline-eval", steps |-> <<St("Lazy", "Bum"), St("R", "Bum"), St("R", "ctrl_pts")>>] >>
\* a cache whose content depends on the history of calls
FpCache == << [name |-> "cached-eval", steps |-> <<St("R", "obj"), St("R", "obj.cache"), St("W", "obj.cache")>>] >>
\* a shared non-const table that an operation rescales in place
FpTable == << [name |-> "eval", steps |-> <<St("Init", "tbl"), St("R", "tbl"), St("W", "tbl")>>] >>
\* the design as documented: value semantics + a guarded table + thread-private scratch, any mix per thread
FpDesign == FpLocalScratch \o FpOnce
=============================================================================
