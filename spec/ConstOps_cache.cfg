\* C18 design model, scenario FpCache (see ConstOps.tla)
SPECIFICATION Spec
CONSTANTS
  NThreads = 2
  NInst = 2
  Footprints <- FpCache
INVARIANTS TypeOK NoRace Deterministic
PROPERTIES Finishes
