\* C18: recorded footprints, only Deterministic (schedule with a wrong result, replayed on the real object)
SPECIFICATION Spec
CONSTANTS
  NThreads = 2
  NInst = 2
  Footprints <- FpEnv
INVARIANTS TypeOK Deterministic
