\* C18: footprints recorded from the real code (FOOTPRINTS = JSON file written by tools/fam_conc.py)
SPECIFICATION Spec
CONSTANTS
  NThreads = 3
  NInst = 2
  Footprints <- FpEnv
INVARIANTS TypeOK NoRace Deterministic
