\* C18 design model, scenario FpLazy (see ConstOps.tla)
SPECIFICATION Spec
CONSTANTS
  NThreads = 2
  NInst = 2
  Footprints <- FpLazy
INVARIANTS TypeOK NoRace Deterministic
PROPERTIES Finishes
