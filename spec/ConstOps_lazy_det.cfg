\* C18 design model, scenario FpLazy without NoRace: every branch of the unguarded initialisation is explored (the value tokens
\* alone do not expose the race - NoRace does, ConstOps_lazy.cfg)
SPECIFICATION Spec
CONSTANTS
  NThreads = 2
  NInst = 2
  Footprints <- FpLazy
INVARIANTS TypeOK Deterministic
PROPERTIES Finishes
