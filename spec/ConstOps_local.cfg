\* C18 design model, scenario FpLocalScratch (see ConstOps.tla)
SPECIFICATION Spec
CONSTANTS
  NThreads = 3
  NInst = 2
  Footprints <- FpLocalScratch
INVARIANTS TypeOK NoRace Deterministic
