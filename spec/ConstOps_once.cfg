\* C18 design model, scenario FpOnce (see ConstOps.tla)
SPECIFICATION Spec
CONSTANTS
  NThreads = 3
  NInst = 2
  Footprints <- FpOnce
INVARIANTS TypeOK NoRace Deterministic
PROPERTIES Finishes
