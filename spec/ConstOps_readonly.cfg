\* C18 design model, scenario FpReadOnly (see ConstOps.tla)
SPECIFICATION Spec
CONSTANTS
  NThreads = 3
  NInst = 2
  Footprints <- FpReadOnly
INVARIANTS TypeOK NoRace Deterministic
