\* C18 design model, scenario FpScratch (see ConstOps.tla)
SPECIFICATION Spec
CONSTANTS
  NThreads = 2
  NInst = 2
  Footprints <- FpScratch
INVARIANTS TypeOK NoRace Deterministic
PROPERTIES Finishes
