\* C18 design model, scenario FpScratch, only Deterministic: TLC must find the schedule with a wrong result
SPECIFICATION Spec
CONSTANTS
  NThreads = 2
  NInst = 2
  Footprints <- FpScratch
INVARIANTS TypeOK Deterministic
