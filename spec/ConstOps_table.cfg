\* C18 design model, scenario FpTable (see ConstOps.tla)
SPECIFICATION Spec
CONSTANTS
  NThreads = 2
  NInst = 2
  Footprints <- FpTable
INVARIANTS TypeOK NoRace Deterministic
PROPERTIES Finishes
