------------------------------- MODULE Groups -------------------------------
(* The matrix Lie groups of pettni/smooth as their headers DOCUMENT them:      *)
(* coefficient layout, representation constraint, Lie-group matrix, Lie-algebra*)
(* matrix and the matrix action on points.  Everything else (composition,      *)
(* inverse, exp, Ad, ad, bracket, Jacobians, Hessians) is DERIVED here from    *)
(* matrix algebra and power series only - no Rodrigues formula, no closed-form  *)
(* Jacobian, no small-angle switch - so the oracle shares nothing with the     *)
(* implementation beyond the documented forms.                                 *)
(*                                                                             *)
(* A group descriptor is a record: [k |-> "SO2"|"SO3"|"SE2"|"SE3"|"C1"|"Gal"], *)
(* [k |-> "SEK3", n |-> K], [k |-> "R", n |-> N] (translations, also scalars    *)
(* with n = 1) or [k |-> "B", parts |-> <<descriptors>>] (Bundle).             *)
EXTENDS RFun

---------------------------------------------------------------------------
\* sizes
RECURSIVE RepSize(_), Dof(_), Dim(_)
RECURSIVE SumRep(_, _), SumDof(_, _), SumDim(_, _)
SumRep(ps, k) == IF k = 0 THEN 0 ELSE SumRep(ps, k - 1) + RepSize(ps[k])
SumDof(ps, k) == IF k = 0 THEN 0 ELSE SumDof(ps, k - 1) + Dof(ps[k])
SumDim(ps, k) == IF k = 0 THEN 0 ELSE SumDim(ps, k - 1) + Dim(ps[k])

RepSize(g) ==
  CASE g.k = "SO2" -> 2 [] g.k = "SO3" -> 4 [] g.k = "SE2" -> 4 [] g.k = "SE3" -> 7
    [] g.k = "C1" -> 2 [] g.k = "Gal" -> 11 [] g.k = "SEK3" -> 3 * g.n + 4
    [] g.k = "R" -> g.n [] g.k = "B" -> SumRep(g.parts, Len(g.parts))
Dof(g) ==
  CASE g.k = "SO2" -> 1 [] g.k = "SO3" -> 3 [] g.k = "SE2" -> 3 [] g.k = "SE3" -> 6
    [] g.k = "C1" -> 2 [] g.k = "Gal" -> 10 [] g.k = "SEK3" -> 3 * g.n + 3
    [] g.k = "R" -> g.n [] g.k = "B" -> SumDof(g.parts, Len(g.parts))
Dim(g) ==
  CASE g.k = "SO2" -> 2 [] g.k = "SO3" -> 3 [] g.k = "SE2" -> 3 [] g.k = "SE3" -> 4
    [] g.k = "C1" -> 2 [] g.k = "Gal" -> 5 [] g.k = "SEK3" -> 3 + g.n
    [] g.k = "R" -> g.n + 1 [] g.k = "B" -> SumDim(g.parts, Len(g.parts))

RECURSIVE IsCommutative(_)
RECURSIVE AllComm(_, _)
AllComm(ps, k) == IF k = 0 THEN TRUE ELSE IsCommutative(ps[k]) /\ AllComm(ps, k - 1)
IsCommutative(g) ==
  CASE g.k \in {"SO2", "C1", "R"} -> TRUE
    [] g.k = "B" -> AllComm(g.parts, Len(g.parts))
    [] OTHER -> FALSE

\* first index (1-based) of part i in the coefficient / tangent / matrix index ranges
RepOff(g, i) == SumRep(g.parts, i - 1) + 1
DofOff(g, i) == SumDof(g.parts, i - 1) + 1
DimOff(g, i) == SumDim(g.parts, i - 1) + 1
PartCoeffs(g, c, i) == VSeg(c, RepOff(g, i), RepSize(g.parts[i]))
PartTangent(g, a, i) == VSeg(a, DofOff(g, i), Dof(g.parts[i]))

---------------------------------------------------------------------------
\* building blocks
\* rotation matrix of the quaternion <<x, y, z, w>> (polynomial form for unit quaternions)
Rot3(q) ==
  LET x == q[1]  y == q[2]  z == q[3]  w == q[4]
      xx == RMul(x, x)  yy == RMul(y, y)  zz == RMul(z, z)
      xy == RMul(x, y)  xz == RMul(x, z)  yz == RMul(y, z)
      xw == RMul(x, w)  yw == RMul(y, w)  zw == RMul(z, w)
      D(a, b) == RSub(R1, RMul(R2, RAdd(a, b)))
      T(a, b) == RMul(R2, RAdd(a, b))
      U(a, b) == RMul(R2, RSub(a, b))
  IN << <<D(yy, zz), U(xy, zw), T(xz, yw)>>,
        <<T(xy, zw), D(xx, zz), U(yz, xw)>>,
        <<U(xz, yw), T(yz, xw), D(xx, yy)>> >>
Rot2(qz, qw) == << <<qw, RNeg(qz)>>, <<qz, qw>> >>
Hat3(w) == << <<R0, RNeg(w[3]), w[2]>>, <<w[3], R0, RNeg(w[1])>>, <<RNeg(w[2]), w[1], R0>> >>
Hat2(w) == << <<R0, RNeg(w)>>, <<w, R0>> >>

\* [[Rm, cols...], [0, I]] : Rm is d x d, cols a sequence of d-vectors
Affine(Rm, cols) ==
  LET d == Rows(Rm)  m == Len(cols)
  IN RForce([i \in 1..(d + m) |-> [j \in 1..(d + m) |->
        IF i <= d THEN (IF j <= d THEN Rm[i][j] ELSE cols[j - d][i])
        ELSE (IF i = j THEN R1 ELSE R0)]])
\* [[Wm, cols...], [0, 0]]
AffineAlg(Wm, cols) ==
  LET d == Rows(Wm)  m == Len(cols)
  IN RForce([i \in 1..(d + m) |-> [j \in 1..(d + m) |->
        IF i <= d THEN (IF j <= d THEN Wm[i][j] ELSE cols[j - d][i]) ELSE R0]])

---------------------------------------------------------------------------
\* translations: [[I, T], [0, 1]]
TMatrix(n, c) ==
  RForce([i \in 1..(n + 1) |-> [j \in 1..(n + 1) |->
     IF i = j THEN R1 ELSE IF j = n + 1 /\ i <= n THEN c[i] ELSE R0]])
THat(n, a) ==
  RForce([i \in 1..(n + 1) |-> [j \in 1..(n + 1) |-> IF j = n + 1 /\ i <= n THEN a[i] ELSE R0]])

\* documented Lie-group matrix of the stored coefficients c
RECURSIVE GMatrix(_, _)
GMatrix(g, c) ==
  CASE g.k = "SO2" -> Rot2(c[1], c[2])
    [] g.k = "SO3" -> Rot3(c)
    [] g.k = "SE2" -> Affine(Rot2(c[3], c[4]), << <<c[1], c[2]>> >>)
    [] g.k = "SE3" -> Affine(Rot3(VSeg(c, 4, 4)), << VSeg(c, 1, 3) >>)
    [] g.k = "C1" -> << <<c[2], RNeg(c[1])>>, <<c[1], c[2]>> >>
    [] g.k = "Gal" ->
         \* [R v p; 0 1 tau; 0 0 1]
         LET Rm == Rot3(VSeg(c, 8, 4))
         IN RForce([i \in 1..5 |-> [j \in 1..5 |->
               IF i <= 3 THEN (IF j <= 3 THEN Rm[i][j] ELSE IF j = 4 THEN c[i] ELSE c[3 + i])
               ELSE IF i = 4 THEN (IF j = 4 THEN R1 ELSE IF j = 5 THEN c[7] ELSE R0)
               ELSE (IF j = 5 THEN R1 ELSE R0)]])
    [] g.k = "SEK3" ->
         Affine(Rot3(VSeg(c, 3 * g.n + 1, 4)), RForce([p \in 1..g.n |-> VSeg(c, 3 * (p - 1) + 1, 3)]))
    [] g.k = "R" -> TMatrix(g.n, c)
    [] g.k = "B" -> BlockDiag(RForce([i \in 1..Len(g.parts) |-> GMatrix(g.parts[i], PartCoeffs(g, c, i))]))

GMat(g, c) == GMatrix(g, c)

\* documented Lie-algebra matrix of the tangent vector a
RECURSIVE GHat(_, _)
GHat(g, a) ==
  CASE g.k = "SO2" -> Hat2(a[1])
    [] g.k = "SO3" -> Hat3(a)
    [] g.k = "SE2" -> AffineAlg(Hat2(a[3]), << <<a[1], a[2]>> >>)
    [] g.k = "SE3" -> AffineAlg(Hat3(VSeg(a, 4, 3)), << VSeg(a, 1, 3) >>)
    [] g.k = "C1" -> << <<a[1], RNeg(a[2])>>, <<a[2], a[1]>> >>
    [] g.k = "Gal" ->
         \* [W b q; 0 0 s; 0 0 0]  (tangent layout b(3) q(3) s w(3))
         LET W == Hat3(VSeg(a, 8, 3))
         IN RForce([i \in 1..5 |-> [j \in 1..5 |->
               IF i <= 3 THEN (IF j <= 3 THEN W[i][j] ELSE IF j = 4 THEN a[i] ELSE a[3 + i])
               ELSE IF i = 4 /\ j = 5 THEN a[7] ELSE R0]])
    [] g.k = "SEK3" ->
         AffineAlg(Hat3(VSeg(a, 3 * g.n + 1, 3)), RForce([p \in 1..g.n |-> VSeg(a, 3 * (p - 1) + 1, 3)]))
    [] g.k = "R" -> THat(g.n, a)
    [] g.k = "B" -> BlockDiag(RForce([i \in 1..Len(g.parts) |-> GHat(g.parts[i], PartTangent(g, a, i))]))

\* vee: read the tangent coefficients off the documented positions
\* (the rotation generator is read through the antisymmetric part, (A - A^T)/2)
AS(A, i, j) == RMul(RHalf, RSub(A[i][j], A[j][i]))
RECURSIVE GVee(_, _)
RECURSIVE VeeParts(_, _, _)
VeeParts(g, A, i) ==
  IF i > Len(g.parts) THEN <<>>
  ELSE LET d == Dim(g.parts[i])  o == DimOff(g, i)
       IN GVee(g.parts[i], Block(A, o, o, d, d)) \o VeeParts(g, A, i + 1)
RECURSIVE VeeCols(_, _, _)
VeeCols(A, n, p) == IF p > n THEN <<>> ELSE <<A[1][3 + p], A[2][3 + p], A[3][3 + p]>> \o VeeCols(A, n, p + 1)
GVee(g, A) ==
  CASE g.k = "SO2" -> <<AS(A, 2, 1)>>
    [] g.k = "SO3" -> <<AS(A, 3, 2), AS(A, 1, 3), AS(A, 2, 1)>>
    [] g.k = "SE2" -> <<A[1][3], A[2][3], AS(A, 2, 1)>>
    [] g.k = "SE3" -> <<A[1][4], A[2][4], A[3][4], AS(A, 3, 2), AS(A, 1, 3), AS(A, 2, 1)>>
    [] g.k = "C1" -> <<RMul(RHalf, RAdd(A[1][1], A[2][2])), AS(A, 2, 1)>>
    [] g.k = "Gal" -> <<A[1][4], A[2][4], A[3][4], A[1][5], A[2][5], A[3][5], A[4][5],
                        AS(A, 3, 2), AS(A, 1, 3), AS(A, 2, 1)>>
    [] g.k = "SEK3" -> VeeCols(A, g.n, 1) \o <<AS(A, 3, 2), AS(A, 1, 3), AS(A, 2, 1)>>
    [] g.k = "R" -> RForce([i \in 1..g.n |-> A[i][g.n + 1]])
    [] g.k = "B" -> VeeParts(g, A, 1)

\* identity coefficients
RECURSIVE GIdentity(_)
RECURSIVE IdParts(_, _)
IdParts(ps, i) == IF i > Len(ps) THEN <<>> ELSE GIdentity(ps[i]) \o IdParts(ps, i + 1)
GIdentity(g) ==
  CASE g.k = "SO2" -> <<R0, R1>>
    [] g.k = "SO3" -> <<R0, R0, R0, R1>>
    [] g.k = "SE2" -> <<R0, R0, R0, R1>>
    [] g.k = "SE3" -> <<R0, R0, R0, R0, R0, R0, R1>>
    [] g.k = "C1" -> <<R0, R1>>
    [] g.k = "Gal" -> <<R0, R0, R0, R0, R0, R0, R0, R0, R0, R0, R1>>
    [] g.k = "SEK3" -> VZero(3 * g.n) \o <<R0, R0, R0, R1>>
    [] g.k = "R" -> VZero(g.n)
    [] g.k = "B" -> IdParts(g.parts, 1)

\* representation constraint residual: list of | |unit part|^2 - 1 | (empty when unconstrained)
RECURSIVE GUnitResiduals(_, _)
RECURSIVE UnitParts(_, _, _)
UnitParts(g, c, i) ==
  IF i > Len(g.parts) THEN <<>>
  ELSE GUnitResiduals(g.parts[i], PartCoeffs(g, c, i)) \o UnitParts(g, c, i + 1)
UnitRes(v) == RAbs(RSub(VNorm2(v), R1))
GUnitResiduals(g, c) ==
  CASE g.k = "SO2" -> <<UnitRes(c)>>
    [] g.k = "SO3" -> <<UnitRes(c)>>
    [] g.k = "SE2" -> <<UnitRes(VSeg(c, 3, 2))>>
    [] g.k = "SE3" -> <<UnitRes(VSeg(c, 4, 4))>>
    [] g.k = "Gal" -> <<UnitRes(VSeg(c, 8, 4))>>
    [] g.k = "SEK3" -> <<UnitRes(VSeg(c, 3 * g.n + 1, 4))>>
    [] g.k = "B" -> UnitParts(g, c, 1)
    [] OTHER -> <<>>

\* the q_w coefficients of all SO3 (sub-)parts whose canonical sign q_w >= 0 is a class invariant
\* (only SO3 itself canonicalises; SE3/Galilei/SE_K_3 embed an SO3 and inherit it through so3())
RECURSIVE GQw(_, _)
RECURSIVE QwParts(_, _, _)
QwParts(g, c, i) ==
  IF i > Len(g.parts) THEN <<>> ELSE GQw(g.parts[i], PartCoeffs(g, c, i)) \o QwParts(g, c, i + 1)
GQw(g, c) ==
  CASE g.k = "SO3" -> <<c[4]>>
    [] g.k = "SE3" -> <<c[7]>>
    [] g.k = "Gal" -> <<c[11]>>
    [] g.k = "SEK3" -> <<c[3 * g.n + 4]>>
    [] g.k = "B" -> QwParts(g, c, 1)
    [] OTHER -> <<>>

\* squared norm of the rotation part(s) of a tangent vector: list, one per rotating (sub-)part
RECURSIVE GRotNorm2(_, _)
RECURSIVE RotParts(_, _, _)
RotParts(g, a, i) ==
  IF i > Len(g.parts) THEN <<>> ELSE GRotNorm2(g.parts[i], PartTangent(g, a, i)) \o RotParts(g, a, i + 1)
GRotNorm2(g, a) ==
  CASE g.k = "SO2" -> <<RSq(a[1])>>
    [] g.k = "SO3" -> <<VNorm2(a)>>
    [] g.k = "SE2" -> <<RSq(a[3])>>
    [] g.k = "SE3" -> <<VNorm2(VSeg(a, 4, 3))>>
    [] g.k = "C1" -> <<RSq(a[2])>>
    [] g.k = "Gal" -> <<VNorm2(VSeg(a, 8, 3))>>
    [] g.k = "SEK3" -> <<VNorm2(VSeg(a, 3 * g.n + 1, 3))>>
    [] g.k = "B" -> RotParts(g, a, 1)
    [] OTHER -> <<>>

---------------------------------------------------------------------------
\* matrix action on a point.  SO2/SO3/C1: M v.  SE2/SE3/SE_K_3?/R: homogeneous coordinates.
\* Galilei: events (x, t) -> first four rows of M [x; t; 1].
GAct(g, c, v) ==
  LET M == GMat(g, c)
  IN CASE g.k \in {"SO2", "SO3", "C1"} -> MVec(M, v)
       [] g.k \in {"SE2", "SE3"} -> LET r == MVec(M, v \o <<R1>>) IN VSeg(r, 1, Len(v))
       [] g.k = "Gal" -> LET r == MVec(M, v \o <<R1>>) IN VSeg(r, 1, 4)

---------------------------------------------------------------------------
\* derived operations (the oracle)
XCompose(g, c1, c2) == MMul(GMat(g, c1), GMat(g, c2))          \* as a matrix
XInverse(g, c) == MInvD(GMat(g, c))                              \* as a matrix
XExp(g, a) == ExpM(GHat(g, a))                                   \* as a matrix

\* Ad(g): column i = vee(M hat(e_i) M^-1)
XAd(g, c) ==
  LET M == GMat(g, c)  Mi == MInvD(M)  n == Dof(g)
  IN MFromCols(RForce([i \in 1..n |-> GVee(g, MMul(MMul(M, GHat(g, VUnit(n, i))), Mi))]))
\* ad(a): column i = vee(hat(a) hat(e_i) - hat(e_i) hat(a))
XBracketM(g, a, b) == LET A == GHat(g, a)  B == GHat(g, b) IN MSub(MMul(A, B), MMul(B, A))
XBracket(g, a, b) == GVee(g, XBracketM(g, a, b))
Xad(g, a) ==
  LET n == Dof(g) IN MFromCols(RForce([i \in 1..n |-> XBracket(g, a, VUnit(n, i))]))

\* right Jacobian of exp: sum_k (-1)^k ad(a)^k / (k+1)!
XDrExp(g, a) == Phi1M(MNeg(Xad(g, a)))
XDrExpInv(g, a) == MInvD(XDrExp(g, a))
\* Ad from a group matrix directly
XAd_FromMatrix(g, M) ==
  LET Mi == MInvD(M)  n == Dof(g)
  IN MFromCols(RForce([i \in 1..n |-> GVee(g, MMul(MMul(M, GHat(g, VUnit(n, i))), Mi))]))
XDlExp(g, a) == MMul(XAd_FromMatrix(g, XExp(g, a)), XDrExp(g, a))
XDlExpInv(g, a) == MInvD(XDlExp(g, a))

\* Hessians in the documented horizontally stacked layout:
\*   H is Dof x Dof^2; block i (columns (i-1)Dof+1 .. i Dof), entry (j, k) = d J(i, j) / d a_k
\* dJ_k = D Phi1(-ad a)[-ad e_k]
XDrExpDirs(g, a) ==
  LET n == Dof(g)  A == MNeg(Xad(g, a))
  IN RForce([k \in 1..n |-> DPhi1M(A, MNeg(Xad(g, VUnit(n, k))))])
StackHess(n, dJ) ==   \* dJ[k][i][j] = d J(i,j) / d a_k
  RForce([j \in 1..n |-> [col \in 1..(n * n) |->
     LET i == ((col - 1) \div n) + 1  k == ((col - 1) % n) + 1 IN dJ[k][i][j]]])
XD2rExp(g, a) == StackHess(Dof(g), XDrExpDirs(g, a))
\* d(J^-1)_k = - J^-1 dJ_k J^-1
XD2rExpInv(g, a) ==
  LET n == Dof(g)  Ji == XDrExpInv(g, a)  dJ == XDrExpDirs(g, a)
  IN StackHess(n, RForce([k \in 1..n |-> MNeg(MMul(MMul(Ji, dJ[k]), Ji))]))

\* right Jacobian of the action g*v with respect to g: column i = M hat(e_i) [v; 1...]
XDrAction(g, c, v) ==
  LET M == GMat(g, c)  n == Dof(g)
      hv == CASE g.k \in {"SO2", "SO3", "C1"} -> v [] OTHER -> v \o <<R1>>
      rows == CASE g.k = "Gal" -> 4 [] OTHER -> Len(v)
  IN MFromCols(RForce([i \in 1..n |-> VSeg(MVec(MMul(M, GHat(g, VUnit(n, i))), hv), 1, rows)]))
=============================================================================
