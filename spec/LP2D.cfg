SPECIFICATION Spec
CONSTANTS
  CoefMax = 1
  MaxRows = 3
INVARIANTS TypeOK OptimalHasWitness NoBetterNeighbour UnboundedHasRay
PROPERTIES Monotone SlackRowIrrelevant
CHECK_DEADLOCK FALSE
