-------------------------------- MODULE LP2D --------------------------------
(* The two-variable linear program behind smooth's reparameterize_spline     *)
(* (include/smooth/external/lp2d.hpp, `lp2d::solve`):                         *)
(*      min  cx*x + cy*y   s.t.  a_i*x + b_i*y <= c_i                         *)
(* specified over the INTEGERS (points are homogeneous triples <<xn,yn,d>>,   *)
(* d > 0, meaning (xn/d, yn/d)), so TLC decides everything exactly.           *)
(*                                                                           *)
(* Definition used (independent of Megiddo's prune-and-search in the code):  *)
(*  candidates  = pairwise intersections of non-parallel boundary lines,     *)
(*                the foot of the origin on every boundary line, the origin; *)
(*  feasible    <=> some candidate satisfies every row (a non-empty planar   *)
(*                polyhedron without a vertex is a strip / half-plane /      *)
(*                plane and then contains the foot point of a binding row    *)
(*                or the origin);                                            *)
(*  unbounded   <=> feasible and some direction among +-perp(row), +-normal, *)
(*                -objective is a recession direction with c.d < 0 (the      *)
(*                extreme rays of a planar recession cone are of that form); *)
(*  optimum     = min of the objective over the feasible candidates.         *)
(* The design model below explores ALL programs over a small coefficient box *)
(* row by row and checks the order-theoretic laws every LP must satisfy      *)
(* (adding a row never helps); TraceLP2D binds the definition to the code.   *)
EXTENDS Integers, Sequences, FiniteSets

Sgn(x) == IF x > 0 THEN 1 ELSE IF x < 0 THEN -1 ELSE 0
IAbs(x) == IF x < 0 THEN -x ELSE x

Idx(rows) == 1..Len(rows)
Det(r, s) == r[1] * s[2] - s[1] * r[2]
\* intersection of the boundary lines of r and s (Det # 0)
Vtx(r, s) ==
  LET d == Det(r, s)
      xn == r[3] * s[2] - s[3] * r[2]
      yn == r[1] * s[3] - s[1] * r[3]
  IN <<Sgn(d) * xn, Sgn(d) * yn, IAbs(d)>>
\* foot of the origin on the boundary line of r (r[1], r[2] not both 0)
Foot(r) == <<r[3] * r[1], r[3] * r[2], r[1] * r[1] + r[2] * r[2]>>
NonZero(r) == r[1] # 0 \/ r[2] # 0

Candidates(rows) ==
  {Vtx(rows[q[1]], rows[q[2]]) : q \in {q \in Idx(rows) \X Idx(rows) : q[1] < q[2] /\ Det(rows[q[1]], rows[q[2]]) # 0}}
  \cup {Foot(rows[i]) : i \in {i \in Idx(rows) : NonZero(rows[i])}}
  \cup {<<0, 0, 1>>}

Sat(row, p) == row[1] * p[1] + row[2] * p[2] <= row[3] * p[3]
FeasPts(rows) == {p \in Candidates(rows) : \A i \in Idx(rows) : Sat(rows[i], p)}
Feasible(rows) == FeasPts(rows) # {}

Dirs(obj, rows) ==
  UNION {{<<rows[i][2], -rows[i][1]>>, <<-rows[i][2], rows[i][1]>>, <<rows[i][1], rows[i][2]>>, <<-rows[i][1], -rows[i][2]>>} : i \in Idx(rows)}
  \cup {<<-obj[1], -obj[2]>>}
Recession(rows, d) == \A i \in Idx(rows) : rows[i][1] * d[1] + rows[i][2] * d[2] <= 0
Improving(obj, d) == obj[1] * d[1] + obj[2] * d[2] < 0
Unbounded(obj, rows) == \E d \in Dirs(obj, rows) : Recession(rows, d) /\ Improving(obj, d)

Status(obj, rows) ==
  IF ~Feasible(rows) THEN "PrimaryInfeasible"
  ELSE IF Unbounded(obj, rows) THEN "DualInfeasible"
  ELSE "Optimal"

\* objective at a homogeneous point as a fraction <<n, d>>, d > 0; comparison by cross-multiplication
ObjAt(obj, p) == <<obj[1] * p[1] + obj[2] * p[2], p[3]>>
FLeq(f, g) == f[1] * g[2] <= g[1] * f[2]
FEq(f, g) == f[1] * g[2] = g[1] * f[2]
\* optimal value (a fraction) and the set of optimal candidates; only meaningful when Status = "Optimal"
OptPts(obj, rows) == {p \in FeasPts(rows) : \A q \in FeasPts(rows) : FLeq(ObjAt(obj, p), ObjAt(obj, q))}
OptVal(obj, rows) == ObjAt(obj, CHOOSE p \in OptPts(obj, rows) : TRUE)

-----------------------------------------------------------------------------
(* Design model: programs are built row by row.                              *)
CONSTANTS CoefMax, MaxRows
Coef == (0 - CoefMax)..CoefMax
VARIABLES obj, rows
vars == <<obj, rows>>

Init == /\ obj \in {o \in Coef \X Coef : o # <<0, 0>>}
        /\ rows = <<>>
AddRow(r) == /\ Len(rows) < MaxRows
             /\ rows' = Append(rows, r)
             /\ UNCHANGED obj
Next == \E r \in Coef \X Coef \X Coef : AddRow(r)
Spec == Init /\ [][Next]_vars

\* classification is total and the three classes are what they say
TypeOK == Status(obj, rows) \in {"Optimal", "PrimaryInfeasible", "DualInfeasible"}
OptimalHasWitness == Status(obj, rows) = "Optimal" => OptPts(obj, rows) # {}
\* at an optimum no candidate direction is both feasible-preserving and improving (first-order optimality):
\* moving from an optimal candidate along +-perp of any row by any rational step keeps the objective >= optimum
\* whenever the moved point is feasible (checked for the unit step scaled to the common denominator)
NoBetterNeighbour ==
  Status(obj, rows) = "Optimal" =>
    \A p \in OptPts(obj, rows) : \A d \in Dirs(obj, rows) :
      LET q == <<p[1] + d[1] * p[3], p[2] + d[2] * p[3], p[3]>>          \* p + d
          h == <<2 * p[1] + d[1] * p[3], 2 * p[2] + d[2] * p[3], 2 * p[3]>>  \* p + d/2
      IN /\ (\A i \in Idx(rows) : Sat(rows[i], q)) => FLeq(ObjAt(obj, p), ObjAt(obj, q))
         /\ (\A i \in Idx(rows) : Sat(rows[i], h)) => FLeq(ObjAt(obj, p), ObjAt(obj, h))
\* an unbounded program really has a feasible point from which the objective decreases without bound
UnboundedHasRay ==
  Status(obj, rows) = "DualInfeasible" =>
    \E p \in FeasPts(rows) : \E d \in Dirs(obj, rows) :
      /\ Improving(obj, d)
      /\ \A k \in {1, 7, 1000} : \A i \in Idx(rows) : Sat(rows[i], <<p[1] + k * d[1] * p[3], p[2] + k * d[2] * p[3], p[3]>>)

\* adding a row never helps
Monotone ==
  [][/\ (Status(obj, rows) = "PrimaryInfeasible" => Status(obj, rows') = "PrimaryInfeasible")
     /\ (Status(obj, rows) = "Optimal" => Status(obj, rows') \in {"Optimal", "PrimaryInfeasible"})
     /\ (Status(obj, rows) = "Optimal" /\ Status(obj, rows') = "Optimal" => FLeq(OptVal(obj, rows), OptVal(obj, rows')))
     /\ (FeasPts(rows') # {} => FeasPts(rows) # {})]_vars
\* a row that the old optimum satisfies leaves the optimal value unchanged
SlackRowIrrelevant ==
  [][(Status(obj, rows) = "Optimal" /\ Len(rows') = Len(rows) + 1
        /\ \E p \in OptPts(obj, rows) : Sat(rows'[Len(rows')], p))
      => (Status(obj, rows') = "Optimal" /\ FEq(OptVal(obj, rows), OptVal(obj, rows')))]_vars
=============================================================================
