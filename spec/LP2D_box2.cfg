SPECIFICATION Spec
CONSTANTS
  CoefMax = 2
  MaxRows = 2
INVARIANTS TypeOK OptimalHasWitness NoBetterNeighbour UnboundedHasRay
PROPERTIES Monotone SlackRowIrrelevant
CHECK_DEADLOCK FALSE
