---------------------------- MODULE LatticeGroups ----------------------------
(* The finite subgroups whose coefficients and products are EXACTLY             *)
(* representable in binary floating point, in plain TLC integers:               *)
(*   SO2: the 4 quarter turns           (q_z, q_w) in {(0,1),(1,0),(0,-1),(-1,0)}*)
(*   SO3: the 24 Hurwitz unit quaternions +-1, +-i, +-j, +-k, (+-1+-i+-j+-k)/2   *)
(*        (coefficients scaled by 2), i.e. the 12 rotations of the tetrahedral   *)
(*        group incl. identity, half turns and 120 degree turns                  *)
(*   translations in {-1,0,1}^n (their products stay integers)                   *)
(* TLC checks exhaustively, in integer arithmetic, that these sets are closed    *)
(* and satisfy the group axioms, that the documented rotation matrix of a        *)
(* Hurwitz quaternion is an integer matrix and q |-> Rot(q) is a homomorphism    *)
(* (so Ad of SO3 / the rotation blocks of SE3, Galilei are exact too), and that  *)
(* the canonical-sign rule q_w >= 0 selects one representative except on the     *)
(* half turns (q_w = 0), where either sign is a valid stored element.            *)
(* The element lists printed by `Emit` are the finite universe that the          *)
(* conformance harness replays bit-exactly on the real library (all pairs).      *)
EXTENDS Integers, Sequences, FiniteSets, TLC

\* quaternion <<x, y, z, w>> scaled by 2
SumSq(q) == q[1] * q[1] + q[2] * q[2] + q[3] * q[3] + q[4] * q[4]
Hurwitz == {q \in [1..4 -> -2..2] : SumSq(q) = 4}
QId == <<0, 0, 0, 2>>
\* Hamilton product of p/2 and q/2, scaled by 2 (Eigen convention: coefficients x y z w)
QMulRaw(p, q) ==
  <<p[4] * q[1] + p[1] * q[4] + p[2] * q[3] - p[3] * q[2],
    p[4] * q[2] - p[1] * q[3] + p[2] * q[4] + p[3] * q[1],
    p[4] * q[3] + p[1] * q[2] - p[2] * q[1] + p[3] * q[4],
    p[4] * q[4] - p[1] * q[1] - p[2] * q[2] - p[3] * q[3]>>
Even4(r) == \A i \in 1..4 : r[i] % 2 = 0
QMul(p, q) == LET r == QMulRaw(p, q) IN [i \in 1..4 |-> r[i] \div 2]
QConj(q) == <<-q[1], -q[2], -q[3], q[4]>>
QNeg(q) == [i \in 1..4 |-> -q[i]]
Canon(q) == IF q[4] < 0 THEN QNeg(q) ELSE q
\* rotation matrix of the unit quaternion q/2 (documented polynomial form), integer entries
Rot(q) ==
  LET x == q[1]  y == q[2]  z == q[3]  w == q[4]
      H(a) == a \div 2      \* a is always even below
  IN << <<1 - H(y * y + z * z), H(x * y - z * w), H(x * z + y * w)>>,
        <<H(x * y + z * w), 1 - H(x * x + z * z), H(y * z - x * w)>>,
        <<H(x * z - y * w), H(y * z + x * w), 1 - H(x * x + y * y)>> >>
RotEven(q) ==
  LET x == q[1]  y == q[2]  z == q[3]  w == q[4]
  IN /\ (y * y + z * z) % 2 = 0 /\ (x * x + z * z) % 2 = 0 /\ (x * x + y * y) % 2 = 0
     /\ (x * y - z * w) % 2 = 0 /\ (x * y + z * w) % 2 = 0 /\ (x * z + y * w) % 2 = 0
     /\ (x * z - y * w) % 2 = 0 /\ (y * z - x * w) % 2 = 0 /\ (y * z + x * w) % 2 = 0
MatMul3(A, B) == [i \in 1..3 |-> [j \in 1..3 |-> A[i][1] * B[1][j] + A[i][2] * B[2][j] + A[i][3] * B[3][j]]]
MatVec3(A, v) == [i \in 1..3 |-> A[i][1] * v[1] + A[i][2] * v[2] + A[i][3] * v[3]]
Id3 == << <<1, 0, 0>>, <<0, 1, 0>>, <<0, 0, 1>> >>
Transpose3(A) == [i \in 1..3 |-> [j \in 1..3 |-> A[j][i]]]

\* SO2 quarter turns <<q_z, q_w>>
Quarter == {<<0, 1>>, <<1, 0>>, <<0, -1>>, <<-1, 0>>}
CMul(a, b) == <<a[1] * b[2] + a[2] * b[1], a[2] * b[2] - a[1] * b[1]>>
CConj(a) == <<-a[1], a[2]>>

\* SE3 lattice: <<q, t>> with integer translation
Tr3 == [1..3 -> -1..1]
SE3Mul(g, h) == <<QMul(g[1], h[1]), [i \in 1..3 |-> MatVec3(Rot(g[1]), h[2])[i] + g[2][i]]>>
SE3Inv(g) == <<QConj(g[1]), [i \in 1..3 |-> -MatVec3(Rot(QConj(g[1])), g[2])[i]]>>

---------------------------------------------------------------------------
\* exhaustive checks (evaluated once by TLC when the module is loaded)
ASSUME Cardinality(Hurwitz) = 24
ASSUME \A p, q \in Hurwitz : Even4(QMulRaw(p, q)) /\ QMul(p, q) \in Hurwitz                     \* closure
ASSUME \A p \in Hurwitz : QMul(p, QId) = p /\ QMul(QId, p) = p                                   \* identity
ASSUME \A p \in Hurwitz : QMul(p, QConj(p)) = QId /\ QMul(QConj(p), p) = QId                     \* inverse
ASSUME \A p, q, r \in Hurwitz : QMul(QMul(p, q), r) = QMul(p, QMul(q, r))                        \* associativity
ASSUME \A p \in Hurwitz : RotEven(p)                                                             \* integer matrices
ASSUME \A p, q \in Hurwitz : Rot(QMul(p, q)) = MatMul3(Rot(p), Rot(q))                           \* homomorphism
ASSUME \A p \in Hurwitz : Rot(QNeg(p)) = Rot(p) /\ MatMul3(Rot(p), Transpose3(Rot(p))) = Id3     \* double cover, orthogonal
ASSUME Cardinality({Rot(p) : p \in Hurwitz}) = 12                                                \* tetrahedral rotations
ASSUME \A p \in Hurwitz : Canon(p)[4] >= 0 /\ (p[4] # 0 => Canon(p) = Canon(QNeg(p)))            \* canonical sign
ASSUME \A a, b \in Quarter : CMul(a, b) \in Quarter /\ CMul(a, CConj(a)) = <<0, 1>>
ASSUME \A a, b, c \in Quarter : CMul(CMul(a, b), c) = CMul(a, CMul(b, c))
\* SE3 lattice: associativity and inverse on all rotations x a sample of translations
SampleT == {<<0, 0, 0>>, <<1, 0, -1>>, <<-1, 1, 1>>}
ASSUME \A p, q, r \in {Canon(h) : h \in Hurwitz} : \A s, t, u \in SampleT :
          SE3Mul(SE3Mul(<<p, s>>, <<q, t>>), <<r, u>>) = SE3Mul(<<p, s>>, SE3Mul(<<q, t>>, <<r, u>>))
ASSUME \A p \in Hurwitz : \A s \in Tr3 : SE3Mul(<<p, s>>, SE3Inv(<<p, s>>)) = <<QId, <<0, 0, 0>>>>

\* the finite universe for the bit-exact replay: stored representatives (q_w >= 0; both signs for half turns)
Stored == {Canon(h) : h \in Hurwitz} \cup {h \in Hurwitz : h[4] = 0}
VARIABLE done
Init == done = FALSE
Next == ~done /\ done' = TRUE /\ PrintT(<<"LATTICE", Stored, Quarter>>)
=============================================================================
