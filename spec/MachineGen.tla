----------------------------- MODULE MachineGen -----------------------------
(* Generator of operation programs for the abstract machine of property C15    *)
(* (see TraceMachine.tla): TLC -simulate enumerates random histories over the   *)
(* register file; every finished history is printed and replayed by the harness *)
(* on the real library.  Registers: elements e0..e3, tangents t0..t3.           *)
EXTENDS Naturals, Sequences, TLC
CONSTANT MaxLen
VARIABLE prog
Ops == {"compose", "inverse", "exp", "rplus", "muleq", "pluseq", "cast", "copy"}
R == 0..3
Init == prog = <<>>
Next == /\ Len(prog) < MaxLen
        /\ \E op \in Ops, a \in R, b \in R, c \in R : prog' = Append(prog, <<op, a, b, c>>)
Emit == Len(prog) = MaxLen => PrintT(<<"PROG", prog>>)
=============================================================================
