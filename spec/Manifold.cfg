CONSTANTS
  MaxDepth = 4
  Kinds = {"L", "V", "W", "S", "A"}
  Bug = "none"
  Emit = FALSE
INIT Init
NEXT Next
VIEW View
INVARIANTS TypeOk Refine QueryOk AxDof AxZero AxRt1 AxRt2 AxStruct
CHECK_DEADLOCK FALSE
