------------------------------ MODULE Manifold ------------------------------
(* Design-level model for property C07 (manifold axioms for every Manifold    *)
(* model of pettni/smooth).                                                   *)
(*                                                                            *)
(* An object heap (ids -> values) on which the histories                      *)
(*   construct, copy, assign, cast-to-the-same-scalar, rplus, rminus,         *)
(*   mutate-in-place, dof  (+ the composite queries rt1, rt2, rt2t, twin)     *)
(* run.  Two descriptions of every operation live side by side:               *)
(*                                                                            *)
(*  * IMPLEMENTATION side, structured like the code: the running dof counter  *)
(*    of std::vector<M> (manifolds/vector.hpp), the visitor of std::variant,  *)
(*    the (i, j, k) scatter / gather loops and the (m0, m, fixed) constructor *)
(*    call of SubManifold (manifolds/submanifold.hpp), the pointer + clone()  *)
(*    of AnyManifold (manifolds/any.hpp: objects hold an ADDRESS into a cell  *)
(*    store, get<M>() hands out the cell).                                    *)
(*  * SPECIFICATION side, denotational: prefix sums and sets of free indices  *)
(*    (module ManifoldIdx), values instead of pointers.                       *)
(*                                                                            *)
(* The leaf manifold is abstracted to the lattice Z^n in a chart (rplus = +,  *)
(* rminus = -): what is decided here is the adaptor logic and the ownership   *)
(* structure, for ALL histories up to MaxDepth and all shapes in scope; the   *)
(* leaf numerics are decided on the real values by TraceManifold.tla.         *)
(*                                                                            *)
(* TLC checks: Refine (every live object projects to its specified value -    *)
(* this is where a copy that shares state, or a cast that swaps origin and    *)
(* value, shows up after a later mutation / observation), QueryOk (every      *)
(* query's implementation result = specification result), and the manifold    *)
(* axioms over the whole heap (AxRt1, AxRt2, AxZero, AxDof).                  *)
(*                                                                            *)
(* Bug # "none" switches ONE implementation-side operator to a seeded defect  *)
(* (spec mutants: TLC must reject each of them; "cast_swap" is the upstream   *)
(* code of traits::man<SubManifold>::cast).                                   *)
(* Emit = TRUE turns the module into the generator of the harness programs:   *)
(* every history of length MaxDepth is printed.                               *)
EXTENDS Integers, Sequences, FiniteSets, TLC, ManifoldIdx

CONSTANTS MaxDepth, Kinds, Bug, Emit

VARIABLES kind,     \* "L" Lie group | "V" std::vector | "W" std::variant | "S" SubManifold | "A" AnyManifold
          shape,    \* V: dofs of the elements; W: alternative; S: set of fixed dimensions; L, A: 0
          obj,      \* implementation: id -> value        (kind A: id -> ADDRESS of the wrapper cell)
          store,    \* implementation, kind A only: address -> value held by the wrapper
          nalloc,   \* number of cells allocated so far
          abs,      \* specification: id -> value
          hist,     \* the history (for the generator; not part of the VIEW)
          qok       \* the last query's implementation result equalled the specified one
vars == <<kind, shape, obj, store, nalloc, abs, hist, qok>>
View == <<kind, shape, obj, store, nalloc, abs, Len(hist), qok>>

MaxObj == MaxDepth
Ids == 1..MaxObj
\* obj, abs: functions on the set of live ids (1..k); store: function on the allocated addresses 1..nalloc
PutAt(f, k, v) == [x \in (DOMAIN f) \cup {k} |-> IF x = k THEN v ELSE f[x]]

---------------------------------------------------------------------------
\* the lattice leaf
PPlus(p, a) == [i \in 1..Len(p) |-> p[i] + a[i]]
PMinus(p, q) == [i \in 1..Len(p) |-> p[i] - q[i]]
Pt(n, c) == [i \in 1..n |-> 10 * c + i]
Zeros(n) == [i \in 1..n |-> 0]

AltDims == <<2, 1, 3>>           \* dofs of the three alternatives of the modelled variant
SubN == 3                        \* dofs of the base manifold of the modelled SubManifold
VecShapes == {<<>>, <<2>>, <<1, 2>>, <<2, 1, 2>>, <<1, 1, 2, 1>>}    \* sizes 0..4, elements of different dof
Shapes(k) ==
  CASE k = "V" -> VecShapes [] k = "W" -> 1..3 [] k = "S" -> SUBSET (0..(SubN - 1)) [] OTHER -> {0}
GenShape(k) == CASE k = "V" -> <<1, 2>> [] k = "W" -> 1 [] k = "S" -> {1} [] OTHER -> 0

SymCode(sym) == CASE sym = "A" -> 0 [] sym = "B" -> 1 [] sym = "C" -> 2
\* the value a constructor symbol denotes (same on both sides: construction is an input)
Val(sym) ==
  LET c == SymCode(sym)
  IN CASE kind = "L" -> Pt(2, c)
       [] kind = "V" -> [i \in 1..Len(shape) |-> Pt(shape[i], c + 3 * i)]
       [] kind = "W" -> [alt |-> shape, v |-> Pt(AltDims[shape], c)]
       [] kind = "S" -> [m0 |-> Pt(SubN, 7), m |-> Pt(SubN, c), fixed |-> shape]
       [] kind = "A" -> Pt(2, c)
\* tangent symbols: distinct entries so that a misplaced segment / scatter is visible
TanOf(sym, n) ==
  CASE sym = "T" -> [i \in 1..n |-> i] [] sym = "U" -> [i \in 1..n |-> -2 * i]
    [] sym = "W" -> [i \in 1..n |-> 3 * i + 1] [] sym = "Z" -> Zeros(n)

---------------------------------------------------------------------------
\* SPECIFICATION side (denotational, values only)
SDof(v) ==
  CASE kind \in {"L", "A"} -> Len(v)
    [] kind = "V" -> SumAll([i \in 1..Len(v) |-> Len(v[i])])
    [] kind = "W" -> Len(v.v)
    [] kind = "S" -> SubDof(Len(v.m0), v.fixed)
SRplus(v, a) ==
  CASE kind \in {"L", "A"} -> PPlus(v, a)
    [] kind = "V" -> LET ds == [i \in 1..Len(v) |-> Len(v[i])]
                     IN [i \in 1..Len(v) |-> PPlus(v[i], SubSeq(a, SegOff(ds, i) + 1, SegOff(ds, i) + ds[i]))]
    [] kind = "W" -> [alt |-> v.alt, v |-> PPlus(v.v, a)]
    [] kind = "S" -> [m0 |-> v.m0, fixed |-> v.fixed, m |-> PPlus(v.m, Lift(a, v.fixed, Len(v.m0), 0))]
SRminus(x, y) ==
  CASE kind \in {"L", "A"} -> PMinus(x, y)
    [] kind = "V" -> LET ds == [i \in 1..Len(x) |-> Len(x[i])]
                     IN [p \in 1..SumAll(ds) |->
                           LET i == CHOOSE i \in 1..Len(x) : SegOff(ds, i) < p /\ p <= SegOff(ds, i) + ds[i]
                           IN x[i][p - SegOff(ds, i)] - y[i][p - SegOff(ds, i)]]
    [] kind = "W" -> PMinus(x.v, y.v)
    [] kind = "S" -> Gather(PMinus(x.m, y.m), x.fixed, Len(x.m0))
\* m2 on the slice through m (always, except SubManifold: no difference in a fixed direction)
SOnSlice(m2, m) == kind = "S" => \A i \in m.fixed : m2.m[i + 1] = m.m[i + 1]

---------------------------------------------------------------------------
\* IMPLEMENTATION side (structured like the code)

\* --- std::vector<M>  (manifolds/vector.hpp)
RECURSIVE VecDofLoop(_, _, _)
VecDofLoop(m, i, s) == IF i > Len(m) THEN s ELSE VecDofLoop(m, i + 1, s + Len(m[i]))       \* std::accumulate
RECURSIVE VecRplusLoop(_, _, _, _)
VecRplusLoop(m, a, i, cntr) ==      \* for (dof_cntr = 0; mi : m) { push_back(rplus(mi, a.segment(dof_cntr, dof_i))); dof_cntr += dof_i; }
  IF i > Len(m) THEN <<>>
  ELSE LET dofi == Len(m[i])
       IN <<PPlus(m[i], SubSeq(a, cntr + 1, cntr + dofi))>>
          \o VecRplusLoop(m, a, i + 1, cntr + (IF Bug = "vec_cntr" THEN 1 ELSE dofi))
RECURSIVE VecRminusLoop(_, _, _, _, _)
VecRminusLoop(m1, m2, i, idx, ret) ==   \* ret.segment(idx, size_i) = rminus(m1i, m2i); idx += size_i;
  IF i > Len(m1) THEN ret
  ELSE LET sz == Len(m1[i])  di == PMinus(m1[i], m2[i])
       IN VecRminusLoop(m1, m2, i + 1,
                        idx + (IF Bug = "vec_idx_static" THEN Len(m1[1]) ELSE sz),
                        [p \in 1..Len(ret) |-> IF p > idx /\ p <= idx + sz THEN di[p - idx] ELSE ret[p]])

\* --- SubManifold<M>  (manifolds/submanifold.hpp)
RECURSIVE SortedSeq(_)
SortedSeq(F) == IF F = {} THEN <<>> ELSE LET mn == CHOOSE x \in F : \A y \in F : x <= y IN <<mn>> \o SortedSeq(F \ {mn})
\* for (i = 0, j = 0, k = 0; i < m_calc.size(); ++i) if (k >= fixed.size() || i != fixed(k)) m_calc(i) = a(j++); else ++k;
RECURSIVE ScatterLoop(_, _, _, _, _, _, _)
ScatterLoop(fd, a, n, i, j, k, calc) ==
  IF i >= (IF Bug = "sub_skip_last" THEN n - 1 ELSE n) THEN calc
  ELSE IF k >= Len(fd) \/ i # fd[k + 1]
       THEN ScatterLoop(fd, a, n, i + 1, j + 1, k, [calc EXCEPT ![i + 1] = a[j + 1]])
       ELSE ScatterLoop(fd, a, n, i + 1, j, k + 1, calc)
RECURSIVE GatherLoop(_, _, _, _, _, _, _)
GatherLoop(fd, calc, n, i, j, k, ret) ==
  IF i >= n THEN ret
  ELSE IF k >= Len(fd) \/ i # fd[k + 1]
       THEN GatherLoop(fd, calc, n, i + 1, j + 1, k, [ret EXCEPT ![j + 1] = calc[i + 1]])
       ELSE GatherLoop(fd, calc, n, i + 1, j, k + 1, ret)
SubCtor(m0, m, fixed) == [m0 |-> m0, m |-> m, fixed |-> fixed]          \* SubManifold(m0, m, fixed_dims)

\* operations on VALUES (what a wrapper cell / a value-semantic object holds)
IDof(v) ==
  CASE kind \in {"L", "A"} -> Len(v)
    [] kind = "V" -> VecDofLoop(v, 1, 0)
    [] kind = "W" -> Len(v.v)                                    \* std::visit
    [] kind = "S" -> Len(v.m0) - Cardinality(v.fixed)            \* dof(m_m0) - m_fixed_dims.size()
IRplus(v, a) ==
  CASE kind \in {"L", "A"} -> PPlus(v, a)
    [] kind = "V" -> VecRplusLoop(v, a, 1, 0)
    [] kind = "W" -> [alt |-> v.alt, v |-> PPlus(v.v, a)]
    [] kind = "S" -> LET n == Len(v.m0)
                     IN SubCtor(v.m0, PPlus(v.m, ScatterLoop(SortedSeq(v.fixed), a, n, 0, 0, 0, Zeros(n))), v.fixed)
IRminus(x, y) ==
  CASE kind \in {"L", "A"} -> PMinus(x, y)
    [] kind = "V" -> VecRminusLoop(x, y, 1, 0, Zeros(VecDofLoop(x, 1, 0)))
    [] kind = "W" -> IF Bug = "variant_swap" THEN PMinus(y.v, x.v) ELSE PMinus(x.v, y.v)
    [] kind = "S" -> LET n == Len(x.m0)
                     IN GatherLoop(SortedSeq(x.fixed), PMinus(x.m, y.m), n, 0, 0, 0, Zeros(IDof(x)))
\* cast<Scalar>(m): SubManifold's trait calls the (m0, m, fixed) constructor
ICast(v) ==
  IF kind = "S" THEN (IF Bug = "cast_swap" THEN SubCtor(v.m, v.m0, v.fixed) ELSE SubCtor(v.m0, v.m, v.fixed))
  ELSE v

\* the value an object currently denotes (kind A: through its pointer)
P(id) == IF kind = "A" THEN store[obj[id]] ELSE obj[id]
LiveIds == DOMAIN obj
NextId == Cardinality(LiveIds) + 1

---------------------------------------------------------------------------
Init ==
  /\ kind \in Kinds
  /\ shape \in (IF Emit THEN {GenShape(kind)} ELSE Shapes(kind))
  /\ obj = <<>> /\ abs = <<>>
  /\ store = <<>> /\ nalloc = 0
  /\ hist = <<>> /\ qok = TRUE

Room == Len(hist) < MaxDepth
Log(step) == hist' = Append(hist, step)

\* make object dst hold value v (a NEW wrapper cell for AnyManifold)
NewObj(dst, v) ==
  IF kind = "A"
  THEN /\ nalloc' = nalloc + 1
       /\ store' = PutAt(store, nalloc + 1, v)
       /\ obj' = PutAt(obj, dst, nalloc + 1)
  ELSE /\ obj' = PutAt(obj, dst, v) /\ UNCHANGED <<store, nalloc>>

Construct(sym) ==
  /\ Room /\ NextId \in Ids
  /\ (Emit /\ hist = <<>>) => sym = "A"
  /\ NewObj(NextId, Val(sym))
  /\ abs' = PutAt(abs, NextId, Val(sym))
  /\ Log(<<"construct", NextId, 0, sym>>) /\ UNCHANGED <<kind, shape, qok>>

\* copy construction: value types copy the value; AnyManifold(const AnyManifold & m) : m_val(m.m_val->clone())
Copy(src) ==
  /\ Room /\ NextId \in Ids /\ src \in LiveIds
  /\ IF kind = "A" /\ Bug = "any_share"
     THEN obj' = PutAt(obj, NextId, obj[src]) /\ UNCHANGED <<store, nalloc>>
     ELSE NewObj(NextId, P(src))
  /\ abs' = PutAt(abs, NextId, abs[src])
  /\ Log(<<"copy", NextId, src, "">>) /\ UNCHANGED <<kind, shape, qok>>

\* copy assignment to a live object: m_val = m.m_val->clone()
Assign(dst, src) ==
  /\ Room /\ src \in LiveIds /\ dst \in LiveIds /\ dst # src
  /\ IF kind = "A" /\ Bug = "any_share_assign"
     THEN obj' = [obj EXCEPT ![dst] = obj[src]] /\ UNCHANGED <<store, nalloc>>
     ELSE NewObj(dst, P(src))
  /\ abs' = [abs EXCEPT ![dst] = abs[src]]
  /\ Log(<<"assign", dst, src, "">>) /\ UNCHANGED <<kind, shape, qok>>

\* cast to the same scalar type (AnyManifold does not support casting)
Cast(src) ==
  /\ Room /\ NextId \in Ids /\ src \in LiveIds /\ kind # "A"
  /\ NewObj(NextId, ICast(P(src)))
  /\ abs' = PutAt(abs, NextId, abs[src])
  /\ Log(<<"cast", NextId, src, "">>) /\ UNCHANGED <<kind, shape, qok>>

Rplus(src, sym) ==
  /\ Room /\ NextId \in Ids /\ src \in LiveIds
  /\ NewObj(NextId, IRplus(P(src), TanOf(sym, IDof(P(src)))))
  /\ abs' = PutAt(abs, NextId, SRplus(abs[src], TanOf(sym, SDof(abs[src]))))
  /\ Log(<<"rplus", NextId, src, sym>>) /\ UNCHANGED <<kind, shape, qok>>

\* in-place mutation of a live object; AnyManifold: through the reference handed out by get<M>()
Mutate(id, sym) ==
  /\ Room /\ id \in LiveIds
  /\ IF kind = "A" THEN store' = [store EXCEPT ![obj[id]] = Val(sym)] /\ UNCHANGED <<obj, nalloc>>
                   ELSE obj' = [obj EXCEPT ![id] = Val(sym)] /\ UNCHANGED <<store, nalloc>>
  /\ abs' = [abs EXCEPT ![id] = Val(sym)]
  /\ Log(<<"mutate", id, 0, sym>>) /\ UNCHANGED <<kind, shape, qok>>

\* queries: the heap does not change; the implementation's answer must be the specified one
Query(step, ok) ==
  /\ Room /\ qok' = ok /\ Log(step) /\ UNCHANGED <<kind, shape, obj, store, nalloc, abs>>
QRminus(x, y) == x \in LiveIds /\ y \in LiveIds
                 /\ Query(<<"rminus", x, y, "">>, IRminus(P(x), P(y)) = SRminus(abs[x], abs[y]))
QDof(x) == x \in LiveIds /\ Query(<<"dof", x, 0, "">>, IDof(P(x)) = SDof(abs[x]))
QRt1(x, sym) == x \in LiveIds
                /\ LET a == TanOf(sym, SDof(abs[x]))
                   IN Query(<<"rt1", x, 0, sym>>, IRminus(IRplus(P(x), a), P(x)) = a)
QRt2(x, y) == x \in LiveIds /\ y \in LiveIds /\ x # y
              /\ Query(<<"rt2", x, y, "">>, SOnSlice(abs[y], abs[x]) => IRplus(P(x), IRminus(P(y), P(x))) = abs[y])
QRt2t(x, sym) == x \in LiveIds
                 /\ LET m2 == IRplus(P(x), TanOf(sym, SDof(abs[x])))
                    IN Query(<<"rt2t", x, 0, sym>>, IRplus(P(x), IRminus(m2, P(x))) = m2)
\* two objects the specification says are equal must answer alike
QTwin(x, y, sym) == x \in LiveIds /\ y \in LiveIds /\ x < y /\ abs[x] = abs[y]
                    /\ LET a == TanOf(sym, SDof(abs[x]))
                       IN Query(<<"twin", x, y, sym>>, IRplus(P(x), a) = IRplus(P(y), a) /\ IDof(P(x)) = IDof(P(y)))

Next ==
  \/ \E sym \in {"A", "B"} : Construct(sym)
  \/ \E s \in Ids : Copy(s) \/ Cast(s) \/ QDof(s) \/ Mutate(s, "C")
                    \/ QRt1(s, "T") \/ QRt2t(s, "U")
                    \/ \E sym \in {"T", "W"} : Rplus(s, sym)
  \/ \E x, y \in Ids : Assign(x, y) \/ QRminus(x, y) \/ QRt2(x, y) \/ QTwin(x, y, "T")

Spec == Init /\ [][Next]_vars

---------------------------------------------------------------------------
\* invariants
TypeOk == /\ DOMAIN obj = DOMAIN abs /\ DOMAIN obj \subseteq Ids
          /\ DOMAIN store = 1..nalloc
          /\ kind = "A" => \A i \in LiveIds : obj[i] \in 1..nalloc
\* every live object denotes exactly its specified value
\*   - a copy that shares its cell with the source breaks this when the source is mutated
\*   - a cast that swaps origin and value breaks it at once
Refine == \A i \in LiveIds : P(i) = abs[i]
QueryOk == qok
TanSyms == {"T", "U", "W", "Z"}
AxDof == \A i \in LiveIds : /\ IDof(P(i)) = SDof(abs[i])
                            /\ Len(IRminus(P(i), P(i))) = IDof(P(i))
AxZero == \A i \in LiveIds : IRminus(P(i), P(i)) = Zeros(IDof(P(i)))
AxRt1 == \A i \in LiveIds : \A sym \in TanSyms :
           LET a == TanOf(sym, SDof(abs[i])) IN IRminus(IRplus(P(i), a), P(i)) = a
AxRt2 == \A i, j \in LiveIds : SOnSlice(abs[j], abs[i]) => IRplus(P(i), IRminus(P(j), P(i))) = P(j)
\* containers act element-wise on consecutive segments; SubManifold keeps its origin, moves only in free directions
AxStruct == \A i \in LiveIds : \A sym \in TanSyms :
              LET a == TanOf(sym, SDof(abs[i])) IN IRplus(P(i), a) = SRplus(abs[i], a)

\* generator: print every complete history
RECURSIVE StepsStr(_, _)
StepsStr(h, k) ==
  IF k > Len(h) THEN ""
  ELSE h[k][1] \o " " \o ToString(h[k][2]) \o " " \o ToString(h[k][3]) \o " " \o h[k][4] \o ";" \o StepsStr(h, k + 1)
EmitInv == (Emit /\ Len(hist) = MaxDepth) => PrintT("H|" \o kind \o "|" \o StepsStr(hist, 1))
=============================================================================
