CONSTANTS
  MaxDepth = 4
  Kinds = {"L", "V", "W", "S", "A"}
  Bug = "none"
  Emit = TRUE
INIT Init
NEXT Next
INVARIANTS EmitInv
CHECK_DEADLOCK FALSE
