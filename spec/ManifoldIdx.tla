---------------------------- MODULE ManifoldIdx ----------------------------
(* Index bookkeeping of the Manifold adaptors, written as SETS and prefix    *)
(* sums (the denotational side).  Shared by the design model Manifold.tla    *)
(* (where the implementation side is written as the loops of the code) and   *)
(* by the trace specification TraceManifold.tla (where it is applied to the  *)
(* exact values recorded from the real library).                             *)
EXTENDS Integers, Sequences, FiniteSets

\* ---- containers: element i owns the tangent segment [SegOff+1 .. SegOff+dofs[i]]
RECURSIVE SumTo(_, _)
SumTo(dofs, k) == IF k = 0 THEN 0 ELSE SumTo(dofs, k - 1) + dofs[k]
SegOff(dofs, i) == SumTo(dofs, i - 1)
SumAll(dofs) == SumTo(dofs, Len(dofs))

\* ---- SubManifold over a base manifold with n degrees of freedom; F = set of fixed dimensions (0-based)
FreeSet(n, F) == (0..(n - 1)) \ F
\* number of free dimensions below i  (= position of free dimension i in the reduced tangent, 0-based)
RankFree(n, F, i) == Cardinality({k \in FreeSet(n, F) : k < i})
\* the j-th (1-based) free dimension in increasing order
NthFree(n, F, j) == CHOOSE i \in FreeSet(n, F) : RankFree(n, F, i) = j - 1
SubDof(n, F) == n - Cardinality(F \cap (0..(n - 1)))

\* reduced tangent -> full tangent (zero in the fixed dimensions)
Lift(a, F, n, zero) == [i \in 1..n |-> IF (i - 1) \in F THEN zero ELSE a[RankFree(n, F, i - 1) + 1]]
\* full tangent -> reduced tangent (fixed dimensions dropped)
Gather(full, F, n) == [j \in 1..SubDof(n, F) |-> full[NthFree(n, F, j) + 1]]

SeqToSet(s) == {s[i] : i \in 1..Len(s)}
=============================================================================
