---- MODULE Manifold_TTrace_1791061915 ----
EXTENDS Sequences, TLCExt, Manifold, Toolbox, Naturals, TLC

_expression ==
    LET Manifold_TEExpression == INSTANCE Manifold_TEExpression
    IN Manifold_TEExpression!expression
----

_trace ==
    LET Manifold_TETrace == INSTANCE Manifold_TETrace
    IN Manifold_TETrace!trace
----

_inv ==
    ~(
        TLCGet("level") = Len(_TETrace)
        /\
        hist = (<<<<"construct", 1, 0, "A">>, <<"cast", 2, 1, "">>>>)
        /\
        abs = (<<[m0 |-> <<71, 72, 73>>, m |-> <<1, 2, 3>>, fixed |-> {}], [m0 |-> <<71, 72, 73>>, m |-> <<1, 2, 3>>, fixed |-> {}]>>)
        /\
        shape = ({})
        /\
        kind = ("S")
        /\
        obj = (<<[m0 |-> <<71, 72, 73>>, m |-> <<1, 2, 3>>, fixed |-> {}], [m0 |-> <<1, 2, 3>>, m |-> <<71, 72, 73>>, fixed |-> {}]>>)
        /\
        nalloc = (0)
        /\
        store = (<<>>)
        /\
        qok = (TRUE)
    )
----

_init ==
    /\ store = _TETrace[1].store
    /\ kind = _TETrace[1].kind
    /\ hist = _TETrace[1].hist
    /\ shape = _TETrace[1].shape
    /\ abs = _TETrace[1].abs
    /\ obj = _TETrace[1].obj
    /\ qok = _TETrace[1].qok
    /\ nalloc = _TETrace[1].nalloc
----

_next ==
    /\ \E i,j \in DOMAIN _TETrace:
        /\ \/ /\ j = i + 1
              /\ i = TLCGet("level")
        /\ store  = _TETrace[i].store
        /\ store' = _TETrace[j].store
        /\ kind  = _TETrace[i].kind
        /\ kind' = _TETrace[j].kind
        /\ hist  = _TETrace[i].hist
        /\ hist' = _TETrace[j].hist
        /\ shape  = _TETrace[i].shape
        /\ shape' = _TETrace[j].shape
        /\ abs  = _TETrace[i].abs
        /\ abs' = _TETrace[j].abs
        /\ obj  = _TETrace[i].obj
        /\ obj' = _TETrace[j].obj
        /\ qok  = _TETrace[i].qok
        /\ qok' = _TETrace[j].qok
        /\ nalloc  = _TETrace[i].nalloc
        /\ nalloc' = _TETrace[j].nalloc

\* Uncomment the ASSUME below to write the states of the error trace
\* to the given file in Json format. Note that you can pass any tuple
\* to `JsonSerialize`. For example, a sub-sequence of _TETrace.
    \* ASSUME
    \*     LET J == INSTANCE Json
    \*         IN J!JsonSerialize("Manifold_TTrace_1791061915.json", _TETrace)

=============================================================================

 Note that you can extract this module `Manifold_TEExpression`
  to a dedicated file to reuse `expression` (the module in the 
  dedicated `Manifold_TEExpression.tla` file takes precedence 
  over the module `Manifold_TEExpression` below).

---- MODULE Manifold_TEExpression ----
EXTENDS Sequences, TLCExt, Manifold, Toolbox, Naturals, TLC

expression == 
    [
        \* To hide variables of the `Manifold` spec from the error trace,
        \* remove the variables below.  The trace will be written in the order
        \* of the fields of this record.
        store |-> store
        ,kind |-> kind
        ,hist |-> hist
        ,shape |-> shape
        ,abs |-> abs
        ,obj |-> obj
        ,qok |-> qok
        ,nalloc |-> nalloc
        
        \* Put additional constant-, state-, and action-level expressions here:
        \* ,_stateNumber |-> _TEPosition
        \* ,_storeUnchanged |-> store = store'
        
        \* Format the `store` variable as Json value.
        \* ,_storeJson |->
        \*     LET J == INSTANCE Json
        \*     IN J!ToJson(store)
        
        \* Lastly, you may build expressions over arbitrary sets of states by
        \* leveraging the _TETrace operator.  For example, this is how to
        \* count the number of times a spec variable changed up to the current
        \* state in the trace.
        \* ,_storeModCount |->
        \*     LET F[s \in DOMAIN _TETrace] ==
        \*         IF s = 1 THEN 0
        \*         ELSE IF _TETrace[s].store # _TETrace[s-1].store
        \*             THEN 1 + F[s-1] ELSE F[s-1]
        \*     IN F[_TEPosition - 1]
    ]

=============================================================================



Parsing and semantic processing can take forever if the trace below is long.
 In this case, it is advised to uncomment the module below to deserialize the
 trace from a generated binary file.

\*
\*---- MODULE Manifold_TETrace ----
\*EXTENDS IOUtils, Manifold, TLC
\*
\*trace == IODeserialize("Manifold_TTrace_1791061915.bin", TRUE)
\*
\*=============================================================================
\*

---- MODULE Manifold_TETrace ----
EXTENDS Manifold, TLC

trace == 
    <<
    ([hist |-> <<>>,abs |-> <<>>,shape |-> {},kind |-> "S",obj |-> <<>>,nalloc |-> 0,store |-> <<>>,qok |-> TRUE]),
    ([hist |-> <<<<"construct", 1, 0, "A">>>>,abs |-> <<[m0 |-> <<71, 72, 73>>, m |-> <<1, 2, 3>>, fixed |-> {}]>>,shape |-> {},kind |-> "S",obj |-> <<[m0 |-> <<71, 72, 73>>, m |-> <<1, 2, 3>>, fixed |-> {}]>>,nalloc |-> 0,store |-> <<>>,qok |-> TRUE]),
    ([hist |-> <<<<"construct", 1, 0, "A">>, <<"cast", 2, 1, "">>>>,abs |-> <<[m0 |-> <<71, 72, 73>>, m |-> <<1, 2, 3>>, fixed |-> {}], [m0 |-> <<71, 72, 73>>, m |-> <<1, 2, 3>>, fixed |-> {}]>>,shape |-> {},kind |-> "S",obj |-> <<[m0 |-> <<71, 72, 73>>, m |-> <<1, 2, 3>>, fixed |-> {}], [m0 |-> <<1, 2, 3>>, m |-> <<71, 72, 73>>, fixed |-> {}]>>,nalloc |-> 0,store |-> <<>>,qok |-> TRUE])
    >>
----


=============================================================================

---- CONFIG Manifold_TTrace_1791061915 ----
CONSTANTS
    MaxDepth = 4
    Kinds = { "L" , "V" , "W" , "S" , "A" }
    Bug = "cast_swap"
    Emit = FALSE

INVARIANT
    _inv

CHECK_DEADLOCK
    \* CHECK_DEADLOCK off because of PROPERTY or INVARIANT above.
    FALSE

INIT
    _init

NEXT
    _next

CONSTANT
    _TETrace <- _trace

ALIAS
    _expression
=============================================================================
\* Generated on Sat Oct 03 21:12:26 UTC 2026