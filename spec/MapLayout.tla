------------------------------ MODULE MapLayout ------------------------------
(* What property C16 needs to know about memory, shared by the design model     *)
(* (MapMem) and the trace specification (TraceMap):                             *)
(*  - the DOCUMENTED coefficient layouts of the groups ("Memory layout" in the  *)
(*    header comments) as tables of sub-parts [nm, off, len];                   *)
(*  - the placement of the views in the caller's buffer;                        *)
(*  - the frame vocabulary: read a range, splice a range, "nothing outside the  *)
(*    range changed", "every cell of the range holds the specified content".    *)
(* No pointer arithmetic of the implementation appears here.                    *)
EXTENDS Groups, TLC

---------------------------------------------------------------------------
\* DOCUMENTED memory layouts (header comments "Memory layout"): sub-parts as
\* [nm, off, len] with off counted in scalars from the first coefficient
SP(nm, off, len) == [nm |-> nm, off |-> off, len |-> len]
Digit(i) == ToString(i)
RECURSIVE SubParts(_)
RECURSIVE BundleSubs(_, _)
Prefixed(pfx, base, subs) == [q \in 1..Len(subs) |-> SP(pfx \o "." \o subs[q].nm, base + subs[q].off, subs[q].len)]
BundleSubs(g, i) ==
  IF i > Len(g.parts) THEN <<>>
  ELSE LET nm == "part<" \o Digit(i - 1) \o ">"
           base == SumRep(g.parts, i - 1)
       IN <<SP(nm, base, RepSize(g.parts[i]))>> \o Prefixed(nm, base, SubParts(g.parts[i])) \o BundleSubs(g, i + 1)
SubParts(g) ==
  CASE g.k = "SE2" -> <<SP("r2", 0, 2), SP("so2", 2, 2)>>                      \* x y qz qw
    [] g.k = "SE3" -> <<SP("r3", 0, 3), SP("so3", 3, 4)>>                      \* x y z qx qy qz qw
    [] g.k = "Gal" -> <<SP("r3_v", 0, 3), SP("r3_p", 3, 3), SP("r1_t", 6, 1), SP("so3", 7, 4)>>   \* v p t q
    [] g.k = "SEK3" -> [i \in 1..g.n |-> SP("r3<" \o Digit(i - 1) \o ">", 3 * (i - 1), 3)]
                       \o <<SP("so3", 3 * g.n, 4)>>                            \* p1..pk q
    [] g.k = "B" -> BundleSubs(g, 1)
    [] OTHER -> <<>>

\* top-level parts (those that tile the coefficient range)
RECURSIVE TopBundle(_, _)
TopBundle(g, i) == IF i > Len(g.parts) THEN <<>>
                   ELSE <<SP("part<" \o Digit(i - 1) \o ">", SumRep(g.parts, i - 1), RepSize(g.parts[i]))>> \o TopBundle(g, i + 1)
TopParts(g) == IF g.k = "B" THEN TopBundle(g, 1) ELSE SubParts(g)

\* the top-level parts tile [0, RepSize) exactly, in order
RECURSIVE TilesFrom(_, _, _)
TilesFrom(ps, i, at) == IF i > Len(ps) THEN at ELSE IF ps[i].off = at /\ ps[i].len > 0 THEN TilesFrom(ps, i + 1, at + ps[i].len) ELSE -1
Tiles(g) == Len(TopParts(g)) = 0 \/ TilesFrom(TopParts(g), 1, 0) = RepSize(g)

SubIdx(g, nm) == CHOOSE q \in 1..Len(SubParts(g)) : SubParts(g)[q].nm = nm
HasSub(g, nm) == \E q \in 1..Len(SubParts(g)) : SubParts(g)[q].nm = nm
SubOfG(g, nm) == SubParts(g)[SubIdx(g, nm)]


---------------------------------------------------------------------------
\* placement of views in a buffer of 2*RepSize+8 scalars (cell indices start at 0):
\* P0 = guard, P1 = guard+1 (one scalar off: unaligned), P2 overlaps P0 by its last part,
\* P3 = guard+RepSize+1 (disjoint from P0 and P1, one gap cell)
MLGuard == 3
MLValGuard == 2
MLBufLen(g) == 2 * RepSize(g) + 8
MLLastLen(g) == LET t == TopParts(g) IN IF Len(t) = 0 THEN 1 ELSE t[Len(t)].len
MLBufNames(g) == {"P0", "P1", "P3"} \cup (IF RepSize(g) - MLLastLen(g) > 1 THEN {"P2"} ELSE {})
MLViewPos(g, v) ==
  CASE v = "P0" -> MLGuard [] v = "P1" -> MLGuard + 1 [] v = "P2" -> MLGuard + RepSize(g) - MLLastLen(g)
    [] v = "P3" -> MLGuard + RepSize(g) + 1

---------------------------------------------------------------------------
\* frame vocabulary over a memory m : 0..(N-1) -> cell content
Rd(m, lo, n) == [j \in 1..n |-> m[lo + j - 1]]
\* (operator arguments are evaluated once by TLC; LET bodies would be re-evaluated per cell)
Splice(m, lo, len, vals) == [c \in DOMAIN m |-> IF c >= lo /\ c < lo + len THEN vals[c - lo + 1] ELSE m[c]]
FrameOK(m, pm, lo, len) == \A c \in DOMAIN m : (c < lo \/ c >= lo + len) => m[c] = pm[c]
WritesOK(m, lo, len, vals) == \A j \in 1..len : m[lo + j - 1] = vals[j]
=============================================================================
