INIT Init
NEXT Next
CHECK_DEADLOCK FALSE
INVARIANT TypeOK
INVARIANT Refines
INVARIANT Frame
INVARIANT WritesAll
INVARIANT ConstNeverWrites
INVARIANT GuardsIntact
INVARIANT EmitGeometry
INVARIANT Emit
