------------------------------- MODULE MapMem -------------------------------
(* Design-level model for property C16 (Map<G> / Map<const G> views are         *)
(* interchangeable with value objects and write only their own memory).        *)
(*                                                                             *)
(* One flat cell array models the caller's memory:                             *)
(*   - a buffer of NB = 2*RepSize+8 cells in which Map views are placed at     *)
(*     P0 = guard, P1 = guard+1 (one scalar off: unaligned, overlaps P0 in all *)
(*     but one cell), P2 = guard+RepSize-len(last part) (overlaps P0 by one    *)
(*     part) and P3 = guard+RepSize+1 (disjoint from P0 and P1, one gap cell), *)
(*     surrounded by guard cells;                                              *)
(*   - two value objects V0, V1 (storage kind "val") separated by guard cells. *)
(* Storage kinds: "val" (G), "map" (Map<G>), "cmap" (Map<const G>).            *)
(*                                                                             *)
(* Two layers are compared on every step of every history up to MM_DEPTH:      *)
(*   SPECIFICATION (value semantics): an operation reads the coefficient       *)
(*     tuples of its operands at their DOCUMENTED ranges (memory layouts of    *)
(*     the header comments, operator SubParts), and replaces exactly the       *)
(*     destination range by the result; nothing else changes; const            *)
(*     operations, casts and const views change nothing.                       *)
(*   IMPLEMENTATION SHAPE: what the code does - a view is a base pointer,      *)
(*     sub-part accessors add the offsets written in the headers (CodeOff:     *)
(*     "+2", "+3", "+7", "3*K", RepSizesPsum[Idx]), `coeffs() = o.coeffs()` is *)
(*     a coefficient-by-coefficient copy loop, `*=` composes into a temporary  *)
(*     PlainObject and then copies it, setIdentity stores RepSize constants,   *)
(*     cast converts coefficient by coefficient in index order.                *)
(* Cell contents are symbolic: the initial memory holds distinct tokens        *)
(* (the cell index), computed coefficients are tokens <<op, step, j>>; the      *)
(* operand tuples actually read by the implementation shape are kept in `rd`   *)
(* and compared with the specification's operands, so that (by induction on    *)
(* the history) a token identifies one mathematical value.                     *)
(*                                                                             *)
(* Within one call operands are identical or disjoint (partial aliasing inside *)
(* one Eigen assignment is outside the API's contract): MM_BUG = "alias" lifts *)
(* that restriction and TLC shows why it is needed.  Other seeded variants:    *)
(* "notemp" (operator*= without its temporary: wrong exactly when the right       *)
(* operand IS the destination), "dofpsum" (Bundle part<i>() via DofsPsum), "short" (operator= copies  *)
(* RepSize-1 coefficients), "galso3" (Galilei so3() at +6).  The unseeded      *)
(* model (MM_BUG = "none") must satisfy all invariants.                        *)
(*                                                                             *)
(* The model is also the GENERATOR of the histories that harness/mapmem.cpp    *)
(* replays on the real library: every behaviour of length MM_DEPTH is appended *)
(* as one JSON line to the file MM_OUT (BFS: all of them; -simulate: a seeded  *)
(* sample).                                                                    *)
(*                                                                             *)
(* Parameters come from the environment (one .cfg for all types):              *)
(*   MM_TYPE  SO2 SO3 C1 SE2 SE3 Gal SEK3_2 SEK3_3 B3 B5 BN                     *)
(*   MM_DEPTH history length         MM_OUT  output file or "-"                *)
(*   MM_ALPHA full | core            MM_BUG  none | alias | notemp | ctornorm | dofpsum | short | galso3 *)
EXTENDS MapLayout, FiniteSets, TLC, Json, IOUtils

VARIABLES mem, pmem, last, rd, res, hist
vars == <<mem, pmem, last, rd, res, hist>>

---------------------------------------------------------------------------
\* parameters
TSO2 == [k |-> "SO2"]
TSO3 == [k |-> "SO3"]
TSE2 == [k |-> "SE2"]
TSE3 == [k |-> "SE3"]
TC1 == [k |-> "C1"]
TGal == [k |-> "Gal"]
TR(n) == [k |-> "R", n |-> n]
TSEK(n) == [k |-> "SEK3", n |-> n]
TB(ps) == [k |-> "B", parts |-> ps]
TypeOf(nm) ==
  CASE nm = "SO2" -> TSO2 [] nm = "SO3" -> TSO3 [] nm = "C1" -> TC1 [] nm = "SE2" -> TSE2
    [] nm = "SE3" -> TSE3 [] nm = "Gal" -> TGal [] nm = "SEK3_2" -> TSEK(2) [] nm = "SEK3_3" -> TSEK(3)
    [] nm = "B3" -> TB(<<TSE2, TR(2), TSO3>>)
    [] nm = "B5" -> TB(<<TSO2, TSO3, TSE2, TR(2), TSE3>>)
    [] nm = "BN" -> TB(<<TB(<<TSO3, TR(2)>>), TC1, TGal>>)

GT == TypeOf(IOEnv.MM_TYPE)
MaxDepth == atoi(IOEnv.MM_DEPTH)
OutFile == IOEnv.MM_OUT
Alpha == IOEnv.MM_ALPHA
Bug == IOEnv.MM_BUG

---------------------------------------------------------------------------
\* POINTER ARITHMETIC OF THE CODE (transcribed from the accessors):
\*   se2.hpp  so2(): data()+2, r2(): data()          se3.hpp  so3(): data()+3, r3(): data()
\*   galilei.hpp so3(): +7, r3_v(): +0, r3_p(): +3, r1_t(): +6
\*   se_k_3.hpp so3(): data()+3*K, r3<k>(): data()+3*k
\*   bundle.hpp part<Idx>(): data() + get<Idx>(Impl::RepSizesPsum)   (nested accessors add their own offset)
RECURSIVE CodeOff(_, _)
RECURSIVE CodeBundle(_, _)
PsumRep(g, i) == SumRep(g.parts, i)
PsumDof(g, i) == SumDof(g.parts, i)
CodeBundle(g, i) ==
  IF i > Len(g.parts) THEN <<>>
  ELSE LET nm == "part<" \o Digit(i - 1) \o ">"
           base == IF Bug = "dofpsum" THEN PsumDof(g, i - 1) ELSE PsumRep(g, i - 1)
           inner == CodeOff(g.parts[i], 0)
       IN <<[nm |-> nm, off |-> base]>> \o [q \in 1..Len(inner) |-> [nm |-> nm \o "." \o inner[q].nm, off |-> base + inner[q].off]]
          \o CodeBundle(g, i + 1)
CodeOff(g, dummy) ==
  CASE g.k = "SE2" -> <<[nm |-> "r2", off |-> 0], [nm |-> "so2", off |-> 2]>>
    [] g.k = "SE3" -> <<[nm |-> "r3", off |-> 0], [nm |-> "so3", off |-> 3]>>
    [] g.k = "Gal" -> <<[nm |-> "r3_v", off |-> 0], [nm |-> "r3_p", off |-> 3], [nm |-> "r1_t", off |-> 6],
                        [nm |-> "so3", off |-> IF Bug = "galso3" THEN 6 ELSE 7]>>
    [] g.k = "SEK3" -> [i \in 1..g.n |-> [nm |-> "r3<" \o Digit(i - 1) \o ">", off |-> 3 * (i - 1)]]
                       \o <<[nm |-> "so3", off |-> 3 * g.n]>>
    [] g.k = "B" -> CodeBundle(g, 1)
    [] OTHER -> <<>>
CodeOffOfG(g, nm) == LET t == CodeOff(g, 0) IN t[CHOOSE q \in 1..Len(t) : t[q].nm = nm].off

---------------------------------------------------------------------------
\* geometry of the modelled memory (cell indices start at 0)
R == RepSize(GT)
Subs == SubParts(GT)
Top == TopParts(GT)
LastLen == MLLastLen(GT)
GuardLen == MLGuard
NB == MLBufLen(GT)
VGuard == MLValGuard
PosV0 == NB + VGuard
PosV1 == PosV0 + R + VGuard
NCells == PosV1 + R + VGuard
BufNamesFull == MLBufNames(GT)
PosTab == [v \in BufNamesFull \cup {"V0", "V1"} |-> IF v = "V0" THEN PosV0 ELSE IF v = "V1" THEN PosV1 ELSE MLViewPos(GT, v)]
Pos(v) == PosTab[v]
BufNames == IF Alpha = "core" THEN BufNamesFull \ {"P1"} ELSE BufNamesFull
ValNames == IF Alpha = "core" THEN {"V0"} ELSE {"V0", "V1"}
Cells == 0..(NCells - 1)
ViewCells == UNION {Pos(v)..(Pos(v) + R - 1) : v \in BufNamesFull \cup {"V0", "V1"}}
\* cells no view ever covers: the outer guards of the buffer, the guards around the value objects
GuardCells == Cells \ ViewCells
Geometry == [type |-> IOEnv.MM_TYPE, R |-> R, NB |-> NB,
             pos |-> [v \in BufNamesFull |-> Pos(v)], vguard |-> VGuard, lastlen |-> LastLen]

---------------------------------------------------------------------------
\* steps
None == [k |-> "none", v |-> "-"]
St(op, d, s, o, i, x) == [op |-> op, d |-> d, s |-> s, o |-> o, i |-> i, x |-> x]
\* views may also be laid over the memory of a value object (Map<G>(x.data())): a second object over the SAME region
ValViewDst == IF Alpha = "core" THEN {} ELSE [k : {"map"}, v : {"V0"}]
ValViewSrc == IF Alpha = "core" THEN [k : {"cmap"}, v : {"V0"}] ELSE [k : {"map", "cmap"}, v : {"V0"}] \cup [k : {"cmap"}, v : {"V1"}]
Dsts == [k : {"map"}, v : BufNames] \cup [k : {"val"}, v : ValNames] \cup ValViewDst
Srcs == [k : {"map", "cmap"}, v : BufNames] \cup [k : {"val"}, v : ValNames] \cup ValViewSrc
SamePos(a, b) == Pos(a.v) = Pos(b.v)
Disj(a, b) == Pos(a.v) + R <= Pos(b.v) \/ Pos(b.v) + R <= Pos(a.v)
OkPair(a, b) == Bug = "alias" \/ SamePos(a, b) \/ Disj(a, b)
Pairs == {p \in Dsts \X Srcs : OkPair(p[1], p[2])}
SrcPairs == {p \in Srcs \X Srcs : OkPair(p[1], p[2])}
ValDsts == {d \in Dsts : d.k = "val"}
SubNames == {Subs[q].nm : q \in 1..Len(Subs)}
\* tables evaluated once (zero-arity definitions are cached by TLC)
SubTab == [nm \in SubNames |-> SubOfG(GT, nm)]
CodeTab == [nm \in SubNames |-> CodeOffOfG(GT, nm)]
SubOf(g, nm) == SubTab[nm]
CodeOffOf(g, nm) == CodeTab[nm]

Mutators == {"assign", "massign", "mul", "amul", "bmul", "copyctor", "partsctor", "plus", "setid", "subassign", "subsetid", "submul"}
Observers == {"cast", "const", "const2", "subconst"}

Steps ==
  {St("assign", p[1], p[2], None, "-", "-") : p \in Pairs}
  \cup {St("massign", p[1], p[2], None, "-", "-") : p \in {q \in Pairs : q[1].k = q[2].k}}   \* x = std::move(y), same storage kind
  \cup {St("mul", p[1], p[2], None, "-", "-") : p \in Pairs}                     \* a *= b   (identical operands included: x *= x,
  \cup {St("amul", p[1], p[2], None, "-", "-") : p \in Pairs}                    \* a = a * b   two view objects over one region)
  \cup {St("bmul", p[1], p[2], None, "-", "-") : p \in Pairs}                    \* a = b * a
  \cup {St("copyctor", p[1], p[2], None, "-", "-") : p \in {q \in ValDsts \X Srcs : ~SamePos(q[1], q[2])}}
  \* from-parts constructors G(part_1, ..., part_m) (SE2(so2, r2), SE3(so3, r3), Galilei(so3, v, p, t), SE_K_3(so3, p...),
  \* Bundle(parts...)): a value object built from the parts of s, handed over as sub-part views ("view": Map / const-Map /
  \* views into a value) or as value objects of the part types ("plain"); documented as plain copies
  \cup (IF Len(Top) = 0 THEN {}
        ELSE {St("partsctor", p[1], p[2], None, "-", x) : p \in {q \in ValDsts \X Srcs : Disj(q[1], q[2])}, x \in {"view", "plain"}})
  \cup {St("plus", d, None, None, "-", "-") : d \in Dsts}
  \cup {St("setid", d, None, None, "-", "-") : d \in Dsts}
  \cup {St("cast", None, s, None, "-", "-") : s \in Srcs}
  \cup {St("const", None, s, None, "-", "-") : s \in Srcs}
  \cup {St("const2", None, p[1], p[2], "-", "-") : p \in SrcPairs}
  \cup {St("subassign", p[1], p[2], None, nm, "part") : p \in Pairs, nm \in SubNames}
  \cup {St("subassign", d, None, None, nm, "fresh") : d \in Dsts, nm \in SubNames}
  \cup {St("subsetid", d, None, None, nm, "-") : d \in Dsts, nm \in SubNames}
  \cup {St("submul", p[1], p[2], None, nm, "-") : p \in Pairs, nm \in SubNames}
  \cup {St("subconst", None, s, None, nm, "-") : s \in Srcs, nm \in SubNames}

---------------------------------------------------------------------------
\* SPECIFICATION (value semantics over documented ranges)
Tok0(c) == <<"cell", c, 0>>            \* initial content of cell c (same shape as computed tokens <<op, step, j>>)
Fresh(op, n, len) == [j \in 1..len |-> <<op, n, j>>]
IsSubOp(st) == st.op \in {"subassign", "subsetid", "submul", "subconst"}
\* destination range [lo, lo+len) ; len = 0 for observers
DestLo(st) == IF st.d.k = "none" THEN 0 ELSE Pos(st.d.v) + (IF IsSubOp(st) THEN SubOf(GT, st.i).off ELSE 0)
DestLen(st) == IF st.d.k = "none" THEN 0 ELSE IF IsSubOp(st) THEN SubOf(GT, st.i).len ELSE R
DestCells(st) == DestLo(st)..(DestLo(st) + DestLen(st) - 1)
SrcLo(st, v) == Pos(v.v) + (IF IsSubOp(st) THEN SubOf(GT, st.i).off ELSE 0)
OpLen(st) == IF IsSubOp(st) THEN SubOf(GT, st.i).len ELSE R

\* operand coefficient tuples, in the order (destination-as-operand, source, other)
SpecReads(st, m) ==
  CASE st.op \in {"assign", "massign", "copyctor", "partsctor"} -> <<Rd(m, SrcLo(st, st.s), R)>>
    [] st.op \in {"mul", "amul"} -> <<Rd(m, DestLo(st), R), Rd(m, SrcLo(st, st.s), R)>>
    [] st.op = "bmul" -> <<Rd(m, SrcLo(st, st.s), R), Rd(m, DestLo(st), R)>>
    [] st.op = "plus" -> <<Rd(m, DestLo(st), R)>>
    [] st.op = "setid" -> <<>>
    [] st.op \in {"cast", "const"} -> <<Rd(m, SrcLo(st, st.s), R)>>
    [] st.op = "const2" -> <<Rd(m, SrcLo(st, st.s), R), Rd(m, SrcLo(st, st.o), R)>>
    [] st.op = "subassign" -> IF st.x = "part" THEN <<Rd(m, SrcLo(st, st.s), OpLen(st))>> ELSE <<>>
    [] st.op = "subsetid" -> <<>>
    [] st.op = "submul" -> <<Rd(m, DestLo(st), OpLen(st)), Rd(m, SrcLo(st, st.s), OpLen(st))>>
    [] st.op = "subconst" -> <<Rd(m, SrcLo(st, st.s), OpLen(st))>>

\* new contents of the destination range
SpecVals(st, m, n) ==
  CASE st.op \in {"assign", "massign", "copyctor", "partsctor"} -> Rd(m, SrcLo(st, st.s), R)   \* verbatim (the parts tile the layout)
    [] st.op \in {"mul", "amul", "bmul", "plus", "setid"} -> Fresh(st.op, n, R)
    [] st.op = "subassign" -> IF st.x = "part" THEN Rd(m, SrcLo(st, st.s), OpLen(st)) ELSE Fresh("fresh", n, OpLen(st))
    [] st.op \in {"subsetid", "submul"} -> Fresh(st.op, n, OpLen(st))
    [] OTHER -> <<>>
SpecNext(st, m, n) == Splice(m, DestLo(st), DestLen(st), SpecVals(st, m, n))
\* results handed back to the caller: cast = per-coefficient conversion in index order
SpecRes(st, m, n) ==
  CASE st.op = "cast" -> [j \in 1..R |-> <<"conv", m[Pos(st.s.v) + j - 1]>>]
    [] st.op \in {"const", "const2", "subconst"} -> <<"result", n>>
    [] OTHER -> <<>>

---------------------------------------------------------------------------
\* IMPLEMENTATION SHAPE
\* address of the first coefficient an accessor chain hands out
Addr(view, st) == Pos(view.v) + (IF IsSubOp(st) THEN CodeOffOf(GT, st.i) ELSE 0)
\* dst.coeffs() = src.coeffs(): coefficient loop in index order on the live memory
RECURSIVE CopyLoop(_, _, _, _, _)
CopyLoop(m, dp, sp, j, n) == IF j >= n THEN m ELSE CopyLoop([m EXCEPT ![dp + j] = m[sp + j]], dp, sp, j + 1, n)
\* dst.coeffs() = tmp   (tmp is a local PlainObject / constant expression)
RECURSIVE StoreLoop(_, _, _, _)
StoreLoop(m, dp, tmp, j) == IF j > Len(tmp) THEN m ELSE StoreLoop([m EXCEPT ![dp + j - 1] = tmp[j]], dp, tmp, j + 1)

\* part-wise construction: one coefficient loop per top-level part, at the code's offsets on both sides
RECURSIVE PartsLoop(_, _, _, _)
PartsLoop(m, da, sa, i) ==
  IF i > Len(Top) THEN m
  ELSE PartsLoop(CopyLoop(m, da + CodeTab[Top[i].nm], sa + CodeTab[Top[i].nm], 0, Top[i].len), da, sa, i + 1)

ImplStep(st, m, n) ==
  LET len == OpLen(st)
      da == IF st.d.k = "none" THEN 0 ELSE Addr(st.d, st)
      sa == IF st.s.k = "none" THEN 0 ELSE Addr(st.s, st)
      oa == IF st.o.k = "none" THEN 0 ELSE Addr(st.o, st)
      cplen == IF Bug = "short" /\ st.op = "assign" THEN len - 1 ELSE len
      noRes == <<>>
  IN CASE st.op \in {"assign", "massign", "copyctor"} ->
            [mem |-> CopyLoop(m, da, sa, 0, cplen), rd |-> <<Rd(m, sa, len)>>, res |-> noRes]
       [] st.op = "partsctor" ->
            \* Base::part_i() = arg_i for every top-level part, each at the accessor's offset; seeded variant "ctornorm":
            \* the rotation part is renormalised afterwards
            LET copied == PartsLoop(m, da, sa, 1)
                q == IF Bug = "ctornorm" /\ "so3" \in SubNames THEN SubTab["so3"] ELSE [off |-> 0, len |-> 0]
            IN [mem |-> StoreLoop(copied, da + q.off, Fresh("norm", n, q.len), 1), rd |-> <<Rd(m, sa, R)>>, res |-> noRes]
       [] st.op = "subassign" ->
            IF st.x = "part" THEN [mem |-> CopyLoop(m, da, sa, 0, len), rd |-> <<Rd(m, sa, len)>>, res |-> noRes]
            ELSE [mem |-> StoreLoop(m, da, Fresh("fresh", n, len), 1), rd |-> <<>>, res |-> noRes]
       [] st.op \in {"mul", "submul"} ->
            \* PlainObject ret; composition(this->coeffs(), o.coeffs(), ret.coeffs()); coeffs() = ret.coeffs()
            \* seeded variant "notemp": copy of the left factor only, composition stores straight into the destination,
            \* so the right factor is still being read after the first destination coefficient has been stored
            LET a == Rd(m, da, len)
                b == IF Bug = "notemp" THEN Rd(StoreLoop(m, da, <<Fresh(st.op, n, len)[1]>>, 1), sa, len) ELSE Rd(m, sa, len)
            IN [mem |-> StoreLoop(m, da, Fresh(st.op, n, len), 1), rd |-> <<a, b>>, res |-> noRes]
       [] st.op \in {"amul", "bmul"} ->
            \* operator* returns a PlainObject temporary which is then assigned
            LET a == Rd(m, da, len)  b == Rd(m, sa, len)
            IN [mem |-> StoreLoop(m, da, Fresh(st.op, n, len), 1), rd |-> IF st.op = "amul" THEN <<a, b>> ELSE <<b, a>>, res |-> noRes]
       [] st.op = "plus" ->
            LET a == Rd(m, da, len)
            IN [mem |-> StoreLoop(m, da, Fresh("plus", n, len), 1), rd |-> <<a>>, res |-> noRes]
       [] st.op \in {"setid", "subsetid"} ->
            [mem |-> StoreLoop(m, da, Fresh(st.op, n, len), 1), rd |-> <<>>, res |-> noRes]
       [] st.op = "cast" ->
            [mem |-> m, rd |-> <<Rd(m, sa, len)>>, res |-> [j \in 1..len |-> <<"conv", m[sa + j - 1]>>]]
       [] st.op \in {"const", "subconst"} ->
            [mem |-> m, rd |-> <<Rd(m, sa, len)>>, res |-> <<"result", n>>]
       [] st.op = "const2" ->
            [mem |-> m, rd |-> <<Rd(m, sa, len), Rd(m, oa, len)>>, res |-> <<"result", n>>]

---------------------------------------------------------------------------
Init ==
  /\ mem = [c \in Cells |-> Tok0(c)]
  /\ pmem = [c \in Cells |-> Tok0(c)]
  /\ last = St("init", None, None, None, "-", "-")
  /\ rd = <<>>
  /\ res = <<>>
  /\ hist = <<>>

Next ==
  /\ Len(hist) < MaxDepth
  /\ \E st \in Steps :
       LET n == Len(hist) + 1
           r == ImplStep(st, mem, n)
       IN /\ mem' = r.mem
          /\ pmem' = mem
          /\ rd' = r.rd
          /\ res' = r.res
          /\ last' = st
          /\ hist' = Append(hist, st)

Spec == Init /\ [][Next]_vars

---------------------------------------------------------------------------
\* invariants
Started == Len(hist) > 0
\* the implementation shape refines the value semantics: same memory, same operands read, same results
Refines ==
  Started => /\ mem = SpecNext(last, pmem, Len(hist))
             /\ rd = SpecReads(last, pmem)
             /\ res = SpecRes(last, pmem, Len(hist))
\* C16.frame: a step changes no cell outside its destination (sub-)range
Frame == Started => FrameOK(mem, pmem, DestLo(last), DestLen(last))
\* ... and writes every cell of it ("exactly"): every destination cell holds the specified new content
WritesAll == Started => WritesOK(mem, DestLo(last), DestLen(last), SpecVals(last, pmem, Len(hist)))
\* const views have no write action; observers write nothing
ConstNeverWrites == /\ last.d.k # "cmap"
                    /\ (Started /\ last.op \in Observers) => mem = pmem
GuardsIntact == \A c \in GuardCells : mem[c] = Tok0(c)
ASSUME LayoutTiles == Tiles(GT)          \* the documented top-level parts tile [0, RepSize) in order
\* storage kind is irrelevant to the specification: it only mentions positions (checked syntactically by
\* SpecNext/SpecReads/SpecRes not using .k); the implementation shape reaches the same cells for every kind
TypeOK == /\ DOMAIN mem = Cells
          /\ Len(hist) <= MaxDepth

\* generator: every complete history is appended to MM_OUT as one JSON line
Emit ==
  (OutFile # "-" /\ Len(hist) = MaxDepth) =>
     Serialize(ToJson(hist) \o "\n", OutFile,
               [format |-> "TXT", charset |-> "UTF-8", openOptions |-> <<"WRITE", "CREATE", "APPEND">>]).exitValue = 0
\* the geometry the harness must use (first line of the file)
EmitGeometry ==
  (OutFile # "-" /\ Len(hist) = 0) =>
     Serialize(ToJson(Geometry) \o "\n", OutFile,
               [format |-> "TXT", charset |-> "UTF-8", openOptions |-> <<"WRITE", "CREATE", "APPEND">>]).exitValue = 0
=============================================================================
