---- MODULE MapMem_TTrace_1791073915 ----
EXTENDS Sequences, TLCExt, Toolbox, MapMem, Naturals, TLC

_expression ==
    LET MapMem_TEExpression == INSTANCE MapMem_TEExpression
    IN MapMem_TEExpression!expression
----

_trace ==
    LET MapMem_TETrace == INSTANCE MapMem_TETrace
    IN MapMem_TETrace!trace
----

_inv ==
    ~(
        TLCGet("level") = Len(_TETrace)
        /\
        res = (<<>>)
        /\
        pmem = ((0 :> 0 @@ 1 :> 1 @@ 2 :> 2 @@ 3 :> 3 @@ 4 :> 4 @@ 5 :> 5 @@ 6 :> 6 @@ 7 :> 7 @@ 8 :> 8 @@ 9 :> 9 @@ 10 :> 10 @@ 11 :> 11 @@ 12 :> 12 @@ 13 :> 13 @@ 14 :> 14 @@ 15 :> 15 @@ 16 :> 16 @@ 17 :> 17 @@ 18 :> 18 @@ 19 :> 19 @@ 20 :> 20 @@ 21 :> 21 @@ 22 :> 22 @@ 23 :> 23 @@ 24 :> 24 @@ 25 :> 25 @@ 26 :> 26 @@ 27 :> 27 @@ 28 :> 28 @@ 29 :> 29 @@ 30 :> 30 @@ 31 :> 31 @@ 32 :> 32 @@ 33 :> 33 @@ 34 :> 34 @@ 35 :> 35 @@ 36 :> 36 @@ 37 :> 37 @@ 38 :> 38 @@ 39 :> 39 @@ 40 :> 40 @@ 41 :> 41))
        /\
        rd = (<<<<3, 4, 5, 6, 7, 8, 9>>>>)
        /\
        hist = (<<[i |-> "-", op |-> "assign", d |-> [k |-> "map", v |-> "P2"], s |-> [k |-> "map", v |-> "P0"], o |-> [k |-> "none", v |-> "-"], x |-> "-"]>>)
        /\
        last = ([i |-> "-", op |-> "assign", d |-> [k |-> "map", v |-> "P2"], s |-> [k |-> "map", v |-> "P0"], o |-> [k |-> "none", v |-> "-"], x |-> "-"])
        /\
        mem = ((0 :> 0 @@ 1 :> 1 @@ 2 :> 2 @@ 3 :> 3 @@ 4 :> 4 @@ 5 :> 5 @@ 6 :> 3 @@ 7 :> 4 @@ 8 :> 5 @@ 9 :> 3 @@ 10 :> 4 @@ 11 :> 5 @@ 12 :> 3 @@ 13 :> 13 @@ 14 :> 14 @@ 15 :> 15 @@ 16 :> 16 @@ 17 :> 17 @@ 18 :> 18 @@ 19 :> 19 @@ 20 :> 20 @@ 21 :> 21 @@ 22 :> 22 @@ 23 :> 23 @@ 24 :> 24 @@ 25 :> 25 @@ 26 :> 26 @@ 27 :> 27 @@ 28 :> 28 @@ 29 :> 29 @@ 30 :> 30 @@ 31 :> 31 @@ 32 :> 32 @@ 33 :> 33 @@ 34 :> 34 @@ 35 :> 35 @@ 36 :> 36 @@ 37 :> 37 @@ 38 :> 38 @@ 39 :> 39 @@ 40 :> 40 @@ 41 :> 41))
    )
----

_init ==
    /\ res = _TETrace[1].res
    /\ last = _TETrace[1].last
    /\ rd = _TETrace[1].rd
    /\ mem = _TETrace[1].mem
    /\ hist = _TETrace[1].hist
    /\ pmem = _TETrace[1].pmem
----

_next ==
    /\ \E i,j \in DOMAIN _TETrace:
        /\ \/ /\ j = i + 1
              /\ i = TLCGet("level")
        /\ res  = _TETrace[i].res
        /\ res' = _TETrace[j].res
        /\ last  = _TETrace[i].last
        /\ last' = _TETrace[j].last
        /\ rd  = _TETrace[i].rd
        /\ rd' = _TETrace[j].rd
        /\ mem  = _TETrace[i].mem
        /\ mem' = _TETrace[j].mem
        /\ hist  = _TETrace[i].hist
        /\ hist' = _TETrace[j].hist
        /\ pmem  = _TETrace[i].pmem
        /\ pmem' = _TETrace[j].pmem

\* Uncomment the ASSUME below to write the states of the error trace
\* to the given file in Json format. Note that you can pass any tuple
\* to `JsonSerialize`. For example, a sub-sequence of _TETrace.
    \* ASSUME
    \*     LET J == INSTANCE Json
    \*         IN J!JsonSerialize("MapMem_TTrace_1791073915.json", _TETrace)

=============================================================================

 Note that you can extract this module `MapMem_TEExpression`
  to a dedicated file to reuse `expression` (the module in the 
  dedicated `MapMem_TEExpression.tla` file takes precedence 
  over the module `MapMem_TEExpression` below).

---- MODULE MapMem_TEExpression ----
EXTENDS Sequences, TLCExt, Toolbox, MapMem, Naturals, TLC

expression == 
    [
        \* To hide variables of the `MapMem` spec from the error trace,
        \* remove the variables below.  The trace will be written in the order
        \* of the fields of this record.
        res |-> res
        ,last |-> last
        ,rd |-> rd
        ,mem |-> mem
        ,hist |-> hist
        ,pmem |-> pmem
        
        \* Put additional constant-, state-, and action-level expressions here:
        \* ,_stateNumber |-> _TEPosition
        \* ,_resUnchanged |-> res = res'
        
        \* Format the `res` variable as Json value.
        \* ,_resJson |->
        \*     LET J == INSTANCE Json
        \*     IN J!ToJson(res)
        
        \* Lastly, you may build expressions over arbitrary sets of states by
        \* leveraging the _TETrace operator.  For example, this is how to
        \* count the number of times a spec variable changed up to the current
        \* state in the trace.
        \* ,_resModCount |->
        \*     LET F[s \in DOMAIN _TETrace] ==
        \*         IF s = 1 THEN 0
        \*         ELSE IF _TETrace[s].res # _TETrace[s-1].res
        \*             THEN 1 + F[s-1] ELSE F[s-1]
        \*     IN F[_TEPosition - 1]
    ]

=============================================================================



Parsing and semantic processing can take forever if the trace below is long.
 In this case, it is advised to uncomment the module below to deserialize the
 trace from a generated binary file.

\*
\*---- MODULE MapMem_TETrace ----
\*EXTENDS IOUtils, MapMem, TLC
\*
\*trace == IODeserialize("MapMem_TTrace_1791073915.bin", TRUE)
\*
\*=============================================================================
\*

---- MODULE MapMem_TETrace ----
EXTENDS MapMem, TLC

trace == 
    <<
    ([res |-> <<>>,pmem |-> (0 :> 0 @@ 1 :> 1 @@ 2 :> 2 @@ 3 :> 3 @@ 4 :> 4 @@ 5 :> 5 @@ 6 :> 6 @@ 7 :> 7 @@ 8 :> 8 @@ 9 :> 9 @@ 10 :> 10 @@ 11 :> 11 @@ 12 :> 12 @@ 13 :> 13 @@ 14 :> 14 @@ 15 :> 15 @@ 16 :> 16 @@ 17 :> 17 @@ 18 :> 18 @@ 19 :> 19 @@ 20 :> 20 @@ 21 :> 21 @@ 22 :> 22 @@ 23 :> 23 @@ 24 :> 24 @@ 25 :> 25 @@ 26 :> 26 @@ 27 :> 27 @@ 28 :> 28 @@ 29 :> 29 @@ 30 :> 30 @@ 31 :> 31 @@ 32 :> 32 @@ 33 :> 33 @@ 34 :> 34 @@ 35 :> 35 @@ 36 :> 36 @@ 37 :> 37 @@ 38 :> 38 @@ 39 :> 39 @@ 40 :> 40 @@ 41 :> 41),rd |-> <<>>,hist |-> <<>>,last |-> [i |-> "-", op |-> "init", d |-> [k |-> "none", v |-> "-"], s |-> [k |-> "none", v |-> "-"], o |-> [k |-> "none", v |-> "-"], x |-> "-"],mem |-> (0 :> 0 @@ 1 :> 1 @@ 2 :> 2 @@ 3 :> 3 @@ 4 :> 4 @@ 5 :> 5 @@ 6 :> 6 @@ 7 :> 7 @@ 8 :> 8 @@ 9 :> 9 @@ 10 :> 10 @@ 11 :> 11 @@ 12 :> 12 @@ 13 :> 13 @@ 14 :> 14 @@ 15 :> 15 @@ 16 :> 16 @@ 17 :> 17 @@ 18 :> 18 @@ 19 :> 19 @@ 20 :> 20 @@ 21 :> 21 @@ 22 :> 22 @@ 23 :> 23 @@ 24 :> 24 @@ 25 :> 25 @@ 26 :> 26 @@ 27 :> 27 @@ 28 :> 28 @@ 29 :> 29 @@ 30 :> 30 @@ 31 :> 31 @@ 32 :> 32 @@ 33 :> 33 @@ 34 :> 34 @@ 35 :> 35 @@ 36 :> 36 @@ 37 :> 37 @@ 38 :> 38 @@ 39 :> 39 @@ 40 :> 40 @@ 41 :> 41)]),
    ([res |-> <<>>,pmem |-> (0 :> 0 @@ 1 :> 1 @@ 2 :> 2 @@ 3 :> 3 @@ 4 :> 4 @@ 5 :> 5 @@ 6 :> 6 @@ 7 :> 7 @@ 8 :> 8 @@ 9 :> 9 @@ 10 :> 10 @@ 11 :> 11 @@ 12 :> 12 @@ 13 :> 13 @@ 14 :> 14 @@ 15 :> 15 @@ 16 :> 16 @@ 17 :> 17 @@ 18 :> 18 @@ 19 :> 19 @@ 20 :> 20 @@ 21 :> 21 @@ 22 :> 22 @@ 23 :> 23 @@ 24 :> 24 @@ 25 :> 25 @@ 26 :> 26 @@ 27 :> 27 @@ 28 :> 28 @@ 29 :> 29 @@ 30 :> 30 @@ 31 :> 31 @@ 32 :> 32 @@ 33 :> 33 @@ 34 :> 34 @@ 35 :> 35 @@ 36 :> 36 @@ 37 :> 37 @@ 38 :> 38 @@ 39 :> 39 @@ 40 :> 40 @@ 41 :> 41),rd |-> <<<<3, 4, 5, 6, 7, 8, 9>>>>,hist |-> <<[i |-> "-", op |-> "assign", d |-> [k |-> "map", v |-> "P2"], s |-> [k |-> "map", v |-> "P0"], o |-> [k |-> "none", v |-> "-"], x |-> "-"]>>,last |-> [i |-> "-", op |-> "assign", d |-> [k |-> "map", v |-> "P2"], s |-> [k |-> "map", v |-> "P0"], o |-> [k |-> "none", v |-> "-"], x |-> "-"],mem |-> (0 :> 0 @@ 1 :> 1 @@ 2 :> 2 @@ 3 :> 3 @@ 4 :> 4 @@ 5 :> 5 @@ 6 :> 3 @@ 7 :> 4 @@ 8 :> 5 @@ 9 :> 3 @@ 10 :> 4 @@ 11 :> 5 @@ 12 :> 3 @@ 13 :> 13 @@ 14 :> 14 @@ 15 :> 15 @@ 16 :> 16 @@ 17 :> 17 @@ 18 :> 18 @@ 19 :> 19 @@ 20 :> 20 @@ 21 :> 21 @@ 22 :> 22 @@ 23 :> 23 @@ 24 :> 24 @@ 25 :> 25 @@ 26 :> 26 @@ 27 :> 27 @@ 28 :> 28 @@ 29 :> 29 @@ 30 :> 30 @@ 31 :> 31 @@ 32 :> 32 @@ 33 :> 33 @@ 34 :> 34 @@ 35 :> 35 @@ 36 :> 36 @@ 37 :> 37 @@ 38 :> 38 @@ 39 :> 39 @@ 40 :> 40 @@ 41 :> 41)])
    >>
----


=============================================================================

---- CONFIG MapMem_TTrace_1791073915 ----

INVARIANT
    _inv

CHECK_DEADLOCK
    \* CHECK_DEADLOCK off because of PROPERTY or INVARIANT above.
    FALSE

INIT
    _init

NEXT
    _next

CONSTANT
    _TETrace <- _trace

ALIAS
    _expression
=============================================================================
\* Generated on Sun Oct 04 00:31:56 UTC 2026