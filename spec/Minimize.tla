------------------------------ MODULE Minimize ------------------------------
(* Design model of smooth::minimize (include/smooth/optim.hpp) and of the two   *)
(* trust-region strategies (include/smooth/optim/tr_strategy.hpp) AS CODED.      *)
(*                                                                               *)
(* The numerical linear algebra (Jacobian, trust-region step, norms) is the      *)
(* ENVIRONMENT: in every iteration it hands the loop one abstract outcome        *)
(*    r_n = 0 ?   sign classes of pred_red and actu_red   cost of the candidate  *)
(*    rho (an extended real: NaN, -inf, +inf or a rational)                      *)
(*    outcome of the two convergence tests                                       *)
(* and the model executes the control flow of the code on it:                    *)
(*    reset() of the strategy object on entry (a re-used object arrives with     *)
(*    whatever radius / reduce factor the previous run left in it),              *)
(*    strategy update, acceptance rule                                           *)
(*       r_n == 0 || (actu_red >= 0 && (pred_red <= 0 || take_step)),            *)
(*    callback, status selection (Ftol test first, then Ptol), loop bound        *)
(*    iter < max_iter && !status.                                                *)
(*                                                                               *)
(* Environment assumptions (facts about the arithmetic, NOT about the loop; the  *)
(* trace specification TraceOptim validates them on every real iteration):       *)
(*    A2  actu_red = 1 - (|f(xp)|/r_n)^2 has the sign of the cost comparison:    *)
(*        actu_red > 0 if the candidate is better, < 0 if it is worse (either    *)
(*        sign when the costs agree up to rounding)             -- Monotone      *)
(*    A3  r_n = 0  =>  dx = 0 (cost unchanged)                  -- Monotone      *)
(*    TieRho (optional, no property needs it): rho = actu_red / pred_red in IEEE *)
(*        arithmetic.  With TieRho = FALSE rho is arbitrary: every property      *)
(*        below holds for the larger environment too.                            *)
(* (Before the repair f247895 the rule was r_n == 0 || pred_red <= 0 ||          *)
(*  take_step and Monotone additionally needed A1: pred_red <= 0 => null step,   *)
(*  which is false for badly scaled problems; that rule is kept as the model     *)
(*  mutant "accept_pred_red_only".)                                              *)
(*                                                                               *)
(* Checked by TLC for every behaviour within the constants (see Minimize.cfg):   *)
(*    Bound, StatusContract, Callbacks (count = 1 + #accepted, last callback     *)
(*    iterate = arguments), Monotone, StratInv, ReduceRestart, FreshAtStart      *)
(*    (every run starts from the initial strategy state, also on a re-used       *)
(*    object), Carried, NotStuck + Decreases, Termination.                       *)
(* Variant /= "coded" selects a seeded mutant of the MODEL (non-vacuity).        *)
(*                                                                               *)
(* Termination rests on the loop bound alone: an iteration with pred_red < 0,    *)
(* actu_red < 0 (hence rho > 0) is REJECTED while the strategy GROWS the radius, *)
(* so neither the cost nor the radius is a variant; Rank counts iterations.      *)
(*                                                                               *)
(* The operators StratInit, StratStep, StratReset, Accept, StatusOf,             *)
(* LoopContinues are reused by TraceOptim with the logged fields bound.          *)
EXTENDS MinimizeOps

CONSTANTS
  MaxIter,      \* max_iter of every run (the property's bound)
  Runs,         \* number of consecutive runs (>= 2 shows persistence of the strategy object)
  Levels,       \* cost levels 0..Levels (level 0: zero residual); equal level = equal up to rounding
  Kinds,        \* subset of {"ceres", "disney"}
  \* (Variant, declared in MinimizeOps: "coded" or a model mutant: "accept_always", "accept_pred_red_only",
  \*  "no_reset", "assign_before_test", "loop_le", "status_default_ptol", "reduce_not_reset")
  AssumeA2, AssumeA3,   \* BOOLEAN: environment assumptions in force
  TieRho                \* BOOLEAN: rho = actu_red / pred_red (FALSE: rho arbitrary)

---------------------------------------------------------------------------
\* The state machine below keeps the strategy state in INTEGER EXPONENTS so that TLC explores it quickly:
\*   Ceres :  delta = 10^4 * 3^e3 * 2^(-e2) * G^(-eg),  reduce = 2^k      (G = CeresDen(1/500), a "generic" divisor)
\*   Disney:  delta = 10^3 * 10^(-e2)
\* Conc maps an abstract state to the rational state of StratStep; AbsStep is StratStep on the abstract state for
\* the representatives of rho used by the environment.  StepCommutes (an ASSUME, evaluated by TLC at start-up on a
\* box of abstract states x all representatives) checks  Conc(AbsStep(a, rho)) = StratStep(Conc(a), rho).
RhoGeneric == XFin(RFrac(1, 500))
GenDen == CeresDen(RhoGeneric)
RECURSIVE RPowZ(_, _)
RPowZ(b, n) == IF n = 0 THEN R1 ELSE IF n > 0 THEN RMul(b, RPowZ(b, n - 1)) ELSE RDiv(RPowZ(b, n + 1), b)

AbsInit(kind) == [kind |-> kind, e3 |-> 0, e2 |-> 0, eg |-> 0, k |-> 1]
Conc(a) ==
  IF a.kind = "ceres"
  THEN [kind |-> "ceres",
        delta |-> RMul(RMul(RFromInt(10000), RPowZ(RFromInt(3), a.e3)), RMul(RPowZ(R2, -a.e2), RPowZ(GenDen, -a.eg))),
        reduce |-> RPowZ(R2, a.k)]
  ELSE [kind |-> "disney", delta |-> RMul(RFromInt(1000), RPowZ(RFromInt(10), -a.e2)), reduce |-> R2]

\* which divisor regime of Ceres a representative falls in (decided with the rational operators)
CeresRegime(rho) ==
  IF ~XGt(rho, RhoThreshold("ceres")) THEN "reject"
  ELSE IF REq(CeresDen(rho), OneThird) THEN "third"
  ELSE IF REq(CeresDen(rho), R1) THEN "one"
  ELSE IF REq(CeresDen(rho), RFrac(9, 8)) THEN "nine8"
  ELSE IF REq(CeresDen(rho), GenDen) THEN "generic"
  ELSE "unknown"

AbsStepRegime(a, reg, taken) ==
  IF a.kind = "ceres" THEN
    LET kk == IF Variant = "reduce_not_reset" THEN a.k ELSE 1
    IN CASE reg = "reject"  -> [take |-> FALSE, s |-> [a EXCEPT !.e2 = @ + a.k, !.k = @ + 1]]
         [] reg = "third"   -> [take |-> TRUE, s |-> [a EXCEPT !.e3 = @ + 1, !.k = kk]]
         [] reg = "one"     -> [take |-> TRUE, s |-> [a EXCEPT !.k = kk]]
         [] reg = "nine8"   -> [take |-> TRUE, s |-> [a EXCEPT !.e3 = @ - 2, !.e2 = @ - 3, !.k = kk]]
         [] reg = "generic" -> [take |-> TRUE, s |-> [a EXCEPT !.eg = @ + 1, !.k = kk]]
  ELSE IF taken THEN [take |-> TRUE, s |-> [a EXCEPT !.e2 = 0]]
       ELSE [take |-> FALSE, s |-> [a EXCEPT !.e2 = @ + 1]]
\* reset() on entry of minimize
AbsReset(a) == IF Variant = "no_reset" THEN a ELSE AbsInit(a.kind)
\* states in which a strategy object that was used before may arrive (collapsed / grown radius), besides the initial one
Arrivals(kind) ==
  {AbsInit(kind)} \cup
  (IF kind = "ceres" THEN {[AbsInit(kind) EXCEPT !.e2 = 45, !.k = 10], [AbsInit(kind) EXCEPT !.e3 = 6]}
   ELSE {[AbsInit(kind) EXCEPT !.e2 = 9]})
AbsStep(a, rho) == AbsStepRegime(a, CeresRegime(rho), XGt(rho, RhoThreshold("disney")))
---------------------------------------------------------------------------
\* abstract environment
PredClasses == {"neg", "zero", "pos", "nan"}
\* representatives of rho: below / at / above the Ceres threshold, the three Ceres divisor regimes
\* (9/8 at 1/4, 1 at 1/2, clamp 1/3 at 1 and beyond), beyond the Ftol limit 2, negative, zero
PosReps == {XFin(RFrac(1, 2000)), XFin(C1em3), RhoGeneric, XFin(RFrac(1, 4)), XFin(RHalf), XFin(R1), XFin(RFromInt(3))}
NegReps == {XFin(RFromInt(-2)), XFin(RFrac(-1, 2))}
AllReps == PosReps \cup NegReps \cup {XFin(R0), XNaN, XPInf, XNInf}

\* A2: sign class of actu_red = 1 - (cost(xp)/r_n)^2 given the cost levels (r_n /= 0):
\* strictly smaller level -> positive, strictly larger -> negative, same level -> anything finite (rounding)
ActuClasses(c, cp) ==
  IF c = 0 THEN (IF cp = 0 THEN {"nan"} ELSE {"ninf"})         \* 1 - (x/0)^2
  ELSE IF ~AssumeA2 THEN {"neg", "zero", "pos"}
  ELSE IF cp < c THEN {"pos"} ELSE IF cp > c THEN {"neg"} ELSE {"neg", "zero", "pos"}

\* TieRho: rho = actu_red / pred_red in IEEE arithmetic, abstracted to the representatives
RhoGiven(actu, pred) ==
  IF actu = "nan" \/ pred = "nan" THEN {XNaN}
  ELSE IF pred = "zero" THEN
         (IF actu = "zero" THEN {XNaN} ELSE IF actu = "pos" THEN {XPInf} ELSE {XNInf})
  ELSE IF actu = "zero" THEN {XFin(R0)}
  ELSE IF actu = "ninf" THEN (IF pred = "pos" THEN {XNInf} ELSE {XPInf})
  ELSE IF (actu = "pos") = (pred = "pos") THEN PosReps ELSE NegReps

Outcomes(c) ==
  { o \in [cp : 0..Levels, pred : PredClasses, actu : {"neg", "zero", "pos", "nan", "ninf"},
           rho : AllReps, ftest : BOOLEAN, ptest : BOOLEAN] :
      /\ o.actu \in ActuClasses(c, o.cp)
      /\ (AssumeA3 /\ c = 0) => o.cp = c
      /\ TieRho => o.rho \in RhoGiven(o.actu, o.pred)
      \* the Ftol test needs finite operands and rho <= 2
      /\ o.ftest => (o.actu \in {"neg", "zero", "pos"} /\ o.pred /= "nan" /\ XLe(o.rho, R2)) }
\* constant table (TLC evaluates a zero-arity constant definition once)
OutcomeTable == [c \in 0..Levels |-> Outcomes(c)]
OutcomeByRho == [c \in 0..Levels |-> [r \in AllReps |-> {o \in OutcomeTable[c] : o.rho = r}]]
RegimeOf == [r \in AllReps |-> CeresRegime(r)]
DisneyTakes == [r \in AllReps |-> XGt(r, RhoThreshold("disney"))]

\* the abstract strategy step is the coded one (checked by TLC at start-up on a box of states x all representatives)
AbsBox == {[kind |-> kd, e3 |-> a, e2 |-> b, eg |-> g, k |-> kk] :
             kd \in Kinds, a \in {-2, 0, 1}, b \in {-3, 0, 2, 5}, g \in {0, 1}, kk \in {1, 2, 4}}
SameStrat(s, t) == s.kind = t.kind /\ REq(s.delta, t.delta) /\ (s.kind = "ceres" => REq(s.reduce, t.reduce))
StepCommutes ==
  /\ \A r \in AllReps : RegimeOf[r] /= "unknown"
  /\ \A kd \in Kinds : SameStrat(Conc(AbsInit(kd)), StratInit(kd))
  /\ \A a \in AbsBox : \A r \in AllReps :
        LET u == AbsStep(a, r)  v == StratStep(Conc(a), r)
        IN u.take = v.take /\ SameStrat(Conc(u.s), v.s)
  /\ \A a \in AbsBox : SameStrat(Conc(AbsReset(a)), StratReset(Conc(a)))
ASSUME StepCommutes

---------------------------------------------------------------------------
VARIABLES
  run,      \* index of the current run
  pc,       \* "start" (before the initial callback), "loop", "exit" (returned), "done" (all runs over)
  iter, status, strat, fresh,
  x,        \* identity of the iterate held by the caller's arguments (x in the code IS the arguments)
  cost,     \* cost level at x
  ncb, cbX, cbCost,   \* callbacks of this run: how many, iterate and cost of the last one
  mono,     \* all callbacks of this run so far had non-increasing cost
  nacc,     \* accepted steps of this run
  fired,    \* a convergence test fired in this run
  result,   \* status returned by the run ("-" while running)
  exitStrat \* strategy state when the previous run returned
vars == <<run, pc, iter, status, strat, fresh, x, cost, ncb, cbX, cbCost, mono, nacc, fired, result, exitStrat>>

Init ==
  /\ run = 1 /\ pc = "start" /\ iter = 0 /\ status = "none"
  \* the first run already may get a strategy object that some earlier solve left in a non-initial state
  /\ \E k \in Kinds : \E s0 \in Arrivals(k) : strat = s0 /\ exitStrat = s0 /\ fresh = (s0 = AbsInit(k))
  /\ x = 0 /\ cost \in 0..Levels
  /\ ncb = 0 /\ cbX = -1 /\ cbCost = 0 /\ mono = TRUE /\ nacc = 0 /\ fired = FALSE /\ result = "-"

\* opts.strat->reset(); std::apply(cb, x) on the initial value
Start ==
  /\ pc = "start"
  /\ strat' = AbsReset(strat)
  /\ pc' = "loop" /\ ncb' = 1 /\ cbX' = x /\ cbCost' = cost
  /\ UNCHANGED <<run, iter, status, fresh, x, cost, mono, nacc, fired, result, exitStrat>>

\* one pass through the loop body
\* (upd is passed as an argument so that TLC evaluates the strategy update once per rho)
IterateWith(upd, os) ==
  \E o \in os :
       LET acc == Accept(cost = 0, o.actu \in {"zero", "pos"}, o.pred \in {"neg", "zero"}, upd.take)
           st2 == StatusOf(acc, o.ftest, o.ptest)
       IN /\ strat' = upd.s
          /\ IF acc
             THEN /\ x' = x + 1 /\ cost' = o.cp
                  /\ ncb' = ncb + 1 /\ cbX' = x + 1 /\ cbCost' = o.cp
                  /\ mono' = (mono /\ o.cp <= cbCost)
                  /\ nacc' = nacc + 1
             ELSE /\ (IF Variant = "assign_before_test" THEN x' = x + 1 /\ cost' = o.cp ELSE UNCHANGED <<x, cost>>)
                  /\ UNCHANGED <<ncb, cbX, cbCost, mono, nacc>>
          /\ status' = st2
          /\ fired' = (fired \/ st2 /= "none")
Iterate ==
  /\ pc = "loop" /\ LoopContinues(iter, MaxIter, status)
  /\ \E rho \in AllReps : IterateWith(AbsStepRegime(strat, RegimeOf[rho], DisneyTakes[rho]), OutcomeByRho[cost][rho])
  /\ iter' = iter + 1
  /\ UNCHANGED <<run, pc, fresh, result, exitStrat>>

\* return {status.value_or(MaxIters), iter}
Exit ==
  /\ pc = "loop" /\ ~LoopContinues(iter, MaxIter, status)
  /\ pc' = "exit" /\ result' = ResultOf(status) /\ exitStrat' = strat
  /\ UNCHANGED <<run, iter, status, strat, fresh, x, cost, ncb, cbX, cbCost, mono, nacc, fired>>

\* the caller starts another problem, with a fresh strategy object or with the same one
NextRun ==
  /\ pc = "exit"
  /\ IF run < Runs
     THEN /\ run' = run + 1 /\ pc' = "start" /\ iter' = 0 /\ status' = "none"
          /\ \E f \in BOOLEAN : fresh' = f /\ strat' = IF f THEN AbsInit(strat.kind) ELSE strat
          /\ x' = 0 /\ cost' \in 0..Levels
          /\ ncb' = 0 /\ cbX' = -1 /\ cbCost' = 0 /\ mono' = TRUE /\ nacc' = 0 /\ fired' = FALSE /\ result' = "-"
          /\ UNCHANGED exitStrat
     ELSE /\ pc' = "done"
          /\ UNCHANGED <<run, iter, status, strat, fresh, x, cost, ncb, cbX, cbCost, mono, nacc, fired, result, exitStrat>>

Next == Start \/ Iterate \/ Exit \/ NextRun
Spec == Init /\ [][Next]_vars /\ WF_vars(Next)

---------------------------------------------------------------------------
\* properties
TypeOK ==
  /\ pc \in {"start", "loop", "exit", "done"} /\ iter \in 0..(MaxIter + 1)
  /\ status \in {"none", "Ftol", "Ptol"} /\ result \in {"-", "Ftol", "Ptol", "MaxIters"}

\* C09.bound: at most max_iter iterations
Bound == iter <= MaxIter

\* C09.status: MaxIters exactly when no convergence test fired, and then all max_iter iterations were made
StatusContract ==
  pc \in {"exit", "done"} =>
    /\ (result = "MaxIters") <=> ~fired
    /\ result = "MaxIters" => iter = MaxIter
    /\ result /= "MaxIters" => result = status

\* C09.final: callbacks = initial point + one per accepted step; the arguments hold the last callback iterate
Callbacks ==
  /\ pc /= "start" => (ncb = 1 + nacc /\ cbX = x /\ cbCost = cost)

\* C09.monotone: callback costs never increase (needs A2 and A3, nothing else)
Monotone == mono

\* C09.strategy: radius positive, reduce factor a power of two >= 2, reset to 2 by every successful Ceres step
StratInv ==
  /\ strat.k >= 1 /\ strat.eg >= 0
  /\ strat.kind = "disney" => (strat.e2 >= 0 /\ strat.e3 = 0 /\ strat.eg = 0 /\ strat.k = 1)
\* Ceres: an unsuccessful step divides the radius by the reduce factor and doubles the factor; every
\* successful step restarts the factor at 2
ReduceRestart ==
  [][(strat.kind = "ceres" /\ pc = "loop" /\ pc' = "loop" /\ strat' /= strat)
       => ((strat'.k = strat.k + 1 /\ strat'.e2 = strat.e2 + strat.k) \/ strat'.k = 1)]_vars
\* a re-used object enters minimize with the state the previous run left in it, a new one with the initial state ...
Carried ==
  (pc = "start" /\ run > 1 /\ ~fresh) => strat = exitStrat
FreshInit ==
  (pc = "start" /\ fresh) => strat = AbsInit(strat.kind)
\* ... and every run starts iterating from the initial strategy state (reset on entry), whatever arrived
FreshAtStart ==
  (pc = "loop" /\ iter = 0) => strat = AbsInit(strat.kind)

\* Reachability witnesses: each of these "invariants" must be VIOLATED (the driver checks that TLC finds a
\* behaviour reaching the situation), so that no property above holds vacuously.
NeverFtol == result /= "Ftol"
NeverPtol == result /= "Ptol"
NeverMaxIters == result /= "MaxIters"
NeverRejected == ~(pc = "loop" /\ nacc < iter)
NeverAcceptedAtZeroResidual == ~(pc = "loop" /\ cost = 0 /\ nacc > 0)
NeverDirtyArrival == ~(pc = "start" /\ run = 2 /\ ~fresh /\ strat /= AbsInit(strat.kind))
\* an iteration that is rejected although the strategy grows the radius (pred_red < 0, actu_red < 0, rho > 0):
\* neither cost nor radius is a variant of the loop - only the iteration count is
NeverRejectedWhileRadiusGrows ==
  [][~(pc = "loop" /\ iter' = iter + 1 /\ nacc' = nacc /\ strat.kind = "ceres" /\ strat'.e3 > strat.e3)]_vars

\* every run returns.  Termination is the temporal statement (checked with the liveness checker on the small
\* configuration Minimize_live.cfg); Decreases + NotStuck is its safety-style proof by a ranking function, cheap
\* enough for every configuration: every step strictly decreases Rank and a step is possible until "done".
Termination == <>(pc = "done")
RankK == MaxIter + 6
Rank ==
  (Runs - run) * RankK +
  (CASE pc = "start" -> MaxIter + 5 [] pc = "loop" -> MaxIter + 4 - iter [] pc = "exit" -> 1 [] pc = "done" -> 0)
Decreases == [][Rank' < Rank]_vars
NotStuck == (pc /= "done") => ENABLED Next
=============================================================================
