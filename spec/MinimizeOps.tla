----------------------------- MODULE MinimizeOps -----------------------------
(* Constant-level operators of the design model of smooth::minimize (see          *)
(* Minimize.tla): extended reals with the comparison semantics of C++ doubles,    *)
(* the two trust-region strategies AS CODED in optim/tr_strategy.hpp, and the     *)
(* decisions of the loop of optim.hpp (acceptance rule, Ftol test, status         *)
(* selection, loop condition, returned status).  Minimize.tla builds the state    *)
(* machine from them; TraceOptim.tla applies the same operators to the logged     *)
(* fields of every real iteration.                                                *)
EXTENDS Tol, TLC

CONSTANT Variant   \* "coded", or the name of a seeded model mutant (see Minimize.tla)

---------------------------------------------------------------------------
\* extended reals (IEEE doubles seen as rationals plus NaN and the infinities)
XNaN == [k |-> "nan"]
XPInf == [k |-> "pinf"]
XNInf == [k |-> "ninf"]
XFin(v) == [k |-> "fin", v |-> v]
\* C++ comparison semantics: every comparison with NaN is false
XGt(x, c) == IF x.k = "fin" THEN RLt(c, x.v) ELSE x.k = "pinf"
XLt(x, c) == IF x.k = "fin" THEN RLt(x.v, c) ELSE x.k = "ninf"
XLe(x, c) == IF x.k = "fin" THEN RLeq(x.v, c) ELSE x.k = "ninf"
XGe(x, c) == IF x.k = "fin" THEN RLeq(c, x.v) ELSE x.k = "pinf"
XIsZero(x) == x.k = "fin" /\ RSign(x.v) = 0
XAbsLt(x, c) == x.k = "fin" /\ RLt(RAbs(x.v), c)

\* the double nearest to 0.001 (the literal 1e-3 of tr_strategy.hpp): 0x10624DD2F1A9FC * 2^-62
C1em3 == RFromDouble(<<1, 34359738, 49392124, -62>>)
\* the double nearest to 1/3 (the literal 1. / 3) differs from 1/3 by 2e-17 relative: immaterial at 1e-12
OneThird == RFrac(1, 3)
RCube(x) == RMul(x, RMul(x, x))

---------------------------------------------------------------------------
\* trust-region strategies as coded.  State: [kind, delta, reduce] (reduce unused by Disney)
StratInit(kind) ==
  IF kind = "ceres" THEN [kind |-> "ceres", delta |-> RFromInt(10000), reduce |-> R2]
  ELSE [kind |-> "disney", delta |-> RFromInt(1000), reduce |-> R2]

\* Ceres: divisor of the radius after a successful step:  max(1/3, 1 - (2 rho - 1)^3)
CeresDen(rho) ==
  IF rho.k = "pinf" THEN OneThird
  ELSE RMax(OneThird, RSub(R1, RCube(RSub(RMul(R2, rho.v), R1))))

RhoThreshold(kind) == IF kind = "ceres" THEN C1em3 ELSE R0

\* step_and_update(rho): returns take_step and the new state
StratStep(s, rho) ==
  IF s.kind = "ceres" THEN
    IF XGt(rho, RhoThreshold("ceres"))
    THEN [take |-> TRUE,
          s |-> [kind |-> "ceres", delta |-> RDiv(s.delta, CeresDen(rho)),
                 reduce |-> IF Variant = "reduce_not_reset" THEN s.reduce ELSE R2]]
    ELSE [take |-> FALSE,
          s |-> [kind |-> "ceres", delta |-> RDiv(s.delta, s.reduce), reduce |-> RMul(R2, s.reduce)]]
  ELSE
    IF XGt(rho, RhoThreshold("disney"))
    THEN [take |-> TRUE, s |-> [kind |-> "disney", delta |-> RFromInt(1000), reduce |-> s.reduce]]
    ELSE [take |-> FALSE, s |-> [kind |-> "disney", delta |-> RDiv(s.delta, RFromInt(10)), reduce |-> s.reduce]]

\* the acceptance rule of optim.hpp:  r_n == 0 || (actu_red >= 0 && (pred_red <= 0 || take_step))
\* ("accept_pred_red_only" is the rule before the repair f247895:  r_n == 0 || pred_red <= 0 || take_step)
Accept(rnZero, actuGe0, predLe0, take) ==
  IF Variant = "accept_always" THEN TRUE
  ELSE IF Variant = "accept_pred_red_only" THEN rnZero \/ predLe0 \/ take
  ELSE rnZero \/ (actuGe0 /\ (predLe0 \/ take))

\* reset() called by minimize on entry: the initial state of the kind ("no_reset": the call is missing)
StratReset(s) == IF Variant = "no_reset" THEN s ELSE StratInit(s.kind)

\* status chosen in an iteration (only looked at after an accepted step): Ftol test first, then Ptol
StatusOf(accepted, ftest, ptest) ==
  IF ~accepted THEN "none" ELSE IF ftest THEN "Ftol" ELSE IF ptest THEN "Ptol" ELSE "none"

\* the Ftol test:  |actu_red| < ftol && pred_red < ftol && rho <= 2   (false as soon as one operand is NaN)
FtolTest(actu, pred, rho, ftol) == XAbsLt(actu, ftol) /\ XLt(pred, ftol) /\ XLe(rho, R2)

\* loop condition  iter < max_iter && !status.has_value()
LoopContinues(it, maxIter, stat) ==
  (IF Variant = "loop_le" THEN it <= maxIter ELSE it < maxIter) /\ stat = "none"

\* value returned:  status.value_or(MaxIters)
ResultOf(stat) ==
  IF stat /= "none" THEN stat ELSE IF Variant = "status_default_ptol" THEN "Ptol" ELSE "MaxIters"

=============================================================================
