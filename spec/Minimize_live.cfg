\* Exhaustive configuration of the design model of smooth::minimize: max_iter = 4, both strategies, every
\* combination of the abstract environment outcomes, cost levels 0..2, assumptions A2, A3 in force, rho arbitrary (TieRho = FALSE).
\* Minimize_shared.cfg: two consecutive runs on a fresh or shared strategy object (max_iter = 2; thorough tier 3).
\* Minimize_live.cfg: the temporal property Termination on a small instance.  The driver also writes mutant
\* configurations (Variant /= "coded", or an assumption dropped) that TLC must reject.
CONSTANTS
  MaxIter = 2
  Runs = 1
  Levels = 1
  Kinds = {"ceres", "disney"}
  Variant = "coded"
  AssumeA2 = TRUE
  AssumeA3 = TRUE
  TieRho = FALSE
SPECIFICATION Spec
INVARIANT TypeOK
INVARIANT Bound
INVARIANT StatusContract
INVARIANT Callbacks
INVARIANT Monotone
INVARIANT StratInv
INVARIANT Carried
INVARIANT FreshAtStart
INVARIANT FreshInit
INVARIANT NotStuck
PROPERTY Decreases
PROPERTY ReduceRestart
PROPERTY Termination
CHECK_DEADLOCK FALSE
