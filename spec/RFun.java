// TLC module override for RFun.tla: the two heavy kernels ExpAt and ExpPhiAt.
// Same algorithm, same roundings, same error-bound formulas as the TLA+ definitions in RFun.tla
// (results are identical tuples; tools/selftest_rfun.sh compares them).  Accelerator only.
import java.math.BigInteger;
import tlc2.value.impl.IntValue;
import tlc2.value.impl.TupleValue;
import tlc2.value.impl.Value;

public class RFun {
  static BigRat.Q q(long v) { return BigRat.Q.of(v); }
  static BigRat.Q pow2(int e) {
    return e >= 0 ? new BigRat.Q(BigInteger.ONE.shiftLeft(e), BigInteger.ONE)
                  : new BigRat.Q(BigInteger.ONE, BigInteger.ONE.shiftLeft(-e));
  }
  static BigRat.Q normInf(BigRat.Q[][] a) {
    BigRat.Q m = q(0);
    for (BigRat.Q[] row : a) { BigRat.Q s = q(0); for (BigRat.Q x : row) s = s.add(x.abs()); if (s.cmp(m) > 0) m = s; }
    return m;
  }
  static int log2Floor(BigRat.Q x) {
    BigRat.Q a = x.abs();
    int e = a.n.bitLength() - a.d.bitLength();
    if (a.cmp(pow2(e)) < 0) e -= 1;
    return e;
  }
  static int scaleOf(BigRat.Q[][] a) {
    BigRat.Q nrm = normInf(a);
    if (nrm.n.signum() == 0) return 0;
    int e = log2Floor(nrm) + 2;
    return e < 0 ? 0 : e;
  }
  static BigRat.Q[][] id(int n) {
    BigRat.Q[][] r = new BigRat.Q[n][n];
    for (int i = 0; i < n; i++) for (int j = 0; j < n; j++) r[i][j] = q(i == j ? 1 : 0);
    return r;
  }
  static BigRat.Q[][] scaleRound(BigRat.Q[][] a, BigRat.Q s, int bits) {
    int n = a.length, m = n == 0 ? 0 : a[0].length;
    BigRat.Q[][] r = new BigRat.Q[n][m];
    for (int i = 0; i < n; i++) for (int j = 0; j < m; j++) r[i][j] = a[i][j].mulRound(s, bits);
    return r;
  }
  static BigRat.Q[][] add(BigRat.Q[][] a, BigRat.Q[][] b) {
    int n = a.length, m = n == 0 ? 0 : a[0].length;
    BigRat.Q[][] r = new BigRat.Q[n][m];
    for (int i = 0; i < n; i++) for (int j = 0; j < m; j++) r[i][j] = a[i][j].add(b[i][j]);
    return r;
  }
  static BigRat.Q fact(int n) { BigRat.Q f = q(1); for (int i = 2; i <= n; i++) f = f.mul(q(i)); return f; }
  static BigRat.Q taylorErr(int n, int P, int NT) {
    return q((long) NT * n).mul(pow2(-P)).add(pow2(-NT - log2Floor(fact(NT + 1))));
  }
  static BigRat.Q up(BigRat.Q x, int P) { return x.round(P + 200).add(pow2(-(P + 200))); }

  public static Value ExpAt(Value A, Value Pv, Value NTv) {
    BigRat.Q[][] a = BigRat.decMat(A);
    int P = ((IntValue) Pv).val, NT = ((IntValue) NTv).val, n = a.length;
    int s = scaleOf(a);
    BigRat.Q sc = pow2(-s);
    BigRat.Q[][] B = new BigRat.Q[n][n];
    for (int i = 0; i < n; i++) for (int j = 0; j < n; j++) B[i][j] = a[i][j].mul(sc);
    BigRat.Q[][] term = id(n), esum = id(n);
    for (int k = 1; k <= NT; k++) {
      term = scaleRound(BigRat.mm(term, B), q(1).div(q(k)), P);
      esum = add(esum, term);
    }
    BigRat.Q eE = taylorErr(n, P, NT);
    BigRat.Q rnd = q(n).mul(pow2(-(P + 1)));
    BigRat.Q[][] E = esum;
    for (int j = 0; j < s; j++) {
      eE = up(q(2).mul(normInf(E)).mul(eE).add(q(3).mul(eE.mul(eE))).add(rnd), P);
      E = scaleRound(BigRat.mm(E, E), q(1), P);
    }
    return new TupleValue(new Value[] {BigRat.encMat(E), BigRat.enc(eE)});
  }

  public static Value ExpPhiAt(Value A, Value Pv, Value NTv) {
    BigRat.Q[][] a = BigRat.decMat(A);
    int P = ((IntValue) Pv).val, NT = ((IntValue) NTv).val, n = a.length;
    int s = scaleOf(a);
    BigRat.Q sc = pow2(-s);
    BigRat.Q[][] B = new BigRat.Q[n][n];
    for (int i = 0; i < n; i++) for (int j = 0; j < n; j++) B[i][j] = a[i][j].mul(sc);
    BigRat.Q[][] term = id(n), esum = id(n), pterm = id(n), psum = id(n);
    for (int k = 1; k <= NT; k++) {
      term = scaleRound(BigRat.mm(term, B), q(1).div(q(k)), P);
      pterm = scaleRound(BigRat.mm(pterm, B), q(1).div(q(k + 1)), P);
      esum = add(esum, term);
      psum = add(psum, pterm);
    }
    BigRat.Q eE = taylorErr(n, P, NT), eP = eE;
    BigRat.Q rnd = q(n).mul(pow2(-(P + 1)));
    BigRat.Q half = pow2(-1);
    BigRat.Q[][] E = esum, Ph = psum, I = id(n);
    for (int j = 0; j < s; j++) {
      BigRat.Q nE = normInf(E), nP = normInf(Ph);
      BigRat.Q eE2 = up(q(2).mul(nE).mul(eE).add(q(3).mul(eE.mul(eE))).add(rnd), P);
      BigRat.Q eP2 = up(half.mul(nE.add(q(1)).mul(eP).add(nP.mul(eE)).add(q(2).mul(eE.mul(eP)))).add(rnd), P);
      BigRat.Q[][] P2 = scaleRound(BigRat.mm(Ph, add(E, I)), half, P);
      BigRat.Q[][] E2 = scaleRound(BigRat.mm(E, E), q(1), P);
      E = E2; Ph = P2; eE = eE2; eP = eP2;
    }
    return new TupleValue(new Value[] {BigRat.encMat(E), BigRat.encMat(Ph), BigRat.enc(eE), BigRat.enc(eP)});
  }
}
