-------------------------------- MODULE RFun --------------------------------
(* Matrix functions over exact rationals with explicit rounding:               *)
(*   ExpM(A)   = sum_k A^k / k!                                                *)
(*   Phi1M(A)  = sum_k A^k / (k+1)!      (so that dr_exp(a) = Phi1M(-ad a))     *)
(*   DPhi1M(A,E), DExpM(A,E) = directional (Frechet) derivatives, obtained      *)
(*   from f([[A,E],[0,A]]) = [[f(A), Df(A)[E]], [0, f(A)]].                     *)
(* Method: scale A by 2^-s so that the infinity norm is <= 1/2, sum NTerms      *)
(* Taylor terms (remainder < 2^-200), undo the scaling by squaring /           *)
(* the doubling rule Phi1(2X) = Phi1(X)(Exp(X)+I)/2.  Every product is rounded *)
(* to a multiple of 2^-Prec.  For the operands used by the trace specs         *)
(* (norm <= 2^13, s <= 15) the accumulated absolute error is below 2^-150,     *)
(* far under every tolerance it is compared with (>= 1e-15).                   *)
EXTENDS RLin

Prec == 320
NTerms == 45

ScaleOf(A) ==
  LET nrm == NormInf(A)
  IN IF RSign(nrm) = 0 THEN 0
     ELSE LET e == RLog2Floor(nrm) + 2 IN IF e < 0 THEN 0 ELSE e

\* term = B^(k-1)/(k-1)!  (exp)   ;  pterm = B^(k-1)/k!  (phi1)
RECURSIVE ExpPhiTaylor(_, _, _, _, _, _)
ExpPhiTaylor(B, term, esum, pterm, psum, k) ==
  IF k > NTerms THEN <<esum, psum>>
  ELSE LET t == MRound(MScale(RFrac(1, k), MMul(term, B)), Prec)
           p == MRound(MScale(RFrac(1, k + 1), MMul(pterm, B)), Prec)
       IN ExpPhiTaylor(B, t, MAdd(esum, t), p, MAdd(psum, p), k + 1)

RECURSIVE ExpOnlyTaylor(_, _, _, _)
ExpOnlyTaylor(B, term, esum, k) ==
  IF k > NTerms THEN esum
  ELSE LET t == MRound(MScale(RFrac(1, k), MMul(term, B)), Prec)
       IN ExpOnlyTaylor(B, t, MAdd(esum, t), k + 1)

RECURSIVE SquareN(_, _)
SquareN(E, s) == IF s = 0 THEN E ELSE SquareN(MRound(MMul(E, E), Prec), s - 1)

\* <<E, P>> for X  ->  <<E, P>> for 2X
RECURSIVE DoubleN(_, _, _)
DoubleN(E, P, s) ==
  IF s = 0 THEN <<E, P>>
  ELSE LET n == Rows(E)
           P2 == MRound(MScale(RHalf, MMul(P, MAdd(E, MId(n)))), Prec)
           E2 == MRound(MMul(E, E), Prec)
       IN DoubleN(E2, P2, s - 1)

ExpM(A) ==
  LET n == Rows(A)
      s == ScaleOf(A)
      B == MScale(RPow2(-s), A)
  IN SquareN(ExpOnlyTaylor(B, MId(n), MId(n), 1), s)

ExpPhiM(A) ==
  LET n == Rows(A)
      s == ScaleOf(A)
      B == MScale(RPow2(-s), A)
      tp == ExpPhiTaylor(B, MId(n), MId(n), MId(n), MId(n), 1)
  IN DoubleN(tp[1], tp[2], s)

Phi1M(A) == ExpPhiM(A)[2]

\* directional derivatives via the block upper-triangular identity
DPhi1M(A, E) ==
  LET n == Rows(A)
      big == Block2(A, E, MZero(n, n), A)
  IN Block(Phi1M(big), 1, n + 1, n, n)

DExpM(A, E) ==
  LET n == Rows(A)
      big == Block2(A, E, MZero(n, n), A)
  IN Block(ExpM(big), 1, n + 1, n, n)

\* both Phi1M(A) and the directional derivative from one evaluation
Phi1AndD(A, E) ==
  LET n == Rows(A)
      big == Block2(A, E, MZero(n, n), A)
      P == Phi1M(big)
  IN <<Block(P, 1, 1, n, n), Block(P, 1, n + 1, n, n)>>

\* pi to 60 decimals as an enclosure [PiLo, PiHi]
PiDigits == <<141592, 653589, 793238, 462643, 383279, 502884, 197169, 399375, 105820, 974944>>
RECURSIVE PiAcc(_, _, _)
PiAcc(k, scale, acc) ==
  IF k > Len(PiDigits) THEN acc
  ELSE LET sc == RDiv(scale, RFromInt(1000000))
       IN PiAcc(k + 1, sc, RAdd(acc, RMul(RFromInt(PiDigits[k]), sc)))
PiLoC == PiAcc(1, R1, RFromInt(3))
PiEps == RDiv(R1, RPowInt(RFromInt(1000000), 10))
PiLo == PiLoC
PiHi == RAdd(PiLoC, PiEps)

\* <<sin x, cos x>> from the matrix exponential of the plane rotation generator
SinCos(x) ==
  LET E == ExpM(<< <<R0, RNeg(x)>>, <<x, R0>> >>)
  IN <<E[2][1], E[1][1]>>

\* enclosure of sqrt(q), q >= 0: <<lo, hi>> with hi - lo = 2^-bits, by bisection on the integer grid
RECURSIVE SqrtBisect(_, _, _, _)
SqrtBisect(q, lo, step, bits) ==
  \* invariant: lo^2 <= q < (lo + 2*step)^2 ; step halves down to 2^-bits
  IF RLt(step, RPow2(-bits)) THEN lo
  ELSE LET mid == RAdd(lo, step)
       IN IF RLeq(RSq(mid), q) THEN SqrtBisect(q, mid, RMul(step, RHalf), bits)
          ELSE SqrtBisect(q, lo, RMul(step, RHalf), bits)
SqrtLo(q, bits) ==
  IF RSign(q) = 0 THEN R0
  ELSE LET e == (RLog2Floor(q) \div 2) + 1   \* sqrt(q) < 2^e
       IN SqrtBisect(q, R0, RPow2(e - 1), bits)
SqrtHi(q, bits) == RAdd(SqrtLo(q, bits), RPow2(-bits))
=============================================================================
