-------------------------------- MODULE RFun --------------------------------
(* Matrix functions over exact rationals with explicit rounding:               *)
(*   ExpM(A)   = sum_k A^k / k!                                                *)
(*   Phi1M(A)  = sum_k A^k / (k+1)!      (so that dr_exp(a) = Phi1M(-ad a))     *)
(*   DPhi1M(A,E), DExpM(A,E) = directional (Frechet) derivatives, obtained      *)
(*   from f([[A,E],[0,A]]) = [[f(A), Df(A)[E]], [0, f(A)]].                     *)
(* Method: scale A by 2^-s so that the infinity norm is <= 1/2, sum NT Taylor   *)
(* terms, undo the scaling by squaring / the doubling rule                      *)
(* Phi1(2X) = Phi1(X)(Exp(X)+I)/2.  Every product is rounded to a multiple of   *)
(* 2^-P and a rigorous bound of the accumulated error is carried along;         *)
(* precision and term count are raised until the bound is below 2^-128.         *)
EXTENDS RLin

\* ---- certified evaluation -------------------------------------------------
\* ExpAt / ExpPhiAt evaluate at a given working precision P (bits after the binary point) and
\* number of Taylor terms NT and return, next to the matrices, rigorous bounds (infinity norm)
\* on their absolute errors, tracked through every rounding, the truncation of the series and
\* every squaring / doubling step.  ExpCert / ExpPhiCert raise P and NT until the bounds are
\* below 2^-TargetBits.  RFun.class (Java) overrides ExpAt and ExpPhiAt with the same algorithm
\* (bit-identical results, checked by tools/selftest_rfun.sh); the definitions below are the meaning.

TargetBits == 128

ScaleOf(A) ==
  LET nrm == NormInf(A)
  IN IF RSign(nrm) = 0 THEN 0
     ELSE LET e == RLog2Floor(nrm) + 2 IN IF e < 0 THEN 0 ELSE e

RECURSIVE RFact(_)
RFact(n) == IF n <= 1 THEN R1 ELSE RMul(RFromInt(n), RFact(n - 1))
\* error of the Taylor stage for || B || <= 1/2 :  NT roundings of n 2^-(P+1) each, propagated through
\* factors of norm <= 1/2, plus the truncated tail  sum_{k > NT} (1/2)^k / k!  <=  2 (1/2)^(NT+1) / (NT+1)!
\* (1/(NT+1)! is bounded by a power of two so that every error bound stays a small dyadic number)
TaylorErr(n, P, NT) ==
  RAdd(RMul(RFromInt(NT * n), RPow2(-P)), RPow2(-NT - RLog2Floor(RFact(NT + 1))))
\* error bounds are rounded UP to a multiple of 2^-(P+200) after every update (keeps them short)
Up(x, P) == RAdd(RRound(x, P + 200), RPow2(-(P + 200)))

\* term = B^(k-1)/(k-1)!  (exp)   ;  pterm = B^(k-1)/k!  (phi1)
RECURSIVE ExpPhiTaylor(_, _, _, _, _, _, _, _)
ExpPhiTaylor(B, term, esum, pterm, psum, k, P, NT) ==
  IF k > NT THEN <<esum, psum>>
  ELSE LET t == MRound(MScale(RFrac(1, k), MMul(term, B)), P)
           p == MRound(MScale(RFrac(1, k + 1), MMul(pterm, B)), P)
       IN ExpPhiTaylor(B, t, MAdd(esum, t), p, MAdd(psum, p), k + 1, P, NT)

RECURSIVE ExpOnlyTaylor(_, _, _, _, _, _)
ExpOnlyTaylor(B, term, esum, k, P, NT) ==
  IF k > NT THEN esum
  ELSE LET t == MRound(MScale(RFrac(1, k), MMul(term, B)), P)
       IN ExpOnlyTaylor(B, t, MAdd(esum, t), k + 1, P, NT)

\* E -> E^2 ; error  2 |E| e + 3 e^2 + n 2^-(P+1)
RECURSIVE SquareN(_, _, _, _)
SquareN(E, eE, s, P) ==
  IF s = 0 THEN <<E, eE>>
  ELSE LET n == Rows(E)
           e2 == Up(RAdd(RAdd(RMul(RMul(R2, NormInf(E)), eE), RMul(RFromInt(3), RSq(eE))),
                         RMul(RFromInt(n), RPow2(-(P + 1)))), P)
       IN SquareN(MRound(MMul(E, E), P), e2, s - 1, P)

\* <<E, Ph>> for X  ->  <<E^2, Ph (E + I) / 2>> for 2X
RECURSIVE DoubleN(_, _, _, _, _, _)
DoubleN(E, Ph, eE, eP, s, P) ==
  IF s = 0 THEN <<E, Ph, eE, eP>>
  ELSE LET n == Rows(E)
           nE == NormInf(E)  nP == NormInf(Ph)
           rnd == RMul(RFromInt(n), RPow2(-(P + 1)))
           eE2 == Up(RAdd(RAdd(RMul(RMul(R2, nE), eE), RMul(RFromInt(3), RSq(eE))), rnd), P)
           eP2 == Up(RAdd(RMul(RHalf, RAdd(RAdd(RMul(RAdd(nE, R1), eP), RMul(nP, eE)), RMul(R2, RMul(eE, eP)))), rnd), P)
           P2 == MRound(MScale(RHalf, MMul(Ph, MAdd(E, MId(n)))), P)
           E2 == MRound(MMul(E, E), P)
       IN DoubleN(E2, P2, eE2, eP2, s - 1, P)

\* <<E, errE>>
ExpAt(A, P, NT) ==
  LET n == Rows(A)
      s == ScaleOf(A)
      B == MScale(RPow2(-s), A)
  IN SquareN(ExpOnlyTaylor(B, MId(n), MId(n), 1, P, NT), TaylorErr(n, P, NT), s, P)

\* <<E, Phi1, errE, errPhi1>>
ExpPhiAt(A, P, NT) ==
  LET n == Rows(A)
      s == ScaleOf(A)
      B == MScale(RPow2(-s), A)
      tp == ExpPhiTaylor(B, MId(n), MId(n), MId(n), MId(n), 1, P, NT)
      e0 == TaylorErr(n, P, NT)
  IN DoubleN(tp[1], tp[2], e0, e0, s, P)

StartPrec(A) == 160 + 12 * ScaleOf(A)
RECURSIVE ExpRetry(_, _, _), ExpPhiRetry(_, _, _)
ExpRetry(A, P, NT) ==
  LET r == ExpAt(A, P, NT)
  IN IF RLeq(r[2], RPow2(-TargetBits)) \/ P > 20000 THEN r ELSE ExpRetry(A, 2 * P, NT + 16)
ExpPhiRetry(A, P, NT) ==
  LET r == ExpPhiAt(A, P, NT)
  IN IF (RLeq(r[3], RPow2(-TargetBits)) /\ RLeq(r[4], RPow2(-TargetBits))) \/ P > 20000 THEN r
     ELSE ExpPhiRetry(A, 2 * P, NT + 16)
ExpCert(A) == ExpRetry(A, StartPrec(A), 40)
ExpPhiCert(A) == ExpPhiRetry(A, StartPrec(A), 40)

\* the matrix functions used by the rest of the specification (absolute error <= 2^-128 per entry)
ExpM(A) == ExpCert(A)[1]
ExpPhiM(A) == LET r == ExpPhiCert(A) IN <<r[1], r[2]>>
Phi1M(A) == ExpPhiCert(A)[2]
\* the certified error bounds themselves (reported in the evidence)
ExpMErr(A) == ExpCert(A)[2]
Phi1MErr(A) == ExpPhiCert(A)[4]

\* directional derivatives via the block upper-triangular identity
DPhi1M(A, E) ==
  LET n == Rows(A)
      big == Block2(A, E, MZero(n, n), A)
  IN Block(Phi1M(big), 1, n + 1, n, n)

DExpM(A, E) ==
  LET n == Rows(A)
      big == Block2(A, E, MZero(n, n), A)
  IN Block(ExpM(big), 1, n + 1, n, n)

\* both Phi1M(A) and the directional derivative from one evaluation
Phi1AndD(A, E) ==
  LET n == Rows(A)
      big == Block2(A, E, MZero(n, n), A)
      P == Phi1M(big)
  IN <<Block(P, 1, 1, n, n), Block(P, 1, n + 1, n, n)>>

\* pi to 60 decimals as an enclosure [PiLo, PiHi]
PiDigits == <<141592, 653589, 793238, 462643, 383279, 502884, 197169, 399375, 105820, 974944>>
RECURSIVE PiAcc(_, _, _)
PiAcc(k, scale, acc) ==
  IF k > Len(PiDigits) THEN acc
  ELSE LET sc == RDiv(scale, RFromInt(1000000))
       IN PiAcc(k + 1, sc, RAdd(acc, RMul(RFromInt(PiDigits[k]), sc)))
PiLoC == PiAcc(1, R1, RFromInt(3))
PiEps == RDiv(R1, RPowInt(RFromInt(1000000), 10))
PiLo == PiLoC
PiHi == RAdd(PiLoC, PiEps)

\* <<sin x, cos x>> from the matrix exponential of the plane rotation generator
SinCos(x) ==
  LET E == ExpM(<< <<R0, RNeg(x)>>, <<x, R0>> >>)
  IN <<E[2][1], E[1][1]>>

\* enclosure of sqrt(q), q >= 0: <<lo, hi>> with hi - lo = 2^-bits, by bisection on the integer grid
RECURSIVE SqrtBisect(_, _, _, _)
SqrtBisect(q, lo, step, bits) ==
  \* invariant: lo^2 <= q < (lo + 2*step)^2 ; step halves down to 2^-bits
  IF RLt(step, RPow2(-bits)) THEN lo
  ELSE LET mid == RAdd(lo, step)
       IN IF RLeq(RSq(mid), q) THEN SqrtBisect(q, mid, RMul(step, RHalf), bits)
          ELSE SqrtBisect(q, lo, RMul(step, RHalf), bits)
SqrtLo(q, bits) ==
  IF RSign(q) = 0 THEN R0
  ELSE LET e == (RLog2Floor(q) \div 2) + 1   \* sqrt(q) < 2^e
       IN SqrtBisect(q, R0, RPow2(e - 1), bits)
SqrtHi(q, bits) == RAdd(SqrtLo(q, bits), RPow2(-bits))
=============================================================================
