-------------------------------- MODULE RLin --------------------------------
(* Exact linear algebra over BigRat rationals.  A vector is a sequence of     *)
(* rationals, a matrix a sequence of rows.  All index ranges start at 1.       *)
EXTENDS Integers, Sequences, BigRat

R0 == RFromInt(0)
R1 == RFromInt(1)
R2 == RFromInt(2)
RHalf == RPow2(-1)
RI(i) == RFromInt(i)
RFrac(p, q) == RDiv(RFromInt(p), RFromInt(q))
RSq(x) == RMul(x, x)

Rows(A) == Len(A)
Cols(A) == IF Len(A) = 0 THEN 0 ELSE Len(A[1])

MkVec(n, F(_)) == RForce([i \in 1..n |-> F(i)])
MkMat(n, m, F(_, _)) == RForce([i \in 1..n |-> [j \in 1..m |-> F(i, j)]])

MZero(n, m) == RForce([i \in 1..n |-> [j \in 1..m |-> R0]])
MId(n) == RForce([i \in 1..n |-> [j \in 1..n |-> IF i = j THEN R1 ELSE R0]])
VZero(n) == RForce([i \in 1..n |-> R0])
VUnit(n, k) == RForce([i \in 1..n |-> IF i = k THEN R1 ELSE R0])

VAdd(u, v) == RForce([i \in 1..Len(u) |-> RAdd(u[i], v[i])])
VSub(u, v) == RForce([i \in 1..Len(u) |-> RSub(u[i], v[i])])
VScale(s, v) == RForce([i \in 1..Len(v) |-> RMul(s, v[i])])
VNeg(v) == RForce([i \in 1..Len(v) |-> RNeg(v[i])])
VDot(u, v) == RDot(u, v)
VNorm2(v) == RDot(v, v)
VMaxAbs(v) == IF Len(v) = 0 THEN R0 ELSE RVecMaxAbs(v)
VSeg(v, from, len) == RForce([i \in 1..len |-> v[from + i - 1]])
VCat(u, v) == u \o v

MMul(A, B) == RMatMul(A, B)
MVec(A, v) == RMatVec(A, v)
MAdd(A, B) == RMatAdd(A, B)
MSub(A, B) == RMatSub(A, B)
MScale(s, A) == RMatScale(s, A)
MNeg(A) == RMatScale(RFromInt(-1), A)
MT(A) == RForce([j \in 1..Cols(A) |-> [i \in 1..Rows(A) |-> A[i][j]]])
MInv(A) == RMatInv(A)
\* inverse rounded to a multiple of 2^-320: used where the operand is itself an enclosure (series results)
MInvD(A) == RMatInvRound(A, 320)
MaxAbs(A) == IF Rows(A) = 0 \/ Cols(A) = 0 THEN R0 ELSE RMatMaxAbs(A)
NormInf(A) == RMatNormInf(A)
MRound(A, bits) == RMatRound(A, bits)
MCol(A, j) == RForce([i \in 1..Rows(A) |-> A[i][j]])
MRow(A, i) == A[i]
MFromCols(cols) == LET cs == RForce(cols) IN RForce([i \in 1..Len(cs[1]) |-> [j \in 1..Len(cs) |-> cs[j][i]]])

\* sub-block of h rows and w columns whose top-left entry is (r, c)
Block(A, r, c, h, w) == RForce([i \in 1..h |-> [j \in 1..w |-> A[r + i - 1][c + j - 1]]])
\* A with the block whose top-left entry is (r, c) replaced by Y
Place(A, r, c, Y) ==
  LET ra == Rows(A)  ca == Cols(A)  ry == Rows(Y)  cy == Cols(Y)
  IN RForce([i \in 1..ra |-> [j \in 1..ca |->
     IF i >= r /\ i < r + ry /\ j >= c /\ j < c + cy THEN Y[i - r + 1][j - c + 1] ELSE A[i][j]]])
\* [[A, B], [C, D]]
Block2(A, B, C, D) ==
  LET ra == Rows(A)  rc == Rows(C)
  IN RForce([i \in 1..(ra + rc) |-> IF i <= ra THEN A[i] \o B[i] ELSE C[i - ra] \o D[i - ra]])

\* block diagonal arrangement of a sequence of square matrices
RECURSIVE BlockDiagAcc(_, _, _)
BlockDiagAcc(blocks, k, acc) ==
  IF k > Len(blocks) THEN acc
  ELSE LET n == Rows(acc)  m == Rows(blocks[k])
       IN BlockDiagAcc(blocks, k + 1, Block2(acc, MZero(n, m), MZero(m, n), blocks[k]))
BlockDiag(blocks) ==
  IF Len(blocks) = 0 THEN <<>> ELSE BlockDiagAcc(blocks, 2, blocks[1])

\* flatten a matrix row-major / column-major to a vector
RECURSIVE FlattenRows(_, _)
FlattenRows(A, k) == IF k > Len(A) THEN <<>> ELSE A[k] \o FlattenRows(A, k + 1)

\* "relative" discrepancies used by the tolerance module
MaxAbsDiff(X, Y) == MaxAbs(MSub(X, Y))
VMaxAbsDiff(x, y) == VMaxAbs(VSub(x, y))

\* integer power
RECURSIVE RPowInt(_, _)
RPowInt(x, n) == IF n = 0 THEN R1 ELSE RMul(x, RPowInt(x, n - 1))
=============================================================================
