\* exhaustive design-model run for C19 (quick tier): Jacobian writers, small scope
CONSTANTS
  Variant = "code"
  Kind = "J"
  MaxLead = 2
  MaxTail = 1
  MaxExtra = 1
  AllowMissing = TRUE
  Scope = "small"
INIT Init
NEXT Next
INVARIANTS TypeOK Frame Structure BlockIsDense PatternComplete FlatEquiv PreNecessary
CHECK_DEADLOCK FALSE
