----------------------------- MODULE SparseHost -----------------------------
(* Design-level model for property C19 (clauses C19.frame, C19.block).         *)
(*                                                                             *)
(* A host sparse matrix is (rows, cols, set of stored positions, value of each *)
(* stored position, compressed flag).  The only Eigen facts used:              *)
(*   coeffRef(r,c) on a stored position returns a reference (no structural     *)
(*     change); on a position that is not stored it INSERTS the position and   *)
(*     leaves the matrix uncompressed;                                         *)
(*   coeffs().setZero() zeroes every stored value;  sp += X re-assigns sp with *)
(*     structure (old structure) u (structure of X), compressed.               *)
(* (both probed on the Eigen 3.4.0 of this sandbox.)                           *)
(*                                                                             *)
(* The writers are structured like include/smooth/detail/lie_group_sparse_impl *)
(* .hpp: a call dr_exp_sparse<G>(sp, a, i0) / d2r_exp_sparse<G>(sp, a, i0) is  *)
(* either a loop of coeffRef writes over the published pattern of a leaf group *)
(* (dense values of the leaf), the diagonal-of-ones loop of a commutative      *)
(* group, or - for a Bundle - one call per part at offset i0 + PartStart.      *)
(* The published Bundle patterns are composed as the code composes them.       *)
(* Groups are abstract: a leaf is a dof and its two patterns (ANY subsets, the *)
(* leaf's dense values are possibly-non-zero exactly on its patterns), a       *)
(* Bundle is a sequence of groups (nesting allowed).                           *)
(*                                                                             *)
(* The abstract specification is the documented meaning only: the Jacobian of  *)
(* a Bundle is block diagonal at prefix-sum offsets; the Hessian is the        *)
(* horizontally stacked layout H[j, i*Dof + k] = d J(i,j) / d a_k; a call at   *)
(* block index i0 into a host with R rows designates the positions             *)
(* (i0+i, i0+j) resp. (i0+j, R*(i0+i) + i0+k).                                 *)
(*                                                                             *)
(* TLC checks, for every host/offset/group in the constants' scope and at      *)
(* every intermediate state of the writer: frame, structure preservation,      *)
(* compression, block = dense, composed pattern complete, recursion = flat     *)
(* write over the composed pattern (the operator the trace spec reuses).       *)
(* Variant # "code" are seeded specification mutants that TLC must reject.     *)
EXTENDS Integers, Sequences, FiniteSets, TLC

CONSTANTS Variant,    \* "code" | "rows_only" | "partdof" | "bundle_drops_i0"
          Kind,       \* "J" (dr_exp / dr_expinv) | "H" (d2r_exp / d2r_expinv) | "AD" (ad_sparse)
          MaxLead,    \* i0 ranges over 0..MaxLead
          MaxTail,    \* rows after the block: 0..MaxTail
          MaxExtra,   \* number of extra stored positions (around / inside the block); additionally "all positions"
          AllowMissing, \* also explore hosts that lack one designated position (precondition violated)
          Scope       \* "small" | "large": which abstract groups are enumerated

---------------------------------------------------------------------------
\* values are symbolic; all of one shape so that TLC can compare them
Val(t, p, i, j, ks) == [t |-> t, p |-> p, i |-> i, j |-> j, ks |-> ks]
Zero == Val("0", <<>>, 0, 0, {})
One == Val("1", <<>>, 0, 0, {})
Old(r, c) == Val("old", <<>>, r, c, {})
DJ(path, i, j) == Val("J", path, i, j, {})      \* dense dr_exp entry (i,j) of the leaf at `path`
DH(path, r, c) == Val("H", path, r, c, {})      \* dense d2r_exp entry (r,c) of the leaf at `path`
Sum(ks) == IF ks = {} THEN Zero ELSE Val("sum", <<>>, 0, 0, ks)   \* sum_k a_k * gen_k[p] over k in ks

---------------------------------------------------------------------------
\* abstract groups
Leaf(d, comm, pj, ph) == [k |-> "L", d |-> d, comm |-> comm, pj |-> pj, ph |-> ph]
Bun(parts) == [k |-> "B", parts |-> parts]

RECURSIVE Dof(_)
RECURSIVE SumDof(_, _)
SumDof(ps, n) == IF n = 0 THEN 0 ELSE SumDof(ps, n - 1) + Dof(ps[n])
Dof(g) == IF g.k = "L" THEN g.d ELSE SumDof(g.parts, Len(g.parts))
PartStart(g, I) == SumDof(g.parts, I - 1)

Sq(n) == (0..(n - 1)) \X (0..(n - 1))
Wide(n) == (0..(n - 1)) \X (0..(n * n - 1))
Diag(n) == {<<i, i>> : i \in 0..(n - 1)}

---------------------------------------------------------------------------
\* PUBLISHED PATTERNS, composed as the code composes them (lie_sparse.hpp, lie_group_sparse_impl.hpp)
RECURSIVE PatJ(_)
PatJ(g) ==
  IF g.k = "L" THEN (IF g.comm THEN Diag(g.d) ELSE g.pj)
  ELSE UNION {LET o == PartStart(g, I) IN {<<o + p[1], o + p[2]>> : p \in PatJ(g.parts[I])} : I \in 1..Len(g.parts)}

RECURSIVE PatH(_)
PatH(g) ==
  IF g.k = "L" THEN (IF g.comm THEN {} ELSE g.ph)
  ELSE UNION {LET o == PartStart(g, I)  pd == Dof(g.parts[I])  n == Dof(g)
                  stride == IF Variant = "partdof" THEN pd ELSE n
              IN {<<o + p[1], stride * (o + (p[2] \div pd)) + o + (p[2] % pd)>> : p \in PatH(g.parts[I])}
             : I \in 1..Len(g.parts)}

---------------------------------------------------------------------------
\* ABSTRACT SPECIFICATION (documented meaning, index-wise; no block/col arithmetic)
\* the leaf that owns tangent index t (0-based) of g: <<path, offset of that leaf in g, leaf>>; bundles are direct products
RECURSIVE Owner(_, _, _, _)
RECURSIVE OwnerIn(_, _, _, _, _)
OwnerIn(g, t, path, off, I) ==
  LET o == PartStart(g, I)  d == Dof(g.parts[I])
  IN IF t < o + d THEN Owner(g.parts[I], t - o, path \o <<I>>, off + o) ELSE OwnerIn(g, t, path, off, I + 1)
Owner(g, t, path, off) == IF g.k = "L" THEN <<path, off, g>> ELSE OwnerIn(g, t, path, off, 1)

\* dense Jacobian entry (i, j): zero across different leaves, the leaf's own entry inside a leaf
DenseJ(g, i, j) ==
  LET oi == Owner(g, i, <<>>, 0)  oj == Owner(g, j, <<>>, 0)
  IN IF oi[1] # oj[1] THEN Zero
     ELSE LET lf == oi[3]  li == i - oi[2]  lj == j - oi[2]
          IN IF lf.comm THEN (IF li = lj THEN One ELSE Zero)
             ELSE IF <<li, lj>> \in lf.pj THEN DJ(oi[1], li, lj) ELSE Zero
\* dense Hessian entry: H[j, i*n + k] = d J(i,j) / d a_k : zero unless i, j, k belong to the same leaf
DenseHijk(g, i, j, k) ==
  LET oi == Owner(g, i, <<>>, 0)  oj == Owner(g, j, <<>>, 0)  ok == Owner(g, k, <<>>, 0)
  IN IF oi[1] # oj[1] \/ oi[1] # ok[1] THEN Zero
     ELSE LET lf == oi[3]  o == oi[2]  d == lf.d
              r == j - o  c == (i - o) * d + (k - o)
          IN IF lf.comm THEN Zero ELSE IF <<r, c>> \in lf.ph THEN DH(oi[1], r, c) ELSE Zero
DenseH(g, r, c) == LET n == Dof(g) IN DenseHijk(g, c \div n, r, c % n)

Pat(g) == IF Kind = "J" THEN PatJ(g) ELSE PatH(g)
Dense(g, p) == IF Kind = "J" THEN DenseJ(g, p[1], p[2]) ELSE DenseH(g, p[1], p[2])
Shape(g) == IF Kind = "J" THEN Sq(Dof(g)) ELSE Wide(Dof(g))

\* documented designation of block positions in a host with R rows (i0 = block index for rows and columns)
HostPosJ(i0, p) == <<i0 + p[1], i0 + p[2]>>
HostPosH(R, n, i0, p) == <<i0 + p[1], R * (i0 + (p[2] \div n)) + i0 + (p[2] % n)>>
HostPos(R, n, i0, p) == IF Kind = "J" THEN HostPosJ(i0, p) ELSE HostPosH(R, n, i0, p)

---------------------------------------------------------------------------
\* HOSTS
Host(rows, cols, st, val, comp) == [rows |-> rows, cols |-> cols, st |-> st, val |-> val, comp |-> comp]
\* Eigen's coeffRef followed by an assignment
CoeffRefWrite(h, pos, v) ==
  IF pos \in h.st THEN [h EXCEPT !.val[pos] = v]
  ELSE [h EXCEPT !.st = @ \cup {pos}, !.val = (pos :> v) @@ @, !.comp = FALSE]
\* a sequence of writes <<pos, v>> applied in order
RECURSIVE WriteSeq(_, _)
WriteSeq(h, ws) == IF ws = <<>> THEN h ELSE WriteSeq(CoeffRefWrite(h, ws[1][1], ws[1][2]), Tail(ws))
\* flat write of the values D over the pattern positions P at the designated host positions (order irrelevant: distinct positions)
\* (P: pattern positions, n: Dof, D: function P -> value).  This is the operator spec/TraceSparse.tla applies to
\* the recorded host, the published pattern and the dense routine's values.
RECURSIVE FlatWriteP(_, _, _, _, _)
FlatWriteP(h, P, n, i0, D) ==
  IF P = {} THEN h
  ELSE LET p == CHOOSE q \in P : TRUE
       IN FlatWriteP(CoeffRefWrite(h, HostPos(h.rows, n, i0, p), D[p]), P \ {p}, n, i0, D)
FlatWrite(h, g, i0) == FlatWriteP(h, Pat(g), Dof(g), i0, [p \in Pat(g) |-> Dense(g, p)])

\* sets as sequences in the iteration order of a compressed column-major pattern (column, then row)
RECURSIVE SeqOf(_)
SeqOf(S) ==
  IF S = {} THEN <<>>
  ELSE LET m == CHOOSE p \in S : \A q \in S : p[2] < q[2] \/ (p[2] = q[2] /\ p[1] <= q[1]) IN <<m>> \o SeqOf(S \ {m})

---------------------------------------------------------------------------
\* THE WRITERS, structured like the code.  A call is [g, i0, path].
\* writes of one LEAF call (the loops of dr_exp_sparse / d2r_exp_sparse)
LeafWrites(c, R) ==
  LET g == c.g  i0 == c.i0  d == g.d
  IN IF Kind = "J" THEN
       IF g.comm THEN [i \in 1..d |-> <<<<i0 + i - 1, i0 + i - 1>>, One>>]
       ELSE LET ps == SeqOf(g.pj)
            IN [x \in 1..Len(ps) |->
                  LET p == ps[x]
                      col == IF Variant = "rows_only" THEN p[2] ELSE i0 + p[2]
                  IN <<<<i0 + p[1], col>>, DJ(c.path, p[1], p[2])>>]
     ELSE
       IF g.comm THEN <<>>
       ELSE LET ps == SeqOf(g.ph)
            IN [x \in 1..Len(ps) |->
                  LET p == ps[x]
                      block == i0 + (p[2] \div d)
                      row == i0 + p[1]
                      col == IF Variant = "rows_only" THEN p[2] % d ELSE i0 + (p[2] % d)
                  IN <<<<row, R * block + col>>, DH(c.path, p[1], p[2])>>]
\* the calls a BUNDLE call makes (static_for over the parts)
PartCalls(c) ==
  LET g == c.g
  IN [I \in 1..Len(g.parts) |->
        [g |-> g.parts[I],
         i0 |-> IF Variant = "bundle_drops_i0" THEN PartStart(g, I) ELSE c.i0 + PartStart(g, I),
         path |-> c.path \o <<I>>]]

---------------------------------------------------------------------------
\* abstract generators for ad_sparse: gens[k] = set of positions where ad(e_k) is non-zero
\* (ad_sparse has no block index: the host is Dof x Dof)
GensPattern(gens) == UNION {gens[k] : k \in 1..Len(gens)}
DenseAd(gens, p) == Sum({k \in 1..Len(gens) : p \in gens[k]})
AddGen(h, gen, k) ==     \* sp += a(k) * generators_sparse[k]
  LET st2 == h.st \cup gen
      old(p) == IF p \in h.st THEN h.val[p] ELSE Zero
  IN [h EXCEPT !.st = st2,
               !.val = [p \in st2 |-> IF p \in gen THEN Sum(old(p).ks \cup {k}) ELSE old(p)],
               !.comp = TRUE]
SetZero(h) == [h EXCEPT !.val = [p \in h.st |-> Zero]]

---------------------------------------------------------------------------
\* scope: the abstract groups enumerated
\* subsets with at most n <= 2 elements (written out: SUBSET of a large set cannot be enumerated)
SubsetsUpTo(S, n) ==
  IF n = 0 THEN {{}}
  ELSE IF n = 1 THEN {{}} \cup {{p} : p \in S}
  ELSE {{}} \cup {{p, q} : p \in S, q \in S}
\* leaves with ANY pattern (dof 1 and 2; Hessian patterns of dof 2 restricted to <= 3 positions or all 8)
AnyLeaves ==
  IF Kind = "J" THEN {Leaf(d, FALSE, pj, {}) : d \in {1}, pj \in SUBSET Sq(1)}
                     \cup {Leaf(2, FALSE, pj, {}) : pj \in SUBSET Sq(2)}
                     \cup {Leaf(1, TRUE, {}, {}), Leaf(2, TRUE, {}, {})}
  ELSE {Leaf(1, FALSE, {}, ph) : ph \in SUBSET Wide(1)}
       \cup {Leaf(2, FALSE, {}, ph) : ph \in SubsetsUpTo(Wide(2), 2) \cup {Wide(2)}}
       \cup {Leaf(1, TRUE, {}, {}), Leaf(2, TRUE, {}, {})}
\* a few representative leaves for compositions
FewLeaves ==
  IF Kind = "J" THEN {Leaf(1, FALSE, Sq(1), {}), Leaf(2, FALSE, Sq(2), {}), Leaf(2, FALSE, {<<0, 0>>, <<0, 1>>, <<1, 1>>}, {}),
                      Leaf(2, TRUE, {}, {}), Leaf(1, TRUE, {}, {})}
  ELSE {Leaf(1, FALSE, {}, Wide(1)), Leaf(2, FALSE, {}, Wide(2)), Leaf(2, FALSE, {}, {<<1, 0>>, <<0, 3>>, <<1, 2>>}),
        Leaf(2, TRUE, {}, {})}
TwoLeaves ==
  IF Kind = "J" THEN {Leaf(2, FALSE, {<<0, 0>>, <<0, 1>>, <<1, 1>>}, {}), Leaf(1, TRUE, {}, {})}
  ELSE {Leaf(2, FALSE, {}, {<<1, 0>>, <<0, 3>>, <<1, 2>>}), Leaf(1, FALSE, {}, Wide(1))}
GroupsInScope ==
  LET pairs(Ls) == {Bun(<<a, b>>) : a \in Ls, b \in Ls}
      triples(Ls) == {Bun(<<a, b, c>>) : a \in Ls, b \in Ls, c \in Ls}
      nestedL(Ls) == {Bun(<<Bun(<<a, b>>), c>>) : a \in Ls, b \in Ls, c \in Ls}
      nestedR(Ls) == {Bun(<<a, Bun(<<b, c>>)>>) : a \in Ls, b \in Ls, c \in Ls}
      deep(Ls) == {Bun(<<a, Bun(<<b, Bun(<<c, a>>)>>)>>) : a \in Ls, b \in Ls, c \in Ls}
  IN IF Scope = "small" THEN AnyLeaves \cup pairs(TwoLeaves) \cup nestedL(TwoLeaves) \cup nestedR(TwoLeaves)
     ELSE AnyLeaves \cup pairs(FewLeaves) \cup triples(TwoLeaves) \cup nestedL(FewLeaves) \cup nestedR(FewLeaves) \cup deep(TwoLeaves)

\* abstract generator families for Kind = "AD": dof 2 and 3, every generator pattern of <= 2 positions out of a few
AdPositions(d) == {p \in Sq(d) : p[1] # p[2]} \cup {<<0, 0>>}
GenFamilies ==
  LET d == 2  P == AdPositions(d)  G == SubsetsUpTo(P, 2)
  IN {<<a, b>> : a \in G, b \in G}

---------------------------------------------------------------------------
VARIABLES g,      \* the group of the call (constant during a behaviour)
          i0,     \* block index
          h0,     \* host before the call
          h,      \* host now
          todo,   \* pending calls (J/H) or pending generator indices (AD)
          cur,    \* pending coeffRef writes of the running leaf call
          gens,   \* AD: the generators
          phase   \* "run" | "done"
vars == <<g, i0, h0, h, todo, cur, gens, phase>>

N == IF Kind = "AD" THEN 2 ELSE Dof(g)
Designated == IF Kind = "AD" THEN h0.st ELSE {HostPos(h0.rows, N, i0, p) : p \in Pat(g)}
PreOK == IF Kind = "AD" THEN GensPattern(gens) \subseteq h0.st ELSE Designated \subseteq h0.st

HostsFor(n, lead, tail, want) ==
  LET R == lead + n + tail
      C == IF Kind = "H" THEN R * R ELSE R
      All == (0..(R - 1)) \X (0..(C - 1))
      others == All \ want
      extraSets == SubsetsUpTo(others, MaxExtra) \cup {others}
      missSets == IF AllowMissing THEN {{}} \cup {{p} : p \in want} ELSE {{}}
  IN {LET st == (want \cup ex) \ ms IN Host(R, C, st, [p \in st |-> Old(p[1], p[2])], TRUE) : ex \in extraSets, ms \in missSets}

Init ==
  /\ phase = "run" /\ cur = <<>>
  /\ IF Kind = "AD"
     THEN /\ gens \in GenFamilies
          /\ g = Leaf(2, FALSE, {}, {})
          /\ i0 = 0
          /\ h0 \in HostsFor(2, 0, 0, GensPattern(gens))
          /\ todo = <<0>> \o [k \in 1..Len(gens) |-> k]       \* 0 = setZero, k = "+= a(k) gen[k]"
     ELSE /\ gens = <<>>
          /\ g \in GroupsInScope
          /\ i0 \in 0..MaxLead
          /\ \E tail \in 0..MaxTail :
               LET R == i0 + Dof(g) + tail
               IN h0 \in HostsFor(Dof(g), i0, tail, {HostPos(R, Dof(g), i0, p) : p \in Pat(g)})
          /\ todo = <<[g |-> g, i0 |-> i0, path |-> <<>>]>>
  /\ h = h0

\* enter the next call: a Bundle pushes its part calls, a leaf starts its loop
Expand ==
  /\ Kind # "AD" /\ phase = "run" /\ cur = <<>> /\ todo # <<>>
  /\ LET c == Head(todo)
     IN IF c.g.k = "B" THEN /\ todo' = PartCalls(c) \o Tail(todo)
                            /\ cur' = cur
        ELSE /\ todo' = Tail(todo)
             /\ cur' = LeafWrites(c, h.rows)
  /\ UNCHANGED <<g, i0, h0, h, gens, phase>>
\* one coeffRef(...) = value
Write ==
  /\ Kind # "AD" /\ phase = "run" /\ cur # <<>>
  /\ h' = CoeffRefWrite(h, cur[1][1], cur[1][2])
  /\ cur' = Tail(cur)
  /\ UNCHANGED <<g, i0, h0, todo, gens, phase>>
\* ad_sparse: setZero, then one "+=" per generator
AdStep ==
  /\ Kind = "AD" /\ phase = "run" /\ todo # <<>>
  /\ h' = IF Head(todo) = 0 THEN SetZero(h) ELSE AddGen(h, gens[Head(todo)], Head(todo))
  /\ todo' = Tail(todo)
  /\ UNCHANGED <<g, i0, h0, cur, gens, phase>>
Finish ==
  /\ phase = "run" /\ cur = <<>> /\ todo = <<>>
  /\ phase' = "done"
  /\ UNCHANGED <<g, i0, h0, h, todo, cur, gens>>
Next == Expand \/ Write \/ AdStep \/ Finish
Spec == Init /\ [][Next]_vars

---------------------------------------------------------------------------
\* PROPERTIES (checked in every reachable state)
\* C19.frame: every stored entry that is not designated keeps its value (J/H); for AD the block is the whole matrix
Frame ==
  (PreOK /\ Kind # "AD") => \A p \in h0.st \ Designated : h.val[p] = h0.val[p]
\* C19.frame: the structure never changes and the matrix stays compressed
Structure == PreOK => (h.st = h0.st /\ h.comp /\ h.rows = h0.rows /\ h.cols = h0.cols)
\* C19.block: after the call the designated block holds the dense values
BlockIsDense ==
  (PreOK /\ phase = "done") =>
     IF Kind = "AD" THEN \A p \in h.st : h.val[p] = DenseAd(gens, p)
     ELSE \A p \in Shape(g) :
            LET q == HostPos(h0.rows, N, i0, p)  d == Dense(g, p)
            IN /\ (d # Zero => q \in h.st /\ h.val[q] = d)
               /\ (p \in Pat(g) => h.val[q] = d)
\* composed published pattern contains every possibly-non-zero dense entry (leaf patterns are complete by construction)
PatternComplete ==
  (Kind # "AD" /\ phase = "done") => /\ \A p \in Shape(g) : Dense(g, p) # Zero => p \in Pat(g)
                 /\ Pat(g) \subseteq Shape(g)
\* the recursive writer equals the flat write over the composed pattern (the operator TraceSparse uses)
FlatEquiv == (Kind # "AD" /\ phase = "done") => h = FlatWrite(h0, g, i0)
\* the precondition is necessary: a missing designated position is inserted and the matrix is left uncompressed
PreNecessary == (~PreOK /\ phase = "done" /\ Variant = "code") => (~h.comp \/ h.st # h0.st)

TypeOK ==
  /\ phase \in {"run", "done"}
  /\ h.st = DOMAIN h.val
  /\ h.comp \in BOOLEAN
=============================================================================
