---- MODULE SparseHost_TTrace_1791063323 ----
EXTENDS Sequences, TLCExt, Toolbox, Naturals, TLC, SparseHost

_expression ==
    LET SparseHost_TEExpression == INSTANCE SparseHost_TEExpression
    IN SparseHost_TEExpression!expression
----

_trace ==
    LET SparseHost_TETrace == INSTANCE SparseHost_TETrace
    IN SparseHost_TETrace!trace
----

_inv ==
    ~(
        TLCGet("level") = Len(_TETrace)
        /\
        phase = ("run")
        /\
        todo = (<<>>)
        /\
        cur = (<<>>)
        /\
        gens = (<<>>)
        /\
        g = ([d |-> 1, comm |-> FALSE, pj |-> {<<0, 0>>}, ph |-> {}, k |-> "L"])
        /\
        i0 = (1)
        /\
        h = ([rows |-> 2, cols |-> 2, st |-> {<<1, 0>>, <<1, 1>>}, val |-> (<<1, 0>> :> [t |-> "J", p |-> <<>>, i |-> 0, j |-> 0, ks |-> {}] @@ <<1, 1>> :> [t |-> "old", p |-> <<>>, i |-> 1, j |-> 1, ks |-> {}]), comp |-> FALSE])
        /\
        h0 = ([rows |-> 2, cols |-> 2, st |-> {<<1, 1>>}, val |-> (<<1, 1>> :> [t |-> "old", p |-> <<>>, i |-> 1, j |-> 1, ks |-> {}]), comp |-> TRUE])
    )
----

_init ==
    /\ phase = _TETrace[1].phase
    /\ cur = _TETrace[1].cur
    /\ g = _TETrace[1].g
    /\ h = _TETrace[1].h
    /\ gens = _TETrace[1].gens
    /\ h0 = _TETrace[1].h0
    /\ i0 = _TETrace[1].i0
    /\ todo = _TETrace[1].todo
----

_next ==
    /\ \E i,j \in DOMAIN _TETrace:
        /\ \/ /\ j = i + 1
              /\ i = TLCGet("level")
        /\ phase  = _TETrace[i].phase
        /\ phase' = _TETrace[j].phase
        /\ cur  = _TETrace[i].cur
        /\ cur' = _TETrace[j].cur
        /\ g  = _TETrace[i].g
        /\ g' = _TETrace[j].g
        /\ h  = _TETrace[i].h
        /\ h' = _TETrace[j].h
        /\ gens  = _TETrace[i].gens
        /\ gens' = _TETrace[j].gens
        /\ h0  = _TETrace[i].h0
        /\ h0' = _TETrace[j].h0
        /\ i0  = _TETrace[i].i0
        /\ i0' = _TETrace[j].i0
        /\ todo  = _TETrace[i].todo
        /\ todo' = _TETrace[j].todo

\* Uncomment the ASSUME below to write the states of the error trace
\* to the given file in Json format. Note that you can pass any tuple
\* to `JsonSerialize`. For example, a sub-sequence of _TETrace.
    \* ASSUME
    \*     LET J == INSTANCE Json
    \*         IN J!JsonSerialize("SparseHost_TTrace_1791063323.json", _TETrace)

=============================================================================

 Note that you can extract this module `SparseHost_TEExpression`
  to a dedicated file to reuse `expression` (the module in the 
  dedicated `SparseHost_TEExpression.tla` file takes precedence 
  over the module `SparseHost_TEExpression` below).

---- MODULE SparseHost_TEExpression ----
EXTENDS Sequences, TLCExt, Toolbox, Naturals, TLC, SparseHost

expression == 
    [
        \* To hide variables of the `SparseHost` spec from the error trace,
        \* remove the variables below.  The trace will be written in the order
        \* of the fields of this record.
        phase |-> phase
        ,cur |-> cur
        ,g |-> g
        ,h |-> h
        ,gens |-> gens
        ,h0 |-> h0
        ,i0 |-> i0
        ,todo |-> todo
        
        \* Put additional constant-, state-, and action-level expressions here:
        \* ,_stateNumber |-> _TEPosition
        \* ,_phaseUnchanged |-> phase = phase'
        
        \* Format the `phase` variable as Json value.
        \* ,_phaseJson |->
        \*     LET J == INSTANCE Json
        \*     IN J!ToJson(phase)
        
        \* Lastly, you may build expressions over arbitrary sets of states by
        \* leveraging the _TETrace operator.  For example, this is how to
        \* count the number of times a spec variable changed up to the current
        \* state in the trace.
        \* ,_phaseModCount |->
        \*     LET F[s \in DOMAIN _TETrace] ==
        \*         IF s = 1 THEN 0
        \*         ELSE IF _TETrace[s].phase # _TETrace[s-1].phase
        \*             THEN 1 + F[s-1] ELSE F[s-1]
        \*     IN F[_TEPosition - 1]
    ]

=============================================================================



Parsing and semantic processing can take forever if the trace below is long.
 In this case, it is advised to uncomment the module below to deserialize the
 trace from a generated binary file.

\*
\*---- MODULE SparseHost_TETrace ----
\*EXTENDS IOUtils, TLC, SparseHost
\*
\*trace == IODeserialize("SparseHost_TTrace_1791063323.bin", TRUE)
\*
\*=============================================================================
\*

---- MODULE SparseHost_TETrace ----
EXTENDS TLC, SparseHost

trace == 
    <<
    ([phase |-> "run",todo |-> <<[path |-> <<>>, g |-> [d |-> 1, comm |-> FALSE, pj |-> {<<0, 0>>}, ph |-> {}, k |-> "L"], i0 |-> 1]>>,cur |-> <<>>,gens |-> <<>>,g |-> [d |-> 1, comm |-> FALSE, pj |-> {<<0, 0>>}, ph |-> {}, k |-> "L"],i0 |-> 1,h |-> [rows |-> 2, cols |-> 2, st |-> {<<1, 1>>}, val |-> (<<1, 1>> :> [t |-> "old", p |-> <<>>, i |-> 1, j |-> 1, ks |-> {}]), comp |-> TRUE],h0 |-> [rows |-> 2, cols |-> 2, st |-> {<<1, 1>>}, val |-> (<<1, 1>> :> [t |-> "old", p |-> <<>>, i |-> 1, j |-> 1, ks |-> {}]), comp |-> TRUE]]),
    ([phase |-> "run",todo |-> <<>>,cur |-> <<<<<<1, 0>>, [t |-> "J", p |-> <<>>, i |-> 0, j |-> 0, ks |-> {}]>>>>,gens |-> <<>>,g |-> [d |-> 1, comm |-> FALSE, pj |-> {<<0, 0>>}, ph |-> {}, k |-> "L"],i0 |-> 1,h |-> [rows |-> 2, cols |-> 2, st |-> {<<1, 1>>}, val |-> (<<1, 1>> :> [t |-> "old", p |-> <<>>, i |-> 1, j |-> 1, ks |-> {}]), comp |-> TRUE],h0 |-> [rows |-> 2, cols |-> 2, st |-> {<<1, 1>>}, val |-> (<<1, 1>> :> [t |-> "old", p |-> <<>>, i |-> 1, j |-> 1, ks |-> {}]), comp |-> TRUE]]),
    ([phase |-> "run",todo |-> <<>>,cur |-> <<>>,gens |-> <<>>,g |-> [d |-> 1, comm |-> FALSE, pj |-> {<<0, 0>>}, ph |-> {}, k |-> "L"],i0 |-> 1,h |-> [rows |-> 2, cols |-> 2, st |-> {<<1, 0>>, <<1, 1>>}, val |-> (<<1, 0>> :> [t |-> "J", p |-> <<>>, i |-> 0, j |-> 0, ks |-> {}] @@ <<1, 1>> :> [t |-> "old", p |-> <<>>, i |-> 1, j |-> 1, ks |-> {}]), comp |-> FALSE],h0 |-> [rows |-> 2, cols |-> 2, st |-> {<<1, 1>>}, val |-> (<<1, 1>> :> [t |-> "old", p |-> <<>>, i |-> 1, j |-> 1, ks |-> {}]), comp |-> TRUE]])
    >>
----


=============================================================================

---- CONFIG SparseHost_TTrace_1791063323 ----
CONSTANTS
    Variant = "rows_only"
    Kind = "J"
    MaxLead = 2
    MaxTail = 1
    MaxExtra = 0
    AllowMissing = FALSE
    Scope = "small"

INVARIANT
    _inv

CHECK_DEADLOCK
    \* CHECK_DEADLOCK off because of PROPERTY or INVARIANT above.
    FALSE

INIT
    _init

NEXT
    _next

CONSTANT
    _TETrace <- _trace

ALIAS
    _expression
=============================================================================
\* Generated on Sat Oct 03 21:35:49 UTC 2026