----------------------------- MODULE SplineCore -----------------------------
(* Pure operators of the Spline design model (no variables): the cumulative     *)
(* Bernstein basis, the implementation-shaped representation Impl (five         *)
(* parallel per-segment vectors and the algorithms of spline_impl.hpp AS CODED) *)
(* and the denotational meaning Abs (expression trees Seg | CatL | CatG | Crop  *)
(* with one-sided evaluation).  G = R, exact rationals.  See SplineModel.tla.   *)
EXTENDS Tol, TLC, FiniteSets

CONSTANTS K,            \* degree (number of control velocities per segment)
          CropVariant   \* "fixed" (repaired code) | "upstream" (pinned upstream commit, spec mutant)

---------------------------------------------------------------------------
\* cumulative Bernstein basis of degree K on [0,1] and its derivatives (exact)
RECURSIVE Binom(_, _)
Binom(n, k) == IF k = 0 \/ k = n THEN 1 ELSE Binom(n - 1, k - 1) + Binom(n - 1, k)
Bern(j, n, u) == IF j < 0 \/ j > n THEN R0
                 ELSE RMul(RFromInt(Binom(n, j)), RMul(RPowInt(u, j), RPowInt(RSub(R1, u), n - j)))
\* d/du of the cumulative basis function i (1..K):  K * b_{i-1,K-1}(u)
DCum(i, u) == RMul(RFromInt(K), Bern(i - 1, K - 1, u))
\* second derivative: K (K-1) (b_{i-2,K-2} - b_{i-1,K-2})
D2Cum(i, u) == IF K < 2 THEN R0
               ELSE RMul(RFromInt(K * (K - 1)), RSub(Bern(i - 2, K - 2, u), Bern(i - 1, K - 2, u)))
RECURSIVE CumFrom(_, _, _)
CumFrom(i, j, u) == IF j > K THEN R0 ELSE RAdd(Bern(j, K, u), CumFrom(i, j + 1, u))
Cum(i, u) == CumFrom(i, i, u)

\* the unit-interval curve of one segment with control velocities V (a K-tuple), relative to its start
RECURSIVE SumK(_, _, _)
SumK(F(_), V, i) == IF i > K THEN R0 ELSE RAdd(RMul(F(i), V[i]), SumK(F, V, i + 1))
XU(V, u) == LET F(i) == Cum(i, u) IN SumK(F, V, 1)
DXU(V, u) == LET F(i) == DCum(i, u) IN SumK(F, V, 1)
D2XU(V, u) == LET F(i) == D2Cum(i, u) IN SumK(F, V, 1)

Clamp01(u) == RMax(R0, RMin(R1, u))

---------------------------------------------------------------------------
\* Impl: records [g0, end_t, end_g, Vs, T0, Del]
IEmpty(ga) == [g0 |-> ga, end_t |-> <<>>, end_g |-> <<>>, Vs |-> <<>>, T0 |-> <<>>, Del |-> <<>>]
ISeg(T, V, ga) == [g0 |-> ga, end_t |-> <<T>>, end_g |-> <<RAdd(ga, XU(V, R1))>>, Vs |-> <<V>>,
                   T0 |-> <<R0>>, Del |-> <<R1>>]
ISize(s) == Len(s.end_t)
ITMax(s) == IF ISize(s) = 0 THEN R0 ELSE s.end_t[ISize(s)]
IEnd(s) == IF ISize(s) = 0 THEN s.g0 ELSE s.end_g[ISize(s)]

\* find_idx: number of end times <= t, capped at size-1  (0-based segment index, as in the code)
RECURSIVE CountLeq(_, _, _)
CountLeq(ts, t, i) == IF i > Len(ts) THEN 0 ELSE (IF RLeq(ts[i], t) THEN 1 ELSE 0) + CountLeq(ts, t, i + 1)
IFindIdx(s, t) == LET c == CountLeq(s.end_t, t, 1) IN IF c > ISize(s) - 1 THEN ISize(s) - 1 ELSE c

\* operator(): <<value, velocity, acceleration>>
IEval(s, t) ==
  IF ISize(s) = 0 \/ RLt(t, R0) THEN <<s.g0, R0, R0>>
  ELSE IF RLt(ITMax(s), t) THEN <<s.end_g[ISize(s)], R0, R0>>
  ELSE LET i == IFindIdx(s, t) + 1                         \* 1-based
           ta == IF i = 1 THEN R0 ELSE s.end_t[i - 1]
           T == RSub(s.end_t[i], ta)
           del == s.Del[i]
           u == Clamp01(RAdd(s.T0[i], RDiv(RMul(del, RSub(t, ta)), T)))
           gs == IF i = 1 THEN s.g0 ELSE s.end_g[i - 1]
           g0c == IF RLt(R0, s.T0[i]) THEN RSub(gs, XU(s.Vs[i], s.T0[i])) ELSE gs
       IN <<RAdd(g0c, XU(s.Vs[i], u)),
            RMul(DXU(s.Vs[i], u), RDiv(del, T)),
            RMul(D2XU(s.Vs[i], u), RDiv(RSq(del), RSq(T)))>>

IConcatLocal(s, o) ==
  LET n1 == ISize(s)  tend == ITMax(s)  gend == IEnd(s)
      base == IF n1 = 0 THEN [s EXCEPT !.g0 = RAdd(s.g0, o.g0)]
              ELSE [s EXCEPT !.end_g[n1] = RAdd(s.end_g[n1], o.g0)]
  IN [base EXCEPT !.end_t = @ \o [i \in 1..ISize(o) |-> RAdd(tend, o.end_t[i])],
                  !.end_g = @ \o [i \in 1..ISize(o) |-> RAdd(gend, o.end_g[i])],
                  !.Vs = @ \o o.Vs, !.T0 = @ \o o.T0, !.Del = @ \o o.Del]
IConcatGlobal(s, o) ==
  LET n1 == ISize(s)  tend == ITMax(s)
      base == IF n1 = 0 THEN [s EXCEPT !.g0 = o.g0] ELSE [s EXCEPT !.end_g[n1] = o.g0]
  IN [base EXCEPT !.end_t = @ \o [i \in 1..ISize(o) |-> RAdd(tend, o.end_t[i])],
                  !.end_g = @ \o o.end_g,
                  !.Vs = @ \o o.Vs, !.T0 = @ \o o.T0, !.Del = @ \o o.Del]

\* crop as coded.  Returns [ok |-> FALSE] when a division by zero occurs (the C++ yields inf/NaN there).
ICrop(s, ta0, tb0, loc) ==
  LET ta == RMax(ta0, R0)
      tb == RMin(tb0, ITMax(s))
  IN IF RLeq(tb, ta) THEN [ok |-> TRUE, s |-> IEmpty(R0)]
     ELSE
     LET i0 == IFindIdx(s, ta)                              \* 0-based
         n0 == IFindIdx(s, tb) + 1 - i0
         nseg == IF n0 >= 2 /\ REq(s.end_t[i0 + n0 - 1], tb) THEN n0 - 1 ELSE n0
         ga == IEval(s, ta)[1]
         xtb == IEval(s, tb)[1]
         fixed == CropVariant = "fixed"
         \* end points: localised -> relative to ga; the repaired code keeps global end points otherwise
         Rel(x) == IF loc \/ ~fixed THEN RSub(x, ga) ELSE x
         endt == [i \in 1..nseg |-> IF i = nseg THEN RSub(tb, ta) ELSE RSub(s.end_t[i0 + i], ta)]
         endg == [i \in 1..nseg |-> IF i = nseg THEN Rel(xtb) ELSE Rel(s.end_g[i0 + i])]
         vs == [i \in 1..nseg |-> s.Vs[i0 + i]]
         t0a == [i \in 1..nseg |-> s.T0[i0 + i]]
         dela == [i \in 1..nseg |-> s.Del[i0 + i]]
         \* crop first segment
         ftta == IF fixed THEN (IF i0 = 0 THEN R0 ELSE s.end_t[i0]) ELSE R0
         fttb == s.end_t[i0 + 1]
         fden == RSub(fttb, ftta)
         \* crop last segment (1-based indices of the ORIGINAL end_t in the two variants)
         lidxA == IF fixed THEN i0 + nseg - 1 ELSE nseg - 1   \* m_end_t[.. - 2] as 1-based index
         lidxB == IF fixed THEN i0 + nseg ELSE nseg            \* m_end_t[.. - 1]
         ltta == IF nseg = 1 THEN ta ELSE s.end_t[lidxA]
         lttb == s.end_t[lidxB]
         lden == RSub(lttb, ltta)
     IN IF nseg <= 0 THEN [ok |-> TRUE, s |-> IEmpty(R0)]
        ELSE IF RSign(fden) = 0 \/ RSign(lden) = 0 THEN [ok |-> FALSE]
        ELSE
        LET t0b == [t0a EXCEPT ![1] = RAdd(@, RDiv(RMul(dela[1], RSub(ta, ftta)), fden))]
            delb == [dela EXCEPT ![1] = RMul(@, RDiv(RSub(fttb, ta), fden))]
            \* last: sa = tta so T0 is unchanged; Del scales by (tb - tta)/(ttb - tta)
            delc == [delb EXCEPT ![nseg] = RMul(@, RDiv(RSub(tb, ltta), lden))]
        IN [ok |-> TRUE,
            s |-> [g0 |-> IF loc THEN R0 ELSE ga, end_t |-> endt, end_g |-> endg, Vs |-> vs, T0 |-> t0b, Del |-> delc]]

\* make_local AS CODED: only the start value is reset; the stored segment end points keep the old frame
IMakeLocal(s) == [s EXCEPT !.g0 = R0]

---------------------------------------------------------------------------
\* Abs: expression trees
ASeg(T, V, ga) == [k |-> "Seg", T |-> T, V |-> V, ga |-> ga]
AEmpty(ga) == [k |-> "Empty", ga |-> ga]
ACatL(x1, x2) == [k |-> "CatL", x1 |-> x1, x2 |-> x2]
ACatG(x1, x2) == [k |-> "CatG", x1 |-> x1, x2 |-> x2]
ACrop(x, ta, tb, loc) == [k |-> "Crop", x |-> x, ta |-> ta, tb |-> tb, loc |-> loc]
ALocal(x) == [k |-> "Local", x |-> x]          \* documented meaning of make_local: y(t) = x(0)^-1 * x(t)

RECURSIVE ATMax(_)
ATMax(c) ==
  CASE c.k = "Empty" -> R0
    [] c.k = "Seg" -> c.T
    [] c.k \in {"CatL", "CatG"} -> RAdd(ATMax(c.x1), ATMax(c.x2))
    [] c.k = "Local" -> ATMax(c.x)
    [] c.k = "Crop" -> LET a == RMax(c.ta, R0)  b == RMin(c.tb, ATMax(c.x))
                       IN IF RLeq(b, a) THEN R0 ELSE RSub(b, a)

\* one-sided evaluation for 0 <= t <= ATMax(c): side "L" = limit from the left, "R" = from the right;
\* beyond the ends the one-sided limit is the constant continuation (value of the end, zero derivatives)
RECURSIVE AEv(_, _, _)
AEv(c, t, side) ==
  CASE c.k = "Empty" -> <<c.ga, R0, R0>>
    [] c.k = "Seg" ->
         IF RLt(t, R0) \/ (REq(t, R0) /\ side = "L") THEN <<c.ga, R0, R0>>
         ELSE IF RLt(c.T, t) \/ (REq(t, c.T) /\ side = "R") THEN <<RAdd(c.ga, XU(c.V, R1)), R0, R0>>
         ELSE LET u == RDiv(t, c.T)
              IN <<RAdd(c.ga, XU(c.V, u)), RDiv(DXU(c.V, u), c.T), RDiv(D2XU(c.V, u), RSq(c.T))>>
    [] c.k = "CatL" ->
         LET t1 == ATMax(c.x1)
         IN IF RLt(t, t1) \/ (REq(t, t1) /\ side = "L") THEN AEv(c.x1, t, side)
            ELSE LET r == AEv(c.x2, RSub(t, t1), side)
                     e1 == AEv(c.x1, t1, "L")[1]
                 IN <<RAdd(e1, r[1]), r[2], r[3]>>
    [] c.k = "CatG" ->
         LET t1 == ATMax(c.x1)
         IN IF RLt(t, t1) \/ (REq(t, t1) /\ side = "L") THEN AEv(c.x1, t, side)
            ELSE AEv(c.x2, RSub(t, t1), side)
    [] c.k = "Local" ->
         LET r == AEv(c.x, t, side) IN <<RSub(r[1], AEv(c.x, R0, "R")[1]), r[2], r[3]>>
    [] c.k = "Crop" ->
         LET a == RMax(c.ta, R0)  b == RMin(c.tb, ATMax(c.x))  T == RSub(b, a)
             ref == AEv(c.x, a, "R")[1]
             Loc(v) == IF c.loc THEN RSub(v, ref) ELSE v
         IN IF RLeq(b, a) THEN <<R0, R0, R0>>
            ELSE IF RLt(t, R0) \/ (REq(t, R0) /\ side = "L") THEN <<Loc(ref), R0, R0>>
            ELSE IF RLt(T, t) \/ (REq(t, T) /\ side = "R") THEN <<Loc(AEv(c.x, b, "L")[1]), R0, R0>>
            ELSE LET r == AEv(c.x, RAdd(a, t), side) IN <<Loc(r[1]), r[2], r[3]>>

\* the set of breakpoints of an abstract curve at which it may be discontinuous in VALUE (CatG junctions),
\* mapped through crops: crop boundaries there are outside what the property determines
RECURSIVE AJumps(_)
AJumps(c) ==
  CASE c.k \in {"Empty", "Seg"} -> {}
    [] c.k = "CatL" -> AJumps(c.x1) \cup {RAdd(ATMax(c.x1), t) : t \in AJumps(c.x2)}
                       \cup (IF REq(AEv(c.x2, R0, "R")[1], R0) THEN {} ELSE {ATMax(c.x1)})
    [] c.k = "CatG" -> AJumps(c.x1) \cup {ATMax(c.x1)} \cup {RAdd(ATMax(c.x1), t) : t \in AJumps(c.x2)}
    [] c.k = "Local" -> AJumps(c.x)
    [] c.k = "Crop" -> LET a == RMax(c.ta, R0) IN {RSub(t, a) : t \in {x \in AJumps(c.x) : RLt(a, x) /\ RLt(x, RMin(c.tb, ATMax(c.x)))}}

Same3(p, q) == REq(p[1], q[1]) /\ REq(p[2], q[2]) /\ REq(p[3], q[3])
\* Impl agrees with Abs at time t (either one-sided value at a breakpoint; constant continuation outside)
AgreeAt(s, c, t) ==
  LET iv == IEval(s, t)
  IN Same3(iv, AEv(c, t, "L")) \/ Same3(iv, AEv(c, t, "R"))
=============================================================================
