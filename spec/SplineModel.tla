---------------------------- MODULE SplineModel ----------------------------
(* Design-level model of smooth::Spline<K, G> for G = R (the additive group;   *)
(* all arithmetic exact over rationals).                                       *)
(*                                                                             *)
(*  * Impl: the five parallel per-segment vectors (end_t, end_g, Vs, T0, Del)  *)
(*    plus g0, and the algorithms of spline_impl.hpp AS CODED: find_idx,       *)
(*    operator(), concat_local, concat_global, crop.                           *)
(*  * Abs: the denotational meaning of the same history as an expression tree  *)
(*    Seg | CatL | CatG | Crop with Eval defined by the equations of property  *)
(*    C12:  y(t) = x1(t) on [0,t1],  x1(t1) * x2(t - t1) (resp. x2(t - t1))    *)
(*    afterwards;  crop: y(t) = x(ta)^-1 * x(ta + t)  (x(ta + t) if not        *)
(*    localised) on [0, tb - ta]; start()/end() with zero derivatives outside. *)
(*                                                                             *)
(* TLC explores every history of at most MaxOps mutators over a small piece    *)
(* library and checks the refinement invariant: at every grid time (knots,     *)
(* out of range, interior) Impl's value / velocity / acceleration is one of    *)
(* the (at most two, at a breakpoint) one-sided values of Abs, and t_max       *)
(* agrees.  CropVariant = "upstream" reproduces the crop index arithmetic of   *)
(* the pinned upstream commit (the refinement FAILS - kept as the spec mutant  *)
(* that shows the invariant is not vacuous); "fixed" is the repaired code.     *)
EXTENDS SplineCore

CONSTANTS MaxOps,       \* history length
          MaxSegs,      \* bound on the number of segments
          DurHalves,    \* segment durations, in halves
          CropQuarters, \* crop points: a natural n stands for (n - 1)/4
          NV,           \* number of control-velocity tuples in the piece library
          StartVals,    \* start values of pieces (integers)
          MakeLocalMode \* "off": make_local() is not part of the alphabet (all runs that decide C12);
                        \* "coded": it is, as coded (only g0 is reset).  make_local is outside the listed properties;
                        \* the "coded" run documents that it does NOT refine y(t) = x(0)^-1 x(t) for a multi-segment
                        \* spline whose start is not the identity (TLC counterexample, reported as an observation)

---------------------------------------------------------------------------
\* finite piece library and grids (small integers / dyadic fractions keep everything exact)
Durations == {RFrac(n, 2) : n \in DurHalves}
VList == IF K = 1 THEN << <<R1>>, <<RFromInt(-2)>>, <<RFromInt(3)>> >>
         ELSE IF K = 2 THEN << <<R1, RFromInt(-1)>>, <<R0, R2>>, <<RFromInt(-1), RFromInt(-1)>> >>
         ELSE IF K = 3 THEN << <<R1, R0, RFromInt(-1)>>, <<R2, R1, R1>>, <<R0, RFromInt(-1), R2>> >>
         ELSE << [i \in 1..K |-> RFromInt(i - 2)], [i \in 1..K |-> RFromInt(1 - i)], [i \in 1..K |-> R1] >>
VTuples == {VList[i] : i \in 1..NV}
Starts == {RFromInt(n) : n \in StartVals}
Pieces == {<<T, V, ga>> : T \in Durations, V \in VTuples, ga \in Starts}
Quarter(n) == RFrac(n, 4)
\* crop points: CropQuarters is a set of naturals n standing for (n - 1)/4, so that -1/4 is expressible
CropPoints == {Quarter(n - 1) : n \in CropQuarters}
GridOf(tm) == {t \in {Quarter(n) : n \in -1..40} : RLeq(t, RAdd(tm, RHalf))}

VARIABLES impl, abs, nops, hist, nan
vars == <<impl, abs, nops, hist, nan>>

Init == \E p \in Pieces :
          /\ impl = ISeg(p[1], p[2], p[3])
          /\ abs = ASeg(p[1], p[2], p[3])
          /\ nops = 0 /\ nan = FALSE
          /\ hist = <<[op |-> "seg", T |-> p[1], V |-> p[2], ga |-> p[3]]>>

DoCatL == \E p \in Pieces :
            /\ ISize(impl) < MaxSegs
            /\ impl' = IConcatLocal(impl, ISeg(p[1], p[2], p[3]))
            /\ abs' = ACatL(abs, ASeg(p[1], p[2], p[3])) /\ nan' = nan
            /\ hist' = Append(hist, [op |-> "catl", T |-> p[1], V |-> p[2], ga |-> p[3]])
DoCatG == \E p \in Pieces :
            /\ ISize(impl) < MaxSegs
            /\ impl' = IConcatGlobal(impl, ISeg(p[1], p[2], p[3]))
            /\ abs' = ACatG(abs, ASeg(p[1], p[2], p[3])) /\ nan' = nan
            /\ hist' = Append(hist, [op |-> "catg", T |-> p[1], V |-> p[2], ga |-> p[3]])
DoCrop == \E ta \in CropPoints, tb \in CropPoints, loc \in BOOLEAN :
            /\ RLt(RMax(ta, R0), RMin(tb, ATMax(abs)))            \* ta < tb after clamping (the property's domain)
            /\ RMax(ta, R0) \notin AJumps(abs) /\ RMin(tb, ATMax(abs)) \notin AJumps(abs)
            /\ LET r == ICrop(impl, ta, tb, loc)
               IN impl' = (IF r.ok THEN r.s ELSE impl) /\ nan' = ~r.ok
            /\ abs' = ACrop(abs, ta, tb, loc)
            /\ hist' = Append(hist, [op |-> "crop", ta |-> ta, tb |-> tb, loc |-> loc])
DoMakeLocal == /\ MakeLocalMode = "coded"
               /\ impl' = IMakeLocal(impl) /\ abs' = ALocal(abs) /\ nan' = nan
               /\ hist' = Append(hist, [op |-> "mklocal"])
Next == nops < MaxOps /\ ~nan /\ nops' = nops + 1 /\ (DoCatL \/ DoCatG \/ DoCrop \/ DoMakeLocal)
Spec == Init /\ [][Next]_vars

---------------------------------------------------------------------------
\* properties
NoNaN == ~nan
TMaxAgree == ~nan => REq(ITMax(impl), ATMax(abs))
Show3(p) == <<RToStr(p[1]), RToStr(p[2]), RToStr(p[3])>>
Refines == ~nan => \A t \in GridOf(ATMax(abs)) :
             AgreeAt(impl, abs, t)
             \/ (PrintT(<<"refinement fails at t", RToStr(t), "impl", Show3(IEval(impl, t)),
                          "absL", Show3(AEv(abs, t, "L")), "absR", Show3(AEv(abs, t, "R"))>>) /\ FALSE)
\* representation invariants of the five vectors
RepInv == ~nan =>
            /\ Len(impl.end_g) = ISize(impl) /\ Len(impl.Vs) = ISize(impl)
            /\ Len(impl.T0) = ISize(impl) /\ Len(impl.Del) = ISize(impl)
            /\ \A i \in 1..ISize(impl) : /\ RLeq(R0, impl.T0[i]) /\ RLt(R0, impl.Del[i])
                                         /\ RLeq(RAdd(impl.T0[i], impl.Del[i]), R1)
                                         /\ (i > 1 => RLt(impl.end_t[i - 1], impl.end_t[i]))
                                         /\ RLt(R0, impl.end_t[i])
\* behaviour generation: under -simulate, print the history of every finished behaviour as JSON-ish tuples
\* (small rationals as <<numerator, denominator>>)
RPair(x) == <<x[1] * (IF Len(x[2]) = 0 THEN 0 ELSE x[2][1]), x[3][1]>>
HistOut == [i \in 1..Len(hist) |->
             IF hist[i].op = "mklocal" THEN <<"mklocal">>
             ELSE IF hist[i].op = "crop" THEN <<"crop", RPair(hist[i].ta), RPair(hist[i].tb), hist[i].loc>>
             ELSE <<hist[i].op, RPair(hist[i].T), [j \in 1..K |-> RPair(hist[i].V[j])], RPair(hist[i].ga)>>]
Emit == (nops = MaxOps \/ nan) => PrintT(<<"HIST", HistOut>>)
\* the history variable is for behaviour generation only
View == <<impl, abs, nops, nan>>
=============================================================================
