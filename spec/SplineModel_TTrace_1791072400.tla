---- MODULE SplineModel_TTrace_1791072400 ----
EXTENDS SplineModel, Sequences, TLCExt, Toolbox, Naturals, TLC

_expression ==
    LET SplineModel_TEExpression == INSTANCE SplineModel_TEExpression
    IN SplineModel_TEExpression!expression
----

_trace ==
    LET SplineModel_TETrace == INSTANCE SplineModel_TETrace
    IN SplineModel_TETrace!trace
----

_inv ==
    ~(
        TLCGet("level") = Len(_TETrace)
        /\
        impl = ([end_g |-> <<<<-1, <<1>>, <<1>>>>>>, Vs |-> <<<<<<-1, <<2>>, <<1>>>>>>>>, T0 |-> <<<<1, <<1>>, <<2>>>>>>, Del |-> <<<<1, <<1>>, <<2>>>>>>, end_t |-> <<<<1, <<1>>, <<2>>>>>>, g0 |-> <<-1, <<1>>, <<1>>>>])
        /\
        hist = (<<[T |-> <<1, <<1>>, <<1>>>>, V |-> <<<<-1, <<2>>, <<1>>>>>>, ga |-> <<0, <<>>, <<1>>>>, op |-> "seg"], [op |-> "crop", ta |-> <<1, <<1>>, <<2>>>>, tb |-> <<1, <<1>>, <<1>>>>, loc |-> FALSE]>>)
        /\
        abs = ([ta |-> <<1, <<1>>, <<2>>>>, tb |-> <<1, <<1>>, <<1>>>>, loc |-> FALSE, x |-> [T |-> <<1, <<1>>, <<1>>>>, V |-> <<<<-1, <<2>>, <<1>>>>>>, ga |-> <<0, <<>>, <<1>>>>, k |-> "Seg"], k |-> "Crop"])
        /\
        nops = (1)
        /\
        nan = (FALSE)
    )
----

_init ==
    /\ nops = _TETrace[1].nops
    /\ impl = _TETrace[1].impl
    /\ abs = _TETrace[1].abs
    /\ hist = _TETrace[1].hist
    /\ nan = _TETrace[1].nan
----

_next ==
    /\ \E i,j \in DOMAIN _TETrace:
        /\ \/ /\ j = i + 1
              /\ i = TLCGet("level")
        /\ nops  = _TETrace[i].nops
        /\ nops' = _TETrace[j].nops
        /\ impl  = _TETrace[i].impl
        /\ impl' = _TETrace[j].impl
        /\ abs  = _TETrace[i].abs
        /\ abs' = _TETrace[j].abs
        /\ hist  = _TETrace[i].hist
        /\ hist' = _TETrace[j].hist
        /\ nan  = _TETrace[i].nan
        /\ nan' = _TETrace[j].nan

\* Uncomment the ASSUME below to write the states of the error trace
\* to the given file in Json format. Note that you can pass any tuple
\* to `JsonSerialize`. For example, a sub-sequence of _TETrace.
    \* ASSUME
    \*     LET J == INSTANCE Json
    \*         IN J!JsonSerialize("SplineModel_TTrace_1791072400.json", _TETrace)

=============================================================================

 Note that you can extract this module `SplineModel_TEExpression`
  to a dedicated file to reuse `expression` (the module in the 
  dedicated `SplineModel_TEExpression.tla` file takes precedence 
  over the module `SplineModel_TEExpression` below).

---- MODULE SplineModel_TEExpression ----
EXTENDS SplineModel, Sequences, TLCExt, Toolbox, Naturals, TLC

expression == 
    [
        \* To hide variables of the `SplineModel` spec from the error trace,
        \* remove the variables below.  The trace will be written in the order
        \* of the fields of this record.
        nops |-> nops
        ,impl |-> impl
        ,abs |-> abs
        ,hist |-> hist
        ,nan |-> nan
        
        \* Put additional constant-, state-, and action-level expressions here:
        \* ,_stateNumber |-> _TEPosition
        \* ,_nopsUnchanged |-> nops = nops'
        
        \* Format the `nops` variable as Json value.
        \* ,_nopsJson |->
        \*     LET J == INSTANCE Json
        \*     IN J!ToJson(nops)
        
        \* Lastly, you may build expressions over arbitrary sets of states by
        \* leveraging the _TETrace operator.  For example, this is how to
        \* count the number of times a spec variable changed up to the current
        \* state in the trace.
        \* ,_nopsModCount |->
        \*     LET F[s \in DOMAIN _TETrace] ==
        \*         IF s = 1 THEN 0
        \*         ELSE IF _TETrace[s].nops # _TETrace[s-1].nops
        \*             THEN 1 + F[s-1] ELSE F[s-1]
        \*     IN F[_TEPosition - 1]
    ]

=============================================================================



Parsing and semantic processing can take forever if the trace below is long.
 In this case, it is advised to uncomment the module below to deserialize the
 trace from a generated binary file.

\*
\*---- MODULE SplineModel_TETrace ----
\*EXTENDS SplineModel, IOUtils, TLC
\*
\*trace == IODeserialize("SplineModel_TTrace_1791072400.bin", TRUE)
\*
\*=============================================================================
\*

---- MODULE SplineModel_TETrace ----
EXTENDS SplineModel, TLC

trace == 
    <<
    ([impl |-> [end_g |-> <<<<-1, <<2>>, <<1>>>>>>, Vs |-> <<<<<<-1, <<2>>, <<1>>>>>>>>, T0 |-> <<<<0, <<>>, <<1>>>>>>, Del |-> <<<<1, <<1>>, <<1>>>>>>, end_t |-> <<<<1, <<1>>, <<1>>>>>>, g0 |-> <<0, <<>>, <<1>>>>],hist |-> <<[T |-> <<1, <<1>>, <<1>>>>, V |-> <<<<-1, <<2>>, <<1>>>>>>, ga |-> <<0, <<>>, <<1>>>>, op |-> "seg"]>>,abs |-> [T |-> <<1, <<1>>, <<1>>>>, V |-> <<<<-1, <<2>>, <<1>>>>>>, ga |-> <<0, <<>>, <<1>>>>, k |-> "Seg"],nops |-> 0,nan |-> FALSE]),
    ([impl |-> [end_g |-> <<<<-1, <<1>>, <<1>>>>>>, Vs |-> <<<<<<-1, <<2>>, <<1>>>>>>>>, T0 |-> <<<<1, <<1>>, <<2>>>>>>, Del |-> <<<<1, <<1>>, <<2>>>>>>, end_t |-> <<<<1, <<1>>, <<2>>>>>>, g0 |-> <<-1, <<1>>, <<1>>>>],hist |-> <<[T |-> <<1, <<1>>, <<1>>>>, V |-> <<<<-1, <<2>>, <<1>>>>>>, ga |-> <<0, <<>>, <<1>>>>, op |-> "seg"], [op |-> "crop", ta |-> <<1, <<1>>, <<2>>>>, tb |-> <<1, <<1>>, <<1>>>>, loc |-> FALSE]>>,abs |-> [ta |-> <<1, <<1>>, <<2>>>>, tb |-> <<1, <<1>>, <<1>>>>, loc |-> FALSE, x |-> [T |-> <<1, <<1>>, <<1>>>>, V |-> <<<<-1, <<2>>, <<1>>>>>>, ga |-> <<0, <<>>, <<1>>>>, k |-> "Seg"], k |-> "Crop"],nops |-> 1,nan |-> FALSE])
    >>
----


=============================================================================

---- CONFIG SplineModel_TTrace_1791072400 ----
CONSTANTS
    K = 1
    MaxOps = 2
    MaxSegs = 3
    CropVariant = "upstream"
    DurHalves = { 2 , 4 }
    CropQuarters = { 0 , 1 , 3 , 5 , 7 , 9 , 11 , 14 }
    NV = 2
    StartVals = { 0 , 1 }

INVARIANT
    _inv

CHECK_DEADLOCK
    \* CHECK_DEADLOCK off because of PROPERTY or INVARIANT above.
    FALSE

INIT
    _init

NEXT
    _next

CONSTANT
    _TETrace <- _trace

ALIAS
    _expression
=============================================================================
\* Generated on Sun Oct 04 00:06:46 UTC 2026