CONSTANTS
  K = 2
  MaxOps = 4
  MaxSegs = 5
  CropVariant = "fixed"
  DurHalves = {1, 2, 4}
  CropQuarters = {0, 1, 2, 3, 4, 5, 6, 7, 9, 11, 13, 14, 17}
  NV = 3
  StartVals = {0, 1}
INIT Init
NEXT Next
INVARIANT NoNaN
INVARIANT TMaxAgree
INVARIANT Refines
INVARIANT RepInv
INVARIANT Emit
CHECK_DEADLOCK FALSE
