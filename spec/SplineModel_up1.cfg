CONSTANTS
  K = 1
  MaxOps = 2
  MaxSegs = 3
  CropVariant = "upstream"
  DurHalves = {2, 4}
  CropQuarters = {0, 1, 3, 5, 7, 9, 11, 14}
  NV = 2
  StartVals = {0, 1}
INIT Init
NEXT Next
VIEW View
INVARIANT NoNaN
INVARIANT TMaxAgree
INVARIANT Refines
INVARIANT RepInv
CHECK_DEADLOCK FALSE
