----------------------------- MODULE SplineRef ------------------------------
(* Reference semantics of piecewise cumulative-Bezier curves on an arbitrary   *)
(* matrix Lie group, in matrix space and exact (certified) arithmetic:          *)
(*   one segment:  x(u) = prod_{i=1..K} Exp(Btilde_i(u) V_i)                    *)
(* with the cumulative Bernstein basis Btilde_i = sum_{j>=i} b_{j,K}, and its   *)
(* body-frame first and second derivatives obtained by the Leibniz rule on      *)
(* exact matrices (no Ad-transport recursion):                                  *)
(*   hat(vel_u) = x^-1 x' = sum_i b_i' C_i,     C_i = P_i^-1 hat(V_i) P_i,      *)
(*   hat(acc_u) = sum_i ( b_i'' C_i + b_i' (C_i Q_i - Q_i C_i) ),               *)
(*   P_i = E_{i+1} ... E_K,   Q_i = P_i^-1 P_i' = sum_{j>i} b_j' C_j.           *)
(* Curves are expression trees  Seg | CV | CatL | CatG | Crop  whose one-sided  *)
(* evaluation AEvG implements the equations of property C12.                    *)
EXTENDS Tol

RECURSIVE BinomR(_, _)
BinomR(n, k) == IF k = 0 \/ k = n THEN 1 ELSE BinomR(n - 1, k - 1) + BinomR(n - 1, k)
BernR(j, n, u) == IF j < 0 \/ j > n THEN R0
                  ELSE RMul(RFromInt(BinomR(n, j)), RMul(RPowInt(u, j), RPowInt(RSub(R1, u), n - j)))
RECURSIVE CumFromR(_, _, _)
CumFromR(k, j, u) == IF j > k THEN R0 ELSE RAdd(BernR(j, k, u), CumFromR(k, j + 1, u))
CumB(k, i, u) == CumFromR(k, i, u)
DCumB(k, i, u) == RMul(RFromInt(k), BernR(i - 1, k - 1, u))
D2CumB(k, i, u) == IF k < 2 THEN R0
                   ELSE RMul(RFromInt(k * (k - 1)), RSub(BernR(i - 2, k - 2, u), BernR(i - 1, k - 2, u)))

\* one segment, relative to its start, at parameter u:  <<matrix, hat(vel_u), hat(acc_u)>>
RECURSIVE SuffixProds(_, _, _)
SuffixProds(E, i, acc) ==    \* acc = <<P_i, P_{i+1}, ..., P_K>> built from the back; P_K = I
  IF i = 0 THEN acc
  ELSE SuffixProds(E, i - 1, <<MRound(MMul(E[i + 1], acc[1]), 300)>> \o acc)
RECURSIVE MSumSeq(_, _, _)
MSumSeq(Ms, i, acc) == IF i > Len(Ms) THEN acc ELSE MSumSeq(Ms, i + 1, MAdd(acc, Ms[i]))
SegEvalG(g, k, V, u) ==
  LET d == Dim(g)
      A == RForce([i \in 1..k |-> GHat(g, V[i])])
      E == RForce([i \in 1..k |-> ExpM(MScale(CumB(k, i, u), A[i]))])
      \* P[i] = E_{i+1} ... E_K  (P[k] = I)
      P == SuffixProds(E, k - 1, <<MId(d)>>)
      C == RForce([i \in 1..k |-> MRound(MMul(MMul(MInvD(P[i]), A[i]), P[i]), 300)])
      b1 == [i \in 1..k |-> DCumB(k, i, u)]
      b2 == [i \in 1..k |-> D2CumB(k, i, u)]
      Z == MZero(d, d)
      \* Q[i] = sum_{j > i} b_j' C_j
      Q == RForce([i \in 1..k |-> MSumSeq([j \in 1..(k - i) |-> MScale(b1[i + j], C[i + j])], 1, Z)])
      velH == MSumSeq([i \in 1..k |-> MScale(b1[i], C[i])], 1, Z)
      accH == MSumSeq([i \in 1..k |->
                 MAdd(MScale(b2[i], C[i]), MScale(b1[i], MSub(MMul(C[i], Q[i]), MMul(Q[i], C[i]))))], 1, Z)
  IN <<MRound(MMul(E[1], P[1]), 300), velH, accH>>

\* expression trees (g: group descriptor, k: degree are passed alongside)
GSeg(T, V, ga) == [k |-> "Seg", T |-> T, V |-> V, ga |-> ga]          \* ga: coefficient vector
GCV(T, v, ga) == [k |-> "CV", T |-> T, v |-> v, ga |-> ga]            \* constant body velocity v
GEmpty(ga) == [k |-> "Empty", ga |-> ga]
GCatL(x1, x2) == [k |-> "CatL", x1 |-> x1, x2 |-> x2]
GCatG(x1, x2) == [k |-> "CatG", x1 |-> x1, x2 |-> x2]
GCrop(x, ta, tb, loc) == [k |-> "Crop", x |-> x, ta |-> ta, tb |-> tb, loc |-> loc]

RECURSIVE GTMax(_)
GTMax(c) ==
  CASE c.k = "Empty" -> R0
    [] c.k \in {"Seg", "CV"} -> c.T
    [] c.k \in {"CatL", "CatG"} -> RAdd(GTMax(c.x1), GTMax(c.x2))
    [] c.k = "Crop" -> LET a == RMax(c.ta, R0)  b == RMin(c.tb, GTMax(c.x))
                       IN IF RLeq(b, a) THEN R0 ELSE RSub(b, a)

\* one-sided evaluation: <<matrix, vel (tangent vector), acc (tangent vector)>>
RECURSIVE AEvG(_, _, _, _, _)
AEvG(g, k, c, t, side) ==
  LET n == Dof(g)  zero == VZero(n) IN
  CASE c.k = "Empty" -> <<GMat(g, c.ga), zero, zero>>
    [] c.k = "Seg" ->
         IF RLt(t, R0) \/ (REq(t, R0) /\ side = "L") THEN <<GMat(g, c.ga), zero, zero>>
         ELSE IF RLt(c.T, t) \/ (REq(t, c.T) /\ side = "R")
              THEN <<MMul(GMat(g, c.ga), SegEvalG(g, k, c.V, R1)[1]), zero, zero>>
         ELSE LET r == SegEvalG(g, k, c.V, RDiv(t, c.T))
              IN <<MMul(GMat(g, c.ga), r[1]),
                   VScale(RDiv(R1, c.T), GVee(g, r[2])),
                   VScale(RDiv(R1, RSq(c.T)), GVee(g, r[3]))>>
    [] c.k = "CV" ->
         IF RLt(t, R0) \/ (REq(t, R0) /\ side = "L") THEN <<GMat(g, c.ga), zero, zero>>
         ELSE IF RLt(c.T, t) \/ (REq(t, c.T) /\ side = "R")
              THEN <<MMul(GMat(g, c.ga), ExpM(MScale(c.T, GHat(g, c.v)))), zero, zero>>
         ELSE <<MMul(GMat(g, c.ga), ExpM(MScale(t, GHat(g, c.v)))), c.v, zero>>
    [] c.k = "CatL" ->
         LET t1 == GTMax(c.x1)
         IN IF RLt(t, t1) \/ (REq(t, t1) /\ side = "L") THEN AEvG(g, k, c.x1, t, side)
            ELSE LET r == AEvG(g, k, c.x2, RSub(t, t1), side)
                     e1 == AEvG(g, k, c.x1, t1, "L")[1]
                 IN <<MRound(MMul(e1, r[1]), 300), r[2], r[3]>>
    [] c.k = "CatG" ->
         LET t1 == GTMax(c.x1)
         IN IF RLt(t, t1) \/ (REq(t, t1) /\ side = "L") THEN AEvG(g, k, c.x1, t, side)
            ELSE AEvG(g, k, c.x2, RSub(t, t1), side)
    [] c.k = "Crop" ->
         LET a == RMax(c.ta, R0)  b == RMin(c.tb, GTMax(c.x))  T == RSub(b, a)
             ref == AEvG(g, k, c.x, a, "R")[1]
             Loc(M) == IF c.loc THEN MRound(MMul(MInvD(ref), M), 300) ELSE M
         IN IF RLeq(b, a) THEN <<MId(Dim(g)), zero, zero>>
            ELSE IF RLt(t, R0) \/ (REq(t, R0) /\ side = "L") THEN <<Loc(ref), zero, zero>>
            ELSE IF RLt(T, t) \/ (REq(t, T) /\ side = "R") THEN <<Loc(AEvG(g, k, c.x, b, "L")[1]), zero, zero>>
            ELSE LET r == AEvG(g, k, c.x, RAdd(a, t), side) IN <<Loc(r[1]), r[2], r[3]>>

\* all breakpoints of a curve (segment boundaries, 0 and t_max), as a set of rationals
RECURSIVE GKnots(_)
GKnots(c) ==
  CASE c.k = "Empty" -> {R0}
    [] c.k \in {"Seg", "CV"} -> {R0, c.T}
    [] c.k \in {"CatL", "CatG"} -> GKnots(c.x1) \cup {RAdd(GTMax(c.x1), t) : t \in GKnots(c.x2)}
    [] c.k = "Crop" -> LET a == RMax(c.ta, R0)  b == RMin(c.tb, GTMax(c.x))
                       IN IF RLeq(b, a) THEN {R0}
                          ELSE {R0, RSub(b, a)} \cup {RSub(t, a) : t \in {x \in GKnots(c.x) : RLt(a, x) /\ RLt(x, b)}}

\* breakpoints at which the VALUE may jump (junctions of CatG; of CatL when x2 does not start at the identity)
RECURSIVE GJumps(_, _, _)
GJumps(g, k, c) ==
  CASE c.k \in {"Empty", "Seg", "CV"} -> {}
    [] c.k = "CatL" -> GJumps(g, k, c.x1) \cup {RAdd(GTMax(c.x1), t) : t \in GJumps(g, k, c.x2)}
                       \cup (IF REq(MaxAbsDiff(AEvG(g, k, c.x2, R0, "R")[1], MId(Dim(g))), R0) THEN {} ELSE {GTMax(c.x1)})
    [] c.k = "CatG" -> GJumps(g, k, c.x1) \cup {GTMax(c.x1)} \cup {RAdd(GTMax(c.x1), t) : t \in GJumps(g, k, c.x2)}
    [] c.k = "Crop" -> LET a == RMax(c.ta, R0)
                       IN {RSub(t, a) : t \in {x \in GJumps(g, k, c.x) : RLt(a, x) /\ RLt(x, RMin(c.tb, GTMax(c.x)))}}
=============================================================================
