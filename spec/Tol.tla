-------------------------------- MODULE Tol ---------------------------------
(* The tolerance schedule: every number here is copied from properties.jsonl.  *)
(* Metrics are fixed here so that the checks cannot drift.                     *)
EXTENDS Groups

RECURSIVE Pow10(_)
Pow10(k) == IF k = 0 THEN R1 ELSE IF k > 0 THEN RMul(RFromInt(10), Pow10(k - 1)) ELSE RDiv(Pow10(k + 1), RFromInt(10))
\* m * 10^k
Dec(m, k) == RMul(RFromInt(m), Pow10(k))

IsF(sc) == sc = "f"

\* C01: 1e-12 double / 1e-5 single
TolC01(sc) == IF IsF(sc) THEN Dec(1, -5) ELSE Dec(1, -12)
\* C02: 1e-9 / 1e-3 ; inside the pi band 1e-7 / 1e-2
TolC02(sc, inBand) ==
  IF inBand THEN (IF IsF(sc) THEN Dec(1, -2) ELSE Dec(1, -7))
  ELSE (IF IsF(sc) THEN Dec(1, -3) ELSE Dec(1, -9))
\* width of the pi band: 1e-5 double / 1e-2 single
BandC02(sc) == IF IsF(sc) THEN Dec(1, -2) ELSE Dec(1, -5)
\* C03 states exact identities; rounding allowance as for C01
TolC03(sc) == TolC01(sc)
\* C04: 1e-7 / 1e-2 relative to the largest entry
TolC04(sc) == IF IsF(sc) THEN Dec(1, -2) ELSE Dec(1, -7)
\* C05: 1e-5 relative to the largest entry (double only)
TolC05(sc) == Dec(1, -5)

\* unit round-off of the scalar type (for domain checks on operands)
Ulp(sc) == IF IsF(sc) THEN RPow2(-23) ELSE RPow2(-52)

\* | X - Y | <= tol * max(1, max|Y|)      (group elements in matrix space, tangent vectors)
RelOkM(X, Y, tol) == RLeq(MaxAbsDiff(X, Y), RMul(tol, RMax(R1, MaxAbs(Y))))
RelOkV(x, y, tol) == RLeq(VMaxAbsDiff(x, y), RMul(tol, RMax(R1, VMaxAbs(y))))
RelErrM(X, Y) == RDiv(MaxAbsDiff(X, Y), RMax(R1, MaxAbs(Y)))
RelErrV(x, y) == RDiv(VMaxAbsDiff(x, y), RMax(R1, VMaxAbs(y)))
\* | X - Y | <= tol * max|Y|   (Jacobians / Hessians, "relative to their largest entry");
\* if Y = 0 then X must be exactly 0
ToMaxOkM(X, Y, tol) == RLeq(MaxAbsDiff(X, Y), RMul(tol, MaxAbs(Y)))
ToMaxErrM(X, Y) == IF RSign(MaxAbs(Y)) = 0 THEN MaxAbsDiff(X, Y) ELSE RDiv(MaxAbsDiff(X, Y), MaxAbs(Y))

---------------------------------------------------------------------------
\* theta strata (DESIGN.md 3.5), decided on the squared rotation norm t2
Sq(m, k) == RSq(Dec(m, k))
ThetaStratum(t2) ==
  LET piLo2 == RSq(PiLo)
      lt(x) == RLt(t2, x)
  IN  IF RSign(t2) = 0 THEN "S00"
      ELSE IF lt(Sq(1, -8)) THEN "S01"
      ELSE IF lt(Sq(1, -5)) THEN "S02"
      ELSE IF lt(Sq(9, -5)) THEN "S03"
      ELSE IF RLeq(t2, Sq(11, -5)) THEN "S04"
      ELSE IF RLeq(t2, Sq(1, -3)) THEN "S05"
      ELSE IF RLeq(t2, Sq(1, -2)) THEN "S06"
      ELSE IF RLeq(t2, R1) THEN "S07"
      ELSE IF RLeq(t2, RSq(RSub(PiLo, Dec(1, -3)))) THEN "S08"
      ELSE IF RLeq(t2, RSq(RSub(PiLo, Dec(1, -5)))) THEN "S09"
      ELSE IF lt(RSq(RAdd(PiHi, Dec(1, -5)))) THEN "S10"
      ELSE IF RLeq(t2, RMul(RFromInt(4), RSq(PiHi))) THEN "S11"
      ELSE "S12"
=============================================================================
