INIT Init
NEXT Next
INVARIANT Report
VIEW View
CHECK_DEADLOCK FALSE
