---------------------------- MODULE TraceBSpline ----------------------------
(* Trace specification for the "bspline" harness family (property C13).        *)
(* Every line of the trace is one call of the real smooth::BSpline<K,G> with    *)
(* all operands and results logged as exact rationals.                          *)
(*                                                                              *)
(* The oracle is the mathematical definition, evaluated here over exact         *)
(* rationals:                                                                   *)
(*   Eval(t) = g_i * prod_{j=1..K} exp( Btilde_j(u) log(g_{i+j-1}^-1 g_{i+j}) )  *)
(* with (i, u) the window of the design model BSplineIndex (operators of        *)
(* BSplineOps: exact truncation / clamping of (t-t0)/dt), Btilde_j the          *)
(* cumulative cardinal B-spline basis by the Cox-de Boor recursion, exp the      *)
(* matrix exponential of the documented Lie-algebra matrix (module Groups) and   *)
(* the products ordinary matrix products.  The logarithms of the control-point   *)
(* differences are WITNESSES logged by the harness (the library's own rminus);   *)
(* they are verified relationally with the specification's exponential           *)
(* (exp(hat v) = g_{j-1}^-1 g_j to 1e-13, rotation norm < pi) before use.        *)
(* Velocity and acceleration are obtained by the Leibniz rule on exact           *)
(* matrices:  E_j' = b_j' V_j E_j,  E_j'' = (b_j'' V_j + b_j'^2 V_j^2) E_j,       *)
(*   vel = vee(g^-1 g') / dt,   acc = vee(g^-1 g'' - (g^-1 g')^2) / dt^2         *)
(* - no Ad-transport recursion, no basis coefficient matrix, nothing shared with *)
(* the implementation.                                                          *)
(*                                                                              *)
(* At a knot (t within 4 ulp of t0 + k dt) the code may legitimately select      *)
(* either neighbouring window (floating truncation of (t-t0)/dt): the action     *)
(* accepts the outputs of either, so derivatives of order >= K never raise an     *)
(* alarm.                                                                       *)
(* Clauses: C13.domain, C13.value, C13.deriv, C13.smooth, C13.local, C13.const,  *)
(* C13.equiv (DESIGN.md Appendix C).  A bad step never stops validation.         *)
EXTENDS Tol, BSplineOps, Json, IOUtils, TLC

TraceFile == IOEnv.TRACE
OutFile == IOEnv.VERDICT
Tr == ndJsonDeserialize(TraceFile)

VARIABLES l, bad, cov, sp
vars == <<l, bad, cov, sp>>

---------------------------------------------------------------------------
\* reading logged numbers
FinQ(q) == q[4] < 100000
FinV(v) == \A i \in 1..Len(v) : FinQ(v[i])
FinM(m) == \A i \in 1..Len(m) : FinV(m[i])
V(v) == RVecFromDoubles(v)
M(m) == RMatFromDoubles(m)
Q(q) == RFromDouble(q)

Fail(clause, err, tol) == <<[clause |-> clause, err |-> RToStr(err), tol |-> RToStr(tol)]>>
Chk(clause, ok, err, tol) == IF ok THEN <<>> ELSE Fail(clause, err, tol)
Tool(what, detail) == <<[clause |-> "TOOL." \o what, err |-> detail, tol |-> ""]>>
NonFinite(clause) == <<[clause |-> clause, err |-> "non-finite", tol |-> "finite"]>>

---------------------------------------------------------------------------
\* tolerances of the property.  The oracle itself is within 2^-100 of the curve defined by the
\* verified witnesses; a witness verified to 1e-13 moves that curve by less than 1/16 of the value
\* tolerance, which is added on the safe side.
Slack == RAdd(R1, RPow2(-4))
TolVal == RMul(Dec(1, -9), Slack)          \* value: 1e-9, |X - Y| <= tol max(1, max|Y|), matrix space
TolDer == RMul(Dec(1, -7), Slack)          \* derivatives: 1e-7 relative to the largest entry
TolWit == Dec(1, -13)                       \* verification of a logarithm witness
\* absolute floor for derivative outputs whose exact value is (nearly) zero: 1e-9 / dt^p
DerFloor(dt, p) == RDiv(Dec(1, -9), RPowInt(dt, p))
\* x against the exact y
DerOk(x, y, dt, p) == RLeq(VMaxAbsDiff(x, y), RAdd(RMul(TolDer, VMaxAbs(y)), DerFloor(dt, p)))
\* two library outputs against each other
DerAgree(x, y, dt, p) == RLeq(VMaxAbsDiff(x, y), RAdd(RMul(TolDer, RMax(VMaxAbs(x), VMaxAbs(y))), DerFloor(dt, p)))
DerErr(x, y) == IF RSign(VMaxAbs(y)) = 0 THEN VMaxAbsDiff(x, y) ELSE RDiv(VMaxAbsDiff(x, y), VMaxAbs(y))

---------------------------------------------------------------------------
\* matrix exponential of a Lie-algebra matrix of group g; for a Bundle the matrix is block diagonal
\* and so is its exponential (evaluated block by block)
RECURSIVE ExpG(_, _)
ExpG(g, A) ==
  IF g.k = "B"
  THEN BlockDiag(RForce([i \in 1..Len(g.parts) |->
         LET d == Dim(g.parts[i])  o == DimOff(g, i) IN ExpG(g.parts[i], Block(A, o, o, d, d))]))
  ELSE ExpM(A)

RECURSIVE MaxSeq(_, _)
MaxSeq(s, k) == IF k = 0 THEN R0 ELSE RMax(s[k], MaxSeq(s, k - 1))
MaxTheta2(g, a) == LET r == GRotNorm2(g, a) IN MaxSeq(r, Len(r))
UnitResid(g, c) == LET r == GUnitResiduals(g, c) IN MaxSeq(r, Len(r))

RD(X) == MRound(X, 300)

---------------------------------------------------------------------------
\* a spline definition event -> the record kept in the state
\* e: op="spline", slot, kind, idx, K, N, g, t0, dt, ctrl (N x Rep), lg (N-1 x Dof), tmin, tmax, dtq, npts, [h]
SplineRec(e) ==
  LET g == e.g  n == e.N  k == e.K
      C == M(e.ctrl)
      Ms == RForce([j \in 1..n |-> GMat(g, C[j])])
      W == M(e.lg)
      H == RForce([j \in 1..(n - 1) |-> GHat(g, W[j])])
      \* witness verification: exp(hat(w_j)) = M_j^-1 M_{j+1}
      D == RForce([j \in 1..(n - 1) |-> MMul(MInvD(Ms[j]), Ms[j + 1])])
      R == RForce([j \in 1..(n - 1) |-> MaxAbsDiff(ExpG(g, H[j]), D[j])])
  IN [ok |-> TRUE, K |-> k, N |-> n, g |-> g, kind |-> e.kind, idx |-> e.idx,
      t0 |-> Q(e.t0), dt |-> Q(e.dt), C |-> C, Ms |-> Ms, W |-> W, H |-> H, D |-> D, R |-> R,
      h |-> IF "h" \in DOMAIN e THEN V(e.h) ELSE <<>>]

SplineFinite(e) == FinQ(e.t0) /\ FinQ(e.dt) /\ FinM(e.ctrl) /\ FinM(e.lg) /\ FinQ(e.tmin) /\ FinQ(e.tmax)

\* domain of the property, re-derived from the logged operands (a failure here is a harness error)
RECURSIVE WitnessProblems(_, _)
WitnessProblems(s, j) ==
  IF j = 0 THEN <<>>
  ELSE WitnessProblems(s, j - 1)
       \o (IF RLeq(s.R[j], RMul(TolWit, RMax(R1, MaxAbs(s.D[j])))) THEN <<>> ELSE Tool("witness", "log witness rejected"))
       \o (IF RLt(MaxTheta2(s.g, s.W[j]), RSq(PiLo)) THEN <<>> ELSE Tool("domain", "difference outside the injectivity radius"))
RECURSIVE UnitProblems(_, _)
UnitProblems(s, j) ==
  IF j = 0 THEN <<>>
  ELSE UnitProblems(s, j - 1)
       \o (IF RLeq(UnitResid(s.g, s.C[j]), Dec(1, -12)) THEN <<>> ELSE Tool("domain", "control point not a group element"))

Ulp52(x) == RMul(RPow2(-52), x)
TMaxX(s) == TMaxExact(s.K, s.N, s.t0, s.dt)

SplineDomainProblems(e, s) ==
  (IF s.K >= 1 /\ s.K <= 6 /\ s.N >= s.K + 1 /\ s.N <= 30 /\ RSign(s.dt) > 0 /\ Len(e.ctrl) = s.N /\ Len(e.lg) = s.N - 1
      /\ e.npts = s.N /\ REq(Q(e.dtq), s.dt)
   THEN UnitProblems(s, s.N) \o WitnessProblems(s, s.N - 1)
   ELSE Tool("domain", "spline shape"))

\* C13.domain: t_min = t0, t_max = t0 + (N-K) dt (4 ulp of the larger operand on the computed end)
SplineChecks(e, s) ==
  LET tmx == TMaxX(s)
      scale == RMax(RAbs(s.t0), RMax(RAbs(RSub(tmx, s.t0)), RAbs(tmx)))
      err == RAbs(RSub(Q(e.tmax), tmx))
  IN Chk("C13.domain.tmin", REq(Q(e.tmin), TMinCode(s.t0)), RAbs(RSub(Q(e.tmin), s.t0)), R0)
     \o Chk("C13.domain.tmax", RLeq(err, RMul(RI(4), Ulp52(scale))), err, RMul(RI(4), Ulp52(scale)))

---------------------------------------------------------------------------
\* the oracle: value matrix, body velocity, body acceleration of window i (0-based) at offset u
EvalWin(s, i, u) ==
  LET g == s.g  k == s.K  d == Dim(g)
      c3 == BasisCum3T(k, u)  c0 == c3[1]  c1 == c3[2]  c2 == c3[3]
      b0 == RForce([j \in 1..k |-> RRound(c0[j], 200)])
      b1 == RForce([j \in 1..k |-> RRound(c1[j], 200)])
      b2 == RForce([j \in 1..k |-> RRound(c2[j], 200)])
      Z == MZero(d, d)
      Mult(acc, j) ==
        LET Hj == s.H[i + j]
            E == ExpG(g, MScale(b0[j], Hj))
            HE == MMul(Hj, E)
            E1 == MScale(b1[j], HE)
            E2 == MAdd(MScale(b2[j], HE), MScale(RSq(b1[j]), MMul(Hj, HE)))
            G0 == acc[1]  G1 == acc[2]  G2 == acc[3]
        IN << RD(MMul(G0, E)),
              RD(MAdd(MMul(G1, E), MMul(G0, E1))),
              RD(MAdd(MAdd(MMul(G2, E), MScale(R2, MMul(G1, E1))), MMul(G0, E2))) >>
      F == LET RECURSIVE Fold(_, _)
               Fold(acc, j) == IF j > k THEN acc ELSE Fold(Mult(acc, j), j + 1)
           IN Fold(<<s.Ms[i + 1], Z, Z>>, 1)
      Gi == MInvD(F[1])
      Wm == RD(MMul(Gi, F[2]))
      Am == MSub(RD(MMul(Gi, F[3])), MMul(Wm, Wm))
  IN [val |-> F[1],
      vel |-> VScale(RDiv(R1, s.dt), GVee(g, Wm)),
      acc |-> VScale(RDiv(R1, RSq(s.dt)), GVee(g, Am))]

\* position of t relative to the spline's knots
SNorm(s, t) == RDiv(RSub(t, s.t0), s.dt)
InDomain(s, t) == RLeq(s.t0, t) /\ RLeq(t, TMaxX(s))
UlpAt(s, t) == Ulp52(RMax(RAbs(t), RMax(RAbs(s.t0), RAbs(RSub(t, s.t0)))))
\* nearest knot index, or -1 when t is further than 1/2 from the knot range
NearestKnot(s, t) ==
  LET x == SNorm(s, t)
  IN IF RLt(x, RI(-1)) \/ RLt(RI(s.N - s.K + 1), x) THEN -1
     ELSE LET k == RFloorInt(RAdd(x, RHalf)) IN IF k < 0 \/ k > s.N - s.K THEN -1 ELSE k
KnotTime(s, k) == RAdd(s.t0, RMul(RI(k), s.dt))
\* the knot within n ulp of t, or -1
KnotWithin(s, t, n) ==
  LET k == NearestKnot(s, t)
  IN IF k >= 0 /\ RLeq(RAbs(RSub(t, KnotTime(s, k))), RMul(RI(n), UlpAt(s, t))) THEN k ELSE -1

\* admissible windows: the design model's (exact arithmetic) window first, then - within 4 ulp of knot k -
\* the two neighbouring windows at their common end
Windows(s, t) ==
  LET cw == CodeWindow(s.K, s.N, s.t0, s.dt, t)
      k == KnotWithin(s, t, 4)
      last == s.N - s.K - 1
  IN <<cw>> \o (IF k >= 1 /\ k - 1 <= last THEN << <<k - 1, R1>> >> ELSE <<>>)
            \o (IF k >= 0 /\ k <= last THEN << <<k, R0>> >> ELSE <<>>)

Pos(s, t) ==
  IF RLt(t, s.t0) THEN "below"
  ELSE IF RLt(TMaxX(s), t) THEN "above"
  ELSE IF KnotWithin(s, t, 4) >= 0 THEN "knot"
  ELSE "inside"

\* one evaluation (val coefficients, vel, acc as logged) against one window
OutFinite(val, vel, acc) == FinV(val) /\ FinV(vel) /\ FinV(acc)
CheckWin(s, t, w, val, vel, acc) ==
  LET o == EvalWin(s, w[1], w[2])
      X == GMat(s.g, val)
      inD == InDomain(s, t)
      vclause == IF inD THEN "C13.value" ELSE "C13.domain.end"
  IN Chk(vclause, RelOkM(X, o.val, TolVal), RelErrM(X, o.val), TolVal)
     \o Chk("C13.value.unit", RLeq(UnitResid(s.g, val), Dec(1, -9)), UnitResid(s.g, val), Dec(1, -9))
     \o (IF inD
         THEN Chk("C13.deriv.vel", DerOk(vel, o.vel, s.dt, 1), DerErr(vel, o.vel), TolDer)
              \o Chk("C13.deriv.acc", DerOk(acc, o.acc, s.dt, 2), DerErr(acc, o.acc), TolDer)
         ELSE <<>>)

\* accept the outputs of any admissible window; report against the design model's window
\* result: <<failures, index of the accepted window (0 = none)>>
CheckEval(s, t, val, vel, acc) ==
  LET ws == Windows(s, t)
      r1 == CheckWin(s, t, ws[1], val, vel, acc)
  IN IF r1 = <<>> THEN <<r1, 1>>
     ELSE IF Len(ws) >= 2 /\ CheckWin(s, t, ws[2], val, vel, acc) = <<>> THEN << <<>>, 2>>
     ELSE IF Len(ws) >= 3 /\ CheckWin(s, t, ws[3], val, vel, acc) = <<>> THEN << <<>>, 3>>
     ELSE <<r1, 0>>

---------------------------------------------------------------------------
\* events
KStr(s) == ToString(s.K)

TEval(e) ==
  LET s == sp[e.slot]  t == Q(e.t)
  IN IF ~s.ok THEN [bad |-> Tool("order", "eval before spline"), key |-> "eval|?"]
     ELSE IF ~FinQ(e.t) THEN [bad |-> Tool("domain", "time not finite"), key |-> "eval|?"]
     ELSE IF ~OutFinite(e.val, e.vel, e.acc) THEN [bad |-> NonFinite("C13.value"), key |-> "eval|K" \o KStr(s) \o "|nonfinite"]
     ELSE LET r == CheckEval(s, t, V(e.val), V(e.vel), V(e.acc))
          IN [bad |-> r[1],
              key |-> "eval|K" \o KStr(s) \o "|" \o Pos(s, t) \o (IF r[2] >= 2 THEN ".otherwindow" ELSE "") \o (IF s.kind = "const" THEN ".const" ELSE "")]

\* outputs of order <= K-1 agree from both sides of a knot
TSmooth(e) ==
  LET s == sp[e.slot]  ta == Q(e.t)  tb == Q(e.tb)
  IN IF ~s.ok THEN [bad |-> Tool("order", "smooth before spline"), key |-> "smooth|?"]
     ELSE IF ~(FinQ(e.t) /\ FinQ(e.tb)) THEN [bad |-> Tool("domain", "time not finite"), key |-> "smooth|?"]
     ELSE LET k == NearestKnot(s, ta)
              tk == KnotTime(s, IF k < 0 THEN 0 ELSE k)
              \* close together and close to a knot: 32 ulp of the larger of |t|, |t0|, dt
              \* (the drift of the curve over such a distance is negligible)
              near == RMul(RI(32), Ulp52(RMax(RMax(RAbs(ta), RAbs(tb)), RMax(RAbs(s.t0), s.dt))))
              straddles == k >= 0 /\ RLt(ta, tb) /\ RLeq(RSub(tb, ta), near)
                           /\ RLeq(RAbs(RSub(ta, tk)), near) /\ RLeq(RAbs(RSub(tb, tk)), near)
              across == RLeq(ta, tk) /\ RLeq(tk, tb)       \* the exact knot lies between the two times
          IN IF ~straddles THEN [bad |-> Tool("domain", "smooth pair does not straddle a knot"), key |-> "smooth|?"]
             ELSE IF ~(OutFinite(e.val, e.vel, e.acc) /\ OutFinite(e.valb, e.velb, e.accb))
             THEN [bad |-> NonFinite("C13.smooth.value"), key |-> "smooth|K" \o KStr(s) \o "|nonfinite"]
             ELSE
               LET Xa == GMat(s.g, V(e.val))  Xb == GMat(s.g, V(e.valb))
                   va == V(e.vel)  vb == V(e.velb)  aa == V(e.acc)  ab == V(e.accb)
                   \* The curve itself moves between ta and tb.  When the two times are closer than 2^-36 dt
                   \* the motion is negligible for the derivative outputs and bounded for the value by
                   \* |dX| <= |X| |hat(vel)| (tb - ta).  Otherwise (large |t0|: neighbouring doubles are a
                   \* sizeable fraction of a knot interval apart) the motion of the exact curve between the two
                   \* times is computed from the oracle and allowed for, order by order (orders <= K-1 of the
                   \* exact curve are continuous, so the choice of window at the knot does not matter).
                   coarse == RLt(RMul(RPow2(-36), s.dt), RSub(tb, ta))
                   wa == CodeWindow(s.K, s.N, s.t0, s.dt, ta)
                   wb == CodeWindow(s.K, s.N, s.t0, s.dt, tb)
                   oa == EvalWin(s, wa[1], wa[2])
                   ob == EvalWin(s, wb[1], wb[2])
                   drift == IF coarse THEN MaxAbsDiff(oa.val, ob.val)
                            ELSE RMul(RMul(RI(4 * Dim(s.g)), RSub(tb, ta)),
                                      RMul(RMax(R1, MaxAbs(Xa)), RAdd(VMaxAbs(va), VMaxAbs(vb))))
                   dvel == IF coarse THEN VMaxAbsDiff(oa.vel, ob.vel) ELSE R0
                   dacc == IF coarse THEN VMaxAbsDiff(oa.acc, ob.acc) ELSE R0
                   tolv == RAdd(RMul(TolVal, RMax(R1, MaxAbs(Xa))), drift)
                   Agree(x, y, p, d) == RLeq(VMaxAbsDiff(x, y), RAdd(RAdd(RMul(TolDer, RMax(VMaxAbs(x), VMaxAbs(y))), DerFloor(s.dt, p)), d))
               IN [bad |-> Chk("C13.smooth.value", RLeq(MaxAbsDiff(Xa, Xb), tolv), MaxAbsDiff(Xa, Xb), tolv)
                           \o (IF s.K >= 2 THEN Chk("C13.smooth.vel", Agree(va, vb, 1, dvel), DerErr(va, vb), TolDer) ELSE <<>>)
                           \o (IF s.K >= 3 THEN Chk("C13.smooth.acc", Agree(aa, ab, 2, dacc), DerErr(aa, ab), TolDer) ELSE <<>>),
                   key |-> "smooth|K" \o KStr(s) \o "|" \o (IF k = 0 \/ k = s.N - s.K THEN "endknot" ELSE "knot")
                           \o (IF ~across THEN ".sameside" ELSE IF REq(ta, tk) \/ REq(tb, tk) THEN ".at" ELSE "")
                           \o (IF coarse THEN ".coarse" ELSE "")]

\* B = A with control point idx moved: same curve outside knot intervals idx-K .. idx
SameExceptOne(a, b) ==
  /\ a.K = b.K /\ a.N = b.N /\ a.g = b.g /\ REq(a.t0, b.t0) /\ REq(a.dt, b.dt)
  /\ b.idx >= 0 /\ b.idx < b.N
  /\ \A j \in 1..a.N : j = b.idx + 1 \/ (\A c \in 1..Len(a.C[j]) : REq(a.C[j][c], b.C[j][c]))
  /\ \E c \in 1..Len(a.C[b.idx + 1]) : ~REq(a.C[b.idx + 1][c], b.C[b.idx + 1][c])

TLocal(e, a, b) ==
  LET t == Q(e.t)  i == b.idx  k == a.K
      x == SNorm(a, t)
      sc == IF RSign(x) < 0 THEN R0 ELSE IF RLt(RI(a.N - k), x) THEN RI(a.N - k) ELSE x
      inside == RLt(RI(i - k), sc) /\ RLt(sc, RI(i + 1))
      kn == KnotWithin(a, t, 4)
      edge == kn >= 0 /\ (kn = i - k \/ kn = i + 1)
      inD == InDomain(a, t)
      Xa == GMat(a.g, V(e.val))  Xb == GMat(a.g, V(e.valb))
      va == V(e.vel)  vb == V(e.velb)  aa == V(e.acc)  ab == V(e.accb)
      \* orders that must agree: all away from the support; 0..K-1 at its two boundary knots
      maxord == IF edge THEN k - 1 ELSE 2
      tolv == RMul(TolVal, RMax(R1, MaxAbs(Xa)))
  \* strictly inside the support nothing is required - also next to its boundary knots, where the weight of
  \* the moved point is small but not zero (for large |t0| one ulp of t is a sizeable fraction of dt)
  IN IF inside THEN [bad |-> <<>>, key |-> "local|K" \o ToString(k) \o "|in"]
     ELSE [bad |-> Chk("C13.local.value", RLeq(MaxAbsDiff(Xa, Xb), tolv), MaxAbsDiff(Xa, Xb), tolv)
                   \o (IF inD /\ maxord >= 1 THEN Chk("C13.local.vel", DerAgree(va, vb, a.dt, 1), DerErr(va, vb), TolDer) ELSE <<>>)
                   \o (IF inD /\ maxord >= 2 THEN Chk("C13.local.acc", DerAgree(aa, ab, a.dt, 2), DerErr(aa, ab), TolDer) ELSE <<>>),
           key |-> "local|K" \o ToString(k) \o "|" \o (IF edge THEN "edge" ELSE IF inD THEN "out" ELSE "outside_domain")]

\* B = h * A (every control point): B(t) = h A(t), same body derivatives
IsLeftMultiple(a, b) ==
  /\ a.K = b.K /\ a.N = b.N /\ a.g = b.g /\ REq(a.t0, b.t0) /\ REq(a.dt, b.dt)
  /\ Len(b.h) = RepSize(a.g)
  /\ RLeq(UnitResid(a.g, b.h), Dec(1, -12))
  /\ LET Hm == GMat(a.g, b.h)
     IN \A j \in 1..a.N : RelOkM(b.Ms[j], MMul(Hm, a.Ms[j]), Dec(1, -12))

TEquiv(e, a, b) ==
  LET t == Q(e.t)
      Hm == GMat(a.g, b.h)
      Xa == GMat(a.g, V(e.val))  Xb == GMat(a.g, V(e.valb))
      Y == MMul(Hm, Xa)
      inD == InDomain(a, t)
      va == V(e.vel)  vb == V(e.velb)  aa == V(e.acc)  ab == V(e.accb)
  IN [bad |-> Chk("C13.equiv.value", RelOkM(Xb, Y, TolVal), RelErrM(Xb, Y), TolVal)
              \o (IF inD THEN Chk("C13.equiv.vel", DerAgree(va, vb, a.dt, 1), DerErr(va, vb), TolDer)
                              \o Chk("C13.equiv.acc", DerAgree(aa, ab, a.dt, 2), DerErr(aa, ab), TolDer)
                  ELSE <<>>),
      key |-> "equiv|K" \o ToString(a.K) \o "|" \o Pos(a, t)]

TRel(e) ==
  LET a == sp["A"]  b == sp["B"]
  IN IF ~(a.ok /\ b.ok) THEN [bad |-> Tool("order", "rel before both splines"), key |-> "rel|?"]
     ELSE IF ~FinQ(e.t) THEN [bad |-> Tool("domain", "time not finite"), key |-> "rel|?"]
     ELSE IF ~(OutFinite(e.val, e.vel, e.acc) /\ OutFinite(e.valb, e.velb, e.accb))
     THEN [bad |-> NonFinite(IF b.kind = "local" THEN "C13.local.value" ELSE "C13.equiv.value"), key |-> "rel|nonfinite"]
     ELSE IF b.kind = "local"
     THEN (IF b.relok THEN TLocal(e, a, b)
           ELSE [bad |-> Tool("domain", "B is not A with one control point moved"), key |-> "local|?"])
     ELSE IF b.kind = "equiv"
     THEN (IF b.relok THEN TEquiv(e, a, b)
           ELSE [bad |-> Tool("domain", "B is not h * A"), key |-> "equiv|?"])
     ELSE [bad |-> Tool("order", "rel with unknown kind of B"), key |-> "rel|?"]

\* equal control points: the curve is that point, derivatives vanish
AllEqual(a) == \A j \in 2..a.N : \A c \in 1..Len(a.C[j]) : REq(a.C[j][c], a.C[1][c])
TConst(e) ==
  LET a == sp["A"]  t == Q(e.t)
  IN IF ~a.ok THEN [bad |-> Tool("order", "const before spline"), key |-> "const|?"]
     ELSE IF ~FinQ(e.t) THEN [bad |-> Tool("domain", "time not finite"), key |-> "const|?"]
     ELSE IF ~AllEqual(a) THEN [bad |-> Tool("domain", "control points not all equal"), key |-> "const|?"]
     ELSE IF ~OutFinite(e.val, e.vel, e.acc) THEN [bad |-> NonFinite("C13.const.value"), key |-> "const|nonfinite"]
     ELSE LET X == GMat(a.g, V(e.val))  Y == a.Ms[1]
              inD == InDomain(a, t)
              v == V(e.vel)  ac == V(e.acc)
          IN [bad |-> Chk("C13.const.value", RelOkM(X, Y, TolVal), RelErrM(X, Y), TolVal)
                      \o (IF inD THEN Chk("C13.const.vel", RLeq(VMaxAbs(v), DerFloor(a.dt, 1)), VMaxAbs(v), DerFloor(a.dt, 1))
                                      \o Chk("C13.const.acc", RLeq(VMaxAbs(ac), DerFloor(a.dt, 2)), VMaxAbs(ac), DerFloor(a.dt, 2))
                          ELSE <<>>),
              key |-> "const|K" \o KStr(a) \o "|" \o Pos(a, t)]

---------------------------------------------------------------------------
NoSpline == [ok |-> FALSE]
\* which of the property's (t0, dt) classes a spline belongs to (coverage only)
Big(s) == RLeq(RI(1000000000), RAbs(s.t0)) /\ RLeq(s.dt, RFrac(11, 1000))     \* |t0| >= 1e9 with dt <= 0.01
T0Class(t0) == IF RLeq(RI(1000000000), RAbs(t0)) THEN "|t0|>=1e9" ELSE IF RSign(t0) = 0 THEN "t0=0" ELSE IF RSign(t0) < 0 THEN "t0<0" ELSE IF RLeq(RI(100), t0) THEN "t0>=100" ELSE "t0>0"
DtClass(dt) == IF RLeq(dt, RFrac(11, 1000)) THEN "dt<=.01" ELSE IF RLt(dt, RFrac(1, 5)) THEN "dt<.2" ELSE IF RLt(dt, RFrac(1, 2)) THEN "dt<.5" ELSE IF RLt(dt, R2) THEN "dt<2" ELSE "dt>=2"
NClass(k, n) == IF n = k + 1 THEN "N=K+1" ELSE IF n = 30 THEN "N=30" ELSE "N.."
Init == l = 1 /\ bad = <<>> /\ cov = <<>> /\ sp = [A |-> NoSpline, B |-> NoSpline]

\* result of one line: failures, coverage key, next spline table
Step(e) ==
  CASE e.op = "spline" ->
         IF ~SplineFinite(e) THEN [bad |-> Tool("domain", "spline operands not finite"), key |-> "spline|?", sp |-> sp]
         ELSE LET s == SplineRec(e)
                  dp == SplineDomainProblems(e, s)
              IN IF dp # <<>> THEN [bad |-> dp, key |-> "spline|?", sp |-> [sp EXCEPT ![e.slot] = NoSpline]]
                 ELSE LET \* the relation of B to A that the generator intended, re-derived once from the control points
                          relok == IF e.slot # "B" \/ ~sp["A"].ok THEN FALSE
                                   ELSE IF e.kind = "local" THEN SameExceptOne(sp["A"], s)
                                   ELSE IF e.kind = "equiv" THEN IsLeftMultiple(sp["A"], s)
                                   ELSE FALSE
                      IN [bad |-> SplineChecks(e, s),
                          key |-> "spline|K" \o ToString(e.K) \o "|" \o e.kind
                                  \o (IF e.kind = "gen" THEN "," \o T0Class(s.t0) \o "," \o DtClass(s.dt) \o "," \o NClass(s.K, s.N) ELSE ""),
                          sp |-> IF e.slot = "A" THEN [A |-> s @@ [relok |-> FALSE], B |-> NoSpline]
                                 ELSE [sp EXCEPT !["B"] = s @@ [relok |-> relok]]]
    [] e.op = "eval" -> TEval(e) @@ [sp |-> sp]
    [] e.op = "smooth" -> TSmooth(e) @@ [sp |-> sp]
    [] e.op = "rel" -> TRel(e) @@ [sp |-> sp]
    [] e.op = "const" -> TConst(e) @@ [sp |-> sp]
    [] OTHER -> [bad |-> Tool("unknown_op", e.op), key |-> "?", sp |-> sp]

Next ==
  /\ l <= Len(Tr)
  /\ LET e == Tr[l]
         r == Step(e)
         res == r.bad
         \* events of splines with |t0| >= 1e9 and dt <= 0.01 are counted in cells of their own
         key == r.key \o (IF r.sp["A"].ok /\ Big(r.sp["A"]) THEN "@big" ELSE "")
     IN /\ bad' = bad \o [i \in 1..Len(res) |-> [line |-> l, op |-> e.op, stratum |-> key] @@ res[i]]
        /\ cov' = IF key \in DOMAIN cov THEN [cov EXCEPT ![key] = @ + 1] ELSE cov @@ (key :> 1)
        /\ sp' = r.sp
  /\ l' = l + 1

Spec == Init /\ [][Next]_vars

\* only the position is part of the fingerprint (the spline table holds large matrices)
View == l

Report ==
  l = Len(Tr) + 1 =>
    JsonSerialize(OutFile, [lines |-> Len(Tr), consumed |-> l - 1, bad |-> bad,
                            cov |-> [k \in DOMAIN cov |-> cov[k]]])
=============================================================================
