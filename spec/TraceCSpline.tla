---------------------------- MODULE TraceCSpline ----------------------------
(* Trace specification for the "cspline" harness family (property C11).        *)
(* Every line of the trace is one evaluation case of the real library:         *)
(*   eval_vs / eval_gs : cspline_eval_vs / cspline_eval_gs called with every    *)
(*                       admissible combination of optional outputs            *)
(*   dg_dvs / dg_dgs   : cspline_eval_dg_dvs / cspline_eval_dg_dgs, likewise    *)
(* with all operands (basis matrix, u, differences or control points) and all  *)
(* results logged as exact rationals.  The action for a line evaluates the     *)
(* reference semantics of module CSplineRef on the operands and compares.      *)
(* Clauses (DESIGN.md App. C): C11.value, C11.d1, C11.d2, C11.d3,               *)
(* C11.jac_vs.{g,vel,acc}, C11.jac_gs.{g,vel,acc}.                              *)
(* Tolerances: value 1e-9 (matrix space, relative to max(1, largest entry));   *)
(* derivatives and Jacobians 1e-7 relative to the largest entry of the exact   *)
(* result, plus a rounding floor of 1e-12 times the magnitude of the terms     *)
(* that enter the result (so that an exact result of 0 obtained by             *)
(* cancellation, e.g. the acceleration of a degree-1 curve, is not required    *)
(* bit-exactly).                                                               *)
EXTENDS CSplineRef, Json, IOUtils, TLC

TraceFile == IOEnv.TRACE
OutFile == IOEnv.VERDICT
Tr == ndJsonDeserialize(TraceFile)

VARIABLES l, bad, cov
vars == <<l, bad, cov>>

---------------------------------------------------------------------------
FinQ(q) == q[4] < 100000
FinV(v) == \A i \in 1..Len(v) : FinQ(v[i])
FinM(m) == \A i \in 1..Len(m) : FinV(m[i])
V(v) == RVecFromDoubles(v)
M(m) == RMatFromDoubles(m)

Fail(clause, err, tol) == <<[clause |-> clause, err |-> RToStr(err), tol |-> RToStr(tol)]>>
Chk(clause, ok, err, tol) == IF ok THEN <<>> ELSE Fail(clause, err, tol)
NonFinite(clause) == <<[clause |-> clause, err |-> "non-finite", tol |-> "finite"]>>
Tool(what, detail) == <<[clause |-> "TOOL." \o what, err |-> detail, tol |-> ""]>>

TolValue == Dec(1, -9)
TolDeriv == Dec(1, -7)
FloorUnit == Dec(1, -12)

\* group element (coefficients c) against an exact matrix Y
ValueChk(clause, g, c, Y) ==
  LET X == GMat(g, c) IN Chk(clause, RelOkM(X, Y, TolValue), RelErrM(X, Y), TolValue)
\* tangent vector / Jacobian: |x - y| <= 1e-7 max|y| + floor
VecChkF(clause, x, y, floor) ==
  LET d == VMaxAbsDiff(x, y)  t == RAdd(RMul(TolDeriv, VMaxAbs(y)), floor)
  IN Chk(clause, RLeq(d, t), d, t)
MatChkF(clause, X, Y, floor) ==
  LET d == MaxAbsDiff(X, Y)  t == RAdd(RMul(TolDeriv, MaxAbs(Y)), floor)
  IN Chk(clause, RLeq(d, t), d, t)

---------------------------------------------------------------------------
\* domain of the property, re-derived from the logged operands
RECURSIVE MaxSeq(_, _)
MaxSeq(s, k) == IF k = 0 THEN R0 ELSE RMax(s[k], MaxSeq(s, k - 1))
RECURSIVE AllNonNeg(_, _)
AllNonNeg(s, k) == IF k = 0 THEN TRUE ELSE RSign(s[k]) >= 0 /\ AllNonNeg(s, k - 1)
ElemInDomain(g, c) ==
  LET r == GUnitResiduals(g, c)  w == GQw(g, c)
  IN Len(c) = RepSize(g) /\ RLeq(MaxSeq(r, Len(r)), RMul(RFromInt(8), RPow2(-52))) /\ AllNonNeg(w, Len(w))
MaxTheta2(g, a) == LET r == GRotNorm2(g, a) IN MaxSeq(r, Len(r))
\* consecutive differences strictly inside the injectivity radius (every rotating part)
InRadius(g, a) == Len(a) = Dof(g) /\ RLt(MaxTheta2(g, a), RSq(PiLo))

ShapeOk(e) ==
  /\ e.K \in 1..6
  /\ Len(e.B) = e.K + 1 /\ \A k \in 1..(e.K + 1) : Len(e.B[k]) = e.K + 1 /\ FinV(e.B[k])
  /\ FinQ(e.u)
  /\ LET u == RFromDouble(e.u) IN RSign(u) >= 0 /\ RLeq(u, R1)
ByVs(e) == e.op \in {"eval_vs", "dg_dvs"}
OperandsOk(e) ==
  IF ByVs(e)
  THEN Len(e.vs) = e.K /\ \A i \in 1..e.K : FinV(e.vs[i]) /\ InRadius(e.g, V(e.vs[i]))
  ELSE /\ Len(e.gs) = e.K + 1 /\ Len(e.vsw) = e.K
       /\ \A i \in 1..(e.K + 1) : FinV(e.gs[i]) /\ ElemInDomain(e.g, V(e.gs[i]))
       /\ \A i \in 1..e.K : FinV(e.vsw[i]) /\ Len(e.vsw[i]) = Dof(e.g)

---------------------------------------------------------------------------
\* strata
RECURSIVE MaxTh(_, _, _)
MaxTh(g, vs, i) == IF i = 0 THEN R0 ELSE RMax(MaxTheta2(g, V(vs[i])), MaxTh(g, vs, i - 1))
RECURSIVE MaxAbsVs(_, _)
MaxAbsVs(vs, i) == IF i = 0 THEN R0 ELSE RMax(VMaxAbs(V(vs[i])), MaxAbsVs(vs, i - 1))
VClass(e) ==
  LET vs == IF ByVs(e) THEN e.vs ELSE e.vsw
      t2 == MaxTh(e.g, vs, Len(vs))
      mx == MaxAbsVs(vs, Len(vs))
  IN IF RSign(mx) = 0 THEN "Z"                                        \* all differences exactly zero
     ELSE IF IsCommutative(e.g) THEN "V"
     ELSE IF RLt(t2, RSq(Dec(1, -4))) THEN "T"                        \* every rotation below the small-angle switch
     ELSE IF RLt(RSq(RSub(PiLo, Dec(1, -2))), t2) THEN "P"            \* some rotation within 1e-2 of pi
     ELSE "G"
UClass(e) ==
  LET u == RFromDouble(e.u) IN IF RSign(u) = 0 THEN "u0" ELSE IF REq(u, R1) THEN "u1" ELSE "ui"
KName(k) == CASE k = 1 -> "K1" [] k = 2 -> "K2" [] k = 3 -> "K3" [] k = 4 -> "K4" [] k = 5 -> "K5" [] OTHER -> "K6"
Stratum(e) ==
  IF e.op \in {"eval_vs", "eval_gs", "dg_dvs", "dg_dgs"} /\ ShapeOk(e) /\ OperandsOk(e)
  THEN e.g.k \o "|" \o KName(e.K) \o "|" \o e.basis \o "|" \o UClass(e) \o "|" \o VClass(e)
  ELSE "-"

---------------------------------------------------------------------------
\* evaluation events
\* rounding floors.  eta = 0 for events whose differences are operands (they are exact);
\* for control-point events the differences are known only up to the representation error of the control
\* points (unit parts normalised to 8 ulp), eta = 1e-13 max(1, largest coefficient), and that uncertainty
\* propagates through the sensitivities JF / HF.
\* The oracle's own error is added on the safe side: 2^-100 for the u-derivatives (ExpM is certified to 2^-128),
\* 2^-60 for the central differences (truncation O(h^2) = 2^-80 times third derivatives, ExpM error / 2h = 2^-88).
Floors(cv, eta) ==
  [d \in 1..3 |-> RAdd(RPow2(-100), RMul(cv.amp, RAdd(RMul(FloorUnit, cv.S[d]), RMul(eta, cv.JF[d + 1]))))]
JFloors(cv, c, eta) ==
  [d \in 1..3 |-> RAdd(RPow2(-60), RMul(RMul(c, cv.amp), RAdd(RMul(FloorUnit, cv.JF[d]), RMul(eta, cv.HF[d]))))]
RECURSIVE MaxCoef(_, _)
MaxCoef(gs, i) == IF i = 0 THEN R1 ELSE RMax(VMaxAbs(V(gs[i])), MaxCoef(gs, i - 1))
EtaGs(e) == RMul(Dec(1, -13), MaxCoef(e.gs, Len(e.gs)))

Has(c, f) == f \in DOMAIN c
EvalCall(c, g, cv, Y, eta) ==
  LET fl == Floors(cv, eta)
  IN      (IF FinV(c.g) THEN ValueChk("C11.value", g, V(c.g), Y) ELSE NonFinite("C11.value"))
          \o (IF ~Has(c, "vel") THEN <<>> ELSE IF ~FinV(c.vel) THEN NonFinite("C11.d1")
              ELSE VecChkF("C11.d1", V(c.vel), cv.body.vel, fl[1]))
          \o (IF ~Has(c, "acc") THEN <<>> ELSE IF ~FinV(c.acc) THEN NonFinite("C11.d2")
              ELSE VecChkF("C11.d2", V(c.acc), cv.body.acc, fl[2]))
          \o (IF ~Has(c, "jer") THEN <<>> ELSE IF ~FinV(c.jer) THEN NonFinite("C11.d3")
              ELSE VecChkF("C11.d3", V(c.jer), cv.body.jer, fl[3]))
          \o (IF (c.nd >= 1) = Has(c, "vel") /\ (c.nd >= 2) = Has(c, "acc") /\ (c.nd >= 3) = Has(c, "jer")
              THEN <<>> ELSE Tool("calls", "outputs do not match nd"))
RECURSIVE EvalCalls(_, _, _, _, _, _)
EvalCalls(cs, i, g, cv, Y, eta) ==
  IF i > Len(cs) THEN <<>> ELSE EvalCall(cs[i], g, cv, Y, eta) \o EvalCalls(cs, i + 1, g, cv, Y, eta)
\* all five calling conventions must be present (no vacuous event)
EvalShape(e) == IF Len(e.calls) = 5 THEN <<>> ELSE Tool("calls", "expected five calls")

TEvalVs(e) ==
  LET g == e.g  K == e.K
      vs == RForce([i \in 1..K |-> V(e.vs[i])])
      cv == CS_Curve(g, M(e.B), RFromDouble(e.u), vs, K, 3)
  IN EvalShape(e) \o EvalCalls(e.calls, 1, g, cv, cv.X[1], R0)

\* control points: relative elements, refined logarithms (the library's own differences are the witnesses)
GsData(e) ==
  LET g == e.g  K == e.K
      Gs == RForce([i \in 1..(K + 1) |-> GMat(g, V(e.gs[i]))])
      Ms == RForce([i \in 1..K |-> CS_R(MMul(MInvD(Gs[i]), Gs[i + 1]))])
      lg == RForce([i \in 1..K |-> CS_LogRefine(g, Ms[i], V(e.vsw[i]))])
  IN [G0 |-> Gs[1], Ms |-> Ms, lg |-> lg, xs |-> RForce([i \in 1..K |-> lg[i][1]])]
RECURSIVE GsProblems(_, _, _)
GsProblems(g, gd, i) ==
  IF i = 0 THEN <<>>
  ELSE GsProblems(g, gd, i - 1)
       \o (IF RLeq(gd.lg[i][3], Dec(1, -6)) THEN <<>> ELSE Tool("witness", "library difference is not a logarithm of g_(i-1)^-1 g_i"))
       \o (IF RLeq(gd.lg[i][2], RPow2(-100)) THEN <<>> ELSE Tool("oracle", "logarithm refinement did not converge"))
       \o (IF RLeq(MaxTheta2(g, gd.xs[i]), RSq(PiHi)) THEN <<>> ELSE Tool("domain", "difference outside the injectivity radius"))

TEvalGs(e) ==
  LET g == e.g  K == e.K
      gd == GsData(e)
      pr == GsProblems(g, gd, K)
      cv == CS_Curve(g, M(e.B), RFromDouble(e.u), gd.xs, K, 3)
  IN IF pr # <<>> THEN pr
     ELSE EvalShape(e) \o EvalCalls(e.calls, 1, g, cv, CS_R(MMul(gd.G0, cv.X[1])), EtaGs(e))

---------------------------------------------------------------------------
\* Jacobian events
JacCall(c, pre, J, fl) ==
       (IF FinM(c.dg) THEN MatChkF(pre \o ".g", M(c.dg), J.dg, fl[1]) ELSE NonFinite(pre \o ".g"))
       \o (IF ~Has(c, "dvel") THEN <<>> ELSE IF ~FinM(c.dvel) THEN NonFinite(pre \o ".vel")
           ELSE MatChkF(pre \o ".vel", M(c.dvel), J.dvel, fl[2]))
       \o (IF ~Has(c, "dacc") THEN <<>> ELSE IF ~FinM(c.dacc) THEN NonFinite(pre \o ".acc")
           ELSE MatChkF(pre \o ".acc", M(c.dacc), J.dacc, fl[3]))
       \o (IF (c.m \in {1, 2}) = Has(c, "dvel") /\ (c.m \in {2, 3}) = Has(c, "dacc")
           THEN <<>> ELSE Tool("calls", "outputs do not match mode"))
RECURSIVE JacCalls(_, _, _, _, _)
JacCalls(cs, i, pre, J, fl) ==
  IF i > Len(cs) THEN <<>> ELSE JacCall(cs[i], pre, J, fl) \o JacCalls(cs, i + 1, pre, J, fl)

TJacVs(e) ==
  LET g == e.g  K == e.K
      vs == RForce([i \in 1..K |-> V(e.vs[i])])
      cv == CS_Curve(g, M(e.B), RFromDouble(e.u), vs, K, 2)
      J == CS_JacVs(g, cv, vs, K, 2)
  IN (IF Len(e.calls) = 3 THEN <<>> ELSE Tool("calls", "expected three calls"))
     \o JacCalls(e.calls, 1, "C11.jac_vs", J, JFloors(cv, R1, R0))

RECURSIVE MaxNorm(_, _)
MaxNorm(Js, i) == IF i = 0 THEN R1 ELSE RMax(NormInf(Js[i]), MaxNorm(Js, i - 1))
TJacGs(e) ==
  LET g == e.g  K == e.K
      gd == GsData(e)
      pr == GsProblems(g, gd, K)
      cv == CS_Curve(g, M(e.B), RFromDouble(e.u), gd.xs, K, 2)
      JR == RForce([i \in 1..K |-> XDrExpInv(g, gd.xs[i])])
      JL == RForce([i \in 1..K |-> XDrExpInv(g, VNeg(gd.xs[i]))])
      J == CS_JacGs(g, cv, gd.Ms, gd.xs, JR, JL, K, 2)
      c == RMul(R2, RMax(MaxNorm(JR, K), MaxNorm(JL, K)))
  IN IF pr # <<>> THEN pr
     ELSE IF ~RLeq(J.res, RPow2(-70)) THEN Tool("oracle", "perturbed logarithm candidate rejected")
     ELSE (IF Len(e.calls) = 4 THEN <<>> ELSE Tool("calls", "expected four calls"))
          \o JacCalls(e.calls, 1, "C11.jac_gs", J, JFloors(cv, c, EtaGs(e)))

---------------------------------------------------------------------------
Check(e) ==
  IF e.op \notin {"eval_vs", "eval_gs", "dg_dvs", "dg_dgs"} THEN Tool("unknown_op", e.op)
  ELSE IF ~ShapeOk(e) THEN Tool("domain", "K / basis matrix / u")
  ELSE IF ~OperandsOk(e) THEN Tool("domain", "differences / control points")
  ELSE CASE e.op = "eval_vs" -> TEvalVs(e)
         [] e.op = "eval_gs" -> TEvalGs(e)
         [] e.op = "dg_dvs" -> TJacVs(e)
         [] e.op = "dg_dgs" -> TJacGs(e)

---------------------------------------------------------------------------
Init == l = 1 /\ bad = <<>> /\ cov = <<>>

Next ==
  /\ l <= Len(Tr)
  /\ LET e == Tr[l]
         res == Check(e)
         st == Stratum(e)
         key == e.op \o "|" \o st
     IN /\ bad' = bad \o [i \in 1..Len(res) |-> [line |-> l, op |-> e.op, stratum |-> st] @@ res[i]]
        /\ cov' = IF key \in DOMAIN cov THEN [cov EXCEPT ![key] = @ + 1] ELSE cov @@ (key :> 1)
  /\ l' = l + 1

Spec == Init /\ [][Next]_vars

Report ==
  l = Len(Tr) + 1 =>
    JsonSerialize(OutFile, [lines |-> Len(Tr), consumed |-> l - 1, bad |-> bad,
                            cov |-> [k \in DOMAIN cov |-> cov[k]]])
=============================================================================
