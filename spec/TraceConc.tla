------------------------------ MODULE TraceConc ------------------------------
(* Trace specification for property C18 (harness/conc.cpp, tools/fam_conc.py).  *)
(*                                                                               *)
(* Events (one ndjson line each; a trace holds the events of one harness part)   *)
(*   inv    inventory of the binary: statics behind a guard variable (nm)        *)
(*   fp     footprint of one operation class recorded from the real code:        *)
(*          byte differences of every shared const input (heap blocks registered *)
(*          while the inputs were built) and of the executable's static storage  *)
(*          around calls 1, 2, 3 (argument seeds A, B, A), results r1, r2, r3    *)
(*   model  verdict of the design model spec/ConstOps.tla (TLC, all interleavings*)
(*          of 2 and 3 threads x 2 instances) on the footprint of the class      *)
(*   ref    results of the sequential reference run, per (class, thread)         *)
(*   obs    results of the same instances executed on T concurrent threads       *)
(*   crash  the concurrent run ended abnormally (the sequential run of the same  *)
(*          instances by the same binary had completed)                          *)
(*   race   a ThreadSanitizer report from such a run                             *)
(*   sched  a TLC-generated schedule replayed on the real object                 *)
(*                                                                               *)
(* Clauses (DESIGN.md appendix C)                                                *)
(*   C18.norace  a const operation must not write a shared const input, and must *)
(*               not write static storage except inside a guarded first-use      *)
(*               initialisation (there is no other synchronisation in the API,   *)
(*               so any such write is a data race between two threads running    *)
(*               the operation: ConstOps!NoRace); ThreadSanitizer must be silent *)
(*   C18.same    every thread's results equal the sequential results BITWISE;    *)
(*               a call repeated on the same inputs returns the same bits        *)
(* The oracle for C18.same is the sequential run itself, as the property says;   *)
(* results are compared as 16-bit words / 64-bit digests of the raw bytes.        *)
(* No wall clocks, no merging by time: events are matched by (class, build,      *)
(* thread count, thread, iteration count) only.                                  *)
EXTENDS Integers, Sequences, FiniteSets, TLC, Json, IOUtils

Tr == ndJsonDeserialize(IOEnv.TRACE)

VARIABLE st     \* [l, bad, cov, ref, fpw]

Fail(clause, err, tol) == <<[clause |-> clause, err |-> err, tol |-> tol]>>
Ok == <<>>

Key(e) == e.cls \o "|" \o e.san \o "|T" \o ToString(e.T) \o "|t" \o ToString(e.t)

(* ----- fp ----- *)
\* static writes: records [call, sym, gfor, off, len]; gfor # "" marks a guard variable (the variable it guards)
IsGuard(x) == x.gfor # ""
GuardedInit(e, x) == \E j \in 1..Len(e.sw) : e.sw[j].call = x.call /\ e.sw[j].gfor = x.sym
StaticOk(e, x) == x.call = 1 /\ (IsGuard(x) \/ GuardedInit(e, x))
BadStatics(e) == {j \in 1..Len(e.sw) : ~StaticOk(e, e.sw[j])}

HeapWrites(e) == Len(e.w)
CheckFp(e) ==
  (IF e.overflow # 0 THEN Fail("TOOL.overflow", "block registry overflow", "") ELSE Ok)
  \o (IF HeapWrites(e) > 0
        THEN Fail("C18.norace", "const operation wrote a shared const input: " \o ToString(e.w[1]) \o " (" \o ToString(HeapWrites(e))
                  \o " byte ranges [call, block, block size, offset, length, released]; block 0 = root object)", "no write")
        ELSE Ok)
  \o (IF BadStatics(e) # {}
        THEN LET j == CHOOSE jj \in BadStatics(e) : TRUE
             IN Fail("C18.norace", "static storage written outside a guarded first-use initialisation: " \o e.sw[j].sym \o " in call " \o ToString(e.sw[j].call), "no write")
        ELSE Ok)
  \o (IF e.r1 # e.r3 THEN Fail("C18.same", "the same call on the same inputs returned different bits when repeated", "bitwise") ELSE Ok)

(* ----- model ----- *)
\* the design model must agree with what the footprint shows (the two analyses are bound to each other)
CheckModel(s, e) ==
  IF e.cls \notin DOMAIN s.fpw THEN Fail("TOOL.model_without_fp", e.cls, "")
  ELSE IF s.fpw[e.cls] /\ e.norace = "ok" THEN Fail("TOOL.model_mismatch", "footprint has writes but ConstOps found no race: " \o e.cls, "")
  ELSE IF ~s.fpw[e.cls] /\ e.norace # "ok" THEN Fail("TOOL.model_mismatch", "ConstOps reports a race on a write-free footprint: " \o e.cls, "")
  ELSE Ok

(* ----- ref / obs ----- *)
FirstDiff(a, b) == IF Len(a) # Len(b) THEN 0 ELSE
                   IF \E j \in 1..Len(a) : a[j] # b[j] THEN CHOOSE j \in 1..Len(a) : a[j] # b[j] /\ \A q \in 1..(j - 1) : a[q] = b[q] ELSE -1
CheckObs(s, e) ==
  IF Key(e) \notin DOMAIN s.ref THEN Fail("TOOL.noref", Key(e), "")
  ELSE LET r == s.ref[Key(e)]
       IN IF r.N # e.N THEN Fail("TOOL.ref_mismatch", Key(e), "")
          ELSE LET d == FirstDiff(r.blocks, e.blocks)
               IN IF d # -1 THEN Fail("C18.same", "thread " \o ToString(e.t) \o " of " \o ToString(e.T) \o ": results differ from the sequential run in iteration block "
                                       \o ToString(d) \o " of " \o ToString(Len(r.blocks)) \o " (" \o ToString(e.N) \o " iterations)", "bitwise")
                  ELSE IF r.first # e.first \/ r.last # e.last THEN Fail("C18.same", "first/last result differs from the sequential run", "bitwise")
                  ELSE Ok

(* ----- race ----- *)
CheckRace(e) ==
  IF e.lib THEN Fail("C18.norace", "ThreadSanitizer: " \o e.kind \o ": " \o e.a \o " <-> " \o e.b \o " ; " \o e.where, "no report")
  ELSE Fail("TOOL.harness_race", "ThreadSanitizer report without a library frame: " \o e.a \o " <-> " \o e.b, "")

(* ----- crash ----- *)
CheckCrash(e) ==
  Fail("C18.same", ToString(e.T) \o " threads running const operations on shared const inputs ended abnormally (rc " \o ToString(e.rc) \o ": " \o e.msg
       \o "); the sequential run of the same " \o ToString(e.N) \o " instances per thread completed", "results of the sequential run")

(* ----- sched ----- *)
CheckSched(e) ==
  IF Len(e.ref) # Len(e.obs) THEN Fail("TOOL.sched", "lengths", "")
  ELSE LET d == FirstDiff(e.ref, e.obs)
       IN IF d = -1 THEN Ok
          ELSE Fail("C18.same", "schedule " \o ToString(e.order) \o " (thread per block; block = prepare scratch | read scratch): instance " \o ToString(d)
                    \o " returned bits that differ from the sequential run", "bitwise")

Check(s, e) ==
  CASE e.op = "inv"   -> Ok
    [] e.op = "fp"    -> CheckFp(e)
    [] e.op = "model" -> CheckModel(s, e)
    [] e.op = "ref"   -> Ok
    [] e.op = "obs"   -> CheckObs(s, e)
    [] e.op = "race"  -> CheckRace(e)
    [] e.op = "crash" -> CheckCrash(e)
    [] e.op = "sched" -> CheckSched(e)
    [] OTHER -> <<[clause |-> "TOOL.unknown_op", err |-> e.op, tol |-> ""]>>

Cell(e) ==
  CASE e.op = "inv"   -> "inv|part" \o ToString(e.part)
    [] e.op = "fp"    -> "fp|" \o e.cls
    [] e.op = "model" -> "model|" \o e.cls \o "|" \o e.norace
    [] e.op \in {"ref", "obs", "crash"} -> e.op \o "|" \o e.cls \o "|" \o e.san \o "|T" \o ToString(e.T)
    [] e.op = "race"  -> "race|" \o e.cls
    [] e.op = "sched" -> "sched|" \o e.cls
    [] OTHER -> "?"

Stratum(e) == IF "cls" \in DOMAIN e THEN e.cls ELSE "-"

Init == st = [l |-> 1, bad |-> <<>>, cov |-> <<>>, ref |-> <<>>, fpw |-> <<>>]

StepAll(s, e) ==
  LET res == Check(s, e)
      key == Cell(e)
  IN [l   |-> s.l + 1,
      bad |-> s.bad \o [j \in 1..Len(res) |-> [line |-> s.l, op |-> e.op, stratum |-> Stratum(e)] @@ res[j]],
      cov |-> IF key \in DOMAIN s.cov THEN [s.cov EXCEPT ![key] = @ + 1] ELSE s.cov @@ (key :> 1),
      ref |-> IF e.op = "ref" THEN (Key(e) :> [N |-> e.N, blocks |-> e.blocks, first |-> e.first, last |-> e.last]) @@ s.ref ELSE s.ref,
      fpw |-> IF e.op = "fp" THEN (e.cls :> (HeapWrites(e) > 0 \/ BadStatics(e) # {})) @@ s.fpw ELSE s.fpw]

Next == st.l <= Len(Tr) /\ st' = StepAll(st, Tr[st.l])

Report == st.l = Len(Tr) + 1 =>
   JsonSerialize(IOEnv.VERDICT, [lines |-> Len(Tr), consumed |-> st.l - 1, bad |-> st.bad,
                                 cov |-> [k \in DOMAIN st.cov |-> st.cov[k]]])
=============================================================================
