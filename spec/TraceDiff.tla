------------------------------ MODULE TraceDiff ------------------------------
(* Trace specification for the "diff" harness family (property C08):            *)
(* smooth::diff::dr<K, Type>(f, wrt(x...)[, index subset]).                      *)
(*                                                                             *)
(* One trace line = one (callable, evaluation point) together with ALL calls    *)
(* the harness made at that point (const / non-const reference patterns x index *)
(* subsets x K x mode).  The callable is given to the specification as an       *)
(* expression tree over a closed family of nodes; the specification evaluates   *)
(* the tree and its RIGHT derivative                                           *)
(*      J(i,j) = d/de ( f(x (+) e e_j) (-) f(x) )_i   at e = 0                  *)
(* in exact rational arithmetic from the documented matrix forms of module      *)
(* Groups (chain rule over Ad, the power series Phi1 of ad, matrix actions,     *)
(* monomial differentiation), and the Hessian in the documented stacked layout  *)
(*      H(k0, i*nx + k1) = d/de J_i,k0( x (+) e e_k1 )                           *)
(* from the definition of the derivative (exact central differences of the      *)
(* exact J with step 2^-32).  Nothing of the library's differentiation code is  *)
(* re-implemented: no floating point, no forward differences, no step rule.     *)
(*                                                                             *)
(* Clauses (DESIGN.md Appendix C): C08.value, C08.jac, C08.hess, C08.subset,    *)
(* C08.analytic, C08.restore.  A bad step does not stop validation.            *)
EXTENDS Tol, Json, IOUtils, TLC

TraceFile == IOEnv.TRACE
OutFile == IOEnv.VERDICT
Tr == ndJsonDeserialize(TraceFile)

VARIABLES l, st            \* position in the trace; [bad |-> rejected steps, cov |-> coverage cells]
vars == <<l, st>>

---------------------------------------------------------------------------
\* reading logged numbers
FinQ(q) == q[4] < 100000
FinV(v) == \A i \in 1..Len(v) : FinQ(v[i])
FinM(m) == \A i \in 1..Len(m) : FinV(m[i])
V(v) == RVecFromDoubles(v)
M(m) == RMatFromDoubles(m)

\* working precision of the oracle: intermediate matrices are rounded to multiples of 2^-PB
PB == 240
RndM(A) == IF Rows(A) = 0 \/ Cols(A) = 0 THEN A ELSE MRound(A, PB)
RndV(v) == RForce([i \in 1..Len(v) |-> RRound(v[i], PB)])

RECURSIVE SumSeqAcc(_, _, _)
SumSeqAcc(s, k, acc) == IF k > Len(s) THEN acc ELSE SumSeqAcc(s, k + 1, RAdd(acc, s[k]))
SumSeq(s) == SumSeqAcc(RForce(s), 1, R0)

---------------------------------------------------------------------------
\* tolerances of property C08 (copied from properties.jsonl)
TolJac == Dec(1, -4)          \* first derivatives, relative
TolHess == Dec(5, -2)         \* second derivatives, relative
TolRestore == Dec(1, -15)     \* |after - before| <= 1e-15 * largest coefficient
\* the callables are compositions of library operations that C01/C02 bound by 1e-12 / 1e-9
TolValue == Dec(1, -9)
\* allowance for the oracle's own error (series truncation 2^-128, rounding 2^-240, central-difference
\* truncation h^2/6 |d^3 J| with h = 2^-32), added on the safe side
SlackJ == RPow2(-60)
SlackH == RPow2(-30)

\* "O(1) values and derivatives": the property itself calls coordinates "of magnitude 0.1..10" of order
\* one; the numerical-accuracy clauses are decided only where the exact value has no entry above 10 and
\* the exact Jacobian / Hessian (the columns the call asks for) have their largest entry in [0.1, 10]
O1Lo == Dec(1, -1)
O1Hi == RFromInt(10)
IsO1(x) == RLeq(O1Lo, x) /\ RLeq(x, O1Hi)

HBits == 32
HStep == RPow2(-HBits)

---------------------------------------------------------------------------
\* types: group descriptors of module Groups; [k |-> "R", n |-> m] carries a plain vector,
\* every other type carries its Lie-group matrix
IsVecT(t) == t.k = "R"
VecT(n) == [k |-> "R", n |-> n]
ArgVal(t, c) == IF IsVecT(t) THEN c ELSE GMat(t, c)

\* Ad from a matrix and its inverse: column i = vee(M hat(e_i) M^-1)
AdMM(g, Mx, Mi) ==
  LET n == Dof(g) IN MFromCols(RForce([i \in 1..n |-> GVee(g, MMul(MMul(Mx, GHat(g, VUnit(n, i))), Mi))]))
\* matrix action on a point, its right derivative with respect to the element, and its linear part
Homog(g, v) == IF g.k \in {"SO2", "SO3", "C1"} THEN v ELSE v \o <<R1>>
ActM(g, Mx, v) == VSeg(MVec(Mx, Homog(g, v)), 1, Len(v))
DrActM(g, Mx, v) ==
  LET n == Dof(g)  hv == Homog(g, v)
  IN MFromCols(RForce([i \in 1..n |-> VSeg(MVec(MMul(Mx, GHat(g, VUnit(n, i))), hv), 1, Len(v))]))
LinActM(Mx, n) == Block(Mx, 1, 1, n, n)

\* right Jacobian of exp and its inverse from the power series of ad
JrInv(g, a) == MInvD(XDrExp(g, a))

\* the logarithm is specified relationally: w is a logarithm of Mx iff Exp(hat w) = Mx.  Given a
\* candidate within 1e-8 the residual equation Exp(-w) Mx = Exp(d) is solved for d to second order
\* (d = vee(R - R^2/2), R = Exp(-w) Mx - I) and w is corrected by Jr^-1(w) d; two corrections leave an
\* error below 1e-40 from a start within 1e-8.
LogStep(g, Mx, w) ==
  LET E == ExpM(GHat(g, VNeg(w)))
      R == MSub(MMul(E, Mx), MId(Dim(g)))
      d == GVee(g, MSub(R, MScale(RHalf, MMul(R, R))))
  IN RndV(VAdd(w, MVec(JrInv(g, w), d)))
LogRefine(g, Mx, w0) == LogStep(g, Mx, LogStep(g, Mx, w0))
\* how far the candidate is from being a logarithm (matrix space)
LogResidual(g, Mx, w) == MaxAbsDiff(ExpM(GHat(g, w)), Mx)

\* polynomial maps: p = sequence of components, component = sequence of terms <<coefficient, exponents>>
RECURSIVE MonoAcc(_, _, _, _)
MonoAcc(x, es, j, acc) == IF j > Len(es) THEN acc ELSE MonoAcc(x, es, j + 1, RMul(acc, RPowInt(x[j], es[j])))
Mono(x, es) == MonoAcc(x, es, 1, R1)
DMono(x, es, j) == IF es[j] = 0 THEN R0 ELSE RMul(RFromInt(es[j]), Mono(x, [es EXCEPT ![j] = @ - 1]))
PolyVal(p, x) ==
  RForce([i \in 1..Len(p) |-> SumSeq([t \in 1..Len(p[i]) |-> RMul(RFromDouble(p[i][t][1]), Mono(x, p[i][t][2]))])])
PolyJac(p, x) ==
  RForce([i \in 1..Len(p) |-> [j \in 1..Len(x) |->
     SumSeq([t \in 1..Len(p[i]) |-> RMul(RFromDouble(p[i][t][1]), DMono(x, p[i][t][2], j))])]])

\* n x nx matrix with the identity in columns off+1 .. off+n
Sel(n, off, nx) == RForce([i \in 1..n |-> [j \in 1..nx |-> IF j = off + i THEN R1 ELSE R0]])

---------------------------------------------------------------------------
\* evaluation of an expression tree: [ty, v, J] = type, exact value, exact right derivative with
\* respect to ALL arguments (Dof(ty) x nx).  env = [args (seq of [t, v]), off, nx, wit]
RECURSIVE Ev(_, _)
Ev(n, env) ==
  CASE n.f = "arg" ->
         LET a == env.args[n.i] IN [ty |-> a.t, v |-> a.v, J |-> Sel(Dof(a.t), env.off[n.i], env.nx)]
    [] n.f = "compose" ->
         \* (a exp(da)) (b exp(db)) = a b exp(Ad(b^-1) da) exp(db)
         LET a == Ev(n.a, env)  b == Ev(n.b, env)  g == a.ty
             bi == MInvD(b.v)
         IN [ty |-> g, v |-> RndM(MMul(a.v, b.v)), J |-> RndM(MAdd(MMul(AdMM(g, bi, b.v), a.J), b.J))]
    [] n.f = "inv" ->
         \* (a exp(da))^-1 = a^-1 exp(-Ad(a) da)
         LET a == Ev(n.a, env)  g == a.ty  ai == MInvD(a.v)
         IN [ty |-> g, v |-> ai, J |-> RndM(MNeg(MMul(AdMM(g, a.v, ai), a.J)))]
    [] n.f = "log" ->
         \* log(a exp(da)) = log a + Jr^-1(log a) da
         LET a == Ev(n.a, env)  g == a.ty
             w == LogRefine(g, a.v, env.wit[n.w])
         IN [ty |-> VecT(Dof(g)), v |-> w, J |-> RndM(MMul(JrInv(g, w), a.J))]
    [] n.f = "act" ->
         LET a == Ev(n.a, env)  b == Ev(n.b, env)  g == a.ty  m == Len(b.v)
         IN [ty |-> VecT(m), v |-> RndV(ActM(g, a.v, b.v)),
             J |-> RndM(MAdd(MMul(DrActM(g, a.v, b.v), a.J), MMul(LinActM(a.v, m), b.J)))]
    [] n.f = "Adv" ->
         \* Ad(a exp(da)) b = Ad(a) (b + [da, b]) = Ad(a) b - Ad(a) ad(b) da
         LET a == Ev(n.a, env)  b == Ev(n.b, env)  g == a.ty
             A == AdMM(g, a.v, MInvD(a.v))
         IN [ty |-> VecT(Dof(g)), v |-> RndV(MVec(A, b.v)),
             J |-> RndM(MAdd(MNeg(MMul(MMul(A, Xad(g, b.v)), a.J)), MMul(A, b.J)))]
    [] n.f = "poly" ->
         LET a == Ev(n.a, env)
         IN [ty |-> VecT(Len(n.p)), v |-> PolyVal(n.p, a.v), J |-> RndM(MMul(PolyJac(n.p, a.v), a.J))]
    [] n.f = "cat" ->
         LET a == Ev(n.a, env)  b == Ev(n.b, env)
         IN [ty |-> VecT(Len(a.v) + Len(b.v)), v |-> a.v \o b.v, J |-> a.J \o b.J]
    [] n.f = "part" ->
         \* part i of a Bundle (std::vector of manifolds = Bundle of its elements)
         LET a == Ev(n.a, env)  g == a.ty  p == g.parts[n.i]
             d == Dim(p)  o == DimOff(g, n.i)
             blk == Block(a.v, o, o, d, d)
             Jp == RForce([r \in 1..Dof(p) |-> a.J[DofOff(g, n.i) + r - 1]])
         IN [ty |-> p, v |-> IF IsVecT(p) THEN RForce([r \in 1..p.n |-> blk[r][p.n + 1]]) ELSE blk, J |-> Jp]

\* offsets of the arguments in the tangent vector of all arguments
RECURSIVE DofSum(_, _)
DofSum(args, k) == IF k = 0 THEN 0 ELSE DofSum(args, k - 1) + Dof(args[k].t)
Offsets(args) == [i \in 1..Len(args) |-> DofSum(args, i - 1)]

\* a sequence of records as an explicit tuple (a function constructor would be re-evaluated on every access)
RECURSIVE ForceSeqAcc(_, _, _)
ForceSeqAcc(f, k, acc) == IF k > Len(f) THEN acc ELSE ForceSeqAcc(f, k + 1, Append(acc, f[k]))
ForceSeq(f) == ForceSeqAcc(RForce(f), 1, <<>>)

Env0(e) ==
  [args |-> ForceSeq([i \in 1..Len(e.args) |-> [t |-> e.args[i].t, v |-> RForce(ArgVal(e.args[i].t, V(e.args[i].c)))]]),
   off |-> RForce(Offsets(e.args)), nx |-> DofSum(e.args, Len(e.args)),
   wit |-> RForce([i \in 1..Len(e.wit) |-> V(e.wit[i])])]

\* x_i (+) h e_j for the tangent coordinate k of all arguments
ArgOfCol(env, k) == CHOOSE i \in 1..Len(env.args) : env.off[i] < k /\ k <= env.off[i] + Dof(env.args[i].t)
Perturb(env, k, h) ==
  LET i == ArgOfCol(env, k)  a == env.args[i]  n == Dof(a.t)
      d == VScale(h, VUnit(n, k - env.off[i]))
      nv == IF IsVecT(a.t) THEN VAdd(a.v, d) ELSE RndM(MMul(a.v, ExpM(GHat(a.t, d))))
  IN [env EXCEPT !.args = [env.args EXCEPT ![i] = [t |-> a.t, v |-> RForce(nv)]]]

\* Hessian of a tree with values in R^ny (ny = 1 for scalars), nx x (ny nx), in the documented stacked layout:
\* block j (columns (j-1) nx + 1 .. j nx, nx = total dof of the arguments) is the Hessian of output row j,
\*   H[k0][(j-1) nx + k1] = d/de J_(j,k0)(x (+) e e_k1),    by exact central differences of the exact J
HessCD(ast, env, ny) ==
  LET nx == env.nx
      Jp == RForce([k \in 1..nx |-> Ev(ast, Perturb(env, k, HStep)).J])
      Jm == RForce([k \in 1..nx |-> Ev(ast, Perturb(env, k, RNeg(HStep))).J])
      s == RPow2(HBits - 1)
  IN RForce([k0 \in 1..nx |-> [c \in 1..(ny * nx) |->
        LET j == ((c - 1) \div nx) + 1  k1 == ((c - 1) % nx) + 1
        IN RMul(s, RSub(Jp[k1][j][k0], Jm[k1][j][k0]))]])

---------------------------------------------------------------------------
\* domain of the property, re-derived from the logged operands
RECURSIVE MaxSeq(_, _)
MaxSeq(s, k) == IF k = 0 THEN R0 ELSE RMax(s[k], MaxSeq(s, k - 1))
\* group arguments: representation constraint to 1e-12; vector / scalar arguments: every coordinate
\* is zero or of magnitude 0.1 .. 10
CoordOk(x) == RSign(x) = 0 \/ (RLeq(Dec(1, -1), RAbs(x)) /\ RLeq(RAbs(x), RFromInt(10)))
\* a std::vector (possibly nested) of vectors: a Bundle all of whose leaves are R:n
RECURSIVE AllVecLeaves(_)
AllVecLeaves(t) ==
  IF t.k = "R" THEN TRUE
  ELSE IF t.k = "B" THEN \A i \in 1..Len(t.parts) : AllVecLeaves(t.parts[i])
  ELSE FALSE
ArgInDomain(t, c) ==
  IF AllVecLeaves(t) THEN \A i \in 1..Len(c) : CoordOk(c[i])
  ELSE LET u == GUnitResiduals(t, c) IN RLeq(MaxSeq(u, Len(u)), Dec(1, -12))
ArgsFinite(e) == \A i \in 1..Len(e.args) : FinV(e.args[i].c)

\* value of a tree node as a matrix / vector comparable with logged coefficients
ValueOk(ty, v, c) ==
  IF IsVecT(ty) THEN RelOkV(c, v, TolValue) ELSE RelOkM(GMat(ty, c), v, TolValue)
ValueErr(ty, v, c) ==
  IF IsVecT(ty) THEN RelErrV(c, v) ELSE RelErrM(GMat(ty, c), v)
ValueMax(ty, v) == IF IsVecT(ty) THEN VMaxAbs(v) ELSE MaxAbs(v)

\* every witness must be a logarithm of what the tree says it is the logarithm of: checked by evaluating
\* the tree once with the raw witnesses; LogRefine moves a valid witness by at most ~1e-15
RECURSIVE LogNodes(_)
LogNodes(n) ==
  CASE n.f = "arg" -> <<>>
    [] n.f = "log" -> <<n>> \o LogNodes(n.a)
    [] n.f \in {"inv", "poly", "part"} -> LogNodes(n.a)
    [] OTHER -> LogNodes(n.a) \o LogNodes(n.b)
WitnessOk(e, env) ==
  \A i \in 1..Len(LogNodes(e.ast)) :
     LET n == LogNodes(e.ast)[i]  a == Ev(n.a, env)  w == env.wit[n.w]
     IN /\ RLeq(LogResidual(a.ty, a.v, w), TolValue)
        \* principal branch, and away from the cut where the derivative of log is not O(1)
        /\ LET r == GRotNorm2(a.ty, w) IN RLeq(MaxSeq(r, Len(r)), RSq(RSub(PiLo, Dec(2, -1))))

---------------------------------------------------------------------------
\* verdict plumbing
Fail(clause, call, err, tol) == <<[clause |-> clause, call |-> call, err |-> err, tol |-> tol]>>
Chk(clause, call, ok, err, tol) == IF ok THEN <<>> ELSE Fail(clause, call, RToStr(err), RToStr(tol))
ChkS(clause, call, ok, msg) == IF ok THEN <<>> ELSE Fail(clause, call, msg, "")

RECURSIVE JoinInts(_, _)
JoinInts(s, k) == IF k > Len(s) THEN "" ELSE ToString(s[k]) \o JoinInts(s, k + 1)
CallId(c) == c.cm \o "|i" \o JoinInts(c.idx, 1) \o (IF c.sub = 1 THEN "s" ELSE "f") \o "|K" \o ToString(c.K) \o "|" \o c.mode

RECURSIVE FlatAcc(_, _, _)
FlatAcc(ss, k, acc) == IF k > Len(ss) THEN acc ELSE FlatAcc(ss, k + 1, acc \o ss[k])
\* (the argument is forced first: Len of an unevaluated function constructor re-evaluates every element)
Flat(ss) == FlatAcc(RForce(ss), 1, <<>>)

\* columns of the full derivative selected by an index list (1-based argument indices, in the given order)
RECURSIVE ColsOf(_, _, _)
ColsOf(env, idx, k) ==
  IF k > Len(idx) THEN <<>>
  ELSE [j \in 1..Dof(env.args[idx[k]].t) |-> env.off[idx[k]] + j] \o ColsOf(env, idx, k + 1)
SelCols(J, cols) == RForce([r \in 1..Rows(J) |-> [c \in 1..Len(cols) |-> J[r][cols[c]]]])
\* Hessian with respect to an index subset: rows and, inside every block, columns of the selected coordinates;
\* the blocks of the result are n x n with n = Len(cols), block j at columns (j-1) n + 1 .. j n
SelHess(H, cols, ny, nx) ==
  LET n == Len(cols)
  IN RForce([a \in 1..n |-> [c \in 1..(ny * n) |->
        LET j == ((c - 1) \div n) + 1  b == ((c - 1) % n) + 1 IN H[cols[a]][(j - 1) * nx + cols[b]]]])

ShapeIs(m, r, c) == Len(m) = r /\ \A i \in 1..Len(m) : Len(m[i]) = c

\* does the call have to return the callable's own matrices verbatim?
Verbatim(e, c) ==
  \/ c.mode = "ana"
  \/ /\ c.mode = "def" /\ c.sub = 0
     /\ \/ c.K = 1 /\ e.hasJ = 1
        \/ c.K = 2 /\ e.hasJ = 1 /\ e.hasH = 1

\* accuracy of a matrix relative to the largest entry of the exact one
AccOk(X, Y, tol, slack) == RLeq(MaxAbsDiff(X, Y), RAdd(RMul(tol, MaxAbs(Y)), slack))
AccErr(X, Y) == RDiv(MaxAbsDiff(X, Y), MaxAbs(Y))

\* one call: O = [ty, v, J] exact evaluation, H = exact full Hessian (or <<>>), dom = point in the accuracy domain
CallChk(e, c, env, O, H, dom) ==
  LET id == CallId(c)
      pfx == IF c.sub = 1 THEN "C08.subset" ELSE "C08"
      n == Len(e.args)
      cols == ColsOf(env, c.idx, 1)
      ny == Dof(O.ty)
      \* ---- harness sanity: the call started from the logged arguments
      pre == ChkS("TOOL.pre", id, c.pre = [i \in 1..n |-> e.args[i].c], "call did not start from the logged arguments")
      \* ---- C08.restore: every argument passed by reference holds its original value up to 1e-15 * max|coef|
      restore == Flat([i \in 1..n |->
         IF ~FinV(c.post[i]) THEN Fail("C08.restore", id, "non-finite", "arg " \o ToString(i))
         ELSE LET b == V(c.pre[i])  a == V(c.post[i])
                  d == IF Len(b) = 0 THEN R0 ELSE VMaxAbsDiff(a, b)
                  bound == RMul(TolRestore, VMaxAbs(b))
              IN Chk("C08.restore" \o (IF c.K = 2 THEN ".k2" ELSE ".k1"), id \o "|arg" \o ToString(i), RLeq(d, bound), d, bound)])
      \* ---- C08.value / K = 0 returns just the value
      vclause == IF c.K = 0 THEN "C08.subset.k0" ELSE pfx \o ".value"
      arity == ChkS(vclause, id, c.rs = c.K + 1, "returned tuple has " \o ToString(c.rs) \o " elements")
      value == ChkS(vclause, id, c.val = e.fx, "returned value differs from f(x)")
      \* ---- derivatives
      hasJ == c.K >= 1 /\ c.rs >= 2
      hasH == c.K = 2 /\ c.rs >= 3
      verb == Verbatim(e, c)
      ana == IF ~verb THEN <<>>
             ELSE (IF hasJ THEN ChkS("C08.analytic.jac", id, c.J = e.ownJ, "Jacobian is not the callable's own") ELSE <<>>)
                  \o (IF hasH THEN ChkS("C08.analytic.hess", id, c.H = e.ownH, "Hessian is not the callable's own") ELSE <<>>)
      jcl == pfx \o ".jac" \o (IF c.K = 2 THEN ".k2" ELSE "")
      num == IF verb \/ ~hasJ THEN <<>>
             ELSE IF ~FinM(c.J) THEN Fail(jcl, id, "non-finite", "finite")
             ELSE IF ~ShapeIs(c.J, ny, Len(cols)) THEN Fail(jcl \o ".shape", id, "wrong shape", ToString(ny) \o "x" \o ToString(Len(cols)))
             ELSE LET Y == SelCols(O.J, cols)  X == M(c.J)
                  IN IF ~(dom /\ IsO1(MaxAbs(Y))) THEN <<>>
                     ELSE Chk(jcl, id, AccOk(X, Y, TolJac, SlackJ), AccErr(X, Y), TolJac)
      hcl == pfx \o ".hess"
      hes == IF verb \/ ~hasH THEN <<>>
             ELSE IF ~FinM(c.H) THEN Fail(hcl, id, "non-finite", "finite")
             ELSE IF ~ShapeIs(c.H, Len(cols), Len(cols) * ny) THEN Fail(hcl \o ".shape", id, "wrong shape", ToString(Len(cols)) \o "x" \o ToString(Len(cols) * ny))
             ELSE LET Y == SelHess(H, cols, ny, env.nx)  X == M(c.H)
                  IN IF ~(dom /\ IsO1(MaxAbs(Y))) THEN <<>>
                     ELSE Chk(hcl, id, AccOk(X, Y, TolHess, SlackH), AccErr(X, Y), TolHess)
  IN pre \o restore \o arity \o value \o ana \o num \o hes

\* coverage cells of one call: which clauses were decided for it
CallCells(e, c, env, O, H, dom) ==
  LET cols == ColsOf(env, c.idx, 1)
      verb == Verbatim(e, c)
      sfx == IF c.sub = 1 THEN "C08.subset" ELSE "C08"
      jdec == dom /\ IsO1(MaxAbs(SelCols(O.J, cols)))
      hdec == dom /\ IsO1(MaxAbs(SelHess(H, cols, Dof(O.ty), env.nx)))
  IN <<"call|" \o e.fn \o "|" \o CallId(c), "clause|C08.restore." \o c.cm, "clause|" \o sfx \o ".value"
       >> \o (IF c.K = 0 THEN <<"clause|C08.subset.k0">>
             ELSE IF verb THEN <<"clause|C08.analytic.K" \o ToString(c.K) \o "." \o c.mode,
                                  "acc|" \o e.fn \o "|analytic.K" \o ToString(c.K)>>
             ELSE (IF jdec THEN <<"clause|" \o sfx \o ".jac" \o (IF c.K = 2 THEN ".k2" ELSE ""), "acc|" \o e.fn \o "|jac">>
                   ELSE <<"skipped|jac.notO1">>)
                  \o (IF c.K < 2 THEN <<>> ELSE IF hdec THEN <<"clause|" \o sfx \o ".hess", "acc|" \o e.fn \o "|hess",
                                                                  "shape|" \o sfx \o ".hess.ny" \o ToString(Dof(O.ty)) \o ".args" \o ToString(Len(c.idx))>>
                      ELSE <<"skipped|hess.notO1">>))

NeedsHess(e) == \E i \in 1..Len(e.calls) : e.calls[i].K = 2 /\ ~Verbatim(e, e.calls[i])

\* everything about one event: <<bad steps, coverage cells>>
CheckDr(e) ==
  IF ~ArgsFinite(e) \/ ~FinV(e.fx) \/ ~(\A i \in 1..Len(e.wit) : FinV(e.wit[i]))
  THEN <<Fail("TOOL.domain", "-", "non-finite operand", ""), <<>>>>
  ELSE
  LET env == Env0(e)
      argsOk == \A i \in 1..Len(e.args) : ArgInDomain(e.args[i].t, V(e.args[i].c))
  IN IF ~argsOk THEN <<Fail("TOOL.domain", "-", "argument outside the property's domain", ""), <<>>>>
     ELSE IF ~WitnessOk(e, env) THEN <<Fail("TOOL.witness", "-", "a logged logarithm is not a principal logarithm away from the cut", ""), <<>>>>
     ELSE
     LET O == Ev(e.ast, env)
         fx == V(e.fx)
         \* the callable is the function the tree denotes (binds harness and specification)
         vdef == Chk("C08.value.def", "-", ValueOk(O.ty, O.v, fx), ValueErr(O.ty, O.v, fx), TolValue)
         dom == IsO1(RMax(ValueMax(O.ty, O.v), O1Lo))          \* values at most 10
         H == IF NeedsHess(e) THEN HessCD(e.ast, env, Dof(O.ty)) ELSE <<>>
         res == Flat([i \in 1..Len(e.calls) |-> CallChk(e, e.calls[i], env, O, H, dom)])
         cells == Flat([i \in 1..Len(e.calls) |-> CallCells(e, e.calls[i], env, O, H, dom)])
     IN <<vdef \o res, cells \o <<"point|" \o e.fn \o (IF dom THEN "" ELSE "|valueNotO1")>>>>

Check(e) ==
  CASE e.op = "dr" -> CheckDr(e)
    [] OTHER -> <<Fail("TOOL.unknown_op", "-", e.op, ""), <<>>>>

---------------------------------------------------------------------------
RECURSIVE Count(_, _, _)
Count(cv, keys, k) ==
  IF k > Len(keys) THEN cv
  ELSE LET key == keys[k]
       IN Count(IF key \in DOMAIN cv THEN [cv EXCEPT ![key] = @ + 1] ELSE cv @@ (key :> 1), keys, k + 1)

\* NOTE: a LET at the level of the action is re-evaluated by TLC at every use (it is processed by
\* getNextStates, whose lazy values are not cached); the step is therefore one expression-level operator.
StepSt(e, ln, s) ==
  LET r == Check(e)
      res == r[1]
  IN [bad |-> s.bad \o [i \in 1..Len(res) |-> [line |-> ln, op |-> e.op, stratum |-> e.fn] @@ res[i]],
      cov |-> Count(s.cov, r[2], 1)]

Init == l = 1 /\ st = [bad |-> <<>>, cov |-> <<>>]

Next ==
  /\ l <= Len(Tr)
  /\ st' = StepSt(Tr[l], l, st)
  /\ l' = l + 1

Spec == Init /\ [][Next]_vars

Report ==
  l = Len(Tr) + 1 =>
    JsonSerialize(OutFile, [lines |-> Len(Tr), consumed |-> l - 1, bad |-> st.bad,
                            cov |-> [k \in DOMAIN st.cov |-> st.cov[k]]])
=============================================================================
