------------------------------ MODULE TraceFit ------------------------------
(* Trace specification for the "fit" harness family (property C14: curve        *)
(* construction meets its specification).  Every line of the trace is one call  *)
(* of fit_spline_1d / fit_spline / fit_bspline / dubins_curve /                  *)
(* reparameterize_spline of the real library with all operands and everything   *)
(* that was observed of the result logged as exact rationals.  Everything is    *)
(* RELATIONAL: the action of a line states what the property demands of the     *)
(* returned object and evaluates it in exact arithmetic; no formula of the      *)
(* library is re-implemented.                                                   *)
(*   fit1d   : the linear constraint system of the spline specification is      *)
(*             rebuilt here from the definition of a piecewise Bernstein         *)
(*             polynomial and the returned coefficients are substituted.        *)
(*   fit     : interpolation from both sides, velocity continuity, rest at ends *)
(*   bspline : the returned domain covers the data's time span                  *)
(*   dubins  : unit speed, curvature bound, reaches the target (matrix           *)
(*             exponentials on SE(2)); minimality against VERIFIED candidates   *)
(*   reparam : non-decreasing, from t_min to t_max, start speed                 *)
(* A bad step does not stop validation (see TraceLie).                          *)
(* Clauses: C14.lin.* C14.interp.* C14.c1.* C14.bspline.* C14.dubins.path.*     *)
(*          C14.dubins.min C14.reparam.*   (DESIGN.md Appendix C)               *)
EXTENDS Tol, Json, IOUtils, TLC

TraceFile == IOEnv.TRACE
OutFile == IOEnv.VERDICT
Tr == ndJsonDeserialize(TraceFile)

VARIABLES l, bad, cov
vars == <<l, bad, cov>>

---------------------------------------------------------------------------
\* reading logged numbers
FinQ(q) == q[4] < 100000
FinV(v) == \A i \in 1..Len(v) : FinQ(v[i])
FinVV(m) == \A i \in 1..Len(m) : FinV(m[i])
Q(q) == RFromDouble(q)
V(v) == RVecFromDoubles(v)
VV(m) == RMatFromDoubles(m)          \* a list of vectors

Fail(clause, err, tol) == <<[clause |-> clause, err |-> RToStr(err), tol |-> RToStr(tol)]>>
FailS(clause, err, tol) == <<[clause |-> clause, err |-> err, tol |-> tol]>>
Chk(clause, ok, err, tol) == IF ok THEN <<>> ELSE Fail(clause, err, tol)
NonFinite(clause) == FailS(clause, "non-finite", "finite")
Tool(what, detail) == FailS("TOOL." \o what, detail, "")
\* the harness runs every call in a child process; status # 0: the call did not return normally
\* (1000 + signal number, or the exit code of a sanitizer abort / uncaught exception)
NoReturn(clause, e) ==
  FailS(clause \o ".returns", "the call did not return normally (wait status " \o ToString(e.status) \o ")", "returns")

\* the property's tolerance for "meets its constraints": 1e-6 relative
Tol6 == Dec(1, -6)
Tol9 == Dec(1, -9)

PosPart(x) == IF RSign(x) > 0 THEN x ELSE R0
\* largest entry of a vector of non-negative rationals (0 for the empty vector)
VMax0(v) == IF Len(v) = 0 THEN R0 ELSE RVecMaxAbs(v)
ChkMax(clause, v, tol) == LET m == VMax0(v) IN Chk(clause, RLeq(m, tol), m, tol)
\* vector constructor that tolerates n = 0
Mk(n, F(_)) == IF n <= 0 THEN <<>> ELSE RForce([i \in 1..n |-> F(i)])

RECURSIVE MinSeq(_, _)
MinSeq(s, k) == IF k = 1 THEN s[1] ELSE RMin(s[k], MinSeq(s, k - 1))

---------------------------------------------------------------------------
\* Spline specifications exactly as documented in smooth/spline/fit.hpp:
\*   PiecewiseLinear      degree 1, continuity of the value only, no boundary constraints
\*   FixedDerCubic<P1,P2> degree 3, derivatives 1..2 continuous, derivative P1 fixed at the left end, P2 at the right
\*   MinDerivative<K,O,P> degree K, derivatives 1..P continuous, derivatives 1..P-1 fixed at both ends
SpecK(s) == CASE s.k = "PL" -> 1 [] s.k = "FDC" -> 3 [] s.k = "MD" -> s.K
SpecInn(s) == CASE s.k = "PL" -> 0 [] s.k = "FDC" -> 2 [] s.k = "MD" -> s.P
SpecLeft(s) == CASE s.k = "PL" -> <<>> [] s.k = "FDC" -> <<s.p1>> [] s.k = "MD" -> [i \in 1..(s.P - 1) |-> i]
SpecRght(s) == CASE s.k = "PL" -> <<>> [] s.k = "FDC" -> <<s.p2>> [] s.k = "MD" -> [i \in 1..(s.P - 1) |-> i]
SpecName(s) == CASE s.k = "PL" -> "PL"
                 [] s.k = "FDC" -> "FDC" \o ToString(s.p1) \o ToString(s.p2)
                 [] s.k = "MD" -> "MD" \o ToString(s.K) \o ToString(s.O) \o ToString(s.P)
SpecKnown(s) ==
  \/ s.k = "PL"
  \/ s.k = "FDC" /\ s.p1 \in {1, 2} /\ s.p2 \in {1, 2}
  \/ s.k = "MD" /\ s.K \in 5..6 /\ s.P \in 2..4 /\ s.O \in 2..4 /\ s.P <= s.K /\ s.O <= s.K
SeqHas(q, x) == \E i \in 1..Len(q) : q[i] = x
SeqMax(q) == IF Len(q) = 0 THEN 0 ELSE CHOOSE m \in {q[i] : i \in 1..Len(q)} : \A i \in 1..Len(q) : q[i] <= m
IMax(a, b) == IF a >= b THEN a ELSE b
SpecMaxDeg(s) == IMax(SpecInn(s), IMax(SeqMax(SpecLeft(s)), SeqMax(SpecRght(s))))
\* the property's domain for neighbouring sampling intervals
SpecRatio(s) == IF s.k = "MD" THEN RI(10) ELSE RI(1000)

---------------------------------------------------------------------------
\* Bernstein polynomials from their definition  b_{nu,K}(u) = C(K,nu) u^nu (1-u)^(K-nu),
\* expanded in monomials and differentiated term by term (plain integers).
RECURSIVE Binom(_, _)
Binom(n, k) == IF k < 0 \/ k > n THEN 0 ELSE IF k = 0 THEN 1 ELSE (Binom(n - 1, k - 1) * n) \div k
RECURSIVE Fall(_, _)          \* p (p-1) ... (p-d+1)
Fall(p, d) == IF d = 0 THEN 1 ELSE p * Fall(p - 1, d - 1)
Sgn(n) == IF n % 2 = 0 THEN 1 ELSE -1
IAbs(x) == IF x < 0 THEN -x ELSE x
\* coefficient of u^p in b_{nu,K}
MonoCoef(K, nu, p) == IF p < nu THEN 0 ELSE Binom(K, nu) * Binom(K - nu, p - nu) * Sgn(p - nu)
\* d-th derivative with respect to u at u = 0 and at u = 1
BernD0(K, d, nu) == IF d > K THEN 0 ELSE Fall(d, d) * MonoCoef(K, nu, d)
RECURSIVE SumP(_, _, _, _)
SumP(K, nu, d, p) == IF p > K THEN 0 ELSE MonoCoef(K, nu, p) * Fall(p, d) + SumP(K, nu, d, p + 1)
BernD1(K, d, nu) == SumP(K, nu, d, d)
RECURSIVE SumAbs0(_, _, _)
SumAbs0(K, d, nu) == IF nu > K THEN 0 ELSE IAbs(BernD0(K, d, nu)) + SumAbs0(K, d, nu + 1)
RECURSIVE SumAbs1(_, _, _)
SumAbs1(K, d, nu) == IF nu > K THEN 0 ELSE IAbs(BernD1(K, d, nu)) + SumAbs1(K, d, nu + 1)

---------------------------------------------------------------------------
\* time stamps
Diffs(t) == Mk(Len(t) - 1, LAMBDA i : RSub(t[i + 1], t[i]))
DtDomain(dt, rmax) ==
  /\ \A i \in 1..Len(dt) : RLeq(Dec(1, -2), dt[i]) /\ RLeq(dt[i], Dec(1, 2))
  /\ \A i \in 1..(Len(dt) - 1) : RLeq(dt[i], RMul(rmax, dt[i + 1])) /\ RLeq(dt[i + 1], RMul(rmax, dt[i]))
DtClass(dt) ==
  LET m == MinSeq(dt, Len(dt))
  IN IF RLt(m, Dec(3, -2)) THEN "dt<.03" ELSE IF RLt(m, Dec(1, -1)) THEN "dt<.1"
     ELSE IF RLt(m, Dec(3, -1)) THEN "dt<.3" ELSE IF RLt(m, R1) THEN "dt<1"
     ELSE IF RLt(m, RI(10)) THEN "dt<10" ELSE "dt<=100"
RatioWithin(dt, r) == \A i \in 1..(Len(dt) - 1) : RLeq(dt[i], RMul(r, dt[i + 1])) /\ RLeq(dt[i + 1], RMul(r, dt[i]))
RatioClass(dt) == IF RatioWithin(dt, RFrac(3, 2)) THEN "r1" ELSE IF RatioWithin(dt, RI(10)) THEN "r10" ELSE "r1e3"
AllZero(v) == \A i \in 1..Len(v) : RSign(v[i]) = 0

---------------------------------------------------------------------------
\* C14.lin : fit_spline_1d.  Unknowns x = (beta_{i,nu}), i = 1..N, nu = 0..K; piece i is
\*   p_i(t) = sum_nu beta_{i,nu} b_{nu,K}(t / dt_i),  so  d^d p_i / dt^d = dt_i^-d  sum_nu beta_{i,nu} b^(d)_{nu,K}(u).
\* Rows of the specification:
\*   value     p_i(0) = 0,  p_i(dt_i) = dx_i                                          i = 1..N
\*   cont      d^d p_k/dt^d (dt_k) = d^d p_{k+1}/dt^d (0)                             k = 1..N-1, d = 1..InnCnt
\*   boundary  d^d p_1/dt^d (0) = 0 for d in LeftDeg,  d^d p_N/dt^d (dt_N) = 0 for d in RghtDeg
\* A row a.x = b holds "to 1e-6 relative" when |a.x - b| <= 1e-6 (|a|_1 |x|_inf + |b|): the normwise
\* relative residual of the row (the componentwise form |a||x| would demand an exact zero of every coefficient
\* that the constraints force to vanish, e.g. beta_{i,0}, which no floating-point solver promises).
Fit1dDomain(e) ==
  LET s == e.spec
  IN IF ~SpecKnown(s) THEN Tool("domain", "spec")
     ELSE IF ~(FinV(e.dt) /\ FinV(e.dx) /\ FinV(e.lv) /\ FinV(e.rv)) THEN Tool("domain", "non-finite input")
     ELSE LET dt == V(e.dt)  N == Len(dt)
          IN IF ~(N \in 1..39 /\ Len(e.dx) = N) THEN Tool("domain", "sizes")
             ELSE IF ~DtDomain(dt, SpecRatio(s)) THEN Tool("domain", "sampling intervals")
             ELSE IF ~(Len(e.lv) = Len(SpecLeft(s)) /\ Len(e.rv) = Len(SpecRght(s)) /\ AllZero(V(e.lv)) /\ AllZero(V(e.rv)))
                  THEN Tool("domain", "boundary values")
             ELSE <<>>

TFit1d(e) ==
  LET s == e.spec  K == SpecK(s)  inn == SpecInn(s)  Lf == SpecLeft(s)  Rg == SpecRght(s)  Dm == SpecMaxDeg(s)
      dt == V(e.dt)  dx == V(e.dx)  x == V(e.x)  N == Len(dt)
      T0 == RForce([d \in 1..(Dm + 1) |-> [nu \in 1..(K + 1) |-> RI(BernD0(K, d - 1, nu - 1))]])
      T1 == RForce([d \in 1..(Dm + 1) |-> [nu \in 1..(K + 1) |-> RI(BernD1(K, d - 1, nu - 1))]])
      N0 == RForce([d \in 1..(Dm + 1) |-> RI(SumAbs0(K, d - 1, 0))])
      N1 == RForce([d \in 1..(Dm + 1) |-> RI(SumAbs1(K, d - 1, 0))])
      Xs == RForce([i \in 1..N |-> VSeg(x, (i - 1) * (K + 1) + 1, K + 1)])
      xinf == VMaxAbs(x)
      Ratio(r, n, b) == IF RSign(r) = 0 THEN R0 ELSE RDiv(RAbs(r), RAdd(RMul(n, xinf), RAbs(b)))
      InvPow(i, d) == RDiv(R1, RPowInt(dt[i], d))
      val == Mk(2 * N, LAMBDA j :
               LET i == (j + 1) \div 2
               IN IF j % 2 = 1 THEN Ratio(RDot(T0[1], Xs[i]), N0[1], R0)
                  ELSE Ratio(RSub(RDot(T1[1], Xs[i]), dx[i]), N1[1], dx[i]))
      cont == Mk((N - 1) * inn, LAMBDA j :
               LET k == ((j - 1) \div inn) + 1  d == ((j - 1) % inn) + 1
                   f1 == InvPow(k, d)  f2 == InvPow(k + 1, d)
               IN Ratio(RSub(RMul(f1, RDot(T1[d + 1], Xs[k])), RMul(f2, RDot(T0[d + 1], Xs[k + 1]))),
                        RAdd(RMul(f1, N1[d + 1]), RMul(f2, N0[d + 1])), R0))
      bnd == Mk(Len(Lf) + Len(Rg), LAMBDA j :
               IF j <= Len(Lf)
               THEN LET d == Lf[j]  f == InvPow(1, d) IN Ratio(RMul(f, RDot(T0[d + 1], Xs[1])), RMul(f, N0[d + 1]), R0)
               ELSE LET d == Rg[j - Len(Lf)]  f == InvPow(N, d) IN Ratio(RMul(f, RDot(T1[d + 1], Xs[N])), RMul(f, N1[d + 1]), R0))
  IN ChkMax("C14.lin.interp", val, Tol6) \o ChkMax("C14.lin.cont", cont, Tol6) \o ChkMax("C14.lin.bnd", bnd, Tol6)

CFit1d(e) ==
  LET dom == Fit1dDomain(e)
      str == IF Len(dom) > 0 THEN "-" ELSE SpecName(e.spec) \o "|" \o DtClass(V(e.dt)) \o "|" \o RatioClass(V(e.dt))
  IN [bad |-> IF Len(dom) > 0 THEN dom
              ELSE IF e.status # 0 THEN NoReturn("C14.lin", e)
              ELSE IF Len(e.x) # (SpecK(e.spec) + 1) * Len(e.dt)
                   THEN FailS("C14.lin.size", "returned vector has " \o ToString(Len(e.x)) \o " entries", "(K+1) N")
              ELSE IF ~FinV(e.x) THEN NonFinite("C14.lin.interp") ELSE TFit1d(e),
      stratum |-> str, keys |-> <<"fit1d|" \o str>>,
      info |-> IF Len(dom) > 0 THEN [spec |-> "-"] ELSE [spec |-> SpecName(e.spec), dtc |-> DtClass(V(e.dt)), rc |-> RatioClass(V(e.dt))]]

---------------------------------------------------------------------------
\* C14.interp / C14.c1 : fit_spline on a Lie group or a vector space.
\* The harness logs the time stamps t, the data gs, a witness d_j for log(g_j^-1 g_{j+1}) (verified here),
\* and value + body velocity of the returned Spline at t_i - t_1 ("c"), at the double just below ("p") and just
\* above ("s").  All sampling intervals lie on a dyadic grid, so the spline's knots are exactly t_i - t_1 and
\* the neighbours really lie on the two sides of the knot.
GroupKnown(g) == g.k \in {"SO3", "SE2", "SE3"} \/ (g.k = "R" /\ g.n \in 1..3)
\* data are group elements up to the rounding of a chain of compositions (| |q|^2 - 1 | <= 1e-12)
UnitOk(g, c) == LET u == GUnitResiduals(g, c) IN \A i \in 1..Len(u) : RLeq(u[i], Dec(1, -12))
RotOk(g, a) == LET r == GRotNorm2(g, a) IN \A i \in 1..Len(r) : RLeq(r[i], RSq(RFrac(31, 10)))

FitDomain(e) ==
  LET s == e.spec  g == e.g
  IN IF ~(SpecKnown(s) /\ GroupKnown(g)) THEN Tool("domain", "spec/group")
     ELSE IF ~(FinV(e.t) /\ FinVV(e.gs) /\ FinVV(e.d) /\ FinV(e.lv) /\ FinV(e.rv)) THEN Tool("domain", "non-finite input")
     ELSE LET t == V(e.t)  N == Len(t)  dt == Diffs(t)
          IN IF ~(N \in 2..40 /\ Len(e.gs) = N /\ Len(e.d) = N - 1) THEN Tool("domain", "sizes")
             ELSE IF ~DtDomain(dt, SpecRatio(s)) THEN Tool("domain", "sampling intervals")
             ELSE IF ~(AllZero(V(e.lv)) /\ AllZero(V(e.rv))) THEN Tool("domain", "boundary values")
             ELSE IF ~(\A i \in 1..N : Len(e.gs[i]) = RepSize(g) /\ UnitOk(g, V(e.gs[i]))) THEN Tool("domain", "data not on the group")
             ELSE IF ~(\A j \in 1..(N - 1) :
                         LET dj == V(e.d[j])
                         IN /\ Len(dj) = Dof(g) /\ RotOk(g, dj)
                            /\ RelOkM(XExp(g, dj), MMul(MInvD(GMat(g, V(e.gs[j]))), GMat(g, V(e.gs[j + 1]))), Tol9))
                  THEN Tool("domain", "difference witness")
             ELSE <<>>

AsksRestLeft(s) == SeqHas(SpecLeft(s), 1)
AsksRestRght(s) == SeqHas(SpecRght(s), 1)

TFit(e) ==
  LET g == e.g  s == e.spec  K == SpecK(s)
      t == V(e.t)  N == Len(t)  dt == Diffs(t)
      Mg == RForce([i \in 1..N |-> GMat(g, V(e.gs[i]))])
      d == VV(e.d)
      D == VMax0(Mk(N - 1, LAMBDA j : VMaxAbs(d[j])))
      Side(vals, i) == RelErrM(GMat(g, V(vals[i])), Mg[i])
      interp == Mk(3 * N, LAMBDA j :
                  LET i == ((j - 1) \div 3) + 1  c == (j - 1) % 3
                  IN IF c = 0 THEN Side(e.pv, i) ELSE IF c = 1 THEN Side(e.cv, i) ELSE Side(e.sv, i))
      pw == VV(e.pw)  cw == VV(e.cw)  sw == VV(e.sw)
      KD == RMul(RI(2 * K), D)
      \* velocity jump across inner knot i, relative to the velocity scale of the two adjoining pieces
      c1 == IF K < 3 THEN <<>>
            ELSE Mk(N - 2, LAMBDA j :
                   LET i == j + 1
                       sc == RMax(R1, RMax(VMaxAbs(pw[i]), RMax(VMaxAbs(cw[i]),
                                  RMul(KD, RAdd(RDiv(R1, dt[i - 1]), RDiv(R1, dt[i]))))))
                   IN RDiv(RMax(VMaxAbsDiff(pw[i], cw[i]), VMaxAbsDiff(sw[i], cw[i])), sc))
      restL == IF AsksRestLeft(s)
               THEN LET sc == RMax(R1, RDiv(KD, dt[1])) IN <<RDiv(VMaxAbs(cw[1]), sc), RDiv(VMaxAbs(sw[1]), sc)>>
               ELSE <<>>
      restR == IF AsksRestRght(s)
               THEN LET sc == RMax(R1, RDiv(KD, dt[N - 1])) IN <<RDiv(VMaxAbs(cw[N]), sc), RDiv(VMaxAbs(pw[N]), sc)>>
               ELSE <<>>
      span == RSub(t[N], t[1])
      tm == Q(e.tmax)
  IN ChkMax("C14.interp", interp, Tol6)
     \o Chk("C14.interp.tmax", RLeq(RAbs(RSub(tm, span)), RMul(Tol9, RMax(R1, span))), RAbs(RSub(tm, span)), Tol9)
     \o ChkMax("C14.c1.cont", c1, Tol6)
     \o ChkMax("C14.c1.rest", restL \o restR, Tol6)

CFit(e) ==
  LET dom == FitDomain(e)
      str == IF Len(dom) > 0 THEN "-"
             ELSE e.g.k \o "|" \o SpecName(e.spec) \o "|" \o DtClass(Diffs(V(e.t))) \o "|" \o RatioClass(Diffs(V(e.t)))
      N == Len(e.t)
      sizes == Len(e.pv) = N /\ Len(e.cv) = N /\ Len(e.sv) = N /\ Len(e.pw) = N /\ Len(e.cw) = N /\ Len(e.sw) = N
      fin == FinVV(e.pv) /\ FinVV(e.cv) /\ FinVV(e.sv) /\ FinVV(e.pw) /\ FinVV(e.cw) /\ FinVV(e.sw) /\ FinQ(e.tmax)
  IN [bad |-> IF Len(dom) > 0 THEN dom
              ELSE IF e.status # 0 THEN NoReturn("C14.interp", e)
              ELSE IF ~sizes THEN Tool("samples", "sizes")
              ELSE IF ~fin THEN NonFinite("C14.interp") ELSE TFit(e),
      stratum |-> str, keys |-> <<"fit|" \o str>>,
      info |-> IF Len(dom) > 0 THEN [spec |-> "-"]
               ELSE [spec |-> SpecName(e.spec), dtc |-> DtClass(Diffs(V(e.t))), rc |-> RatioClass(Diffs(V(e.t))), grp |-> e.g.k]]

---------------------------------------------------------------------------
\* C14.bspline : fit_bspline returns a BSpline whose domain [t_min, t_max] covers the data's time span
\* (closed ends get a few ulp).  status # 0: the call did not return normally (the harness ran it in a child process).
BsplineDomain(e) ==
  IF ~(FinV(e.t) /\ FinQ(e.dt)) THEN Tool("domain", "non-finite input")
  ELSE LET t == V(e.t)  N == Len(t)
       IN IF ~(N \in 2..40 /\ RSign(Q(e.dt)) > 0 /\ \A i \in 1..(N - 1) : RLt(t[i], t[i + 1])) THEN Tool("domain", "time stamps")
          ELSE <<>>
TBspline(e) ==
  IF e.status # 0 THEN NoReturn("C14.bspline", e)
  ELSE IF ~(FinQ(e.tmin) /\ FinQ(e.tmax)) THEN NonFinite("C14.bspline")
  ELSE LET t == V(e.t)  N == Len(t)  lo == Q(e.tmin)  hi == Q(e.tmax)
           sl == RMul(RPow2(-49), RMax(R1, RMax(RAbs(t[1]), RAbs(t[N]))))
       IN Chk("C14.bspline.tmin", RLeq(lo, RAdd(t[1], sl)), RSub(lo, t[1]), sl)
          \o Chk("C14.bspline.tmax", RLeq(RSub(t[N], sl), hi), RSub(t[N], hi), sl)
CBspline(e) ==
  LET dom == BsplineDomain(e)
      str == IF Len(dom) > 0 THEN "-"
             ELSE LET t == V(e.t)  q == RDiv(RSub(t[Len(t)], t[1]), Q(e.dt))  fr == RSub(q, RFloor(q))
                  IN e.g.k \o "|K" \o ToString(e.K) \o "|" \o
                     (IF RLeq(fr, Tol9) \/ RLeq(RSub(R1, Tol9), fr) THEN "span=n*dt" ELSE "generic")
  IN [bad |-> IF Len(dom) > 0 THEN dom ELSE TBspline(e), stratum |-> str, keys |-> <<"bspline|" \o str>>, info |-> [spec |-> "-"]]

---------------------------------------------------------------------------
\* C14.dubins : dubins_curve<K>(target, R).
\* A curve in SE(2) that starts at the identity and has body velocity (1, 0, kappa) on a piece of length L ends
\* the piece at  start * ExpM(L * hat(1, 0, kappa)).  The returned Spline is observed through its public
\* operator() at every knot, just before every knot and in the middle of every piece.
SE2 == [k |-> "SE2"]
Arc(len, kappa) == XExp(SE2, <<len, R0, RMul(len, kappa)>>)
RECURSIVE Starts(_, _, _, _)
\* pose at the start of piece j, j = 1..np+1, from the piece lengths and curvatures
Starts(kn, kap, j, acc) ==
  IF j > Len(kap) THEN <<acc>>
  ELSE <<acc>> \o Starts(kn, kap, j + 1, MRound(MMul(acc, Arc(RSub(kn[j + 1], kn[j]), kap[j])), 200))
Letter(kap) == IF RSign(kap) > 0 THEN "L" ELSE IF RSign(kap) < 0 THEN "R" ELSE "S"
RECURSIVE Word(_, _)
Word(kap, j) == IF j > Len(kap) THEN "" ELSE Letter(kap[j]) \o Word(kap, j + 1)
RECURSIVE SumV(_, _)
SumV(v, k) == IF k = 0 THEN R0 ELSE RAdd(v[k], SumV(v, k - 1))

DubinsDomain(e) ==
  IF ~(FinV(e.target) /\ FinQ(e.R)) THEN Tool("domain", "non-finite input")
  ELSE IF ~(RSign(Q(e.R)) > 0 /\ Len(e.target) = 4 /\ UnitOk(SE2, V(e.target))) THEN Tool("domain", "target / radius")
  ELSE <<>>
DubinsSamples(e) ==
  IF ~(FinV(e.knots) /\ FinV(e.ts)) THEN <<>>       \* judged below as a non-finite result
  ELSE LET kn == V(e.knots)  ts == V(e.ts)  np == Len(kn) - 1
       IN IF ~(np = e.size /\ Len(e.ki) = np + 1 /\ Len(e.vals) = Len(ts) /\ Len(e.vels) = Len(ts)
               /\ (\A j \in 1..(np + 1) : e.ki[j] \in 1..Len(ts) /\ REq(ts[e.ki[j]], kn[j]))
               /\ (\A k \in 1..(Len(ts) - 1) : RLt(ts[k], ts[k + 1]))
               /\ RSign(kn[1]) = 0 /\ REq(kn[np + 1], Q(e.tmax)))
          THEN Tool("samples", "knots / sample times inconsistent")
          ELSE <<>>

TDubins(e) ==
  LET R == Q(e.R)  invR == RDiv(R1, R)
      Mt == GMat(SE2, V(e.target))
      kn == V(e.knots)  np == Len(kn) - 1
      ts == V(e.ts)  vals == VV(e.vals)  vels == VV(e.vels)  ns == Len(ts)
      T == Q(e.tmax)
      \* curvature of piece j: the angular velocity observed at the piece's first instant
      kap == Mk(np, LAMBDA j : vels[e.ki[j]][3])
      P == Starts(kn, kap, 1, MId(3))
      \* piece containing sample k (right-continuous; the last instant belongs to the last piece)
      PieceOf(k) == CHOOSE j \in 1..np : e.ki[j] <= k /\ (j = np \/ k < e.ki[j + 1])
      \* (a curve without pieces - the target is the identity - has no velocity to speak of; see `still`)
      speed == IF np = 0 THEN <<>> ELSE Mk(ns, LAMBDA k : RMax(RAbs(RSub(vels[k][1], R1)), RAbs(vels[k][2])))
      curv == IF np = 0 THEN <<>> ELSE Mk(ns, LAMBDA k : PosPart(RSub(RMul(RAbs(vels[k][3]), R), R1)))
      const == IF np = 0 THEN <<>> ELSE Mk(ns, LAMBDA k : RMul(RAbs(RSub(vels[k][3], kap[PieceOf(k)])), R))
      value == IF np = 0 THEN <<>>
               ELSE Mk(ns, LAMBDA k :
                      LET j == PieceOf(k)
                      IN RelErrM(GMat(SE2, vals[k]), MMul(P[j], Arc(RSub(ts[k], kn[j]), kap[j]))))
      \* with no piece at all the curve is the constant identity
      still == IF np = 0 THEN Mk(ns, LAMBDA k : RMax(VMaxAbs(vels[k]), MaxAbsDiff(GMat(SE2, vals[k]), MId(3)))) ELSE <<>>
      \* minimality against verified candidates
      slack == RMul(Tol6, RMax(R1, T))
      cands == e.cands
      Tot(c) == LET q == V(c.len) IN RAdd(q[1], RAdd(q[2], q[3]))
      Verified(c) ==
        LET q == V(c.len)
        IN /\ FinV(c.len) /\ \A i \in 1..3 : RSign(q[i]) >= 0 /\ c.w[i] \in {-1, 0, 1}
           /\ RelOkM(MMul(MMul(Arc(q[1], RMul(RI(c.w[1]), invR)), Arc(q[2], RMul(RI(c.w[2]), invR))),
                          Arc(q[3], RMul(RI(c.w[3]), invR))), Mt, Tol9)
      shorter == {i \in 1..Len(cands) : FinV(cands[i].len) /\ RLt(RAdd(Tot(cands[i]), slack), T)}
      beaten == {i \in shorter : Verified(cands[i])}
  IN ChkMax("C14.dubins.path.speed", speed, Tol6)
     \o ChkMax("C14.dubins.path.curvature", curv, Tol6)
     \o ChkMax("C14.dubins.path.const", const, Tol6)
     \o ChkMax("C14.dubins.path.value", value \o still, Tol6)
     \o Chk("C14.dubins.path.start", REq(MaxAbsDiff(GMat(SE2, V(e.start)), MId(3)), R0), MaxAbsDiff(GMat(SE2, V(e.start)), MId(3)), R0)
     \o Chk("C14.dubins.path.end", RelOkM(GMat(SE2, V(e.end)), Mt, Tol6), RelErrM(GMat(SE2, V(e.end)), Mt), Tol6)
     \o Chk("C14.dubins.path.end.integrated", RelOkM(P[np + 1], Mt, Tol6), RelErrM(P[np + 1], Mt), Tol6)
     \o (IF beaten = {} THEN <<>>
         ELSE LET i == CHOOSE i \in beaten : \A j \in beaten : RLeq(Tot(cands[i]), Tot(cands[j]))
              IN Fail("C14.dubins.min", RSub(T, Tot(cands[i])), slack))

\* coverage of the candidate generator: is the shortest proposed candidate a genuine path, and how does the
\* library's length compare with it
DubinsCandKeys(e) ==
  LET cands == e.cands  T == Q(e.tmax)  invR == RDiv(R1, Q(e.R))  Mt == GMat(SE2, V(e.target))
      Tot(c) == LET q == V(c.len) IN RAdd(q[1], RAdd(q[2], q[3]))
      ok == {i \in 1..Len(cands) : FinV(cands[i].len)}
      slack == RMul(Tol6, RMax(R1, T))
  IN IF ok = {} THEN <<"dubins.cand|none">>
     ELSE LET b == CHOOSE i \in ok : \A j \in ok : RLeq(Tot(cands[i]), Tot(cands[j]))
              q == V(cands[b].len)  w == cands[b].w
              ver == /\ \A i \in 1..3 : RSign(q[i]) >= 0
                     /\ RelOkM(MMul(MMul(Arc(q[1], RMul(RI(w[1]), invR)), Arc(q[2], RMul(RI(w[2]), invR))),
                                    Arc(q[3], RMul(RI(w[3]), invR))), Mt, Tol9)
              rel == IF RLt(RAdd(Tot(cands[b]), slack), T) THEN "lib.longer"
                     ELSE IF RLt(RAdd(T, slack), Tot(cands[b])) THEN "lib.shorter" ELSE "equal"
          IN <<"dubins.cand|best." \o (IF ver THEN "verified" ELSE "rejected") \o "|" \o rel>>

\* stratum only: does the target lie on a feasibility boundary of some word?  Turning circles of the start have
\* centres (0, +-R), those of the target are target * (0, +-R); LSR / RSL need centre distance >= 2R, RLR / LRL <= 4R.
DubinsBoundary(e) ==
  LET R == Q(e.R)  c == V(e.target)  Rsq == RSq(R)
      D2(s1, s3) == RAdd(RSq(RSub(c[1], RMul(RI(s3), RMul(c[3], R)))),
                         RSq(RSub(RAdd(c[2], RMul(RI(s3), RMul(c[4], R))), RMul(RI(s1), R))))
      Near(x, m) == RLeq(RAbs(RSub(x, RMul(RI(m), Rsq))), RMul(Dec(1, -8), Rsq))
  IN Near(D2(1, -1), 4) \/ Near(D2(-1, 1), 4) \/ Near(D2(1, 1), 16) \/ Near(D2(-1, -1), 16)
\* stratum only: has the returned curve a piece whose duration is within a few ulp of zero relative to t_max?
DubinsTiny(e) ==
  LET kn == V(e.knots)  np == Len(kn) - 1
  IN \E j \in 1..np : RLeq(RSub(kn[j + 1], kn[j]), RMul(RPow2(-48), kn[np + 1]))

CDubins(e) ==
  LET dom0 == DubinsDomain(e)
      ret == Len(dom0) = 0 /\ e.status = 0
      dom == IF ret THEN DubinsSamples(e) ELSE dom0
      fin == ret /\ FinV(e.knots) /\ FinV(e.ts) /\ FinVV(e.vals) /\ FinVV(e.vels) /\ FinQ(e.tmax) /\ FinV(e.start) /\ FinV(e.end)
      judged == Len(dom) = 0 /\ fin
      word == IF ~judged THEN "-"
              ELSE LET np == Len(e.knots) - 1  vels == VV(e.vels)
                   IN IF np = 0 THEN "empty" ELSE Word(Mk(np, LAMBDA j : vels[e.ki[j]][3]), 1)
      rcl == IF ~judged THEN "-" ELSE LET R == Q(e.R) IN IF RLt(R, R1) THEN "R<1" ELSE IF RLeq(R, R1) THEN "R=1" ELSE "R>1"
      str == "K" \o ToString(e.K) \o "|" \o word \o "|" \o rcl
      geom == IF Len(dom0) > 0 THEN "-" ELSE IF DubinsBoundary(e) THEN "boundary" ELSE "interior"
      tiny == IF ret /\ Len(dom) = 0 /\ FinV(e.knots) THEN (IF DubinsTiny(e) THEN "tiny" ELSE "regular") ELSE "-"
  IN [bad |-> IF Len(dom) > 0 THEN dom
              ELSE IF e.status # 0 THEN NoReturn("C14.dubins.path", e)
              ELSE IF ~fin THEN NonFinite("C14.dubins.path.finite") ELSE TDubins(e),
      stratum |-> str,
      keys |-> <<"dubins|" \o str, "dubins.geom|" \o geom, "dubins.pieces|" \o tiny>> \o (IF judged THEN DubinsCandKeys(e) ELSE <<>>),
      info |-> [spec |-> "-", K |-> e.K, geom |-> geom, pieces |-> tiny]]

---------------------------------------------------------------------------
\* C14.reparam : reparameterize_spline returns s : [0, T] -> [t_min, t_max], a Spline<2, double> observed through
\* its public operator() (value, first and second derivative) at every knot, just before every knot, in the middle
\* of every piece and on a uniform grid.  On one piece s is a quadratic, so s' is linear there and s is monotone on
\* the piece iff both Bernstein differences (c1 - c0) = s'(a) h / 2 and (c2 - c1) = (s'(a) + s''(a) h) h / 2 are >= 0.
ReparamDomain(e) ==
  IF ~(FinQ(e.s0) /\ FinQ(e.sf) /\ FinQ(e.sv) /\ FinV(e.vmin) /\ FinV(e.vmax) /\ FinV(e.amin) /\ FinV(e.amax) /\ FinV(e.w0) /\ FinV(e.a0))
  THEN Tool("domain", "non-finite input")
  ELSE LET neg(v) == \A i \in 1..Len(v) : RSign(Q(v[i])) < 0
           pos(v) == \A i \in 1..Len(v) : RSign(Q(v[i])) > 0
       IN IF ~(neg(e.vmin) /\ pos(e.vmax) /\ neg(e.amin) /\ pos(e.amax) /\ RSign(Q(e.sv)) >= 0 /\ e.ev[1] = 1
               /\ e.ev[4] # 100002 /\ RLt(Q(e.s0), Q(e.sf)) /\ e.N >= 1)
          THEN Tool("domain", "bounds")
          ELSE <<>>

TReparam(e) ==
  LET s0 == Q(e.s0)  sf == Q(e.sf)  sv == Q(e.sv)
      T == Q(e.T)  ts == V(e.ts)  sx == V(e.s)  ds == V(e.ds)  dds == V(e.dds)  n == Len(ts)
      kn == V(e.knots)  np == Len(kn) - 1
      slack == RMul(Tol9, RMax(R1, RMax(RAbs(s0), RAbs(sf))))
      tol6 == RMul(Tol6, RMax(R1, RSub(sf, s0)))
      consistent == /\ Len(e.ki) = np + 1 /\ Len(sx) = n /\ Len(ds) = n /\ Len(dds) = n /\ n >= 1
                    /\ (\A j \in 1..(np + 1) : e.ki[j] \in 1..n /\ REq(ts[e.ki[j]], kn[j]))
                    /\ (\A k \in 1..(n - 1) : RLt(ts[k], ts[k + 1]))
                    /\ RSign(ts[1]) = 0 /\ REq(ts[n], T) /\ REq(kn[np + 1], T)
      dec == Mk(n - 1, LAMBDA k : PosPart(RSub(sx[k], sx[k + 1])))
      negv == Mk(n, LAMBDA k : PosPart(RNeg(ds[k])))
      bern == Mk(2 * np, LAMBDA q :
                LET j == (q + 1) \div 2  i == e.ki[j]  h == RSub(kn[j + 1], kn[j])
                IN IF q % 2 = 1 THEN PosPart(RNeg(RMul(RMul(ds[i], h), RHalf)))
                   ELSE PosPart(RNeg(RMul(RMul(RAdd(ds[i], RMul(dds[i], h)), h), RHalf))))
      range == Mk(n, LAMBDA k : RMax(PosPart(RSub(s0, sx[k])), PosPart(RSub(sx[k], sf))))
  IN IF ~consistent THEN Tool("samples", "knots / sample times inconsistent")
     ELSE ChkMax("C14.reparam.mono", dec, slack)
          \o ChkMax("C14.reparam.mono.speed", negv, Tol9)
          \o ChkMax("C14.reparam.mono.bernstein", bern, slack)
          \o ChkMax("C14.reparam.range", range, slack)
          \o Chk("C14.reparam.ends.start", RLeq(RAbs(RSub(sx[1], s0)), tol6), RAbs(RSub(sx[1], s0)), tol6)
          \o Chk("C14.reparam.ends.end", RLeq(RAbs(RSub(sx[n], sf)), tol6), RAbs(RSub(sx[n], sf)), tol6)
          \o Chk("C14.reparam.ends.past", RLeq(RAbs(RSub(Q(e.past), sf)), tol6), RAbs(RSub(Q(e.past), sf)), tol6)
          \o Chk("C14.reparam.start", RLeq(ds[1], RAdd(sv, Tol9)), RSub(ds[1], sv), Tol9)

CReparam(e) ==
  LET dom == ReparamDomain(e)
      ret == Len(dom) = 0 /\ e.status = 0
      fin == ret /\ FinQ(e.T) /\ FinV(e.ts) /\ FinV(e.s) /\ FinV(e.ds) /\ FinV(e.dds) /\ FinQ(e.past) /\ FinV(e.knots)
      str == IF Len(dom) > 0 THEN "-"
             ELSE (IF AllZero(V(e.w0)) /\ AllZero(V(e.a0)) THEN "still" ELSE "moving")
                  \o "|" \o (IF RSign(Q(e.sv)) = 0 THEN "sv=0" ELSE "sv>0")
                  \o "|" \o (IF e.ev[4] = 100001 THEN "ev=inf" ELSE IF RSign(Q(e.ev)) = 0 THEN "ev=0" ELSE "ev>0")
      \* information only (not a verdict): does s jump upwards by more than 1e-6 (t_max - t_min) at an inner knot?
      \* The property's "onto" is read as s(0) = t_min and s(T) = t_max, see tools/notes_C14.md.
      jump == IF ~fin THEN "-"
              ELSE LET sx == V(e.s)  np == Len(e.knots) - 1
                       js == Mk(np - 1, LAMBDA q : LET i == e.ki[q + 1] IN IF i > 1 THEN PosPart(RSub(sx[i], sx[i - 1])) ELSE R0)
                   IN IF RLeq(VMax0(js), RMul(Tol6, RMax(R1, RSub(Q(e.sf), Q(e.s0))))) THEN "none" ELSE "some"
  IN [bad |-> IF Len(dom) > 0 THEN dom
              ELSE IF e.status # 0 THEN NoReturn("C14.reparam", e)
              ELSE IF ~fin THEN NonFinite("C14.reparam.finite") ELSE TReparam(e),
      stratum |-> str, keys |-> <<"reparam|" \o str, "reparam.input|" \o e.kind, "reparam.innerjump|" \o jump>>,
      info |-> [spec |-> "-", kind |-> e.kind]]

---------------------------------------------------------------------------
Check(e) ==
  CASE e.op = "fit1d" -> CFit1d(e)
    [] e.op = "fit" -> CFit(e)
    [] e.op = "bspline" -> CBspline(e)
    [] e.op = "dubins" -> CDubins(e)
    [] e.op = "reparam" -> CReparam(e)
    [] OTHER -> [bad |-> Tool("unknown_op", e.op), stratum |-> "-", keys |-> <<"unknown">>, info |-> [spec |-> "-"]]

RECURSIVE AddKeys(_, _, _)
AddKeys(c, keys, i) ==
  IF i > Len(keys) THEN c
  ELSE AddKeys(IF keys[i] \in DOMAIN c THEN [c EXCEPT ![keys[i]] = @ + 1] ELSE c @@ (keys[i] :> 1), keys, i + 1)

Init == l = 1 /\ bad = <<>> /\ cov = <<>>

Next ==
  /\ l <= Len(Tr)
  /\ LET e == Tr[l]
         r == Check(e)
     IN /\ bad' = bad \o [i \in 1..Len(r.bad) |-> [line |-> l, op |-> e.op, stratum |-> r.stratum] @@ r.bad[i] @@ r.info]
        /\ cov' = AddKeys(cov, r.keys, 1)
  /\ l' = l + 1

Spec == Init /\ [][Next]_vars

Report ==
  l = Len(Tr) + 1 =>
    JsonSerialize(OutFile, [lines |-> Len(Tr), consumed |-> l - 1, bad |-> bad,
                            cov |-> [k \in DOMAIN cov |-> cov[k]]])
=============================================================================
