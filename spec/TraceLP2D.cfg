INIT Init
NEXT Next
INVARIANT Report
CHECK_DEADLOCK FALSE
