----------------------------- MODULE TraceLP2D -----------------------------
(* Trace specification for harness/lp2d.cpp: every line is one call of the    *)
(* real `lp2d::solve` on an integer program; the step evaluates the           *)
(* definition of module LP2D exactly and compares:                            *)
(*   lp2d.status    returned status = Status(obj, rows)                       *)
(*   lp2d.finite    an "Optimal" answer is a finite point                     *)
(*   lp2d.feasible  a_i x + b_i y <= c_i + 1e-9 (|a_i x| + |b_i y| + |c_i| + 1) *)
(*   lp2d.optimal   |c.(x,y) - OptVal| <= 1e-9 (1 + |OptVal| + |cx x| + |cy y|) *)
(* A bad step does not stop validation.  The results are OBSERVATIONS of the  *)
(* C14 check (no listed property states the contract of lp2d::solve).         *)
EXTENDS Tol, Json, IOUtils, TLC, FiniteSets

TraceFile == IOEnv.TRACE
OutFile == IOEnv.VERDICT
Tr == ndJsonDeserialize(TraceFile)

LP == INSTANCE LP2D WITH CoefMax <- 4, MaxRows <- 0, obj <- <<0, 0>>, rows <- <<>>

VARIABLES l, bad, cov
vars == <<l, bad, cov>>

TolLP == Dec(1, -9)
FinQ(q) == q[4] < 100000
FailS(clause, err, tol) == <<[clause |-> clause, err |-> err, tol |-> tol]>>
Fail(clause, err, tol) == FailS(clause, RToStr(err), RToStr(tol))

LPRows(e) == [i \in 1..Len(e.rows) |-> <<e.rows[i][1], e.rows[i][2], e.rows[i][3]>>] \o <<>>
Obj(e) == <<e.cx, e.cy>>

CheckPoint(e, rows) ==
  LET x == RFromDouble(e.x)
      y == RFromDouble(e.y)
      ov == LP!OptVal(Obj(e), rows)
      opt == RDiv(RFromInt(ov[1]), RFromInt(ov[2]))
      tx == RMul(RFromInt(e.cx), x)
      ty == RMul(RFromInt(e.cy), y)
      val == RAdd(tx, ty)
      oerr == RAbs(RSub(val, opt))
      otol == RMul(TolLP, RAdd(RAdd(R1, RAbs(opt)), RAdd(RAbs(tx), RAbs(ty))))
      RowBad(i) ==
        LET ax == RMul(RFromInt(rows[i][1]), x)
            by == RMul(RFromInt(rows[i][2]), y)
            c == RFromInt(rows[i][3])
            slack == RSub(RAdd(ax, by), c)
            tol == RMul(TolLP, RAdd(RAdd(RAbs(ax), RAbs(by)), RAdd(RAbs(c), R1)))
        IN ~RLeq(slack, tol)
      badrows == {i \in 1..Len(rows) : RowBad(i)}
  IN (IF badrows = {} THEN <<>> ELSE FailS("lp2d.feasible", "row " \o ToString(CHOOSE i \in badrows : TRUE), "1e-9"))
     \o (IF RLeq(oerr, otol) THEN <<>> ELSE Fail("lp2d.optimal", oerr, otol))

Check(e) ==
  IF e.op # "lp" THEN FailS("TOOL.unknown_op", e.op, "")
  ELSE LET rows == LPRows(e)
           want == LP!Status(Obj(e), rows)
       IN IF e.st # want THEN FailS("lp2d.status", e.st, want)
          ELSE IF want # "Optimal" THEN <<>>
          ELSE IF ~(FinQ(e.x) /\ FinQ(e.y)) THEN FailS("lp2d.finite", "non-finite", "finite")
          ELSE CheckPoint(e, rows)

Stratum(e) == IF e.op = "lp" THEN e.gen \o "|" \o LP!Status(Obj(e), LPRows(e)) ELSE "-"

Init == l = 1 /\ bad = <<>> /\ cov = <<>>
Next ==
  /\ l <= Len(Tr)
  /\ LET e == Tr[l]
         res == Check(e)
         st == Stratum(e)
         key == "lp2d|" \o st
     IN /\ bad' = bad \o [i \in 1..Len(res) |-> [line |-> l, op |-> "lp2d", stratum |-> st] @@ res[i]]
        /\ cov' = IF key \in DOMAIN cov THEN [cov EXCEPT ![key] = @ + 1] ELSE cov @@ (key :> 1)
  /\ l' = l + 1
Spec == Init /\ [][Next]_vars

Report ==
  l = Len(Tr) + 1 =>
    JsonSerialize(OutFile, [lines |-> Len(Tr), consumed |-> l - 1, bad |-> bad, cov |-> [k \in DOMAIN cov |-> cov[k]]])
=============================================================================
