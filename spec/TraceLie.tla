------------------------------ MODULE TraceLie ------------------------------
(* Trace specification for the "lie" harness family.  Every line of the trace  *)
(* is one call of the real library with all operands and results logged as     *)
(* exact rationals; the action for that line evaluates the documented          *)
(* mathematical definition (module Groups) on the operands and compares.       *)
(* A bad step does not stop validation: it is appended to `bad` and reported   *)
(* when the whole trace has been consumed.                                     *)
(* Clauses: C01.*, C02.*, C03.*, C04.*, C05.* (DESIGN.md Appendix C).          *)
EXTENDS Tol, Json, IOUtils, TLC

TraceFile == IOEnv.TRACE
OutFile == IOEnv.VERDICT
Tr == ndJsonDeserialize(TraceFile)

\* the whole trace-validation state is ONE variable (see StepAll): position, bad steps, coverage
VARIABLE st
vars == <<st>>

---------------------------------------------------------------------------
\* reading logged numbers
FinQ(q) == q[4] < 100000
FinV(v) == \A i \in 1..Len(v) : FinQ(v[i])
FinM(m) == \A i \in 1..Len(m) : FinV(m[i])
V(v) == RVecFromDoubles(v)
M(m) == RMatFromDoubles(m)

Fail(clause, err, tol) == <<[clause |-> clause, err |-> RToStr(err), tol |-> RToStr(tol)]>>
Chk(clause, ok, err, tol) == IF ok THEN <<>> ELSE Fail(clause, err, tol)
NonFinite(clause) == <<[clause |-> clause, err |-> "non-finite", tol |-> "finite"]>>

\* element in matrix space against an expected matrix
ElemChk(clause, g, c, Y, tol) ==
  LET X == GMat(g, c) IN Chk(clause, RelOkM(X, Y, tol), RelErrM(X, Y), tol)
MatChk(clause, X, Y, tol) == Chk(clause, RelOkM(X, Y, tol), RelErrM(X, Y), tol)
VecChk(clause, x, y, tol) == Chk(clause, RelOkV(x, y, tol), RelErrV(x, y), tol)
JacChk(clause, X, Y, tol) == Chk(clause, ToMaxOkM(X, Y, tol), ToMaxErrM(X, Y), tol)
\* element against an expected matrix, relative to an explicit scale
ScaledChk(clause, g, c, Y, tol, scale) ==
  LET X == GMat(g, c)  d == MaxAbsDiff(X, Y)
  IN Chk(clause, RLeq(d, RMul(tol, scale)), RDiv(d, scale), tol)

---------------------------------------------------------------------------
\* domain of the properties, re-derived from the logged operands
\* element: unit part to 8 ulp, canonical sign, |translation| <= 1e3 (C01 "moderate")
RECURSIVE MaxSeq(_, _)
MaxSeq(s, k) == IF k = 0 THEN R0 ELSE RMax(s[k], MaxSeq(s, k - 1))
RECURSIVE AllNonNeg(_, _)
AllNonNeg(s, k) == IF k = 0 THEN TRUE ELSE RSign(s[k]) >= 0 /\ AllNonNeg(s, k - 1)
ElemInDomain(g, c, sc) ==
  LET u == GUnitResiduals(g, c)  w == GQw(g, c)
  IN RLeq(MaxSeq(u, Len(u)), RMul(RFromInt(8), Ulp(sc))) /\ AllNonNeg(w, Len(w))

\* first rotation norm^2 of a tangent (0 for translation groups)
Theta2(g, a) == LET r == GRotNorm2(g, a) IN IF Len(r) = 0 THEN R0 ELSE r[1]
MaxTheta2(g, a) == LET r == GRotNorm2(g, a) IN MaxSeq(r, Len(r))

\* is some rotating part of the ELEMENT within delta of a half turn?
\* quaternion: |q_w| = cos(theta/2) <= sin(delta/2) <= delta/2 ; complex: q_w = cos(theta) <= -cos(delta) <= -1 + delta^2/2
RECURSIVE ElemNearPi(_, _, _)
RECURSIVE NearPiParts(_, _, _, _)
NearPiParts(g, c, d, i) ==
  IF i > Len(g.parts) THEN FALSE
  ELSE ElemNearPi(g.parts[i], PartCoeffs(g, c, i), d) \/ NearPiParts(g, c, d, i + 1)
QuatNearPi(w, d) == RLeq(RAbs(w), RMul(RHalf, d))
CplxNearPi(z, w, d) ==
  \* cos(theta) = w / r <= -1 + d^2/2 ; safe (larger) band: w < 0 and z^2 <= d^2 (z^2 + w^2)
  RSign(w) < 0 /\ RLeq(RSq(z), RMul(RSq(d), RAdd(RSq(z), RSq(w))))
ElemNearPi(g, c, d) ==
  CASE g.k = "SO3" -> QuatNearPi(c[4], d)
    [] g.k = "SE3" -> QuatNearPi(c[7], d)
    [] g.k = "Gal" -> QuatNearPi(c[11], d)
    [] g.k = "SEK3" -> QuatNearPi(c[3 * g.n + 4], d)
    [] g.k = "SO2" -> CplxNearPi(c[1], c[2], d)
    [] g.k = "SE2" -> CplxNearPi(c[3], c[4], d)
    [] g.k = "C1" -> CplxNearPi(c[1], c[2], d)
    [] g.k = "B" -> NearPiParts(g, c, d, 1)
    [] OTHER -> FALSE
\* is some rotating part of the TANGENT within delta of pi (from below) or beyond?
TanNearPi(g, a, d) == ~RLt(MaxTheta2(g, a), RSq(RSub(PiLo, d)))
TanBelowPi(g, a) == RLt(MaxTheta2(g, a), RSq(PiLo))

ElemStratum(g, c) ==
  IF ElemNearPi(g, c, Dec(1, -5)) THEN "Epi"
  ELSE IF REq(MaxAbs(MSub(GMat(g, c), MId(Dim(g)))), R0) THEN "Eid"
  ELSE "Egen"

---------------------------------------------------------------------------
\* events whose operands come from the exactly representable lattice (spec/LatticeGroups.tla) carry x = 1:
\* every product is exact in binary floating point, so results are compared WITHOUT tolerance
TolE(e, t) == IF "x" \in DOMAIN e THEN R0 ELSE t

\* C01
TCompose(e) ==
  LET g == e.g  a == V(e.a)  b == V(e.b)  z == V(e.out)
      Y == XCompose(g, a, b)
      \* rounding in the product is relative to the size of the FACTORS: when the translations cancel (x * x for a
      \* half turn: t + R t ~ 0) the result is small but each term was rounded at the size of t
      scale == RMax(RMax(R1, MaxAbs(Y)), RMax(MaxAbs(GMat(g, a)), MaxAbs(GMat(g, b))))
  IN ScaledChk("C01.compose", g, z, Y, TolE(e, TolC01(e.sc)), scale)
TInverse(e) ==
  LET g == e.g  a == V(e.a)  z == V(e.out)
  IN ElemChk("C01.inverse", g, z, MInv(GMat(g, a)), TolE(e, TolC01(e.sc)))
TAssoc(e) ==
  LET g == e.g  A == GMat(g, V(e.a))  B == GMat(g, V(e.b))  C == GMat(g, V(e.c))
      AB == MMul(A, B)  BC == MMul(B, C)
      Y == MMul(AB, C)
      \* relative to the largest intermediate (a product that cancels cannot be more accurate than its factors)
      sc == RMax(R1, RMax(MaxAbs(Y), RMax(MaxAbs(AB), MaxAbs(BC))))
  IN ScaledChk("C01.assoc", g, V(e.out), Y, TolE(e, TolC01(e.sc)), sc) \o ScaledChk("C01.assoc", g, V(e.out2), Y, TolE(e, TolC01(e.sc)), sc)
\* g^-1 g = I = g g^-1: the accuracy is relative to the magnitude of the factors (an inverse with entries
\* of size 1e6 rounded to the scalar type cannot cancel to better than 1e6 * tol)
TUnits(e) ==
  LET g == e.g  Ma == GMat(g, V(e.a))  I == MId(Dim(g))  t == TolE(e, TolC01(e.sc))
      sc == RMax(R1, RMax(MaxAbs(Ma), MaxAbs(XInverse(g, V(e.a)))))
  IN ScaledChk("C01.inverse.left", g, V(e.li), I, t, sc) \o ScaledChk("C01.inverse.right", g, V(e.ri), I, t, sc)
     \o ElemChk("C01.identity.left", g, V(e.le), Ma, t) \o ElemChk("C01.identity.right", g, V(e.re), Ma, t)
TIdentity(e) ==
  LET g == e.g  X == GMat(g, V(e.out))
  IN Chk("C01.identity", REq(MaxAbsDiff(X, MId(Dim(g))), R0), MaxAbsDiff(X, MId(Dim(g))), R0)
TMatrixOp(e) == MatChk("C01.matrix", M(e.out), GMat(e.g, V(e.a)), TolE(e, TolC01(e.sc)))
TAct(e) == VecChk("C01.action", V(e.out), GAct(e.g, V(e.a), V(e.v)), TolE(e, TolC01(e.sc)))

\* C02
LogRangeOk(g, lg, sc) ==
  \* every rotating part has norm <= pi (8 ulp slack on the closed end)
  RLeq(MaxTheta2(g, lg), RMul(RSq(PiHi), RAdd(R1, RMul(RFromInt(16), Ulp(sc)))))
\* log is discontinuous at rotation angle pi: when pi - theta is below the resolution of the scalar type the
\* computed exp(a) is indistinguishable from exp of the antipodal tangent and log may legitimately return that
\* one.  The tangent-space round trip is therefore demanded for theta <= pi - 32 ulp(pi); inside that sliver the
\* round trip is checked in element space instead (exp(log(exp a)) = exp(a), band tolerance).
UlpSliver(sc) == RMul(RFromInt(32), RMul(Ulp(sc), PiHi))
TanClearlyBelowPi(g, a, sc) == RLt(MaxTheta2(g, a), RSq(RSub(PiLo, UlpSliver(sc))))
TExp(e) ==
  LET g == e.g  a == V(e.a)  z == V(e.out)  lg == V(e.log)
      band == TanNearPi(g, a, BandC02(e.sc))
      Ea == XExp(g, a)
  IN ElemChk("C02.exp", g, z, Ea, TolC02(e.sc, FALSE))
     \o (IF TanClearlyBelowPi(g, a, e.sc)
         THEN VecChk("C02.exp.log", lg, a, TolC02(e.sc, band))
         ELSE IF TanBelowPi(g, a)
         THEN MatChk("C02.exp.log.elem", XExp(g, lg), Ea, TolC02(e.sc, TRUE))
         ELSE <<>>)
     \o Chk("C02.log.range", LogRangeOk(g, lg, e.sc), MaxTheta2(g, lg), RSq(PiHi))
TLog(e) ==
  LET g == e.g  c == V(e.a)  lg == V(e.out)  back == V(e.exp)
      band == ElemNearPi(g, c, BandC02(e.sc))
      t == TolC02(e.sc, band)
      Mg == GMat(g, c)
  IN Chk("C02.log.range", LogRangeOk(g, lg, e.sc), MaxTheta2(g, lg), RSq(PiHi))
     \o MatChk("C02.log.exp", XExp(g, lg), Mg, t)
     \o ElemChk("C02.log.exp.lib", g, back, Mg, t)

\* C03
\* hat, vee, ad are linear and the bracket is bilinear in the tangent vectors: for arguments below 1 the error is
\* measured against the size of the arguments (a result that is zero, or off by a fixed absolute amount, for tiny
\* arguments is as wrong as it would be for large ones)
HomM(clause, X, Y, scale, tol) ==
  IF RLeq(R1, scale) THEN <<>> ELSE Chk(clause, RLeq(MaxAbsDiff(X, Y), RMul(tol, scale)), MaxAbsDiff(X, Y), RMul(tol, scale))
HomV(clause, x, y, scale, tol) ==
  IF RLeq(R1, scale) THEN <<>> ELSE Chk(clause, RLeq(VMaxAbsDiff(x, y), RMul(tol, scale)), VMaxAbsDiff(x, y), RMul(tol, scale))
THatOp(e) ==
  LET g == e.g  a == V(e.a)  t == TolE(e, TolC03(e.sc))  na == VMaxAbs(a)
  IN MatChk("C03.hatvee.hat", M(e.out), GHat(g, a), t) \o VecChk("C03.hatvee.vee", V(e.vee), a, t)
     \o HomM("C03.hatvee.hat.small", M(e.out), GHat(g, a), na, t) \o HomV("C03.hatvee.vee.small", V(e.vee), a, na, t)
TVeeLin(e) == VecChk("C03.hatvee.linear", V(e.out), VAdd(V(e.a), V(e.b)), TolC03(e.sc))
TAd(e) == MatChk("C03.Ad", M(e.out), XAd(e.g, V(e.a)), TolE(e, TolC03(e.sc)))
Tad(e) == MatChk("C03.ad", M(e.out), Xad(e.g, V(e.a)), TolE(e, TolC03(e.sc)))
          \o HomM("C03.ad.small", M(e.out), Xad(e.g, V(e.a)), VMaxAbs(V(e.a)), TolE(e, TolC03(e.sc)))
TBracket(e) ==
  LET g == e.g  a == V(e.a)  b == V(e.b)  c == V(e.c)  t == TolC03(e.sc)
      Y == XBracket(g, a, b)
      scale == RMul(RFromInt(Dof(g) * Dof(g)),
                    RMul(RMax(R1, VMaxAbs(a)), RMul(RMax(R1, VMaxAbs(b)), RMax(R1, VMaxAbs(c)))))
      j == V(e.jacobi)
  IN VecChk("C03.ad.bracket", V(e.out), Y, t)
     \o VecChk("C03.ad.adab", V(e.adab), Y, t)
     \o VecChk("C03.jacobi.antisym", V(e.rev), VNeg(Y), t)
     \o (LET sab == RMul(RFromInt(Dof(g)), RMul(VMaxAbs(a), VMaxAbs(b)))
         IN HomV("C03.ad.bracket.small", V(e.out), Y, sab, t) \o HomV("C03.ad.adab.small", V(e.adab), Y, sab, t)
            \o HomV("C03.jacobi.antisym.small", V(e.rev), VNeg(Y), sab, t))
     \o Chk("C03.jacobi", RLeq(VMaxAbs(j), RMul(t, scale)), VMaxAbs(j), RMul(t, scale))
TAdHom(e) == MatChk("C03.hom.product", M(e.out), MMul(M(e.A1), M(e.A2)), TolC03(e.sc))
TAdExp(e) == MatChk("C03.hom.exp", M(e.out), ExpM(M(e.ad)), TolC02(e.sc, FALSE))

\* C04: one event carries all first-order exp-Jacobians of one tangent vector
FinOpt(e, f) == f \notin DOMAIN e \/ FinM(e[f])
\* the inverse Jacobians / Hessians are required for rotation norms up to pi - 1e-3 (every rotating part)
InvDomain(g, a) == RLeq(MaxTheta2(g, a), RSq(RSub(PiLo, Dec(1, -3))))
TC04(e) ==
  LET g == e.g  a == V(e.a)  t == TolC04(e.sc)
      J == XDrExp(g, a)                                   \* sum_k (-1)^k ad^k/(k+1)!
      Jl == MMul(XAd_FromMatrix(g, XExp(g, a)), J)        \* dl_exp = Ad(exp a) dr_exp
      Ji == MInvD(J)
      Jli == MInvD(Jl)
  IN JacChk("C04.dr_exp", M(e.dr_exp), J, t)
     \o JacChk("C04.dl", M(e.dl_exp), Jl, t)
     \o (IF e.inv = 1 /\ InvDomain(g, a)
         THEN JacChk("C04.dr_expinv", M(e.dr_expinv), Ji, t)
              \o JacChk("C04.dl.inv", M(e.dl_expinv), Jli, t)
              \o JacChk("C04.rminus", M(e.dr_rminus), Ji, t)
              \o JacChk("C04.rminus.sqn", M(e.dr_rminus_sqn), <<MVec(MT(Ji), a)>>, t)
         ELSE <<>>)
TC04Fin(e) == FinM(e.dr_exp) /\ FinM(e.dl_exp) /\ FinOpt(e, "dr_expinv") /\ FinOpt(e, "dl_expinv")
              /\ FinOpt(e, "dr_rminus") /\ FinOpt(e, "dr_rminus_sqn")
TDrAction(e) == JacChk("C04.action", M(e.out), XDrAction(e.g, V(e.a), V(e.v)), TolC04(e.sc))

\* C05 (stacked layout: block i, entry (j,k) = d J(i,j) / d a_k); one event carries all Hessians
TC05(e) ==
  LET g == e.g  a == V(e.a)  t == TolC05(e.sc)  n == Dof(g)
      A == MNeg(Xad(g, a))
      \* right: J = Phi1(-ad a), dJ_k = D Phi1(-ad a)[-ad e_k]
      PD == RForce([k \in 1..n |-> Phi1AndD(A, MNeg(Xad(g, VUnit(n, k))))])
      J == IF n = 0 THEN <<>> ELSE PD[1][1]
      dJ == RForce([k \in 1..n |-> PD[k][2]])
      Ji == MInvD(J)
      dJi == RForce([k \in 1..n |-> MNeg(MMul(MMul(Ji, dJ[k]), Ji))])          \* d(J^-1) = -J^-1 dJ J^-1
      Hi == StackHess(n, dJi)
      \* left: Jl = Phi1(ad a), dJl_k = D Phi1(ad a)[ad e_k]
      PDl == RForce([k \in 1..n |-> Phi1AndD(MNeg(A), Xad(g, VUnit(n, k)))])
      Jl == PDl[1][1]
      dJl == RForce([k \in 1..n |-> PDl[k][2]])
      Jli == MInvD(Jl)
      dJli == RForce([k \in 1..n |-> MNeg(MMul(MMul(Jli, dJl[k]), Jli))])
      \* d/dx_k of Jinv(e(x)) = sum_m dJinv/de_m * Jinv(m,k)
      Hrm == RForce([j \in 1..n |-> [col \in 1..(n * n) |->
               LET i == ((col - 1) \div n) + 1  k == ((col - 1) % n) + 1
               IN RDot([m \in 1..n |-> Hi[j][(i - 1) * n + m]], [m \in 1..n |-> Ji[m][k]])]])
      \* Hessian of 1/2 |e|^2 : (j,k) = sum_i Ji(i,j) Ji(i,k) + sum_i e_i d Ji(i,j)/dx_k
      Hsq == RForce([j \in 1..n |-> [k \in 1..n |->
               RAdd(RDot([i \in 1..n |-> Ji[i][j]], [i \in 1..n |-> Ji[i][k]]),
                    RDot(a, [i \in 1..n |-> Hrm[j][(i - 1) * n + k]]))]])
  IN JacChk("C05.d2r_exp", M(e.d2r_exp), StackHess(n, dJ), t)
     \o JacChk("C05.d2l_exp", M(e.d2l_exp), StackHess(n, dJl), t)
     \o (IF e.inv = 1 /\ InvDomain(g, a)
         THEN JacChk("C05.d2r_expinv", M(e.d2r_expinv), Hi, t)
              \o JacChk("C05.d2l_expinv", M(e.d2l_expinv), StackHess(n, dJli), t)
              \o JacChk("C05.rminus", M(e.d2r_rminus), Hrm, t)
              \o JacChk("C05.rminus.sqn", M(e.d2r_rminus_sqn), Hsq, t)
         ELSE <<>>)
\* class-member API: inverse Hessians only (the exp Hessians go through the ordinary c05 event with inv = 0)
TC05M(e) ==
  LET g == e.g  a == V(e.a)  t == TolC05(e.sc)  n == Dof(g)
      A == MNeg(Xad(g, a))
      PD == RForce([k \in 1..n |-> Phi1AndD(A, MNeg(Xad(g, VUnit(n, k))))])
      Ji == MInvD(PD[1][1])
      dJi == RForce([k \in 1..n |-> MNeg(MMul(MMul(Ji, PD[k][2]), Ji))])
      PDl == RForce([k \in 1..n |-> Phi1AndD(MNeg(A), Xad(g, VUnit(n, k)))])
      Jli == MInvD(PDl[1][1])
      dJli == RForce([k \in 1..n |-> MNeg(MMul(MMul(Jli, PDl[k][2]), Jli))])
  IN IF ~InvDomain(g, a) THEN <<>>
     ELSE JacChk("C05.d2r_expinv", M(e.d2r_expinv), StackHess(n, dJi), t)
          \o JacChk("C05.d2l_expinv", M(e.d2l_expinv), StackHess(n, dJli), t)
TC05Fin(e) == FinM(e.d2r_exp) /\ FinM(e.d2l_exp) /\ FinOpt(e, "d2r_expinv") /\ FinOpt(e, "d2l_expinv")
              /\ FinOpt(e, "d2r_rminus") /\ FinOpt(e, "d2r_rminus_sqn")

\* C06: Bundle = direct product.  `out` is the bundle's result, `parts` the same operation on every part<i>().
RECURSIVE ConcatSeq(_, _)
ConcatSeq(ss, i) == IF i > Len(ss) THEN <<>> ELSE ss[i] \o ConcatSeq(ss, i + 1)
RECURSIVE PrefixRows(_, _)
PrefixRows(Ms, p) == IF p = 0 THEN 0 ELSE PrefixRows(Ms, p - 1) + Len(Ms[p])     \* total rows of parts 1..p
\* stacked Hessian of the product: block i, entry (j,k) = d J(i,j)/d a_k is non-zero only inside one part
BundleHess(n, Hs) ==
  LET np == Len(Hs)
      Off(p) == PrefixRows(Hs, p - 1)
      PartOf(x) == CHOOSE p \in 1..np : x > Off(p) /\ x <= Off(p) + Len(Hs[p])
  IN RForce([j \in 1..n |-> [col \in 1..(n * n) |->
        LET i == ((col - 1) \div n) + 1  k == ((col - 1) % n) + 1
            p == PartOf(j)
            o == Off(p)  d == Len(Hs[p])
        IN IF PartOf(i) = p /\ PartOf(k) = p THEN Hs[p][j - o][(i - o - 1) * d + (k - o)] ELSE R0]])
\* entries outside the parts' own blocks must be exactly zero
OffBlockZeroH(X, Hs) ==
  LET np == Len(Hs)  n == Len(X)
      Off(p) == PrefixRows(Hs, p - 1)
      PartOf(x) == CHOOSE p \in 1..np : x > Off(p) /\ x <= Off(p) + Len(Hs[p])
  IN \A j \in 1..n : \A col \in 1..(n * n) :
        LET i == ((col - 1) \div n) + 1  k == ((col - 1) % n) + 1
        IN (PartOf(i) = PartOf(j) /\ PartOf(k) = PartOf(j)) \/ RSign(X[j][col]) = 0
OffBlockZero(X, Ms) ==
  LET np == Len(Ms)
      Off(p) == PrefixRows(Ms, p - 1)
      SameBlock(i, j) == \E p \in 1..np : i > Off(p) /\ i <= Off(p) + Len(Ms[p]) /\ j > Off(p) /\ j <= Off(p) + Len(Ms[p])
  IN \A i \in 1..Len(X) : \A j \in 1..Len(X[i]) : SameBlock(i, j) \/ RSign(X[i][j]) = 0
TBParts(e) ==
  LET t == TolC01(e.sc)  clause == "C06.ops." \o e.sub
  IN IF e.sub \in {"compose", "inverse", "exp", "log"}
     THEN LET out == V(e.out)  ps == RForce([i \in 1..Len(e.parts) |-> V(e.parts[i])])
              want == ConcatSeq(ps, 1)
          IN IF Len(out) # Len(want) THEN Fail("C06.ops.size", R1, R0)
             ELSE VecChk(clause, out, want, t)
     ELSE IF e.sub \in {"d2r_exp", "d2r_expinv"}
     THEN LET X == M(e.out)  Hs == RForce([i \in 1..Len(e.parts) |-> M(e.parts[i])])
              Y == BundleHess(Len(X), Hs)
          IN JacChk("C06.blocks." \o e.sub, X, Y, t)
             \o Chk("C06.blocks.zero", OffBlockZeroH(X, Hs), R1, R0)
     ELSE LET X == M(e.out)  Ms == RForce([i \in 1..Len(e.parts) |-> M(e.parts[i])])
              Y == BlockDiag(Ms)
          IN MatChk("C06.blocks." \o e.sub, X, Y, t)
             \o Chk("C06.blocks.zero", OffBlockZero(X, Ms), R1, R0)

\* C06: vectors and scalars through the LieGroup interface are the additive group - exactly
EqV(x, y) == Len(x) = Len(y) /\ \A i \in 1..Len(x) : REq(x[i], y[i])
EqM(X, Y) == Len(X) = Len(Y) /\ \A i \in 1..Len(X) : EqV(X[i], Y[i])
ExactV(clause, x, y) == IF EqV(x, y) THEN <<>> ELSE Fail(clause, VMaxAbsDiff(x, y), R0)
ExactM(clause, X, Y) == IF EqM(X, Y) THEN <<>> ELSE Fail(clause, R1, R0)
\* "composition is +": the floating-point sum, i.e. the exact sum to one rounding
RoundedV(clause, x, y, sc) ==
  IF Len(x) = Len(y) /\ \A i \in 1..Len(x) : RLeq(RAbs(RSub(x[i], y[i])), RMul(Ulp(sc), RAbs(y[i])))
  THEN <<>> ELSE Fail(clause, VMaxAbsDiff(x, y), Ulp(sc))
TRn(e) ==
  LET a == V(e.a)  b == V(e.b)  n == Len(a)  I == MId(n)  Z == MZero(n, n)  Zh == MZero(n, n * n)
  IN RoundedV("C06.vector.compose", V(e.compose), VAdd(a, b), e.sc)
     \o ExactV("C06.vector.inverse", V(e.inverse), VNeg(a))
     \o ExactV("C06.vector.exp", V(e.exp), b)
     \o ExactV("C06.vector.log", V(e.log), a)
     \o ExactV("C06.vector.identity", V(e.identity), VZero(n))
     \o ExactM("C06.vector.Ad", M(e.Ad), I) \o ExactM("C06.vector.ad", M(e.ad), Z)
     \o ExactM("C06.vector.dr_exp", M(e.dr_exp), I) \o ExactM("C06.vector.dr_expinv", M(e.dr_expinv), I)
     \o ExactM("C06.vector.dl_exp", M(e.dl_exp), I) \o ExactM("C06.vector.dl_expinv", M(e.dl_expinv), I)
     \o ExactM("C06.vector.d2r_exp", M(e.d2r_exp), Zh) \o ExactM("C06.vector.d2r_expinv", M(e.d2r_expinv), Zh)
     \o (IF e.dof = n /\ e.size = n THEN <<>> ELSE Fail("C06.vector.dof", R1, R0))
     \o RoundedV("C06.vector.rplus", V(e.rplus), VAdd(a, b), e.sc)
     \o RoundedV("C06.vector.rminus", V(e.rminus), VSub(a, b), e.sc)

\* C05: generic helpers, recomputed entry by entry (integer operands: exact)
\* d_matrix_product for square n x n factors, nvar variables; layout: block i, entry (j,k) = d X(i,j) / d x_k
TDProd(e) ==
  LET n == e.n  nv == e.nvar  A == M(e.A)  dA == M(e.dA)  B == M(e.B)  dB == M(e.dB)  X == M(e.out)
      Y == RForce([j \in 1..n |-> [col \in 1..(n * nv) |->
             LET i == ((col - 1) \div nv) + 1  k == ((col - 1) % nv) + 1
             IN RAdd(RDot([l \in 1..n |-> dA[l][(i - 1) * nv + k]], [l \in 1..n |-> B[l][j]]),
                     RDot([l \in 1..n |-> A[i][l]], [l \in 1..n |-> dB[j][(l - 1) * nv + k]]))]])
  IN IF Len(X) # n \/ Len(X[1]) # n * nv THEN Fail("C05.dprod.shape", R1, R0)
     ELSE JacChk("C05.dprod", X, Y, TolC05(e.sc))
\* d2_fog: Hessian of f o g; block i = Hessian of output i:  out[a][(i-1) nx + b] =
\*   sum_{c,d} Jg[c][a] Hf[c][(i-1) ny + d] Jg[d][b]  +  sum_c Jf[i][c] Hg[a][(c-1) nx + b]
TFog(e) ==
  LET no == e.no  ny == e.ny  nx == e.nx
      Jf == M(e.Jf)  Hf == M(e.Hf)  Jg == M(e.Jg)  Hg == M(e.Hg)  X == M(e.out)
      Y == RForce([a \in 1..nx |-> [col \in 1..(no * nx) |->
             LET i == ((col - 1) \div nx) + 1  b == ((col - 1) % nx) + 1
                 inner == [c \in 1..ny |-> RDot([d \in 1..ny |-> Hf[c][(i - 1) * ny + d]], [d \in 1..ny |-> Jg[d][b]])]
             IN RAdd(RDot([c \in 1..ny |-> Jg[c][a]], inner),
                     RDot([c \in 1..ny |-> Jf[i][c]], [c \in 1..ny |-> Hg[a][(c - 1) * nx + b]]))]])
  IN IF Len(X) # nx \/ Len(X[1]) # no * nx THEN Fail("C05.fog.shape", R1, R0)
     ELSE JacChk("C05.fog", X, Y, TolC05(e.sc))

---------------------------------------------------------------------------
Check(e) ==
  CASE e.op = "compose" -> IF FinV(e.out) THEN TCompose(e) ELSE NonFinite("C01.compose")
    [] e.op = "inverse" -> IF FinV(e.out) THEN TInverse(e) ELSE NonFinite("C01.inverse")
    [] e.op = "assoc" -> IF FinV(e.out) /\ FinV(e.out2) THEN TAssoc(e) ELSE NonFinite("C01.assoc")
    [] e.op = "units" -> IF FinV(e.li) /\ FinV(e.ri) /\ FinV(e.le) /\ FinV(e.re) THEN TUnits(e) ELSE NonFinite("C01.identity")
    [] e.op = "identity" -> TIdentity(e)
    [] e.op = "matrix" -> IF FinM(e.out) THEN TMatrixOp(e) ELSE NonFinite("C01.matrix")
    [] e.op = "act" -> IF FinV(e.out) THEN TAct(e) ELSE NonFinite("C01.action")
    [] e.op = "exp" -> IF FinV(e.out) /\ FinV(e.log) THEN TExp(e) ELSE NonFinite("C02.exp")
    [] e.op = "log" -> IF FinV(e.out) /\ FinV(e.exp) THEN TLog(e) ELSE NonFinite("C02.log.exp")
    [] e.op = "hat" -> IF FinM(e.out) /\ FinV(e.vee) THEN THatOp(e) ELSE NonFinite("C03.hatvee")
    [] e.op = "veelin" -> IF FinV(e.out) THEN TVeeLin(e) ELSE NonFinite("C03.hatvee")
    [] e.op = "Ad" -> IF FinM(e.out) THEN TAd(e) ELSE NonFinite("C03.Ad")
    [] e.op = "ad" -> IF FinM(e.out) THEN Tad(e) ELSE NonFinite("C03.ad")
    [] e.op = "bracket" -> IF FinV(e.out) /\ FinV(e.rev) /\ FinV(e.adab) /\ FinV(e.jacobi) THEN TBracket(e) ELSE NonFinite("C03.ad")
    [] e.op = "Adhom" -> IF FinM(e.out) /\ FinM(e.A1) /\ FinM(e.A2) THEN TAdHom(e) ELSE NonFinite("C03.hom")
    [] e.op = "Adexp" -> IF FinM(e.out) /\ FinM(e.ad) THEN TAdExp(e) ELSE NonFinite("C03.hom")
    [] e.op = "c04" -> IF TC04Fin(e) THEN TC04(e) ELSE NonFinite("C04.dr_exp")
    [] e.op = "dr_action" -> IF FinM(e.out) THEN TDrAction(e) ELSE NonFinite("C04.action")
    [] e.op = "c05" -> IF TC05Fin(e) THEN TC05(e) ELSE NonFinite("C05.d2r_exp")
    [] e.op = "c05m" -> IF FinM(e.d2r_expinv) /\ FinM(e.d2l_expinv) THEN TC05M(e) ELSE NonFinite("C05.d2r_expinv")
    [] e.op = "dprod" -> IF FinM(e.out) THEN TDProd(e) ELSE NonFinite("C05.dprod")
    [] e.op = "fog" -> IF FinM(e.out) THEN TFog(e) ELSE NonFinite("C05.fog")
    [] e.op = "bparts" -> TBParts(e)
    [] e.op = "rn" -> TRn(e)
    [] OTHER -> <<[clause |-> "TOOL.unknown_op", err |-> e.op, tol |-> ""]>>

\* operands outside the property's domain are a harness error, never a verdict
ElemOps == {"compose", "inverse", "assoc", "units", "matrix", "act", "log", "Ad", "Adhom", "dr_action"}
TanOps == {"exp", "hat", "veelin", "ad", "bracket", "Adexp", "c04", "c05", "c05m"}
DomainProblems(e) ==
  IF e.op \in ElemOps
  THEN (IF ElemInDomain(e.g, V(e.a), e.sc) THEN <<>> ELSE <<[clause |-> "TOOL.domain", err |-> e.op, tol |-> "a"]>>)
       \o (IF e.op \in {"compose", "assoc", "Adhom"} /\ ~ElemInDomain(e.g, V(e.b), e.sc)
           THEN <<[clause |-> "TOOL.domain", err |-> e.op, tol |-> "b"]>> ELSE <<>>)
  ELSE <<>>

Stratum(e) ==
  IF e.op \in TanOps THEN ThetaStratum(Theta2(e.g, V(e.a)))
  ELSE IF e.op \in ElemOps THEN ElemStratum(e.g, V(e.a))
  ELSE IF e.op = "bparts" THEN e.sub
  ELSE IF e.op = "fog" THEN e.storage \o "." \o e.jf
  ELSE IF e.op = "dprod" THEN e.storage
  ELSE "-"

---------------------------------------------------------------------------
Init == st = [l |-> 1, bad |-> <<>>, cov |-> <<>>]

\* The whole step is computed inside ONE operator applied to ONE state variable: TLC caches LET definitions
\* inside an expression, but not a LET written directly in an action (each use re-evaluates the oracle).
StepAll(s, e) ==
  LET res == DomainProblems(e) \o Check(e)
      sm == Stratum(e)
      key == e.op \o "|" \o sm
  IN [l |-> s.l + 1,
      bad |-> s.bad \o [i \in 1..Len(res) |-> [line |-> s.l, op |-> e.op, stratum |-> sm] @@ res[i]],
      cov |-> IF key \in DOMAIN s.cov THEN [s.cov EXCEPT ![key] = @ + 1] ELSE s.cov @@ (key :> 1)]

Next == st.l <= Len(Tr) /\ st' = StepAll(st, Tr[st.l])

Spec == Init /\ [][Next]_vars

\* when the whole trace is consumed, write the verdict report (evaluated once, in the last state)
Report ==
  st.l = Len(Tr) + 1 =>
    JsonSerialize(OutFile, [lines |-> Len(Tr), consumed |-> st.l - 1, bad |-> st.bad,
                            cov |-> [k \in DOMAIN st.cov |-> st.cov[k]]])
=============================================================================
