---- MODULE TraceLie_TTrace_1791049534 ----
EXTENDS Sequences, TraceLie, TLCExt, Toolbox, Naturals, TLC

_expression ==
    LET TraceLie_TEExpression == INSTANCE TraceLie_TEExpression
    IN TraceLie_TEExpression!expression
----

_trace ==
    LET TraceLie_TETrace == INSTANCE TraceLie_TETrace
    IN TraceLie_TETrace!trace
----

_inv ==
    ~(
        TLCGet("level") = Len(_TETrace)
        /\
        bad = (<<>>)
        /\
        cov = (("exp|S01" :> 4))
        /\
        l = (5)
    )
----

_init ==
    /\ l = _TETrace[1].l
    /\ cov = _TETrace[1].cov
    /\ bad = _TETrace[1].bad
----

_next ==
    /\ \E i,j \in DOMAIN _TETrace:
        /\ \/ /\ j = i + 1
              /\ i = TLCGet("level")
        /\ l  = _TETrace[i].l
        /\ l' = _TETrace[j].l
        /\ cov  = _TETrace[i].cov
        /\ cov' = _TETrace[j].cov
        /\ bad  = _TETrace[i].bad
        /\ bad' = _TETrace[j].bad

\* Uncomment the ASSUME below to write the states of the error trace
\* to the given file in Json format. Note that you can pass any tuple
\* to `JsonSerialize`. For example, a sub-sequence of _TETrace.
    \* ASSUME
    \*     LET J == INSTANCE Json
    \*         IN J!JsonSerialize("TraceLie_TTrace_1791049534.json", _TETrace)

=============================================================================

 Note that you can extract this module `TraceLie_TEExpression`
  to a dedicated file to reuse `expression` (the module in the 
  dedicated `TraceLie_TEExpression.tla` file takes precedence 
  over the module `TraceLie_TEExpression` below).

---- MODULE TraceLie_TEExpression ----
EXTENDS Sequences, TraceLie, TLCExt, Toolbox, Naturals, TLC

expression == 
    [
        \* To hide variables of the `TraceLie` spec from the error trace,
        \* remove the variables below.  The trace will be written in the order
        \* of the fields of this record.
        l |-> l
        ,cov |-> cov
        ,bad |-> bad
        
        \* Put additional constant-, state-, and action-level expressions here:
        \* ,_stateNumber |-> _TEPosition
        \* ,_lUnchanged |-> l = l'
        
        \* Format the `l` variable as Json value.
        \* ,_lJson |->
        \*     LET J == INSTANCE Json
        \*     IN J!ToJson(l)
        
        \* Lastly, you may build expressions over arbitrary sets of states by
        \* leveraging the _TETrace operator.  For example, this is how to
        \* count the number of times a spec variable changed up to the current
        \* state in the trace.
        \* ,_lModCount |->
        \*     LET F[s \in DOMAIN _TETrace] ==
        \*         IF s = 1 THEN 0
        \*         ELSE IF _TETrace[s].l # _TETrace[s-1].l
        \*             THEN 1 + F[s-1] ELSE F[s-1]
        \*     IN F[_TEPosition - 1]
    ]

=============================================================================



Parsing and semantic processing can take forever if the trace below is long.
 In this case, it is advised to uncomment the module below to deserialize the
 trace from a generated binary file.

\*
\*---- MODULE TraceLie_TETrace ----
\*EXTENDS IOUtils, TraceLie, TLC
\*
\*trace == IODeserialize("TraceLie_TTrace_1791049534.bin", TRUE)
\*
\*=============================================================================
\*

---- MODULE TraceLie_TETrace ----
EXTENDS TraceLie, TLC

trace == 
    <<
    ([bad |-> <<>>,cov |-> <<>>,l |-> 1]),
    ([bad |-> <<>>,cov |-> ("exp|S01" :> 1),l |-> 2]),
    ([bad |-> <<>>,cov |-> ("exp|S01" :> 2),l |-> 3]),
    ([bad |-> <<>>,cov |-> ("exp|S01" :> 3),l |-> 4]),
    ([bad |-> <<>>,cov |-> ("exp|S01" :> 4),l |-> 5])
    >>
----


=============================================================================

---- CONFIG TraceLie_TTrace_1791049534 ----

INVARIANT
    _inv

CHECK_DEADLOCK
    \* CHECK_DEADLOCK off because of PROPERTY or INVARIANT above.
    FALSE

INIT
    _init

NEXT
    _next

CONSTANT
    _TETrace <- _trace

ALIAS
    _expression
=============================================================================
\* Generated on Sat Oct 03 17:45:42 UTC 2026