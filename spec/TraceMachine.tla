---------------------------- MODULE TraceMachine ----------------------------
(* Property C15: representation invariants and accuracy survive any history.   *)
(* The harness (harness/machine.cpp) executes operation programs over a         *)
(* register file of elements e0..e5 and tangents t0..t3 on the real library and *)
(* logs every produced element.  This trace specification is the abstract       *)
(* MACHINE: it carries, per element register, the EXACT group-theoretic value   *)
(* (a rational matrix, rounded to 2^-400 per step) of the same history and the  *)
(* history length n, applies each logged operation to it, and checks for every  *)
(* produced element: finite, representation constraint to (n+1) 1e-14,          *)
(* canonical sign q_w >= 0 for SO3, accuracy (n+1) 1e-13 relative.              *)
EXTENDS Tol, Json, IOUtils, TLC

Tr == ndJsonDeserialize(IOEnv.TRACE)
VARIABLE st
vars == <<st>>

NE == 6
NT == 4
FinQ(q) == q[4] < 100000
FinV(v) == \A i \in 1..Len(v) : FinQ(v[i])
V(v) == RVecFromDoubles(v)
D(q) == RFromDouble(q)
Fail(clause, err, tol) == <<[clause |-> clause, err |-> err, tol |-> tol]>>
ChkR(clause, ok, err, tol) == IF ok THEN <<>> ELSE Fail(clause, RToStr(err), RToStr(tol))

P400(M) == MRound(M, 400)
RECURSIVE MaxSeq(_, _)
MaxSeq(s, k) == IF k = 0 THEN R0 ELSE RMax(s[k], MaxSeq(s, k - 1))

\* q_w of SO3 itself and of SO3 parts of Bundles (the class invariant the property names)
RECURSIVE SO3Qw(_, _)
RECURSIVE SO3QwParts(_, _, _)
SO3QwParts(g, c, i) == IF i > Len(g.parts) THEN <<>> ELSE SO3Qw(g.parts[i], PartCoeffs(g, c, i)) \o SO3QwParts(g, c, i + 1)
SO3Qw(g, c) == CASE g.k = "SO3" -> <<c[4]>> [] g.k = "B" -> SO3QwParts(g, c, 1) [] OTHER -> <<>>
RECURSIVE AllNonNeg(_, _)
AllNonNeg(s, k) == IF k = 0 THEN TRUE ELSE RSign(s[k]) >= 0 /\ AllNonNeg(s, k - 1)

\* invariants of one produced element with logged coefficients c, exact value X, history length n
ElemChecks(e, c, X, n) ==
  LET g == e.g
      np1 == RFromInt(n + 1)
      isd == e.sc = "d"
  IN IF ~FinV(c)
     \* "finite" presumes a representable result: a scaling group (C1) multiplied up beyond 1e300 overflows by necessity
     THEN (IF RLeq(Dec(1, 300), MaxAbs(X)) THEN <<>> ELSE Fail("C15.finite", "non-finite", "finite"))
     ELSE LET cv == V(c)
              u == GUnitResiduals(g, cv)
              qw == SO3Qw(g, cv)
              tolU == IF isd THEN RMul(np1, Dec(1, -14)) ELSE RMul(np1, Dec(1, -5))
              tolA == IF isd THEN RMul(np1, Dec(1, -13)) ELSE RMul(np1, Dec(1, -4))
              Mc == GMat(g, cv)
          IN ChkR("C15.unit", RLeq(MaxSeq(u, Len(u)), tolU), MaxSeq(u, Len(u)), tolU)
             \o ChkR("C15.sign", AllNonNeg(qw, Len(qw)), R1, R0)
             \o ChkR("C15.accuracy", RelOkM(Mc, X, tolA), RelErrM(Mc, X), tolA)

\* repeated right multiplication  X <- X * Y  (count times)
RECURSIVE RepMul(_, _, _)
RepMul(X, Y, k) == IF k = 0 THEN X ELSE RepMul(P400(MMul(X, Y)), Y, k - 1)

\* one event: <<new element registers, new tangent registers, problems>>
Step(s, e) ==
  LET g == e.g  E == s.e  T == s.t
      \* history lengths saturate at 10^8 (TLC integers are 32 bit; programs that keep composing a register with
      \* itself double n at every step) - the bounds (n+1) 1e-14 / (n+1) 1e-13 are then 1e-6 / 1e-5
      Sat(n) == IF n > 100000000 THEN 100000000 ELSE n
      SetE(r, X, n) == [E EXCEPT ![r] = [M |-> X, n |-> Sat(n)]]
      \* A register leaves the domain (M = <<>>) when its exact value is not representable: a scaling group (C1)
      \* multiplied up or down beyond 1e+-100.  Nothing is judged on it or on anything computed from it.
      \* (1e+-100: products and squares of two in-range values stay clear of overflow and of the denormal range,
      \* where a result such as r^2 in C1's inverse keeps only a few bits)
      InRange(X) == RLeq(MaxAbs(X), Dec(1, 100)) /\ RLeq(Dec(1, -100), MaxAbs(X))
      Undef(r) == <<[E EXCEPT ![r] = [M |-> <<>>, n |-> 0]], T, <<>>>>
      Res(r, X, n) == IF InRange(X) THEN <<SetE(r, X, n), T, ElemChecks(e, e.out, X, Sat(n))>> ELSE Undef(r)
      Operands == CASE e.op \in {"compose"} -> {e.a, e.b}
                    [] e.op \in {"inverse", "rplus", "copy", "cast", "ode", "lift"} -> {e.a}
                    [] e.op = "muleq" -> {e.dst, e.a}
                    [] e.op = "pluseq" -> {e.dst}
                    [] e.op = "repeat" -> (IF e.sub = "muleq" THEN {e.dst, e.a} ELSE {e.dst})
                    [] OTHER -> {}
  IN IF \E r \in Operands : E[r].M = <<>> THEN Undef(e.dst) ELSE
     CASE e.op = "reset" ->
            <<[r \in 0..(NE - 1) |-> [M |-> MId(Dim(g)), n |-> 0]], [r \in 0..(NT - 1) |-> VZero(Dof(g))], <<>>>>
       [] e.op = "sete" ->
            \* a constructor-made element: its logged coefficients define the exact starting value
            LET cv == V(e.out)  u == GUnitResiduals(g, cv)
            IN <<SetE(e.dst, GMat(g, cv), 0), T,
                 IF RLeq(MaxSeq(u, Len(u)), RMul(RFromInt(8), Ulp(e.sc))) THEN <<>> ELSE Fail("TOOL.domain", "sete", "unit")>>
       [] e.op = "sett" -> <<E, [T EXCEPT ![e.dst] = V(e.out)], <<>>>>
       [] e.op = "compose" -> Res(e.dst, P400(MMul(E[e.a].M, E[e.b].M)), E[e.a].n + E[e.b].n + 1)
       [] e.op = "inverse" -> Res(e.dst, MInvD(E[e.a].M), E[e.a].n + 1)
       [] e.op = "exp" -> Res(e.dst, ExpM(GHat(g, T[e.a])), 1)
       [] e.op = "rplus" -> Res(e.dst, P400(MMul(E[e.a].M, ExpM(GHat(g, T[e.b])))), E[e.a].n + 2)
       [] e.op = "copy" -> Res(e.dst, E[e.a].M, E[e.a].n)
       [] e.op = "cast" -> Res(e.dst, E[e.a].M, E[e.a].n + 1)
       [] e.op = "muleq" -> Res(e.dst, P400(MMul(E[e.dst].M, E[e.a].M)), E[e.dst].n + E[e.a].n + 1)
       [] e.op = "pluseq" -> Res(e.dst, P400(MMul(E[e.dst].M, ExpM(GHat(g, T[e.a])))), E[e.dst].n + 2)
       [] e.op = "repeat" ->
            IF e.sub = "muleq"
            THEN Res(e.dst, RepMul(E[e.dst].M, E[e.a].M, e.count), E[e.dst].n + (IF E[e.a].n > 1000 THEN 100000000 ELSE e.count * (E[e.a].n + 1)))
            ELSE IF e.sub = "pluseq"
            THEN Res(e.dst, RepMul(E[e.dst].M, P400(ExpM(GHat(g, T[e.a]))), e.count), E[e.dst].n + 2 * e.count)
            ELSE <<E, T, Fail("TOOL.unknown_op", e.sub, "")>>
       [] e.op = "lift" ->
            \* lift_so3 / lift_se3 (one operation) followed by project_so2 / project_se2 (a second one): the lifted
            \* element is the embedding of the exact value (rotation about z, z-translation 0), the projection is the
            \* exact value again
            LET lg == IF g.k = "SO2" THEN [k |-> "SO3"] ELSE [k |-> "SE3"]
                X == E[e.a].M
                d == Dim(g)
                Emb == IF g.k = "SO2"
                       THEN << <<X[1][1], X[1][2], R0>>, <<X[2][1], X[2][2], R0>>, <<R0, R0, R1>> >>
                       ELSE << <<X[1][1], X[1][2], R0, X[1][3]>>, <<X[2][1], X[2][2], R0, X[2][3]>>,
                               <<R0, R0, R1, R0>>, <<R0, R0, R0, R1>> >>
                le == [e EXCEPT !.g = lg]
                r == Res(e.dst, X, E[e.a].n + 2)
            IN IF g.k \notin {"SO2", "SE2"} THEN <<E, T, Fail("TOOL.unknown_op", "lift on " \o g.k, "")>>
               ELSE <<r[1], r[2], ElemChecks(le, e.lifted, Emb, Sat(E[e.a].n + 1)) \o r[3]>>
       [] e.op = "ode" ->
            \* constant body velocity v for time T: x0 * exp(T v); every stage is one rplus (exp + compose)
            Res(e.dst, P400(MMul(E[e.a].M, ExpM(MScale(D(e.T), GHat(g, T[e.b]))))),
                E[e.a].n + 2 * (e.stages + 1) * e.nsteps)
       [] OTHER -> <<E, T, Fail("TOOL.unknown_op", e.op, "")>>

Stratum(e) == IF e.op = "repeat" THEN e.sub ELSE IF e.op = "ode" THEN e.stepper ELSE "-"

Init == st = [l |-> 1, bad |-> <<>>, cov |-> <<>>,
              e |-> [r \in 0..(NE - 1) |-> [M |-> <<>>, n |-> 0]], t |-> [r \in 0..(NT - 1) |-> <<>>], maxn |-> 0]
StepAll(s, e) ==
  LET r == Step(s, e)  res == r[3]  sm == Stratum(e)  key == e.op \o "|" \o sm
      nn == IF e.op \in {"reset", "sett"} THEN 0 ELSE r[1][e.dst].n
  IN [l |-> s.l + 1, e |-> r[1], t |-> r[2],
      maxn |-> IF nn > s.maxn THEN nn ELSE s.maxn,
      bad |-> s.bad \o [i \in 1..Len(res) |-> [line |-> s.l, op |-> e.op, stratum |-> sm, n |-> nn] @@ res[i]],
      cov |-> IF key \in DOMAIN s.cov THEN [s.cov EXCEPT ![key] = @ + 1] ELSE s.cov @@ (key :> 1)]
Next == st.l <= Len(Tr) /\ st' = StepAll(st, Tr[st.l])
Report == st.l = Len(Tr) + 1 =>
   JsonSerialize(IOEnv.VERDICT, [lines |-> Len(Tr), consumed |-> st.l - 1, bad |-> st.bad, maxn |-> st.maxn,
                                 cov |-> [k \in DOMAIN st.cov |-> st.cov[k]]])
=============================================================================
