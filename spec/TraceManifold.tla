--------------------------- MODULE TraceManifold ---------------------------
(* Trace specification for the "manifold" harness family (property C07).      *)
(* Each line of the trace is one step of a TLC-generated history replayed on   *)
(* a real Manifold model; it carries all operands and results exactly and,    *)
(* in `obs`, the observable state of EVERY live object after the step.        *)
(*                                                                           *)
(* Abstract state: heap (object id -> value tree), the object heap of the    *)
(* design model Manifold.tla with exact recorded values in place of lattice   *)
(* points.  Per step: (1) the step's own verdicts - round-trip axioms,        *)
(* element-wise / free-direction semantics (index logic from ManifoldIdx),    *)
(* dof; the leaf oracle is rplus(g,a) = g Exp(a) in matrix space from Groups, *)
(* rminus is verified relationally (y (+) d = x); (2) the frame condition:    *)
(* every object other than the step's destination is bit-for-bit what the     *)
(* heap says (independence of copies / casts).                                *)
(* Value trees: see harness/manifold.cpp.                                     *)
EXTENDS Tol, ManifoldIdx, Json, IOUtils, TLC

TraceFile == IOEnv.TRACE
OutFile == IOEnv.VERDICT
Tr == ndJsonDeserialize(TraceFile)

VARIABLES l, heap, taint, bad, cov
vars == <<l, heap, taint, bad, cov>>

---------------------------------------------------------------------------
FinQ(q) == q[4] < 100000
FinV(v) == \A i \in 1..Len(v) : FinQ(v[i])
QV(v) == RVecFromDoubles(v)

F1(clause, err, tol) == <<[clause |-> clause, err |-> err, tol |-> tol]>>
Fail(clause, err, tol) == F1(clause, RToStr(err), RToStr(tol))
Chk(clause, ok, err, tol) == IF ok THEN <<>> ELSE Fail(clause, err, tol)
ElemChk(clause, g, c, Y, tol) ==
  LET X == GMat(g, c) IN Chk(clause, RelOkM(X, Y, tol), RelErrM(X, Y), tol)
VecChk(clause, x, y, tol) == Chk(clause, RelOkV(x, y, tol), RelErrV(x, y), tol)

Tol9 == Dec(1, -9)          \* round trips (DESIGN.md 5/C07)
Tol7 == Dec(1, -7)          \* within 1e-5 of a half turn (the schedule of C02, which rplus/rminus are built from)
Band == Dec(1, -5)
TolT(band) == IF band THEN Tol7 ELSE Tol9

RECURSIVE MaxSeq(_, _)
MaxSeq(s, k) == IF k = 0 THEN R0 ELSE RMax(s[k], MaxSeq(s, k - 1))
RECURSIVE AllNonNeg(_, _)
AllNonNeg(s, k) == IF k = 0 THEN TRUE ELSE RSign(s[k]) >= 0 /\ AllNonNeg(s, k - 1)
MaxTheta2(g, a) == LET r == GRotNorm2(g, a) IN MaxSeq(r, Len(r))
TanNearPi(g, a, d) == ~RLt(MaxTheta2(g, a), RSq(RSub(PiLo, d)))
TanBelowPi(g, a) == RLt(MaxTheta2(g, a), RSq(PiLo))
LeafInDomain(g, c) ==
  LET u == GUnitResiduals(g, c)  w == GQw(g, c)
  IN RLeq(MaxSeq(u, Len(u)), RMul(RFromInt(8), Ulp("d"))) /\ AllNonNeg(w, Len(w))

---------------------------------------------------------------------------
\* value trees
LC(v) == QV(v.c)
FixedSet(v) == SeqToSet(v.fixed)

RECURSIVE WellFormed(_)      \* structure + finiteness (so that nothing below indexes out of range)
WellFormed(v) ==
  CASE v.t = "L" -> Len(v.c) = RepSize(v.g) /\ FinV(v.c)
    [] v.t = "V" -> \A i \in 1..Len(v.e) : WellFormed(v.e[i])
    [] v.t = "W" -> WellFormed(v.v)
    [] v.t = "S" -> WellFormed(v.m0) /\ WellFormed(v.m)
    [] v.t = "A" -> WellFormed(v.v)
    [] OTHER -> FALSE

RECURSIVE DofV(_)
DofV(v) ==
  CASE v.t = "L" -> Dof(v.g)
    [] v.t = "V" -> SumAll([i \in 1..Len(v.e) |-> DofV(v.e[i])])
    [] v.t = "W" -> DofV(v.v)
    [] v.t = "S" -> SubDof(DofV(v.m0), FixedSet(v))
    [] v.t = "A" -> DofV(v.v)
ElemDofs(v) == [i \in 1..Len(v.e) |-> DofV(v.e[i])]

RECURSIVE SameShape(_, _)
SameShape(x, y) ==
  /\ x.t = y.t
  /\ CASE x.t = "L" -> x.g = y.g
       [] x.t = "V" -> Len(x.e) = Len(y.e) /\ \A i \in 1..Len(x.e) : SameShape(x.e[i], y.e[i])
       [] x.t = "W" -> x.alt = y.alt /\ SameShape(x.v, y.v)
       [] x.t = "S" -> x.fixed = y.fixed /\ SameShape(x.m0, y.m0) /\ SameShape(x.m, y.m)
       [] x.t = "A" -> SameShape(x.v, y.v)

\* bit-for-bit equality of everything observable
RECURSIVE SameV(_, _)
SameV(x, y) ==
  /\ x.t = y.t
  /\ CASE x.t = "L" -> x.g = y.g /\ x.c = y.c
       [] x.t = "V" -> Len(x.e) = Len(y.e) /\ \A i \in 1..Len(x.e) : SameV(x.e[i], y.e[i])
       [] x.t = "W" -> x.alt = y.alt /\ SameV(x.v, y.v)
       [] x.t = "S" -> x.fixed = y.fixed /\ SameV(x.m0, y.m0) /\ SameV(x.m, y.m)
       [] x.t = "A" -> SameV(x.v, y.v)

RECURSIVE InDomain(_)
InDomain(v) ==
  CASE v.t = "L" -> LeafInDomain(v.g, LC(v))
    [] v.t = "V" -> \A i \in 1..Len(v.e) : InDomain(v.e[i])
    [] v.t = "W" -> InDomain(v.v)
    [] v.t = "S" -> InDomain(v.m0) /\ InDomain(v.m) /\ FixedSet(v) \subseteq 0..(DofV(v.m0) - 1)
                    /\ Cardinality(FixedSet(v)) = Len(v.fixed)
    [] v.t = "A" -> InDomain(v.v)

RECURSIVE ShapeStr(_)
RECURSIVE DigitsOf(_, _)
DigitsOf(s, k) == IF k > Len(s) THEN "" ELSE ToString(s[k]) \o DigitsOf(s, k + 1)
GroupStr(g) == CASE g.k = "R" -> "R" \o ToString(g.n) [] g.k = "SEK3" -> "SEK3_" \o ToString(g.n) [] OTHER -> g.k
ShapeStr(v) ==
  CASE v.t = "L" -> GroupStr(v.g)
    [] v.t = "V" -> "V" \o ToString(Len(v.e))
    [] v.t = "W" -> "W" \o ToString(v.alt) \o "." \o ShapeStr(v.v)
    [] v.t = "S" -> "S." \o ShapeStr(v.m0) \o ":" \o DigitsOf(v.fixed, 1)
    [] v.t = "A" -> "A." \o ShapeStr(v.v)

\* a container whose elements have different dofs, the first one not the average (size * dof(front) # dof)
RECURSIVE Ragged(_)
Ragged(v) ==
  CASE v.t = "V" -> (Len(v.e) >= 2 /\ Len(v.e) * DofV(v.e[1]) # DofV(v)) \/ \E i \in 1..Len(v.e) : Ragged(v.e[i])
    [] v.t = "W" -> Ragged(v.v)
    [] v.t = "S" -> Ragged(v.m0)
    [] v.t = "A" -> Ragged(v.v)
    [] OTHER -> FALSE
\* positions ("F"irst, "M"iddle, "L"ast) at which some container with >= 3 elements holds an element with ZERO degrees
\* of freedom (empty inner vector, zero-length VectorXd, ...)
RECURSIVE ZeroPos(_)
ZeroPos(v) ==
  CASE v.t = "V" ->
         LET n == Len(v.e)
             here == IF n < 3 THEN {} ELSE {IF i = 1 THEN "F" ELSE IF i = n THEN "L" ELSE "M" : i \in {j \in 1..n : DofV(v.e[j]) = 0}}
         IN here \cup UNION {ZeroPos(v.e[i]) : i \in 1..n}
    [] v.t = "W" -> ZeroPos(v.v)
    [] v.t = "S" -> ZeroPos(v.m0)
    [] v.t = "A" -> ZeroPos(v.v)
    [] OTHER -> {}
ZeroTag(v) == LET z == ZeroPos(v)
              IN IF z = {} THEN "" ELSE "~z" \o (IF "F" \in z THEN "F" ELSE "") \o (IF "M" \in z THEN "M" ELSE "") \o (IF "L" \in z THEN "L" ELSE "")
\* coverage / stratum label of a value
Shp(v) == ShapeStr(v) \o (IF Ragged(v) THEN "~ragged" ELSE "") \o ZeroTag(v)
DofFail(got, v) == F1("C07.dof", ToString(got), ToString(DofV(v)))

\* largest squared rotation norm over all leaves touched by the tangent a (a has length DofV(v))
RECURSIVE TreeTheta2(_, _)
TreeTheta2(v, a) ==
  CASE v.t = "L" -> MaxTheta2(v.g, a)
    [] v.t = "V" -> LET ds == ElemDofs(v)
                        ts == [i \in 1..Len(v.e) |-> TreeTheta2(v.e[i], VSeg(a, SegOff(ds, i) + 1, ds[i]))]
                    IN MaxSeq(ts, Len(ts))
    [] v.t = "W" -> TreeTheta2(v.v, a)
    [] v.t = "S" -> LET n == DofV(v.m0) IN TreeTheta2(v.m, RForce(Lift(a, FixedSet(v), n, R0)))
    [] v.t = "A" -> TreeTheta2(v.v, a)

\* COST GUARD.  The certified matrix exponential needs ~log2 |a| squarings at growing precision; a tangent with a
\* rotation part beyond 100 rad or an entry beyond 1e6 (uninitialised memory under a defect; never a legitimate
\* difference of elements whose coordinates are <= 1e3) is reported as a failed rminus without evaluating Exp.
SaneLeafTan(g, a) == RLeq(VMaxAbs(a), Dec(1, 6)) /\ RLeq(MaxTheta2(g, a), Dec(1, 4))
SaneTan(v, a) == RLeq(VMaxAbs(a), Dec(1, 6)) /\ RLeq(TreeTheta2(v, a), Dec(1, 4))

---------------------------------------------------------------------------
\* rplus: out = v (+) a.   cl = clause prefix chosen by the innermost adaptor.
\* Precondition (checked by the caller): WellFormed(v), WellFormed(out), Len(a) = DofV(v).
RECURSIVE RplusChk(_, _, _, _)
RplusChk(cl, v, a, out) ==
  IF Len(a) # DofV(v) THEN DofFail(Len(a), v)
  ELSE IF v.t # out.t THEN F1(cl \o ".shape", out.t, v.t)
  ELSE CASE v.t = "L" ->
         IF v.g # out.g THEN F1(cl \o ".shape", "group", "group")
         ELSE ElemChk(cl \o ".rplus", v.g, LC(out), MMul(GMat(v.g, LC(v)), XExp(v.g, a)), Tol9)
    [] v.t = "V" ->
         IF Len(out.e) # Len(v.e) THEN F1("C07.container.size", ToString(Len(out.e)), ToString(Len(v.e)))
         ELSE LET ds == ElemDofs(v)
                  RECURSIVE Go(_)
                  Go(i) == IF i > Len(v.e) THEN <<>>
                           ELSE RplusChk("C07.container", v.e[i], VSeg(a, SegOff(ds, i) + 1, ds[i]), out.e[i]) \o Go(i + 1)
              IN Go(1)
    [] v.t = "W" ->
         IF out.alt # v.alt THEN F1("C07.container.alt", ToString(out.alt), ToString(v.alt))
         ELSE RplusChk("C07.container", v.v, a, out.v)
    [] v.t = "S" ->
         LET n == DofV(v.m0) IN
         (IF SameV(out.m0, v.m0) THEN <<>> ELSE F1("C07.sub.origin", "m0 changed", "m0 kept bit for bit"))
         \o (IF out.fixed = v.fixed THEN <<>> ELSE F1("C07.sub.fixed", "fixed_dims changed", "kept"))
         \o RplusChk("C07.sub.move", v.m, RForce(Lift(a, FixedSet(v), n, R0)), out.m)
    [] v.t = "A" -> RplusChk(cl, v.v, a, out.v)

\* rminus: d = x (-) y, verified relationally: y (+) d = x on every leaf; SubManifold: the recorded
\* full-space difference `wit.full` is verified the same way and d must be its free components.
\* Precondition: WellFormed, SameShape(x, y), Len(d) = DofV(x).
WitOk(x, w) ==
  CASE x.t = "S" -> {"full", "in"} \subseteq DOMAIN w /\ Len(w.full) = DofV(x.m0) /\ FinV(w.full)
    [] x.t = "V" -> Len(w) = Len(x.e)
    [] OTHER -> TRUE
RECURSIVE RminusChk(_, _, _, _, _)
RminusChk(cl, x, y, d, w) ==
  IF Len(d) # DofV(x) THEN DofFail(Len(d), x)
  ELSE IF ~WitOk(x, w) THEN F1("TOOL.witness", "malformed", "")
  ELSE CASE x.t = "L" ->
         IF ~SaneLeafTan(x.g, d) THEN Fail(cl \o ".rminus", VMaxAbs(d), Dec(1, 6))
         ELSE ElemChk(cl \o ".rminus", x.g, LC(x), MMul(GMat(x.g, LC(y)), XExp(x.g, d)), TolT(TanNearPi(x.g, d, Band)))
    [] x.t = "V" ->
         LET ds == ElemDofs(x)
             RECURSIVE Go(_)
             Go(i) == IF i > Len(x.e) THEN <<>>
                      ELSE RminusChk("C07.container", x.e[i], y.e[i], VSeg(d, SegOff(ds, i) + 1, ds[i]), w[i]) \o Go(i + 1)
         IN Go(1)
    [] x.t = "W" -> RminusChk("C07.container", x.v, y.v, d, w)
    [] x.t = "S" ->
         LET n == DofV(x.m0)  full == QV(w.full)
         IN RminusChk("C07.sub.witness", x.m, y.m, full, w.in)
            \o VecChk("C07.sub.report", d, RForce(Gather(full, FixedSet(x), n)), Tol9)
    [] x.t = "A" -> RminusChk(cl, x.v, y.v, d, w)

\* axiom 1: d = rminus(rplus(v, a), v) must be a, on every leaf whose rotation parts are below pi
RECURSIVE RT1Chk(_, _, _)
RT1Chk(v, a, d) ==
  IF Len(a) # DofV(v) \/ Len(d) # DofV(v) THEN <<>>      \* reported as C07.dof by the caller
  ELSE
  CASE v.t = "L" -> IF TanBelowPi(v.g, a) THEN VecChk("C07.rt1", d, a, TolT(TanNearPi(v.g, a, Band))) ELSE <<>>
    [] v.t = "V" ->
         LET ds == ElemDofs(v)
             RECURSIVE Go(_)
             Go(i) == IF i > Len(v.e) THEN <<>>
                      ELSE RT1Chk(v.e[i], VSeg(a, SegOff(ds, i) + 1, ds[i]), VSeg(d, SegOff(ds, i) + 1, ds[i])) \o Go(i + 1)
         IN Go(1)
    [] v.t = "W" -> RT1Chk(v.v, a, d)
    [] v.t = "S" -> LET n == DofV(v.m0)  F == FixedSet(v)
                    IN RT1Chk(v.m, RForce(Lift(a, F, n, R0)), RForce(Lift(d, F, n, R0)))
    [] v.t = "A" -> RT1Chk(v.v, a, d)

\* axiom 2: q = rplus(x, rminus(m2, x)) must be m2.  SubManifold: m2 must lie on the slice through x
\* (the verified full-space difference has no component in a fixed direction); otherwise not applicable.
\* ABSOLUTE bound 1e-11: dropping a fixed component delta moves the result by about delta * (1 + |translation|),
\* i.e. by about delta relative to max(1, |entries|) - two orders below the 1e-9 that is then demanded.  (A bound
\* relative to max|full| let a 1.35e-8 rad fixed rotation component with a 911 m lever arm count as "on the slice".)
OnSlice(full, F) == \A i \in F : RLeq(RAbs(full[i + 1]), Dec(1, -11))
RECURSIVE RT2Chk(_, _, _, _, _)
RT2Chk(x, m2, d, q, w) ==
  IF q.t # x.t \/ Len(d) # DofV(x) THEN <<>>            \* already reported by RplusChk / as C07.dof
  ELSE CASE x.t = "L" ->
         IF q.g # x.g THEN <<>>
         ELSE ElemChk("C07.rt2", x.g, LC(q), GMat(x.g, LC(m2)), TolT(TanNearPi(x.g, d, Band)))
    [] x.t = "V" ->
         IF Len(q.e) # Len(x.e) THEN <<>>
         ELSE LET ds == ElemDofs(x)
                  RECURSIVE Go(_)
                  Go(i) == IF i > Len(x.e) THEN <<>>
                           ELSE RT2Chk(x.e[i], m2.e[i], VSeg(d, SegOff(ds, i) + 1, ds[i]), q.e[i], w[i]) \o Go(i + 1)
              IN Go(1)
    [] x.t = "W" -> IF q.alt # x.alt THEN <<>> ELSE RT2Chk(x.v, m2.v, d, q.v, w)
    [] x.t = "S" ->
         LET full == QV(w.full)
         IN IF OnSlice(full, FixedSet(x)) THEN RT2Chk(x.m, m2.m, full, q.m, w.in) ELSE <<>>
    [] x.t = "A" -> RT2Chk(x.v, m2.v, d, q.v, w)
RECURSIVE RT2Applies(_, _)
RT2Applies(x, w) ==
  CASE x.t = "S" -> OnSlice(QV(w.full), FixedSet(x))
    [] x.t = "V" -> \A i \in 1..Len(x.e) : RT2Applies(x.e[i], w[i])
    [] x.t = "W" -> RT2Applies(x.v, w)
    [] x.t = "A" -> RT2Applies(x.v, w)
    [] OTHER -> TRUE

---------------------------------------------------------------------------
\* steps.  Each returns [fails |-> <<...>>, heap |-> heap', strat |-> string]
Id(n) == ToString(n)
Live(n) == Id(n) \in DOMAIN heap
Tool(what) == F1("TOOL." \o what, "", "")
Put(id, v) == [k \in (DOMAIN heap) \cup {id} |-> IF k = id THEN v ELSE heap[k]]
Res(f, h, s) == [fails |-> f, heap |-> h, strat |-> s]
ThetaStr(v, a) == ThetaStratum(TreeTheta2(v, a))

TConstruct(e) ==
  LET v == e.val
  IN IF ~WellFormed(v) THEN Res(Tool("malformed"), heap, "-")
     ELSE Res(IF InDomain(v) THEN <<>> ELSE Tool("domain"), Put(Id(e.dst), v), Shp(v))

\* copy construction, copy assignment, cast to the same scalar: the new object is the source, bit for bit
TCopy(e, clause) ==
  IF ~Live(e.src) THEN Res(Tool("dead_src"), heap, "-")
  ELSE LET id == Id(e.dst)  want == heap[Id(e.src)]
       IN IF id \notin DOMAIN e.obs \/ ~WellFormed(e.obs[id]) THEN Res(F1(clause, "no/ill-formed result", ""), heap, "-")
          ELSE LET got == e.obs[id]
               IN Res(IF SameV(got, want) THEN <<>> ELSE F1(clause, "differs from the source in m(), m0(), fixed_dims() or get<M>()", "bitwise equal"),
                      Put(id, got),
                      \* "~xdof": a live destination of ANOTHER dof is overwritten (cross-shape histories; vacuity guard of the driver)
                      Shp(want) \o (IF clause = "C07.copy.assign" /\ Live(e.dst) /\ DofV(heap[id]) # DofV(want) THEN "~xdof" ELSE ""))

TRplus(e) ==
  IF ~Live(e.src) THEN Res(Tool("dead_src"), heap, "-")
  ELSE LET v == heap[Id(e.src)]  out == e.out
       IN IF ~FinV(e.a) \/ ~WellFormed(out) THEN Res(F1("C07.rt1.rplus", "non-finite or ill-formed", "finite"), heap, "-")
          ELSE IF Len(e.a) # DofV(v) THEN Res(DofFail(Len(e.a), v), Put(Id(e.dst), out), Shp(v))
          ELSE LET a == QV(e.a)
               IN IF ~SaneTan(v, a) THEN Res(Tool("insane_tangent"), Put(Id(e.dst), out), "-")
                  ELSE Res(RplusChk("C07.rt1", v, a, out), Put(Id(e.dst), out), Shp(v) \o "|" \o ThetaStr(v, a))

TRminus(e) ==
  IF ~Live(e.x) \/ ~Live(e.y) THEN Res(Tool("dead_src"), heap, "-")
  ELSE LET x == heap[Id(e.x)]  y == heap[Id(e.y)]
       IN IF ~SameShape(x, y) THEN Res(Tool("shape"), heap, "-")
          ELSE IF ~FinV(e.d) THEN Res(F1("C07.rt2.rminus", "non-finite", "finite"), heap, "-")
          ELSE IF Len(e.d) # DofV(x) THEN Res(DofFail(Len(e.d), x), heap, Shp(x))
          ELSE LET d == QV(e.d)
               IN Res(RminusChk("C07.rt2", x, y, d, e.wit)
                      \o (IF e.x = e.y THEN VecChk("C07.zero", d, VZero(Len(d)), Tol9) ELSE <<>>),
                      heap, Shp(x) \o (IF e.x = e.y THEN "|zero" ELSE "|diff"))

TMutate(e) ==
  IF ~Live(e.id) THEN Res(Tool("dead_src"), heap, "-")
  ELSE IF ~WellFormed(e.val) \/ ~SameShape(e.val, heap[Id(e.id)]) THEN Res(Tool("mutate_shape"), heap, "-")
  ELSE Res(IF InDomain(e.val) THEN <<>> ELSE Tool("domain"), Put(Id(e.id), e.val), Shp(e.val))

TDof(e) ==
  IF ~Live(e.id) THEN Res(Tool("dead_src"), heap, "-")
  ELSE LET v == heap[Id(e.id)]
       IN Res(IF e.dof = DofV(v) THEN <<>> ELSE DofFail(e.dof, v), heap, Shp(v))

TRt1(e) ==
  IF ~Live(e.x) THEN Res(Tool("dead_src"), heap, "-")
  ELSE LET v == heap[Id(e.x)]  p == e.p
       IN IF ~FinV(e.a) \/ ~FinV(e.d) \/ ~WellFormed(p) THEN Res(F1("C07.rt1", "non-finite or ill-formed", "finite"), heap, "-")
          ELSE IF Len(e.a) # DofV(v) THEN Res(DofFail(Len(e.a), v), heap, Shp(v))
          ELSE IF ~SaneTan(v, QV(e.a)) THEN Res(Tool("insane_tangent"), heap, "-")
          ELSE LET a == QV(e.a)  d == QV(e.d)
                   f1 == RplusChk("C07.rt1", v, a, p)
                   f2 == IF e.pdof = DofV(v) THEN <<>> ELSE F1("C07.dof", ToString(e.pdof), ToString(DofV(v)))
                   f3 == IF Len(d) # DofV(v) THEN F1("C07.dof", ToString(Len(d)), ToString(DofV(v)))
                         ELSE IF ~SameShape(p, v) THEN <<>>       \* reported by f1
                         ELSE RminusChk("C07.rt2", p, v, d, e.wit) \o RT1Chk(v, a, d)
               IN Res(f1 \o f2 \o f3, heap, Shp(v) \o "|" \o ThetaStr(v, a))

TRt2(e) ==
  IF ~Live(e.x) THEN Res(Tool("dead_src"), heap, "-")
  ELSE LET x == heap[Id(e.x)]  m2 == e.m2  q == e.q
       IN \* rt2: m2 is a heap object (an untainted one: same shape as x by construction of the history, else a program error)
          IF e.op = "rt2" /\ (~Live(e.y) \/ ~WellFormed(m2) \/ ~SameV(m2, heap[Id(e.y)])) THEN Res(Tool("rt2_operand"), heap, "-")
          ELSE IF e.op = "rt2" /\ ~SameShape(m2, x) THEN Res(Tool("shape"), heap, "-")
          \* rt2t: m2 = rplus(x, b) was RETURNED BY THE LIBRARY: a wrong shape is a verdict, the rest of the step is skipped
          ELSE IF e.op = "rt2t" /\ ~FinV(e.b) THEN Res(Tool("insane_tangent"), heap, "-")
          ELSE IF e.op = "rt2t" /\ Len(e.b) # DofV(x) THEN Res(DofFail(Len(e.b), x), heap, Shp(x))
          ELSE IF e.op = "rt2t" /\ ~WellFormed(m2) THEN Res(F1("C07.rt1.rplus", "non-finite or ill-formed result", "finite"), heap, Shp(x))
          ELSE IF e.op = "rt2t" /\ ~SameShape(m2, x) THEN Res(RplusChk("C07.rt1", x, QV(e.b), m2), heap, Shp(x) \o "|shape")
          ELSE IF ~FinV(e.d) \/ ~WellFormed(q) THEN Res(F1("C07.rt2", "non-finite or ill-formed", "finite"), heap, "-")
          ELSE IF Len(e.d) # DofV(x) THEN Res(DofFail(Len(e.d), x), heap, Shp(x))
          ELSE LET d == QV(e.d)
                   f0 == IF e.op = "rt2t" THEN RplusChk("C07.rt1", x, QV(e.b), m2) ELSE <<>>
                   f1 == RminusChk("C07.rt2", m2, x, d, e.wit)
                   sane == SaneTan(x, d)          \* otherwise f1 has reported it
                   f2 == IF sane THEN RplusChk("C07.rt1", x, d, q) ELSE <<>>
                   f3 == IF sane THEN RT2Chk(x, m2, d, q, e.wit) ELSE <<>>
               IN Res(f0 \o f1 \o f2 \o f3, heap,
                      Shp(x) \o (IF RT2Applies(x, e.wit) THEN "|applies" ELSE "|offslice"))

TTwin(e) ==
  IF ~Live(e.x) \/ ~Live(e.y) THEN Res(Tool("dead_src"), heap, "-")
  ELSE LET x == heap[Id(e.x)]  y == heap[Id(e.y)]
       IN IF ~SameV(x, y) THEN Res(<<>>, heap, "skipped")
          ELSE Res(IF WellFormed(e.px) /\ WellFormed(e.py) /\ SameV(e.px, e.py) /\ e.dx = e.dy /\ e.dofx = e.dofy
                   THEN <<>> ELSE F1("C07.copy.behave", "equal objects gave different rplus / rminus / dof", "bitwise equal"),
                   heap, Shp(x))

Step(e) ==
  CASE e.op = "begin" -> Res(<<>>, <<>>, "-")
    [] e.op = "construct" -> TConstruct(e)
    [] e.op = "copy" -> TCopy(e, "C07.copy.value")
    [] e.op = "assign" -> TCopy(e, "C07.copy.assign")
    [] e.op = "cast" -> TCopy(e, "C07.copy.cast")
    [] e.op = "rplus" -> TRplus(e)
    [] e.op = "rminus" -> TRminus(e)
    [] e.op = "mutate" -> TMutate(e)
    [] e.op = "dof" -> TDof(e)
    [] e.op = "rt1" -> TRt1(e)
    [] e.op \in {"rt2", "rt2t"} -> TRt2(e)
    [] e.op = "twin" -> TTwin(e)
    \* the process received a signal while executing a step of a history whose operands are all in the domain
    [] e.op = "crash" -> Res(F1("C07.crash", "signal " \o ToString(e.sig) \o " in step: " \o e.step, "no crash"), heap, "-")
    [] OTHER -> Res(Tool("unknown_op"), heap, "-")

\* operands that an earlier (already reported) step left non-finite / ill-formed: the step is skipped
RefIds(e) == {Id(e[f]) : f \in {"src", "x", "y", "id"} \cap DOMAIN e}
NoObs(e) == e.op \in {"begin", "crash"}
IllFormedOperand(e) == ~NoObs(e) /\ \E k \in RefIds(e) \cap DOMAIN heap : ~WellFormed(heap[k])
Creates(e) == e.op \in {"construct", "copy", "cast", "rplus"}
ExpectedLive(e) == (DOMAIN heap) \cup (IF Creates(e) THEN {Id(e.dst)} ELSE {})

\* frame condition: after the step every live object is bit for bit what the heap says
\* (the destination of rplus / construct / mutate included: the harness logged that value)
Frame(e, h) ==
  IF NoObs(e) THEN <<>>
  ELSE IF DOMAIN e.obs # ExpectedLive(e) THEN Tool("live_set")
  ELSE LET ids == DOMAIN h
           badIds == {k \in ids : ~(WellFormed(e.obs[k]) /\ SameV(e.obs[k], h[k]))}
       IN IF badIds = {} THEN <<>>
          ELSE F1("C07.copy.indep", "objects changed by a step that must not touch them: " \o ToString(badIds), "unchanged")
\* objects the step's verdict did not place in the heap (failed creations) are adopted as observed
Adopt(e, h) == IF NoObs(e) THEN h ELSE [k \in DOMAIN e.obs |-> IF k \in DOMAIN h THEN h[k] ELSE e.obs[k]]

---------------------------------------------------------------------------
\* TAINT.  An object whose SHAPE (container size, alternative, fixed dimensions, group) is not the one the
\* specification demands - because the library returned it so (already reported by the step that created it) - is
\* marked; steps that use a marked object are skipped (no verdict, no TOOL error), objects created from it are marked
\* too.  Inputs proposed by the generator / harness are never marked: a malformed input stays a TOOL.* error.
SrcOf(e) == IF "src" \in DOMAIN e THEN Id(e.src) ELSE "-"
MakesDst(e) == e.op \in {"copy", "cast", "rplus", "assign"}
NewTaint(e, skip, h) ==
  IF e.op = "begin" THEN {}
  ELSE IF ~MakesDst(e) THEN taint
  ELSE LET d == Id(e.dst)
       IN IF skip THEN taint \cup {d}
          ELSE IF d \in DOMAIN h /\ SrcOf(e) \in DOMAIN heap /\ WellFormed(h[d]) /\ SameShape(h[d], heap[SrcOf(e)])
               THEN taint \ {d} ELSE taint \cup {d}

Init == l = 1 /\ heap = <<>> /\ taint = {} /\ bad = <<>> /\ cov = <<>>

Next ==
  /\ l <= Len(Tr)
  /\ LET e == Tr[l]
         skip == ~NoObs(e) /\ (IllFormedOperand(e) \/ RefIds(e) \cap taint # {})
         r == IF skip THEN Res(<<>>, heap, "skipped-operand") ELSE Step(e)
         res == r.fails \o (IF skip THEN <<>> ELSE Frame(e, r.heap))
         h2 == IF skip THEN e.obs ELSE Adopt(e, r.heap)        \* a skipped step's objects are adopted as observed
         key == e.op \o "|" \o r.strat
     IN /\ bad' = bad \o [i \in 1..Len(res) |-> [line |-> l, op |-> e.op, stratum |-> r.strat] @@ res[i]]
        /\ cov' = IF key \in DOMAIN cov THEN [cov EXCEPT ![key] = @ + 1] ELSE cov @@ (key :> 1)
        /\ heap' = h2
        /\ taint' = NewTaint(e, skip, h2)
  /\ l' = l + 1

Spec == Init /\ [][Next]_vars

Report ==
  l = Len(Tr) + 1 =>
    JsonSerialize(OutFile, [lines |-> Len(Tr), consumed |-> l - 1, bad |-> bad,
                            cov |-> [k \in DOMAIN cov |-> cov[k]]])
=============================================================================
