------------------------------ MODULE TraceMap ------------------------------
(* Trace specification for the "mapmem" harness family (property C16).          *)
(* A trace is a sequence of replayed histories.  Each history starts with an    *)
(* "init" event (complete memory: caller's buffer with guards + two value       *)
(* objects with guards), continues with one event per call (operands by         *)
(* storage kind and position, the cells whose bit pattern changed, the same     *)
(* call executed on value objects, every returned value) and ends with a "fin"  *)
(* event (complete memory again).                                               *)
(*                                                                              *)
(* The abstract state `mem` is the memory as the specification knows it.  Every *)
(* step is the design model's action (MapMem: read the operands at their        *)
(* DOCUMENTED ranges, replace exactly the destination range) bound to the       *)
(* logged operands; the observed memory must match:                             *)
(*   C16.frame.*  changed cells lie inside the destination range (sub-range for *)
(*                sub-part views); observers / const views change nothing;      *)
(*                guard cells never change                                      *)
(*   C16.copy     =, move-=, copy construction, assignment through a sub-part:  *)
(*                the destination range holds the source coefficients, bit for  *)
(*                bit, every one of them; a value built from a view has the     *)
(*                view's coefficients                                           *)
(*   C16.cast     cast<S>(): coefficient j of the result is coefficient j of    *)
(*                the operand converted to S (round to nearest even / exact)    *)
(*   C16.same     everything computed through views equals the same call on     *)
(*                value objects holding the same coefficients to <= 4 ulp,      *)
(*                coefficient by coefficient (ulp distance computed exactly)    *)
(* Positions, ranges and sub-part offsets are re-derived here from the group    *)
(* descriptor (MapLayout); nothing the harness says about them is trusted.      *)
(* A bad step never stops validation.                                           *)
EXTENDS Tol, MapLayout, FiniteSets, Json, IOUtils

TraceFile == IOEnv.TRACE
OutFile == IOEnv.VERDICT
Tr == ndJsonDeserialize(TraceFile)

VARIABLES l, bad, cov, mem, geo
vars == <<l, bad, cov, mem, geo>>
\* mem: the specification's memory (cell index -> number quadruple)
\* geo: <<>> until an init event was seen, then <<[pos |-> positions of V0/V1 and the views, nb |-> buffer length, n |-> cells]>>
ok == Len(geo) = 1

---------------------------------------------------------------------------
\* numbers: a quadruple <<s, hi, lo, e>>; equality of quadruples is equality of bit patterns
\* (the harness normalises the mantissa; -0 keeps its sign; all NaNs are alike)
IsNaN(q) == q[4] = 100002
IsInf(q) == q[4] = 100001
IsFin(q) == q[4] < 100000
IsZero(q) == IsFin(q) /\ q[2] = 0 /\ q[3] = 0

Prec(sc) == IF sc = "f" THEN 23 ELSE 52
EMin(sc) == IF sc = "f" THEN -126 ELSE -1022
\* unit in the last place of the finite rational r in the scalar type sc
UlpOf(r, sc) == IF RSign(r) = 0 THEN RPow2(EMin(sc) - Prec(sc))
                ELSE LET e == RLog2Floor(RAbs(r)) IN RPow2((IF e < EMin(sc) THEN EMin(sc) ELSE e) - Prec(sc))
\* x (through a view) against y (value object): identical, or both NaN, or finite within 4 ulp
Same4(x, y, sc) ==
  \/ x = y
  \/ (IsNaN(x) /\ IsNaN(y))
  \/ /\ IsFin(x) /\ IsFin(y)
     /\ LET rx == RFromDouble(x)  ry == RFromDouble(y)
        IN RLeq(RAbs(RSub(rx, ry)), RMul(RFromInt(4), RMax(UlpOf(rx, sc), UlpOf(ry, sc))))
UlpErrStr(x, y, sc) ==
  IF IsFin(x) /\ IsFin(y)
  THEN LET rx == RFromDouble(x)  ry == RFromDouble(y)
       IN RToStr(RDiv(RAbs(RSub(rx, ry)), RMax(UlpOf(rx, sc), UlpOf(ry, sc)))) \o " ulp"
  ELSE "non-finite mismatch"

\* conversion of one coefficient to the scalar type `to` (IEEE round to nearest, ties to even)
Even(n) == REq(RMul(R2, RFloor(RMul(RHalf, n))), n)
RoundHalfEven(t) ==
  LET f == RFloor(t)  d == RSub(t, f)
  IN IF RLt(d, RHalf) THEN f ELSE IF RLt(RHalf, d) THEN RAdd(f, R1) ELSE IF Even(f) THEN f ELSE RAdd(f, R1)
\* does the quadruple `out` denote the conversion of `q`?
ConvOK(q, out, to) ==
  IF IsNaN(q) THEN IsNaN(out)
  ELSE IF IsInf(q) THEN out = q
  ELSE IF IsZero(q) THEN IsZero(out) /\ out[1] = q[1]
  ELSE IF to = "d" THEN out = q                                   \* float -> double is exact
  ELSE LET r == RAbs(RFromDouble(q))
           e == RLog2Floor(r)
           qu == RPow2((IF e < -126 THEN -126 ELSE e) - 23)
           v == RMul(RoundHalfEven(RDiv(r, qu)), qu)
       IN IF RLeq(RPow2(128), v) THEN IsInf(out) /\ out[1] = q[1]
          ELSE IF RSign(v) = 0 THEN IsZero(out) /\ out[1] = q[1]
          ELSE IsFin(out) /\ out[1] = q[1] /\ REq(RAbs(RFromDouble(out)), v)

---------------------------------------------------------------------------
Fail(clause, err, tol) == <<[clause |-> clause, err |-> err, tol |-> tol]>>
Chk(clause, cond, err, tol) == IF cond THEN <<>> ELSE Fail(clause, err, tol)

RECURSIVE TName(_)
RECURSIVE TNames(_, _)
TNames(ps, i) == IF i > Len(ps) THEN "" ELSE (IF i > 1 THEN "," ELSE "") \o TName(ps[i]) \o TNames(ps, i + 1)
TName(g) == CASE g.k = "B" -> "B(" \o TNames(g.parts, 1) \o ")"
              [] g.k \in {"R", "SEK3"} -> g.k \o ToString(g.n)
              [] OTHER -> g.k

Mutators == {"assign", "massign", "mul", "amul", "bmul", "copyctor", "partsctor", "plus", "setid", "subassign", "subsetid", "submul"}
Observers == {"cast", "const", "const2", "subconst"}
SubOps == {"subassign", "subsetid", "submul", "subconst"}
CopyOps == {"assign", "massign", "copyctor", "partsctor"}     \* partsctor: G(part_1, ..., part_m), parts in layout order

HasView(v) == v.k # "none"
\* geometry of an init event, re-derived: buffer length, view positions, value objects behind the buffer
\* with at least MLValGuard guard cells on each side
GeometryOK(e) ==
  LET g == e.g  r == RepSize(g) IN
  /\ e.R = r /\ e.nb = MLBufLen(g) /\ Len(e.cells) = e.n
  /\ \A v \in MLBufNames(g) : v \in DOMAIN e.pos /\ e.pos[v] = MLViewPos(g, v)
  /\ DOMAIN e.pos = MLBufNames(g) \cup {"V0", "V1"}
  /\ e.pos.V0 >= e.nb + MLValGuard /\ e.pos.V1 >= e.pos.V0 + r + MLValGuard /\ e.n >= e.pos.V1 + r + MLValGuard
  /\ MLViewPos(g, "P3") + r + MLGuard <= e.nb
\* position the specification assigns to a named view, given the tracked memory size
ViewOK(g, v, n) ==
  IF v.k = "val" THEN v.v \in {"V0", "V1"} /\ v.p = geo[1].pos[v.v]
  ELSE v.k \in {"map", "cmap"} /\ (IF v.v \in {"V0", "V1"} THEN v.p = geo[1].pos[v.v]      \* a view over a value object's memory
                                   ELSE v.v \in MLBufNames(g) /\ v.p = MLViewPos(g, v.v))
Rel(a, b, r) == IF a.p = b.p THEN "same" ELSE IF a.p + r <= b.p \/ b.p + r <= a.p THEN "disj" ELSE "partial"

\* cells no view and no value object ever covers (outer guards of the buffer, guards around the value objects)
Covered(g, c) ==
  LET r == RepSize(g) IN
  \/ \E v \in MLBufNames(g) : c >= MLViewPos(g, v) /\ c < MLViewPos(g, v) + r
  \/ \E v \in {"V0", "V1"} : c >= geo[1].pos[v] /\ c < geo[1].pos[v] + r

Domain(e) ==
  LET g == e.g  r == RepSize(g)  n == Cardinality(DOMAIN mem) IN
  (IF ~ok THEN Fail("TOOL.no_init", e.op, "") ELSE <<>>)
  \o (IF e.op \notin Mutators \cup Observers THEN Fail("TOOL.unknown_op", e.op, "") ELSE <<>>)
  \o (IF e.op \in Mutators /\ e.d.k \notin {"val", "map"} THEN Fail("TOOL.domain", "destination is not mutable", e.d.k) ELSE <<>>)
  \o (IF ok /\ \E v \in {e.d, e.s, e.o} : HasView(v) /\ ~ViewOK(g, v, n) THEN Fail("TOOL.domain", "view position", "") ELSE <<>>)
  \o (IF HasView(e.d) /\ HasView(e.s) /\ Rel(e.d, e.s, r) = "partial" THEN Fail("TOOL.domain", "partial aliasing", "") ELSE <<>>)
  \o (IF HasView(e.o) /\ HasView(e.s) /\ Rel(e.o, e.s, r) = "partial" THEN Fail("TOOL.domain", "partial aliasing", "") ELSE <<>>)
  \o (IF e.op \in SubOps /\ ~HasSub(g, e.i) THEN Fail("TOOL.domain", "unknown sub-part", e.i) ELSE <<>>)

---------------------------------------------------------------------------
\* the step: destination range from the documented layout, new memory from the recorded diff
Sub(e) == IF e.op \in SubOps THEN SubOfG(e.g, e.i) ELSE [nm |-> "-", off |-> 0, len |-> RepSize(e.g)]
DestLo(e) == IF e.op \in Mutators THEN e.d.p + Sub(e).off ELSE 0
DestLen(e) == IF e.op \in Mutators THEN Sub(e).len ELSE 0
DiffIdx(e) == {e.diff[q][1] : q \in 1..Len(e.diff)}
ApplyDiff(m, diff) ==
  [c \in DOMAIN m |-> IF \E q \in 1..Len(diff) : diff[q][1] = c
                      THEN diff[CHOOSE q \in 1..Len(diff) : diff[q][1] = c][2] ELSE m[c]]

\* C16.frame: classify every changed cell outside the destination range
FrameClause(e, c, n) ==
  LET g == e.g  r == RepSize(g)
      In(v) == HasView(v) /\ c >= v.p /\ c < v.p + r
  IN IF ~Covered(g, c) THEN "C16.frame.guard"
     ELSE IF e.op \in Observers THEN "C16.frame.const"
     ELSE IF In(e.d) THEN "C16.frame.sub"
     ELSE IF (In(e.s) /\ e.s.k = "cmap") \/ (In(e.o) /\ e.o.k = "cmap") THEN "C16.frame.const"
     ELSE "C16.frame.range"
FrameChk(e, post) ==
  LET lo == DestLo(e)  len == DestLen(e)  n == Cardinality(DOMAIN mem)
      outs == {c \in DiffIdx(e) : c < lo \/ c >= lo + len}
  IN IF FrameOK(post, mem, lo, len) THEN <<>>
     ELSE LET c == CHOOSE x \in outs : \A y \in outs : x <= y
          IN Fail(FrameClause(e, c, n), "cell " \o ToString(c) \o " changed (" \o ToString(Cardinality(outs)) \o " cell(s) outside)",
                  "destination [" \o ToString(lo) \o "," \o ToString(lo + len) \o ")")

\* vectors of quadruples
SameVec(x, y, sc) == Len(x) = Len(y) /\ \A j \in 1..Len(x) : Same4(x[j], y[j], sc)
FirstBad(x, y, sc) == CHOOSE j \in 1..Len(x) : ~Same4(x[j], y[j], sc) /\ \A i \in 1..(j - 1) : Same4(x[i], y[i], sc)
SameChk(clause, what, x, y, sc) ==
  IF SameVec(x, y, sc) THEN <<>>
  ELSE IF Len(x) # Len(y) THEN Fail(clause, what \o ": length " \o ToString(Len(x)), ToString(Len(y)))
  ELSE LET j == FirstBad(x, y, sc) IN Fail(clause, what \o "[" \o ToString(j - 1) \o "]: " \o UlpErrStr(x[j], y[j], sc), "4 ulp")
BitChk(clause, what, x, y) ==
  IF x = y THEN <<>>
  ELSE IF Len(x) # Len(y) THEN Fail(clause, what \o ": length " \o ToString(Len(x)), ToString(Len(y)))
  ELSE LET j == CHOOSE q \in 1..Len(x) : x[q] # y[q] /\ \A i \in 1..(q - 1) : x[i] = y[i]
       IN Fail(clause, what \o "[" \o ToString(j - 1) \o "] differs", "bitwise")
AsSeq(f, n) == [j \in 1..n |-> f[j]]

\* results of observers: same keys, every entry within 4 ulp of the value-object result
RECURSIVE ResChk(_, _, _, _)
ResChk(e, keys, sc, acc) ==
  IF keys = {} THEN acc
  ELSE LET kk == CHOOSE x \in keys : TRUE
       IN ResChk(e, keys \ {kk}, sc,
                 acc \o (IF kk \in DOMAIN e.vres THEN SameChk("C16.same", e.op \o "." \o kk, e.res[kk], e.vres[kk], sc)
                         ELSE Fail("TOOL.results", kk, "missing in vres")))

CheckStep(e, post) ==
  LET g == e.g  r == RepSize(g)  sc == e.sc
      sub == Sub(e)
      lo == DestLo(e)  len == DestLen(e)
      srcv == IF HasView(e.s) THEN Rd(mem, e.s.p + sub.off, sub.len) ELSE <<>>      \* documented source range, before the call
      dstObj == IF HasView(e.d) THEN Rd(post, e.d.p, r) ELSE <<>>                   \* whole destination object, after the call
  IN FrameChk(e, post)
     \o (CASE e.op \in CopyOps ->
               \* MapMem!SpecVals: the destination holds the source coefficients verbatim - all of them
               BitChk("C16.copy", e.op, Rd(post, lo, len), srcv) \o BitChk("C16.copy", e.op \o ".value", AsSeq(e.ref, Len(e.ref)), srcv)
          [] e.op = "subassign" ->
               (IF e.x = "fresh" THEN BitChk("C16.copy", "subassign.fresh", Rd(post, lo, len), AsSeq(e.fresh, Len(e.fresh)))
                ELSE BitChk("C16.copy", "subassign.part", Rd(post, lo, len), srcv))
               \o SameChk("C16.same", "subassign", dstObj, e.ref, sc)
          [] e.op \in {"mul", "amul", "bmul", "plus", "setid", "subsetid", "submul"} ->
               SameChk("C16.same", e.op, dstObj, e.ref, sc)
          [] e.op = "cast" ->
               (IF Len(e.out) = r /\ \A j \in 1..r : ConvOK(mem[e.s.p + j - 1], e.out[j], e.to) THEN <<>>
                ELSE Fail("C16.cast", "cast<" \o e.to \o "> is not the per-coefficient conversion in order", ""))
               \o BitChk("C16.cast", "cast.value", AsSeq(e.out, Len(e.out)), AsSeq(e.ref, Len(e.ref)))
          [] e.op \in {"const", "const2", "subconst"} ->
               (IF DOMAIN e.res # DOMAIN e.vres \/ DOMAIN e.res = {} THEN Fail("TOOL.results", "result keys differ", "") ELSE <<>>)
               \o ResChk(e, DOMAIN e.res, sc, <<>>)
               \o (IF "coeffs" \in DOMAIN e.res THEN BitChk("C16.copy", e.op \o ".coeffs", AsSeq(e.res.coeffs, Len(e.res.coeffs)), srcv) ELSE <<>>)
          [] OTHER -> <<>>)

\* coverage cell
Key(e) ==
  IF e.op \in {"init", "fin"} THEN e.op \o "|" \o TName(e.g) \o "/" \o e.sc
  ELSE e.op \o "|" \o TName(e.g) \o "/" \o e.sc \o "|" \o e.d.k \o "<" \o e.s.k \o (IF HasView(e.o) THEN "," \o e.o.k ELSE "")
       \o "|" \o (IF HasView(e.d) /\ HasView(e.s) THEN Rel(e.d, e.s, RepSize(e.g))
                  ELSE IF HasView(e.o) /\ HasView(e.s) THEN Rel(e.s, e.o, RepSize(e.g)) ELSE "-")
       \o "|" \o (IF e.op = "partsctor" THEN e.x ELSE e.i)
Stratum(e) == IF e.op \in {"init", "fin"} THEN "-" ELSE (IF HasView(e.d) THEN e.d.v ELSE e.s.v) \o (IF e.op \in SubOps THEN ":" \o e.i ELSE "")

---------------------------------------------------------------------------
Init == l = 1 /\ bad = <<>> /\ cov = <<>> /\ mem = <<>> /\ geo = <<>>

Next ==
  /\ l <= Len(Tr)
  /\ LET e == Tr[l]
         isInit == e.op = "init"
         isFin == e.op = "fin"
         cells == IF isInit \/ isFin THEN [c \in 0..(Len(e.cells) - 1) |-> e.cells[c + 1]] ELSE mem
         dom == IF isInit \/ isFin THEN <<>> ELSE Domain(e)
         post == IF isInit THEN cells ELSE IF isFin \/ Len(dom) > 0 THEN mem ELSE ApplyDiff(mem, e.diff)
         res == IF isInit THEN (IF GeometryOK(e) THEN <<>> ELSE Fail("TOOL.geometry", "init", ""))
                ELSE IF isFin THEN (IF ok /\ cells = mem THEN <<>> ELSE Fail("TOOL.continuity", "memory at the end of the history differs from init + diffs", ""))
                ELSE IF Len(dom) > 0 THEN dom
                ELSE CheckStep(e, post)
         key == Key(e)
     IN /\ bad' = bad \o [i \in 1..Len(res) |-> [line |-> l, op |-> e.op, stratum |-> Stratum(e)] @@ res[i]]
        /\ cov' = IF key \in DOMAIN cov THEN [cov EXCEPT ![key] = @ + 1] ELSE cov @@ (key :> 1)
        /\ mem' = post
        /\ geo' = IF isInit THEN <<[pos |-> e.pos, nb |-> e.nb, n |-> e.n]>> ELSE geo
  /\ l' = l + 1

Spec == Init /\ [][Next]_vars

Report ==
  l = Len(Tr) + 1 =>
    JsonSerialize(OutFile, [lines |-> Len(Tr), consumed |-> l - 1, bad |-> bad,
                            cov |-> [k \in DOMAIN cov |-> cov[k]]])
=============================================================================
