----------------------------- MODULE TraceOptim -----------------------------
(* Trace specification for the "optim" harness family (property C09).            *)
(*                                                                               *)
(* A trace is a sequence of groups of runs of smooth::minimize.  Per run:        *)
(*   begin  options, strategy object (id, kind, fresh / shared, radius before),  *)
(*          declared rounding scale of the residual, residual weight w (units    *)
(*          of f; the minimiser does not depend on it), data fixing the minimiser *)
(*   cb     callback: iterate (all coefficients) and |f(iterate)|, exactly       *)
(*   iter   hook event of optim.hpp after the acceptance decision:               *)
(*          <<iter, r_n, actu_red, pred_red, rho, Delta, lambda, take_step,      *)
(*            accepted, |D dx|, n, status or -1>>                                *)
(*   exit   hook event <<status, iter>> ;  end: returned value, final arguments  *)
(*                                                                               *)
(* Every iter event must be the design model's Iterate action (Minimize.tla)     *)
(* with the logged fields bound: StratStep on the logged rho (C++ comparison      *)
(* semantics for NaN / infinities) gives take_step and the next radius, Accept    *)
(* the acceptance decision, FtolTest / the Ptol test the status, LoopContinues    *)
(* the loop.  Strategy state is kept per strategy object; minimize resets it on   *)
(* entry (StratReset), so the radius logged by the FIRST iteration of every run   *)
(* must be the initial radius of the kind - also on an object that a previous run *)
(* left with a collapsed radius (the harness keeps re-using such objects; the     *)
(* radius it reads before the run is only counted: "reset|arrived-dirty").        *)
(* Clauses (DESIGN.md App. C):                                                    *)
(*   C09.monotone   callback costs non-increasing up to 64 ulp of max(cost,       *)
(*                  fscale); acceptance rule; rho and actu_red as defined         *)
(*   C09.final      callbacks = 1 + accepted; iterate tracking; final arguments   *)
(*                  bitwise equal to the last callback iterate                    *)
(*   C09.bound      iteration numbering, iter <= max_iter, no iteration after a   *)
(*                  convergence test fired                                        *)
(*   C09.status     status selection per iteration; exit / returned status;       *)
(*                  MaxIters iff no test fired, and then iter = max_iter          *)
(*   C09.strategy   radius = the model's radius (1e-12 relative), take_step,      *)
(*                  reset on entry (first radius of a run, radius after a run)    *)
(*   C09.minimiser  Ftol/Ptol result within 1e-3 of the known minimiser           *)
(* The environment assumption A2 of the model (actu_red reflects the cost          *)
(* comparison) is judged on every accepted step (actu_red-definition); A3 is      *)
(* COUNTED (cells "A3|holds", "A3|violated"): its failure is not a violation of   *)
(* the property by itself - C09.monotone decides.  Steps accepted through         *)
(* pred_red <= 0 are counted as null / real steps (information only).             *)
(* TOOL.* clauses are harness / trace-format errors, never verdicts.              *)
EXTENDS MinimizeOps, Json, IOUtils, FiniteSets

TraceFile == IOEnv.TRACE
OutFile == IOEnv.VERDICT
Tr == ndJsonDeserialize(TraceFile)

VARIABLE st
vars == <<st>>

---------------------------------------------------------------------------
\* logged numbers
FinQ(q) == q[4] < 100000
X(q) == IF q[4] = 100002 THEN XNaN
        ELSE IF q[4] = 100001 THEN (IF q[1] > 0 THEN XPInf ELSE XNInf)
        ELSE XFin(RFromDouble(q))
IsFin(x) == x.k = "fin"
XStr(x) == IF IsFin(x) THEN RToStr(x.v) ELSE x.k
QInt(q) == RFloorInt(RFromDouble(q))

Fail(clause, stm, err, tol) == <<[clause |-> clause, stratum |-> stm, err |-> err, tol |-> tol]>>
Chk(ok, clause, stm, err, tol) == IF ok THEN <<>> ELSE Fail(clause, stm, err, tol)
Tool(what, detail) == <<[clause |-> "TOOL." \o what, stratum |-> "-", err |-> detail, tol |-> ""]>>

Eps == RPow2(-52)
Ulps64 == RMul(RFromInt(64), Eps)
TinyAbs == RPow2(-1074)

\* |a - b| <= rel * max(|a|, |b|, floor)
CloseR(a, b, rel, floor) == RLeq(RAbs(RSub(a, b)), RMul(rel, RMax(RMax(RAbs(a), RAbs(b)), floor)))
\* extended reals: same class, finite ones close
CloseX(a, b, rel, floor) == IF IsFin(a) /\ IsFin(b) THEN CloseR(a.v, b.v, rel, floor) ELSE a.k = b.k

\* IEEE quotient a / b of two extended reals, as an extended real ("any" when the exact quotient is finite:
\* its value is compared separately)
QuotClass(a, b) ==
  IF a.k = "nan" \/ b.k = "nan" THEN "nan"
  ELSE IF ~IsFin(a) /\ ~IsFin(b) THEN "nan"
  ELSE IF ~IsFin(a) THEN (IF (a.k = "pinf") = (RSign(b.v) >= 0) THEN "pinf" ELSE "ninf")   \* sign of zero ignored
  ELSE IF ~IsFin(b) THEN "zero"
  ELSE IF RSign(b.v) = 0 THEN (IF RSign(a.v) = 0 THEN "nan" ELSE "inf")
  ELSE "fin"
\* logged rho is fl(actu / pred)
RhoOk(rho, actu, pred) ==
  LET c == QuotClass(actu, pred)
  IN CASE c = "nan" -> rho.k = "nan"
       [] c = "pinf" -> rho.k \in {"pinf", "ninf"}      \* the sign depends on the sign of a zero / is checked by class
       [] c = "ninf" -> rho.k \in {"pinf", "ninf"}
       [] c = "inf" -> rho.k \in {"pinf", "ninf"}
       [] c = "zero" -> IsFin(rho) /\ RSign(rho.v) = 0
       [] c = "fin" ->
            LET q == RDiv(actu.v, pred.v)
            IN \/ IsFin(rho) /\ RLeq(RAbs(RSub(rho.v, q)), RAdd(RMul(RPow2(-50), RAbs(q)), TinyAbs))
               \/ ~IsFin(rho) /\ RLeq(RPow2(1023), RAbs(q))      \* overflow of the quotient

---------------------------------------------------------------------------
\* strategy objects: sid -> [kind, delta (extended real), reduce (rational)]
InitStrat(kind) == LET s == StratInit(kind) IN [kind |-> s.kind, delta |-> XFin(s.delta), reduce |-> s.reduce]

\* step_and_update on the LOGGED radius (so that one deviation is reported once and does not propagate)
StepStrat(s, Dl, rho) ==
  IF IsFin(Dl)
  THEN LET u == StratStep([kind |-> s.kind, delta |-> Dl.v, reduce |-> s.reduce], rho)
       IN [take |-> u.take, s |-> [kind |-> s.kind, delta |-> XFin(u.s.delta), reduce |-> u.s.reduce]]
  ELSE \* a non-finite radius stays what it is (inf / x = inf), except Disney's reset
       LET u == StratStep([kind |-> s.kind, delta |-> R1, reduce |-> s.reduce], rho)
       IN [take |-> u.take,
           s |-> [kind |-> s.kind, delta |-> IF s.kind = "disney" /\ u.take THEN XFin(u.s.delta) ELSE Dl,
                  reduce |-> u.s.reduce]]

\* radius comparison: 1e-12 relative, one denormal of absolute slack, overflow to infinity
DeltaOk(want, got) ==
  IF IsFin(want) /\ IsFin(got)
  THEN RLeq(RAbs(RSub(got.v, want.v)), RAdd(RMul(Dec(1, -12), RAbs(want.v)), TinyAbs))
  ELSE IF IsFin(want) THEN got.k = "pinf" /\ RLeq(RPow2(1023), want.v)
  ELSE want.k = got.k

---------------------------------------------------------------------------
NoRun == [active |-> FALSE]

\* C09.monotone: new <= old + 64 ulp * max(old, fscale)
MonoOk(old, new, fscale) ==
  IF IsFin(old) /\ IsFin(new) THEN RLeq(new.v, RAdd(old.v, RMul(Ulps64, RMax(old.v, fscale))))
  ELSE old.k = new.k

\* (new - old) / max(old, fscale), for the report
RelIncrease(old, new, fscale) ==
  IF IsFin(old) /\ IsFin(new) THEN RToStr(RDiv(RSub(new.v, old.v), RMax(old.v, fscale))) ELSE XStr(new)

\* iterates (sequences of quads): equal bitwise / equal up to 64 ulp of the largest coefficient ("null step")
RECURSIVE MaxAbsQ(_, _)
MaxAbsQ(xs, i) == IF i > Len(xs) THEN R1 ELSE RMax(IF FinQ(xs[i]) THEN RAbs(RFromDouble(xs[i])) ELSE R0, MaxAbsQ(xs, i + 1))
RECURSIVE MaxDiffQ(_, _, _)
MaxDiffQ(xs, ys, i) ==
  IF i > Len(xs) THEN R0
  ELSE RMax(IF FinQ(xs[i]) /\ FinQ(ys[i]) THEN RAbs(RSub(RFromDouble(xs[i]), RFromDouble(ys[i])))
            ELSE IF xs[i] = ys[i] THEN R0 ELSE R1, MaxDiffQ(xs, ys, i + 1))
NearlySame(xs, ys, rel) == Len(xs) = Len(ys) /\ RLeq(MaxDiffQ(xs, ys, 1), RMul(rel, MaxAbsQ(ys, 1)))

\* starting-point stratum of a vector iterate: all coordinates exactly (+-)0, exactly one, or none / several
ZeroQ(q) == FinQ(q) /\ q[2] = 0 /\ q[3] = 0
NZeros(xs) == Cardinality({i \in 1..Len(xs) : ZeroQ(xs[i])})
StartStratum(xs) == IF NZeros(xs) = Len(xs) THEN "origin" ELSE IF NZeros(xs) = 1 THEN "onezero" ELSE "generic"

---------------------------------------------------------------------------
\* begin
HBegin(s, e) ==
  LET kindOk == e.strat \in {"ceres", "disney"}
      fresh == e.fresh = 1
      have == e.sid \in DOMAIN s.strats
      \* what the object holds when minimize is entered (the harness read its radius: delta0)
      arrived == IF fresh \/ ~have THEN InitStrat(e.strat) ELSE s.strats[e.sid]
      \* opts.strat->reset() at the top of minimize
      s0 == IF IsFin(arrived.delta)
            THEN LET t == StratReset([kind |-> arrived.kind, delta |-> arrived.delta.v, reduce |-> arrived.reduce])
                 IN [kind |-> t.kind, delta |-> XFin(t.delta), reduce |-> t.reduce]
            ELSE InitStrat(e.strat)
      d0 == X(e.delta0)
      dirty == ~DeltaOk(InitStrat(e.strat).delta, d0)
      bad == (IF s.run.active THEN Tool("begin", "previous run not ended") ELSE <<>>)
             \o (IF ~kindOk THEN Tool("begin", "strategy kind") ELSE <<>>)
             \o (IF ~fresh /\ ~have THEN Tool("begin", "shared strategy never seen") ELSE <<>>)
             \o (IF ~fresh /\ have /\ arrived.kind /= e.strat THEN Tool("begin", "kind of shared strategy changed") ELSE <<>>)
             \o (IF fresh THEN Chk(~dirty, "C09.strategy", "initial-radius", XStr(d0), XStr(s0.delta)) ELSE <<>>)
      run == [active |-> TRUE, id |-> e.run, b |-> e, maxIter |-> e.max_iter,
              ftol |-> RFromDouble(e.ftol), ptol |-> RFromDouble(e.ptol), fscale |-> RFromDouble(e.fscale),
              sid |-> e.sid, nit |-> 0, fired |-> -1, ncb |-> 0, nacc |-> 0,
              lastX |-> <<>>, lastCost |-> XNaN, pend |-> <<>>, exited |-> FALSE, xstatus |-> -1, xiter |-> -1]
  IN [bad |-> bad,
      cov |-> <<"strategy|" \o e.strat \o (IF fresh THEN "|fresh" ELSE "|shared"), "mode|" \o e.mode, "shape|" \o e.shape,
                "fam|" \o e.fam, "max_iter|" \o ToString(e.max_iter), "ftol|" \o RToStr(RFromDouble(e.ftol)),
                "ptol|" \o RToStr(RFromDouble(e.ptol)), "w|" \o RToStr(RFromDouble(e.w))>>
              \o (IF e.start \in {"origin", "onezero"}
                  THEN <<"start|" \o e.start \o "|" \o e.mode \o "|numdiff=" \o ToString(e.numdiff) \o
                         (IF e.shape = "sparse" THEN "|sparse" ELSE "|dense")>>
                  ELSE <<"start|" \o e.start>>)
              \o (IF ~fresh THEN <<IF dirty THEN "reset|arrived-dirty|" \o e.strat ELSE "reset|arrived-initial|" \o e.strat>> ELSE <<>>),
      strats |-> (e.sid :> s0) @@ s.strats, run |-> run]

\* callback
HCb(s, e) ==
  LET r == s.run
      c == X(e.cost)
  IN IF ~r.active \/ r.id /= e.run THEN [bad |-> Tool("cb", "no such run"), cov |-> <<>>, strats |-> s.strats, run |-> r]
     ELSE IF r.ncb = 0
     THEN [bad |-> (IF r.nit > 0 THEN Fail("C09.final", "initial-callback-missing", "0", "1") ELSE <<>>)
                   \* the declared starting-point stratum is re-derived from the initial iterate (linear families: every
                   \* coefficient is a vector coordinate)
                   \o (IF r.b.known = "lin" /\ r.b.start \in {"origin", "onezero", "generic"} /\ StartStratum(e.x) /= r.b.start
                       THEN Tool("start", "declared " \o r.b.start \o ", initial iterate is " \o StartStratum(e.x)) ELSE <<>>),
           cov |-> <<"cb|initial">>, strats |-> s.strats,
           run |-> [r EXCEPT !.ncb = 1, !.lastX = e.x, !.lastCost = c]]
     ELSE [bad |-> IF r.pend /= <<>> THEN Fail("C09.final", "two-callbacks-in-one-iteration", "2", "1") ELSE <<>>,
           cov |-> <<"cb|step">>, strats |-> s.strats,
           run |-> [r EXCEPT !.pend = <<[x |-> e.x, cost |-> c]>>]]

\* hook event of one loop iteration
HIter(s, e) ==
  LET r == s.run
      v == e.v
      it == QInt(v[1])
      rn == X(v[2])  actu == X(v[3])  pred == X(v[4])  rho == X(v[5])  Dl == X(v[6])
      take == QInt(v[8]) = 1  acc == QInt(v[9]) = 1
      ddx == X(v[10])  n == QInt(v[11])  stat == QInt(v[12])
      so == s.strats[r.sid]
      upd == StepStrat(so, Dl, rho)
      rnZero == IsFin(rn) /\ RSign(rn.v) = 0
      predLe0 == XLe(pred, R0)
      actuGe0 == XGe(actu, R0)
      wantAcc == Accept(rnZero, actuGe0, predLe0, take)
      reason == IF rnZero THEN "accepted:r_n=0"
                ELSE IF ~actuGe0 THEN "accepted:actu_red<0"
                ELSE IF take THEN "accepted:take_step"
                ELSE IF predLe0 THEN "accepted:pred_red<=0" ELSE "accepted:no-reason"
      whyNot == IF wantAcc THEN "-" ELSE IF ~actuGe0 /\ (predLe0 \/ take) THEN "rejected:actu_red<0" ELSE "rejected:strategy"
      hasPend == r.pend /= <<>>
      newCost == IF hasPend THEN r.pend[1].cost ELSE XNaN
      \* status selection as the two tests prescribe
      ftest == FtolTest(actu, pred, rho, r.ftol)
      plim == RMul(r.ptol, RFromInt(n))
      ptie == IsFin(ddx) /\ RLeq(RAbs(RSub(ddx.v, plim)), RMul(RPow2(-50), plim))
      ptest == XLt(ddx, plim)
      wantStat == IF ~acc THEN "none" ELSE StatusOf(acc, ftest, ptest)
      wantStatAlt == IF ~acc THEN "none" ELSE StatusOf(acc, ftest, ~ptest)
      code(sx) == IF sx = "Ftol" THEN 0 ELSE IF sx = "Ptol" THEN 1 ELSE -1
      statOk == stat = code(wantStat) \/ (ptie /\ stat = code(wantStatAlt))
      \* actu_red = 1 - (|f(xp)| / r_n)^2 on accepted steps (the callback observed |f(xp)|)
      actuOk ==
        IF ~(acc /\ hasPend /\ IsFin(newCost) /\ IsFin(rn) /\ ~rnZero /\ IsFin(actu)) THEN TRUE
        ELSE LET q == RDiv(newCost.v, rn.v)  q2 == RMul(q, q)
             IN RLeq(RAbs(RSub(actu.v, RSub(R1, q2))), RMul(RPow2(-45), RMax(R1, q2)))
      bad ==
        Chk(it = r.nit, "C09.bound", "iteration-numbering", ToString(it), ToString(r.nit))
        \o Chk(LoopContinues(r.nit, r.maxIter, IF r.fired = -1 THEN "none" ELSE "fired"), "C09.bound",
               IF r.fired = -1 THEN "iteration-beyond-max_iter" ELSE "iteration-after-convergence",
               ToString(r.nit), ToString(r.maxIter))
        \o Chk(DeltaOk(so.delta, Dl), "C09.strategy", (IF r.nit = 0 THEN "radius-at-entry|" ELSE "radius|") \o so.kind, XStr(Dl), XStr(so.delta))
        \o Chk(take = upd.take, "C09.strategy", "take_step|" \o so.kind, XStr(rho), IF upd.take THEN "take" ELSE "reject")
        \o Chk(RhoOk(rho, actu, pred), "C09.monotone", "rho-definition", XStr(rho), XStr(actu) \o "/" \o XStr(pred))
        \o Chk(acc = wantAcc, "C09.monotone", "acceptance-rule", IF acc THEN "accepted" ELSE "rejected", reason)
        \o Chk(acc = hasPend, "C09.final", IF acc THEN "callback-missing" ELSE "callback-without-acceptance", "", "")
        \o Chk(CloseX(rn, r.lastCost, Dec(1, -9), r.fscale), "C09.final", "iterate-tracking", XStr(rn), XStr(r.lastCost))
        \o Chk(actuOk, "C09.monotone", "actu_red-definition", XStr(actu), XStr(newCost))
        \o (IF acc /\ hasPend
            THEN Chk(MonoOk(r.lastCost, newCost, r.fscale), "C09.monotone", reason, RelIncrease(r.lastCost, newCost, r.fscale), RToStr(Ulps64))
            ELSE <<>>)
        \o Chk(statOk, "C09.status", "selection", ToString(stat), wantStat)
        \o Chk(n > 0, "TOOL.iter", "n", ToString(n), "")
      a1 == IF acc /\ hasPend /\ ~rnZero /\ ~take /\ predLe0
            THEN <<IF NearlySame(r.pend[1].x, r.lastX, Ulps64) THEN "pred_red<=0-step|null" ELSE "pred_red<=0-step|real">> ELSE <<>>
      a3 == IF rnZero THEN <<IF IsFin(ddx) /\ RSign(ddx.v) = 0 THEN "A3|holds" ELSE "A3|violated">> ELSE <<>>
      cov == <<"iter|" \o so.kind \o "|" \o (IF acc THEN reason ELSE whyNot),
               "rho|" \o (IF rho.k /= "fin" THEN rho.k ELSE IF RSign(rho.v) <= 0 THEN "<=0"
                          ELSE IF RLeq(rho.v, C1em3) THEN "(0,1e-3]" ELSE ">1e-3"),
               "pred_red|" \o (IF pred.k /= "fin" THEN pred.k ELSE IF RSign(pred.v) < 0 THEN "<0"
                               ELSE IF RSign(pred.v) = 0 THEN "=0" ELSE ">0"),
               "status|iter|" \o ToString(stat)>>
             \o a1 \o a3 \o (IF ptie THEN <<"ptol|tie">> ELSE <<>>)
             \o (IF ~IsFin(Dl) \/ RSign(Dl.v) = 0 THEN <<"radius|degenerate">> ELSE <<>>)
  IN IF ~r.active \/ r.id /= e.run \/ Len(v) /= 12 \/ ~FinQ(v[1]) \/ ~FinQ(v[8]) \/ ~FinQ(v[9]) \/ ~FinQ(v[11]) \/ ~FinQ(v[12])
     THEN [bad |-> Tool("iter", "malformed or unexpected"), cov |-> <<>>, strats |-> s.strats, run |-> r]
     ELSE [bad |-> bad, cov |-> cov,
           strats |-> [s.strats EXCEPT ![r.sid] = upd.s],
           run |-> [r EXCEPT !.nit = @ + 1, !.fired = IF r.fired = -1 THEN stat ELSE @,
                             !.nacc = IF acc THEN @ + 1 ELSE @,
                             !.ncb = IF hasPend THEN @ + 1 ELSE @,
                             !.lastX = IF hasPend THEN r.pend[1].x ELSE @,
                             !.lastCost = IF hasPend THEN newCost ELSE @,
                             !.pend = <<>>]]

\* hook event at return
HExit(s, e) ==
  LET r == s.run
      xs == QInt(e.v[1])  xi == QInt(e.v[2])
      want == IF r.fired = -1 THEN 2 ELSE r.fired
      bad == Chk(xi = r.nit, "C09.bound", "exit-iter", ToString(xi), ToString(r.nit))
             \o Chk(xi <= r.maxIter, "C09.bound", "iter>max_iter", ToString(xi), ToString(r.maxIter))
             \o Chk(xs = want, "C09.status", "exit-status", ToString(xs), ToString(want))
             \o Chk((xs = 2) = (r.fired = -1), "C09.status", "MaxIters-iff-no-test-fired", ToString(xs), ToString(r.fired))
             \o Chk(xs /= 2 \/ xi = r.maxIter, "C09.status", "MaxIters-before-max_iter", ToString(xi), ToString(r.maxIter))
             \o Chk(r.pend = <<>>, "C09.final", "callback-without-iteration", "", "")
  IN IF ~r.active \/ r.id /= e.run \/ Len(e.v) /= 2 THEN [bad |-> Tool("exit", "unexpected"), cov |-> <<>>, strats |-> s.strats, run |-> r]
     ELSE [bad |-> bad, cov |-> <<"exit|" \o ToString(xs) \o (IF xi = r.maxIter THEN "|at-max_iter" ELSE "|before")>>,
           strats |-> s.strats, run |-> [r EXCEPT !.exited = TRUE, !.xstatus = xs, !.xiter = xi]]

\* C09.minimiser
MinimiserChk(r, e) ==
  LET b == r.b
      tol == Dec(1, -3)
  IN IF b.known = "lin"
     THEN LET A == RMatFromDoubles(b.A)  bb == RVecFromDoubles(b.b)
              At == MT(A)
              rhs == RForce([i \in 1..Len(At) |-> <<RDot(At[i], bb)>>])
              xs == RMatSolve(MMul(At, A), rhs)            \* exact rational normal equations
              x == RVecFromDoubles(e.x)
              err == VMaxAbs(RForce([i \in 1..Len(x) |-> RSub(x[i], xs[i][1])]))
          IN Chk(RLeq(err, tol), "C09.minimiser", b.shape \o "|" \o b.mode \o "|linear", RToStr(err), RToStr(tol))
     ELSE IF b.known = "grp"
     THEN LET g == b.g
              Xm == GMat(g, RVecFromDoubles(e.x))
              Tm == GMat(g, RVecFromDoubles(b.xt))
              err == MaxAbsDiff(Xm, Tm)
              t2 == RAdd(tol, RFromDouble(b.slack))
          IN Chk(RLeq(err, t2), "C09.minimiser", b.shape \o "|" \o b.mode \o "|alignment", RToStr(err), RToStr(t2))
     ELSE <<>>

\* returned value and final arguments
HEnd(s, e) ==
  LET r == s.run
      so == s.strats[r.sid]
      same == e.x = r.lastX
      drift == IF same THEN "-" ELSE IF NearlySame(e.x, r.lastX, Dec(1, -13)) THEN "last-ulps" ELSE "gross"
      conv == e.status \in {0, 1}
      allFin == \A i \in 1..Len(e.x) : FinQ(e.x[i])
      bad == (IF ~r.exited THEN Tool("end", "no exit event (hook missing?)") ELSE <<>>)
             \o Chk(e.status = r.xstatus /\ e.iter = r.xiter, "C09.status", "returned-value",
                    ToString(e.status) \o "," \o ToString(e.iter), ToString(r.xstatus) \o "," \o ToString(r.xiter))
             \o Chk(r.ncb = 1 + r.nacc, "C09.final", "callback-count", ToString(r.ncb), ToString(1 + r.nacc))
             \o (IF e.ncb /= r.ncb THEN Tool("end", "callback events lost") ELSE <<>>)
             \o Chk(same, "C09.final", "final-arguments|" \o drift, "", "")
             \o Chk(DeltaOk(so.delta, X(e.delta1)), "C09.strategy", "radius-after-run|" \o so.kind, XStr(X(e.delta1)), XStr(so.delta))
             \o (IF conv /\ allFin /\ r.b.known /= "none" THEN MinimiserChk(r, e) ELSE <<>>)
      cov == <<"end|status|" \o ToString(e.status)>>
             \o (IF conv /\ r.b.known /= "none"
                 THEN <<"minimiser|" \o r.b.known \o "|" \o r.b.shape \o "|" \o r.b.mode,
                        \* residual weight x kind of Jacobian the solver saw (sparse only through a jacobian member)
                        "minimiser-w|" \o RToStr(RFromDouble(r.b.w)) \o
                          (IF r.b.shape = "sparse" /\ r.b.numdiff = 0 THEN "|sparseJ" ELSE "|denseJ"),
                        "minimiser-start|" \o r.b.start \o "|numdiff=" \o ToString(r.b.numdiff)>>
                 ELSE <<>>)
             \o (IF r.nit = 0 THEN <<"run|no-iterations">> ELSE <<>>)
             \o (IF r.nacc < r.nit THEN <<"run|with-rejections">> ELSE <<>>)
  IN IF ~r.active \/ r.id /= e.run THEN [bad |-> Tool("end", "no such run"), cov |-> <<>>, strats |-> s.strats, run |-> r]
     ELSE [bad |-> bad, cov |-> cov, strats |-> s.strats, run |-> NoRun]

HGroup(s, e) ==
  [bad |-> IF s.run.active THEN Tool("group", "run not ended") ELSE <<>>, cov |-> <<>>, strats |-> <<>>, run |-> NoRun]

Handle(s, e) ==
  CASE e.op = "group" -> HGroup(s, e)
    [] e.op = "begin" -> HBegin(s, e)
    [] e.op = "cb" -> HCb(s, e)
    [] e.op = "iter" -> HIter(s, e)
    [] e.op = "exit" -> HExit(s, e)
    [] e.op = "end" -> HEnd(s, e)
    [] OTHER -> [bad |-> Tool("unknown_op", e.op), cov |-> <<>>, strats |-> s.strats, run |-> s.run]

RECURSIVE AddCov(_, _, _)
AddCov(cov, keys, i) ==
  IF i > Len(keys) THEN cov
  ELSE LET k == keys[i]
       IN AddCov(IF k \in DOMAIN cov THEN [cov EXCEPT ![k] = @ + 1] ELSE cov @@ (k :> 1), keys, i + 1)

Init == st = [l |-> 1, bad |-> <<>>, cov |-> <<>>, strats |-> <<>>, run |-> NoRun]

\* the whole step inside ONE operator (TLC caches LET definitions inside an expression, not in an action)
StepAll(s, e) ==
  LET h == Handle(s, e)
      runid == IF "run" \in DOMAIN e THEN e.run ELSE -1
  IN [l |-> s.l + 1,
      bad |-> s.bad \o [i \in 1..Len(h.bad) |-> [line |-> s.l, op |-> e.op, run |-> runid] @@ h.bad[i]],
      cov |-> AddCov(s.cov, h.cov, 1),
      strats |-> h.strats, run |-> h.run]

Next == st.l <= Len(Tr) /\ st' = StepAll(st, Tr[st.l])

Report ==
  st.l = Len(Tr) + 1 =>
    JsonSerialize(OutFile, [lines |-> Len(Tr), consumed |-> st.l - 1,
                            bad |-> st.bad \o (IF st.run.active THEN <<[line |-> Len(Tr), op |-> "eof", run |-> -1, clause |-> "TOOL.eof",
                                                                     stratum |-> "-", err |-> "run not ended", tol |-> ""]>> ELSE <<>>),
                            cov |-> [k \in DOMAIN st.cov |-> st.cov[k]]])
=============================================================================
