------------------------------ MODULE TracePoly ------------------------------
(* Trace specification for the "poly" harness family (property C20).          *)
(* Every line of the trace is one call of the real library with all operands  *)
(* and results logged exactly; the action for that line evaluates the         *)
(* MATHEMATICAL DEFINITION over exact rationals and compares:                 *)
(*   basis      Bernstein C(K,v) x^v (1-x)^(K-v); uniform B-spline segment     *)
(*              basis by the Cox-de Boor recursion; Legendre / Chebyshev 1st,  *)
(*              2nd / Hermite / Laguerre by their three-term recurrences and   *)
(*              normalisations (the closed-form sums are checked against the   *)
(*              recurrences in SelfCheck); cumulative = suffix sums;           *)
(*              non-negativity / partition of unity / end points by exact      *)
(*              evaluation of the library's coefficients at 33 rational points *)
(*   lagrange   prod_{j#i} (t - t_j)/(t_i - t_j) and p_i(t_j) = delta_ij       *)
(*   monoderiv  d^p/du^p u^k by repeated differentiation of the monomial       *)
(*   monoint    int_0^1 (d^P u^i)(d^P u^j) du by polynomial algebra            *)
(*   lgr        sum_i w_i x_i^p = int_{-1}^{1} x^p for p <= 2K-2, first node   *)
(*              -1, nodes strictly increasing in [-1, 1)                       *)
(*   absint     int |A t^2 + B t + C| by exact sign analysis (discriminant,    *)
(*              rational enclosures of the roots with a stated error bound)    *)
(*   search     the four documented cases of binary_interval_search            *)
(*              (module BSearchCases, shared with the design model BSearch);   *)
(*              for the exhaustive enumeration the spec also certifies that    *)
(*              the trace lists every sorted range exactly once (ex).          *)
(* A bad step does not stop validation.  Clauses: C20.* (DESIGN.md App. C).    *)
EXTENDS Tol, Json, IOUtils, TLC, FiniteSets, BSearchCases

TraceFile == IOEnv.TRACE
OutFile == IOEnv.VERDICT
Tr == ndJsonDeserialize(TraceFile)

VARIABLES l, bad, cov, ex
vars == <<l, bad, cov, ex>>

TolP == Dec(1, -9)          \* the property's 1e-9

FinQ(q) == q[4] < 100000
FinV(v) == \A i \in 1..Len(v) : FinQ(v[i])
FinM(m) == \A i \in 1..Len(m) : FinV(m[i])
QV(v) == RVecFromDoubles(v)
QM(m) == RMatFromDoubles(m)

Fail(clause, err, tol) == <<[clause |-> clause, err |-> RToStr(err), tol |-> RToStr(tol)]>>
Chk(clause, ok, err, tol) == IF ok THEN <<>> ELSE Fail(clause, err, tol)
FailS(clause, err, tol) == <<[clause |-> clause, err |-> err, tol |-> tol]>>
NonFinite(clause) == FailS(clause, "non-finite", "finite")
Tool(what, detail) == FailS("TOOL." \o what, detail, "")

IMax(a, b) == IF a >= b THEN a ELSE b
IMin(a, b) == IF a <= b THEN a ELSE b

---------------------------------------------------------------------------
(* Polynomials: sequences of rationals, p[i] is the coefficient of x^(i-1);  *)
(* <<>> is the zero polynomial.                                              *)
PC(p, i) == IF i >= 1 /\ i <= Len(p) THEN p[i] ELSE R0
PMk(n, F(_)) == IF n <= 0 THEN <<>> ELSE RForce([i \in 1..n |-> F(i)])
PAddP(p, q) == LET E(i) == RAdd(PC(p, i), PC(q, i)) IN PMk(IMax(Len(p), Len(q)), E)
PSubP(p, q) == LET E(i) == RSub(PC(p, i), PC(q, i)) IN PMk(IMax(Len(p), Len(q)), E)
PScaleP(s, p) == LET E(i) == RMul(s, p[i]) IN PMk(Len(p), E)
PShift(p) == IF Len(p) = 0 THEN <<>> ELSE <<R0>> \o p                     \* x * p
PMulP(p, q) ==
  IF Len(p) = 0 \/ Len(q) = 0 THEN <<>>
  ELSE LET E(k) == LET lo == IMax(1, k + 1 - Len(q))
                       hi == IMin(k, Len(p))
                       A(j) == p[lo + j - 1]
                       B(j) == q[k + 2 - lo - j]
                   IN RDot(PMk(hi - lo + 1, A), PMk(hi - lo + 1, B))
       IN PMk(Len(p) + Len(q) - 1, E)
RECURSIVE PPowP(_, _)
PPowP(p, n) == IF n = 0 THEN <<R1>> ELSE PMulP(p, PPowP(p, n - 1))
RECURSIVE PHorner(_, _, _, _)
PHorner(p, x, i, acc) == IF i = 0 THEN acc ELSE PHorner(p, x, i - 1, RAdd(RMul(acc, x), p[i]))
PEvalP(p, x) == PHorner(p, x, Len(p), R0)
PDerivP(p) == LET E(i) == RMul(RFromInt(i), p[i + 1]) IN PMk(Len(p) - 1, E)
RECURSIVE PDerivN(_, _)
PDerivN(p, n) == IF n = 0 THEN p ELSE PDerivN(PDerivP(p), n - 1)
PInt01(p) == IF Len(p) = 0 THEN R0 ELSE LET E(i) == RFrac(1, i) IN RDot(p, PMk(Len(p), E))   \* int_0^1 p
PPad(p, n) == LET E(i) == PC(p, i) IN PMk(n, E)
PMaxAbs(p) == IF Len(p) = 0 THEN R0 ELSE RVecMaxAbs(p)
PMono(k) == LET E(i) == IF i = k + 1 THEN R1 ELSE R0 IN PMk(k + 1, E)        \* x^k
PX == <<R0, R1>>
\* sum_k |c_k| |x|^k  (the size of the terms of a monomial evaluation)
PAbsEval(p, x) == LET E(i) == RAbs(p[i]) IN PEvalP(PMk(Len(p), E), RAbs(x))
PEqP(p, q) == \A i \in 1..IMax(Len(p), Len(q)) : REq(PC(p, i), PC(q, i))

RECURSIVE RSumSeq(_, _)
RSumSeq(s, k) == IF k = 0 THEN R0 ELSE RAdd(s[k], RSumSeq(s, k - 1))
RSum(s) == LET f == RForce(s) IN RSumSeq(f, Len(f))

RECURSIVE Binom(_, _)
Binom(n, k) == IF k < 0 \/ k > n THEN 0 ELSE IF k = 0 \/ k = n THEN 1 ELSE Binom(n - 1, k - 1) + Binom(n - 1, k)
RECURSIVE Fact(_)
Fact(n) == IF n <= 1 THEN 1 ELSE n * Fact(n - 1)

---------------------------------------------------------------------------
(* Definitions of the bases (column v = 0..K is the polynomial b_v)          *)

\* Bernstein: b_{v,K}(x) = C(K,v) x^v (1-x)^(K-v)
BernsteinP(K, v) ==
  PScaleP(RFromInt(Binom(K, v)), PMulP(PPowP(PX, v), PPowP(<<R1, RNeg(R1)>>, K - v)))

\* Cardinal B-spline N_k on the uniform knots 0,1,..,k+1 by the Cox-de Boor recursion
\*   N_0 = 1 on [0,1),   N_k(x) = x/k N_{k-1}(x) + (k+1-x)/k N_{k-1}(x-1),
\* kept as its k+1 polynomial pieces: piece j (index j+1) lives on [j, j+1] in the local variable u = x - j.
CardStep(prev, k) ==      \* the pieces of N_k from the pieces of N_{k-1}
  LET Pc(j) == IF j >= 0 /\ j <= k - 1 THEN prev[j + 1] ELSE <<>>
      E(jj) == LET j == jj - 1
               IN PScaleP(RFrac(1, k),
                          PAddP(PMulP(<<RFromInt(j), R1>>, Pc(j)),
                                PMulP(<<RFromInt(k + 1 - j), RNeg(R1)>>, Pc(j - 1))))
  IN RForce([jj \in 1..(k + 1) |-> E(jj)])
RECURSIVE CardAcc(_, _, _)
CardAcc(K, k, prev) == IF k > K THEN prev ELSE CardAcc(K, k + 1, CardStep(prev, k))
CardPieces(K) == CardAcc(K, 1, << <<R1>> >>)
\* the K+1 splines that are non-zero on one knot span, left to right: b_v(u) = N_K(u + K - v), u in [0,1]
BsplineP(K, v) == CardPieces(K)[K - v + 1]
\* pointwise Cox-de Boor with knots t_i = i (cross-check of the piecewise form, SelfCheck only)
RECURSIVE CoxDeBoor(_, _, _)
CoxDeBoor(i, k, x) ==
  IF k = 0 THEN (IF RLeq(RFromInt(i), x) /\ RLt(x, RFromInt(i + 1)) THEN R1 ELSE R0)
  ELSE RAdd(RMul(RDiv(RSub(x, RFromInt(i)), RFromInt(k)), CoxDeBoor(i, k - 1, x)),
            RMul(RDiv(RSub(RFromInt(i + k + 1), x), RFromInt(k)), CoxDeBoor(i + 1, k - 1, x)))

\* Orthogonal families by three-term recurrence
OrthoFams == {"legendre", "cheb1", "cheb2", "hermite", "laguerre"}
TT0(fam) == <<R1>>
TT1(fam) ==
  CASE fam = "legendre" -> <<R0, R1>>            \* P_1 = x
    [] fam = "cheb1" -> <<R0, R1>>               \* T_1 = x
    [] fam = "cheb2" -> <<R0, R2>>               \* U_1 = 2x
    [] fam = "hermite" -> <<R0, R2>>             \* H_1 = 2x   (physicists')
    [] fam = "laguerre" -> <<R1, RNeg(R1)>>      \* L_1 = 1 - x
\* p_{n+1} from p_n and p_{n-1}, n >= 1
TTStep(fam, n, pn, pm) ==
  CASE fam = "legendre" ->      \* (n+1) P_{n+1} = (2n+1) x P_n - n P_{n-1}
         PSubP(PScaleP(RFrac(2 * n + 1, n + 1), PShift(pn)), PScaleP(RFrac(n, n + 1), pm))
    [] fam \in {"cheb1", "cheb2"} ->   \* T_{n+1} = 2x T_n - T_{n-1}
         PSubP(PScaleP(R2, PShift(pn)), pm)
    [] fam = "hermite" ->       \* H_{n+1} = 2x H_n - 2n H_{n-1}
         PSubP(PScaleP(R2, PShift(pn)), PScaleP(RFromInt(2 * n), pm))
    [] fam = "laguerre" ->      \* (n+1) L_{n+1} = (2n+1-x) L_n - n L_{n-1}
         PScaleP(RFrac(1, n + 1),
                 PSubP(PSubP(PScaleP(RFromInt(2 * n + 1), pn), PShift(pn)), PScaleP(RFromInt(n), pm)))
\* <<p_0, .., p_K>> built front to back (accumulator: no definition is evaluated twice)
RECURSIVE TTAcc(_, _, _)
TTAcc(fam, K, s) ==
  IF Len(s) > K THEN s
  ELSE TTAcc(fam, K, Append(s, TTStep(fam, Len(s) - 1, s[Len(s)], s[Len(s) - 1])))
TTSeq(fam, K) == IF K = 0 THEN <<TT0(fam)>> ELSE TTAcc(fam, K, <<TT0(fam), TT1(fam)>>)
\* normalisation: the value that pins the scale of p_n
NormPoint(fam) == IF fam = "laguerre" THEN R0 ELSE R1
NormValue(fam, n) == IF fam = "cheb2" THEN RFromInt(n + 1) ELSE R1      \* P_n(1)=T_n(1)=1, U_n(1)=n+1, L_n(0)=1
\* (Hermite is normalised by its leading coefficient 2^n instead)
RECURSIVE IPow2(_)
IPow2(n) == IF n = 0 THEN 1 ELSE 2 * IPow2(n - 1)

\* closed forms (used only to cross-check the recurrences in SelfCheck)
RECURSIVE PSumTerms(_, _, _)
PSumTerms(T(_), lo, hi) == IF lo > hi THEN <<>> ELSE PAddP(T(lo), PSumTerms(T, lo + 1, hi))
X2m1 == <<RNeg(R1), R0, R1>>      \* x^2 - 1
Closed(fam, n) ==
  LET h == n \div 2
      Sgn(k) == IF k % 2 = 0 THEN 1 ELSE -1
      TLeg(k) == PScaleP(RMul(RFrac(Sgn(k) * Binom(n, k), 1), RMul(RFromInt(Binom(2 * n - 2 * k, n)), RPow2(-n))), PMono(n - 2 * k))
      TCh1(k) == PScaleP(RFromInt(Binom(n, 2 * k)), PMulP(PPowP(X2m1, k), PMono(n - 2 * k)))
      TCh2(k) == PScaleP(RFromInt(Binom(n + 1, 2 * k + 1)), PMulP(PPowP(X2m1, k), PMono(n - 2 * k)))
      THer(k) == PScaleP(RMul(RFrac(Sgn(k) * Fact(n), Fact(k) * Fact(n - 2 * k)), RFromInt(IPow2(n - 2 * k))), PMono(n - 2 * k))
      TLag(k) == PScaleP(RFrac(Sgn(k) * Binom(n, k), Fact(k)), PMono(k))
  IN CASE fam = "legendre" -> PSumTerms(TLeg, 0, h)
       [] fam = "cheb1" -> PSumTerms(TCh1, 0, h)
       [] fam = "cheb2" -> PSumTerms(TCh2, 0, h)
       [] fam = "hermite" -> PSumTerms(THer, 0, h)
       [] fam = "laguerre" -> PSumTerms(TLag, 0, n)

Bases == {"monomial", "bernstein", "bspline"} \cup OrthoFams
\* <<b_0, .., b_K>>, every polynomial padded to K+1 coefficients
DefCols(basis, K) ==
  LET raw == CASE basis = "monomial" -> [v \in 1..(K + 1) |-> PMono(v - 1)]
               [] basis = "bernstein" -> [v \in 1..(K + 1) |-> BernsteinP(K, v - 1)]
               [] basis = "bspline" -> [v \in 1..(K + 1) |-> BsplineP(K, v - 1)]
               [] OTHER -> TTSeq(basis, K)
  IN RForce([v \in 1..(K + 1) |-> PPad(raw[v], K + 1)])
\* cumulative basis: b~_i = sum_{j >= i} b_j
RECURSIVE SuffixSum(_, _)
SuffixSum(cols, i) == IF i > Len(cols) THEN <<>> ELSE PAddP(cols[i], SuffixSum(cols, i + 1))
CumCols(cols) == RForce([i \in 1..Len(cols) |-> SuffixSum(cols, i)])

\* the specification's own consistency (evaluated once per TLC process)
SelfCheck ==
  /\ \A fam \in OrthoFams : \A n \in 0..10 : PEqP(TTSeq(fam, 10)[n + 1], Closed(fam, n))
  /\ \A fam \in OrthoFams \ {"hermite"} : \A n \in 0..10 : REq(PEvalP(TTSeq(fam, 10)[n + 1], NormPoint(fam)), NormValue(fam, n))
  /\ \A n \in 0..10 : REq(TTSeq("hermite", 10)[n + 1][n + 1], RFromInt(IPow2(n)))
  /\ \A K \in 0..10 : PEqP(SuffixSum(DefCols("bernstein", K), 1), <<R1>>)
  /\ \A K \in 0..10 : PEqP(SuffixSum(DefCols("bspline", K), 1), <<R1>>)
  /\ \A K \in 0..4 : \A v \in 0..K : \A u \in {RFrac(0, 1), RFrac(1, 3), RFrac(7, 8)} :
        REq(PEvalP(BsplineP(K, v), u), CoxDeBoor(0, K, RAdd(u, RFromInt(K - v))))

---------------------------------------------------------------------------
(* comparisons *)
LibCols(M, n) == RForce([v \in 1..n |-> MCol(M, v)])
\* "relative to the largest entry of the column" (of the definition)
ColErr(x, y) == IF RSign(PMaxAbs(y)) = 0 THEN VMaxAbsDiff(x, y) ELSE RDiv(VMaxAbsDiff(x, y), PMaxAbs(y))
ColOk(x, y, tol) == RLeq(VMaxAbsDiff(x, y), RMul(tol, PMaxAbs(y)))
RECURSIVE WorstCol(_, _, _)
WorstCol(X, Y, k) == IF k = 0 THEN R0 ELSE RMax(ColErr(X[k], Y[k]), WorstCol(X, Y, k - 1))
ColsChk(clause, X, Y, tol) ==
  Chk(clause, \A v \in 1..Len(Y) : ColOk(X[v], Y[v], tol), WorstCol(X, Y, Len(Y)), tol)
\* scalar against an exact value: |x - y| <= tol * max(1, |y|)
ScalOk(x, y, tol) == RLeq(RAbs(RSub(x, y)), RMul(tol, RMax(R1, RAbs(y))))
ScalErr(x, y) == RDiv(RAbs(RSub(x, y)), RMax(R1, RAbs(y)))
RECURSIVE RMaxSeq(_, _)
RMaxSeq(s, k) == IF k = 0 THEN R0 ELSE RMax(s[k], RMaxSeq(s, k - 1))
RMaxOf(s) == LET f == RForce(s) IN RMaxSeq(f, Len(f))

\* 33 evaluation points j/32 in [0,1]
Pts01 == RForce([j \in 1..33 |-> RFrac(j - 1, 32)])

---------------------------------------------------------------------------
(* C20.basis.* *)
TBasis(e) ==
  LET K == e.K  n == K + 1  b == e.basis
      L == LibCols(QM(e.M), n)
      D == DefCols(b, K)
  IN
  IF e.cum = 0 THEN
    ColsChk("C20.basis.def", L, D, TolP)
    \o (IF b \in {"bernstein", "bspline"} THEN
          LET vals == RForce([j \in 1..33 |-> [v \in 1..n |-> PEvalP(L[v], Pts01[j])]])
              mins == RForce([j \in 1..33 |-> RMaxOf([v \in 1..n |-> RNeg(vals[j][v])])])     \* max of -b_v(u)
              sums == RForce([j \in 1..33 |-> RAbs(RSub(RSum(vals[j]), R1))])
          IN Chk("C20.basis.nonneg", RLeq(RMaxOf(mins), TolP), RMaxOf(mins), TolP)
             \o Chk("C20.basis.unity", RLeq(RMaxOf(sums), TolP), RMaxOf(sums), TolP)
        ELSE <<>>)
    \o (IF b \in OrthoFams THEN
          LET \* the library's own columns satisfy the recurrence and the starting values
              rec == RForce([v \in 1..n |->
                        IF v = 1 THEN PPad(TT0(b), n)
                        ELSE IF v = 2 THEN PPad(TT1(b), n)
                        ELSE PPad(TTStep(b, v - 2, L[v - 1], L[v - 2]), n)])
              nv == RForce([v \in 1..n |->
                        ScalErr(PEvalP(L[v], NormPoint(b)), NormValue(b, v - 1))])
              lead == RForce([v \in 1..n |-> ScalErr(L[v][v], RFromInt(IPow2(v - 1)))])
          IN ColsChk("C20.basis.recurrence", L, rec, TolP)
             \o (IF b = "hermite"         \* physicists' Hermite: leading coefficient 2^n
                 THEN Chk("C20.basis.norm", RLeq(RMaxOf(lead), TolP), RMaxOf(lead), TolP)
                 ELSE Chk("C20.basis.norm", RLeq(RMaxOf(nv), TolP), RMaxOf(nv), TolP))
        ELSE <<>>)
  ELSE
    LET C == CumCols(D)
        one == PPad(<<R1>>, n)
        \* columns 1..K of the cumulative Bernstein basis: 0 at u = 0, 1 at u = 1
        at0 == [i \in 1..(n - 1) |-> RAbs(PEvalP(L[i + 1], R0))]
        at1 == [i \in 1..(n - 1) |-> RAbs(RSub(PEvalP(L[i + 1], R1), R1))]
        ends == IF n = 1 THEN R0 ELSE RMax(RMaxOf(at0), RMaxOf(at1))
    IN ColsChk("C20.basis.cum.def", L, C, TolP)
       \o Chk("C20.basis.cum.first", ColOk(L[1], one, TolP), ColErr(L[1], one), TolP)
       \o (IF b = "bernstein" THEN Chk("C20.basis.cum.ends", RLeq(ends, TolP), ends, TolP) ELSE <<>>)

(* C20.basis.lagrange *)
RECURSIVE LagProd(_, _, _)
LagProd(ts, i, j) ==       \* prod over the nodes j..Len(ts), j # i, of (x - t_j) / (t_i - t_j)
  IF j > Len(ts) THEN <<R1>>
  ELSE IF j = i THEN LagProd(ts, i, j + 1)
  ELSE PMulP(PScaleP(RDiv(R1, RSub(ts[i], ts[j])), <<RNeg(ts[j]), R1>>), LagProd(ts, i, j + 1))
LagDomain(ts) ==
  /\ \A i \in 1..Len(ts) : RLeq(RAbs(ts[i]), RFromInt(8))
  /\ \A i \in 1..Len(ts) : \A j \in 1..Len(ts) : i < j => RLeq(RFrac(1, 64), RAbs(RSub(ts[i], ts[j])))
TLagrange(e) ==
  LET K == e.K  n == K + 1  ts == QV(e.ts)
      L == LibCols(QM(e.M), n)
      D == RForce([i \in 1..n |-> PPad(LagProd(ts, i, 1), n)])
      \* p_i(t_j) against delta_ij, relative to the size of the terms of the evaluation
      derr == RForce([i \in 1..n |-> RMaxOf([j \in 1..n |->
                 RDiv(RAbs(RSub(PEvalP(L[i], ts[j]), IF i = j THEN R1 ELSE R0)),
                      RMax(R1, PAbsEval(L[i], ts[j])))])])
  IN IF Len(ts) # n THEN Tool("domain", "lagrange: node count")
     ELSE IF ~LagDomain(ts) THEN Tool("domain", "lagrange: nodes")
     ELSE ColsChk("C20.basis.lagrange.def", L, D, TolP)
          \o Chk("C20.basis.lagrange.delta", RLeq(RMaxOf(derr), TolP), RMaxOf(derr), TolP)

(* C20.mono *)
\* d^p/du^p u^k evaluated at u
DMono(k, p, u) == PEvalP(PDerivN(PMono(k), p), u)
DMonoRow(K, p, u) == RForce([k \in 1..(K + 1) |-> DMono(k - 1, p, u)])
TMonoDeriv(e) ==
  LET K == e.K  u == RFromDouble(e.u)
      X == QM(e.rows)
      Y == RForce([p \in 1..(K + 2) |-> DMonoRow(K, p - 1, u)])
      errs == RForce([p \in 1..(K + 2) |-> RelErrV(X[p], Y[p])])
  IN IF Len(X) # K + 2 THEN Tool("shape", "monoderiv")
     ELSE Chk("C20.mono.derivative", \A p \in 1..(K + 2) : RelOkV(X[p], Y[p], TolP), RMaxOf(errs), TolP)
TMonoDerivs(e) ==
  LET K == e.K  P == e.P  u == RFromDouble(e.u)
      X == QM(e.M)
      Y == RForce([p \in 1..(P + 1) |-> DMonoRow(K, p - 1, u)])
      errs == RForce([p \in 1..(P + 1) |-> RelErrV(X[p], Y[p])])
  IN IF Len(X) # P + 1 THEN Tool("shape", "monoderivs")
     ELSE Chk("C20.mono.derivatives", \A p \in 1..(P + 1) : RelOkV(X[p], Y[p], TolP), RMaxOf(errs), TolP)
TMonoInt(e) ==
  LET K == e.K  P == e.P
      X == QM(e.M)
      dm == RForce([i \in 1..(K + 1) |-> PDerivN(PMono(i - 1), P)])
      Y == RForce([i \in 1..(K + 1) |-> [j \in 1..(K + 1) |-> PInt01(PMulP(dm[i], dm[j]))]])
  IN Chk("C20.mono.integral", RelOkM(X, Y, TolP), RelErrM(X, Y), TolP)

(* C20.lgr *)
\* <<x^0, x^1, .., x^(np-1)>> element-wise for the vector xs, built incrementally
RECURSIVE PowAcc(_, _, _)
PowAcc(xs, np, t) ==
  IF Len(t) >= np THEN t
  ELSE PowAcc(xs, np, Append(t, RForce([i \in 1..Len(xs) |-> RMul(t[Len(t)][i], xs[i])])))
PowTable(xs, np) == PowAcc(xs, np, <<RForce([i \in 1..Len(xs) |-> R1])>>)
TLgr(e) ==
  LET K == e.K  xs == QV(e.xs)  ws == QV(e.ws)
      \* powers x_i^p, p = 0..2K-2, built incrementally
      np == 2 * K - 1
      Pw == PowTable(xs, np)
      mom(p) == IF p % 2 = 0 THEN RFrac(2, p + 1) ELSE R0                  \* int_{-1}^{1} x^p
      merr == RForce([p \in 1..np |-> ScalErr(RDot(ws, Pw[p]), mom(p - 1))])
      leg == TTSeq("legendre", np - 1)
      lerr == RForce([p \in 1..np |->
                ScalErr(RDot(ws, RForce([i \in 1..K |-> PEvalP(leg[p], xs[i])])), IF p = 1 THEN R2 ELSE R0)])
      sorted == \A i \in 1..(K - 1) : RLt(xs[i], xs[i + 1])
  IN IF Len(xs) # K \/ Len(ws) # K THEN Tool("shape", "lgr")
     ELSE Chk("C20.lgr.nodes.first", REq(xs[1], RNeg(R1)), RAbs(RAdd(xs[1], R1)), R0)
          \o Chk("C20.lgr.nodes.sorted", sorted /\ RLt(xs[K], R1), xs[K], R1)
          \o Chk("C20.lgr.moments", RLeq(RMaxOf(merr), TolP), RMaxOf(merr), TolP)
          \o Chk("C20.lgr.legendre", RLeq(RMaxOf(lerr), TolP), RMaxOf(lerr), TolP)

(* C20.absint: int_{t0}^{t1} |A t^2 + B t + C| dt by exact sign analysis *)
AbsIntOracle(t0, t1, A, B, C) ==
  LET F(u) == RAdd(RAdd(RMul(RDiv(A, RFromInt(3)), RMul(u, RMul(u, u))), RMul(RDiv(B, R2), RMul(u, u))), RMul(C, u))
      Piece(a, b) == RAbs(RSub(F(b), F(a)))         \* = int_a^b |q| when q keeps its sign on [a, b]
      Cl(x) == RMax(t0, RMin(t1, x))
      D == RSub(RMul(B, B), RMul(RFromInt(4), RMul(A, C)))
      T == RMax(RAbs(t0), RAbs(t1))
      Qmax == RAdd(RAdd(RMul(RAbs(A), RMul(T, T)), RMul(RAbs(B), T)), RAbs(C))
      bits == 220 + (IF RSign(A) = 0 THEN 0 ELSE IMax(0, -RLog2Floor(RAbs(A))))
  IN IF RSign(A) = 0 THEN
       (IF RSign(B) = 0 THEN [val |-> Piece(t0, t1), err |-> R0, nr |-> 0, roots |-> <<>>]
        ELSE LET r == Cl(RDiv(RNeg(C), B))
             IN [val |-> RAdd(Piece(t0, r), Piece(r, t1)), err |-> R0, nr |-> 1, roots |-> <<RDiv(RNeg(C), B)>>])
     ELSE IF RSign(D) <= 0 THEN [val |-> Piece(t0, t1), err |-> R0, nr |-> 0, roots |-> <<>>]   \* no sign change
     ELSE LET s == SqrtLo(D, bits)                       \* s <= sqrt(D) < s + 2^-bits
              ra == RDiv(RSub(RNeg(B), s), RMul(R2, A))
              rb == RDiv(RAdd(RNeg(B), s), RMul(R2, A))
              r1 == Cl(RMin(ra, rb))
              r2 == Cl(RMax(ra, rb))
              delta == RDiv(RPow2(-bits), RMul(R2, RAbs(A)))        \* each root is off by at most delta
          IN [val |-> RAdd(RAdd(Piece(t0, r1), Piece(r1, r2)), Piece(r2, t1)),
              \* a break point moved by delta changes the sum of the pieces by at most 2 delta max|q| (two roots)
              err |-> RMul(RFromInt(8), RMul(delta, Qmax)), nr |-> 2, roots |-> <<RMin(ra, rb), RMax(ra, rb)>>]
E9 == Dec(1, -9)
MagClass(x) ==
  LET a == RAbs(x)
  IN IF RSign(a) = 0 THEN "0"
     ELSE IF RLt(a, RMul(E9, RSub(R1, RPow2(-50)))) THEN "lt"
     ELSE IF RLeq(a, RMul(E9, RAdd(R1, RPow2(-50)))) THEN "eq"      \* the doubles next to 1e-9
     ELSE "gt"
AbsIntOperands(e) == <<e.t0, e.t1, e.A, e.B, e.C>>
AbsIntStratum(e) ==
  LET t0 == RFromDouble(e.t0)  t1 == RFromDouble(e.t1)
      o == AbsIntOracle(t0, t1, RFromDouble(e.A), RFromDouble(e.B), RFromDouble(e.C))
      inside == Cardinality({i \in 1..Len(o.roots) : RLt(t0, o.roots[i]) /\ RLt(o.roots[i], t1)})
  IN "A" \o MagClass(RFromDouble(e.A)) \o ".B" \o MagClass(RFromDouble(e.B)) \o ".n" \o ToString(inside)
TAbsInt(e) ==
  LET t0 == RFromDouble(e.t0)  t1 == RFromDouble(e.t1)
      o == AbsIntOracle(t0, t1, RFromDouble(e.A), RFromDouble(e.B), RFromDouble(e.C))
      out == RFromDouble(e.out)
      tol == RAdd(RMul(TolP, RMax(R1, o.val)), o.err)
  IN IF RLt(t1, t0) THEN Tool("domain", "absint: t1 < t0")
     ELSE IF ~RLeq(o.err, RPow2(-60)) THEN Tool("oracle", "absint: root enclosure too wide")
     ELSE Chk("C20.absint", RLeq(RAbs(RSub(out, o.val)), tol), RAbs(RSub(out, o.val)), tol)

(* C20.search: the four documented cases *)
AlphaEven == <<0, 2, 4, 6, 8, 10>>        \* {0,1,2,3,4,5} in halves
AlphaSkew == <<0, 2, 4, 6, 20, 200>>      \* {0,1,2,3,10,100} in halves
Queries13(a) ==      \* below, on, between (mid points) and above the letters
  <<a[1] - 1>> \o [k \in 1..(2 * Len(a)) |->
      LET i == (k + 1) \div 2
      IN IF k % 2 = 1 THEN a[i] ELSE IF i < Len(a) THEN (a[i] + a[i + 1]) \div 2 ELSE a[i] + 1]
IsWide(e) == "rq" \in DOMAIN e
SearchLen(e) == IF IsWide(e) THEN Len(e.rq) ELSE Len(e.r)
SearchNQ(e) == IF IsWide(e) THEN Len(e.qq) ELSE Len(e.q)
\* r[i] <= t for query number k
SearchLe(e, k, i) == IF IsWide(e) THEN RLeq(RFromDouble(e.rq[i]), RFromDouble(e.qq[k])) ELSE e.r[i] <= e.q[k]
SearchSorted(e) ==
  IF IsWide(e) THEN FinV(e.rq) /\ FinV(e.qq) /\ \A i \in 1..(Len(e.rq) - 1) : RLeq(RFromDouble(e.rq[i]), RFromDouble(e.rq[i + 1]))
  ELSE \A i \in 1..(Len(e.r) - 1) : e.r[i] <= e.r[i + 1]
SearchCaseOf(e, k) == LET Le(i) == SearchLe(e, k, i) IN DocCase(SearchLen(e), Le)
SearchOkAt(e, k) == LET Le(i) == SearchLe(e, k, i) IN DocOK(SearchLen(e), Le, e.res[k] + 1)   \* logged positions are 0-based
ExhAlphabet(e) == IF e.alpha = AlphaEven THEN "even" ELSE IF e.alpha = AlphaSkew THEN "skew" ELSE "?"
ExhDomain(e) ==
  /\ ExhAlphabet(e) # "?"
  /\ e.q = Queries13(e.alpha)
  /\ Len(e.r) <= 8
  /\ \A i \in 1..Len(e.r) : \E j \in 1..Len(e.alpha) : e.r[i] = e.alpha[j]
TSearch(e) ==
  LET nq == SearchNQ(e)
      badq == {k \in 1..nq : ~SearchOkAt(e, k)}
      first == CHOOSE k \in badq : \A k2 \in badq : k <= k2
  IN IF ~SearchSorted(e) THEN Tool("domain", "search: range not sorted / not finite")
     ELSE IF e.exh = 1 /\ ~ExhDomain(e) THEN Tool("domain", "search: not a member of the exhaustive universe")
     \* the call in flight when the harness process died (signal) or was stopped by its watchdog: the library
     \* did not return on operands inside the domain
     ELSE IF "crash" \in DOMAIN e THEN
            FailS("C20.search.noreturn",
                  (IF e.crash = 2 THEN "no return within 20 s" ELSE "signal " \o ToString(e.signal)) \o " at query #" \o ToString(e.done + 1),
                  "returns an iterator")
     ELSE IF Len(e.res) # nq THEN Tool("shape", "search")
     ELSE IF badq = {} THEN <<>>
     ELSE FailS("C20.search.case" \o ToString(SearchCaseOf(e, first)),
                "query #" \o ToString(first) \o " returned position " \o ToString(e.res[first])
                  \o " (of " \o ToString(SearchLen(e)) \o "); " \o ToString(Cardinality(badq)) \o " bad queries",
                "documented case " \o ToString(SearchCaseOf(e, first)))
\* strict (length, lexicographic) order on ranges: a trace whose exhaustive events are strictly increasing lists
\* no range twice; together with the count C(6+8, 8) = 3003 it lists every sorted range of length <= 8
RECURSIVE LexLess(_, _, _)
LexLess(a, b, i) == IF i > Len(a) THEN FALSE ELSE IF a[i] < b[i] THEN TRUE ELSE IF a[i] > b[i] THEN FALSE ELSE LexLess(a, b, i + 1)
RangeLess(a, b) == Len(a) < Len(b) \/ (Len(a) = Len(b) /\ LexLess(a, b, 1))
ExhKey(e) == e.var \o "|" \o ExhAlphabet(e)
ExhTotal == Binom(6 + 8, 8)

---------------------------------------------------------------------------
Check(e) ==
  CASE e.op = "basis" -> IF ~FinM(e.M) THEN NonFinite("C20.basis.def")
                         ELSE IF e.basis \notin Bases \/ e.K \notin 0..10 \/ Len(e.M) # e.K + 1 THEN Tool("shape", "basis")
                         ELSE TBasis(e)
    [] e.op = "lagrange" -> IF ~FinV(e.ts) THEN Tool("domain", "lagrange: non-finite node")
                            ELSE IF ~FinM(e.M) THEN NonFinite("C20.basis.lagrange.def") ELSE TLagrange(e)
    [] e.op = "monoderiv" -> IF ~FinQ(e.u) THEN Tool("domain", "monoderiv") ELSE IF ~FinM(e.rows) THEN NonFinite("C20.mono.derivative") ELSE TMonoDeriv(e)
    [] e.op = "monoderivs" -> IF ~FinQ(e.u) THEN Tool("domain", "monoderivs") ELSE IF ~FinM(e.M) THEN NonFinite("C20.mono.derivatives") ELSE TMonoDerivs(e)
    [] e.op = "monoint" -> IF ~FinM(e.M) THEN NonFinite("C20.mono.integral") ELSE TMonoInt(e)
    [] e.op = "lgr" -> IF ~(FinV(e.xs) /\ FinV(e.ws)) THEN NonFinite("C20.lgr.moments") ELSE TLgr(e)
    [] e.op = "absint" -> IF ~FinV(AbsIntOperands(e)) THEN Tool("domain", "absint: non-finite operand")
                          ELSE IF ~FinQ(e.out) THEN NonFinite("C20.absint") ELSE TAbsInt(e)
    [] e.op = "search" -> TSearch(e)
    [] OTHER -> Tool("unknown_op", e.op)

UStratum(u) == IF RSign(u) = 0 THEN "u0" ELSE IF RLeq(RAbs(u), R1) THEN "u<=1" ELSE "u>1"
Stratum(e) ==
  CASE e.op = "basis" -> e.basis \o (IF e.cum = 1 THEN ".cum" ELSE "") \o "|K" \o ToString(e.K)
    [] e.op = "lagrange" -> "K" \o ToString(e.K)
    [] e.op = "monoderiv" -> "K" \o ToString(e.K) \o "|" \o (IF FinQ(e.u) THEN UStratum(RFromDouble(e.u)) ELSE "?")
    [] e.op = "monoderivs" -> "K" \o ToString(e.K) \o "|P" \o ToString(e.P)
    [] e.op = "monoint" -> "K" \o ToString(e.K) \o "|P" \o ToString(e.P)
    [] e.op = "lgr" -> "K" \o ToString(e.K)
    [] e.op = "absint" -> IF FinV(AbsIntOperands(e)) /\ ~RLt(RFromDouble(e.t1), RFromDouble(e.t0)) THEN AbsIntStratum(e) ELSE "?"
    [] e.op = "search" -> e.var \o "|" \o (IF e.exh = 1 THEN ExhAlphabet(e) ELSE "long")
    [] OTHER -> "-"

\* additional coverage cells: the documented case of every query of a search event
SearchCaseCells(e) ==
  IF e.op = "search" /\ "crash" \notin DOMAIN e /\ Len(e.res) = SearchNQ(e) /\ SearchSorted(e)
  THEN [c \in 1..4 |-> <<"search.case" \o ToString(c) \o "|" \o e.var, Cardinality({k \in 1..SearchNQ(e) : SearchCaseOf(e, k) = c})>>]
  ELSE <<>>
RECURSIVE AddCells(_, _, _)
AddCells(c, cells, i) ==
  IF i > Len(cells) THEN c
  ELSE LET k == cells[i][1]  n == cells[i][2]
       IN AddCells(IF n = 0 THEN c ELSE IF k \in DOMAIN c THEN [c EXCEPT ![k] = @ + n] ELSE c @@ (k :> n), cells, i + 1)

---------------------------------------------------------------------------
Init == /\ l = 1
        /\ bad = IF SelfCheck THEN <<>> ELSE <<[line |-> 0, op |-> "selfcheck", stratum |-> "-", clause |-> "TOOL.selfcheck", err |-> "", tol |-> ""]>>
        /\ cov = <<>>
        /\ ex = <<>>

Next ==
  /\ l <= Len(Tr)
  /\ LET e == Tr[l]
         res == Check(e)
         st == Stratum(e)
         key == e.op \o "|" \o st
     IN /\ bad' = bad \o [i \in 1..Len(res) |-> [line |-> l, op |-> e.op, stratum |-> st] @@ res[i]]
        /\ cov' = AddCells(cov, <<<<key, 1>>>> \o SearchCaseCells(e), 1)
        /\ ex' = IF e.op = "search" /\ e.exh = 1 /\ ExhAlphabet(e) # "?"
                 THEN LET k == ExhKey(e)
                      IN IF k \in DOMAIN ex
                         THEN [ex EXCEPT ![k] = [n |-> @.n + 1, last |-> e.r, ok |-> @.ok /\ RangeLess(@.last, e.r)]]
                         ELSE ex @@ (k :> [n |-> 1, last |-> e.r, ok |-> e.r = <<>>])
                 ELSE ex
  /\ l' = l + 1

Spec == Init /\ [][Next]_vars

\* when the whole trace is consumed, write the verdict report (evaluated once, in the last state)
Report ==
  l = Len(Tr) + 1 =>
    JsonSerialize(OutFile, [lines |-> Len(Tr), consumed |-> l - 1, bad |-> bad,
                            cov |-> [k \in DOMAIN cov |-> cov[k]],
                            exh |-> [k \in DOMAIN ex |-> [count |-> ex[k].n, total |-> ExhTotal,
                                                          complete |-> ex[k].ok /\ ex[k].n = ExhTotal]]])
=============================================================================
