------------------------------ MODULE TraceRel -------------------------------
(* Trace specification for the "rel" harness family (property C17): relations   *)
(* and conversions between groups.  Every event carries operands and results of  *)
(* the real library; the checks are equalities between documented matrix forms   *)
(* (module Groups), series (ExpM) and enclosures of pi / sin / cos.              *)
EXTENDS Tol, Json, IOUtils, TLC

Tr == ndJsonDeserialize(IOEnv.TRACE)
VARIABLE st
vars == <<st>>

FinQ(q) == q[4] < 100000
FinV(v) == \A i \in 1..Len(v) : FinQ(v[i])
V(v) == RVecFromDoubles(v)
M(m) == RMatFromDoubles(m)
D(q) == RFromDouble(q)

Fail(clause, err, tol) == <<[clause |-> clause, err |-> err, tol |-> tol]>>
ChkR(clause, ok, err, tol) == IF ok THEN <<>> ELSE Fail(clause, RToStr(err), RToStr(tol))
MatChk(clause, X, Y, tol) == ChkR(clause, RelOkM(X, Y, tol), RelErrM(X, Y), tol)
VecChk(clause, x, y, tol) == ChkR(clause, RelOkV(x, y, tol), RelErrV(x, y), tol)

gSO2 == [k |-> "SO2"]  gSO3 == [k |-> "SO3"]  gSE2 == [k |-> "SE2"]  gSE3 == [k |-> "SE3"]
gC1 == [k |-> "C1"]

TolEq(sc) == TolC01(sc)            \* identities between two computations of the library: 1e-12 / 1e-5
TolExp(sc) == TolC02(sc, FALSE)    \* anything that goes through exp: 1e-9 / 1e-3

---------------------------------------------------------------------------
\* SE_K_3<1> = SE3 (same layout), SE_K_3<2> = Galilei with tau = 0 / s = 0 (delete index 7)
Del7V(v) == RForce([i \in 1..(Len(v) - 1) |-> IF i < 7 THEN v[i] ELSE v[i + 1]])
Del7M(A) == RForce([i \in 1..(Len(A) - 1) |-> Del7V(IF i < 7 THEN A[i] ELSE A[i + 1])])
TPair(e, two) ==
  LET ismat == e.sub \in {"Ad", "ad", "dr_exp", "dr_expinv"}
      clause == (IF two THEN "C17.sek2." ELSE "C17.sek1.") \o e.sub
      tol == IF e.sub \in {"exp", "log", "dr_exp", "dr_expinv"} THEN TolExp(e.sc) ELSE TolEq(e.sc)
  IN IF ismat
     THEN LET X == M(e.x)  Y == M(e.y)
              X2 == IF two THEN Del7M(X) ELSE X
              \* the deleted row / column of the Galilei matrix must be that of the identity (Ad, dr_exp, dr_expinv) or zero (ad)
          IN MatChk(clause, Y, X2, tol)
     ELSE LET x == V(e.x)  y == V(e.y)
              x2 == IF two THEN Del7V(x) ELSE x
          IN VecChk(clause, y, x2, tol)
             \o (IF two THEN ChkR(clause \o ".tau", RSign(x[7]) = 0, x[7], R0) ELSE <<>>)

---------------------------------------------------------------------------
\* lifts: the lifted matrix is the embedding [[M, 0], [0, 1]] (rotation about z; planar motion in the z = 0 plane)
EmbedSO2(M2) == RForce([i \in 1..3 |-> [j \in 1..3 |-> IF i <= 2 /\ j <= 2 THEN M2[i][j] ELSE IF i = j THEN R1 ELSE R0]])
EmbedSE2(M3) ==
  RForce([i \in 1..4 |-> [j \in 1..4 |->
    IF i <= 2 /\ j <= 2 THEN M3[i][j]
    ELSE IF i <= 2 /\ j = 4 THEN M3[i][3]
    ELSE IF i = j THEN R1 ELSE R0]])
QwOk(q) == RSign(q) >= 0
TLift(e, three) ==
  LET gl == IF three THEN gSE2 ELSE gSO2
      gh == IF three THEN gSE3 ELSE gSO3
      Emb(X) == IF three THEN EmbedSE2(X) ELSE EmbedSO2(X)
      nm == IF three THEN "C17.lift.se3" ELSE "C17.lift.so3"
      a == V(e.a)  b == V(e.b)  la == V(e.la)  lb == V(e.lb)
      t == TolExp(e.sc)     \* lift_so3 goes through log/sin/cos
      Ma == GMat(gl, a)  Mb == GMat(gl, b)
      w == V(e.w)
      emb == IF three THEN <<w[1], w[2], R0, R0, R0, w[3]>> ELSE <<R0, R0, w[1]>>
  IN MatChk(nm \o ".embed", GMat(gh, la), Emb(Ma), t)
     \o MatChk(nm \o ".hom", GMat(gh, V(e.lab)), MMul(Emb(Ma), Emb(Mb)), t)
     \o MatChk(nm \o ".hom2", GMat(gh, V(e.la_lb)), MMul(Emb(Ma), Emb(Mb)), t)
     \o MatChk(nm \o ".project", GMat(gl, V(e.proj)), Ma, t)
     \o MatChk(nm \o ".exp", GMat(gh, V(e.lexp)), ExpM(GHat(gh, emb)), t)
     \o MatChk(nm \o ".exp2", GMat(gh, V(e.expl)), ExpM(GHat(gh, emb)), t)
     \o ChkR(nm \o ".sign", QwOk(la[Len(la)]) /\ QwOk(V(e.lab)[Len(la)]), la[Len(la)], R0)

---------------------------------------------------------------------------
TC1(e) ==
  LET c == V(e.a)  s == D(e.scaling)  z == V(e.so2)  t == TolEq(e.sc)
  IN MatChk("C17.c1", GMat(gC1, c), MScale(s, GMat(gSO2, z)), t)
     \o ChkR("C17.c1.scaling", RSign(s) > 0, s, R0)
     \o ChkR("C17.c1.unit", RLeq(RAbs(RSub(VNorm2(z), R1)), RMul(RFromInt(8), Ulp(e.sc))), RAbs(RSub(VNorm2(z), R1)), Ulp(e.sc))

TRot(e) ==
  LET t == D(e.t)  out == V(e.out)
      ax == VUnit(3, e.axis)
  IN MatChk("C17.rot", GMat(gSO3, out), ExpM(MScale(t, GHat(gSO3, ax))), TolExp(e.sc))

\* homogeneous rotation matrix of a non-unit quaternion <<x, y, z, w>>
RotHom(q) ==
  LET x == q[1]  y == q[2]  z == q[3]  w == q[4]
      n2 == VNorm2(q)
      xx == RSq(x)  yy == RSq(y)  zz == RSq(z)  ww == RSq(w)
      P(a, b) == RMul(R2, RAdd(a, b))   S(a, b) == RMul(R2, RSub(a, b))
      A == << <<RSub(RAdd(ww, xx), RAdd(yy, zz)), S(RMul(x, y), RMul(z, w)), P(RMul(x, z), RMul(y, w))>>,
              <<P(RMul(x, y), RMul(z, w)), RSub(RAdd(ww, yy), RAdd(xx, zz)), S(RMul(y, z), RMul(x, w))>>,
              <<S(RMul(x, z), RMul(y, w)), P(RMul(y, z), RMul(x, w)), RSub(RAdd(ww, zz), RAdd(xx, yy))>> >>
  IN MScale(RDiv(R1, n2), A)
TQuat(e) ==
  LET q == V(e.q)  out == V(e.out)  t == TolEq(e.sc)
  IN MatChk("C17.conv.quat", GMat(gSO3, out), RotHom(q), t)
     \o ChkR("C17.conv.quat.unit", RLeq(RAbs(RSub(VNorm2(out), R1)), RMul(RFromInt(8), Ulp(e.sc))), RAbs(RSub(VNorm2(out), R1)), Ulp(e.sc))
     \o ChkR("C17.conv.quat.sign", RSign(out[4]) >= 0, out[4], R0)
     \o ChkR("C17.conv.quat.back", \A i \in 1..4 : REq(V(e.back)[i], out[i]), R1, R0)

TComplex(e) ==
  LET re == D(e.re)  im == D(e.im)  z == V(e.so2)  c == V(e.c1)  t == TolEq(e.sc)
      n2 == RAdd(RSq(re), RSq(im))
      \* z = (im, re)/|c| :  z parallel to (im, re) with positive orientation, unit norm
      cross == RSub(RMul(z[1], re), RMul(z[2], im))
      dot == RAdd(RMul(z[1], im), RMul(z[2], re))
      nrm == SqrtHi(n2, 80)
  IN ChkR("C17.conv.complex.dir", RLeq(RAbs(cross), RMul(t, nrm)) /\ RSign(dot) > 0, RAbs(cross), RMul(t, nrm))
     \o ChkR("C17.conv.complex.unit", RLeq(RAbs(RSub(VNorm2(z), R1)), RMul(RFromInt(8), Ulp(e.sc))), RAbs(RSub(VNorm2(z), R1)), Ulp(e.sc))
     \o ChkR("C17.conv.complex.c1", REq(c[1], im) /\ REq(c[2], re), R1, R0)
     \o ChkR("C17.conv.complex.u1", REq(D(e.u1re), z[2]) /\ REq(D(e.u1im), z[1]), R1, R0)
     \o ChkR("C17.conv.complex.c1back", REq(D(e.c1re), re) /\ REq(D(e.c1im), im), R1, R0)

TIso(e, three) ==
  LET g == IF three THEN gSE3 ELSE gSE2
      t == IF three THEN TolEq(e.sc) ELSE TolExp(e.sc)      \* SE2::isometry goes through the angle
      Ma == GMat(g, V(e.a))
  IN MatChk("C17.conv.iso", M(e.M), Ma, t) \o MatChk("C17.conv.iso.back", GMat(g, V(e.back)), Ma, t)
     \o (IF three THEN ChkR("C17.conv.iso.sign", RSign(V(e.back)[7]) >= 0, V(e.back)[7], R0) ELSE <<>>)

TEuler(e) ==
  LET ea == V(e.ea)
      Rz == ExpM(MScale(ea[1], GHat(gSO3, VUnit(3, 3))))
      Ry == ExpM(MScale(ea[2], GHat(gSO3, VUnit(3, 2))))
      Rx == ExpM(MScale(ea[3], GHat(gSO3, VUnit(3, 1))))
      Ma == GMat(gSO3, V(e.a))
  IN MatChk("C17.conv.euler", MMul(MMul(Rz, Ry), Rx), Ma, TolExp(e.sc))
     \o MatChk("C17.conv.euler.back", GMat(gSO3, V(e.back)), Ma, TolExp(e.sc))

\* angle functions: sin/cos of the returned angle reproduce (q_z, q_w); ranges with 4 ulp slack on the closed ends
AngleOk(x, z, sc) ==
  LET sc2 == SinCos(x) IN RLeq(RAbs(RSub(sc2[1], z[1])), TolExp(sc)) /\ RLeq(RAbs(RSub(sc2[2], z[2])), TolExp(sc))
InRange(x, lo, hi, sc) ==
  LET slack == RMul(RFromInt(4), RMul(Ulp(sc), RFromInt(8))) IN RLeq(RSub(lo, slack), x) /\ RLeq(x, RAdd(hi, slack))
TAngle1(z, a, cw, ccw, sc) ==
  LET twoPiLo == RMul(R2, PiLo)  twoPiHi == RMul(R2, PiHi)
  IN ChkR("C17.angle.cong", AngleOk(a, z, sc), a, TolExp(sc))
     \o ChkR("C17.angle.cw.cong", AngleOk(cw, z, sc), cw, TolExp(sc))
     \o ChkR("C17.angle.ccw.cong", AngleOk(ccw, z, sc), ccw, TolExp(sc))
     \o ChkR("C17.angle.range", InRange(a, RNeg(PiHi), PiHi, sc), a, PiHi)
     \o ChkR("C17.angle.cw.range", InRange(cw, RNeg(twoPiHi), R0, sc), cw, R0)
     \o ChkR("C17.angle.ccw.range", InRange(ccw, R0, twoPiHi, sc), ccw, twoPiHi)
TAngle(e) ==
  TAngle1(V(e.a), D(e.angle), D(e.cw), D(e.ccw), e.sc) \o TAngle1(V(e.ai), D(e.iangle), D(e.icw), D(e.iccw), e.sc)

Check(e) ==
  CASE e.op = "sek1" -> TPair(e, FALSE)
    [] e.op = "sek2" -> TPair(e, TRUE)
    [] e.op = "lift_so3" -> TLift(e, FALSE)
    [] e.op = "lift_se3" -> TLift(e, TRUE)
    [] e.op = "c1" -> TC1(e)
    [] e.op = "rot" -> TRot(e)
    [] e.op = "quat" -> TQuat(e)
    [] e.op = "complex" -> TComplex(e)
    [] e.op = "iso3" -> TIso(e, TRUE)
    [] e.op = "iso2" -> TIso(e, FALSE)
    [] e.op = "euler" -> TEuler(e)
    [] e.op = "angle" -> TAngle(e)
    [] OTHER -> <<[clause |-> "TOOL.unknown_op", err |-> e.op, tol |-> ""]>>

Stratum(e) == e.sub

Init == st = [l |-> 1, bad |-> <<>>, cov |-> <<>>]
StepAll(s, e) ==
  LET res == Check(e)  sm == Stratum(e)  key == e.op \o "|" \o sm
  IN [l |-> s.l + 1,
      bad |-> s.bad \o [i \in 1..Len(res) |-> [line |-> s.l, op |-> e.op, stratum |-> sm] @@ res[i]],
      cov |-> IF key \in DOMAIN s.cov THEN [s.cov EXCEPT ![key] = @ + 1] ELSE s.cov @@ (key :> 1)]
Next == st.l <= Len(Tr) /\ st' = StepAll(st, Tr[st.l])
Report == st.l = Len(Tr) + 1 =>
   JsonSerialize(IOEnv.VERDICT, [lines |-> Len(Tr), consumed |-> st.l - 1, bad |-> st.bad,
                                 cov |-> [k \in DOMAIN st.cov |-> st.cov[k]]])
=============================================================================
