----------------------------- MODULE TraceSolver -----------------------------
(* Trace specification for the "solver" harness family (property C10).         *)
(* Every line of the trace is one system (J, d, r, lambda | Delta) together    *)
(* with what the real library returned for every storage of J (dense           *)
(* col-major / row-major / fixed size, sparse row-major / col-major, with      *)
(* stored zeros, uncompressed).  All judgments are made here, on the exact     *)
(* rational values of the logged doubles:                                      *)
(*   C10.normal   | (J'J + lam D^2) dx + J'r |  <=  1e-8 ( |H| |dx| + |J'r| )  *)
(*   C10.agree    sparse dx = dense dx to 1e-6 when a certified upper bound of *)
(*                cond(H) (trace H / (lam min d_i^2)) is <= 1e8                *)
(*   C10.dphi     dphi = d|D dx(lam)|/dlam; reference -(D^2 x)'H^-1(D^2 x)/|D x|   *)
(*                from exact-arithmetic solves with rigorous a-posteriori      *)
(*                error bounds, compared in squared (rational) form; 1e-6      *)
(*                relative where the condition bound is certified, else sign   *)
(*   C10.tr.*     lambda = fl(1/Delta) (the nearest double), normal equations  *)
(*                with that lambda, |J dx + r|^2 <= |r|^2 (1 + 1e-12)          *)
(*   C10.colnorm  colwise_norm(J)_j^2 = sum_i J_ij^2 to 1e-14 relative         *)
(* A bad step does not stop validation.  TOOL.* clauses are harness/oracle     *)
(* errors, never verdicts.                                                     *)
EXTENDS Tol, Json, IOUtils, TLC, FiniteSets

TraceFile == IOEnv.TRACE
OutFile == IOEnv.VERDICT
Tr == ndJsonDeserialize(TraceFile)

VARIABLES l, acc            \* position; accumulated rejected steps and coverage cells
vars == <<l, acc>>

---------------------------------------------------------------------------
\* reading logged numbers
FinQ(q) == q[4] < 100000
FinV(v) == \A i \in 1..Len(v) : FinQ(v[i])
FinM(m) == \A i \in 1..Len(m) : FinV(m[i])
V(v) == RVecFromDoubles(v)
M(m) == RMatFromDoubles(m)

Fail(clause, st, err, tol) == <<[clause |-> clause, st |-> st, err |-> err, tol |-> tol]>>
Chk(clause, st, ok, err, tol) == IF ok THEN <<>> ELSE Fail(clause, st, RToStr(err), RToStr(tol))
Tool(what, detail) == <<[clause |-> "TOOL." \o what, st |-> "-", err |-> detail, tol |-> ""]>>

RECURSIVE CatSeq(_, _)
CatSeq(ss, k) == IF k > Len(ss) THEN <<>> ELSE ss[k] \o CatSeq(ss, k + 1)
\* results of F(k) for k = 1..n concatenated
ForAllCat(n, F(_)) == CatSeq(RForce([k \in 1..n |-> F(k)]), 1)

RECURSIVE SumSeq(_, _)
SumSeq(s, k) == IF k = 0 THEN R0 ELSE RAdd(s[k], SumSeq(s, k - 1))
RECURSIVE MinSeq(_, _)
MinSeq(s, k) == IF k = 1 THEN s[1] ELSE RMin(s[k], MinSeq(s, k - 1))
RECURSIVE MaxSeqR(_, _)
MaxSeqR(s, k) == IF k = 1 THEN s[1] ELSE RMax(s[k], MaxSeqR(s, k - 1))
\* 1-norm of a vector (an upper bound of its 2-norm)
N1(v) == IF Len(v) = 0 THEN R0 ELSE NormInf(<<v>>)
VRound(v, bits) == RForce([i \in 1..Len(v) |-> RRound(v[i], bits)])
SqR(x) == RMul(x, x)
Pos(x) == RMax(x, R0)

---------------------------------------------------------------------------
\* the regularised normal equations of a system, exactly
Ctx(J, d, r, lam) ==
  LET n == Len(d)
      Jt == MT(J)
      d2 == RForce([i \in 1..n |-> RMul(d[i], d[i])])
      ld2 == RForce([i \in 1..n |-> RMul(lam, d2[i])])
      JtJ == MMul(Jt, J)
      H == RForce([i \in 1..n |-> [j \in 1..n |-> IF i = j THEN RAdd(JtJ[i][j], ld2[i]) ELSE JtJ[i][j]]])
      b == VNeg(MVec(Jt, r))
  IN [n |-> n, J |-> J, d |-> d, d2 |-> d2, r |-> r, lam |-> lam, H |-> H, b |-> b,
      normH |-> NormInf(H), nb |-> VMaxAbs(b),
      trH |-> SumSeq([i \in 1..n |-> H[i][i]], n),      \* >= lambda_max(H)   (H is positive definite)
      mu |-> MinSeq(ld2, n),                             \* <= lambda_min(H)   (J'J is positive semi-definite)
      trJ |-> SumSeq([i \in 1..n |-> JtJ[i][i]], n),    \* trace J'J  = |J|_F^2
      \* the regularisation of some column is at most half an ulp of its diagonal entry of J'J: forming H in
      \* double absorbs it (classification only; reported with every rejected step as `regime`)
      absorbed |-> \E i \in 1..n : RSign(JtJ[i][i]) > 0 /\ RLeq(ld2[i], RMul(RPow2(-53), JtJ[i][i])),
      trR |-> SumSeq(ld2, n),                            \* trace lambda D^2
      dmax |-> VMaxAbs(d), dmax2 |-> MaxSeqR(d2, n)]

\* certified: cond_2(H) <= trH / mu <= 1e8
Certified(c) == RLeq(c.trH, RMul(Dec(1, 8), c.mu))
CondUB(c) == RDiv(c.trH, c.mu)

\* C10.normal: norm-wise relative backward error in the infinity norm
NormalChk(clause, st, c, x) ==
  LET res == VSub(MVec(c.H, x), c.b)
      lhs == VMaxAbs(res)
      den == RAdd(RMul(c.normH, VMaxAbs(x)), c.nb)
      tol == Dec(1, -8)
  IN Chk(clause, st, RLeq(lhs, RMul(tol, den)), IF RSign(den) = 0 THEN lhs ELSE RDiv(lhs, den), tol)

\* C10.agree
AgreeChk(st, xs, xd) ==
  LET dif == VMaxAbsDiff(xs, xd)
      sc == RMax(VMaxAbs(xs), VMaxAbs(xd))
      tol == Dec(1, -6)
  IN Chk("C10.agree", st, RLeq(dif, RMul(tol, sc)), IF RSign(sc) = 0 THEN dif ELSE RDiv(dif, sc), tol)

---------------------------------------------------------------------------
\* Exact reference for dphi.  With x* = -H^-1 J'r and phi(lam) = |D x*(lam)|:
\*    dx*/dlam = -H^-1 D^2 x*     (differentiate H x* = -J'r)
\*    phi phi' = (D x*)'(D dx*/dlam) = -(D^2 x*)' H^-1 (D^2 x*)  =: -q* <= 0
\* xt, yt are approximate solutions (inverse of a rounded H, two steps of iterative refinement against the
\* exact H); their errors are bounded a posteriori from exact residuals and |H^-1|_2 <= 1/mu, so neither the
\* inverse kernel nor the rounding is trusted:
\*    |xt - x*|_2 <= |H xt - b|_1 / mu =: ex
\*    w = D^2 xt, |w - w*|_2 <= dmax^2 ex =: ew ;   yt ~ H^-1 w, rhoy = H yt - w
\*    |q* - w'yt| <= ( |w|_1 |rhoy|_1 + 2 ew |w|_1 + ew^2 ) / mu =: eq
\*    p = |D xt|^2, | phi*^2 - p | <= 2 |D xt|_1 dmax ex + (dmax ex)^2 =: ep
Refine(H, G, rhs, x) == VRound(VSub(x, MVec(G, VSub(MVec(H, x), rhs))), 700)
ApproxSolve(H, G, rhs) == Refine(H, G, rhs, Refine(H, G, rhs, VRound(MVec(G, rhs), 700)))
DphiOracle(c) ==
  LET n == c.n
      e2 == RLog2Floor(c.mu)                                   \* 2^e2 <= mu
      G == RMatInvRound(RMatRound(c.H, 72 - e2), 100 + (IF e2 > 0 THEN e2 ELSE 0))
      xt == ApproxSolve(c.H, G, c.b)
      rho == VSub(MVec(c.H, xt), c.b)
      ex == RDiv(N1(rho), c.mu)
      w == RForce([i \in 1..n |-> RMul(c.d2[i], xt[i])])
      yt == ApproxSolve(c.H, G, w)
      rhoy == VSub(MVec(c.H, yt), w)
      W1 == N1(w)
      ew == RMul(c.dmax2, ex)
      Dx == RForce([i \in 1..n |-> RMul(c.d[i], xt[i])])
      dex == RMul(c.dmax, ex)
  IN [q |-> VDot(w, yt),
      eq |-> RDiv(RAdd(RAdd(RMul(W1, N1(rhoy)), RMul(R2, RMul(ew, W1))), SqR(ew)), c.mu),
      p |-> VDot(Dx, Dx),
      ep |-> RAdd(RMul(R2, RMul(N1(Dx), dex)), SqR(dex)),
      xt |-> xt, ex |-> ex]

\* The property states no tolerance for dphi.  Reading used here (never tighter than the property's own
\* accuracy model for dx): 1e-6 relative when the certified condition bound is <= 1e8; beyond that bound only
\* the sign (the exact derivative is < 0 whenever J'r # 0; any relative accuracy at all implies the sign).
DphiTol == Dec(1, -6)
DphiClass(c) == IF Certified(c) THEN "tol1e-6" ELSE "signonly"

DphiChk(st, c, o, gq) ==
  IF ~FinQ(gq) THEN Fail("C10.dphi", st, "non-finite", "finite")
  ELSE
  LET g == RFromDouble(gq)
      g2 == SqR(g)
      tol == DphiTol
      lo == SqR(RMul(Pos(RSub(R1, tol)), Pos(RSub(o.q, o.eq))))
      hi == SqR(RMul(RAdd(R1, tol), RAdd(o.q, o.eq)))
      ratio == IF RSign(o.q) = 0 THEN g2 ELSE RDiv(RMul(g2, o.p), SqR(o.q))    \* (dphi / phi')^2, for the report
  IN IF RSign(c.nb) = 0
     THEN \* J'r = 0: dx(lam) = 0 for every lam, the derivative is 0
          Chk("C10.dphi.zero", st, RSign(g) = 0, g, R0)
     ELSE Chk("C10.dphi.sign", st, RSign(g) <= 0, g, R0)
          \o (IF Certified(c)
              THEN Chk("C10.dphi", st, RLeq(lo, RMul(g2, RAdd(o.p, o.ep))) /\ RLeq(RMul(g2, Pos(RSub(o.p, o.ep))), hi),
                       ratio, SqR(RAdd(R1, tol)))
              ELSE <<>>)

\* the oracle's formula against the limit definition (tiny systems): central difference of phi^2 in exact
\* arithmetic, h = lam 2^-30; phi^2 = sum_i c_i/(s_i + lam)^2 with c_i >= 0, s_i >= 0 gives a relative
\* truncation error <= 2 (h/lam)^2 = 2^-59.
Phi2At(c, lam2) ==
  LET c2 == Ctx(c.J, c.d, c.r, lam2)
      x == MVec(RMatInv(c2.H), c2.b)
  IN SumSeq([i \in 1..c.n |-> RMul(c.d2[i], SqR(x[i]))], c.n)
FormulaSelfCheck(c) ==
  LET Hi == RMatInv(c.H)
      x == MVec(Hi, c.b)
      w == RForce([i \in 1..c.n |-> RMul(c.d2[i], x[i])])
      q == VDot(w, MVec(Hi, w))
      h == RMul(c.lam, RPow2(-30))
      fd == RDiv(RSub(Phi2At(c, RAdd(c.lam, h)), Phi2At(c, RSub(c.lam, h))), RMul(R2, h))
      \* d(phi^2)/dlam = 2 phi phi' = -2 q
      dev == RAbs(RAdd(fd, RMul(R2, q)))
  IN (IF RLeq(dev, RMul(RPow2(-50), RMul(R2, q))) THEN <<>> ELSE Tool("dphi_formula", RToStr(dev)))
     \o (IF Certified(c) /\ ~RLeq(RAbs(RSub(DphiOracle(c).q, q)), DphiOracle(c).eq)
         THEN Tool("oracle_enclosure", RToStr(RSub(DphiOracle(c).q, q))) ELSE <<>>)

\* the oracle's enclosure must be sharp enough to decide (otherwise the judgment would be vacuous)
OracleSharp(c, o) ==
  IF RSign(c.nb) = 0 \/ ~Certified(c) \/ (RLeq(RMul(Dec(1, 9), o.eq), o.q) /\ RLeq(RMul(Dec(1, 9), o.ep), o.p)) THEN <<>>
  ELSE Tool("oracle_precision", RToStr(o.eq))

---------------------------------------------------------------------------
\* domain of the property, re-derived from the logged operands
ShapeOk(e) ==
  /\ e.m >= 1 /\ e.n >= 1 /\ e.m <= 40 /\ e.n <= 40
  /\ Len(e.J) = e.m /\ \A i \in 1..e.m : Len(e.J[i]) = e.n
  /\ FinM(e.J)
InRange(x) == RLeq(Dec(99, -8), x) /\ RLeq(x, Dec(101, 4))       \* 1e-6 .. 1e6 (1 % slack for the end points as doubles)
SysDomain(e, reg) ==
  IF ~ShapeOk(e) THEN Tool("domain", "shape")
  ELSE IF ~(Len(e.d) = e.n /\ Len(e.r) = e.m /\ FinV(e.d) /\ FinV(e.r) /\ FinQ(reg)) THEN Tool("domain", "operands")
  ELSE IF \E i \in 1..e.n : RSign(RFromDouble(e.d[i])) <= 0 THEN Tool("domain", "d not positive")
  ELSE IF ~InRange(RFromDouble(reg)) THEN Tool("domain", "lambda/Delta outside 1e-6..1e6")
  ELSE IF Len(e.res) < 3 \/ e.res[1].st # "dense" THEN Tool("domain", "results")
  ELSE <<>>

IsSparse(st) == st \in {"srow", "scol", "scolz", "srowu"}
KnownSt(st) == IsSparse(st) \/ st \in {"dense", "drow", "dfix"}

\* rank pattern of J
ZeroCol(J, j) == \A i \in 1..Len(J) : RSign(J[i][j]) = 0
DepWitness(J, dep) ==
  /\ dep[1] >= 1 /\ dep[2] >= 1 /\ dep[1] # dep[2] /\ dep[1] # dep[3]
  /\ dep[1] <= Len(J[1]) /\ dep[2] <= Len(J[1]) /\ dep[3] <= Len(J[1])
  /\ \A i \in 1..Len(J) :
       REq(J[i][dep[1]], RAdd(RMul(RFromInt(dep[4]), J[i][dep[2]]),
                              IF dep[3] >= 1 THEN RMul(RFromInt(dep[5]), J[i][dep[3]]) ELSE R0))
Pattern(J, dep) ==
  LET n == Len(J[1])
      nz == Cardinality({j \in 1..n : ZeroCol(J, j)})
  IN IF nz = n THEN "zero"
     ELSE IF nz > 0 THEN "zcol"
     ELSE IF DepWitness(J, dep) THEN "dep"
     ELSE IF n > Len(J) THEN "wide"
     ELSE "gen"
\* SCALE strata: magnitude of the entries of J; weight of J'J against the regularisation lambda D^2
ScaleClass(J) ==
  LET a == MaxAbs(J)
  IN IF RSign(a) = 0 THEN "zero" ELSE IF RLt(a, Dec(1, -5)) THEN "tiny" ELSE IF RLt(a, Dec(3, -2)) THEN "small"
     ELSE IF RLeq(a, Dec(3, 1)) THEN "unit" ELSE "large"
Pats == {"zero", "zcol", "dep", "wide", "gen"}
Regime(c) == IF c.absorbed THEN "reg_absorbed" ELSE "reg_effective"
Balance(c) ==
  IF RLeq(RMul(Dec(1, 3), c.trR), c.trJ) THEN "Jdominant"
  ELSE IF RLeq(RMul(Dec(1, -3), c.trR), c.trJ) THEN "balanced" ELSE "Rdominant"
SizeClass(e) == IF e.m <= 6 /\ e.n <= 6 THEN "S" ELSE IF e.m <= 20 /\ e.n <= 20 THEN "M" ELSE "L"
\* nearest decade of a positive rational: 10^(k-1/2) <= x < 10^(k+1/2)
Decade(x) == LET x2 == SqR(x) IN CHOOSE k \in -8..8 : RLeq(Pow10(2 * k - 1), x2) /\ RLt(x2, Pow10(2 * k + 1))
DKeys(d) ==
  (IF \E i \in 1..Len(d) : RLeq(d[i], Dec(1, -6)) THEN <<"d|le1e-6">> ELSE <<>>)
  \o (IF \E i \in 1..Len(d) : RLeq(Dec(1, 3), d[i]) THEN <<"d|ge1e3">> ELSE <<>>)
  \o (IF \A i \in 1..Len(d) : REq(d[i], R1) THEN <<"d|ones">> ELSE <<>>)
  \o (IF \A i \in 1..Len(d) : RLeq(d[i], Dec(1, -3)) THEN <<"d|all<=1e-3">> ELSE <<>>)
  \o (IF \A i \in 1..Len(d) : RLeq(Dec(1, 2), d[i]) THEN <<"d|all>=1e2">> ELSE <<>>)
RKeys(c) == IF RSign(VMaxAbs(c.r)) = 0 THEN <<"r|zero">> ELSE IF RSign(c.nb) = 0 THEN <<"r|orthogonal">> ELSE <<"r|generic">>
StKeys(e) == [k \in 1..Len(e.res) |-> e.op \o "|st|" \o e.res[k].st]
ShapeKey(e) == IF e.m <= 6 /\ e.n <= 6 THEN <<e.op \o "|shape|" \o ToString(e.m) \o "x" \o ToString(e.n)>> ELSE <<>>
IntEntries(J) == \A i \in 1..Len(J) : \A j \in 1..Len(J[1]) : REq(J[i][j], RFloor(J[i][j]))

---------------------------------------------------------------------------
\* op "ldlt": solve_linear_ldlt(J, d, r, lam, dphi) for every storage
TLdlt(e) ==
  LET J == M(e.J)
      c == Ctx(J, V(e.d), V(e.r), RFromDouble(e.lam))
      cert == Certified(c)
      nres == Len(e.res)
      AllFin(k) == FinV(e.res[k].x) /\ FinV(e.res[k].x0)
      o == DphiOracle(c)
      One(k) ==
        LET rk == e.res[k]  st == rk.st
        IN IF ~KnownSt(st) THEN Tool("unknown_storage", st)
           ELSE IF Len(rk.x) # c.n \/ Len(rk.x0) # c.n THEN Tool("domain", "length of dx")
           ELSE IF ~AllFin(k) THEN Fail("C10.normal", st, "non-finite", "finite")
           ELSE NormalChk("C10.normal", st, c, V(rk.x))
                \o NormalChk("C10.normal", st, c, V(rk.x0))
                \o (IF IsSparse(st) /\ cert /\ AllFin(1) THEN AgreeChk(st, V(rk.x), V(e.res[1].x)) ELSE <<>>)
                \o DphiChk(st, c, o, rk.dphi)
  IN ForAllCat(nres, One)
     \o OracleSharp(c, o)
     \o (IF c.n <= 3 /\ RSign(c.nb) # 0 THEN FormulaSelfCheck(c) ELSE <<>>)
LdltKeys(e) ==
  LET J == M(e.J)  c == Ctx(J, V(e.d), V(e.r), RFromDouble(e.lam))
      pat == Pattern(J, e.dep)  sz == SizeClass(e)
      k == IF Certified(c) THEN "cert" ELSE "excluded"
  IN <<"ldlt|" \o pat \o "|" \o sz \o "|" \o k,
       "agree|" \o k \o "|" \o ScaleClass(J),
       "ldlt|scale|" \o ScaleClass(J) \o "|" \o Balance(c),
       "ldlt|" \o Regime(c) \o "|" \o pat,
       "dphi|" \o (IF RSign(c.nb) = 0 THEN "zero" ELSE DphiClass(c)) \o "|" \o sz,
       "ldlt|lambda|1e" \o ToString(Decade(c.lam)),
       "ldlt|entries|" \o (IF IntEntries(J) THEN "integer" ELSE "double")>>
     \o DKeys(c.d) \o RKeys(c) \o StKeys(e) \o ShapeKey(e)
     \o (IF c.n <= 3 /\ RSign(c.nb) # 0 THEN <<"dphi|limit-definition-selfcheck">> ELSE <<>>)

\* op "tr": solve_trust_region(J, d, r, Delta) for every storage
\* lam is the double nearest to 1/Delta  <=>  neither neighbour of lam is strictly closer to 1/Delta
NearestDouble(lam, q) ==
  LET e2 == RLog2Floor(lam)                       \* 2^e2 <= lam < 2^(e2+1)   (normal range)
      ulp == RPow2(e2 - 52)
      up == RAdd(lam, ulp)
      dn == IF REq(lam, RPow2(e2)) THEN RSub(lam, RPow2(e2 - 53)) ELSE RSub(lam, ulp)
      dist == RAbs(RSub(lam, q))
  IN RLeq(dist, RAbs(RSub(up, q))) /\ RLeq(dist, RAbs(RSub(dn, q)))
TTr(e) ==
  LET J == M(e.J)  d == V(e.d)  r == V(e.r)
      Delta == RFromDouble(e.Delta)
      inv == RDiv(R1, Delta)
      lam1 == IF FinQ(e.res[1].lam) /\ RSign(RFromDouble(e.res[1].lam)) > 0 THEN RFromDouble(e.res[1].lam) ELSE inv
      c1 == Ctx(J, d, r, lam1)
      r2 == VDot(r, r)
      One(k) ==
        LET rk == e.res[k]  st == rk.st
        IN IF ~KnownSt(st) THEN Tool("unknown_storage", st)
           ELSE IF Len(rk.x) # c1.n THEN Tool("domain", "length of dx")
           ELSE IF ~FinQ(rk.lam) THEN Fail("C10.tr.lambda", st, "non-finite", "finite")
           ELSE LET lam == RFromDouble(rk.lam)
                    lamOk == RSign(lam) > 0 /\ NearestDouble(lam, inv)
                    c == IF REq(lam, lam1) THEN c1 ELSE IF RSign(lam) > 0 THEN Ctx(J, d, r, lam) ELSE c1
                IN Chk("C10.tr.lambda", st, lamOk, RMul(lam, Delta), R1)
                   \o (IF ~FinV(rk.x) THEN Fail("C10.tr.normal", st, "non-finite", "finite")
                       ELSE LET x == V(rk.x)
                                f == VAdd(MVec(J, x), r)
                                f2 == VDot(f, f)
                                bound == RMul(r2, RAdd(R1, Dec(1, -12)))
                            IN (IF RSign(lam) > 0 THEN NormalChk("C10.tr.normal", st, c, x) ELSE <<>>)
                               \o Chk("C10.tr.descent", st, RLeq(f2, bound), IF RSign(r2) = 0 THEN f2 ELSE RDiv(f2, r2),
                                      RAdd(R1, Dec(1, -12))))
  IN ForAllCat(Len(e.res), One)
TrKeys(e) ==
  LET J == M(e.J)  pat == Pattern(J, e.dep)
      c == Ctx(J, V(e.d), V(e.r), RDiv(R1, RFromDouble(e.Delta)))
  IN <<"tr|" \o pat \o "|" \o SizeClass(e), "tr|Delta|1e" \o ToString(Decade(RFromDouble(e.Delta))),
       "tr|scale|" \o ScaleClass(J) \o "|" \o Balance(c), "tr|" \o Regime(c) \o "|" \o pat>>
     \o StKeys(e) \o ShapeKey(e)

\* op "colnorm": colwise_norm(J) for every storage
TColnorm(e) ==
  LET J == M(e.J)  m == e.m  n == e.n
      s == RForce([j \in 1..n |-> LET cj == MCol(J, j) IN VDot(cj, cj)])
      tol == Dec(1, -14)
      One(k) ==
        LET rk == e.res[k]  st == rk.st
        IN IF ~KnownSt(st) THEN Tool("unknown_storage", st)
           ELSE IF Len(rk.out) # n THEN Fail("C10.colnorm", st, "wrong length", ToString(n))
           ELSE IF ~FinV(rk.out) THEN Fail("C10.colnorm", st, "non-finite", "finite")
           ELSE LET out == V(rk.out)
                    Col(j) == LET dev == RAbs(RSub(SqR(out[j]), s[j]))
                              IN Chk("C10.colnorm", st, RSign(out[j]) >= 0 /\ RLeq(dev, RMul(tol, s[j])),
                                     IF RSign(s[j]) = 0 THEN dev ELSE RDiv(dev, s[j]), tol)
                IN ForAllCat(n, Col)
  IN ForAllCat(Len(e.res), One)
ColnormKeys(e) ==
  LET J == M(e.J) IN <<"colnorm|" \o Pattern(J, e.dep) \o "|" \o SizeClass(e), "colnorm|scale|" \o ScaleClass(J)>> \o StKeys(e) \o ShapeKey(e)

---------------------------------------------------------------------------
Check(e) ==
  CASE e.op = "ldlt" -> LET dp == SysDomain(e, e.lam) IN IF dp # <<>> THEN dp ELSE TLdlt(e)
    [] e.op = "tr" -> LET dp == SysDomain(e, e.Delta) IN IF dp # <<>> THEN dp ELSE TTr(e)
    [] e.op = "colnorm" -> IF ~ShapeOk(e) \/ Len(e.res) < 3 THEN Tool("domain", "shape") ELSE TColnorm(e)
    [] OTHER -> Tool("unknown_op", e.op)

Keys(e, res) ==
  IF \E i \in 1..Len(res) : res[i].clause = "TOOL.domain" THEN <<>>
  ELSE CASE e.op = "ldlt" -> LdltKeys(e)
         [] e.op = "tr" -> TrKeys(e)
         [] e.op = "colnorm" -> ColnormKeys(e)
         [] OTHER -> <<>>

RECURSIVE AddKeys(_, _, _)
AddKeys(c, ks, k) ==
  IF k > Len(ks) THEN c
  ELSE AddKeys(IF ks[k] \in DOMAIN c THEN [c EXCEPT ![ks[k]] = @ + 1] ELSE c @@ (ks[k] :> 1), ks, k + 1)

\* One step, as an expression: LET definitions are evaluated once here (TLC does not cache LET definitions
\* at the action level, which made every rejected check re-evaluate the whole event).
Upd(a, e, ln) ==
  LET res == RForce(Check(e))
      ks == Keys(e, res)
      stratum == IF Len(ks) = 0 THEN "-" ELSE ks[1]
      regime == IF \E i \in 1..Len(ks) : ks[i] \in {"ldlt|reg_absorbed|" \o q : q \in Pats} \cup {"tr|reg_absorbed|" \o q : q \in Pats}
                THEN "reg_absorbed" ELSE "-"
  IN [bad |-> a.bad \o RForce([i \in 1..Len(res) |-> [line |-> ln, op |-> e.op, id |-> e.id, stratum |-> stratum, regime |-> regime] @@ res[i]]),
      cov |-> AddKeys(a.cov, ks, 1)]

Init == l = 1 /\ acc = [bad |-> <<>>, cov |-> <<>>]

Next ==
  /\ l <= Len(Tr)
  /\ acc' = Upd(acc, Tr[l], l)
  /\ l' = l + 1

Spec == Init /\ [][Next]_vars

Report ==
  l = Len(Tr) + 1 =>
    JsonSerialize(OutFile, [lines |-> Len(Tr), consumed |-> l - 1, bad |-> acc.bad,
                            cov |-> [k \in DOMAIN acc.cov |-> acc.cov[k]]])
=============================================================================
