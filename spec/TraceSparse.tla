----------------------------- MODULE TraceSparse -----------------------------
(* Trace specification for the "sparse" harness family (property C19).         *)
(*                                                                             *)
(* Every line is either                                                        *)
(*  - one call of ad_sparse / dr_exp_sparse / dr_expinv_sparse / d2r_exp_sparse *)
(*    / d2r_expinv_sparse of the real library: tangent, block index i0, the     *)
(*    published pattern variable, the host matrix before and after the call    *)
(*    (Eigen's three compressed arrays + isCompressed()) and the result of the *)
(*    dense routine, every number exact; or                                    *)
(*  - the three published pattern variables of one group ("patterns").         *)
(*                                                                             *)
(* Clauses (DESIGN.md Appendix C):                                             *)
(*  C19.block    the designated positions hold the dense routine's values      *)
(*  C19.frame    .structure (index arrays / shape unchanged), .compressed,     *)
(*               .values (every other stored value unchanged)                  *)
(*  C19.pattern  .ad/.dexp/.d2exp: published pattern contains the STRUCTURAL   *)
(*               pattern that this module computes itself from Groups!Xad      *)
(*               (powers of ad at integer tangents, exact arithmetic);         *)
(*               .sample: no dense value outside the published pattern is      *)
(*               non-zero on a recorded call                                   *)
(* A call is first compared with the prediction of the design model            *)
(* (SparseHost!FlatWriteP applied to the recorded host before the call); only  *)
(* if the prediction is not met are the clauses evaluated one by one.          *)
(* Values are compared as numbers: the sign of a zero is not compared.         *)
EXTENDS Tol, Json, IOUtils, TLC, FiniteSets

TraceFile == IOEnv.TRACE
OutFile == IOEnv.VERDICT
Tr == ndJsonDeserialize(TraceFile)

VARIABLES l, bad, cov
vars == <<l, bad, cov>>

\* the design model's operators (its variables are not used here)
SHJ == INSTANCE SparseHost WITH Variant <- "code", Kind <- "J", MaxLead <- 0, MaxTail <- 0, MaxExtra <- 0,
          AllowMissing <- FALSE, Scope <- "small", g <- 0, i0 <- 0, h0 <- 0, h <- 0, todo <- 0, cur <- 0, gens <- 0, phase <- 0
SHH == INSTANCE SparseHost WITH Variant <- "code", Kind <- "H", MaxLead <- 0, MaxTail <- 0, MaxExtra <- 0,
          AllowMissing <- FALSE, Scope <- "small", g <- 0, i0 <- 0, h0 <- 0, h <- 0, todo <- 0, cur <- 0, gens <- 0, phase <- 0

Fail(clause, err, tol) == <<[clause |-> clause, err |-> err, tol |-> tol]>>

---------------------------------------------------------------------------
\* logged numbers: [s, hi, lo, e]; zeros are normalised (the sign of a zero is not compared)
ZeroQ == <<1, 0, 0, 0>>
QN(q) == IF q[2] = 0 /\ q[3] = 0 /\ q[4] = 0 THEN ZeroQ ELSE <<q[1], q[2], q[3], q[4]>>
QStr(q) == IF q[4] > 100000 THEN "non-finite" ELSE RToStr(RFromDouble(q))
PStr(p) == "(" \o ToString(p[1]) \o "," \o ToString(p[2]) \o ")"

---------------------------------------------------------------------------
\* compressed-column arrays -> positions <<row, col>> (0-based) in storage order
\* (hosts of Hessians at large offsets have thousands of mostly empty columns: only non-empty columns are visited)
NonEmptyCols(d) == {c \in 1..d.cols : d.outer[c + 1] > d.outer[c]}
PosSet(d) == UNION {{<<d.inner[k], c - 1>> : k \in (d.outer[c] + 1)..d.outer[c + 1]} : c \in NonEmptyCols(d)}
\* index (1-based) of the stored position p
IdxOf(d, p) == CHOOSE k \in (d.outer[p[2] + 1] + 1)..d.outer[p[2] + 2] : d.inner[k] = p[1]
\* the recorded arrays are well-formed (otherwise the recording is broken: tool error)
WellFormed(d) ==
  /\ Len(d.outer) = d.cols + 1 /\ d.outer[1] = 0 /\ d.outer[Len(d.outer)] = Len(d.inner)
  /\ \A c \in 1..d.cols : d.outer[c] <= d.outer[c + 1]
  /\ \A k \in 1..Len(d.inner) : d.inner[k] >= 0 /\ d.inner[k] < d.rows
  /\ ("vals" \in DOMAIN d => Len(d.vals) = Len(d.inner))
\* host record of the design model
HostOf(d) ==
  LET st == PosSet(d)
  IN [rows |-> d.rows, cols |-> d.cols, st |-> st, val |-> [p \in st |-> QN(d.vals[IdxOf(d, p)])], comp |-> (d.comp = 1)]

---------------------------------------------------------------------------
\* documented designation of block positions and its inverse (used for classification only)
KindOf(op) == IF op = "ad" THEN "AD" ELSE IF op \in {"dr_exp", "dr_expinv"} THEN "J" ELSE "H"
HostPos(kind, R, n, i0, p) == IF kind = "H" THEN SHH!HostPos(R, n, i0, p) ELSE SHJ!HostPos(R, n, i0, p)
InBlock(kind, R, n, i0, q) ==
  /\ q[1] >= i0 /\ q[1] < i0 + n
  /\ IF kind = "H" THEN LET b == q[2] \div R  c == q[2] % R IN b >= i0 /\ b < i0 + n /\ c >= i0 /\ c < i0 + n
     ELSE q[2] >= i0 /\ q[2] < i0 + n
\* pattern position of an in-block host position
BlockPos(kind, R, n, i0, q) ==
  IF kind = "H" THEN <<q[1] - i0, n * ((q[2] \div R) - i0) + ((q[2] % R) - i0)>> ELSE <<q[1] - i0, q[2] - i0>>
DenseAt(e, p) == QN(e.dense[p[1] + 1][p[2] + 1])
Shape(kind, n) == IF kind = "H" THEN (0..(n - 1)) \X (0..(n * n - 1)) ELSE (0..(n - 1)) \X (0..(n - 1))

---------------------------------------------------------------------------
\* one recorded call
\* tool-level sanity of the recording and of the host the harness built (the property's precondition)
CallProblems(e) ==
  LET kind == KindOf(e.op)  n == e.n
  IN IF ~(WellFormed(e.pre) /\ WellFormed(e.post) /\ WellFormed(e.pat)) THEN Fail("TOOL.malformed_arrays", e.op, "")
     ELSE IF n # Dof(e.g) \/ Len(e.a) # n THEN Fail("TOOL.dof", e.op, "")
     ELSE IF e.pre.comp # 1 THEN Fail("TOOL.precondition", "host not compressed before the call", "")
     ELSE IF e.pat.rows # n \/ e.pat.cols # (IF kind = "H" THEN n * n ELSE n) THEN Fail("TOOL.pattern_shape", e.op, "")
     ELSE IF Len(e.dense) # n \/ (n > 0 /\ Len(e.dense[1]) # e.pat.cols) THEN Fail("TOOL.dense_shape", e.op, "")
     ELSE IF kind = "AD" /\ (e.pre.rows # n \/ e.pre.cols # n \/ e.i0 # 0) THEN Fail("TOOL.precondition", "ad host must be Dof x Dof", "")
     ELSE IF kind # "AD" /\ (e.pre.rows < e.i0 + n \/ e.pre.cols < (IF kind = "H" THEN e.pre.rows * (e.i0 + n) ELSE e.i0 + n))
          THEN Fail("TOOL.precondition", "host too small", "")
     ELSE LET P == PosSet(e.pat)  st == PosSet(e.pre)
          IN IF \E p \in P : HostPos(kind, e.pre.rows, n, e.i0, p) \notin st
             THEN Fail("TOOL.precondition", "host lacks a designated position", "") ELSE <<>>

\* C19.pattern.sample: a dense value outside the published pattern is non-zero
SampleOutside(e, kind, P) == {p \in Shape(kind, e.n) : p \notin P /\ DenseAt(e, p) # ZeroQ}

\* clause-by-clause evaluation (only when the model's prediction is not met)
Detail(e, kind, pre, post, P) ==
  LET n == e.n  R == pre.rows  i0 == e.i0
      structOk == post.rows = pre.rows /\ post.cols = pre.cols /\ post.st = pre.st
                  /\ (post.comp => (e.post.outer = e.pre.outer /\ e.post.inner = e.pre.inner))
      desig == {HostPos(kind, R, n, i0, p) : p \in P}
      inv == [q \in desig |-> CHOOSE p \in P : HostPos(kind, R, n, i0, p) = q]
      blockBad == IF kind = "AD" THEN {q \in pre.st : post.val[q] # DenseAt(e, q)}
                  ELSE {q \in desig : post.val[q] # DenseAt(e, inv[q])}
      \* any other stored entry: unchanged; an entry inside the block may instead hold the dense value (= reading
      \* "the block equals the dense matrix"), both readings of the property are accepted
      frameBad == IF kind = "AD" THEN {}
                  ELSE {q \in pre.st \ desig :
                          /\ post.val[q] # pre.val[q]
                          /\ ~(InBlock(kind, R, n, i0, q) /\ post.val[q] = DenseAt(e, BlockPos(kind, R, n, i0, q)))}
      newPos == post.st \ pre.st
      lostPos == pre.st \ post.st
  IN (IF structOk THEN <<>>
      ELSE Fail("C19.frame.structure",
                "shape " \o ToString(pre.rows) \o "x" \o ToString(pre.cols) \o " -> " \o ToString(post.rows) \o "x" \o ToString(post.cols)
                \o ", stored " \o ToString(Cardinality(pre.st)) \o " -> " \o ToString(Cardinality(post.st))
                \o (IF newPos # {} THEN ", inserted " \o PStr(CHOOSE q \in newPos : TRUE) ELSE "")
                \o (IF lostPos # {} THEN ", removed " \o PStr(CHOOSE q \in lostPos : TRUE) ELSE ""),
                "index arrays unchanged"))
     \o (IF post.comp THEN <<>> ELSE Fail("C19.frame.compressed", "isCompressed() = false after the call", "true"))
     \o (IF structOk /\ blockBad # {}
         THEN LET q == CHOOSE x \in blockBad : TRUE
                  want == IF kind = "AD" THEN DenseAt(e, q) ELSE DenseAt(e, inv[q])
              IN Fail("C19.block", ToString(Cardinality(blockBad)) \o " position(s), e.g. host " \o PStr(q) \o " holds " \o QStr(post.val[q]),
                      "dense value " \o QStr(want))
         ELSE <<>>)
     \o (IF structOk /\ frameBad # {}
         THEN LET q == CHOOSE x \in frameBad : TRUE
              IN Fail("C19.frame.values", ToString(Cardinality(frameBad)) \o " position(s), e.g. host " \o PStr(q) \o " holds " \o QStr(post.val[q]),
                      "before: " \o QStr(pre.val[q]))
         ELSE <<>>)
     \o (IF ~structOk /\ post.comp /\ kind # "AD"
         \* a writer that put values elsewhere: say what the designated block looks like
         THEN LET miss == {q \in desig : q \notin post.st \/ post.val[q] # DenseAt(e, inv[q])}
              IN IF miss = {} THEN <<>> ELSE Fail("C19.block", ToString(Cardinality(miss)) \o " designated position(s) do not hold the dense value", "")
         ELSE <<>>)

\* <<verdicts, "exact" | "lenient" | "bad">>
CallCheck(e) ==
  LET kind == KindOf(e.op)  n == e.n
      P == PosSet(e.pat)
      pre == HostOf(e.pre)
      post == HostOf(e.post)
      predicted ==
        IF kind = "AD" THEN [pre EXCEPT !.val = [q \in pre.st |-> DenseAt(e, q)]]
        ELSE LET D == [p \in P |-> DenseAt(e, p)]
             IN IF kind = "J" THEN SHJ!FlatWriteP(pre, P, n, e.i0, D) ELSE SHH!FlatWriteP(pre, P, n, e.i0, D)
      outside == SampleOutside(e, kind, P)
      pat == IF outside = {} THEN <<>>
             ELSE LET p == CHOOSE x \in outside : TRUE
                  IN Fail("C19.pattern.sample", "dense entry " \o PStr(p) \o " = " \o QStr(DenseAt(e, p)) \o " is outside the published pattern ("
                          \o ToString(Cardinality(outside)) \o " such entries)", "0")
  IN IF predicted = post /\ e.post.outer = e.pre.outer /\ e.post.inner = e.pre.inner THEN <<pat, "exact">>
     ELSE LET d == Detail(e, kind, pre, post, P) IN <<d \o pat, IF d = <<>> THEN "lenient" ELSE "bad">>

---------------------------------------------------------------------------
\* strata of a call, re-derived from the logged operands
NonZeroCount(a) == Cardinality({i \in 1..Len(a) : QN(a[i]) # ZeroQ})
RECURSIVE MaxSeq(_, _)
MaxSeq(s, k) == IF k = 0 THEN R0 ELSE RMax(s[k], MaxSeq(s, k - 1))
TanStratum(e) ==
  LET nz == NonZeroCount(e.a)
  IN IF nz = 0 THEN "zero"
     ELSE IF \E i \in 1..Len(e.a) : e.a[i][4] > 100000 THEN "nonfinite"
     ELSE LET r == GRotNorm2(e.g, RVecFromDoubles(e.a))
              th == IF Len(r) = 0 THEN "T" ELSE ThetaStratum(MaxSeq(r, Len(r)))
          IN (IF nz = 1 THEN "axis." ELSE "") \o th
HostStratum(e) ==
  LET kind == KindOf(e.op)  n == e.n  R == e.pre.rows  i0 == e.i0
      P == PosSet(e.pat)
      desig == {HostPos(kind, R, n, i0, p) : p \in P}
      extra == PosSet(e.pre) \ desig
      xin == \E q \in extra : InBlock(kind, R, n, i0, q)
      xout == \E q \in extra : ~InBlock(kind, R, n, i0, q)
  IN "i0=" \o (IF i0 <= 3 THEN ToString(i0) ELSE IF i0 = n THEN "Dof" ELSE "big")
     \o (IF R > i0 + n THEN ",tail" ELSE ",notail")
     \o (IF xin THEN ",in" ELSE "") \o (IF xout THEN ",around" ELSE "") \o (IF ~xin /\ ~xout THEN ",bare" ELSE "")

---------------------------------------------------------------------------
\* C19.pattern: the structural patterns, computed here from the documented matrix forms only.
\*   ad(a) = sum_k a_k G_k with G_k = Xad(e_k) (exact).  dr_exp(a) = sum_k c_k ad(a)^k with every c_k # 0 and the
\*   terms homogeneous of different degrees in a, so entry (i,j) is non-zero for some a iff it is non-zero in some
\*   power ad(a)^k for some a.  LOWER bound L: union of the non-zero positions of ad(a)^k at a few integer tangents
\*   (each with a witness); UPPER bound U: reflexive-transitive closure of the Boolean pattern of ad.  If L = U the
\*   structural pattern is decided exactly.  dr_expinv = sum_k b_k ad^k has a pattern inside U as well.
\*   Hessians: d/da_m ad(a)^k = sum_p ad^p G_m ad^(k-1-p); upper bound U . pattern(G_m) . U.
\*   Layout: H[j, i*n + m] = d J(i,j) / d a_m.
NZ(A) == LET n == Len(A) IN {p \in (0..(n - 1)) \X (0..(n - 1)) : RSign(A[p[1] + 1][p[2] + 1]) # 0}
BoolMul(X, Y, n) == {p \in (0..(n - 1)) \X (0..(n - 1)) : \E k \in 0..(n - 1) : <<p[1], k>> \in X /\ <<k, p[2]>> \in Y}
RECURSIVE Closure(_, _, _)
Closure(U, B, n) == LET U2 == U \cup BoolMul(U, B, n) IN IF U2 = U THEN U ELSE Closure(U2, B, n)
DiagSet(n) == {<<i, i>> : i \in 0..(n - 1)}

Primes == <<2, 3, 5, 7, 11, 13, 17, 19, 23, 29, 31, 37, 41, 43, 47, 53, 59, 61, 67, 71, 73, 79, 83, 89, 97, 101, 103, 107, 109, 113>>
\* small integer tangents used as witnesses
WitnessTangents(n) ==
  << [i \in 1..n |-> Primes[i]],
     [i \in 1..n |-> IF i % 2 = 0 THEN Primes[n + 1 - i] ELSE 0 - Primes[n + 1 - i]] >>
RECURSIVE LinComb(_, _, _)
LinComb(G, a, k) == IF k = 0 THEN MZero(Len(G), Len(G)) ELSE MAdd(LinComb(G, a, k - 1), MScale(RFromInt(a[k]), G[k]))

\* L for the Jacobian: <<set, k reached>>
RECURSIVE LowerJ(_, _, _, _, _, _)
LowerJ(As, Ps, k, acc, U, kmax) ==
  LET acc2 == acc \cup UNION {NZ(Ps[t]) : t \in 1..Len(Ps)}
  IN IF acc2 = U \/ k >= kmax THEN <<acc2, k>>
     ELSE LowerJ(As, RForce([t \in 1..Len(As) |-> MMul(Ps[t], As[t])]), k + 1, acc2, U, kmax)
\* L for the Hessian; state per tangent t: P[t] = A^(k-1), D[t][m] = d/da_m A^(k-1); acc in H-layout positions
HPos(n, p, m) == <<p[2], p[1] * n + (m - 1)>>        \* p = <<i,j>> 0-based, m 1-based
RECURSIVE LowerH(_, _, _, _, _, _, _, _)
LowerH(As, G, Ps, Ds, k, acc, Ub, kmax) ==
  \* step to power k
  LET n == Len(G)
      Ds2 == RForce([t \in 1..Len(As) |-> [m \in 1..n |-> MAdd(MMul(Ds[t][m], As[t]), MMul(Ps[t], G[m]))]])
      Ps2 == RForce([t \in 1..Len(As) |-> MMul(Ps[t], As[t])])
      acc2 == acc \cup UNION {UNION {{HPos(n, p, m) : p \in NZ(Ds2[t][m])} : m \in 1..n} : t \in 1..Len(As)}
  IN IF acc2 = Ub \/ k >= kmax THEN <<acc2, k>> ELSE LowerH(As, G, Ps2, Ds2, k + 1, acc2, Ub, kmax)

\* printable group name for the coverage cells
RECURSIVE GName(_)
RECURSIVE GNames(_, _)
GNames(ps, k) == IF k > Len(ps) THEN "" ELSE (IF k > 1 THEN "," ELSE "") \o GName(ps[k]) \o GNames(ps, k + 1)
GName(g) == IF g.k = "B" THEN "B(" \o GNames(g.parts, 1) \o ")"
            ELSE IF g.k \in {"R", "SEK3"} THEN g.k \o ToString(g.n) ELSE g.k

ShowSet(S) ==
  LET c == Cardinality(S)  p == CHOOSE x \in S : TRUE
  IN ToString(c) \o " position(s), e.g. " \o PStr(p)

PatternsCheck(e) ==
  LET g == e.g  n == e.n
      G == RForce([k \in 1..n |-> Xad(g, VUnit(n, k))])
      Bm == [m \in 1..n |-> NZ(G[m])]
      B == UNION {Bm[m] : m \in 1..n}
      U == Closure(DiagSet(n), B, n)
      T == WitnessTangents(n)
      As == RForce([t \in 1..Len(T) |-> LinComb(G, T[t], n)])
      I == MId(n)
      kmax == 2 * n + 2
      LJ == LowerJ(As, RForce([t \in 1..Len(T) |-> I]), 0, {}, U, kmax)
      \* upper bound for the Hessian pattern: (i,j,m) such that some (p,q) in Bm has (i,p) in U and (q,j) in U
      UbHx == UNION {UNION {{HPos(n, <<i, j>>, m) : i \in {x \in 0..(n - 1) : <<x, p[1]>> \in U},
                                                    j \in {y \in 0..(n - 1) : <<p[2], y>> \in U}} : p \in Bm[m]} : m \in 1..n}
      Z == MZero(n, n)
      LH == IF UbHx = {} THEN <<{}, 0>>
            ELSE LowerH(As, G, RForce([t \in 1..Len(T) |-> I]), RForce([t \in 1..Len(T) |-> [m \in 1..n |-> Z]]), 1, {}, UbHx, kmax)
      pad == PosSet(e.ad)  pj == PosSet(e.dexp)  ph == PosSet(e.d2exp)
      shapeOk == /\ WellFormed(e.ad) /\ WellFormed(e.dexp) /\ WellFormed(e.d2exp)
                 /\ e.ad.rows = n /\ e.ad.cols = n /\ e.dexp.rows = n /\ e.dexp.cols = n /\ e.d2exp.rows = n /\ e.d2exp.cols = n * n
                 /\ n = Dof(g)
  IN IF ~shapeOk THEN <<Fail("TOOL.pattern_shape", "patterns", ""), <<>>>>
     ELSE
     << (IF B \subseteq pad THEN <<>>
         ELSE Fail("C19.pattern.ad", "ad pattern lacks " \o ShowSet(B \ pad) \o ": non-zero in ad of a unit tangent", "published pattern contains every structural non-zero"))
        \o (IF LJ[1] \subseteq pj THEN <<>>
            ELSE Fail("C19.pattern.dexp", "d_exp pattern lacks " \o ShowSet(LJ[1] \ pj) \o ": non-zero in a power ad(a)^k, k <= " \o ToString(LJ[2])
                      \o ", a = " \o ToString(T[1]) \o " or " \o ToString(T[2]), "published pattern contains every structural non-zero"))
        \o (IF LH[1] \subseteq ph THEN <<>>
            ELSE Fail("C19.pattern.d2exp", "d2_exp pattern lacks " \o ShowSet(LH[1] \ ph) \o ": non-zero in d/da_m ad(a)^k, k <= " \o ToString(LH[2])
                      \o ", a = " \o ToString(T[1]) \o " or " \o ToString(T[2]), "published pattern contains every structural non-zero"))
        \o (IF LJ[1] = U THEN <<>> ELSE Fail("TOOL.pattern_undecided", "dexp: lower bound " \o ToString(Cardinality(LJ[1])) \o " upper bound " \o ToString(Cardinality(U)), ""))
        \o (IF LH[1] = UbHx THEN <<>> ELSE Fail("TOOL.pattern_undecided", "d2exp: lower bound " \o ToString(Cardinality(LH[1])) \o " upper bound " \o ToString(Cardinality(UbHx)), "")),
        \* informative counters: size of the structural patterns, published positions beyond them (allowed), power reached
        LET nm == "patterns|" \o GName(g) \o "/" \o e.sc \o "|"
        IN << <<nm \o "ad.structural", Cardinality(B)>>, <<nm \o "ad.published", Cardinality(pad)>>,
              <<nm \o "dexp.structural", Cardinality(U)>>, <<nm \o "dexp.published", Cardinality(pj)>>,
              <<nm \o "dexp.power_reached", LJ[2]>>,
              <<nm \o "d2exp.structural", Cardinality(UbHx)>>, <<nm \o "d2exp.published", Cardinality(ph)>>,
              <<nm \o "d2exp.power_reached", LH[2]>> >> >>

---------------------------------------------------------------------------
CallOps == {"ad", "dr_exp", "dr_expinv", "d2r_exp", "d2r_expinv"}

\* <<verdicts, coverage increments as <<key, count>> pairs>>
Step(e) ==
  IF e.op = "patterns" THEN LET r == PatternsCheck(e) IN <<r[1], <<<<"patterns|groups", 1>>>> \o r[2]>>
  ELSE IF e.op \in CallOps THEN
    LET pr == CallProblems(e)
    IN IF pr # <<>> THEN <<pr, <<>>>>
       ELSE LET c == CallCheck(e)
            IN <<c[1], << <<e.op \o "|tan|" \o TanStratum(e), 1>>, <<e.op \o "|host|" \o HostStratum(e), 1>>,
                          <<e.op \o "|model|" \o c[2], 1>> >> >>
  ELSE <<Fail("TOOL.unknown_op", e.op, ""), <<>>>>

RECURSIVE AddCov(_, _, _)
AddCov(c, incs, k) ==
  IF k > Len(incs) THEN c
  ELSE LET key == incs[k][1]  v == incs[k][2]
       IN AddCov(IF key \in DOMAIN c THEN [c EXCEPT ![key] = @ + v] ELSE c @@ (key :> v), incs, k + 1)

Init == l = 1 /\ bad = <<>> /\ cov = <<>>

Next ==
  /\ l <= Len(Tr)
  /\ LET e == Tr[l]
         r == Step(e)
         res == r[1]
         strat == IF e.op \in CallOps /\ r[2] # <<>> THEN TanStratum(e) ELSE "-"
     IN /\ bad' = bad \o [i \in 1..Len(res) |-> [line |-> l, op |-> e.op, stratum |-> strat] @@ res[i]]
        /\ cov' = AddCov(cov, r[2], 1)
  /\ l' = l + 1

Spec == Init /\ [][Next]_vars

Report ==
  l = Len(Tr) + 1 =>
    JsonSerialize(OutFile, [lines |-> Len(Tr), consumed |-> l - 1, bad |-> bad,
                            cov |-> [k \in DOMAIN cov |-> cov[k]]])
=============================================================================
