----------------------------- MODULE TraceSpline -----------------------------
(* Trace specification for the "spline" harness family (property C12).          *)
(* The harness replays operation programs on real smooth::Spline<K, G> objects   *)
(* in a register file; each event carries the operation, its arguments and the   *)
(* representation (five per-segment vectors, read through the SplineProbe hook)  *)
(* and public observations after the call.  The trace spec keeps, per register,  *)
(*   - the ABSTRACT curve (expression tree of SplineRef, any group), and         *)
(*   - for G = R the design model's implementation-shaped state (SplineCore),   *)
(* applies the same operation to both and compares:                             *)
(*   C12.rep     logged five vectors = SplineCore!Impl state        (G = R)     *)
(*   C12.eval / .concat_local / .concat_global / .crop / .cv / .cubic           *)
(*               logged evaluations, t_max, start, end = AEvG of the tree       *)
EXTENDS SplineRef, Json, IOUtils, TLC

TraceFile == IOEnv.TRACE
OutFile == IOEnv.VERDICT
Tr == ndJsonDeserialize(TraceFile)

SC(k) == INSTANCE SplineCore WITH K <- k, CropVariant <- "fixed"

\* the whole trace-validation state is ONE variable (see StepAll): position, bad steps, coverage, registers
VARIABLE st
vars == <<st>>

NReg == 6
V(v) == RVecFromDoubles(v)
D(q) == RFromDouble(q)
FinQ(q) == q[4] < 100000
FinV(v) == \A i \in 1..Len(v) : FinQ(v[i])

Fail(clause, err, tol) == <<[clause |-> clause, err |-> err, tol |-> tol]>>
ChkR(clause, ok, err, tol) == IF ok THEN <<>> ELSE Fail(clause, RToStr(err), RToStr(tol))

TolVal == Dec(1, -9)       \* curve values (matrix space)
TolDer == Dec(1, -7)       \* velocity / acceleration, relative to max(1, largest entry)
TolRep == Dec(1, -12)      \* representation vectors (double rounding of exact dyadic arithmetic)

IsR1(g) == g.k = "R" /\ g.n = 1
IdCoeffs(g) == GIdentity(g)

\* a register: abstract tree, model state (only meaningful for G = R), validity flag
\* ri: the model state i is in step with the library's representation.  It is lost (without a verdict) when a crop
\* boundary lies within rounding of a knot: the library's knots are rounded sums of durations, the model's are exact,
\* so the two may legitimately put the boundary into different segments (a sliver segment on one side only).  The
\* curve-level clauses (eval, t_max, start, end) go on; only the representation comparison stops for that register.
EmptyReg(g) == [t |-> GEmpty(IdCoeffs(g)), i |-> SC(1)!IEmpty(R0), ok |-> TRUE, ri |-> TRUE]

---------------------------------------------------------------------------
\* comparisons
CloseR(x, y, tol) == RLeq(RAbs(RSub(x, y)), RMul(tol, RMax(R1, RAbs(y))))
RECURSIVE AllClose(_, _, _, _)
AllClose(xs, ys, tol, i) == IF i > Len(xs) THEN TRUE ELSE CloseR(xs[i], ys[i], tol) /\ AllClose(xs, ys, tol, i + 1)
SeqClose(xs, ys, tol) == Len(xs) = Len(ys) /\ AllClose(xs, ys, tol, 1)

\* C12.rep: logged representation against the SplineCore state (G = R)
RepChk(e, s) ==
  LET k == e.K
      lg0 == D(e.g0[1])
      lt == V(e.end_t)
      lg == [i \in 1..Len(e.end_g) |-> D(e.end_g[i][1])]
      lT0 == V(e.T0)  lDel == V(e.Del)
      sizes == Len(lt) = Len(s.end_t) /\ Len(lg) = Len(s.end_g) /\ Len(e.Vs) = Len(s.Vs)
               /\ Len(lT0) = Len(s.T0) /\ Len(lDel) = Len(s.Del)
      vsok == \A i \in 1..Len(e.Vs) : \A j \in 1..k : CloseR(D(e.Vs[i][j][1]), s.Vs[i][j], TolRep)
  IN IF ~sizes THEN Fail("C12.rep.size", "sizes differ", "")
     ELSE (IF CloseR(lg0, s.g0, TolRep) THEN <<>> ELSE Fail("C12.rep.g0", RToStr(lg0), RToStr(s.g0)))
          \o (IF SeqClose(lt, s.end_t, TolRep) THEN <<>> ELSE Fail("C12.rep.end_t", "end times differ", ""))
          \o (IF SeqClose(lg, s.end_g, TolRep) THEN <<>> ELSE Fail("C12.rep.end_g", "end points differ", ""))
          \o (IF vsok THEN <<>> ELSE Fail("C12.rep.Vs", "velocities differ", ""))
          \o (IF SeqClose(lT0, s.T0, TolRep) THEN <<>> ELSE Fail("C12.rep.T0", "crop offsets differ", ""))
          \o (IF SeqClose(lDel, s.Del, TolRep) THEN <<>> ELSE Fail("C12.rep.Del", "crop scales differ", ""))

\* observation of a value (coefficients) against either one-sided abstract value
ValOk(g, c, M1, M2) == LET X == GMat(g, c) IN RelOkM(X, M1, TolVal) \/ RelOkM(X, M2, TolVal)
ValErr(g, c, M1) == RelErrM(GMat(g, c), M1)

\* public observations after a mutator: t_max, start(), end()
ObsChk(e, clause, tree) ==
  LET g == e.g  k == e.K  tm == GTMax(tree)
      stL == AEvG(g, k, tree, R0, "L")[1]
      stR == AEvG(g, k, tree, R0, "R")[1]
      enL == AEvG(g, k, tree, tm, "L")[1]
      enR == AEvG(g, k, tree, tm, "R")[1]
  IN ChkR(clause \o ".tmax", CloseR(D(e.tmax), tm, TolRep), D(e.tmax), tm)
     \o ChkR(clause \o ".start", ValOk(g, V(e.start), stL, stR), ValErr(g, V(e.start), stL), TolVal)
     \o ChkR(clause \o ".end", ValOk(g, V(e.end), enL, enR), ValErr(g, V(e.end), enL), TolVal)

TanOk(x, y) == RelOkV(x, y, TolDer)
\* Evaluation times that coincide with a breakpoint up to rounding (the library's knots are rounded sums /
\* differences of durations, the specification's are exact) may legitimately be evaluated on either side of it.
NearKnots(tree, t) == {bp \in GKnots(tree) : RLeq(RAbs(RSub(t, bp)), RMul(Dec(1, -12), RMax(R1, RAbs(t))))}
EvalChk(e, tree) ==
  LET g == e.g  k == e.K  t == D(e.t)
      near == NearKnots(tree, t)
      cands == IF near = {} THEN {<<t, "L">>}
               ELSE {<<t, "L">>, <<t, "R">>} \cup {<<bp, "L">> : bp \in near} \cup {<<bp, "R">> : bp \in near}
      val == V(e.val)  vel == V(e.vel)  acc == V(e.acc)
      Mv == GMat(g, val)
      Ok(c) == LET r == AEvG(g, k, tree, c[1], c[2])
               IN RelOkM(Mv, r[1], TolVal) /\ TanOk(vel, r[2]) /\ TanOk(acc, r[3])
      ref == AEvG(g, k, tree, t, "R")
  IN IF \E c \in cands : Ok(c) THEN <<>>
     ELSE (IF RelOkM(Mv, ref[1], TolVal) THEN <<>> ELSE Fail("C12.eval.value", RToStr(RelErrM(Mv, ref[1])), RToStr(TolVal)))
          \o (IF TanOk(vel, ref[2]) THEN <<>> ELSE Fail("C12.eval.vel", RToStr(RelErrV(vel, ref[2])), RToStr(TolDer)))
          \o (IF TanOk(acc, ref[3]) THEN <<>> ELSE Fail("C12.eval.acc", RToStr(RelErrV(acc, ref[3])), RToStr(TolDer)))
          \o Fail("C12.eval", "no admissible one-sided limit matches value, velocity and acceleration together", "")

\* C12.arclength (K = 3, commutative groups): integral over [0,t] of the component-wise absolute body velocity.
\* The abstract curve is flattened into pieces [T, V, u0, u1] (duration, control velocities, parameter range).
RECURSIVE Flatten(_)
RECURSIVE CropPieces(_, _, _, _, _)
CropPieces(ps, i, s, a, b) ==      \* pieces i.. of ps, piece i starting at time s; keep the part inside [a, b]
  IF i > Len(ps) THEN <<>>
  ELSE LET p == ps[i]  e == RAdd(s, p.T)
           lo == RMax(s, a)  hi == RMin(e, b)
           U(x) == RAdd(p.u0, RDiv(RMul(RSub(p.u1, p.u0), RSub(x, s)), p.T))
           rest == CropPieces(ps, i + 1, e, a, b)
       IN IF RLt(lo, hi) THEN <<[T |-> RSub(hi, lo), V |-> p.V, u0 |-> U(lo), u1 |-> U(hi)]>> \o rest ELSE rest
Flatten(c) ==
  CASE c.k = "Empty" -> <<>>
    [] c.k = "Seg" -> <<[T |-> c.T, V |-> c.V, u0 |-> R0, u1 |-> R1]>>
    [] c.k = "CV" -> <<[T |-> c.T, V |-> [i \in 1..3 |-> VScale(RDiv(c.T, RFromInt(3)), c.v)], u0 |-> R0, u1 |-> R1]>>
    [] c.k \in {"CatL", "CatG"} -> Flatten(c.x1) \o Flatten(c.x2)
    [] c.k = "Crop" -> CropPieces(Flatten(c.x), 1, R0, RMax(c.ta, R0), RMin(c.tb, GTMax(c.x)))
\* integral of |A u^2 + B u + C| over [ua, ub], exact up to the enclosure of the square root (2^-100)
AbsQuadInt(A, B, C, ua, ub) ==
  LET F(u) == RAdd(RAdd(RMul(RDiv(A, RFromInt(3)), RMul(u, RSq(u))), RMul(RDiv(B, R2), RSq(u))), RMul(C, u))
      disc == RSub(RSq(B), RMul(RFromInt(4), RMul(A, C)))
      roots == IF RSign(A) = 0
               THEN (IF RSign(B) = 0 THEN <<>> ELSE <<RNeg(RDiv(C, B))>>)
               ELSE IF RSign(disc) <= 0 THEN <<>>
               ELSE LET sq == SqrtLo(disc, 100)
                        r1 == RDiv(RSub(RNeg(B), sq), RMul(R2, A))  r2 == RDiv(RAdd(RNeg(B), sq), RMul(R2, A))
                    IN IF RLt(r1, r2) THEN <<r1, r2>> ELSE <<r2, r1>>
      inside == SelectSeq(roots, LAMBDA r : RLt(ua, r) /\ RLt(r, ub))
      pts == <<ua>> \o inside \o <<ub>>
      RECURSIVE Acc(_)
      Acc(i) == IF i >= Len(pts) THEN R0 ELSE RAdd(RAbs(RSub(F(pts[i + 1]), F(pts[i]))), Acc(i + 1))
  IN Acc(1)
\* arclength up to time t of component m
RECURSIVE ArcPieces(_, _, _, _, _)
ArcPieces(ps, i, s, t, m) ==
  IF i > Len(ps) \/ RLeq(t, s) THEN R0
  ELSE LET p == ps[i]  e == RAdd(s, p.T)
           hi == RMin(e, t)
           ub == RAdd(p.u0, RDiv(RMul(RSub(p.u1, p.u0), RSub(hi, s)), p.T))
           v1 == p.V[1][m]  v2 == p.V[2][m]  v3 == p.V[3][m]
           A == RMul(RFromInt(3), RAdd(RSub(v1, RMul(R2, v2)), v3))
           B == RMul(RFromInt(6), RSub(v2, v1))
           C == RMul(RFromInt(3), v1)
       IN RAdd(AbsQuadInt(A, B, C, p.u0, ub), ArcPieces(ps, i + 1, e, t, m))
ArcChk(e, tree) ==
  LET g == e.g  n == Dof(g)  t == D(e.t)  out == V(e.out)
      ps == Flatten(tree)
      want == RForce([m \in 1..n |-> ArcPieces(ps, 1, R0, t, m)])
  IN IF e.K # 3 \/ ~IsCommutative(g) \/ g.k # "R" THEN <<>>
     ELSE ChkR("C12.arclength", RelOkV(out, want, TolVal), RelErrV(out, want), TolVal)

---------------------------------------------------------------------------
\* per-event transition: <<regs', problems>>
Tuple1(vs) == [i \in 1..Len(vs) |-> vs[i][1]]     \* R^1 tangents as scalars
StepSeg(regs, e) ==
  LET g == e.g  k == e.K
      Vt == RForce([i \in 1..k |-> V(e.V[i])])
      tree == GSeg(D(e.T), Vt, V(e.ga))
      im == IF IsR1(g) THEN SC(k)!ISeg(D(e.T), Tuple1(Vt), D(e.ga[1])) ELSE SC(1)!IEmpty(R0)
  IN <<[regs EXCEPT ![e.dst] = [t |-> tree, i |-> im, ok |-> TRUE, ri |-> TRUE]],
       (IF IsR1(g) THEN RepChk(e, im) ELSE <<>>) \o ObsChk(e, "C12.eval", tree)>>

StepCV(regs, e) ==
  LET g == e.g  k == e.K  T == D(e.T)  v == V(e.v)
      tree == GCV(T, v, V(e.ga))
      im == IF IsR1(g) THEN SC(k)!ISeg(T, [i \in 1..k |-> RDiv(RMul(T, v[1]), RFromInt(k))], D(e.ga[1]))
            ELSE SC(1)!IEmpty(R0)
  IN <<[regs EXCEPT ![e.dst] = [t |-> tree, i |-> im, ok |-> TRUE, ri |-> TRUE]],
       (IF IsR1(g) THEN RepChk(e, im) ELSE <<>>) \o ObsChk(e, "C12.cv", tree)>>

StepCubic(regs, e) ==
  LET g == e.g  k == e.K  T == D(e.T)
      \* the constructor's own control velocities define the curve; the property constrains its ends
      Vt == RForce([i \in 1..k |-> V(e.Vs[1][i])])
      tree == GSeg(T, Vt, V(e.ga))
      im == IF IsR1(g) THEN SC(k)!ISeg(T, Tuple1(Vt), D(e.ga[1])) ELSE SC(1)!IEmpty(R0)
      a0 == AEvG(g, k, tree, R0, "R")
      a1 == AEvG(g, k, tree, T, "L")
  IN <<[regs EXCEPT ![e.dst] = [t |-> tree, i |-> im, ok |-> TRUE, ri |-> TRUE]],
       ChkR("C12.cubic.start", RelOkM(a0[1], GMat(g, V(e.ga)), TolVal), RelErrM(a0[1], GMat(g, V(e.ga))), TolVal)
       \o ChkR("C12.cubic.end", RelOkM(a1[1], GMat(g, V(e.gb)), TolVal), RelErrM(a1[1], GMat(g, V(e.gb))), TolVal)
       \o ChkR("C12.cubic.va", TanOk(a0[2], V(e.va)), RelErrV(a0[2], V(e.va)), TolDer)
       \o ChkR("C12.cubic.vb", TanOk(a1[2], V(e.vb)), RelErrV(a1[2], V(e.vb)), TolDer)
       \o ObsChk(e, "C12.cubic", tree)>>

StepCat(regs, e, local) ==
  LET g == e.g  k == e.K
      d == regs[e.dst]  s == regs[e.src]
      tree == IF d.t.k = "Empty" /\ ~local THEN s.t      \* concat_global onto an empty spline takes the other's start
              ELSE IF local THEN GCatL(d.t, s.t) ELSE GCatG(d.t, s.t)
      im == IF IsR1(g) THEN (IF local THEN SC(k)!IConcatLocal(d.i, s.i) ELSE SC(k)!IConcatGlobal(d.i, s.i)) ELSE d.i
      clause == IF local THEN "C12.concat_local" ELSE "C12.concat_global"
      okk == d.ok /\ s.ok
      rii == d.ri /\ s.ri
  IN <<[regs EXCEPT ![e.dst] = [t |-> tree, i |-> im, ok |-> okk, ri |-> rii]],
       IF ~okk THEN <<>>
       ELSE (IF IsR1(g) /\ rii THEN RepChk(e, im) ELSE <<>>) \o ObsChk(e, clause, tree)>>

StepCrop(regs, e) ==
  LET g == e.g  k == e.K
      s == regs[e.src]
      ta == D(e.ta)  tb == D(e.tb)  loc == e.loc = 1
      a == RMax(ta, R0)  b == RMin(tb, GTMax(s.t))
      \* the property determines crop for ta < tb (after clamping) with boundaries off value jumps
      NearJump(x) == \E j \in GJumps(g, k, s.t) : RLeq(RAbs(RSub(x, j)), RMul(Dec(1, -12), RMax(R1, RAbs(x))))
      indom == s.ok /\ RLt(a, b) /\ ~NearJump(a) /\ ~NearJump(b)
      tree == GCrop(s.t, ta, tb, loc)
      model == IsR1(g) /\ indom /\ s.ri
      r == IF model THEN SC(k)!ICrop(s.i, ta, tb, loc) ELSE [ok |-> TRUE, s |-> s.i]
      NearKnot(x) == \E j \in 1..Len(s.i.end_t) : RLeq(RAbs(RSub(x, s.i.end_t[j])), RMul(Dec(1, -12), RMax(R1, RAbs(x))))
      rep == IF model /\ r.ok THEN RepChk(e, r.s) ELSE <<>>
      sliver == model /\ r.ok /\ (NearKnot(a) \/ NearKnot(b)) /\ Len(rep) = 1 /\ rep[1].clause = "C12.rep.size"
  IN IF ~indom
     THEN <<[regs EXCEPT ![e.dst] = [t |-> tree, i |-> s.i, ok |-> FALSE, ri |-> FALSE]], <<>>>>
     ELSE <<[regs EXCEPT ![e.dst] = [t |-> tree, i |-> (IF r.ok THEN r.s ELSE s.i), ok |-> TRUE, ri |-> model /\ r.ok /\ ~sliver]],
            (IF model THEN (IF r.ok THEN (IF sliver THEN <<>> ELSE rep) ELSE Fail("TOOL.model", "model crop divides by zero", "")) ELSE <<>>)
            \o ObsChk(e, "C12.crop", tree)>>

\* make_local(): outside the listed properties.  The representation is compared with the model of the code
\* (IMakeLocal: only g0 is reset) and the outcome is COUNTED (coverage cell), never reported; the register leaves the
\* domain of the curve-level clauses because C12 does not say what the curve is afterwards.
MkLocalModelled(regs, e) == IsR1(e.g) /\ regs[e.dst].ok /\ regs[e.dst].ri
StepMkLocal(regs, e) ==
  LET d == regs[e.dst]
      im == IF IsR1(e.g) THEN SC(e.K)!IMakeLocal(d.i) ELSE d.i
      same == MkLocalModelled(regs, e) /\ RepChk(e, im) = <<>>
  IN <<[regs EXCEPT ![e.dst] = [t |-> d.t, i |-> im, ok |-> FALSE, ri |-> same]], <<>>>>

StepEval(regs, e) ==
  LET s == regs[e.src]
  IN <<regs, IF ~s.ok THEN <<>>
             ELSE IF ~(FinV(e.val) /\ FinV(e.vel) /\ FinV(e.acc)) THEN Fail("C12.eval.finite", "non-finite", "finite")
             ELSE EvalChk(e, s.t)>>

Step(regs, e) ==
  CASE e.op = "reset" -> <<[r \in 0..(NReg - 1) |-> EmptyReg(e.g)], <<>>>>
    [] e.op = "seg" -> StepSeg(regs, e)
    [] e.op = "cv" -> StepCV(regs, e)
    [] e.op = "cubic" -> StepCubic(regs, e)
    [] e.op = "copy" -> <<[regs EXCEPT ![e.dst] = regs[e.src]], <<>>>>
    [] e.op = "catl" -> StepCat(regs, e, TRUE)
    [] e.op = "catg" -> StepCat(regs, e, FALSE)
    [] e.op = "crop" -> StepCrop(regs, e)
    [] e.op = "mklocal" -> StepMkLocal(regs, e)
    [] e.op = "eval" -> StepEval(regs, e)
    [] e.op = "arclen" -> <<regs, IF regs[e.src].ok /\ FinV(e.out) THEN ArcChk(e, regs[e.src].t) ELSE <<>>>>
    [] OTHER -> <<regs, <<[clause |-> "TOOL.unknown_op", err |-> e.op, tol |-> ""]>>>>

Stratum(regs, e) ==
  CASE e.op = "eval" -> (IF regs[e.src].ok THEN regs[e.src].t.k ELSE "skipped")
    [] e.op = "crop" -> (IF e.loc = 1 THEN "loc" ELSE "glob")
    [] e.op = "mklocal" -> (IF ~MkLocalModelled(regs, e) THEN "unmodelled"
                            ELSE IF RepChk(e, SC(e.K)!IMakeLocal(regs[e.dst].i)) = <<>> THEN "as-modelled" ELSE "differs-from-model")
    [] OTHER -> "-"

---------------------------------------------------------------------------
Init == st = [l |-> 1, bad |-> <<>>, cov |-> <<>>,
              regs |-> [r \in 0..(NReg - 1) |-> EmptyReg([k |-> "R", n |-> 1])]]

\* The whole step is computed inside ONE operator applied to ONE state variable: TLC caches LET definitions
\* inside an expression, but not a LET written directly in an action (each use re-evaluates the oracle).
StepAll(s, e) ==
  LET r == Step(s.regs, e)
      res == r[2]
      sm == Stratum(s.regs, e)
      key == e.op \o "|" \o sm
  IN [l |-> s.l + 1,
      regs |-> r[1],
      bad |-> s.bad \o [i \in 1..Len(res) |-> [line |-> s.l, op |-> e.op, stratum |-> sm] @@ res[i]],
      cov |-> IF key \in DOMAIN s.cov THEN [s.cov EXCEPT ![key] = @ + 1] ELSE s.cov @@ (key :> 1)]

Next == st.l <= Len(Tr) /\ st' = StepAll(st, Tr[st.l])

Report ==
  st.l = Len(Tr) + 1 =>
    JsonSerialize(OutFile, [lines |-> Len(Tr), consumed |-> st.l - 1, bad |-> st.bad,
                            cov |-> [k \in DOMAIN st.cov |-> st.cov[k]]])
=============================================================================
