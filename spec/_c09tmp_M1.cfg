\* exhaustive configuration of the design model: both strategies, two consecutive runs on a fresh or a
\* shared strategy object, max_iter = 3 (Minimize_deep.cfg: one run, max_iter = 4), cost levels 0..2
CONSTANTS
  MaxIter = 4
  Runs = 2
  Levels = 2
  Kinds = {"ceres", "disney"}
  Variant = "coded"
  AssumeA1 = TRUE
  AssumeA2 = TRUE
  AssumeA3 = TRUE
SPECIFICATION Spec
INVARIANT TypeOK
INVARIANT Bound
INVARIANT StatusContract
INVARIANT Callbacks
INVARIANT Monotone
INVARIANT StratInv
INVARIANT Persist
INVARIANT FreshInit
CHECK_DEADLOCK FALSE
