#!/bin/sh
# Runs the repository's pinned suite with the SMOOTH_VERIF guard OFF.
set -e
cmake -G Ninja -S /repo -B /repo/_build >/dev/null
cmake --build /repo/_build -j16
ctest --test-dir /repo/_build -j8 --timeout 900
