"""C13 (BSpline is a C^(K-1), local, left-equivariant curve): design model spec/BSplineIndex.tla explored
exhaustively by TLC + trace validation of the "bspline" harness family against spec/TraceBSpline.tla."""
import concurrent.futures as cf
import json
import os
import re
import shutil
import subprocess

import verif as V

# number of TLC trace processes run at once (the design model runs next to them on one more)
NPROC = int(os.environ.get("VERIF_TLC_PROCS", V.NCPU))

# harness group numbers (harness/bspline.cpp) and their descriptors
GROUPS = {1: "SO3", 2: "SE2", 3: "SE3", 8: "R:3", 9: "B(SO3,R:3)", 20: "B(SE2,R:1,SO3)", 21: "R:1"}

PLAN = {
    # cases per (group, degree): case c has N = random | K+1 | 30 | K+2 for c % 4 = 0..3; (t0, dt) cycle through the
    # admissible combinations (see harness: combos()); difference profiles cycle generic | small | mixed (zeros, tiny, large) | near the injectivity radius
    "quick": dict(gs=[1, 2, 3, 8, 9], Ks=[1, 2, 3, 4, 5, 6], cases=2, nrand=5, nlocal=1, maxn=9, chunk=300,
                  model_cfg="BSplineIndex_quick.cfg", variants=["ge", "tmax"]),
    "thorough": dict(gs=[1, 2, 3, 8, 9, 20, 21], Ks=[1, 2, 3, 4, 5, 6], cases=10, nrand=30, nlocal=3, maxn=29, chunk=400, dense=1,
                     model_cfg="BSplineIndex.cfg", variants=["ge", "nolow", "noclamp", "tmax"]),
}

ASSUME = [
    "oracle: cardinal B-spline cumulative basis by the Cox-de Boor recursion over exact rationals; Eval = g_i * prod exp(Btilde_j(u) log(g_{j-1}^-1 g_j)) "
    "with the certified matrix exponential of the documented Lie-algebra matrices (spec/Groups.tla, RFun.tla); velocity/acceleration by the Leibniz rule on exact matrices",
    "the logarithms of the control-point differences are witnesses logged from the library (rminus) and verified by the specification: exp(hat v) = g_{j-1}^-1 g_j to 1e-13, "
    "rotation norm < pi; a rejected witness is a tool failure, not a verdict; the residual (< 1/16 of the value tolerance) is added to the tolerances",
    "within 4 ulp (of the largest of |t|, |t0|, |t - t0|) of a knot the outputs of either neighbouring window are accepted",
    "(t0, dt) strata: t0 in {0, 1, -1, -3.7, 1e3, +-(1.7e9 + 0.123456789), 1e12} x dt in {0.001, 0.01, 0.1, 1/3, 1, 7, 10} restricted to ulp(t0) <= 1e-3 dt; "
    "the oracle is evaluated at the exact rational value of every double t against the exact knots t0 + i dt (t0, dt = exact values of the doubles); "
    "pairs of times further apart than 2^-36 dt (large |t0|) are compared after allowing for the motion of the exact curve between them",
    "derivative outputs: 1e-7 relative to the largest entry of the exact vector plus an absolute floor 1e-9/dt^p (exact value zero or nearly zero); "
    "outside [t_min, t_max] only the value is specified (end value)",
    "design model BSplineIndex: exact rational arithmetic, real-valued control points (unit sequences, constant, ramp), K <= 3, N <= 8",
    "finite instantiation list: degrees 1..6, groups SO3 SE2 SE3 R^3 Bundle<SO3,R^3> (thorough: + Bundle<SE2,R^1,SO3>, R^1); sampled control points and times",
    "TLC, the JVM and the BigRat/RFun Java overrides (differentially tested against the plain TLA+ definitions) are trusted",
]


def jobs(gs):
    return [("bspline.cpp", [f"VH_GROUP={g}"]) for g in gs]


def run_harness(exe, args, out):
    r = subprocess.run([exe] + args + ["--out", out], capture_output=True, text=True, timeout=900)
    if r.returncode != 0:
        raise V.ToolFailure(f"harness {exe} {' '.join(args)} failed rc={r.returncode}: {r.stderr[-1000:]}")


def split_with_context(path, chunk):
    """split a trace into chunks of about `chunk` lines; every chunk starts with the definitions of the splines
    that are current at that point (slots A and B).  returns [(chunk_path, [original line index or -k for a
    repeated definition])], lines"""
    lines = open(path).read().splitlines()
    if lines and '"op":"TRUNCATED"' in lines[-1]:
        raise V.ToolFailure(f"trace {path} truncated (harness terminated abnormally)")
    chunks = []
    cur, idx = [], []
    defs = {}          # slot -> original index of the current definition

    def flush():
        nonlocal cur, idx
        if any(i >= 0 for i in idx):
            p = f"{path}.{len(chunks):04d}"
            with open(p, "w") as fh:
                fh.write("\n".join(cur) + "\n")
            chunks.append((p, idx))
        cur, idx = [], []

    for i, ln in enumerate(lines):
        is_def = ln.startswith('{"op":"spline"')
        slot = None
        if is_def:
            m = re.search(r'"slot":"(\w)"', ln)
            slot = m.group(1)
        # start a new chunk at a definition of slot A (a new case) once the chunk is half full, or when full
        n_real = sum(1 for k in idx if k >= 0)
        if (n_real >= chunk) or (is_def and slot == "A" and n_real >= chunk // 2):
            flush()
            for s in ("A", "B"):
                if s in defs and not (is_def and slot == s):
                    cur.append(lines[defs[s]])
                    idx.append(-1 - defs[s])
        if is_def:
            defs[slot] = i
            if slot == "A":
                defs.pop("B", None)
        cur.append(ln)
        idx.append(i)
    flush()
    return chunks, lines


def context_program(prog, k):
    """self-contained program for operation k: the spline definitions current at k + the operation itself"""
    last = {}
    for pl in prog[:k + 1]:
        if pl.startswith("spline"):
            slot = pl.split()[1]
            last[slot] = pl
            if slot == "A":
                last.pop("B", None)
    out = [last[s] for s in ("A", "B") if s in last]
    if not prog[k].startswith("spline"):
        out.append(prog[k])
    return out


def validate(oc, traces, chunk, workdir, timeout=3000):
    """traces: list of (trace path, program path, meta)"""
    work = []
    for path, progp, meta in traces:
        chunks, lines = split_with_context(path, chunk)
        prog = open(progp).read().splitlines() if progp else None
        if prog is not None and len(prog) != len(lines):
            raise V.ToolFailure(f"program {progp} and trace {path} differ in length")
        for cp, idx in chunks:
            work.append((cp, idx, meta, lines, prog))
    work.sort(key=lambda w: -os.path.getsize(w[0]))
    with cf.ThreadPoolExecutor(NPROC) as ex:
        futs = {ex.submit(V.validate_chunk, "TraceBSpline", "TraceBSpline.cfg", w[0], workdir, timeout): w for w in work}
        for f in cf.as_completed(futs):
            cp, idx, meta, lines, prog = futs[f]
            v, r = f.result()
            oc.states += r["distinct"]
            oc.transitions += max(r["states"] - 1, 0)
            oc.traces += 1
            oc.events += sum(1 for k in idx if k >= 0)
            gname = meta.get("group", "?")
            # coverage of repeated definitions is not counted twice
            rep = sum(1 for k in idx if k < 0)
            cov = dict(v.get("cov") or {})
            for key, n in cov.items():
                oc.cov[f"{gname}|{key}"] = oc.cov.get(f"{gname}|{key}", 0) + n
            if rep:
                oc.extra["repeated_definitions"] = oc.extra.get("repeated_definitions", 0) + rep
            for b in v["bad"]:
                k = idx[b["line"] - 1]
                if k < 0:
                    continue          # a repeated definition: already judged in the chunk that owns it
                b2 = dict(b)
                b2["line"] = k + 1
                b2["g"] = gname
                b2["sc"] = "d"
                b2["K"] = meta.get("K")
                if b["clause"].startswith("TOOL."):
                    raise V.ToolFailure(f"harness/witness problem (not a verdict): {b2} in {cp} (trace {meta})")
                payload = {"family": "bspline", "g": meta["g"], "K": meta["K"], "group": gname, "line": k + 1}
                if prog is not None:
                    payload["prog"] = context_program(prog, k)
                ev = json.loads(lines[k])
                payload["event"] = {kk: V.dequad(x) for kk, x in ev.items() if kk not in ("ctrl", "lg")}
                oc.bad_step(b2, payload)
            os.remove(cp)
            vp = cp + ".verdict.json"
            if os.path.exists(vp):
                os.remove(vp)
    for path, progp, meta in traces[:4]:
        with open(path) as fh:
            for i, ln in enumerate(fh):
                if i in (3, 60):
                    ev = json.loads(ln)
                    smp = {k: V.dequad(x) for k, x in ev.items() if k not in ("ctrl", "lg")}
                    smp["group"] = meta.get("group")
                    smp["K"] = meta.get("K")
                    oc.samples.append(smp)


BIG_REQUIRED = ["eval|inside", "eval|knot", "eval|below", "eval|above", "smooth|knot", "smooth|endknot", "local|out", "local|edge", "local|in",
                "equiv|inside", "equiv|knot", "const|inside", "const|knot"]


def missing_big_cells(cov):
    """the large-|t0| stratum (|t0| >= 1e9 with dt <= 0.01, cells ending in @big) must be visited by every clause family in
    every tier: event | position summed over groups and degrees"""
    have = set()
    for k, n in cov.items():
        if n > 0 and k.endswith("@big"):
            parts = k[:-4].split("|")
            if len(parts) >= 4:
                have.add(parts[1] + "|" + parts[3].split(".")[0])
    return [c for c in BIG_REQUIRED if c not in have]


def missing_cells(cov, groups, Ks):
    """cells that a tier is expected to visit (reported in quick, required in thorough)"""
    miss = []

    def count(key):
        return cov.get(key, 0) + cov.get(key + "@big", 0)

    for g in groups:
        for K in Ks:
            for cell in ([f"eval|K{K}|{p}" for p in ("below", "above", "inside", "knot")]
                         + [f"smooth|K{K}|knot", f"smooth|K{K}|endknot", f"local|K{K}|out", f"local|K{K}|edge", f"local|K{K}|in",
                            f"equiv|K{K}|inside", f"equiv|K{K}|knot", f"const|K{K}|inside", f"const|K{K}|knot"]):
                if count(f"{g}|{cell}") + count(f"{g}|{cell}.coarse") == 0:
                    miss.append(f"{g}|{cell}")
    gen = [k.split("|", 3)[-1].replace("@big", "") for k in cov if "|spline|" in k and "|gen," in k]
    for t0c in ("t0=0", "t0<0", "t0>0", "t0>=100", "|t0|>=1e9"):
        for dtc in ("dt<=.01", "dt<.2", "dt<.5", "dt<2", "dt>=2"):
            if not any(f",{t0c},{dtc}," in x for x in gen):
                miss.append(f"spline gen {t0c} {dtc}")
    for nc in ("N=K+1", "N=30", "N.."):
        if not any(x.endswith(nc) for x in gen):
            miss.append(f"spline gen {nc}")
    return miss


def run_models(oc, cfg, variants, workdir):
    """design model: exhaustive run on the model that mirrors the code + seeded specification mutants that must be rejected"""
    r = V.run_tlc("BSplineIndex", cfg, workdir, workers=1, timeout=3000, extra=("-noGenerateSpecTE",))
    if r["rc"] != 0 or "No error has been found" not in r["out"]:
        inv = re.findall(r"Invariant (\w+) is violated", r["out"])
        if inv:
            # a violated invariant of the model that mirrors the code: a finding only if the real code shows it too
            # (the traces decide); here it means the model and the abstract curve disagree -> reported as a tool problem
            raise V.ToolFailure(f"design model BSplineIndex ({cfg}) violates {inv}: model or abstract specification is wrong\n{r['out'][-1500:]}")
        raise V.ToolFailure(f"TLC failed on BSplineIndex ({cfg}) rc={r['rc']}:\n{r['out'][-1500:]}")
    oc.states += r["distinct"]
    oc.transitions += r["states"]
    oc.extra["design_model"] = {"module": "BSplineIndex", "cfg": cfg, "states": r["states"], "distinct": r["distinct"], "depth": r["depth"]}
    base = open(os.path.join(V.SPEC, "BSplineIndex_quick.cfg")).read().replace("MaxN = 8", "MaxN = 5")
    rejected = {}
    for v in variants:
        p = os.path.join(workdir, f"BSplineIndex_mut_{v}.cfg")
        with open(p, "w") as fh:
            fh.write(base.replace('Variant = "code"', f'Variant = "{v}"'))
        rm = V.run_tlc("BSplineIndex", p, workdir, workers=1, timeout=1200, extra=("-noGenerateSpecTE",))
        inv = re.findall(r"Invariant (\w+) is violated", rm["out"])
        if not inv:
            raise V.ToolFailure(f"seeded specification mutant '{v}' of BSplineIndex was not rejected (vacuous invariants?)\n{rm['out'][-800:]}")
        rejected[v] = inv[0]
    oc.extra["design_model"]["seeded_spec_mutants_rejected"] = rejected


def check(prop, tier, seed, replay=None):
    assert prop == "C13"
    oc = V.Outcome(prop, tier, seed)
    workdir = os.path.join(V.BUILD, "work", f"{prop}_{os.getpid()}")
    os.makedirs(workdir, exist_ok=True)
    try:
        return _check(oc, prop, tier, seed, replay, workdir)
    finally:
        shutil.rmtree(workdir, ignore_errors=True)


def _run_prog(exe, K, prog_lines, workdir, name):
    progp = os.path.join(workdir, f"{name}.prog")
    with open(progp, "w") as fh:
        fh.write("\n".join(prog_lines) + "\n")
    out = os.path.join(workdir, f"{name}.ndjson")
    run_harness(exe, ["--K", str(K), "--prog", progp], out)
    return out, progp


def _check(oc, prop, tier, seed, replay, workdir):
    traces = []
    model_future = None
    pool = cf.ThreadPoolExecutor(2)
    if replay:
        rp = json.load(open(replay))
        exe = V.build_one(*jobs([rp["g"]])[0])
        out, progp = _run_prog(exe, rp["K"], rp["prog"], workdir, "replay")
        traces.append((out, progp, {"family": "bspline", "g": rp["g"], "K": rp["K"], "group": GROUPS.get(rp["g"], "?"), "replay_of": replay}))
        oc.known = {"open": [], "fixed": []}      # a replay reports what it sees
        chunk = 100000
    else:
        cfg = PLAN[tier]
        chunk = cfg["chunk"]
        model_future = pool.submit(run_models, oc, cfg["model_cfg"], cfg["variants"], workdir)
        V.version_include()     # generate version.hpp once, before the parallel compiles (build_many races on it)
        exes = V.build_many(jobs(cfg["gs"]))
        runs = []
        for g, exe in zip(cfg["gs"], exes):
            for K in cfg["Ks"]:
                out = os.path.join(workdir, f"g{g}_K{K}.ndjson")
                progp = os.path.join(workdir, f"g{g}_K{K}.prog")
                # case numbers start at cases*K so that the sizes N = random | K+1 | 30 | K+2 rotate over the degrees
                # every (group, degree) continues the list of admissible (t0, dt) combinations where the previous one stopped
                combo0 = (cfg["gs"].index(g) * len(cfg["Ks"]) + cfg["Ks"].index(K)) * cfg["cases"]
                args = ["--K", str(K), "--seed", str(seed), "--first", str(cfg["cases"] * K), "--cases", str(cfg["cases"]), "--combo0", str(combo0),
                        "--nrand", str(cfg["nrand"]),
                        "--nlocal", str(cfg["nlocal"]), "--maxn", str(cfg["maxn"]), "--dense", str(cfg.get("dense", 0)), "--dump", progp]
                runs.append((exe, args, out, progp, g, K))
        with cf.ThreadPoolExecutor(V.NCPU) as ex:
            list(ex.map(lambda r: run_harness(r[0], r[1], r[2]), runs))
        for exe, args, out, progp, g, K in runs:
            traces.append((out, progp, {"family": "bspline", "g": g, "K": K, "group": GROUPS[g], "seed": seed, "tier": tier}))
        # witnesses of open known findings of this property
        for i, ent in enumerate(oc.known["open"]):
            w = ent.get("witness")
            if ent.get("property") != prop or not w or w.get("family") != "bspline":
                continue
            exe = V.build_one(*jobs([w["g"]])[0])
            out, progp = _run_prog(exe, w["K"], w["prog"], workdir, f"witness_{i}")
            traces.append((out, progp, {"family": "bspline", "g": w["g"], "K": w["K"], "group": GROUPS.get(w["g"], "?"), "witness_of": i}))
    validate(oc, traces, chunk, workdir)
    if model_future is not None:
        model_future.result()
    pool.shutdown()

    # no vacuity: every clause family must have been exercised
    need = ["spline|", "eval|", "smooth|", "local|", "equiv|", "const|"]
    if not replay:
        big_missing = missing_big_cells(oc.cov)
        oc.extra["empty_large_t0_cells"] = big_missing
        if big_missing:
            raise V.ToolFailure(f"coverage: the stratum |t0| >= 1e9, dt <= 0.01 was not visited by: {big_missing}")
        seen = {k.split("|")[1] for k in oc.cov}
        for n in need:
            if n.rstrip("|") not in seen:
                raise V.ToolFailure(f"coverage: no '{n}' event was validated")
        if not any(".otherwindow" in k for k in oc.cov):
            oc.notes.append("no knot time needed the neighbouring window in this run")
        missing = missing_cells(oc.cov, [GROUPS[g] for g in PLAN[tier]["gs"]], PLAN[tier]["Ks"])
        oc.extra["empty_cells"] = missing
        if missing and tier == "thorough":
            raise V.ToolFailure(f"coverage: {len(missing)} required cell(s) empty in the thorough tier: {missing[:12]}")
    rule = ("one evaluation = one recorded call of BSpline::operator()(t, vel, acc) (or t_min/t_max at construction) validated by TLC against the exact "
            "reference curve / the relational clause; cells = group | event | degree | position of t relative to the knots, re-derived by the "
            "trace spec; states/transitions include the exhaustive run of the design model BSplineIndex")
    rc = oc.finish("model_checking", rule, ASSUME,
                   extra_cov={"groups": sorted({m["group"] for _, _, m in traces}),
                              "degrees": sorted({m["K"] for _, _, m in traces}),
                              "checker_cmd": "java tlc2.TLC -config TraceBSpline.cfg TraceBSpline.tla (one process per trace chunk); "
                                             "java tlc2.TLC -config BSplineIndex*.cfg BSplineIndex.tla"})
    return rc
